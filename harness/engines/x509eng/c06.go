package x509eng

import (
	"bytes"
	"crypto"
	"crypto/md5"
	"crypto/sha1"
	"crypto/sha256"
	"encoding/hex"
	"encoding/json"
	"encoding/pem"
	"fmt"
	"math/big"
	"reflect"
	"strings"

	ctx509 "github.com/zmap/zcrypto/ct/x509"
	zasn1 "github.com/zmap/zcrypto/encoding/asn1"
	zx509 "github.com/zmap/zcrypto/x509"

	"verifharness/internal/core"
	"verifharness/internal/der"
)

func init() {
	core.RegisterMeta("C06", core.Meta{
		Rule: "accepted certificates from the independent generator (genuine self-signed, self-issued with corrupted signature, issuer==subject signed by another key, issuer!=subject signed by the " +
			"own key, all key types of the pool) and structure-aware mutations of real / zcrypto-created certificates; Raw* compared with the sub-encodings located by an independent DER reader, " +
			"fingerprints recomputed with Go's crypto/*, Version against the encoded INTEGER, SelfSigned against (issuer bytes == subject bytes AND signature verifies under the certificate's own SPKI " +
			"with Go's standard library / math/big), ValidityPeriod against NotAfter-NotBefore; CT leg: families = one TBS with the CT poison and/or an SCT list (0-2 SCTs) inserted at every position " +
			"of the extension list, all FingerprintNoCT equal and different from the serial+1 control; non-trivial = accepted certificate on which every applicable field was compared, or a CT family " +
			"with >= 3 accepted members; name leg: certificates whose issuer and subject are equal as printed but different as bytes (string type, RDN grouping, order inside a SET, case, " +
			"whitespace), with different-name and equal-bytes controls, each signed by its own key and by another key; PSS leg: self-issued RSA-PSS certificates (SHA-256/384/512) signed " +
			"correctly, with salt lengths 0 / 20 / hash-1 / hash+1 / maximum, with PKCS#1 v1.5 under a PSS identifier and vice versa, and with an MGF1 hash different from the message hash; " +
			"multi-parse leg: bundles of 2-5 accepted certificates in random order through x509.ParseCertificates, ct/x509.ParseCertificates and CertPool.AppendCertsFromPEM, the i-th result " +
			"deep-equal (every exported field, JSON bytes) to ParseCertificate of the i-th DER alone, plus parse A, parse B, parse A again; distinct by hash of the DER bytes / of the family base",
		MinNontrivial:         8000,
		MinNontrivialThorough: 250000,
		Shards:                16,
		GoMaxProcs:            2,
		Assumptions: []string{
			"issuer 'equals' subject is byte equality of the two encodings: names that are equal only as printed (other string type, RDN grouping, SET order, case, whitespace) are different names",
			"self-signature is decided only for key/algorithm combinations the independent verifier can decide with certainty (sane RSA, ECDSA P-224..P-521 with strict DER signatures, Ed25519, DSA with hash <= q); others are counted as undecided",
		},
	}, runC06)
}

type c06Input struct {
	Mode string   `json:"mode"`
	Hex  string   `json:"hex,omitempty"`
	Desc string   `json:"desc,omitempty"`
	Fam  []string `json:"family,omitempty"`
	// Bundle: the DER certificates of a multi-parse case, in bundle order
	Bundle []string `json:"bundle,omitempty"`
}

type rawMode struct {
	raw  []byte
	mode bool
}

// looseNameEqual: same attribute types and values after case folding and space collapsing, string types ignored.
func looseNameEqual(a, b *der.Node) bool {
	flat := func(n *der.Node) ([]string, bool) {
		var out []string
		if !n.HasKids() {
			return nil, false
		}
		for _, rdn := range n.Children {
			if !rdn.HasKids() {
				return nil, false
			}
			for _, atv := range rdn.Children {
				if len(atv.Children) != 2 {
					return nil, false
				}
				v := atv.Children[1]
				s := string(v.Body())
				if v.IsUniversal(der.TagBMPString) {
					var sb strings.Builder
					b := v.Body()
					for i := 0; i+1 < len(b); i += 2 {
						sb.WriteRune(rune(b[i])<<8 | rune(b[i+1]))
					}
					s = sb.String()
				}
				s = strings.Join(strings.Fields(strings.ToLower(s)), " ")
				out = append(out, hex.EncodeToString(atv.Children[0].Body())+"="+s)
			}
		}
		return out, true
	}
	fa, ok1 := flat(a)
	fb, ok2 := flat(b)
	if !ok1 || !ok2 {
		return true // cannot tell: treat as possibly equal (not asserted)
	}
	return strings.Join(fa, "\x00") == strings.Join(fb, "\x00")
}

// c06Check compares one accepted certificate with the independent reading of its bytes.
// It returns true when every applicable field was compared.
func c06Check(c *core.Ctx, cert *zx509.Certificate, raw []byte, mode bool, desc, id string) bool {
	in := c06Input{Mode: modeName(mode), Hex: hex.EncodeToString(raw), Desc: desc}
	viol := func(key, format string, a ...any) {
		c.Violation(key, fmt.Sprintf(format, a...)+"\nhow: "+desc+" ("+modeName(mode)+" mode)", id, in)
	}
	root, rest, err := der.Parse(raw)
	if err != nil || len(rest) != 0 || len(root.Children) != 3 || !root.Children[0].HasKids() {
		c.Count("independent_reader_could_not_locate_fields", 1)
		return false
	}
	tbs := root.Children[0]
	b := 0
	if len(tbs.Children) > 0 && tbs.Children[0].IsContext(0) && tbs.Children[0].Constructed {
		b = 1
	}
	if len(tbs.Children) < b+6 {
		c.Count("independent_reader_could_not_locate_fields", 1)
		return false
	}
	sub := func(n *der.Node) []byte { return raw[n.Start:n.End] }
	issuer, subject, spki := tbs.Children[b+2], tbs.Children[b+4], tbs.Children[b+5]
	// The comparison is only meaningful when the TLV structure itself has the shape of a certificate. zcrypto's
	// asn1 does not check that an EXPLICIT wrapper ends where its inner element ends, so it can accept inputs whose
	// true TLV structure is something else (e.g. a [0] wrapper whose length swallows the serial number); that laxity
	// belongs to the strict-DER property (C19), not to this one: such inputs are counted and skipped.
	isSeq := func(n *der.Node) bool { return n.IsUniversal(der.TagSequence) && n.Constructed && n.Children != nil }
	shapeOK := tbs.Children[b].IsPrimitive(der.TagInteger) && isSeq(tbs.Children[b+1]) && isSeq(issuer) && isSeq(tbs.Children[b+3]) &&
		len(tbs.Children[b+3].Children) == 2 && isSeq(subject) && isSeq(spki) && len(spki.Children) == 2 &&
		isSeq(root.Children[1]) && root.Children[2].IsPrimitive(der.TagBitString)
	if b == 1 {
		w := tbs.Children[0]
		shapeOK = shapeOK && w.Children != nil && len(w.Children) == 1 && w.Children[0].IsPrimitive(der.TagInteger)
	}
	if !shapeOK {
		c.Count("tlv_structure_is_not_certificate_shaped_(not_asserted)", 1)
		return false
	}
	cmp := func(field string, got, want []byte) {
		if !bytes.Equal(got, want) {
			viol("raw-field:"+field, "%s is not the exact sub-encoding of the input\n got  %s\n want %s", field, core.Hex(got), core.Hex(want))
		}
	}
	cmp("Raw", cert.Raw, raw)
	cmp("RawTBSCertificate", cert.RawTBSCertificate, sub(tbs))
	cmp("RawIssuer", cert.RawIssuer, sub(issuer))
	cmp("RawSubject", cert.RawSubject, sub(subject))
	cmp("RawSubjectPublicKeyInfo", cert.RawSubjectPublicKeyInfo, sub(spki))

	m5 := md5.Sum(raw)
	s1 := sha1.Sum(raw)
	s256 := sha256.Sum256(raw)
	sp := sha256.Sum256(sub(spki))
	st := sha256.Sum256(sub(tbs))
	ss := sha256.Sum256(append(append([]byte{}, sub(spki)...), sub(subject)...))
	fp := func(field string, got zx509.CertificateFingerprint, want []byte) {
		if !bytes.Equal(got, want) {
			viol("fingerprint:"+field, "%s = %x, expected %x", field, []byte(got), want)
		}
	}
	fp("FingerprintMD5", cert.FingerprintMD5, m5[:])
	fp("FingerprintSHA1", cert.FingerprintSHA1, s1[:])
	fp("FingerprintSHA256", cert.FingerprintSHA256, s256[:])
	fp("SPKIFingerprint", cert.SPKIFingerprint, sp[:])
	fp("TBSCertificateFingerprint", cert.TBSCertificateFingerprint, st[:])
	fp("SPKISubjectFingerprint", cert.SPKISubjectFingerprint, ss[:])

	// version
	encoded := int64(0)
	versionOK := true
	if b == 1 {
		v := tbs.Children[0].Child(0)
		if v == nil || !v.IsUniversal(der.TagInteger) || len(v.Content) == 0 || len(v.Content) > 7 {
			versionOK = false
		} else {
			bi := new(big.Int).SetBytes(v.Content)
			if v.Content[0]&0x80 != 0 {
				bi.Sub(bi, new(big.Int).Lsh(big.NewInt(1), uint(8*len(v.Content))))
			}
			encoded = bi.Int64()
		}
	}
	if versionOK {
		if int64(cert.Version) != encoded+1 {
			viol("version", "Version = %d, encoded version is %d", cert.Version, encoded)
		}
	} else {
		c.Count("version_undecided", 1)
	}

	// validity period: NotAfter-NotBefore in seconds (sub-second parts, possible in permissive mode, may round either way)
	dsec := cert.NotAfter.Unix() - cert.NotBefore.Unix()
	if dsec > -9000000000 && dsec < 9000000000 { // time.Duration saturates near 292 years
		exactNs := dsec*1000000000 + int64(cert.NotAfter.Nanosecond()-cert.NotBefore.Nanosecond())
		diff := int64(cert.ValidityPeriod)*1000000000 - exactNs
		if diff <= -1000000000 || diff >= 1000000000 {
			viol("validity-period", "ValidityPeriod = %d, NotAfter-NotBefore = %d ns", cert.ValidityPeriod, exactNs)
		}
	}

	// self-signed flag
	complete := versionOK
	rawEq := bytes.Equal(sub(issuer), sub(subject))
	switch {
	case !rawEq:
		c.Count("selfsigned_decided:issuer!=subject", 1)
		if looseNameEqual(issuer, subject) {
			c.Count("selfsigned_decided:issuer!=subject_as_bytes_but_equal_as_printed", 1)
		}
		if cert.SelfSigned {
			viol("self-signed:set-although-issuer-differs-from-subject", "SelfSigned = true but issuer and subject encodings differ")
		}
	default:
		sigNode := root.Children[2]
		innerAlg, outerAlg := tbs.Children[b+1], root.Children[1]
		verdict := triUnknown
		if sigNode.IsUniversal(der.TagBitString) && !sigNode.Constructed && bytes.Equal(sub(innerAlg), sub(outerAlg)) {
			sb := sigNode.Body()
			if len(sb) >= 1 && sb[0] == 0 {
				verdict = verifyWithSPKI(spki, innerAlg, sub(tbs), sb[1:])
			}
		}
		switch verdict {
		case triYes:
			c.Count("selfsigned_decided:verifies", 1)
			if !cert.SelfSigned {
				viol("self-signed:not-set-for-genuine-self-signature", "issuer == subject and the signature verifies under the certificate's own key (independent verifier), but SelfSigned = false")
			}
		case triNo:
			c.Count("selfsigned_decided:does-not-verify", 1)
			if cert.SelfSigned {
				viol("self-signed:set-although-signature-does-not-verify", "issuer == subject but the signature does not verify under the certificate's own key (independent verifier), yet SelfSigned = true")
			}
		default:
			c.Count("selfsigned_undecided", 1)
			complete = false
		}
	}
	return complete
}

// ctFamily builds and checks one CT family. Returns the number of accepted members.
func c06CTFamily(c *core.Ctx, g *gen, id string) int {
	var p *certParts
	for {
		_, pp, _ := g.cert()
		if pp.Version != 2 || pp.Serial.Sign() <= 0 {
			continue
		}
		// drop CT extensions and duplicates the generator may have put in
		var exts []*der.Node
		for _, e := range pp.Exts {
			oid := der.ParseOID(e.Children[0].Content)
			if oidEq(oid, oidExtSCT) || oidEq(oid, oidExtPoison) {
				continue
			}
			exts = append(exts, e)
		}
		pp.Exts = exts
		p = pp
		break
	}
	zasn1.AllowPermissiveParsing = false
	parse := func(raw []byte) *zx509.Certificate {
		var cert *zx509.Certificate
		var err error
		if pi := core.Guard(func() { cert, err = zx509.ParseCertificate(raw) }); pi != nil || err != nil {
			return nil
		}
		return cert
	}
	baseExts := p.Exts
	if len(baseExts) == 0 {
		p.Exts = nil
	}
	baseRaw := p.assemble()
	base := parse(baseRaw)
	if base == nil {
		c.Count("ct_template_rejected", 1)
		return 0
	}
	poison := extension(oidExtPoison, true, der.Null())
	mkSCT := func() *der.Node { return extension(oidExtSCT, false, der.Octets(g.sctList(g.n(3)))) }
	type member struct {
		what string
		raw  []byte
		fp   []byte
	}
	members := []member{{"base", baseRaw, base.FingerprintNoCT}}
	insert := func(pos int, e ...*der.Node) []*der.Node {
		out := append([]*der.Node{}, baseExts[:pos]...)
		out = append(out, e...)
		return append(out, baseExts[pos:]...)
	}
	try := func(what string, exts []*der.Node) {
		p.Exts = exts
		raw := p.assemble()
		if cert := parse(raw); cert != nil {
			members = append(members, member{what, raw, cert.FingerprintNoCT})
		} else {
			c.Count("ct_member_rejected", 1)
		}
	}
	for pos := 0; pos <= len(baseExts); pos++ {
		try(fmt.Sprintf("poison@%d", pos), insert(pos, poison.Clone()))
		try(fmt.Sprintf("sct@%d", pos), insert(pos, mkSCT()))
	}
	// both, at two random positions
	if len(baseExts) > 0 {
		i, j := g.n(len(baseExts)+1), g.n(len(baseExts)+1)
		both := insert(i, mkSCT())
		both = append(append(append([]*der.Node{}, both[:j]...), poison.Clone()), both[j:]...)
		try(fmt.Sprintf("sct@%d+poison@%d", i, j), both)
	}
	// control: other content differs
	p.Exts = baseExts
	if len(baseExts) == 0 {
		p.Exts = nil
	}
	p.Serial = new(big.Int).Add(p.Serial, big.NewInt(1))
	ctrl := parse(p.assemble())
	fam := make([]string, len(members))
	for i, m := range members {
		fam[i] = m.what + ":" + hex.EncodeToString(m.raw)
	}
	in := c06Input{Mode: "strict", Fam: fam, Desc: fmt.Sprintf("template with %d non-CT extensions", len(baseExts))}
	if len(baseExts) == 0 {
		c.Count("ct_families_without_other_extensions", 1)
	}
	for _, m := range members[1:] {
		if !bytes.Equal(m.fp, members[0].fp) {
			c.Violation("fingerprint-no-ct:changes-with-ct-extension", fmt.Sprintf("FingerprintNoCT of %q = %x, of the certificate without CT extensions = %x", m.what, m.fp, members[0].fp), id, in)
			break
		}
	}
	if ctrl != nil && bytes.Equal(ctrl.FingerprintNoCT, members[0].fp) {
		c.Violation("fingerprint-no-ct:constant", "FingerprintNoCT unchanged when the serial number changes", id, in)
	}
	c.Count("ct_families", 1)
	c.Count("ct_family_members", len(members))
	return len(members)
}

func runC06(c *core.Ctx) {
	startFlag := zasn1.AllowPermissiveParsing
	defer func() { zasn1.AllowPermissiveParsing = startFlag }()
	if len(c.Replay) > 0 {
		var in c06Input
		if json.Unmarshal(c.Replay, &in) == nil && in.Hex != "" {
			raw, _ := hex.DecodeString(in.Hex)
			if cert, mode, ok := parseEither(c, raw); ok {
				c06Check(c, cert, raw, mode, "replay", c.OnlyCase)
				c.Eval(1)
			}
			return
		}
		if json.Unmarshal(c.Replay, &in) == nil && len(in.Bundle) > 0 {
			var group []rawMode
			for _, h := range in.Bundle {
				raw, _ := hex.DecodeString(h)
				group = append(group, rawMode{raw, in.Mode == "permissive"})
			}
			c06Multi(c, group, c.OnlyCase)
			c.Eval(1)
			return
		}
		// CT families are regenerated from the seed (full shard re-run)
	}
	ig := newInputGen(c.Rng)
	n := c.PerShard(c.Pick(30000, 1200000))
	seeds := ig.fams["cert"]
	var accepted []rawMode
	for i := 0; i < n; i++ {
		var raw []byte
		desc := ""
		switch k := c.Rng.IntN(10); {
		case k < 6:
			var tr certTruth
			raw, _, tr = ig.g.cert()
			desc = fmt.Sprintf("%s issuer==subject:%v own-key:%v corrupted:%v", tr.Desc, tr.IssuerEqSubject, tr.SignedByOwnKey, tr.SigCorrupted)
		case k < 9:
			raw, desc = ig.mutateDER(ig.pickSeed("cert"), "cert")
		default:
			raw, desc = seeds[(i*c.NShards+c.Shard)%len(seeds)], "seed"
		}
		cert, mode, ok := parseEither(c, raw)
		if !ok {
			continue
		}
		c.Eval(1)
		c.Count("accepted_"+modeName(mode), 1)
		id := fmt.Sprintf("s%d-%d", c.Shard, i)
		accepted = append(accepted, rawMode{raw, mode})
		if c06Check(c, cert, raw, mode, desc, id) {
			c.Nontrivial(raw)
		}
		if cert.SelfSigned {
			c.Count("self_signed_flag_set", 1)
		}
		if c.WantSample() && desc != "seed" && cert.SelfSigned {
			c.Sample(map[string]string{"how": desc, "der": core.Hex(raw)})
		}
	}
	// name leg: equal as printed, different as bytes
	gn := &gen{r: c.SubRng("names")}
	nn := c.PerShard(c.Pick(6000, 200000))
	for i := 0; i < nn; i++ {
		raw, desc := gn.nameVariantCert()
		cert, mode, ok := parseEither(c, raw)
		c.Count("name_leg_generated", 1)
		if !ok {
			c.Count("name_leg_rejected", 1)
			continue
		}
		c.Eval(1)
		c.Count("name_leg:"+desc[:strings.IndexByte(desc, ' ')], 1)
		accepted = append(accepted, rawMode{raw, mode})
		if c06Check(c, cert, raw, mode, desc, fmt.Sprintf("names-s%d-%d", c.Shard, i)) {
			c.Nontrivial(raw)
		}
	}
	// RSA-PSS leg: self-issued certificates signed correctly and with every near miss of the declared parameters
	gp := &gen{r: c.SubRng("pss")}
	np := c.PerShard(c.Pick(1600, 50000))
	for i := 0; i < np; i++ {
		raw, desc := gp.pssSelfIssuedCert()
		cert, mode, ok := parseEither(c, raw)
		c.Count("pss_leg_generated", 1)
		if !ok {
			c.Count("pss_leg_rejected", 1)
			continue
		}
		c.Eval(1)
		c.Count("pss_leg:"+desc[:strings.IndexByte(desc, ' ')], 1)
		accepted = append(accepted, rawMode{raw, mode})
		if cert.SelfSigned {
			c.Count("pss_leg_self_signed_flag_set", 1)
		}
		if c06Check(c, cert, raw, mode, desc, fmt.Sprintf("pss-s%d-%d", c.Shard, i)) {
			c.Nontrivial(raw)
		}
	}
	// multi-parse leg: each certificate of a bundle must come out as if it had been parsed alone
	rm := c.SubRng("multi")
	if len(accepted) >= 5 {
		for i, ng := 0, c.PerShard(c.Pick(8000, 250000)); i < ng; i++ {
			k := 2 + rm.IntN(4)
			group := make([]rawMode, 0, k)
			seen := map[string]bool{}
			for len(group) < k {
				x := accepted[rm.IntN(len(accepted))]
				if !seen[string(x.raw)] {
					seen[string(x.raw)] = true
					group = append(group, x)
				}
			}
			c.Eval(1)
			if c06Multi(c, group, fmt.Sprintf("multi-s%d-%d", c.Shard, i)) {
				c.Nontrivial("multi", c.Shard, i, c.Seed)
			}
		}
	}
	// CT leg
	g := &gen{r: c.SubRng("ct")}
	nf := c.PerShard(c.Pick(600, 16000))
	for i := 0; i < nf; i++ {
		id := fmt.Sprintf("ct-s%d-%d", c.Shard, i)
		if m := c06CTFamily(c, g, id); m >= 3 {
			c.Nontrivial("ctfam", id, c.Seed)
		}
		c.Eval(1)
	}
}

// nameVariantCert builds a certificate whose issuer and subject stand in a chosen relation
// (kind) and that is signed either by its own key or by another key.
func (g *gen) nameVariantCert() ([]byte, string) {
	_, fast := signers()
	own := fast[g.n(len(fast))]
	sg := own
	signedBy := "own-key"
	if g.chance(35) {
		for sg = fast[g.n(len(fast))]; sg == own; sg = fast[g.n(len(fast))] {
		}
		signedBy = "other-key"
	}
	vals := []string{"Example Org", "Verif Test CA", "example.com", "ACME Inc", "Unit 7", "DE"}
	type atv struct {
		oid []int
		val string
		tag int
	}
	tags := []int{der.TagPrintableString, der.TagUTF8String, der.TagIA5String, der.TagT61String, der.TagBMPString, der.TagVisibleString}
	nAtv := 2 + g.n(3)
	base := make([]atv, nAtv)
	oids := [][]int{{2, 5, 4, 10}, {2, 5, 4, 3}, {2, 5, 4, 11}, {2, 5, 4, 7}, {2, 5, 4, 8}}
	g.r.Shuffle(len(oids), func(i, j int) { oids[i], oids[j] = oids[j], oids[i] })
	for i := range base {
		base[i] = atv{oids[i], vals[g.n(len(vals))], tags[g.n(2)]}
	}
	enc := func(a atv) *der.Node {
		if a.tag == der.TagBMPString {
			return der.Seq(der.OID(a.oid...), der.BMP(a.val))
		}
		return der.Seq(der.OID(a.oid...), der.Str(a.tag, a.val))
	}
	// plain: one RDN per attribute
	plain := func(as []atv) *der.Node {
		var rdns []*der.Node
		for _, a := range as {
			rdns = append(rdns, der.Set(enc(a)))
		}
		return der.Seq(rdns...)
	}
	issuer := plain(base)
	var subject *der.Node
	kind := []string{"string-type", "rdn-grouping", "set-order", "case", "whitespace", "different", "equal-bytes"}[g.n(7)]
	alt := append([]atv(nil), base...)
	switch kind {
	case "string-type":
		i := g.n(len(alt))
		for t := alt[i].tag; t == alt[i].tag; {
			alt[i].tag = tags[g.n(len(tags))]
		}
		subject = plain(alt)
	case "rdn-grouping": // the first two attributes as one multi-valued RDN in one name, as two RDNs in the other
		grouped := der.Seq(append([]*der.Node{der.Set(enc(base[0]), enc(base[1]))}, plain(base[2:]).Children...)...)
		subject = grouped
		if g.chance(50) {
			issuer, subject = grouped, plain(base)
		}
	case "set-order": // same multi-valued RDN, attributes in the other order
		issuer = der.Seq(append([]*der.Node{der.Set(enc(base[0]), enc(base[1]))}, plain(base[2:]).Children...)...)
		subject = der.Seq(append([]*der.Node{der.Set(enc(base[1]), enc(base[0]))}, plain(base[2:]).Children...)...)
	case "case":
		i := g.n(len(alt))
		if g.chance(50) {
			alt[i].val = strings.ToUpper(alt[i].val)
		} else {
			alt[i].val = strings.ToLower(alt[i].val)
		}
		if alt[i].val == base[i].val {
			alt[i].val = strings.ToLower(base[i].val) + "x"
			kind = "different"
		}
		subject = plain(alt)
	case "whitespace":
		i := g.n(len(alt))
		alt[i].val = []string{alt[i].val + " ", " " + alt[i].val, strings.Replace(alt[i].val, " ", "  ", 1) + " "}[g.n(3)]
		subject = plain(alt)
	case "different":
		i := g.n(len(alt))
		alt[i].val += " 2"
		subject = plain(alt)
	default:
		subject = issuer.Clone()
	}
	alg, fn := sg.sign(g.r)
	nb, na := g.genTime(), g.genTime()
	if na.Before(nb) {
		nb, na = na, nb
	}
	p := &certParts{Version: 2, Serial: new(big.Int).SetBytes(append([]byte{1}, g.bytes(8)...)), SigAlg: alg, Issuer: issuer, Subject: subject,
		NotBefore: der.Time(nb), NotAfter: der.Time(na), SPKI: own.spki(), signFn: fn}
	if g.chance(50) {
		p.Exts = []*der.Node{extension([]int{2, 5, 29, 19}, true, der.Seq(der.Bool(true)))}
	}
	return p.assemble(), kind + " signed-by:" + signedBy + " key:" + own.name
}

// pssSelfIssuedCert builds a self-issued certificate (issuer bytes == subject bytes) with an RSA pool key whose
// signature relates to the declared RSA-PSS parameters in a chosen way.
func (g *gen) pssSelfIssuedCert() ([]byte, string) {
	_, fast := signers()
	h := []crypto.Hash{crypto.SHA256, crypto.SHA384, crypto.SHA512}[g.n(3)]
	var sg *signer
	for {
		sg = fast[g.n(len(fast))]
		if sg.kind == "rsa" && (sg.rsa.N.BitLen()+6)/8 >= 2*h.Size()+3 {
			break
		}
	}
	key := sg.rsa
	emBits := key.N.BitLen() - 1
	emLen := (emBits + 7) / 8
	name := g.name()
	nb, na := g.genTime(), g.genTime()
	if na.Before(nb) {
		nb, na = na, nb
	}
	p := &certParts{Version: 2, Serial: new(big.Int).SetBytes(append([]byte{1}, g.bytes(8)...)), Issuer: name, Subject: name.Clone(),
		NotBefore: der.Time(nb), NotAfter: der.Time(na), SPKI: sg.spki()}
	p.SigAlg = der.Seq(der.OID(oidRSAPSS...), pssParams(h))
	pssSign := func(saltLen int) func(tbs []byte) []byte {
		salt := g.bytes(saltLen)
		return func(tbs []byte) []byte {
			em := emsaPSS(h, hashOf(h, tbs), salt, emBits)
			if em == nil {
				return g.bytes((key.N.BitLen() + 7) / 8)
			}
			return rsaPrivOp(key, em)
		}
	}
	v15Sign := func(tbs []byte) []byte {
		return rsaPrivOp(key, emsaPKCS1v15(h, hashOf(h, tbs), (key.N.BitLen()+7)/8))
	}
	kind := ""
	switch g.n(10) {
	case 0, 1, 2:
		kind, p.signFn = "correct", pssSign(h.Size())
	case 3:
		kind, p.signFn = "salt-0", pssSign(0)
	case 4:
		kind, p.signFn = "salt-20", pssSign(20)
	case 5:
		kind, p.signFn = "salt-hash-1", pssSign(h.Size()-1)
	case 6:
		kind, p.signFn = "salt-hash+1", pssSign(h.Size()+1)
	case 7:
		kind, p.signFn = "salt-max", pssSign(emLen-h.Size()-2)
	case 8:
		if g.chance(50) {
			kind, p.signFn = "pkcs1v15-under-pss-identifier", v15Sign
		} else {
			kind, p.signFn = "pss-under-pkcs1v15-identifier", pssSign(h.Size())
			p.SigAlg = der.Seq(der.OID(map[crypto.Hash][]int{crypto.SHA256: oidSHA256RSA, crypto.SHA384: oidSHA384RSA, crypto.SHA512: oidSHA512RSA}[h]...), der.Null())
		}
	default: // MGF1 hash different from the message hash in the parameters (signature made with the message hash)
		kind, p.signFn = "mgf1-hash-differs", pssSign(h.Size())
		other := crypto.SHA256
		if h == crypto.SHA256 {
			other = crypto.SHA384
		}
		params := pssParams(h)
		params.Children[1] = der.Explicit(1, der.Seq(der.OID(oidMGF1...), der.Seq(der.OID(hashOID(other)...), der.Null())))
		p.SigAlg = der.Seq(der.OID(oidRSAPSS...), params)
	}
	if g.chance(50) {
		p.Exts = []*der.Node{extension([]int{2, 5, 29, 19}, true, der.Seq(der.Bool(true)))}
	}
	return p.assemble(), kind + " hash:" + itoa(h.Size()*8) + " key:" + sg.name
}

// c06Multi checks that the certificates of a bundle do not influence each other: the i-th result of every
// multi-certificate entry point equals, field by field and in its JSON bytes, the result of parsing the i-th DER
// alone; and parsing A, then B, then A again gives the first result. Returns true when all comparisons ran.
func c06Multi(c *core.Ctx, group []rawMode, id string) bool {
	mode := false
	var bundle []string
	var concat, pemText []byte
	for _, x := range group {
		mode = mode || x.mode
		bundle = append(bundle, hex.EncodeToString(x.raw))
		concat = append(concat, x.raw...)
		pemText = append(pemText, pem.EncodeToMemory(&pem.Block{Type: "CERTIFICATE", Bytes: x.raw})...)
	}
	zasn1.AllowPermissiveParsing = mode
	defer func() { zasn1.AllowPermissiveParsing = false }()
	in := c06Input{Mode: modeName(mode), Bundle: bundle, Desc: fmt.Sprintf("bundle of %d certificates", len(group))}
	// references: each certificate alone
	alone := make([]*zx509.Certificate, len(group))
	aloneJSON := make([][]byte, len(group))
	ctAlone := make([]*ctx509.Certificate, len(group))
	for i, x := range group {
		var err error
		if core.Guard(func() { alone[i], err = zx509.ParseCertificate(x.raw) }) != nil || err != nil {
			c.Count("multi_member_not_accepted_alone_in_group_mode", 1)
			return false
		}
		core.Guard(func() { aloneJSON[i], _ = json.Marshal(alone[i]) })
		core.Guard(func() {
			if cc, e := ctx509.ParseCertificate(x.raw); e == nil {
				ctAlone[i] = cc
			}
		})
	}
	compare := func(entry string, got []*zx509.Certificate) {
		if len(got) != len(group) {
			c.Violation("multi-parse:"+entry+":count", fmt.Sprintf("%s returned %d certificates for a bundle of %d", entry, len(got), len(group)), id, in)
			return
		}
		for i := range got {
			if d := deepDiff(reflect.ValueOf(got[i]), reflect.ValueOf(alone[i]), "Certificate", 0); d != "" {
				c.Violation("multi-parse:"+entry+":"+diffKey(d), fmt.Sprintf("certificate #%d of the bundle differs from the same DER parsed alone at %s", i, d), id, in)
				return
			}
			var j []byte
			core.Guard(func() { j, _ = json.Marshal(got[i]) })
			if !bytes.Equal(j, aloneJSON[i]) {
				dd := firstDiff(aloneJSON[i], j)
				c.Violation("multi-parse:"+entry+":json", fmt.Sprintf("JSON of certificate #%d of the bundle differs from the same DER parsed alone at byte %d:\n…%s\n…%s", i, dd, ctxAt(aloneJSON[i], dd), ctxAt(j, dd)), id, in)
				return
			}
		}
	}
	// x509.ParseCertificates
	var multi []*zx509.Certificate
	var err error
	if core.Guard(func() { multi, err = zx509.ParseCertificates(concat) }) != nil {
		return false // C01's subject
	}
	if err != nil {
		c.Violation("multi-parse:x509.ParseCertificates:rejects", "every certificate is accepted alone but the concatenation is rejected: "+errStr(err), id, in)
	} else {
		compare("x509.ParseCertificates", multi)
	}
	c.Count("multi_parse:x509.ParseCertificates", 1)
	// PEM bundle through a CertPool
	var fromPool []*zx509.Certificate
	if core.Guard(func() {
		p := zx509.NewCertPool()
		p.AppendCertsFromPEM(pemText)
		fromPool = p.Certificates()
	}) == nil {
		compare("x509.CertPool.AppendCertsFromPEM", fromPool)
		c.Count("multi_parse:CertPool.AppendCertsFromPEM", 1)
	}
	// ct/x509.ParseCertificates against ct/x509.ParseCertificate
	allCT := true
	for _, x := range ctAlone {
		allCT = allCT && x != nil
	}
	if allCT {
		var ctMulti []*ctx509.Certificate
		var e error
		if core.Guard(func() { ctMulti, e = ctx509.ParseCertificates(concat) }) == nil && e == nil {
			if len(ctMulti) != len(group) {
				c.Violation("multi-parse:ct/x509.ParseCertificates:count", fmt.Sprintf("returned %d certificates for a bundle of %d", len(ctMulti), len(group)), id, in)
			} else {
				for i := range ctMulti {
					if d := deepDiff(reflect.ValueOf(ctMulti[i]), reflect.ValueOf(ctAlone[i]), "Certificate", 0); d != "" {
						c.Violation("multi-parse:ct/x509.ParseCertificates:"+diffKey(d), fmt.Sprintf("certificate #%d of the bundle differs from the same DER parsed alone at %s", i, d), id, in)
						break
					}
				}
			}
			c.Count("multi_parse:ct/x509.ParseCertificates", 1)
		}
	}
	// parse A, parse B, parse A again
	var again *zx509.Certificate
	if core.Guard(func() { again, err = zx509.ParseCertificate(group[0].raw) }) == nil && err == nil {
		if d := deepDiff(reflect.ValueOf(again), reflect.ValueOf(alone[0]), "Certificate", 0); d != "" {
			c.Violation("reparse:x509.ParseCertificate:"+diffKey(d), "parsing A, then other certificates, then A again gives a different result at "+d, id, in)
		}
	}
	return true
}
