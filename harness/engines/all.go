// Package engines links every property engine into the vcheck binary.
package engines

import (
	_ "verifharness/engines/lrueng"
)
