// Package engines links every property engine into the vcheck binary.
package engines

import (
	_ "verifharness/engines/asn1eng"
	_ "verifharness/engines/cteng"
	_ "verifharness/engines/grapheng"
	_ "verifharness/engines/jsoneng"
	_ "verifharness/engines/lrueng"
	_ "verifharness/engines/pkieng"
	_ "verifharness/engines/revoceng"
	_ "verifharness/engines/rsaeng"
	_ "verifharness/engines/sigeng"
	_ "verifharness/engines/tlsfaulteng"
	_ "verifharness/engines/tlskdfeng"
	_ "verifharness/engines/tlslogeng"
	_ "verifharness/engines/tlspaireng"
	_ "verifharness/engines/x509eng"
)
