// C23 — the RSA fork (github.com/zmap/zcrypto/rsa) computes what standard RSA computes.
//
// Oracles (written from the property statement):
//
//	cross-acceptance   every zcrypto ciphertext/signature is decrypted/accepted by Go's crypto/rsa with the
//	                   same key numbers, and every crypto/rsa ciphertext/signature by zcrypto;
//	verifier agreement for e < 2^31: zcrypto.Verify*(sig) == nil  <=>  crypto/rsa.Verify*(sig) == nil, on genuine,
//	                   wrong-digest, wrong-hash, wrong-salt and mutated signatures;
//	large exponents    (e >= 2^31, no stdlib counterpart): the public operation is recomputed with a tiny
//	                   square-and-multiply reference and the value is *transferred* to a companion key with the
//	                   same modulus and e = 65537, where crypto/rsa decides;
//	malformed keys     public-key operations on keys with nil / zero / negative N or E return an error and do not
//	                   panic (even / tiny values: no panic).
//
// Keys come from internal/keys only; keys with other exponents or odd modulus lengths are constructed from
// pool primes (a modular inverse, no prime generation).
package rsaeng

import (
	"bytes"
	"crypto"
	_ "crypto/md5"
	stdrsa "crypto/rsa"
	_ "crypto/sha1"
	_ "crypto/sha256"
	_ "crypto/sha512"
	"encoding/hex"
	"fmt"
	"hash"
	"io"
	"math/big"
	"math/rand/v2"
	"regexp"
	"sort"
	"strings"

	zrsa "github.com/zmap/zcrypto/rsa"

	"verifharness/internal/core"
	"verifharness/internal/keys"
)

func init() {
	core.RegisterMeta("C23", core.Meta{
		Rule: "keys: every pool key (512..4096 bit, 2..5 primes, e=65537) plus keys constructed from pool primes (e in {3,5,17,257,2^31-1}, mixed prime sizes giving modulus lengths = 1 mod 8, " +
			"random exponents of 32..N+64 bits), each in three private-key shapes (no Precompute, Precompute(), Precomputed filled by hand); operations: PKCS#1 v1.5 and OAEP encryption/decryption incl. session keys " +
			"and crypto.Decrypter options, PKCS#1 v1.5 signatures over every hash prefix zcrypto knows incl. hash 0 and MD5SHA1, PSS with every salt mode; each output goes to the other implementation's inverse; " +
			"verifiers are compared on genuine, wrong-input and mutated signatures and on signatures/ciphertexts of harness-crafted encoded messages (short or damaged padding, wrong block type, trailing garbage, PSS trailer and top bits); every operation is also run at the exact size limits relative to the modulus length k (hash-0 messages of k-13..k-8 octets incl. harness-signed blocks with 6..11 padding octets, PKCS#1 v1.5 messages k-13..k-9, session keys, OAEP k-2h-4..k-2h, PSS salts emLen-hLen-4..emLen-hLen), where refusal must coincide with crypto/rsa's. non-trivial = a case where the other implementation accepted the output (cross-acceptance) or both verifiers/decrypters reached a " +
			"verdict on an input derived from a genuine signature/ciphertext; distinct by (key, shape, operation, parameters, message/mutation)",
		MinNontrivial:         50000,
		MinNontrivialThorough: 300000,
		Shards:                16,
		Env:                   []string{"GODEBUG=rsa1024min=0"},
		Assumptions: []string{
			"Go 1.25 crypto/rsa (run with GODEBUG=rsa1024min=0 so that 512/768-bit keys are usable) is the standard implementation the statement refers to",
			"math/big multiplication, division and modular inverse are correct (used by the 12-line square-and-multiply reference and to construct keys from pool primes); big.Int.Exp is only trusted for the companion-key transfer, never for the value under test",
			"hash functions compared are those both implementations know for PKCS#1 v1.5 (MD5, SHA-1, SHA-224..512, MD5+SHA1, RIPEMD-160, none); the newer stdlib also knows SHA-512/t and SHA-3 prefixes the fork documents as 'unsupported hash function'",
			"decryption of ciphertexts whose length differs from the modulus length is outside the statement (input validation, not RSA computation): disagreements there are counted, not asserted",
			"private-key operations on keys whose embedded public part is malformed are the wider reading of the last sentence of the statement: panics there are counted (wider_reading_*), not asserted",
		},
	}, runC23)
}

// ---------------------------------------------------------------------------
// deterministic randomness

type detReader struct{ r *rand.Rand }

func (d detReader) Read(p []byte) (int, error) {
	for i := 0; i < len(p); {
		v := d.r.Uint64()
		for j := 0; j < 8 && i < len(p); j++ {
			p[i] = byte(v)
			v >>= 8
			i++
		}
	}
	return len(p), nil
}

func randBytes(r *rand.Rand, n int) []byte {
	b := make([]byte, n)
	detReader{r}.Read(b)
	return b
}

// randBits returns a uniformly random integer with exactly the given bit length.
func randBits(r *rand.Rand, bits int) *big.Int {
	b := randBytes(r, (bits+7)/8)
	v := new(big.Int).SetBytes(b)
	v.SetBit(v, bits-1, 1)
	for i := v.BitLen() - 1; i >= bits; i-- {
		v.SetBit(v, i, 0)
	}
	return v
}

// ---------------------------------------------------------------------------
// reference exponentiation (left-to-right square and multiply; no big.Int.Exp)

func refPow(b, e, n *big.Int) *big.Int {
	r := big.NewInt(1)
	r.Mod(r, n)
	t := new(big.Int)
	for i := e.BitLen() - 1; i >= 0; i-- {
		t.Mul(r, r)
		r.Mod(t, n)
		if e.Bit(i) == 1 {
			t.Mul(r, b)
			r.Mod(t, n)
		}
	}
	return r
}

// ---------------------------------------------------------------------------
// keys

type keySpec struct {
	id     string
	N, E   *big.Int
	D      *big.Int
	Primes []*big.Int
	// std is the same key for crypto/rsa (nil when E does not fit in 31 bits).
	std *stdrsa.PrivateKey
	// comp is the companion key (same modulus, e = 65537) for large exponents.
	comp  *stdrsa.PrivateKey
	compD *big.Int
	heavy bool // >= 3072 bit: reduced case counts
}

func (k *keySpec) size() int { return (k.N.BitLen() + 7) / 8 }

func (k *keySpec) class() string {
	s := "2p"
	if len(k.Primes) > 2 {
		s = "mp"
	}
	if k.std == nil {
		s += ":bigE"
	}
	return s
}

func (k *keySpec) describe() map[string]any {
	ps := make([]string, len(k.Primes))
	for i, p := range k.Primes {
		ps[i] = p.Text(16)
	}
	return map[string]any{"key": k.id, "n": k.N.Text(16), "e": k.E.Text(16), "d": k.D.Text(16), "primes": ps}
}

var one = big.NewInt(1)

// construct builds a key from primes and a public exponent; ok=false if e is not invertible.
func construct(id string, primes []*big.Int, e *big.Int, useLambda bool) (*keySpec, bool) {
	n := big.NewInt(1)
	phi := big.NewInt(1)
	lambda := big.NewInt(1)
	for _, p := range primes {
		n.Mul(n, p)
		pm := new(big.Int).Sub(p, one)
		phi.Mul(phi, pm)
		g := new(big.Int).GCD(nil, nil, lambda, pm)
		lambda.Mul(lambda, pm)
		lambda.Div(lambda, g)
	}
	m := phi
	if useLambda {
		m = lambda
	}
	d := new(big.Int).ModInverse(e, m)
	if d == nil {
		return nil, false
	}
	ps := make([]*big.Int, len(primes))
	for i, p := range primes {
		ps[i] = new(big.Int).Set(p)
	}
	return &keySpec{id: id, N: n, E: new(big.Int).Set(e), D: d, Primes: ps, heavy: n.BitLen() >= 3072}, true
}

func stdKey(n *big.Int, e int, d *big.Int, primes []*big.Int) *stdrsa.PrivateKey {
	pk := &stdrsa.PrivateKey{PublicKey: stdrsa.PublicKey{N: new(big.Int).Set(n), E: e}, D: new(big.Int).Set(d)}
	for _, p := range primes {
		pk.Primes = append(pk.Primes, new(big.Int).Set(p))
	}
	pk.Precompute()
	return pk
}

type poolPrime struct {
	p    *big.Int
	bits int
	src  string // "<poolIndex>.<primeIndex>"
}

// buildKeys returns the key list of this run; identical in every shard (GlobalRng).
func buildKeys(c *core.Ctx) []*keySpec {
	pool := keys.Get()
	g := c.GlobalRng("keys")
	var out []*keySpec
	var primes []poolPrime
	byBits := map[int][]poolPrime{}
	// A: pool keys as they are
	for i, pk := range pool.RSA {
		k := &keySpec{id: fmt.Sprintf("pool%d:%d/%dp/e%d", i, pk.Bits, len(pk.Primes), pk.E),
			N: pk.N, E: big.NewInt(int64(pk.E)), D: pk.D, Primes: pk.Primes, heavy: pk.Bits >= 3072}
		k.std = pk.Std()
		out = append(out, k)
		for j, p := range pk.Primes {
			pp := poolPrime{p, p.BitLen(), fmt.Sprintf("%d.%d", i, j)}
			primes = append(primes, pp)
			byBits[pp.bits] = append(byBits[pp.bits], pp)
		}
	}
	pick := func(from []poolPrime, n int) []poolPrime {
		idx := g.Perm(len(from))
		var r []poolPrime
		for _, i := range idx[:n] {
			r = append(r, from[i])
		}
		return r
	}
	ident := func(ps []poolPrime) (string, []*big.Int) {
		var s []string
		var v []*big.Int
		for _, p := range ps {
			s = append(s, p.src)
			v = append(v, p.p)
		}
		return strings.Join(s, "+"), v
	}
	distinct := func(ps []poolPrime) bool {
		for i := range ps {
			for j := 0; j < i; j++ {
				if ps[i].p.Cmp(ps[j].p) == 0 {
					return false
				}
			}
		}
		return true
	}
	// B: small exponents other than 65537, primes of equal size taken from different pool keys
	smallE := []int64{3, 5, 17, 257, 1<<31 - 1}
	type shape struct{ bits, n int }
	shapes := []shape{{256, 2}, {512, 2}, {1024, 2}, {512, 3}, {512, 4}, {384, 2}, {512, 5}}
	nB := c.Pick(14, 60)
	for tries, made := 0, 0; made < nB && tries < 4000; tries++ {
		sh := shapes[tries%len(shapes)]
		e := smallE[(tries/len(shapes))%len(smallE)]
		cand := byBits[sh.bits]
		if len(cand) < sh.n {
			continue
		}
		ps := pick(cand, sh.n)
		if !distinct(ps) {
			continue
		}
		src, v := ident(ps)
		k, ok := construct(fmt.Sprintf("ctor:e%d:%s", e, src), v, big.NewInt(e), made%2 == 0)
		if !ok {
			continue
		}
		k.std = stdKey(k.N, int(e), k.D, k.Primes)
		if k.std.Validate() != nil {
			c.Count("std_refused_constructed_key", 1)
			continue
		}
		out = append(out, k)
		made++
	}
	// C: mixed prime sizes; prefer modulus lengths = 1 mod 8 (PSS emBits multiple of 8) and other odd lengths
	nC := c.Pick(8, 40)
	var want1, other []*keySpec
	for tries := 0; tries < 6000 && (len(want1) < (nC+1)/2 || len(other) < nC/2); tries++ {
		np := 2 + g.IntN(2)
		ps := pick(primes, np)
		if !distinct(ps) {
			continue
		}
		src, v := ident(ps)
		k, ok := construct("ctor:mixed:e65537:"+src, v, big.NewInt(65537), tries%2 == 0)
		if !ok || k.N.BitLen() > 2100 {
			continue
		}
		if k.N.BitLen()%8 == 1 {
			if len(want1) < (nC+1)/2 {
				want1 = append(want1, k)
			}
		} else if k.N.BitLen()%8 != 0 && len(other) < nC/2 {
			other = append(other, k)
		}
	}
	mixed := append(want1, other...)
	for _, k := range mixed {
		k.std = stdKey(k.N, 65537, k.D, k.Primes)
		if k.std.Validate() != nil {
			c.Count("std_refused_constructed_key", 1)
			continue
		}
		out = append(out, k)
	}
	// D: large exponents on pool moduli (companion = the pool key itself)
	nD := c.Pick(16, 80)
	var cands []int
	for i, pk := range pool.RSA {
		if pk.Bits <= 2048 {
			cands = append(cands, i)
		}
	}
	for made, tries := 0, 0; made < nD && tries < 2000; tries++ {
		i := cands[tries%len(cands)]
		pk := pool.RSA[i]
		var ebits int
		switch tries % 8 {
		case 0:
			ebits = 32
		case 1:
			ebits = 33
		case 2:
			ebits = 64
		case 3:
			ebits = 65 + g.IntN(192)
		case 4:
			ebits = pk.Bits / 2
		case 5:
			ebits = pk.Bits - 1 - g.IntN(8)
		case 6:
			ebits = pk.Bits + 1 + g.IntN(64)
		default:
			ebits = 32 + g.IntN(pk.Bits)
		}
		e := randBits(g, ebits)
		e.SetBit(e, 0, 1)
		k, ok := construct(fmt.Sprintf("ctor:bigE%d:pool%d", ebits, i), pk.Primes, e, made%2 == 0)
		if !ok {
			continue
		}
		k.comp = out[i].std
		k.compD = pk.D
		out = append(out, k)
		made++
	}
	return out
}

// zcrypto private key in one of three shapes.
var shapeNames = []string{"plain", "precompute", "byhand"}

func zKey(k *keySpec, shape int) *zrsa.PrivateKey {
	zk := &zrsa.PrivateKey{PublicKey: zrsa.PublicKey{N: new(big.Int).Set(k.N), E: new(big.Int).Set(k.E)}, D: new(big.Int).Set(k.D)}
	for _, p := range k.Primes {
		zk.Primes = append(zk.Primes, new(big.Int).Set(p))
	}
	switch shape {
	case 1:
		zk.Precompute()
	case 2:
		p, q := zk.Primes[0], zk.Primes[1]
		zk.Precomputed.Dp = new(big.Int).Mod(k.D, new(big.Int).Sub(p, one))
		zk.Precomputed.Dq = new(big.Int).Mod(k.D, new(big.Int).Sub(q, one))
		zk.Precomputed.Qinv = new(big.Int).ModInverse(q, p)
		r := new(big.Int).Mul(p, q)
		zk.Precomputed.CRTValues = []zrsa.CRTValue{}
		for _, pr := range zk.Primes[2:] {
			zk.Precomputed.CRTValues = append(zk.Precomputed.CRTValues, zrsa.CRTValue{
				Exp:   new(big.Int).Mod(k.D, new(big.Int).Sub(pr, one)),
				Coeff: new(big.Int).ModInverse(r, pr),
				R:     new(big.Int).Set(r),
			})
			r = new(big.Int).Mul(r, pr)
		}
	}
	return zk
}

// ---------------------------------------------------------------------------
// per-(key, shape) environment

type env struct {
	c     *core.Ctx
	k     *keySpec
	zk    *zrsa.PrivateKey
	shape string
	rng   *rand.Rand
	n     int
	reps  int // multiplier for random repetitions
	item  int // index of the (key, shape) item: rotates the hash subsets of the quick tier
	full  bool
}

func (e *env) reader() io.Reader {
	return detReader{rand.New(rand.NewPCG(e.rng.Uint64(), e.rng.Uint64()))}
}

func (e *env) caseID(op string) string {
	e.n++
	return fmt.Sprintf("%s/%s/%s#%d", e.k.id, e.shape, op, e.n)
}

func (e *env) input(op string, kv ...any) map[string]any {
	m := e.k.describe()
	m["shape"] = e.shape
	m["op"] = op
	for i := 0; i+1 < len(kv); i += 2 {
		key := kv[i].(string)
		switch v := kv[i+1].(type) {
		case []byte:
			m[key] = hex.EncodeToString(v)
		default:
			m[key] = v
		}
	}
	return m
}

// viol reports a violation; what identifies the failing relation (stable), detail is free text.
func (e *env) viol(what, detail, op string, kv ...any) {
	e.c.Violation(what+":"+e.k.class()+":"+e.shape, detail, e.caseID(op), e.input(op, kv...))
}

var reZFrame = regexp.MustCompile(`(?m)^github\.com/zmap/zcrypto/(rsa\.(?:\(\*?\w+\)\.)?[\w.]+)`)

// panicKey is a witness key "panic:<value class>@<first zcrypto/rsa frame>"; core.Classify truncates method
// frames such as rsa.(*PublicKey).Size at the parenthesis, so the frame is extracted here.
func panicKey(pi *core.PanicInfo) string {
	frame := "?"
	if m := reZFrame.FindStringSubmatch(pi.Stack); m != nil {
		frame = strings.TrimSuffix(m[1], "...")
	}
	val := pi.Value
	switch {
	case strings.Contains(val, "nil pointer dereference"):
		val = "nil-dereference"
	case strings.Contains(val, "index out of range"):
		val = "index-out-of-range"
	case strings.Contains(val, "slice bounds out of range"):
		val = "slice-bounds-out-of-range"
	case strings.Contains(val, "division by zero"):
		val = "division-by-zero"
	default:
		val = strings.TrimPrefix(pi.Key, "panic:")
		if i := strings.LastIndexByte(val, '@'); i >= 0 {
			val = val[:i]
		}
	}
	return "panic:" + val + "@" + frame
}

// z runs a zcrypto call under the panic guard; false means it panicked (reported).
func (e *env) z(op string, f func(), kv ...any) bool {
	if pi := core.Guard(f); pi != nil {
		e.c.Violation(panicKey(pi), "panic in "+op+": "+pi.Value+"\n"+pi.Stack, e.caseID(op), e.input(op, kv...))
		return false
	}
	return true
}

func (e *env) nontrivial(parts ...any) {
	e.c.Nontrivial(append([]any{e.k.id, e.shape}, parts...)...)
}

func hashName(h crypto.Hash) string {
	if h == 0 {
		return "none"
	}
	return h.String()
}

// ---------------------------------------------------------------------------
// mutations

type mutation struct {
	name    string
	b       []byte
	sameLen bool
}

func leftPad(v *big.Int, k int) []byte {
	b := v.Bytes()
	if len(b) >= k {
		return b
	}
	out := make([]byte, k)
	copy(out[k-len(b):], b)
	return out
}

func mutate(r *rand.Rand, base []byte, n *big.Int, flips int) []mutation {
	k := len(base)
	var out []mutation
	add := func(name string, b []byte) { out = append(out, mutation{name, b, len(b) == k}) }
	flip := func(bit int) []byte {
		b := append([]byte(nil), base...)
		b[bit/8] ^= 1 << (7 - bit%8)
		return b
	}
	if k > 0 {
		for i := 0; i < flips; i++ {
			bit := r.IntN(8 * k)
			add(fmt.Sprintf("flip-bit-%d", bit), flip(bit))
		}
		add("flip-top-bit", flip(0))
		add("flip-low-bit", flip(8*k-1))
	}
	v := new(big.Int).SetBytes(base)
	d := new(big.Int).Sub(n, v)
	add("N-minus-x", leftPad(d.Abs(d), k))
	add("x-plus-N", leftPad(new(big.Int).Add(v, n), k)) // k or k+1 bytes
	add("all-zero", make([]byte, k))
	add("one", leftPad(big.NewInt(1), k))
	add("N-minus-1", leftPad(new(big.Int).Sub(n, one), k))
	add("N", leftPad(n, k))
	add("random", randBytes(r, k))
	add("leading-zero-added", append([]byte{0}, base...))
	if k > 0 {
		add("first-byte-removed", append([]byte(nil), base[1:]...))
		add("last-byte-removed", append([]byte(nil), base[:k-1]...))
	}
	add("byte-appended", append(append([]byte(nil), base...), byte(r.IntN(256))))
	add("empty", []byte{})
	return out
}

// ---------------------------------------------------------------------------
// suites for keys crypto/rsa can use (e < 2^31)

var pkcsSignHashes = []crypto.Hash{crypto.MD5, crypto.SHA1, crypto.SHA224, crypto.SHA256, crypto.SHA384, crypto.SHA512, crypto.MD5SHA1, crypto.RIPEMD160, 0}
var pssHashes = []crypto.Hash{crypto.SHA1, crypto.SHA224, crypto.SHA256, crypto.SHA384, crypto.SHA512, crypto.MD5}
var oaepHashes = []crypto.Hash{crypto.SHA1, crypto.SHA256, crypto.SHA512}

func errStr(err error) string {
	if err == nil {
		return "<nil>"
	}
	return err.Error()
}

func (e *env) suiteEncryptPKCS1() {
	k := e.k.size()
	std := e.k.std
	lens := []int{0, 1, k - 11}
	for i := 0; i < e.reps; i++ {
		if k-12 >= 2 {
			lens = append(lens, 2+e.rng.IntN(k-12-1))
		}
	}
	for _, l := range lens {
		if l < 0 {
			continue
		}
		msg := randBytes(e.rng, l)
		e.c.Eval(1)
		// zcrypto encrypts, crypto/rsa decrypts
		var cz []byte
		var err error
		if !e.z("EncryptPKCS1v15", func() { cz, err = zrsa.EncryptPKCS1v15(e.reader(), &e.zk.PublicKey, msg) }, "msg", msg) {
			continue
		}
		if err != nil {
			e.viol("cross:EncryptPKCS1v15:zcrypto-refuses-valid-message", errStr(err), "EncryptPKCS1v15", "msg", msg)
			continue
		}
		pt, serr := stdrsa.DecryptPKCS1v15(nil, std, cz)
		if serr != nil || !bytes.Equal(pt, msg) {
			e.viol("cross:EncryptPKCS1v15->std.DecryptPKCS1v15", fmt.Sprintf("std err=%s plaintext=%x", errStr(serr), pt), "EncryptPKCS1v15", "msg", msg, "ciphertext", cz)
		} else {
			e.nontrivial("encpkcs-z2s", msg)
			e.c.Count("cross_accept_EncryptPKCS1v15", 1)
		}
		// own inverse
		var pz []byte
		if e.z("DecryptPKCS1v15", func() { pz, err = zrsa.DecryptPKCS1v15(nil, e.zk, cz) }, "ciphertext", cz) {
			if err != nil || !bytes.Equal(pz, msg) {
				e.viol("inverse:DecryptPKCS1v15(EncryptPKCS1v15)", fmt.Sprintf("err=%s plaintext=%x", errStr(err), pz), "DecryptPKCS1v15", "msg", msg, "ciphertext", cz)
			}
		}
		// crypto/rsa encrypts, zcrypto decrypts through every entry point
		cs, serr := stdrsa.EncryptPKCS1v15(e.reader(), &std.PublicKey, msg)
		if serr != nil {
			e.c.Count("std_refused_EncryptPKCS1v15", 1)
			continue
		}
		e.c.Eval(1)
		type entry struct {
			name string
			f    func() ([]byte, error)
		}
		entries := []entry{
			{"DecryptPKCS1v15", func() ([]byte, error) { return zrsa.DecryptPKCS1v15(nil, e.zk, cs) }},
			{"Decrypt(nil)", func() ([]byte, error) { return e.zk.Decrypt(nil, cs, nil) }},
			{"Decrypt(PKCS1v15DecryptOptions{})", func() ([]byte, error) { return e.zk.Decrypt(nil, cs, &zrsa.PKCS1v15DecryptOptions{}) }},
		}
		if l > 0 {
			entries = append(entries, entry{"Decrypt(SessionKeyLen)", func() ([]byte, error) {
				return e.zk.Decrypt(e.reader(), cs, &zrsa.PKCS1v15DecryptOptions{SessionKeyLen: l})
			}})
		}
		for _, en := range entries {
			var got []byte
			var err error
			if !e.z(en.name, func() { got, err = en.f() }, "ciphertext", cs) {
				continue
			}
			if err != nil || !bytes.Equal(got, msg) {
				e.viol("cross:std.EncryptPKCS1v15->"+en.name, fmt.Sprintf("err=%s plaintext=%x", errStr(err), got), en.name, "msg", msg, "ciphertext", cs)
			} else {
				e.nontrivial("encpkcs-s2z", en.name, msg)
				e.c.Count("cross_accept_"+en.name, 1)
			}
		}
		// session keys: right and wrong buffer length, both implementations, same ciphertext
		for _, bl := range []int{l, l + 1} {
			if bl == 0 || k-(bl+11) < 0 {
				continue
			}
			init := randBytes(e.rng, bl)
			bz := append([]byte(nil), init...)
			bs := append([]byte(nil), init...)
			var zerr error
			if !e.z("DecryptPKCS1v15SessionKey", func() { zerr = zrsa.DecryptPKCS1v15SessionKey(nil, e.zk, cs, bz) }, "ciphertext", cs, "keylen", bl) {
				continue
			}
			serr := stdrsa.DecryptPKCS1v15SessionKey(nil, std, cs, bs)
			e.c.Eval(1)
			if (zerr == nil) != (serr == nil) || !bytes.Equal(bz, bs) {
				e.viol("agree:DecryptPKCS1v15SessionKey", fmt.Sprintf("zcrypto err=%s key=%x; std err=%s key=%x", errStr(zerr), bz, errStr(serr), bs), "DecryptPKCS1v15SessionKey", "ciphertext", cs, "initial", init)
			} else {
				e.nontrivial("sesskey", bl == l, msg)
				e.c.Count("agree_session_key", 1)
			}
		}
	}
	// too long a message: both refuse
	if k-10 >= 0 {
		msg := randBytes(e.rng, k-10)
		var zerr error
		if e.z("EncryptPKCS1v15", func() { _, zerr = zrsa.EncryptPKCS1v15(e.reader(), &e.zk.PublicKey, msg) }, "msg", msg) {
			_, serr := stdrsa.EncryptPKCS1v15(e.reader(), &std.PublicKey, msg)
			e.c.Eval(1)
			if (zerr == nil) != (serr == nil) {
				e.viol("agree:EncryptPKCS1v15:message-too-long", fmt.Sprintf("zcrypto err=%s std err=%s", errStr(zerr), errStr(serr)), "EncryptPKCS1v15", "msg", msg)
			}
		}
	}
	// mutated ciphertexts: same decision and same plaintext
	if k-11 >= 1 {
		msg := randBytes(e.rng, 1+e.rng.IntN(k-11))
		cs, serr := stdrsa.EncryptPKCS1v15(e.reader(), &std.PublicKey, msg)
		if serr == nil {
			e.decryptMutations("DecryptPKCS1v15", cs,
				func(ct []byte) ([]byte, error) { return zrsa.DecryptPKCS1v15(nil, e.zk, ct) },
				func(ct []byte) ([]byte, error) { return stdrsa.DecryptPKCS1v15(nil, std, ct) })
		}
	}
}

func (e *env) decryptMutations(op string, base []byte, zf, sf func([]byte) ([]byte, error), kv ...any) {
	for _, m := range mutate(e.rng, base, e.k.N, 2*e.reps) {
		var zp []byte
		var zerr error
		in := append([]any{"ciphertext", m.b, "mutation", m.name, "base", base}, kv...)
		if !e.z(op, func() { zp, zerr = zf(m.b) }, in...) {
			continue
		}
		sp, serr := sf(m.b)
		e.c.Eval(1)
		agree := (zerr == nil) == (serr == nil) && (zerr != nil || bytes.Equal(zp, sp))
		if !m.sameLen {
			// input validation of over/under-long ciphertexts: counted only (see Assumptions)
			if !agree {
				e.c.Count("other_reading_ciphertext_length_leniency_disagreements:"+op+":"+m.name, 1)
			}
			continue
		}
		if !agree {
			e.viol("agree:"+op+":mutated-ciphertext", fmt.Sprintf("mutation %s: zcrypto err=%s pt=%x; std err=%s pt=%x", m.name, errStr(zerr), zp, errStr(serr), sp), op, in...)
			continue
		}
		e.nontrivial("mutct", op, m.name, m.b)
		if zerr == nil {
			e.c.Count("mutated_ciphertext_both_decrypt", 1)
		} else {
			e.c.Count("mutated_ciphertext_both_reject", 1)
		}
	}
}

// mgf1 / OAEP encoder written from RFC 8017 7.1.1, used only to obtain ciphertexts with MGF hash != label hash.
func mgf1XOR(out []byte, h hash.Hash, seed []byte) {
	var ctr [4]byte
	done := 0
	for done < len(out) {
		h.Reset()
		h.Write(seed)
		h.Write(ctr[:])
		d := h.Sum(nil)
		for i := 0; i < len(d) && done < len(out); i++ {
			out[done] ^= d[i]
			done++
		}
		for i := 3; i >= 0; i-- {
			ctr[i]++
			if ctr[i] != 0 {
				break
			}
		}
	}
}

func oaepEncode(lh, mgf crypto.Hash, k int, msg, label, seed []byte) []byte {
	h := lh.New()
	h.Write(label)
	lHash := h.Sum(nil)
	hl := len(lHash)
	em := make([]byte, k)
	copy(em[1:1+hl], seed)
	db := em[1+hl:]
	copy(db, lHash)
	db[len(db)-len(msg)-1] = 1
	copy(db[len(db)-len(msg):], msg)
	mgf1XOR(db, mgf.New(), em[1:1+hl])
	mgf1XOR(em[1:1+hl], mgf.New(), db)
	return em
}

func (e *env) suiteOAEP() {
	k := e.k.size()
	std := e.k.std
	for ohi, h := range oaepHashes {
		hl := h.Size()
		maxLen := k - 2*hl - 2
		if maxLen < 0 {
			// key too small for this hash: both must refuse
			var zerr error
			if e.z("EncryptOAEP", func() { _, zerr = zrsa.EncryptOAEP(h.New(), e.reader(), &e.zk.PublicKey, nil, nil) }, "hash", hashName(h)) {
				_, serr := stdrsa.EncryptOAEP(h.New(), e.reader(), &std.PublicKey, nil, nil)
				e.c.Eval(1)
				if (zerr == nil) != (serr == nil) {
					e.viol("agree:EncryptOAEP:key-too-small", fmt.Sprintf("zcrypto err=%s std err=%s", errStr(zerr), errStr(serr)), "EncryptOAEP", "hash", hashName(h))
				}
			}
			continue
		}
		lens := []int{0, maxLen}
		for i := 0; i < e.reps; i++ {
			lens = append(lens, e.rng.IntN(maxLen+1))
		}
		for li, l := range lens {
			msg := randBytes(e.rng, l)
			var label []byte
			switch li % 3 {
			case 1:
				label = []byte{}
			case 2:
				label = randBytes(e.rng, 1+e.rng.IntN(40))
			}
			e.c.Eval(1)
			var cz []byte
			var err error
			if e.z("EncryptOAEP", func() { cz, err = zrsa.EncryptOAEP(h.New(), e.reader(), &e.zk.PublicKey, msg, label) }, "hash", hashName(h), "msg", msg, "label", label) {
				if err != nil {
					e.viol("cross:EncryptOAEP:zcrypto-refuses-valid-message", errStr(err), "EncryptOAEP", "hash", hashName(h), "msg", msg)
				} else {
					pt, serr := stdrsa.DecryptOAEP(h.New(), nil, std, cz, label)
					if serr != nil || !bytes.Equal(pt, msg) {
						e.viol("cross:EncryptOAEP->std.DecryptOAEP", fmt.Sprintf("std err=%s pt=%x", errStr(serr), pt), "EncryptOAEP", "hash", hashName(h), "msg", msg, "label", label, "ciphertext", cz)
					} else {
						e.nontrivial("oaep-z2s", hashName(h), msg, label)
						e.c.Count("cross_accept_EncryptOAEP", 1)
					}
					var pz []byte
					if e.z("DecryptOAEP", func() { pz, err = zrsa.DecryptOAEP(h.New(), nil, e.zk, cz, label) }, "ciphertext", cz) && (err != nil || !bytes.Equal(pz, msg)) {
						e.viol("inverse:DecryptOAEP(EncryptOAEP)", fmt.Sprintf("err=%s pt=%x", errStr(err), pz), "DecryptOAEP", "hash", hashName(h), "msg", msg, "label", label, "ciphertext", cz)
					}
				}
			}
			cs, serr := stdrsa.EncryptOAEP(h.New(), e.reader(), &std.PublicKey, msg, label)
			if serr != nil {
				e.c.Count("std_refused_EncryptOAEP", 1)
				continue
			}
			e.c.Eval(1)
			for ei, name := range []string{"DecryptOAEP", "Decrypt(OAEPOptions)"} {
				var got []byte
				if !e.z(name, func() {
					if ei == 0 {
						got, err = zrsa.DecryptOAEP(h.New(), nil, e.zk, cs, label)
					} else {
						got, err = e.zk.Decrypt(nil, cs, &zrsa.OAEPOptions{Hash: h, Label: label})
					}
				}, "hash", hashName(h), "ciphertext", cs, "label", label) {
					continue
				}
				if err != nil || !bytes.Equal(got, msg) {
					e.viol("cross:std.EncryptOAEP->"+name, fmt.Sprintf("err=%s pt=%x", errStr(err), got), name, "hash", hashName(h), "msg", msg, "label", label, "ciphertext", cs)
				} else {
					e.nontrivial("oaep-s2z", name, hashName(h), msg, label)
					e.c.Count("cross_accept_"+name, 1)
				}
			}
			// wrong label: both refuse
			wl := append(append([]byte(nil), label...), 'x')
			var zerr error
			if e.z("DecryptOAEP", func() { _, zerr = zrsa.DecryptOAEP(h.New(), nil, e.zk, cs, wl) }, "ciphertext", cs, "label", wl) {
				_, serr := stdrsa.DecryptOAEP(h.New(), nil, std, cs, wl)
				e.c.Eval(1)
				if (zerr == nil) != (serr == nil) {
					e.viol("agree:DecryptOAEP:wrong-label", fmt.Sprintf("zcrypto err=%s std err=%s", errStr(zerr), errStr(serr)), "DecryptOAEP", "hash", hashName(h), "ciphertext", cs, "label", wl)
				} else {
					e.nontrivial("oaep-wronglabel", hashName(h), msg, label)
				}
			}
		}
		// too long
		msg := randBytes(e.rng, maxLen+1)
		var zerr error
		if e.z("EncryptOAEP", func() { _, zerr = zrsa.EncryptOAEP(h.New(), e.reader(), &e.zk.PublicKey, msg, nil) }, "hash", hashName(h), "msg", msg) {
			_, serr := stdrsa.EncryptOAEP(h.New(), e.reader(), &std.PublicKey, msg, nil)
			e.c.Eval(1)
			if (zerr == nil) != (serr == nil) {
				e.viol("agree:EncryptOAEP:message-too-long", fmt.Sprintf("zcrypto err=%s std err=%s", errStr(zerr), errStr(serr)), "EncryptOAEP", "hash", hashName(h), "msg", msg)
			}
		}
		// mutations (quick tier: one hash per (key, shape), rotating)
		if !e.full && ohi != e.item%len(oaepHashes) {
			continue
		}
		m2 := randBytes(e.rng, e.rng.IntN(maxLen+1))
		if cs, serr := stdrsa.EncryptOAEP(h.New(), e.reader(), &std.PublicKey, m2, nil); serr == nil {
			e.decryptMutations("DecryptOAEP", cs,
				func(ct []byte) ([]byte, error) { return zrsa.DecryptOAEP(h.New(), nil, e.zk, ct, nil) },
				func(ct []byte) ([]byte, error) { return stdrsa.DecryptOAEP(h.New(), nil, std, ct, nil) }, "hash", hashName(h))
		}
	}
	// MGF hash different from the label hash, through the crypto.Decrypter options of both implementations
	pairs := [][2]crypto.Hash{{crypto.SHA256, crypto.SHA1}, {crypto.SHA1, crypto.SHA256}, {crypto.SHA256, crypto.SHA512}, {crypto.SHA512, crypto.SHA256}}
	for _, p := range pairs {
		lh, mh := p[0], p[1]
		maxLen := k - 2*lh.Size() - 2
		if maxLen < 0 {
			continue
		}
		msg := randBytes(e.rng, e.rng.IntN(maxLen+1))
		label := randBytes(e.rng, e.rng.IntN(8))
		em := oaepEncode(lh, mh, k, msg, label, randBytes(e.rng, lh.Size()))
		ct := leftPad(new(big.Int).Exp(new(big.Int).SetBytes(em), e.k.E, e.k.N), k)
		sp, serr := std.Decrypt(nil, ct, &stdrsa.OAEPOptions{Hash: lh, MGFHash: mh, Label: label})
		if serr != nil || !bytes.Equal(sp, msg) {
			e.c.Violation("harness:oaep-encoder-rejected-by-std", errStr(serr), e.caseID("oaep-mgf"), e.input("oaep-mgf", "ciphertext", ct))
			continue
		}
		var zp []byte
		var zerr error
		e.c.Eval(1)
		if e.z("Decrypt(OAEPOptions{MGFHash})", func() { zp, zerr = e.zk.Decrypt(nil, ct, &zrsa.OAEPOptions{Hash: lh, MGFHash: mh, Label: label}) }, "ciphertext", ct, "hash", hashName(lh), "mgf", hashName(mh), "label", label) {
			if zerr != nil || !bytes.Equal(zp, msg) {
				e.viol("cross:OAEP(mgf!=hash)->Decrypt(OAEPOptions)", fmt.Sprintf("err=%s pt=%x want=%x", errStr(zerr), zp, msg), "Decrypt(OAEPOptions{MGFHash})", "ciphertext", ct, "hash", hashName(lh), "mgf", hashName(mh), "label", label)
			} else {
				e.nontrivial("oaep-mgf", hashName(lh), hashName(mh), msg)
				e.c.Count("cross_accept_Decrypt(OAEPOptions{MGFHash})", 1)
			}
		}
		// the same ciphertext under swapped hashes: same verdict
		var z2 error
		if e.z("Decrypt(OAEPOptions{MGFHash})", func() { _, z2 = e.zk.Decrypt(nil, ct, &zrsa.OAEPOptions{Hash: lh, Label: label}) }, "ciphertext", ct) {
			_, s2 := std.Decrypt(nil, ct, &stdrsa.OAEPOptions{Hash: lh, Label: label})
			e.c.Eval(1)
			if (z2 == nil) != (s2 == nil) {
				e.viol("agree:Decrypt(OAEPOptions):mgf-defaulting", fmt.Sprintf("zcrypto err=%s std err=%s", errStr(z2), errStr(s2)), "Decrypt(OAEPOptions)", "ciphertext", ct, "hash", hashName(lh), "label", label)
			}
		}
	}
}

// verifier agreement on one input; returns true if they agree.
func (e *env) agreeVerify(op, what string, zf, sf func() error, kv ...any) (agree bool, accepted bool) {
	var zerr error
	if !e.z(op, func() { zerr = zf() }, kv...) {
		return false, false
	}
	serr := sf()
	e.c.Eval(1)
	if (zerr == nil) != (serr == nil) {
		e.viol("agree:"+op+":"+what, fmt.Sprintf("zcrypto err=%s, crypto/rsa err=%s", errStr(zerr), errStr(serr)), op, kv...)
		return false, false
	}
	return true, zerr == nil
}

func (e *env) suiteSignPKCS1() {
	k := e.k.size()
	std := e.k.std
	for hi, h := range pkcsSignHashes {
		var digest []byte
		if h == 0 {
			maxRaw := k - 11
			if maxRaw < 1 {
				continue
			}
			digest = randBytes(e.rng, 1+e.rng.IntN(min(maxRaw, 64)))
		} else {
			digest = randBytes(e.rng, h.Size())
		}
		in := []any{"hash", hashName(h), "digest", digest}
		// sign with both
		var zsig []byte
		var zerr error
		viaSigner := (hi+len(e.shape))%2 == 1
		opS := "SignPKCS1v15"
		if viaSigner {
			opS = "PrivateKey.Sign(hash)"
		}
		if !e.z(opS, func() {
			if viaSigner {
				zsig, zerr = e.zk.Sign(e.reader(), digest, h)
			} else {
				zsig, zerr = zrsa.SignPKCS1v15(nil, e.zk, h, digest)
			}
		}, in...) {
			continue
		}
		ssig, serr := stdrsa.SignPKCS1v15(nil, std, h, digest)
		e.c.Eval(1)
		if (zerr == nil) != (serr == nil) {
			e.viol("agree:"+opS+":error", fmt.Sprintf("zcrypto err=%s, crypto/rsa err=%s", errStr(zerr), errStr(serr)), opS, in...)
			continue
		}
		if zerr != nil {
			e.c.Count("sign_both_refuse(key too small for hash)", 1)
			continue
		}
		// cross acceptance
		if err := stdrsa.VerifyPKCS1v15(&std.PublicKey, h, digest, zsig); err != nil {
			e.viol("cross:"+opS+"->std.VerifyPKCS1v15", errStr(err), opS, append(in, "signature", zsig, "std_signature", ssig)...)
		} else {
			e.nontrivial("signpkcs-z2s", hashName(h), digest)
			e.c.Count("cross_accept_"+opS, 1)
			if bytes.Equal(zsig, ssig) {
				e.c.Count("pkcs1v15_signatures_bytewise_equal", 1)
			}
		}
		var verr error
		if e.z("VerifyPKCS1v15", func() { verr = zrsa.VerifyPKCS1v15(&e.zk.PublicKey, h, digest, ssig) }, append(in, "signature", ssig)...) {
			e.c.Eval(1)
			if verr != nil {
				e.viol("cross:std.SignPKCS1v15->VerifyPKCS1v15", errStr(verr), "VerifyPKCS1v15", append(in, "signature", ssig)...)
			} else {
				e.nontrivial("signpkcs-s2z", hashName(h), digest)
				e.c.Count("cross_accept_VerifyPKCS1v15", 1)
			}
		}
		// wrong digest / wrong hash / wrong digest length
		wd := append([]byte(nil), digest...)
		wd[e.rng.IntN(len(wd))] ^= 1 << e.rng.IntN(8)
		if ok, _ := e.agreeVerify("VerifyPKCS1v15", "wrong-digest",
			func() error { return zrsa.VerifyPKCS1v15(&e.zk.PublicKey, h, wd, ssig) },
			func() error { return stdrsa.VerifyPKCS1v15(&std.PublicKey, h, wd, ssig) }, "hash", hashName(h), "digest", wd, "signature", ssig); ok {
			e.nontrivial("pkcs-wrongdigest", hashName(h), digest)
		}
		oh := pkcsSignHashes[(hi+1+e.rng.IntN(len(pkcsSignHashes)-2))%(len(pkcsSignHashes)-1)]
		od := randBytes(e.rng, oh.Size())
		if oh.Size() == len(digest) {
			od = digest
		}
		if ok, _ := e.agreeVerify("VerifyPKCS1v15", "wrong-hash",
			func() error { return zrsa.VerifyPKCS1v15(&e.zk.PublicKey, oh, od, ssig) },
			func() error { return stdrsa.VerifyPKCS1v15(&std.PublicKey, oh, od, ssig) }, "hash", hashName(oh), "digest", od, "signature", ssig); ok {
			e.nontrivial("pkcs-wronghash", hashName(h), hashName(oh), digest)
		}
		if h != 0 {
			sd := digest[:len(digest)-1]
			e.agreeVerify("VerifyPKCS1v15", "short-digest",
				func() error { return zrsa.VerifyPKCS1v15(&e.zk.PublicKey, h, sd, ssig) },
				func() error { return stdrsa.VerifyPKCS1v15(&std.PublicKey, h, sd, ssig) }, "hash", hashName(h), "digest", sd, "signature", ssig)
			var z2 error
			if e.z("SignPKCS1v15", func() { _, z2 = zrsa.SignPKCS1v15(nil, e.zk, h, sd) }, "hash", hashName(h), "digest", sd) {
				_, s2 := stdrsa.SignPKCS1v15(nil, std, h, sd)
				if (z2 == nil) != (s2 == nil) {
					e.viol("agree:SignPKCS1v15:short-digest", fmt.Sprintf("zcrypto err=%s, crypto/rsa err=%s", errStr(z2), errStr(s2)), "SignPKCS1v15", "hash", hashName(h), "digest", sd)
				}
			}
		}
		// mutated signatures (fewer for the bulk of hashes)
		flips := 1
		if hi%3 == 0 {
			flips = 2 * e.reps
		}
		for _, m := range mutate(e.rng, ssig, e.k.N, flips) {
			ok, acc := e.agreeVerify("VerifyPKCS1v15", "mutated-signature",
				func() error { return zrsa.VerifyPKCS1v15(&e.zk.PublicKey, h, digest, m.b) },
				func() error { return stdrsa.VerifyPKCS1v15(&std.PublicKey, h, digest, m.b) },
				"hash", hashName(h), "digest", digest, "signature", m.b, "mutation", m.name, "base", ssig)
			if ok {
				e.nontrivial("pkcs-mut", hashName(h), m.name, m.b)
				if acc {
					e.c.Count("mutated_signature_both_accept", 1)
				} else {
					e.c.Count("mutated_signature_both_reject", 1)
				}
			}
		}
	}
}

func (e *env) suitePSS() {
	k := e.k.size()
	_ = k
	std := e.k.std
	emLen := (e.k.N.BitLen() - 1 + 7) / 8
	hashes := pssHashes
	if !e.full { // quick tier: three of the six hashes per (key, shape), rotating with the item index
		hashes = nil
		for j := 0; j < 3; j++ {
			hashes = append(hashes, pssHashes[(e.item+2*j)%len(pssHashes)])
		}
	}
	for hi, h := range hashes {
		hl := h.Size()
		maxSalt := emLen - hl - 2
		digest := randBytes(e.rng, hl)
		type mode struct {
			name string
			sl   int
			opts bool // pass options (false: nil options = auto)
		}
		modes := []mode{{"auto", zrsa.PSSSaltLengthAuto, true}, {"equals-hash", zrsa.PSSSaltLengthEqualsHash, true}, {"nil-opts", 0, false}}
		if maxSalt >= 1 {
			modes = append(modes, mode{"explicit-1", 1, true}, mode{"explicit-max", maxSalt, true})
			if maxSalt >= 2 {
				modes = append(modes, mode{"explicit-random", 1 + e.rng.IntN(maxSalt), true})
			}
		}
		modes = append(modes, mode{"explicit-too-long", max(maxSalt, 0) + 1, true}, mode{"negative", -2, true})
		for mi, md := range modes {
			in := []any{"hash", hashName(h), "digest", digest, "salt_mode", md.name, "salt_length", md.sl}
			var zo *zrsa.PSSOptions
			var so *stdrsa.PSSOptions
			if md.opts {
				zo = &zrsa.PSSOptions{SaltLength: md.sl}
				so = &stdrsa.PSSOptions{SaltLength: md.sl}
			}
			argHash := h
			if md.opts && (mi+hi)%3 == 2 {
				// hash given through the options overrides the argument in both implementations
				zo.Hash, so.Hash = h, h
				argHash = pssHashes[(hi+1)%len(pssHashes)]
				in = append(in, "hash_argument", hashName(argHash))
			}
			viaSigner := md.opts && (mi+hi)%4 == 1
			opS := "SignPSS"
			if viaSigner {
				opS = "PrivateKey.Sign(PSSOptions)"
				zo.Hash, so.Hash = h, h
			}
			var zsig []byte
			var zerr error
			if !e.z(opS, func() {
				if viaSigner {
					zsig, zerr = e.zk.Sign(e.reader(), digest, zo)
				} else {
					zsig, zerr = zrsa.SignPSS(e.reader(), e.zk, argHash, digest, zo)
				}
			}, in...) {
				continue
			}
			ssig, serr := stdrsa.SignPSS(e.reader(), std, argHash, digest, so)
			e.c.Eval(1)
			if (zerr == nil) != (serr == nil) {
				e.viol("agree:"+opS+":error:"+md.name, fmt.Sprintf("zcrypto err=%s, crypto/rsa err=%s", errStr(zerr), errStr(serr)), opS, in...)
				continue
			}
			if zerr != nil {
				e.c.Count("pss_sign_both_refuse", 1)
				continue
			}
			// verification options to try on a genuine signature: the signing options and auto
			vopts := []struct {
				name string
				z    *zrsa.PSSOptions
				s    *stdrsa.PSSOptions
			}{{"same", zo, so}, {"auto", &zrsa.PSSOptions{SaltLength: zrsa.PSSSaltLengthAuto}, &stdrsa.PSSOptions{SaltLength: stdrsa.PSSSaltLengthAuto}}, {"nil", nil, nil}}
			for _, vo := range vopts {
				if err := stdrsa.VerifyPSS(&std.PublicKey, h, digest, zsig, vo.s); err != nil {
					e.viol("cross:"+opS+"->std.VerifyPSS:"+md.name+"/"+vo.name, errStr(err), opS, append(in, "signature", zsig)...)
				} else {
					e.nontrivial("pss-z2s", hashName(h), md.name, vo.name, digest)
					e.c.Count("cross_accept_"+opS, 1)
				}
				var verr error
				if e.z("VerifyPSS", func() { verr = zrsa.VerifyPSS(&e.zk.PublicKey, h, digest, ssig, vo.z) }, append(in, "signature", ssig)...) {
					e.c.Eval(1)
					if verr != nil {
						e.viol("cross:std.SignPSS->VerifyPSS:"+md.name+"/"+vo.name, errStr(verr), "VerifyPSS", append(in, "signature", ssig)...)
					} else {
						e.nontrivial("pss-s2z", hashName(h), md.name, vo.name, digest)
						e.c.Count("cross_accept_VerifyPSS", 1)
					}
				}
			}
			// wrong explicit salt lengths, wrong digest, wrong hash: agreement
			actual := md.sl
			switch md.sl {
			case zrsa.PSSSaltLengthAuto:
				actual = maxSalt
			case zrsa.PSSSaltLengthEqualsHash:
				actual = hl
			}
			for _, wsl := range []int{actual + 1, actual - 1, zrsa.PSSSaltLengthEqualsHash, -2} {
				if wsl == 0 {
					continue
				}
				if ok, _ := e.agreeVerify("VerifyPSS", "other-salt-length",
					func() error {
						return zrsa.VerifyPSS(&e.zk.PublicKey, h, digest, ssig, &zrsa.PSSOptions{SaltLength: wsl})
					},
					func() error {
						return stdrsa.VerifyPSS(&std.PublicKey, h, digest, ssig, &stdrsa.PSSOptions{SaltLength: wsl})
					},
					append(in, "signature", ssig, "verify_salt_length", wsl)...); ok {
					e.nontrivial("pss-othersalt", hashName(h), md.name, wsl, digest)
				}
			}
			wd := append([]byte(nil), digest...)
			wd[e.rng.IntN(len(wd))] ^= 1 << e.rng.IntN(8)
			if ok, _ := e.agreeVerify("VerifyPSS", "wrong-digest",
				func() error { return zrsa.VerifyPSS(&e.zk.PublicKey, h, wd, ssig, zo) },
				func() error { return stdrsa.VerifyPSS(&std.PublicKey, h, wd, ssig, so) }, append(in, "signature", ssig, "wrong_digest", wd)...); ok {
				e.nontrivial("pss-wrongdigest", hashName(h), md.name, digest)
			}
			oh := pssHashes[(hi+2)%len(pssHashes)]
			od := randBytes(e.rng, oh.Size())
			e.agreeVerify("VerifyPSS", "wrong-hash",
				func() error { return zrsa.VerifyPSS(&e.zk.PublicKey, oh, od, ssig, nil) },
				func() error { return stdrsa.VerifyPSS(&std.PublicKey, oh, od, ssig, nil) }, "hash", hashName(oh), "digest", od, "signature", ssig)
			e.agreeVerify("VerifyPSS", "short-digest",
				func() error { return zrsa.VerifyPSS(&e.zk.PublicKey, h, digest[:hl-1], ssig, nil) },
				func() error { return stdrsa.VerifyPSS(&std.PublicKey, h, digest[:hl-1], ssig, nil) }, "hash", hashName(h), "digest", digest[:hl-1], "signature", ssig)
			// mutated signatures under auto and under the signing options
			flips := 1
			if mi == 0 {
				flips = 2 * e.reps
			}
			if mi > 2 && hi%2 == 1 {
				continue
			}
			for _, m := range mutate(e.rng, ssig, e.k.N, flips) {
				for vi, vo := range vopts[:2] {
					ok, acc := e.agreeVerify("VerifyPSS", "mutated-signature",
						func() error { return zrsa.VerifyPSS(&e.zk.PublicKey, h, digest, m.b, vo.z) },
						func() error { return stdrsa.VerifyPSS(&std.PublicKey, h, digest, m.b, vo.s) },
						append(in, "signature", m.b, "mutation", m.name, "base", ssig, "verify_options", vo.name)...)
					if ok {
						e.nontrivial("pss-mut", hashName(h), md.name, vi, m.name, m.b)
						if acc {
							e.c.Count("mutated_signature_both_accept", 1)
						} else {
							e.c.Count("mutated_signature_both_reject", 1)
						}
					}
				}
			}
		}
	}
}

// suiteCrafted feeds both implementations ciphertexts and signatures whose *encoded message* was built by the
// harness (raw RSA with math/big on the harness side): padding strings that are too short, wrong block types,
// missing separators, PKCS#1 v1.5 signature blocks with damaged or shortened padding plus trailing garbage,
// PSS blocks with a wrong trailer, non-zero bits above emBits, damaged padding. The decision must be the same.
func (e *env) suiteCrafted() {
	k := e.k.size()
	std := e.k.std
	raw := func(em []byte, exp *big.Int) ([]byte, bool) {
		v := new(big.Int).SetBytes(em)
		if v.Cmp(e.k.N) >= 0 {
			return nil, false
		}
		return leftPad(new(big.Int).Exp(v, exp, e.k.N), k), true
	}
	nonzero := func(n int) []byte {
		b := randBytes(e.rng, n)
		for i := range b {
			if b[i] == 0 {
				b[i] = 0x5a
			}
		}
		return b
	}
	// --- encryption blocks: 00 || BT || PS || 00 || M
	if k >= 24 {
		type blk struct {
			name  string
			bt    byte
			pslen int
			sep   bool
		}
		msgLen := 1 + e.rng.IntN(k-19)
		var blocks []blk
		for _, pl := range []int{0, 1, 7, 8, 9} {
			blocks = append(blocks, blk{fmt.Sprintf("ps-length-%d", pl), 2, pl, true})
		}
		blocks = append(blocks, blk{"block-type-1", 1, k - 3 - msgLen, true}, blk{"block-type-0", 0, k - 3 - msgLen, true},
			blk{"no-separator", 2, k - 2, false}, blk{"valid", 2, k - 3 - msgLen, true})
		for _, b := range blocks {
			em := make([]byte, 0, k)
			em = append(em, 0, b.bt)
			em = append(em, nonzero(b.pslen)...)
			if b.sep {
				em = append(em, 0)
				em = append(em, randBytes(e.rng, k-len(em))...)
			}
			if len(em) != k {
				continue
			}
			ct, ok := raw(em, e.k.E)
			if !ok {
				continue
			}
			in := []any{"crafted", b.name, "em", em, "ciphertext", ct}
			var zp []byte
			var zerr error
			if !e.z("DecryptPKCS1v15", func() { zp, zerr = zrsa.DecryptPKCS1v15(nil, e.zk, ct) }, in...) {
				continue
			}
			sp, serr := stdrsa.DecryptPKCS1v15(nil, std, ct)
			e.c.Eval(1)
			if (zerr == nil) != (serr == nil) || (zerr == nil && !bytes.Equal(zp, sp)) {
				e.viol("agree:DecryptPKCS1v15:crafted-block:"+b.name, fmt.Sprintf("zcrypto err=%s pt=%x; crypto/rsa err=%s pt=%x", errStr(zerr), zp, errStr(serr), sp), "DecryptPKCS1v15", in...)
				continue
			}
			e.nontrivial("crafted-enc", b.name, em)
			if zerr == nil {
				e.c.Count("crafted_block_both_accept", 1)
			} else {
				e.c.Count("crafted_block_both_reject", 1)
			}
			// session-key entry point on the same block
			bz := bytes.Repeat([]byte{0xee}, 16)
			bs := bytes.Repeat([]byte{0xee}, 16)
			var z2 error
			if e.z("DecryptPKCS1v15SessionKey", func() { z2 = zrsa.DecryptPKCS1v15SessionKey(nil, e.zk, ct, bz) }, in...) {
				s2 := stdrsa.DecryptPKCS1v15SessionKey(nil, std, ct, bs)
				if (z2 == nil) != (s2 == nil) || !bytes.Equal(bz, bs) {
					e.viol("agree:DecryptPKCS1v15SessionKey:crafted-block:"+b.name, fmt.Sprintf("zcrypto err=%s key=%x; crypto/rsa err=%s key=%x", errStr(z2), bz, errStr(s2), bs), "DecryptPKCS1v15SessionKey", in...)
				}
			}
		}
	}
	// --- PKCS#1 v1.5 signature blocks, derived from a genuine one
	h := []crypto.Hash{crypto.SHA256, crypto.SHA1, crypto.SHA384}[e.item%3]
	digest := randBytes(e.rng, h.Size())
	if ssig, err := stdrsa.SignPKCS1v15(nil, std, h, digest); err == nil {
		em := leftPad(new(big.Int).Exp(new(big.Int).SetBytes(ssig), e.k.E, e.k.N), k)
		sepAt := bytes.IndexByte(em[2:], 0) + 2
		type mut struct {
			name string
			f    func(b []byte) []byte
		}
		muts := []mut{
			{"genuine", func(b []byte) []byte { return b }},
			{"padding-byte-fe", func(b []byte) []byte { b[2+e.rng.IntN(sepAt-2)] = 0xfe; return b }},
			{"padding-byte-00", func(b []byte) []byte { b[3+e.rng.IntN(sepAt-3)] = 0x00; return b }},
			{"block-type-2", func(b []byte) []byte { b[1] = 2; return b }},
			{"block-type-0", func(b []byte) []byte { b[1] = 0; return b }},
			{"separator-01", func(b []byte) []byte { b[sepAt] = 1; return b }},
			{"digestinfo-length-byte", func(b []byte) []byte { b[sepAt+2]++; return b }},
			{"digestinfo-null-removed-style", func(b []byte) []byte { b[sepAt+1+len(b[sepAt+1:])-h.Size()-3] ^= 0x05; return b }},
			{"short-padding-trailing-garbage", func(b []byte) []byte {
				// 00 01 FF x8 00 DigestInfo garbage (Bleichenbacher 2006 shape)
				cut := sepAt - 2 - 8
				if cut <= 0 {
					return nil
				}
				out := append([]byte{}, b[:10]...)
				out = append(out, b[sepAt:]...)
				return append(out, randBytes(e.rng, cut)...)
			}},
			{"digest-last-byte", func(b []byte) []byte { b[len(b)-1] ^= 0x80; return b }},
		}
		for _, m := range muts {
			b := m.f(append([]byte(nil), em...))
			if b == nil || len(b) != k {
				continue
			}
			sig, ok := raw(b, e.k.D)
			if !ok {
				continue
			}
			ok2, acc := e.agreeVerify("VerifyPKCS1v15", "crafted-block:"+m.name,
				func() error { return zrsa.VerifyPKCS1v15(&e.zk.PublicKey, h, digest, sig) },
				func() error { return stdrsa.VerifyPKCS1v15(&std.PublicKey, h, digest, sig) },
				"hash", hashName(h), "digest", digest, "crafted", m.name, "em", b, "signature", sig)
			if ok2 {
				e.nontrivial("crafted-pkcs-sig", m.name, b)
				if acc {
					e.c.Count("crafted_signature_both_accept", 1)
				} else {
					e.c.Count("crafted_signature_both_reject", 1)
				}
			}
		}
	}
	// --- PSS blocks, derived from a genuine one
	emBits := e.k.N.BitLen() - 1
	emLen := (emBits + 7) / 8
	ph := []crypto.Hash{crypto.SHA256, crypto.SHA1}[e.item%2]
	if emLen >= 2*ph.Size()+2 {
		pd := randBytes(e.rng, ph.Size())
		for _, sl := range []int{stdrsa.PSSSaltLengthEqualsHash, stdrsa.PSSSaltLengthAuto} {
			ssig, err := stdrsa.SignPSS(e.reader(), std, ph, pd, &stdrsa.PSSOptions{SaltLength: sl})
			if err != nil {
				continue
			}
			em := leftPad(new(big.Int).Exp(new(big.Int).SetBytes(ssig), e.k.E, e.k.N), k)
			off := k - emLen // 1 when emBits is a multiple of 8
			spare := 8*emLen - emBits
			type mut struct {
				name string
				f    func(b []byte) []byte
			}
			muts := []mut{
				{"genuine", func(b []byte) []byte { return b }},
				{"trailer-bb", func(b []byte) []byte { b[k-1] = 0xbb; return b }},
				{"trailer-cc", func(b []byte) []byte { b[k-1] = 0xcc; return b }},
				{"hash-byte", func(b []byte) []byte { b[k-2] ^= 1; return b }},
				{"masked-db-middle-byte", func(b []byte) []byte { b[off+(emLen-ph.Size()-1)/2] ^= 0x10; return b }},
				{"masked-db-first-byte-low-bit", func(b []byte) []byte { b[off] ^= 1; return b }},
				{"bit-above-emBits", func(b []byte) []byte {
					if spare == 0 {
						if off == 0 {
							return nil
						}
						b[0] = 1 // emBits multiple of 8: the extra leading byte must be zero
						return b
					}
					b[off] |= 0x80 >> (spare - 1) // lowest of the bits that must be zero
					return b
				}},
			}
			for _, m := range muts {
				b := m.f(append([]byte(nil), em...))
				if b == nil {
					continue
				}
				sig, ok := raw(b, e.k.D)
				if !ok {
					e.c.Count("crafted_pss_block_not_below_N", 1)
					continue
				}
				for vi, vsl := range []int{sl, stdrsa.PSSSaltLengthAuto} {
					ok2, acc := e.agreeVerify("VerifyPSS", "crafted-block:"+m.name,
						func() error { return zrsa.VerifyPSS(&e.zk.PublicKey, ph, pd, sig, &zrsa.PSSOptions{SaltLength: vsl}) },
						func() error {
							return stdrsa.VerifyPSS(&std.PublicKey, ph, pd, sig, &stdrsa.PSSOptions{SaltLength: vsl})
						},
						"hash", hashName(ph), "digest", pd, "crafted", m.name, "em", b, "signature", sig, "verify_salt_length", vsl)
					if ok2 {
						e.nontrivial("crafted-pss-sig", m.name, sl, vi, b)
						if acc {
							e.c.Count("crafted_signature_both_accept", 1)
						} else {
							e.c.Count("crafted_signature_both_reject", 1)
						}
					}
				}
			}
		}
	}
}

// DigestInfo prefixes from RFC 8017 section 9.2 note 1 (and RFC 2437 / ISO for MD5, RIPEMD-160); the harness' own
// copy, used to build encoded messages for the boundary cases.
var digestInfoPrefix = map[crypto.Hash][]byte{
	crypto.MD5:       {0x30, 0x20, 0x30, 0x0c, 0x06, 0x08, 0x2a, 0x86, 0x48, 0x86, 0xf7, 0x0d, 0x02, 0x05, 0x05, 0x00, 0x04, 0x10},
	crypto.SHA1:      {0x30, 0x21, 0x30, 0x09, 0x06, 0x05, 0x2b, 0x0e, 0x03, 0x02, 0x1a, 0x05, 0x00, 0x04, 0x14},
	crypto.SHA224:    {0x30, 0x2d, 0x30, 0x0d, 0x06, 0x09, 0x60, 0x86, 0x48, 0x01, 0x65, 0x03, 0x04, 0x02, 0x04, 0x05, 0x00, 0x04, 0x1c},
	crypto.SHA256:    {0x30, 0x31, 0x30, 0x0d, 0x06, 0x09, 0x60, 0x86, 0x48, 0x01, 0x65, 0x03, 0x04, 0x02, 0x01, 0x05, 0x00, 0x04, 0x20},
	crypto.SHA384:    {0x30, 0x41, 0x30, 0x0d, 0x06, 0x09, 0x60, 0x86, 0x48, 0x01, 0x65, 0x03, 0x04, 0x02, 0x02, 0x05, 0x00, 0x04, 0x30},
	crypto.SHA512:    {0x30, 0x51, 0x30, 0x0d, 0x06, 0x09, 0x60, 0x86, 0x48, 0x01, 0x65, 0x03, 0x04, 0x02, 0x03, 0x05, 0x00, 0x04, 0x40},
	crypto.MD5SHA1:   {},
	crypto.RIPEMD160: {0x30, 0x20, 0x30, 0x08, 0x06, 0x06, 0x28, 0xcf, 0x06, 0x03, 0x00, 0x31, 0x04, 0x14},
	0:                {},
}

func rel(n int) string { // "k-11", "k+1", "k"
	if n == 0 {
		return "k"
	}
	return fmt.Sprintf("k%+d", n)
}

// suiteBoundaries puts every operation at the exact size limits relative to the modulus length k:
// refusal must coincide with crypto/rsa's, and on the accepting side the output must be cross-accepted both ways.
func (e *env) suiteBoundaries() {
	k := e.k.size()
	std := e.k.std
	// --- PKCS#1 v1.5 signatures: T = DigestInfo || digest; limit is k >= |T| + 11 (eight 0xff octets).
	// hash 0 with raw messages of k-13..k-8 octets hits the limit on every key; real hashes hit it on odd key sizes.
	type sc struct {
		h crypto.Hash
		l int
	}
	var scs []sc
	for l := k - 13; l <= k-8; l++ {
		if l >= 1 {
			scs = append(scs, sc{0, l})
		}
	}
	for _, h := range pkcsSignHashes {
		if h == 0 {
			continue
		}
		if pad := k - len(digestInfoPrefix[h]) - h.Size() - 3; pad >= 3 && pad <= 12 {
			scs = append(scs, sc{h, h.Size()})
			e.c.Count("boundary_real_hash_near_limit", 1)
		}
	}
	for _, c := range scs {
		h := c.h
		msg := randBytes(e.rng, c.l)
		tLen := len(digestInfoPrefix[h]) + c.l
		pad := k - tLen - 3 // number of 0xff octets an encoded message would have
		tag := fmt.Sprintf("%s:padding=%d", hashName(h), pad)
		in := []any{"hash", hashName(h), "digest", msg, "length", rel(c.l - k), "padding_octets", pad}
		var zsig []byte
		var zerr error
		if !e.z("SignPKCS1v15", func() { zsig, zerr = zrsa.SignPKCS1v15(nil, e.zk, h, msg) }, in...) {
			continue
		}
		ssig, serr := stdrsa.SignPKCS1v15(nil, std, h, msg)
		e.c.Eval(1)
		if (zerr == nil) != (serr == nil) {
			detail := fmt.Sprintf("zcrypto err=%s, crypto/rsa err=%s", errStr(zerr), errStr(serr))
			if zerr == nil {
				detail += fmt.Sprintf("; crypto/rsa verifies zcrypto's signature: %s", errStr(stdrsa.VerifyPKCS1v15(&std.PublicKey, h, msg, zsig)))
				in = append(in, "signature", zsig)
			}
			e.viol("boundary:SignPKCS1v15:"+tag+":refusal-differs", detail, "SignPKCS1v15", in...)
		} else if zerr == nil {
			if err := stdrsa.VerifyPKCS1v15(&std.PublicKey, h, msg, zsig); err != nil {
				e.viol("boundary:SignPKCS1v15->std.VerifyPKCS1v15:"+tag, errStr(err), "SignPKCS1v15", append(in, "signature", zsig)...)
			} else {
				e.nontrivial("bnd-sign-z2s", tag, msg)
				e.c.Count("boundary_sign_cross_accept", 1)
			}
			var verr error
			if e.z("VerifyPKCS1v15", func() { verr = zrsa.VerifyPKCS1v15(&e.zk.PublicKey, h, msg, ssig) }, append(in, "signature", ssig)...) {
				if verr != nil {
					e.viol("boundary:std.SignPKCS1v15->VerifyPKCS1v15:"+tag, errStr(verr), "VerifyPKCS1v15", append(in, "signature", ssig)...)
				} else {
					e.nontrivial("bnd-sign-s2z", tag, msg)
				}
			}
		} else {
			e.nontrivial("bnd-sign-refuse", tag, msg)
			e.c.Count("boundary_sign_both_refuse", 1)
		}
		// the encoded message with exactly `pad` 0xff octets, signed by the harness: verifiers must agree
		if pad >= 0 {
			em := make([]byte, 0, k)
			em = append(em, 0, 1)
			em = append(em, bytes.Repeat([]byte{0xff}, pad)...)
			em = append(em, 0)
			em = append(em, digestInfoPrefix[h]...)
			em = append(em, msg...)
			if len(em) == k {
				sig := leftPad(new(big.Int).Exp(new(big.Int).SetBytes(em), e.k.D, e.k.N), k)
				ok, acc := e.agreeVerify("VerifyPKCS1v15", "boundary:"+tag,
					func() error { return zrsa.VerifyPKCS1v15(&e.zk.PublicKey, h, msg, sig) },
					func() error { return stdrsa.VerifyPKCS1v15(&std.PublicKey, h, msg, sig) },
					append(in, "em", em, "signature", sig)...)
				if ok {
					e.nontrivial("bnd-verify", tag, msg)
					if acc {
						e.c.Count("boundary_crafted_signature_both_accept", 1)
					} else {
						e.c.Count("boundary_crafted_signature_both_reject", 1)
					}
				}
			}
		}
	}
	// --- PKCS#1 v1.5 encryption: limit is |M| <= k-11
	var lastCT []byte
	for l := k - 13; l <= k-9; l++ {
		if l < 0 {
			continue
		}
		msg := randBytes(e.rng, l)
		tag := "len=" + rel(l-k)
		in := []any{"msg", msg, "length", rel(l - k)}
		var cz []byte
		var zerr error
		if !e.z("EncryptPKCS1v15", func() { cz, zerr = zrsa.EncryptPKCS1v15(e.reader(), &e.zk.PublicKey, msg) }, in...) {
			continue
		}
		cs, serr := stdrsa.EncryptPKCS1v15(e.reader(), &std.PublicKey, msg)
		e.c.Eval(1)
		if (zerr == nil) != (serr == nil) {
			e.viol("boundary:EncryptPKCS1v15:"+tag+":refusal-differs", fmt.Sprintf("zcrypto err=%s, crypto/rsa err=%s", errStr(zerr), errStr(serr)), "EncryptPKCS1v15", in...)
			continue
		}
		if zerr != nil {
			e.nontrivial("bnd-enc-refuse", tag, msg)
			continue
		}
		if pt, err := stdrsa.DecryptPKCS1v15(nil, std, cz); err != nil || !bytes.Equal(pt, msg) {
			e.viol("boundary:EncryptPKCS1v15->std.DecryptPKCS1v15:"+tag, fmt.Sprintf("err=%s pt=%x", errStr(err), pt), "EncryptPKCS1v15", append(in, "ciphertext", cz)...)
		} else {
			e.nontrivial("bnd-enc-z2s", tag, msg)
		}
		var pz []byte
		if e.z("DecryptPKCS1v15", func() { pz, zerr = zrsa.DecryptPKCS1v15(nil, e.zk, cs) }, append(in, "ciphertext", cs)...) {
			if zerr != nil || !bytes.Equal(pz, msg) {
				e.viol("boundary:std.EncryptPKCS1v15->DecryptPKCS1v15:"+tag, fmt.Sprintf("err=%s pt=%x", errStr(zerr), pz), "DecryptPKCS1v15", append(in, "ciphertext", cs)...)
			} else {
				e.nontrivial("bnd-enc-s2z", tag, msg)
				e.c.Count("boundary_encrypt_cross_accept", 1)
			}
		}
		lastCT = cs
	}
	// session-key buffers around the limit k-11 on a ciphertext of a maximal message
	if lastCT != nil {
		for bl := k - 13; bl <= k-9; bl++ {
			if bl < 1 {
				continue
			}
			init := randBytes(e.rng, bl)
			bz, bs := append([]byte(nil), init...), append([]byte(nil), init...)
			var zerr error
			if !e.z("DecryptPKCS1v15SessionKey", func() { zerr = zrsa.DecryptPKCS1v15SessionKey(nil, e.zk, lastCT, bz) }, "ciphertext", lastCT, "keylen", rel(bl-k)) {
				continue
			}
			serr := stdrsa.DecryptPKCS1v15SessionKey(nil, std, lastCT, bs)
			e.c.Eval(1)
			if (zerr == nil) != (serr == nil) || !bytes.Equal(bz, bs) {
				e.viol("boundary:DecryptPKCS1v15SessionKey:keylen="+rel(bl-k), fmt.Sprintf("zcrypto err=%s key=%x; crypto/rsa err=%s key=%x", errStr(zerr), bz, errStr(serr), bs), "DecryptPKCS1v15SessionKey", "ciphertext", lastCT, "initial", init)
			} else {
				e.nontrivial("bnd-sesskey", bl-k, init)
			}
		}
	}
	// --- OAEP: limit is |M| <= k-2h-2 (quick tier: one hash per item, rotating)
	for ohi, h := range oaepHashes {
		if !e.full && ohi != (e.item+1)%len(oaepHashes) {
			continue
		}
		for l := k - 2*h.Size() - 4; l <= k-2*h.Size(); l++ {
			if l < 0 {
				continue
			}
			msg := randBytes(e.rng, l)
			tag := fmt.Sprintf("%s:len=k-2h%+d", hashName(h), l-(k-2*h.Size()))
			in := []any{"hash", hashName(h), "msg", msg}
			var cz []byte
			var zerr error
			if !e.z("EncryptOAEP", func() { cz, zerr = zrsa.EncryptOAEP(h.New(), e.reader(), &e.zk.PublicKey, msg, nil) }, in...) {
				continue
			}
			cs, serr := stdrsa.EncryptOAEP(h.New(), e.reader(), &std.PublicKey, msg, nil)
			e.c.Eval(1)
			if (zerr == nil) != (serr == nil) {
				e.viol("boundary:EncryptOAEP:"+tag+":refusal-differs", fmt.Sprintf("zcrypto err=%s, crypto/rsa err=%s", errStr(zerr), errStr(serr)), "EncryptOAEP", in...)
				continue
			}
			if zerr != nil {
				e.nontrivial("bnd-oaep-refuse", tag, msg)
				continue
			}
			if pt, err := stdrsa.DecryptOAEP(h.New(), nil, std, cz, nil); err != nil || !bytes.Equal(pt, msg) {
				e.viol("boundary:EncryptOAEP->std.DecryptOAEP:"+tag, fmt.Sprintf("err=%s pt=%x", errStr(err), pt), "EncryptOAEP", append(in, "ciphertext", cz)...)
			} else {
				e.nontrivial("bnd-oaep-z2s", tag, msg)
			}
			var pz []byte
			if e.z("DecryptOAEP", func() { pz, zerr = zrsa.DecryptOAEP(h.New(), nil, e.zk, cs, nil) }, append(in, "ciphertext", cs)...) {
				if zerr != nil || !bytes.Equal(pz, msg) {
					e.viol("boundary:std.EncryptOAEP->DecryptOAEP:"+tag, fmt.Sprintf("err=%s pt=%x", errStr(zerr), pz), "DecryptOAEP", append(in, "ciphertext", cs)...)
				} else {
					e.nontrivial("bnd-oaep-s2z", tag, msg)
					e.c.Count("boundary_oaep_cross_accept", 1)
				}
			}
		}
	}
	// --- PSS: limit is salt <= emLen-hLen-2 (quick tier: two hashes per item, rotating)
	emLen := (e.k.N.BitLen() - 1 + 7) / 8
	for phi, h := range pssHashes {
		if !e.full && phi != (e.item+1)%len(pssHashes) && phi != (e.item+4)%len(pssHashes) {
			continue
		}
		digest := randBytes(e.rng, h.Size())
		for sl := emLen - h.Size() - 4; sl <= emLen-h.Size(); sl++ {
			if sl < 1 {
				continue
			}
			tag := fmt.Sprintf("%s:salt=emLen-hLen%+d", hashName(h), sl-(emLen-h.Size()))
			in := []any{"hash", hashName(h), "digest", digest, "salt_length", sl}
			var zsig []byte
			var zerr error
			if !e.z("SignPSS", func() { zsig, zerr = zrsa.SignPSS(e.reader(), e.zk, h, digest, &zrsa.PSSOptions{SaltLength: sl}) }, in...) {
				continue
			}
			ssig, serr := stdrsa.SignPSS(e.reader(), std, h, digest, &stdrsa.PSSOptions{SaltLength: sl})
			e.c.Eval(1)
			if (zerr == nil) != (serr == nil) {
				e.viol("boundary:SignPSS:"+tag+":refusal-differs", fmt.Sprintf("zcrypto err=%s, crypto/rsa err=%s", errStr(zerr), errStr(serr)), "SignPSS", in...)
				continue
			}
			if zerr != nil {
				e.nontrivial("bnd-pss-refuse", tag, digest)
				continue
			}
			for _, vsl := range []int{sl, stdrsa.PSSSaltLengthAuto} {
				if err := stdrsa.VerifyPSS(&std.PublicKey, h, digest, zsig, &stdrsa.PSSOptions{SaltLength: vsl}); err != nil {
					e.viol("boundary:SignPSS->std.VerifyPSS:"+tag, errStr(err), "SignPSS", append(in, "signature", zsig, "verify_salt_length", vsl)...)
				} else {
					e.nontrivial("bnd-pss-z2s", tag, vsl, digest)
				}
				var verr error
				if e.z("VerifyPSS", func() { verr = zrsa.VerifyPSS(&e.zk.PublicKey, h, digest, ssig, &zrsa.PSSOptions{SaltLength: vsl}) }, append(in, "signature", ssig)...) {
					if verr != nil {
						e.viol("boundary:std.SignPSS->VerifyPSS:"+tag, errStr(verr), "VerifyPSS", append(in, "signature", ssig, "verify_salt_length", vsl)...)
					} else {
						e.nontrivial("bnd-pss-s2z", tag, vsl, digest)
						e.c.Count("boundary_pss_cross_accept", 1)
					}
				}
			}
			// verifying with salt lengths around the real one, including ones beyond the limit: same verdict
			for _, vsl := range []int{sl + 1, sl + 2, sl - 1} {
				if vsl < 1 {
					continue
				}
				e.agreeVerify("VerifyPSS", "boundary:other-salt-length",
					func() error {
						return zrsa.VerifyPSS(&e.zk.PublicKey, h, digest, ssig, &zrsa.PSSOptions{SaltLength: vsl})
					},
					func() error {
						return stdrsa.VerifyPSS(&std.PublicKey, h, digest, ssig, &stdrsa.PSSOptions{SaltLength: vsl})
					},
					append(in, "signature", ssig, "verify_salt_length", vsl)...)
			}
		}
	}
}

func (e *env) suiteValidateEqual() {
	var verr error
	if e.z("Validate", func() { verr = e.zk.Validate() }) {
		e.c.Eval(1)
		serr := error(nil)
		if e.k.std != nil {
			serr = e.k.std.Validate()
		}
		if (verr == nil) != (serr == nil) {
			// not one of the operations named by the statement: counted only
			e.c.Count("other_reading_Validate_disagrees_with_std", 1)
		} else {
			e.c.Count("validate_agrees", 1)
		}
	}
	var eq, ne bool
	other := zKey(e.k, 0)
	other.D = new(big.Int).Add(other.D, one)
	if e.z("Equal", func() { eq = e.zk.Equal(zKey(e.k, 0)); ne = e.zk.Equal(other) }) {
		e.c.Eval(1)
		if !eq || ne {
			e.c.Count("other_reading_Equal_unexpected", 1)
		}
	}
}

// ---------------------------------------------------------------------------
// large exponents: reference public operation + transfer to the companion key

func (e *env) toComp(x []byte) ([]byte, bool) {
	// value x under (N, E) -> the value that means the same under the companion (N, 65537):
	// y = (x^E)^(d_comp) mod N, with x^E by the reference
	k := e.k.size()
	v := new(big.Int).SetBytes(x)
	if len(x) != k || v.Cmp(e.k.N) >= 0 {
		return nil, false
	}
	em := refPow(v, e.k.E, e.k.N)
	return leftPad(new(big.Int).Exp(em, e.k.compD, e.k.N), k), true
}

func (e *env) fromComp(y []byte) []byte {
	// y produced for the companion key -> x with x^E = y^65537: x = (y^65537)^D, by the reference
	em := new(big.Int).Exp(new(big.Int).SetBytes(y), big.NewInt(int64(e.k.comp.E)), e.k.N)
	return leftPad(refPow(em, e.k.D, e.k.N), e.k.size())
}

func (e *env) suiteBigE() {
	k := e.k.size()
	comp := e.k.comp
	// --- PKCS#1 v1.5 signatures
	hashes := []crypto.Hash{crypto.SHA256, crypto.SHA1, 0, crypto.MD5SHA1, crypto.SHA512}
	for hi, h := range hashes[:min(len(hashes), 2+e.reps)] {
		var digest []byte
		if h == 0 {
			if k-11 < 1 {
				continue
			}
			digest = randBytes(e.rng, 1+e.rng.IntN(min(k-11, 48)))
		} else {
			digest = randBytes(e.rng, h.Size())
		}
		in := []any{"hash", hashName(h), "digest", digest}
		var zsig []byte
		var zerr error
		if !e.z("SignPKCS1v15", func() { zsig, zerr = zrsa.SignPKCS1v15(nil, e.zk, h, digest) }, in...) {
			continue
		}
		csig, cerr := stdrsa.SignPKCS1v15(nil, comp, h, digest)
		e.c.Eval(1)
		if (zerr == nil) != (cerr == nil) {
			e.viol("agree:SignPKCS1v15:error", fmt.Sprintf("zcrypto err=%s, crypto/rsa(companion) err=%s", errStr(zerr), errStr(cerr)), "SignPKCS1v15", in...)
			continue
		}
		if zerr != nil {
			continue
		}
		t, ok := e.toComp(zsig)
		if !ok || stdrsa.VerifyPKCS1v15(&comp.PublicKey, h, digest, t) != nil {
			e.viol("cross:SignPKCS1v15->reference-pow->std.VerifyPKCS1v15", "signature^E (reference) is not the encoded message crypto/rsa accepts", "SignPKCS1v15", append(in, "signature", zsig)...)
		} else {
			e.nontrivial("bigE-signpkcs", hashName(h), digest)
			e.c.Count("cross_accept_bigE_SignPKCS1v15", 1)
		}
		good := e.fromComp(csig)
		var verr error
		if e.z("VerifyPKCS1v15", func() { verr = zrsa.VerifyPKCS1v15(&e.zk.PublicKey, h, digest, good) }, append(in, "signature", good)...) {
			e.c.Eval(1)
			if verr != nil {
				e.viol("cross:std.SignPKCS1v15->reference-pow->VerifyPKCS1v15", errStr(verr), "VerifyPKCS1v15", append(in, "signature", good)...)
			} else {
				e.nontrivial("bigE-verifypkcs", hashName(h), digest)
				e.c.Count("cross_accept_bigE_VerifyPKCS1v15", 1)
			}
		}
		if hi > 0 {
			continue
		}
		for _, m := range mutate(e.rng, good, e.k.N, e.reps) {
			want := false
			if t, ok := e.toComp(m.b); ok {
				want = stdrsa.VerifyPKCS1v15(&comp.PublicKey, h, digest, t) == nil
			}
			var verr error
			if !e.z("VerifyPKCS1v15", func() { verr = zrsa.VerifyPKCS1v15(&e.zk.PublicKey, h, digest, m.b) }, append(in, "signature", m.b, "mutation", m.name)...) {
				continue
			}
			e.c.Eval(1)
			if (verr == nil) != want {
				e.viol("agree:VerifyPKCS1v15:mutated-signature", fmt.Sprintf("mutation %s: zcrypto err=%s, reference+crypto/rsa accept=%v", m.name, errStr(verr), want), "VerifyPKCS1v15", append(in, "signature", m.b, "mutation", m.name, "base", good)...)
			} else {
				e.nontrivial("bigE-pkcs-mut", m.name, m.b)
			}
		}
	}
	// --- PSS
	for hi, h := range []crypto.Hash{crypto.SHA256, crypto.SHA1, crypto.SHA384}[:min(3, 1+e.reps)] {
		emLen := (e.k.N.BitLen() - 1 + 7) / 8
		if emLen < 2*h.Size()+2 {
			continue
		}
		digest := randBytes(e.rng, h.Size())
		for _, sl := range []int{zrsa.PSSSaltLengthEqualsHash, zrsa.PSSSaltLengthAuto} {
			in := []any{"hash", hashName(h), "digest", digest, "salt_length", sl}
			var zsig []byte
			var zerr error
			if !e.z("SignPSS", func() { zsig, zerr = zrsa.SignPSS(e.reader(), e.zk, h, digest, &zrsa.PSSOptions{SaltLength: sl}) }, in...) {
				continue
			}
			e.c.Eval(1)
			if zerr != nil {
				e.viol("cross:SignPSS:zcrypto-refuses", errStr(zerr), "SignPSS", in...)
				continue
			}
			t, ok := e.toComp(zsig)
			if !ok || stdrsa.VerifyPSS(&comp.PublicKey, h, digest, t, &stdrsa.PSSOptions{SaltLength: sl}) != nil {
				e.viol("cross:SignPSS->reference-pow->std.VerifyPSS", "signature^E (reference) is not an encoded message crypto/rsa accepts", "SignPSS", append(in, "signature", zsig)...)
			} else {
				e.nontrivial("bigE-signpss", hashName(h), sl, digest)
				e.c.Count("cross_accept_bigE_SignPSS", 1)
			}
			csig, cerr := stdrsa.SignPSS(e.reader(), comp, h, digest, &stdrsa.PSSOptions{SaltLength: sl})
			if cerr != nil {
				continue
			}
			good := e.fromComp(csig)
			var verr error
			if e.z("VerifyPSS", func() { verr = zrsa.VerifyPSS(&e.zk.PublicKey, h, digest, good, &zrsa.PSSOptions{SaltLength: sl}) }, append(in, "signature", good)...) {
				e.c.Eval(1)
				if verr != nil {
					e.viol("cross:std.SignPSS->reference-pow->VerifyPSS", errStr(verr), "VerifyPSS", append(in, "signature", good)...)
				} else {
					e.nontrivial("bigE-verifypss", hashName(h), sl, digest)
					e.c.Count("cross_accept_bigE_VerifyPSS", 1)
				}
			}
			if hi > 0 || sl != zrsa.PSSSaltLengthAuto {
				continue
			}
			for _, m := range mutate(e.rng, good, e.k.N, e.reps) {
				want := false
				if t, ok := e.toComp(m.b); ok {
					want = stdrsa.VerifyPSS(&comp.PublicKey, h, digest, t, nil) == nil
				}
				var verr error
				if !e.z("VerifyPSS", func() { verr = zrsa.VerifyPSS(&e.zk.PublicKey, h, digest, m.b, nil) }, append(in, "signature", m.b, "mutation", m.name)...) {
					continue
				}
				e.c.Eval(1)
				if (verr == nil) != want {
					e.viol("agree:VerifyPSS:mutated-signature", fmt.Sprintf("mutation %s: zcrypto err=%s, reference+crypto/rsa accept=%v", m.name, errStr(verr), want), "VerifyPSS", append(in, "signature", m.b, "mutation", m.name, "base", good)...)
				} else {
					e.nontrivial("bigE-pss-mut", m.name, m.b)
				}
			}
		}
	}
	// --- encryption
	type scheme struct {
		name string
		max  int
		zenc func(msg []byte) ([]byte, error)
		zdec func(ct []byte) ([]byte, error)
		senc func(msg []byte) ([]byte, error)
		sdec func(ct []byte) ([]byte, error)
	}
	schemes := []scheme{{"PKCS1v15", k - 11,
		func(m []byte) ([]byte, error) { return zrsa.EncryptPKCS1v15(e.reader(), &e.zk.PublicKey, m) },
		func(ct []byte) ([]byte, error) { return zrsa.DecryptPKCS1v15(nil, e.zk, ct) },
		func(m []byte) ([]byte, error) { return stdrsa.EncryptPKCS1v15(e.reader(), &comp.PublicKey, m) },
		func(ct []byte) ([]byte, error) { return stdrsa.DecryptPKCS1v15(nil, comp, ct) }}}
	for _, h := range []crypto.Hash{crypto.SHA256, crypto.SHA1} {
		h := h
		schemes = append(schemes, scheme{"OAEP-" + hashName(h), k - 2*h.Size() - 2,
			func(m []byte) ([]byte, error) { return zrsa.EncryptOAEP(h.New(), e.reader(), &e.zk.PublicKey, m, nil) },
			func(ct []byte) ([]byte, error) { return zrsa.DecryptOAEP(h.New(), nil, e.zk, ct, nil) },
			func(m []byte) ([]byte, error) {
				return stdrsa.EncryptOAEP(h.New(), e.reader(), &comp.PublicKey, m, nil)
			},
			func(ct []byte) ([]byte, error) { return stdrsa.DecryptOAEP(h.New(), nil, comp, ct, nil) }})
	}
	for _, s := range schemes {
		if s.max < 0 {
			continue
		}
		for _, l := range []int{0, s.max, e.rng.IntN(s.max + 1)} {
			msg := randBytes(e.rng, l)
			in := []any{"scheme", s.name, "msg", msg}
			var cz []byte
			var zerr error
			if !e.z("Encrypt"+s.name, func() { cz, zerr = s.zenc(msg) }, in...) {
				continue
			}
			e.c.Eval(1)
			if zerr != nil {
				e.viol("cross:Encrypt"+s.name+":zcrypto-refuses-valid-message", errStr(zerr), "Encrypt"+s.name, in...)
				continue
			}
			// reference: c = em^E, so em = c^D; re-encrypt em under the companion exponent and let crypto/rsa decrypt
			good := false
			if len(cz) == k && new(big.Int).SetBytes(cz).Cmp(e.k.N) < 0 {
				em := refPow(new(big.Int).SetBytes(cz), e.k.D, e.k.N)
				// em^E must reproduce the ciphertext (reference public operation)
				if refPow(em, e.k.E, e.k.N).Cmp(new(big.Int).SetBytes(cz)) == 0 {
					cc := leftPad(new(big.Int).Exp(em, big.NewInt(int64(comp.E)), e.k.N), k)
					pt, serr := s.sdec(cc)
					good = serr == nil && bytes.Equal(pt, msg)
				}
			}
			if !good {
				e.viol("cross:Encrypt"+s.name+"->reference-pow->std.Decrypt", "ciphertext is not (valid encoding)^E mod N", "Encrypt"+s.name, append(in, "ciphertext", cz)...)
			} else {
				e.nontrivial("bigE-enc", s.name, msg)
				e.c.Count("cross_accept_bigE_Encrypt"+s.name, 1)
			}
			var pz []byte
			if e.z("Decrypt"+s.name, func() { pz, zerr = s.zdec(cz) }, append(in, "ciphertext", cz)...) && (zerr != nil || !bytes.Equal(pz, msg)) {
				e.viol("inverse:Decrypt(Encrypt):"+s.name, fmt.Sprintf("err=%s pt=%x", errStr(zerr), pz), "Decrypt"+s.name, append(in, "ciphertext", cz)...)
			}
			// companion ciphertext moved under E by the reference, decrypted by zcrypto
			cc, serr := s.senc(msg)
			if serr != nil {
				continue
			}
			em := new(big.Int).Exp(new(big.Int).SetBytes(cc), e.k.compD, e.k.N)
			cl := leftPad(refPow(em, e.k.E, e.k.N), k)
			e.c.Eval(1)
			if e.z("Decrypt"+s.name, func() { pz, zerr = s.zdec(cl) }, append(in, "ciphertext", cl)...) {
				if zerr != nil || !bytes.Equal(pz, msg) {
					e.viol("cross:std.Encrypt->reference-pow->Decrypt"+s.name, fmt.Sprintf("err=%s pt=%x", errStr(zerr), pz), "Decrypt"+s.name, append(in, "ciphertext", cl)...)
				} else {
					e.nontrivial("bigE-dec", s.name, msg)
					e.c.Count("cross_accept_bigE_Decrypt"+s.name, 1)
				}
			}
		}
	}
}

// ---------------------------------------------------------------------------
// malformed public keys

type namedInt struct {
	name      string
	v         *big.Int
	malformed bool // nil, zero or negative: the statement requires an error
}

func runMalformed(c *core.Ctx) {
	pool := keys.Get()
	good := pool.RSAByBits(1024, 2)[0]
	n := good.N
	ns := []namedInt{
		{"nil", nil, true}, {"zero", big.NewInt(0), true}, {"minus-one", big.NewInt(-1), true}, {"negated-modulus", new(big.Int).Neg(n), true},
		{"one", big.NewInt(1), false}, {"two", big.NewInt(2), false}, {"even(N+1)", new(big.Int).Add(n, one), false}, {"even(2p)", new(big.Int).Lsh(good.Primes[0], 1), false},
		{"valid", n, false},
	}
	es := []namedInt{
		{"nil", nil, true}, {"zero", big.NewInt(0), true}, {"minus-one", big.NewInt(-1), true}, {"minus-65537", big.NewInt(-65537), true}, {"negated-2^64+1", new(big.Int).Neg(new(big.Int).Add(new(big.Int).Lsh(one, 64), one)), true},
		{"one", big.NewInt(1), false}, {"two", big.NewInt(2), false}, {"even(65536)", big.NewInt(65536), false}, {"N+2", new(big.Int).Add(n, big.NewInt(2)), false}, {"even(2^70)", new(big.Int).Lsh(one, 70), false},
		{"valid", big.NewInt(65537), false},
	}
	digest := bytes.Repeat([]byte{0xab}, 32)
	stdk := good.Std()
	validSig, _ := stdrsa.SignPKCS1v15(nil, stdk, crypto.SHA256, digest)
	validPSS, _ := stdrsa.SignPSS(detReader{c.GlobalRng("pss")}, stdk, crypto.SHA256, digest, nil)
	idx := 0
	total := 0
	for _, nv := range ns {
		for _, ev := range es {
			if nv.name == "valid" && ev.name == "valid" {
				continue
			}
			idx++
			if idx%c.NShards != c.Shard {
				continue
			}
			mk := func() *zrsa.PublicKey {
				p := &zrsa.PublicKey{}
				if nv.v != nil {
					p.N = new(big.Int).Set(nv.v)
				}
				if ev.v != nil {
					p.E = new(big.Int).Set(ev.v)
				}
				return p
			}
			size := 0
			if nv.v != nil {
				size = (nv.v.BitLen() + 7) / 8
			}
			sigs := map[string][]byte{"valid-for-good-key": validSig, "size-of-N-bytes(0x01..)": bytes.Repeat([]byte{1}, size), "empty": {}, "one-byte": {2}}
			pssSigs := map[string][]byte{"valid-for-good-key": validPSS, "size-of-N-bytes(0x01..)": bytes.Repeat([]byte{1}, size), "empty": {}}
			type op struct {
				name string
				f    func() error
			}
			var ops []op
			for _, m := range [][]byte{nil, []byte("hello"), bytes.Repeat([]byte{7}, 200)} {
				m := m
				ops = append(ops,
					op{fmt.Sprintf("EncryptPKCS1v15(len=%d)", len(m)), func() error {
						_, err := zrsa.EncryptPKCS1v15(detReader{c.GlobalRng("m")}, mk(), m)
						return err
					}},
					op{fmt.Sprintf("EncryptOAEP(len=%d)", len(m)), func() error {
						_, err := zrsa.EncryptOAEP(crypto.SHA256.New(), detReader{c.GlobalRng("m")}, mk(), m, nil)
						return err
					}})
			}
			sigNames := make([]string, 0, len(sigs))
			for s := range sigs {
				sigNames = append(sigNames, s)
			}
			sort.Strings(sigNames)
			for _, sn := range sigNames {
				s := sigs[sn]
				for _, h := range []crypto.Hash{crypto.SHA256, 0} {
					h := h
					ops = append(ops, op{fmt.Sprintf("VerifyPKCS1v15(%s,sig=%s)", hashName(h), sn), func() error { return zrsa.VerifyPKCS1v15(mk(), h, digest, s) }})
				}
				if ps, ok := pssSigs[sn]; ok {
					ops = append(ops, op{fmt.Sprintf("VerifyPSS(sig=%s)", sn), func() error { return zrsa.VerifyPSS(mk(), crypto.SHA256, digest, ps, nil) }},
						op{fmt.Sprintf("VerifyPSS(equals-hash,sig=%s)", sn), func() error {
							return zrsa.VerifyPSS(mk(), crypto.SHA256, digest, ps, &zrsa.PSSOptions{SaltLength: zrsa.PSSSaltLengthEqualsHash})
						}})
				}
			}
			for _, o := range ops {
				total++
				c.Eval(1)
				caseID := fmt.Sprintf("malformed/N=%s/E=%s/%s", nv.name, ev.name, o.name)
				input := map[string]any{"N": nv.name, "E": ev.name, "op": o.name}
				if nv.v != nil {
					input["N_value"] = nv.v.Text(16)
				}
				if ev.v != nil {
					input["E_value"] = ev.v.Text(16)
				}
				var err error
				opName := o.name[:strings.IndexByte(o.name, '(')]
				if pi := core.Guard(func() { err = o.f() }); pi != nil {
					c.Violation("malformed-key:"+panicKey(pi), fmt.Sprintf("%s on public key N=%s E=%s panicked: %s\n%s", o.name, nv.name, ev.name, pi.Value, pi.Stack), caseID, input)
					c.Count("malformed_panics:"+opName, 1)
					continue
				}
				c.Nontrivial("malformed", nv.name, ev.name, o.name)
				if err != nil {
					c.Count("malformed_error_returned", 1)
				} else {
					c.Count("malformed_no_error", 1)
					if nv.malformed || ev.malformed {
						c.Violation("malformed-key:no-error:"+opName, fmt.Sprintf("%s on public key N=%s E=%s returned no error", o.name, nv.name, ev.name), caseID, input)
					}
				}
			}
			// wider reading: private-key operations whose embedded public key is malformed (counted, not asserted)
			if nv.malformed || ev.malformed {
				zk := zKey(&keySpec{N: good.N, E: big.NewInt(65537), D: good.D, Primes: good.Primes}, 1)
				zk.PublicKey = *mk()
				wide := []op{
					{"SignPKCS1v15", func() error { _, err := zrsa.SignPKCS1v15(nil, zk, crypto.SHA256, digest); return err }},
					{"SignPSS", func() error {
						_, err := zrsa.SignPSS(detReader{c.GlobalRng("m")}, zk, crypto.SHA256, digest, nil)
						return err
					}},
					{"DecryptPKCS1v15", func() error { _, err := zrsa.DecryptPKCS1v15(nil, zk, validSig); return err }},
					{"DecryptOAEP", func() error { _, err := zrsa.DecryptOAEP(crypto.SHA256.New(), nil, zk, validSig, nil); return err }},
					{"Validate", func() error { return zk.Validate() }},
				}
				for _, o := range wide {
					var err error
					if pi := core.Guard(func() { err = o.f() }); pi != nil {
						c.Count("wider_reading_private_op_panics:"+o.name, 1)
					} else if err == nil {
						c.Count("wider_reading_private_op_no_error:"+o.name, 1)
					} else {
						c.Count("wider_reading_private_op_error:"+o.name, 1)
					}
				}
			}
		}
	}
	c.Count("malformed_cases", total)
}

// ---------------------------------------------------------------------------

func runC23(c *core.Ctx) {
	all := buildKeys(c)
	if c.Shard == 0 {
		byKind := map[string]int{}
		for _, k := range all {
			kind := strings.SplitN(k.id, ":", 3)[0]
			if strings.HasPrefix(k.id, "ctor:") {
				kind = strings.Join(strings.SplitN(k.id, ":", 3)[:2], ":")
			}
			if strings.HasPrefix(k.id, "pool") {
				kind = "pool"
			}
			if strings.HasPrefix(kind, "ctor:bigE") {
				kind = "ctor:bigE"
			}
			if strings.HasPrefix(kind, "ctor:e") {
				kind = "ctor:small-e"
			}
			byKind[kind]++
			if k.N.BitLen()%8 == 1 {
				byKind["modulus-bits=1mod8"]++
			}
		}
		for kind, n := range byKind {
			c.Count("keys:"+kind, n)
		}
		c.Note("decryption of ciphertexts whose length differs from the modulus length is compared but only counted (other_reading_ciphertext_length_leniency_disagreements:*): RFC 8017 7.2.2 step 1 is input validation, the statement is about what is computed")
		c.Note("malformed public keys: error required for nil/zero/negative N or E (statement: 'zero, negative or missing values'); for even or tiny values only 'no panic' is required; PublicKey.Size()/Equal() have no error result and are not called on malformed keys")
	}
	type item struct {
		key   int
		shape int
	}
	var items []item
	for i, k := range all {
		for s := 0; s < 3; s++ {
			if k.heavy && s == 2 && !c.Thorough() {
				continue
			}
			items = append(items, item{i, s})
		}
	}
	for idx, it := range items {
		if idx%c.NShards != c.Shard {
			continue
		}
		k := all[it.key]
		e := &env{c: c, k: k, zk: zKey(k, it.shape), shape: shapeNames[it.shape],
			rng: c.SubRng(fmt.Sprintf("item-%d-%d", it.key, it.shape)), reps: c.Pick(1, 6), item: idx, full: c.Thorough()}
		if k.heavy && !c.Thorough() {
			e.reps = 1
		}
		c.Count("key_shapes_run", 1)
		if c.WantSample() {
			c.Sample(map[string]any{"key": k.id, "bits": k.N.BitLen(), "primes": len(k.Primes), "e_bits": k.E.BitLen(), "shape": e.shape})
		}
		e.suiteValidateEqual()
		if k.std != nil {
			e.suiteEncryptPKCS1()
			e.suiteOAEP()
			e.suiteSignPKCS1()
			e.suitePSS()
			e.suiteCrafted()
			e.suiteBoundaries()
		} else {
			e.suiteBigE()
		}
	}
	runMalformed(c)
}
