// Package jsoneng holds property monitors (see /verif/DESIGN.md section 4).
package jsoneng
