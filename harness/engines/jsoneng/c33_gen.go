package jsoneng

// Generators and per-type equalities of the structured half of C33. Every generator stays inside the domain
// stated for its type in c33.go (var domains); the comment at each generator repeats the restriction.

import (
	"bytes"
	"fmt"
	"math/big"
	"math/rand/v2"
	"net"
	"reflect"
	"strings"

	"github.com/zmap/zcrypto/ct"
	"github.com/zmap/zcrypto/encoding/asn1"
	zjson "github.com/zmap/zcrypto/json"
	"github.com/zmap/zcrypto/rsa"
	"github.com/zmap/zcrypto/tls"
	"github.com/zmap/zcrypto/x509"
	xct "github.com/zmap/zcrypto/x509/ct"
	"github.com/zmap/zcrypto/x509/pkix"
)

// ---------------------------------------------------------------------------
// primitive generators

func rbytes(r *rand.Rand, n int) []byte {
	b := make([]byte, n)
	for i := range b {
		b[i] = byte(r.Uint32())
	}
	return b
}

// optBytes: nil, empty or 1..max random bytes.
func optBytes(r *rand.Rand, max int) []byte {
	switch r.IntN(6) {
	case 0:
		return nil
	case 1:
		return []byte{}
	}
	return rbytes(r, 1+r.IntN(max))
}

// bigUpTo returns a non-negative integer of at most maxBits bits, with edge values.
func bigUpTo(r *rand.Rand, maxBits int) *big.Int {
	switch r.IntN(12) {
	case 0:
		return big.NewInt(0)
	case 1:
		return big.NewInt(1)
	case 2:
		return big.NewInt(65537)
	case 3: // power of two (leading byte boundary)
		return new(big.Int).Lsh(big.NewInt(1), uint(r.IntN(maxBits)))
	case 4: // 0xff.. boundary
		v := new(big.Int).Lsh(big.NewInt(1), uint(8*(1+r.IntN((maxBits+7)/8))))
		return v.Sub(v, big.NewInt(1))
	}
	bits := 1 + r.IntN(maxBits)
	if r.IntN(3) == 0 {
		bits = 1 + r.IntN(64)
	}
	v := new(big.Int).SetBytes(rbytes(r, (bits+7)/8))
	return v
}

var stringAlphabets = []string{
	"abcdefghijklmnopqrstuvwxyzABCDEFGHIJKLMNOPQRSTUVWXYZ0123456789 .-_@/:",
	"\"\\<>&'\t\n\r\x00\x01\x1f\x7f{}[],:",
	"äöüßéèñçøåπλЖяאב中文日本語한국\u2028\u2029\ufeff\U0001F600",
}

// str returns a valid UTF-8 string (restriction: encoding/json replaces invalid UTF-8 by U+FFFD).
func str(r *rand.Rand) string {
	n := r.IntN(24)
	if r.IntN(10) == 0 {
		n = 0
	}
	var sb strings.Builder
	mode := r.IntN(4)
	for i := 0; i < n; i++ {
		a := stringAlphabets[0]
		if mode == 1 || (mode == 3 && r.IntN(3) == 0) {
			a = stringAlphabets[1]
		} else if mode == 2 || (mode == 3 && r.IntN(3) == 0) {
			a = stringAlphabets[2]
		}
		rs := []rune(a)
		sb.WriteRune(rs[r.IntN(len(rs))])
	}
	return sb.String()
}

func strs(r *rand.Rand, max int) []string {
	switch r.IntN(5) {
	case 0:
		return nil
	case 1:
		return []string{}
	}
	n := 1 + r.IntN(max)
	out := make([]string, n)
	for i := range out {
		out[i] = str(r)
	}
	return out
}

// oid: >= minArcs arcs, each 0..2^31-1 (restriction: decoders use ParseInt(..,32)/Atoi, ASN.1 parser has the same bound).
func oid(r *rand.Rand, minArcs int) asn1.ObjectIdentifier {
	n := minArcs + r.IntN(8)
	o := make(asn1.ObjectIdentifier, n)
	for i := range o {
		switch {
		case i == 0:
			o[i] = r.IntN(3)
		case i == 1:
			o[i] = r.IntN(40)
		case r.IntN(8) == 0:
			o[i] = 1<<31 - 1 - r.IntN(3)
		case r.IntN(3) == 0:
			o[i] = r.IntN(1 << 30)
		default:
			o[i] = r.IntN(1000)
		}
	}
	return o
}

func oidEq(a, b []int) bool {
	if len(a) != len(b) {
		return false
	}
	for i := range a {
		if a[i] != b[i] {
			return false
		}
	}
	return true
}

func strsEq(a, b []string) bool {
	if len(a) != len(b) {
		return false
	}
	for i := range a {
		if a[i] != b[i] {
			return false
		}
	}
	return true
}

func bigEq(a, b *big.Int) bool {
	if a == nil || b == nil {
		return a == nil && b == nil
	}
	return a.Cmp(b) == 0
}

func bigStr(v *big.Int) string {
	if v == nil {
		return "nil"
	}
	return v.Text(16)
}

// ip: 4-byte, 16-byte, or the 16-byte form of an IPv4 address.
func ip(r *rand.Rand) net.IP {
	switch r.IntN(3) {
	case 0:
		return net.IP(rbytes(r, 4))
	case 1:
		return net.IP(rbytes(r, 16))
	}
	return net.IP(rbytes(r, 4)).To16()
}

// ---------------------------------------------------------------------------
// json package

func genECPoint(r *rand.Rand) *zjson.ECPoint {
	p := &zjson.ECPoint{X: bigUpTo(r, 528)}
	if r.IntN(2) == 0 { // "Not present for x25519"
		p.Y = bigUpTo(r, 528)
	}
	return p
}

func eqECPoint(a, b *zjson.ECPoint, path string) string {
	if a == nil || b == nil {
		if a != b {
			return path
		}
		return ""
	}
	if !bigEq(a.X, b.X) {
		return path + ".X"
	}
	if !bigEq(a.Y, b.Y) {
		return path + ".Y"
	}
	return ""
}

func descECPoint(p *zjson.ECPoint) string {
	if p == nil {
		return "nil"
	}
	return fmt.Sprintf("{X:%s Y:%s}", bigStr(p.X), bigStr(p.Y))
}

func genECPriv(r *rand.Rand) *zjson.ECDHPrivateParams {
	return &zjson.ECDHPrivateParams{Value: optBytes(r, 66), Length: r.IntN(3) * r.IntN(600)}
}

func eqECPriv(a, b *zjson.ECDHPrivateParams, path string) string {
	if a == nil || b == nil {
		if a != b {
			return path
		}
		return ""
	}
	if !bytes.Equal(a.Value, b.Value) {
		return path + ".Value"
	}
	return same(a.Length, b.Length, path+".Length")
}

func genECDH(r *rand.Rand) *zjson.ECDHParams {
	p := &zjson.ECDHParams{} // Curve: json:"-", left nil
	if r.IntN(4) > 0 {
		p.TLSCurveID = zjson.TLSCurveID(r.IntN(65536))
		if r.IntN(2) == 0 {
			p.TLSCurveID = zjson.TLSCurveID(1 + r.IntN(30))
		}
	}
	if r.IntN(2) == 0 {
		p.ServerPublic = genECPoint(r)
	}
	if r.IntN(2) == 0 {
		p.ServerPrivate = genECPriv(r)
	}
	if r.IntN(2) == 0 {
		p.ClientPublic = genECPoint(r)
	}
	if r.IntN(2) == 0 {
		p.ClientPrivate = genECPriv(r)
	}
	return p
}

func eqECDH(a, b *zjson.ECDHParams, path string) string {
	if a == nil || b == nil {
		if a != b {
			return path
		}
		return ""
	}
	if a.TLSCurveID != b.TLSCurveID {
		return path + ".TLSCurveID"
	}
	if d := eqECPoint(a.ServerPublic, b.ServerPublic, path+".ServerPublic"); d != "" {
		return d
	}
	if d := eqECPriv(a.ServerPrivate, b.ServerPrivate, path+".ServerPrivate"); d != "" {
		return d
	}
	if d := eqECPoint(a.ClientPublic, b.ClientPublic, path+".ClientPublic"); d != "" {
		return d
	}
	return eqECPriv(a.ClientPrivate, b.ClientPrivate, path+".ClientPrivate")
}

func genDH(r *rand.Rand) *zjson.DHParams {
	opt := func() *big.Int {
		if r.IntN(2) == 0 {
			return nil
		}
		return bigUpTo(r, 2048)
	}
	// Prime, Generator: required members, non-nil
	return &zjson.DHParams{Prime: bigUpTo(r, 2048), Generator: bigUpTo(r, 64), ServerPublic: opt(), ServerPrivate: opt(),
		ClientPublic: opt(), ClientPrivate: opt(), SessionKey: opt()}
}

func eqDH(a, b *zjson.DHParams, path string) string {
	if a == nil || b == nil {
		if a != b {
			return path
		}
		return ""
	}
	for _, f := range []struct {
		n    string
		x, y *big.Int
	}{{"Prime", a.Prime, b.Prime}, {"Generator", a.Generator, b.Generator}, {"ServerPublic", a.ServerPublic, b.ServerPublic}, {"ServerPrivate", a.ServerPrivate, b.ServerPrivate},
		{"ClientPublic", a.ClientPublic, b.ClientPublic}, {"ClientPrivate", a.ClientPrivate, b.ClientPrivate}, {"SessionKey", a.SessionKey, b.SessionKey}} {
		if !bigEq(f.x, f.y) {
			return path + "." + f.n
		}
	}
	return ""
}

func genRSAClient(r *rand.Rand) *zjson.RSAClientParams {
	return &zjson.RSAClientParams{Length: uint16(r.IntN(3) * r.IntN(65536) / 2), EncryptedPMS: optBytes(r, 512)}
}

func eqRSAClient(a, b *zjson.RSAClientParams, path string) string {
	if a == nil || b == nil {
		if a != b {
			return path
		}
		return ""
	}
	if a.Length != b.Length {
		return path + ".Length"
	}
	if !bytes.Equal(a.EncryptedPMS, b.EncryptedPMS) {
		return path + ".EncryptedPMS"
	}
	return ""
}

// ---------------------------------------------------------------------------
// pkix

var (
	oidCN        = asn1.ObjectIdentifier{2, 5, 4, 3}
	oidSurname   = asn1.ObjectIdentifier{2, 5, 4, 4}
	oidSerial    = asn1.ObjectIdentifier{2, 5, 4, 5}
	oidC         = asn1.ObjectIdentifier{2, 5, 4, 6}
	oidL         = asn1.ObjectIdentifier{2, 5, 4, 7}
	oidST        = asn1.ObjectIdentifier{2, 5, 4, 8}
	oidStreet    = asn1.ObjectIdentifier{2, 5, 4, 9}
	oidO         = asn1.ObjectIdentifier{2, 5, 4, 10}
	oidOU        = asn1.ObjectIdentifier{2, 5, 4, 11}
	oidPostal    = asn1.ObjectIdentifier{2, 5, 4, 17}
	oidGiven     = asn1.ObjectIdentifier{2, 5, 4, 42}
	oidOrgID     = asn1.ObjectIdentifier{2, 5, 4, 97}
	oidDC        = asn1.ObjectIdentifier{0, 9, 2342, 19200300, 100, 1, 25}
	oidEmail     = asn1.ObjectIdentifier{1, 2, 840, 113549, 1, 9, 1}
	oidJL        = asn1.ObjectIdentifier{1, 3, 6, 1, 4, 1, 311, 60, 2, 1, 1}
	oidJST       = asn1.ObjectIdentifier{1, 3, 6, 1, 4, 1, 311, 60, 2, 1, 2}
	oidJC        = asn1.ObjectIdentifier{1, 3, 6, 1, 4, 1, 311, 60, 2, 1, 3}
	multiValOIDs = []asn1.ObjectIdentifier{oidSurname, oidC, oidL, oidST, oidStreet, oidO, oidOU, oidPostal, oidGiven, oidOrgID, oidDC, oidEmail, oidJL, oidJST, oidJC}
)

// genNameFields: hand-filled Name (restriction: only the members ToRDNSequence carries; no GivenName/Surname,
// no Names/ExtraNames/OriginalRDNS).
func genNameFields(r *rand.Rand) *pkix.Name {
	n := &pkix.Name{}
	set := func(dst *[]string) {
		if r.IntN(3) == 0 {
			*dst = strs(r, 3)
		}
	}
	set(&n.Country)
	set(&n.Organization)
	set(&n.OrganizationalUnit)
	set(&n.Locality)
	set(&n.Province)
	set(&n.StreetAddress)
	set(&n.PostalCode)
	set(&n.DomainComponent)
	set(&n.EmailAddress)
	set(&n.JurisdictionCountry)
	set(&n.JurisdictionLocality)
	set(&n.JurisdictionProvince)
	set(&n.OrganizationIDs)
	if r.IntN(2) == 0 {
		n.CommonName = str(r)
	}
	if r.IntN(3) == 0 {
		n.SerialNumber = str(r)
	}
	return n
}

// genNameParsed: Name filled by FillFromRDNSequence (restriction: at most one CN and one serialNumber unless
// multi is set; unknown types and non-string values may be present, the format drops them by design).
func genNameParsed(r *rand.Rand, multi bool) *pkix.Name {
	var rdns pkix.RDNSequence
	nRDN := r.IntN(7)
	haveCN, haveSN := false, false
	for i := 0; i < nRDN; i++ {
		var set pkix.RelativeDistinguishedNameSET
		for j := 0; j < 1+r.IntN(2)*r.IntN(3); j++ {
			var atv pkix.AttributeTypeAndValue
			switch k := r.IntN(20); {
			case k == 0 && (!haveCN || multi):
				atv = pkix.AttributeTypeAndValue{Type: oidCN, Value: str(r)}
				haveCN = true
			case k == 1 && (!haveSN || multi):
				atv = pkix.AttributeTypeAndValue{Type: oidSerial, Value: str(r)}
				haveSN = true
			case k == 2: // unknown attribute type: json:"-"
				atv = pkix.AttributeTypeAndValue{Type: asn1.ObjectIdentifier{2, 5, 4, 200 + r.IntN(50)}, Value: str(r)}
			case k == 3: // non-string value of a known type: skipped by the encoder
				atv = pkix.AttributeTypeAndValue{Type: oidO, Value: rbytes(r, 3)}
			default:
				atv = pkix.AttributeTypeAndValue{Type: multiValOIDs[r.IntN(len(multiValOIDs))], Value: str(r)}
			}
			set = append(set, atv)
		}
		rdns = append(rdns, set)
	}
	n := &pkix.Name{}
	n.FillFromRDNSequence(&rdns)
	return n
}

// eqName compares the per-attribute members; nil and empty lists identified.
func eqName(a, b *pkix.Name, path string, parsed bool) string {
	type f struct {
		n    string
		x, y []string
	}
	fs := []f{{"Country", a.Country, b.Country}, {"Organization", a.Organization, b.Organization}, {"OrganizationalUnit", a.OrganizationalUnit, b.OrganizationalUnit},
		{"Locality", a.Locality, b.Locality}, {"Province", a.Province, b.Province}, {"StreetAddress", a.StreetAddress, b.StreetAddress}, {"PostalCode", a.PostalCode, b.PostalCode},
		{"DomainComponent", a.DomainComponent, b.DomainComponent}, {"EmailAddress", a.EmailAddress, b.EmailAddress},
		{"JurisdictionCountry", a.JurisdictionCountry, b.JurisdictionCountry}, {"JurisdictionLocality", a.JurisdictionLocality, b.JurisdictionLocality},
		{"JurisdictionProvince", a.JurisdictionProvince, b.JurisdictionProvince}, {"OrganizationIDs", a.OrganizationIDs, b.OrganizationIDs}}
	if parsed {
		fs = append(fs, f{"GivenName", a.GivenName, b.GivenName}, f{"Surname", a.Surname, b.Surname})
	}
	for _, x := range fs {
		if !strsEq(x.x, x.y) {
			return path + "." + x.n
		}
	}
	if a.CommonName != b.CommonName {
		return path + ".CommonName"
	}
	if a.SerialNumber != b.SerialNumber {
		return path + ".SerialNumber"
	}
	return ""
}

func descName(n *pkix.Name) string {
	return fmt.Sprintf("CN=%q SN=%q C=%q O=%q OU=%q L=%q ST=%q street=%q postal=%q DC=%q email=%q given=%q surname=%q jC=%q jL=%q jST=%q orgID=%q rdns=%d",
		n.CommonName, n.SerialNumber, n.Country, n.Organization, n.OrganizationalUnit, n.Locality, n.Province, n.StreetAddress, n.PostalCode, n.DomainComponent,
		n.EmailAddress, n.GivenName, n.Surname, n.JurisdictionCountry, n.JurisdictionLocality, n.JurisdictionProvince, n.OrganizationIDs, len(n.OriginalRDNS))
}

func genOtherName(r *rand.Rand) pkix.OtherName {
	// restriction: TypeID non-empty; class/tag/compound as the decoder rebuilds them ([0] EXPLICIT), only Bytes is carried
	return pkix.OtherName{TypeID: oid(r, 1), Value: asn1.RawValue{Class: asn1.ClassContextSpecific, Tag: 0, IsCompound: true, Bytes: optBytes(r, 40)}}
}

func eqOtherName(a, b *pkix.OtherName, path string) string {
	if !oidEq(a.TypeID, b.TypeID) {
		return path + ".TypeID"
	}
	if !bytes.Equal(a.Value.Bytes, b.Value.Bytes) {
		return path + ".Value.Bytes"
	}
	return ""
}

func genEDI(r *rand.Rand) pkix.EDIPartyName {
	e := pkix.EDIPartyName{PartyName: str(r)}
	if r.IntN(2) == 0 {
		e.NameAssigner = str(r)
	}
	return e
}

// ---------------------------------------------------------------------------
// x509

func genGeneralNames(r *rand.Rand) *x509.GeneralNames {
	g := &x509.GeneralNames{}
	if r.IntN(3) == 0 {
		for i := 0; i < 1+r.IntN(2); i++ {
			g.DirectoryNames = append(g.DirectoryNames, *genNameFields(r))
		}
	}
	if r.IntN(2) == 0 {
		g.DNSNames = strs(r, 4)
	}
	if r.IntN(3) == 0 {
		for i := 0; i < 1+r.IntN(2); i++ {
			g.EDIPartyNames = append(g.EDIPartyNames, genEDI(r))
		}
	}
	if r.IntN(3) == 0 {
		g.EmailAddresses = strs(r, 3)
	}
	if r.IntN(2) == 0 {
		for i := 0; i < 1+r.IntN(3); i++ {
			g.IPAddresses = append(g.IPAddresses, ip(r))
		}
	}
	if r.IntN(3) == 0 {
		for i := 0; i < 1+r.IntN(2); i++ {
			g.OtherNames = append(g.OtherNames, genOtherName(r))
		}
	}
	switch r.IntN(4) {
	case 0:
		for i := 0; i < 1+r.IntN(3); i++ {
			g.RegisteredIDs = append(g.RegisteredIDs, oid(r, 2))
		}
	case 1:
		g.RegisteredIDs = []asn1.ObjectIdentifier{}
	}
	if r.IntN(3) == 0 {
		g.URIs = strs(r, 3)
	}
	return g
}

func eqGeneralNames(a, b *x509.GeneralNames, path string) string {
	if len(a.DirectoryNames) != len(b.DirectoryNames) {
		return path + ".DirectoryNames"
	}
	for i := range a.DirectoryNames {
		if d := eqName(&a.DirectoryNames[i], &b.DirectoryNames[i], path+".DirectoryNames[]", false); d != "" {
			return d
		}
	}
	if !strsEq(a.DNSNames, b.DNSNames) {
		return path + ".DNSNames"
	}
	if len(a.EDIPartyNames) != len(b.EDIPartyNames) {
		return path + ".EDIPartyNames"
	}
	for i := range a.EDIPartyNames {
		if a.EDIPartyNames[i] != b.EDIPartyNames[i] {
			return path + ".EDIPartyNames[]"
		}
	}
	if !strsEq(a.EmailAddresses, b.EmailAddresses) {
		return path + ".EmailAddresses"
	}
	if len(a.IPAddresses) != len(b.IPAddresses) {
		return path + ".IPAddresses"
	}
	for i := range a.IPAddresses {
		if !a.IPAddresses[i].Equal(b.IPAddresses[i]) {
			return path + ".IPAddresses[]"
		}
	}
	if len(a.OtherNames) != len(b.OtherNames) {
		return path + ".OtherNames"
	}
	for i := range a.OtherNames {
		if d := eqOtherName(&a.OtherNames[i], &b.OtherNames[i], path+".OtherNames[]"); d != "" {
			return d
		}
	}
	if len(a.RegisteredIDs) != len(b.RegisteredIDs) {
		return path + ".RegisteredIDs"
	}
	for i := range a.RegisteredIDs {
		if !oidEq(a.RegisteredIDs[i], b.RegisteredIDs[i]) {
			return path + ".RegisteredIDs[]"
		}
	}
	if !strsEq(a.URIs, b.URIs) {
		return path + ".URIs"
	}
	return ""
}

// genSubtreeIP (restriction: same family for address and mask, contiguous mask, no IPv4-mapped IPv6, Min=Max=0).
func genSubtreeIP(r *rand.Rand) x509.GeneralSubtreeIP {
	var g x509.GeneralSubtreeIP
	if r.IntN(2) == 0 {
		g.Data.IP = net.IP(rbytes(r, 4))
		g.Data.Mask = net.CIDRMask(r.IntN(33), 32)
	} else {
		a := rbytes(r, 16)
		if net.IP(a).To4() != nil {
			a[0] = 0x20
		}
		g.Data.IP = net.IP(a)
		g.Data.Mask = net.CIDRMask(r.IntN(129), 128)
	}
	if r.IntN(3) == 0 { // network address (host bits clear), the common case in certificates
		g.Data.IP = g.Data.IP.Mask(g.Data.Mask)
		if len(g.Data.IP) == 16 && g.Data.IP.To4() != nil {
			g.Data.IP[0] = 0x20
			g.Data.Mask = net.CIDRMask(8+r.IntN(121), 128)
			g.Data.IP = g.Data.IP.Mask(g.Data.Mask)
		}
	}
	return g
}

func eqSubtreeIP(a, b *x509.GeneralSubtreeIP, path string) string {
	if !a.Data.IP.Equal(b.Data.IP) {
		return path + ".Data.IP"
	}
	if !bytes.Equal(a.Data.Mask, b.Data.Mask) {
		return path + ".Data.Mask"
	}
	if a.Min != b.Min {
		return path + ".Min"
	}
	return same(a.Max, b.Max, path+".Max")
}

func genNameConstraints(r *rand.Rand) *x509.NameConstraints {
	nc := &x509.NameConstraints{Critical: r.IntN(2) == 0}
	ss := func() []x509.GeneralSubtreeString {
		if r.IntN(3) > 0 {
			return nil
		}
		var out []x509.GeneralSubtreeString
		for i := 0; i < 1+r.IntN(3); i++ {
			out = append(out, x509.GeneralSubtreeString{Data: str(r)})
		}
		return out
	}
	ips := func() []x509.GeneralSubtreeIP {
		if r.IntN(3) > 0 {
			return nil
		}
		var out []x509.GeneralSubtreeIP
		for i := 0; i < 1+r.IntN(3); i++ {
			out = append(out, genSubtreeIP(r))
		}
		return out
	}
	names := func() []x509.GeneralSubtreeName {
		if r.IntN(4) > 0 {
			return nil
		}
		var out []x509.GeneralSubtreeName
		for i := 0; i < 1+r.IntN(2); i++ {
			out = append(out, x509.GeneralSubtreeName{Data: *genNameFields(r)})
		}
		return out
	}
	edis := func() []x509.GeneralSubtreeEdi {
		if r.IntN(4) > 0 {
			return nil
		}
		var out []x509.GeneralSubtreeEdi
		for i := 0; i < 1+r.IntN(2); i++ {
			out = append(out, x509.GeneralSubtreeEdi{Data: genEDI(r)})
		}
		return out
	}
	oids := func() []x509.GeneralSubtreeOid {
		if r.IntN(4) > 0 {
			return nil
		}
		var out []x509.GeneralSubtreeOid
		for i := 0; i < 1+r.IntN(2); i++ {
			out = append(out, x509.GeneralSubtreeOid{Data: oid(r, 2)})
		}
		return out
	}
	nc.PermittedDNSNames, nc.PermittedEmailAddresses, nc.PermittedURIs = ss(), ss(), ss()
	nc.PermittedIPAddresses, nc.PermittedDirectoryNames, nc.PermittedEdiPartyNames, nc.PermittedRegisteredIDs = ips(), names(), edis(), oids()
	nc.ExcludedDNSNames, nc.ExcludedEmailAddresses, nc.ExcludedURIs = ss(), ss(), ss()
	nc.ExcludedIPAddresses, nc.ExcludedDirectoryNames, nc.ExcludedEdiPartyNames, nc.ExcludedRegisteredIDs = ips(), names(), edis(), oids()
	return nc
}

func eqNameConstraints(a, b *x509.NameConstraints) string {
	if a.Critical != b.Critical {
		return "Critical"
	}
	ss := func(n string, x, y []x509.GeneralSubtreeString) string {
		if len(x) != len(y) {
			return n
		}
		for i := range x {
			if x[i] != y[i] {
				return n + "[]"
			}
		}
		return ""
	}
	ips := func(n string, x, y []x509.GeneralSubtreeIP) string {
		if len(x) != len(y) {
			return n
		}
		for i := range x {
			if d := eqSubtreeIP(&x[i], &y[i], n+"[]"); d != "" {
				return d
			}
		}
		return ""
	}
	names := func(n string, x, y []x509.GeneralSubtreeName) string {
		if len(x) != len(y) {
			return n
		}
		for i := range x {
			if d := eqName(&x[i].Data, &y[i].Data, n+"[].Data", false); d != "" {
				return d
			}
			if x[i].Min != y[i].Min || x[i].Max != y[i].Max {
				return n + "[].MinMax"
			}
		}
		return ""
	}
	edis := func(n string, x, y []x509.GeneralSubtreeEdi) string {
		if len(x) != len(y) {
			return n
		}
		for i := range x {
			if x[i] != y[i] {
				return n + "[]"
			}
		}
		return ""
	}
	oids := func(n string, x, y []x509.GeneralSubtreeOid) string {
		if len(x) != len(y) {
			return n
		}
		for i := range x {
			if !oidEq(x[i].Data, y[i].Data) || x[i].Min != y[i].Min || x[i].Max != y[i].Max {
				return n + "[]"
			}
		}
		return ""
	}
	for _, d := range []string{
		ss("PermittedDNSNames", a.PermittedDNSNames, b.PermittedDNSNames), ss("PermittedEmailAddresses", a.PermittedEmailAddresses, b.PermittedEmailAddresses), ss("PermittedURIs", a.PermittedURIs, b.PermittedURIs),
		ips("PermittedIPAddresses", a.PermittedIPAddresses, b.PermittedIPAddresses), names("PermittedDirectoryNames", a.PermittedDirectoryNames, b.PermittedDirectoryNames),
		edis("PermittedEdiPartyNames", a.PermittedEdiPartyNames, b.PermittedEdiPartyNames), oids("PermittedRegisteredIDs", a.PermittedRegisteredIDs, b.PermittedRegisteredIDs),
		ss("ExcludedDNSNames", a.ExcludedDNSNames, b.ExcludedDNSNames), ss("ExcludedEmailAddresses", a.ExcludedEmailAddresses, b.ExcludedEmailAddresses), ss("ExcludedURIs", a.ExcludedURIs, b.ExcludedURIs),
		ips("ExcludedIPAddresses", a.ExcludedIPAddresses, b.ExcludedIPAddresses), names("ExcludedDirectoryNames", a.ExcludedDirectoryNames, b.ExcludedDirectoryNames),
		edis("ExcludedEdiPartyNames", a.ExcludedEdiPartyNames, b.ExcludedEdiPartyNames), oids("ExcludedRegisteredIDs", a.ExcludedRegisteredIDs, b.ExcludedRegisteredIDs),
	} {
		if d != "" {
			return d
		}
	}
	return ""
}

// ---------------------------------------------------------------------------
// generic equality for the handshake-log structs: exported members, json:"-" skipped, nil = empty for slices,
// big integers by value, json-package key parameters by their own equalities.

func deepEq(a, b reflect.Value, path string) string {
	if a.Type() != b.Type() {
		return path + "(type)"
	}
	switch v := a.Interface().(type) {
	case *big.Int:
		if !bigEq(v, b.Interface().(*big.Int)) {
			return path
		}
		return ""
	case *zjson.DHParams:
		return eqDH(v, b.Interface().(*zjson.DHParams), path)
	case *zjson.ECDHParams:
		return eqECDH(v, b.Interface().(*zjson.ECDHParams), path)
	case *zjson.RSAClientParams:
		return eqRSAClient(v, b.Interface().(*zjson.RSAClientParams), path)
	}
	switch a.Kind() {
	case reflect.Pointer:
		if a.IsNil() || b.IsNil() {
			if a.IsNil() != b.IsNil() {
				return path + "(nil-ness)"
			}
			return ""
		}
		return deepEq(a.Elem(), b.Elem(), path)
	case reflect.Struct:
		for i := 0; i < a.NumField(); i++ {
			f := a.Type().Field(i)
			if !f.IsExported() || f.Tag.Get("json") == "-" {
				continue
			}
			if d := deepEq(a.Field(i), b.Field(i), path+"."+f.Name); d != "" {
				return d
			}
		}
		return ""
	case reflect.Slice:
		if a.Len() != b.Len() {
			return path + "(len)"
		}
		for i := 0; i < a.Len(); i++ {
			if d := deepEq(a.Index(i), b.Index(i), path+"[]"); d != "" {
				return d
			}
		}
		return ""
	case reflect.Interface:
		if a.IsNil() || b.IsNil() {
			if a.IsNil() != b.IsNil() {
				return path
			}
			return ""
		}
		return deepEq(a.Elem(), b.Elem(), path)
	default:
		if !a.Equal(b) {
			return path
		}
		return ""
	}
}

func genSigHashes(r *rand.Rand) []tls.SignatureAndHash {
	if r.IntN(2) == 0 {
		return nil
	}
	var out []tls.SignatureAndHash
	for i := 0; i < 1+r.IntN(5); i++ {
		out = append(out, tls.SignatureAndHash{Signature: uint8(r.IntN(256)), Hash: uint8(r.IntN(256))})
	}
	return out
}

func genSessionTicket(r *rand.Rand) *tls.SessionTicket {
	return &tls.SessionTicket{Value: optBytes(r, 200), Length: r.IntN(2) * r.IntN(400), LifetimeHint: uint32(r.IntN(2)) * r.Uint32()}
}

func u16s[T ~uint16](r *rand.Rand, max int) []T {
	if r.IntN(4) == 0 {
		return nil
	}
	var out []T
	for i := 0; i < 1+r.IntN(max); i++ {
		out = append(out, T(r.IntN(65536)))
	}
	return out
}

func u8s[T ~uint8](r *rand.Rand, max int) []T {
	if r.IntN(4) == 0 {
		return nil
	}
	var out []T
	for i := 0; i < 1+r.IntN(max); i++ {
		out = append(out, T(r.IntN(256)))
	}
	return out
}

func bytesList(r *rand.Rand) [][]byte {
	if r.IntN(2) == 0 {
		return nil
	}
	var out [][]byte
	for i := 0; i < 1+r.IntN(3); i++ {
		out = append(out, rbytes(r, r.IntN(20)))
	}
	return out
}

func genClientHello(r *rand.Rand) *tls.ClientHello {
	ch := &tls.ClientHello{
		Version: tls.TLSVersion(0x0300 + r.IntN(6)), Random: optBytes(r, 32), SessionID: optBytes(r, 32),
		CipherSuites: u16s[tls.CipherSuiteID](r, 12), CompressionMethods: u8s[tls.CompressionMethod](r, 3),
		OcspStapling: r.IntN(2) == 0, TicketSupported: r.IntN(2) == 0, SecureRenegotiation: r.IntN(2) == 0, HeartbeatSupported: r.IntN(2) == 0,
		ExtendedRandom: optBytes(r, 32), ExtendedMasterSecret: r.IntN(2) == 0, Scts: r.IntN(2) == 0,
		SupportedCurves: u16s[tls.CurveID](r, 6), SupportedPoints: u8s[tls.PointFormat](r, 3), SupportedVersions: u16s[tls.TLSVersion](r, 4),
		SignatureAndHashes: genSigHashes(r), SctEnabled: r.IntN(2) == 0, UnknownExtensions: bytesList(r),
	}
	if r.IntN(2) == 0 {
		ch.ServerName = str(r)
	}
	if r.IntN(2) == 0 {
		ch.SessionTicket = genSessionTicket(r)
	}
	if r.IntN(2) == 0 {
		ch.AlpnProtocols = strs(r, 3)
	}
	return ch
}

func genServerHello(r *rand.Rand) *tls.ServerHello {
	sh := &tls.ServerHello{
		Version: tls.TLSVersion(r.IntN(65536)), Random: optBytes(r, 32), SessionID: optBytes(r, 32),
		CipherSuite: tls.CipherSuiteID(r.IntN(65536)), CompressionMethod: tls.CompressionMethod(r.IntN(256)),
		OcspStapling: r.IntN(2) == 0, TicketSupported: r.IntN(2) == 0, SecureRenegotiation: r.IntN(2) == 0, HeartbeatSupported: r.IntN(2) == 0,
		ExtendedRandom: optBytes(r, 32), ExtendedMasterSecret: r.IntN(2) == 0, ExtensionIdentifiers: u16s[uint16](r, 6), UnknownExtensions: bytesList(r),
	}
	if r.IntN(2) == 0 {
		sh.AlpnProtocol = str(r)
	}
	if r.IntN(2) == 0 {
		sh.SupportedVersions = &tls.SupportedVersionsExt{SelectedVersion: tls.TLSVersion(0x0300 + r.IntN(6))}
	}
	if r.IntN(2) == 0 { // absent or with a group
		g := tls.CurveID(r.IntN(65536))
		sh.KeyShare = &tls.KeyShareExtension{KeyExchange: &g}
	}
	if r.IntN(3) == 0 { // raw SCTs only (parsed ones are lossy by documentation)
		for i := 0; i < 1+r.IntN(2); i++ {
			sh.SignedCertificateTimestamps = append(sh.SignedCertificateTimestamps, tls.ParsedAndRawSCT{Raw: rbytes(r, 1+r.IntN(60))})
		}
	}
	return sh
}

func genDigitalSignature(r *rand.Rand) *tls.DigitalSignature {
	ds := &tls.DigitalSignature{Raw: optBytes(r, 80), Valid: r.IntN(2) == 0, Version: tls.TLSVersion(0x0300 + r.IntN(6))}
	if r.IntN(2) == 0 {
		ds.Type = []string{"rsa", "dsa", "ecdsa", "ed25519", "unknown.9"}[r.IntN(5)]
	}
	if r.IntN(2) == 0 {
		ds.SigHashExtension = &tls.SignatureAndHash{Signature: uint8(r.IntN(256)), Hash: uint8(r.IntN(256))}
	}
	return ds
}

func genSKX(r *rand.Rand) *tls.ServerKeyExchange {
	s := &tls.ServerKeyExchange{Digest: optBytes(r, 64)}
	switch r.IntN(3) {
	case 0:
		s.DHParams = genDH(r)
	case 1:
		s.ECDHParams = genECDH(r)
	}
	if r.IntN(2) == 0 {
		s.Signature = genDigitalSignature(r)
	}
	if r.IntN(4) == 0 {
		s.SignatureError = str(r)
	}
	return s
}

func genCKX(r *rand.Rand) *tls.ClientKeyExchange {
	c := &tls.ClientKeyExchange{}
	switch r.IntN(4) {
	case 0:
		c.RSAParams = genRSAClient(r)
	case 1:
		c.DHParams = genDH(r)
	case 2:
		c.ECDHParams = genECDH(r)
	}
	return c
}

func genKeyMaterial(r *rand.Rand) *tls.KeyMaterial {
	km := &tls.KeyMaterial{}
	if r.IntN(2) == 0 {
		km.MasterSecret = &tls.MasterSecret{Value: optBytes(r, 48), Length: r.IntN(2) * 48}
	}
	if r.IntN(2) == 0 {
		km.PreMasterSecret = &tls.PreMasterSecret{Value: optBytes(r, 48), Length: r.IntN(2) * r.IntN(100)}
	}
	return km
}

func genServerHandshake(r *rand.Rand) *tls.ServerHandshake {
	h := &tls.ServerHandshake{}
	if r.IntN(2) == 0 {
		h.ClientHello = genClientHello(r)
	}
	if r.IntN(2) == 0 {
		h.ServerHello = genServerHello(r)
	}
	if r.IntN(3) == 0 { // raw certificates only
		h.ServerCertificates = &tls.Certificates{Certificate: tls.SimpleCertificate{Raw: rbytes(r, 1+r.IntN(40))}}
		for i := 0; i < r.IntN(3); i++ {
			h.ServerCertificates.Chain = append(h.ServerCertificates.Chain, tls.SimpleCertificate{Raw: rbytes(r, 1+r.IntN(40))})
		}
	}
	if r.IntN(2) == 0 {
		h.ServerKeyExchange = genSKX(r)
	}
	if r.IntN(2) == 0 {
		h.ClientKeyExchange = genCKX(r)
	}
	if r.IntN(2) == 0 {
		h.ClientFinished = &tls.Finished{VerifyData: optBytes(r, 12)}
	}
	if r.IntN(2) == 0 {
		h.SessionTicket = genSessionTicket(r)
	}
	if r.IntN(2) == 0 {
		h.ServerFinished = &tls.Finished{VerifyData: optBytes(r, 12)}
	}
	if r.IntN(2) == 0 {
		h.KeyMaterial = genKeyMaterial(r)
	}
	if r.IntN(4) == 0 {
		a := tls.Alert(r.IntN(256))
		h.Alert = &a
	}
	return h
}

// ---------------------------------------------------------------------------
// the structured leg

func (k *checker) structured() {
	c := k.c
	r := c.SubRng("structured")
	total := c.PerShard(c.Pick(24000, 2000000))
	dom := spec{inDomain: true}
	for i := 0; i < total; i++ {
		sp := dom
		switch i % 24 {
		case 0: // json.RSAPublicKey — N, E non-nil, >= 0
			v := &zjson.RSAPublicKey{PublicKey: &rsa.PublicKey{N: bigUpTo(r, 4096), E: bigUpTo(r, 64)}}
			if r.IntN(4) == 0 {
				v.E = bigUpTo(r, 4096)
			}
			f := &zjson.RSAPublicKey{}
			sp.typ, sp.desc = "json.RSAPublicKey", fmt.Sprintf("N=%s E=%s", bigStr(v.N), bigStr(v.E))
			k.roundTrip(sp, v, f, func() string {
				if f.PublicKey == nil {
					return "PublicKey"
				}
				if !bigEq(v.N, f.N) {
					return "N"
				}
				if !bigEq(v.E, f.E) {
					return "E"
				}
				return ""
			})
		case 1:
			v, f := genDH(r), &zjson.DHParams{}
			sp.typ, sp.desc = "json.DHParams", fmt.Sprintf("p=%s g=%s sp=%s sk=%s cp=%s ck=%s key=%s", bigStr(v.Prime), bigStr(v.Generator), bigStr(v.ServerPublic), bigStr(v.ServerPrivate), bigStr(v.ClientPublic), bigStr(v.ClientPrivate), bigStr(v.SessionKey))
			k.roundTrip(sp, v, f, func() string { return strings.TrimPrefix(eqDH(v, f, ""), ".") })
		case 2:
			v, f := genECPoint(r), &zjson.ECPoint{}
			sp.typ, sp.desc = "json.ECPoint", descECPoint(v)
			if v.Y == nil {
				c.Count("ecpoint_without_y", 1)
			}
			k.roundTrip(sp, v, f, func() string { return strings.TrimPrefix(eqECPoint(v, f, ""), ".") })
		case 3:
			v, f := genECDH(r), &zjson.ECDHParams{}
			sp.typ, sp.desc = "json.ECDHParams", fmt.Sprintf("curve=%d sp=%s cp=%s spriv=%v cpriv=%v", v.TLSCurveID, descECPoint(v.ServerPublic), descECPoint(v.ClientPublic), v.ServerPrivate, v.ClientPrivate)
			k.roundTrip(sp, v, f, func() string { return strings.TrimPrefix(eqECDH(v, f, ""), ".") })
		case 4:
			if i%48 == 4 {
				v, f := genRSAClient(r), &zjson.RSAClientParams{}
				sp.typ, sp.desc = "json.RSAClientParams", fmt.Sprintf("%+v", *v)
				k.roundTrip(sp, v, f, func() string { return strings.TrimPrefix(eqRSAClient(v, f, ""), ".") })
			} else {
				v, f := genECPriv(r), &zjson.ECDHPrivateParams{}
				sp.typ, sp.desc = "json.ECDHPrivateParams", fmt.Sprintf("%+v", *v)
				k.roundTrip(sp, v, f, func() string { return strings.TrimPrefix(eqECPriv(v, f, ""), ".") })
			}
		case 5:
			v, f := genGeneralNames(r), &x509.GeneralNames{}
			sp.typ, sp.desc = "x509.GeneralNames", fmt.Sprintf("%+v", *v)
			for _, arm := range []struct {
				n  string
				ok bool
			}{{"directory", len(v.DirectoryNames) > 0}, {"dns", len(v.DNSNames) > 0}, {"edi", len(v.EDIPartyNames) > 0}, {"email", len(v.EmailAddresses) > 0}, {"ip", len(v.IPAddresses) > 0},
				{"other", len(v.OtherNames) > 0}, {"registered_id", len(v.RegisteredIDs) > 0}, {"uri", len(v.URIs) > 0}} {
				if arm.ok {
					c.Count("general_names_arm:"+arm.n, 1)
				}
			}
			k.roundTrip(sp, v, f, func() string { return strings.TrimPrefix(eqGeneralNames(v, f, ""), ".") })
		case 6:
			v, f := genNameConstraints(r), &x509.NameConstraints{}
			sp.typ, sp.desc = "x509.NameConstraints", fmt.Sprintf("%+v", *v)
			k.roundTrip(sp, v, f, func() string { return eqNameConstraints(v, f) })
		case 7:
			v := genSubtreeIP(r)
			f := &x509.GeneralSubtreeIP{}
			sp.typ, sp.desc = "x509.GeneralSubtreeIP", fmt.Sprintf("ip=%x mask=%x", []byte(v.Data.IP), []byte(v.Data.Mask))
			k.roundTrip(sp, &v, f, func() string { return strings.TrimPrefix(eqSubtreeIP(&v, f, ""), ".") })
		case 8: // pkix.Name, hand-filled
			v, f := genNameFields(r), &pkix.Name{}
			sp.typ, sp.desc = "pkix.Name", descName(v)
			k.roundTrip(sp, v, f, func() string { return strings.TrimPrefix(eqName(v, f, "", false), ".") })
		case 9: // pkix.Name, parsed
			multi := i%96 == 9
			v, f := genNameParsed(r, multi), &pkix.Name{}
			sp.typ, sp.desc = "pkix.Name", "parsed: "+descName(v)
			if multi && (len(v.CommonNames) > 1 || len(v.SerialNumbers) > 1) {
				// other reading: repeated commonName/serialNumber against scalar members; counted, not asserted
				sp.inDomain = false
				sp.typ = "pkix.Name(repeated CN/serialNumber)"
			}
			k.roundTrip(sp, v, f, func() string { return strings.TrimPrefix(eqName(v, f, "", true), ".") })
		case 10:
			v := pkix.AttributeTypeAndValue{Type: oid(r, r.IntN(2)*r.IntN(3)), Value: str(r)}
			if len(v.Type) == 0 && r.IntN(2) == 0 {
				v.Type = nil
			}
			f := &pkix.AttributeTypeAndValue{}
			sp.typ, sp.desc = "pkix.AttributeTypeAndValue", fmt.Sprintf("%v=%q", v.Type, v.Value)
			k.roundTrip(sp, &v, f, func() string {
				if !oidEq(v.Type, f.Type) {
					return "Type"
				}
				if s, ok := f.Value.(string); !ok || s != v.Value.(string) {
					return "Value"
				}
				return ""
			})
		case 11:
			v := genOtherName(r)
			f := &pkix.OtherName{}
			sp.typ, sp.desc = "pkix.OtherName", fmt.Sprintf("%v %x", v.TypeID, v.Value.Bytes)
			k.roundTrip(sp, &v, f, func() string { return strings.TrimPrefix(eqOtherName(&v, f, ""), ".") })
		case 12:
			v := pkix.Extension{Id: oid(r, 1), Critical: r.IntN(2) == 0, Value: optBytes(r, 60)}
			f := &pkix.Extension{}
			sp.typ, sp.desc = "pkix.Extension", fmt.Sprintf("%v critical=%v %x", v.Id, v.Critical, v.Value)
			k.roundTrip(sp, &v, f, func() string {
				if !oidEq(v.Id, f.Id) {
					return "Id"
				}
				if v.Critical != f.Critical {
					return "Critical"
				}
				if !bytes.Equal(v.Value, f.Value) {
					return "Value"
				}
				return ""
			})
		case 13:
			if i%48 == 13 {
				v := genEDI(r)
				f := &pkix.EDIPartyName{}
				sp.typ, sp.desc = "pkix.EDIPartyName", fmt.Sprintf("%+v", v)
				k.roundTrip(sp, &v, f, func() string {
					if v != *f {
						return "value"
					}
					return ""
				})
			} else {
				v := pkix.AuxOID(oid(r, 1))
				f := &pkix.AuxOID{}
				sp.typ, sp.desc = "pkix.AuxOID", fmt.Sprint([]int(v))
				k.roundTrip(sp, &v, f, func() string {
					if !oidEq(v, *f) {
						return "value"
					}
					return ""
				})
			}
		case 14: // x509.CertificateFingerprint
			n := []int{0, 1, 16, 20, 32, 48, 64, 3}[r.IntN(8)]
			v := x509.CertificateFingerprint(rbytes(r, n))
			f := new(x509.CertificateFingerprint)
			sp.typ, sp.desc = "x509.CertificateFingerprint", fmt.Sprintf("%x", []byte(v))
			k.roundTrip(sp, &v, f, func() string {
				if !bytes.Equal(v, *f) {
					return "value"
				}
				return ""
			})
		case 15: // ct.DigitallySigned (both packages) — signature <= 65535 bytes
			n := r.IntN(80)
			switch r.IntN(40) {
			case 0:
				n = 65535
			case 1:
				n = 256 + r.IntN(4000)
			case 2:
				n = 0
			}
			var sig []byte
			if n > 0 || r.IntN(2) == 0 {
				sig = rbytes(r, n)
			}
			if i%48 == 15 {
				v := ct.DigitallySigned{HashAlgorithm: ct.HashAlgorithm(r.IntN(256)), SignatureAlgorithm: ct.SignatureAlgorithm(r.IntN(256)), Signature: sig}
				f := &ct.DigitallySigned{}
				sp.typ, sp.desc = "ct.DigitallySigned", fmt.Sprintf("hash=%d sig=%d len=%d %.40x", v.HashAlgorithm, v.SignatureAlgorithm, len(sig), sig)
				k.roundTrip(sp, &v, f, func() string {
					if v.HashAlgorithm != f.HashAlgorithm {
						return "HashAlgorithm"
					}
					if v.SignatureAlgorithm != f.SignatureAlgorithm {
						return "SignatureAlgorithm"
					}
					if !bytes.Equal(v.Signature, f.Signature) {
						return "Signature"
					}
					return ""
				})
			} else {
				v := xct.DigitallySigned{HashAlgorithm: xct.HashAlgorithm(r.IntN(256)), SignatureAlgorithm: xct.SignatureAlgorithm(r.IntN(256)), Signature: sig}
				f := &xct.DigitallySigned{}
				sp.typ, sp.desc = "x509/ct.DigitallySigned", fmt.Sprintf("hash=%d sig=%d len=%d %.40x", v.HashAlgorithm, v.SignatureAlgorithm, len(sig), sig)
				k.roundTrip(sp, &v, f, func() string {
					if v.HashAlgorithm != f.HashAlgorithm {
						return "HashAlgorithm"
					}
					if v.SignatureAlgorithm != f.SignatureAlgorithm {
						return "SignatureAlgorithm"
					}
					if !bytes.Equal(v.Signature, f.Signature) {
						return "Signature"
					}
					return ""
				})
			}
		case 16:
			if i%48 == 16 {
				var v, f ct.SHA256Hash
				copy(v[:], rbytes(r, 32))
				sp.typ, sp.desc = "ct.SHA256Hash", fmt.Sprintf("%x", v[:])
				k.roundTrip(sp, &v, &f, func() string { return same(v, f, "value") })
			} else {
				var v, f xct.SHA256Hash
				copy(v[:], rbytes(r, 32))
				sp.typ, sp.desc = "x509/ct.SHA256Hash", fmt.Sprintf("%x", v[:])
				k.roundTrip(sp, &v, &f, func() string { return same(v, f, "value") })
			}
		case 17:
			v, f := genClientHello(r), &tls.ClientHello{}
			sp.typ, sp.desc = "tls.ClientHello", fmt.Sprintf("%+v", *v)
			k.roundTrip(sp, v, f, func() string { return deepEq(reflect.ValueOf(v), reflect.ValueOf(f), "") })
		case 18:
			v, f := genServerHello(r), &tls.ServerHello{}
			sp.typ, sp.desc = "tls.ServerHello", fmt.Sprintf("%+v", *v)
			k.roundTrip(sp, v, f, func() string { return deepEq(reflect.ValueOf(v), reflect.ValueOf(f), "") })
		case 19:
			v, f := genSKX(r), &tls.ServerKeyExchange{}
			sp.typ, sp.desc = "tls.ServerKeyExchange", fmt.Sprintf("%+v", *v)
			k.roundTrip(sp, v, f, func() string { return deepEq(reflect.ValueOf(v), reflect.ValueOf(f), "") })
		case 20:
			v, f := genCKX(r), &tls.ClientKeyExchange{}
			sp.typ, sp.desc = "tls.ClientKeyExchange", fmt.Sprintf("%+v", *v)
			k.roundTrip(sp, v, f, func() string { return deepEq(reflect.ValueOf(v), reflect.ValueOf(f), "") })
		case 21:
			v, f := genServerHandshake(r), &tls.ServerHandshake{}
			sp.typ, sp.desc = "tls.ServerHandshake", fmt.Sprintf("%+v", *v)
			k.roundTrip(sp, v, f, func() string { return deepEq(reflect.ValueOf(v), reflect.ValueOf(f), "") })
		case 22:
			switch (i / 24) % 3 {
			case 0:
				v, f := genDigitalSignature(r), &tls.DigitalSignature{}
				sp.typ, sp.desc = "tls.DigitalSignature", fmt.Sprintf("%+v", *v)
				k.roundTrip(sp, v, f, func() string { return deepEq(reflect.ValueOf(v), reflect.ValueOf(f), "") })
			case 1:
				v, f := genKeyMaterial(r), &tls.KeyMaterial{}
				sp.typ, sp.desc = "tls.KeyMaterial", fmt.Sprintf("%+v", *v)
				k.roundTrip(sp, v, f, func() string { return deepEq(reflect.ValueOf(v), reflect.ValueOf(f), "") })
			default:
				v, f := genSessionTicket(r), &tls.SessionTicket{}
				sp.typ, sp.desc = "tls.SessionTicket", fmt.Sprintf("%+v", *v)
				k.roundTrip(sp, v, f, func() string { return deepEq(reflect.ValueOf(v), reflect.ValueOf(f), "") })
			}
		case 23: // encoder-only types: totality + determinism
			sp.noDecode = true
			switch (i / 24) % 3 {
			case 0:
				v := x509.SubjAuthKeyId(optBytes(r, 32))
				sp.typ, sp.desc = "x509.SubjAuthKeyId", fmt.Sprintf("%x", []byte(v))
				k.roundTrip(sp, &v, nil, nil)
			case 1:
				v := &x509.ExtendedKeyUsageExtension{}
				for j := 0; j < r.IntN(5); j++ {
					v.Known = append(v.Known, x509.ExtKeyUsage(r.IntN(120)-5))
				}
				for j := 0; j < r.IntN(3); j++ {
					v.Unknown = append(v.Unknown, oid(r, r.IntN(3)))
				}
				sp.typ, sp.desc = "x509.ExtendedKeyUsageExtension", fmt.Sprintf("%+v", *v)
				k.roundTrip(sp, v, nil, nil)
			default:
				v := &ct.SignedCertificateTimestamp{SCTVersion: ct.Version(r.IntN(3)), Timestamp: r.Uint64() >> uint(r.IntN(64)), Extensions: ct.CTExtensions(optBytes(r, 10)),
					Signature: ct.DigitallySigned{HashAlgorithm: ct.HashAlgorithm(r.IntN(8)), SignatureAlgorithm: ct.SignatureAlgorithm(r.IntN(5)), Signature: optBytes(r, 72)}}
				copy(v.LogID[:], rbytes(r, 32))
				sp.typ, sp.desc = "ct.SignedCertificateTimestamp", fmt.Sprintf("%+v", *v)
				k.roundTrip(sp, v, nil, nil)
			}
		}
	}
}
