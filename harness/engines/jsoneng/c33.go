// C33 — JSON encodings of zcrypto value types round-trip.
//
// For each type the engine states the domain it quantifies over and the sentence of the type's documentation or
// of the wire format that justifies leaving the rest out (domains, printed into the evidence as notes); inside the
// domain a value is encoded with encoding/json, decoded into a fresh value and compared with an equality written
// from the type's documentation. Both steps run under the panic guard; encoding twice must give the same bytes.
// Types that have an encoder but no decoder are checked for totality and determinism only.
//
// Small enumerations are visited exhaustively, structured types with seeded random values (c33_gen.go).
package jsoneng

import (
	"bytes"
	"encoding/json"
	"fmt"
	"reflect"
	"regexp"
	"strings"

	"github.com/zmap/zcrypto/ct"
	zjson "github.com/zmap/zcrypto/json"
	"github.com/zmap/zcrypto/tls"
	"github.com/zmap/zcrypto/x509"
	"github.com/zmap/zcrypto/x509/revocation/crl"

	"verifharness/internal/core"
)

func init() {
	core.RegisterMeta("C33", core.Meta{
		Rule: "exhaustive: tls.TLSVersion, CipherSuiteID, CurveID, SignatureAndHash, json.TLSCurveID (65536 values each), tls.CompressionMethod, PointFormat (256 each), x509.KeyUsage (all 512 masks + bits 9..31), " +
			"every defined constant of tls.ClientAuthType, x509.PublicKeyAlgorithm, SignatureAlgorithm, CertificateType, crl.RevocationReasonCode (plus undefined values for totality); " +
			"random structured values: json.RSAPublicKey, DHParams, ECPoint (with and without Y), ECDHParams, ECDHPrivateParams, RSAClientParams, x509.GeneralNames (all arms), NameConstraints, GeneralSubtreeIP, " +
			"CertificateFingerprint, pkix.Name (hand-filled and parsed from RDN sequences), AttributeTypeAndValue, OtherName, Extension, EDIPartyName, AuxOID, ct.DigitallySigned, ct.SHA256Hash (both ct packages), the tls handshake-log structs; " +
			"encoder-only types (CertValidationLevel, SubjAuthKeyId, ExtendedKeyUsageExtension, SignedCertificateTimestamp): totality and determinism. " +
			"non-trivial = a value inside the stated domain whose encoding succeeded, so that decoding and comparison were actually performed (encoder-only: encoding succeeded twice); enumerated values are distinct by construction, random ones by (type, encoded JSON)",
		MinNontrivial:         150000,
		MinNontrivialThorough: 1000000,
		Shards:                16,
		Assumptions: []string{
			"encoding/json is the JSON implementation the statement refers to (json.Marshal of a pointer to the value, json.Unmarshal into a pointer to a zero value)",
			"equalities: integers and enumerations by value; big integers by value; byte strings and lists with nil and empty identified (JSON omitempty cannot tell them apart); IP addresses by net.IP.Equal; members tagged json:\"-\" are not part of the encoding and are generated as zero",
			"strings are valid UTF-8 (encoding/json documents that invalid UTF-8 is replaced by U+FFFD), which covers every ASN.1 string type the parsers produce except raw bytes in malformed certificates",
			"per-type domain restrictions are listed in the notes of the evidence file and next to each generator in c33.go / c33_gen.go",
		},
	}, runC33)
}

// ---------------------------------------------------------------------------
// domains: one line per type, printed into the evidence (shard 0) and kept next to the code that applies it.

var domains = []string{
	"tls.TLSVersion / CipherSuiteID / CompressionMethod / PointFormat / CurveID, json.TLSCurveID, tls.SignatureAndHash: no restriction, every value of the underlying integer (the decoders' name cross-check uses the same name function as the encoder, so it must accept every encoded value).",
	"tls.ClientAuthType: equality asserted for the five declared constants ('ClientAuthType declares the policy the server will follow', const block NoClientCert..RequireAndVerifyClientCert); other integers: no panic only.",
	"x509.KeyUsage: 0 <= k < 2^32 — the format carries 'value' as an unsigned 32-bit number (auxKeyUsage.Value uint32); all 512 combinations of the nine RFC 5280 bits plus higher bits.",
	"x509.PublicKeyAlgorithm: equality asserted for the declared constants UnknownPublicKeyAlgorithm..X25519 (each has its own entry in keyAlgorithmNames); integers outside the const block are printed as 'unknown_algorithm' by String() and are only checked for totality.",
	"x509.SignatureAlgorithm: equality asserted for the declared algorithms MD2WithRSA..Ed25519Sig; UnknownSignatureAlgorithm and undeclared integers have no OID, are written with \"oid\":\"\" and are refused by the decoder on purpose (zcrypto's own TestSignatureAlgorithmJSON: 'Should fail on unrecognized algorithm') — checked for totality only, outcomes counted.",
	"x509.CertificateType: all integers in -50..50, compared modulo the documented identification 'Any unknown integer value is considered the same as CertificateTypeUnknown'.",
	"crl.RevocationReasonCode: integers -5..20 (the format carries 'value' as int); compared by value.",
	"json.RSAPublicKey: PublicKey, N, E non-nil, N >= 0, E >= 0 ('modulus' is the unsigned big-endian magnitude, 'length' its byte length*8); N up to 4096 bit incl. 0, E up to 4096 bit.",
	"json.DHParams: Prime and Generator non-nil (members without omitempty: a DH group always has both; the format writes null magnitude for nil and reads it back as 0); optional members nil or non-negative; non-negative because 'value' is an unsigned magnitude.",
	"json.ECPoint / ECDHParams / ECDHPrivateParams / RSAClientParams: X non-nil and >= 0, Y nil ('Not present for x25519') or >= 0; ECDHParams.Curve is tagged json:\"-\" and generated nil; every pointer member present/absent; byte strings nil/empty identified.",
	"x509.GeneralNames: strings valid UTF-8 (IA5String members); IP addresses of 4 or 16 bytes (RFC 5280 4.2.1.6: iPAddress is 4 or 16 octets; net.IP cannot print other lengths), compared by Equal; OIDs with >= 2 arcs, arcs 0..2^31-1 (decoder uses ParseInt(..,32), the ASN.1 parser has the same limit); OtherName per pkix.OtherName; DirectoryNames per pkix.Name (hand-filled).",
	"x509.NameConstraints / GeneralSubtreeIP: Min and Max zero ('g.Min = 0; g.Max = 0' — the format does not carry them, RFC 5280 requires 0/absent); IP subtrees: IP and mask of the same family (4+4 or 16+16 octets, RFC 5280 4.2.1.10), contiguous mask (CIDR text form), no IPv4-mapped IPv6 addresses (package net prints them in IPv4 form); compared by IP.Equal and mask bytes.",
	"x509.CertificateFingerprint: any byte string 0..64 bytes (statement lists fingerprints; encoder documents 'marshals the fingerprint as a hex string').",
	"pkix.Name (hand-filled): the per-attribute fields that ToRDNSequence — the conversion MarshalJSON uses — carries: CommonName, SerialNumber, Country, Organization, OrganizationalUnit, Locality, Province, StreetAddress, PostalCode, DomainComponent, EmailAddress, Jurisdiction*, OrganizationIDs; GivenName/Surname empty (ToRDNSequence does not emit them for names without OriginalRDNS); Names/ExtraNames/OriginalRDNS empty ('ExtraNames is not populated when parsing'). Compared field by field, nil = empty.",
	"pkix.Name (parsed): FillFromRDNSequence of a random RDNSequence with string values of the known attribute types incl. givenName and surname, at most one commonName and one serialNumber ('CommonName and SerialNumber are not arrays'; repeated ones are counted as other_reading_*, not asserted); unknown attribute types and non-string values are json:\"-\" by design and generated only to check they do not disturb the rest. Compared on the per-attribute fields.",
	"pkix.AttributeTypeAndValue: Value is a string ('if s, ok := a.Value.(string)' — the format carries only string values), Type any OID incl. empty; pkix.Extension / OtherName / AuxOID: OID with >= 1 arc >= 0 (OtherName decoder documents 'empty type ID' as an error; an OBJECT IDENTIFIER is never empty on the wire); OtherName compared on TypeID and Value.Bytes (class/tag are rebuilt as [0] EXPLICIT by the decoder and not carried); EDIPartyName: valid UTF-8 strings.",
	"ct.DigitallySigned (ct and x509/ct): any hash/signature algorithm byte, signature 0..65535 bytes (TLS opaque<0..2^16-1>); ct.SHA256Hash: any 32 bytes.",
	"tls handshake-log structs (ClientHello, ServerHello, ServerKeyExchange, ClientKeyExchange, Finished, SessionTicket, KeyMaterial, DigitalSignature, ServerHandshake): members tagged json:\"-\" (Raw) zero; parsed certificates and parsed SCTs absent (their encoders are lossy by documentation and belong to C02); KeyShareExtension either absent or with a group ('null' is the encoding of an absent one); strings valid UTF-8.",
	"encoder-only (no UnmarshalJSON, not in the statement's list): x509.CertValidationLevel, SubjAuthKeyId, ExtendedKeyUsageExtension (decoder is a documented stub: 'TODO: Generate the reverse functions'), ct.SignedCertificateTimestamp ('When this is serialized, the output is in seconds, not milliseconds') — encoding must not panic and must be deterministic.",
}

// ---------------------------------------------------------------------------
// round-trip machinery

type checker struct {
	c *core.Ctx
}

var reFrame = regexp.MustCompile(`(?m)^github\.com/zmap/zcrypto/((?:[\w/]+)\.(?:\(\*?\w+\)\.)?[\w.]+)`)

// panicKey: "panic:<class>@<first zcrypto frame>" (core.Classify cuts method frames at the parenthesis).
func panicKey(pi *core.PanicInfo) string {
	frame := "?"
	if m := reFrame.FindStringSubmatch(pi.Stack); m != nil {
		frame = m[1]
	}
	val := pi.Value
	switch {
	case strings.Contains(val, "nil pointer dereference"):
		val = "nil-dereference"
	case strings.Contains(val, "index out of range"):
		val = "index-out-of-range"
	case strings.Contains(val, "slice bounds out of range"):
		val = "slice-bounds-out-of-range"
	default:
		val = strings.TrimPrefix(pi.Key, "panic:")
		if i := strings.LastIndexByte(val, '@'); i >= 0 {
			val = val[:i]
		}
		val = strings.ReplaceAll(val, " ", "_")
	}
	return "panic:" + val + "@" + frame
}

// spec describes how one value is checked.
type spec struct {
	typ      string // "tls.TLSVersion"
	inDomain bool   // false: totality only (no equality, decode errors allowed)
	noDecode bool   // encoder-only type
	enum     bool   // enumerated: distinct by construction
	desc     string // human description of the value for the replay file
}

// roundTrip encodes orig (a pointer), decodes into fresh (a pointer to a zero value) and calls eq.
// eq returns "" or the name of the first differing member.
func (k *checker) roundTrip(sp spec, orig, fresh any, eq func() string) {
	c := k.c
	c.Eval(1)
	input := func(enc []byte) map[string]any {
		m := map[string]any{"type": sp.typ, "value": sp.desc}
		if enc != nil {
			m["json"] = string(enc)
		}
		return m
	}
	caseID := sp.typ + ":" + sp.desc
	if len(caseID) > 120 {
		caseID = caseID[:120]
	}
	var enc, enc2 []byte
	var err, err2 error
	if pi := core.Guard(func() { enc, err = json.Marshal(orig) }); pi != nil {
		c.Violation("encode:"+panicKey(pi), "MarshalJSON of "+sp.typ+" panicked: "+pi.Value+"\n"+pi.Stack, caseID, input(nil))
		return
	}
	if err != nil {
		if sp.inDomain {
			c.Violation("encode-error:"+sp.typ, err.Error(), caseID, input(nil))
		} else {
			c.Count("outside_domain_encode_error:"+sp.typ, 1)
		}
		return
	}
	if pi := core.Guard(func() { enc2, err2 = json.Marshal(orig) }); pi != nil || err2 != nil || !bytes.Equal(enc, enc2) {
		c.Violation("encode-nondeterministic:"+sp.typ, fmt.Sprintf("first %s\nsecond %s err=%v", enc, enc2, err2), caseID, input(enc))
		return
	}
	if sp.noDecode {
		c.Count("encoder_only_ok:"+sp.typ, 1)
		if sp.enum {
			c.NontrivialEnumerated(1)
		} else {
			c.Nontrivial(sp.typ, enc)
		}
		return
	}
	if pi := core.Guard(func() { err = json.Unmarshal(enc, fresh) }); pi != nil {
		c.Violation("decode:"+panicKey(pi), "UnmarshalJSON of "+sp.typ+" panicked on its own encoding "+string(enc)+": "+pi.Value+"\n"+pi.Stack, caseID, input(enc))
		return
	}
	if !sp.inDomain {
		if err != nil {
			c.Count("outside_domain_decode_error:"+sp.typ, 1)
		} else if d := eq(); d != "" {
			c.Count("outside_domain_unequal:"+sp.typ, 1)
		} else {
			c.Count("outside_domain_roundtrip_ok:"+sp.typ, 1)
		}
		return
	}
	if err != nil {
		c.Violation("decode-error:"+sp.typ, fmt.Sprintf("decoding %s: %v", enc, err), caseID, input(enc))
		return
	}
	if d := eq(); d != "" {
		dec, _ := json.Marshal(fresh)
		c.Violation("roundtrip:"+sp.typ+":"+d, fmt.Sprintf("value %s\nencoded %s\ndecoded value re-encodes as %s\nfirst difference: %s", sp.desc, enc, dec, d), caseID, input(enc))
		return
	}
	c.Count("roundtrip_ok:"+sp.typ, 1)
	if sp.enum {
		c.NontrivialEnumerated(1)
	} else {
		c.Nontrivial(sp.typ, enc)
	}
	if c.WantSample() && !sp.enum {
		c.Sample(map[string]any{"type": sp.typ, "json": abbreviate(string(enc))})
	}
}

func abbreviate(s string) string {
	if len(s) > 300 {
		return s[:300] + "…"
	}
	return s
}

func same[T comparable](a, b T, name string) string {
	if a != b {
		return name
	}
	return ""
}

// ---------------------------------------------------------------------------
// enumerations

func (k *checker) mine(i int) bool { return i%k.c.NShards == k.c.Shard }

func (k *checker) enums() {
	c := k.c
	n16 := 0
	for i := 0; i < 65536; i++ {
		if !k.mine(i) {
			continue
		}
		n16++
		d := fmt.Sprintf("0x%04x", i)
		{
			v := tls.TLSVersion(i)
			var f tls.TLSVersion
			k.roundTrip(spec{typ: "tls.TLSVersion", inDomain: true, enum: true, desc: d}, &v, &f, func() string { return same(v, f, "value") })
		}
		{
			v := tls.CipherSuiteID(i)
			var f tls.CipherSuiteID
			k.roundTrip(spec{typ: "tls.CipherSuiteID", inDomain: true, enum: true, desc: d}, &v, &f, func() string { return same(v, f, "value") })
		}
		{
			v := tls.CurveID(i)
			var f tls.CurveID
			k.roundTrip(spec{typ: "tls.CurveID", inDomain: true, enum: true, desc: d}, &v, &f, func() string { return same(v, f, "value") })
		}
		{
			v := zjson.TLSCurveID(i)
			var f zjson.TLSCurveID
			k.roundTrip(spec{typ: "json.TLSCurveID", inDomain: true, enum: true, desc: d}, &v, &f, func() string { return same(v, f, "value") })
		}
		{
			v := tls.SignatureAndHash{Signature: uint8(i >> 8), Hash: uint8(i)}
			var f tls.SignatureAndHash
			k.roundTrip(spec{typ: "tls.SignatureAndHash", inDomain: true, enum: true, desc: fmt.Sprintf("signature=%d hash=%d", v.Signature, v.Hash)}, &v, &f, func() string {
				if v.Signature != f.Signature {
					return "Signature"
				}
				return same(v.Hash, f.Hash, "Hash")
			})
		}
	}
	for _, s := range []string{"tls.TLSVersion", "tls.CipherSuiteID", "tls.CurveID", "json.TLSCurveID", "tls.SignatureAndHash"} {
		c.Exhaustive(s, int64(n16))
	}
	n8 := 0
	for i := 0; i < 256; i++ {
		if !k.mine(i) {
			continue
		}
		n8++
		d := fmt.Sprintf("0x%02x", i)
		{
			v := tls.CompressionMethod(i)
			var f tls.CompressionMethod
			k.roundTrip(spec{typ: "tls.CompressionMethod", inDomain: true, enum: true, desc: d}, &v, &f, func() string { return same(v, f, "value") })
		}
		{
			v := tls.PointFormat(i)
			var f tls.PointFormat
			k.roundTrip(spec{typ: "tls.PointFormat", inDomain: true, enum: true, desc: d}, &v, &f, func() string { return same(v, f, "value") })
		}
	}
	c.Exhaustive("tls.CompressionMethod", int64(n8))
	c.Exhaustive("tls.PointFormat", int64(n8))

	// KeyUsage: all 512 masks of the nine defined bits, then each higher bit alone and with random lower bits
	nku := 0
	for i := 0; i < 512; i++ {
		if !k.mine(i) {
			continue
		}
		nku++
		v := x509.KeyUsage(i)
		var f x509.KeyUsage
		k.roundTrip(spec{typ: "x509.KeyUsage", inDomain: true, enum: true, desc: fmt.Sprintf("0x%x", i)}, &v, &f, func() string { return same(v, f, "value") })
	}
	c.Exhaustive("x509.KeyUsage(9 bits)", int64(nku))
	kr := c.GlobalRng("keyusage")
	for bit := 9; bit < 32; bit++ {
		for j := 0; j < 4; j++ {
			val := uint64(1) << bit
			if j > 0 {
				val |= uint64(kr.Uint32()) & (val - 1)
			}
			if !k.mine(bit*4 + j) {
				continue
			}
			v := x509.KeyUsage(val)
			var f x509.KeyUsage
			k.roundTrip(spec{typ: "x509.KeyUsage", inDomain: true, desc: fmt.Sprintf("0x%x", val)}, &v, &f, func() string { return same(v, f, "value") })
		}
	}

	// the small named enumerations run in shard (index mod shards) as well; undefined values for totality
	idx := 0
	next := func() bool { idx++; return k.mine(idx) }

	for i := -3; i <= 20; i++ {
		if !next() {
			continue
		}
		v := tls.ClientAuthType(i)
		var f tls.ClientAuthType
		defined := i >= int(tls.NoClientCert) && i <= int(tls.RequireAndVerifyClientCert)
		k.roundTrip(spec{typ: "tls.ClientAuthType", inDomain: defined, enum: defined, desc: fmt.Sprint(i)}, &v, &f, func() string { return same(v, f, "value") })
	}
	c.Exhaustive("tls.ClientAuthType(defined constants)", 0)

	pkaNames := map[x509.PublicKeyAlgorithm]string{x509.UnknownPublicKeyAlgorithm: "UnknownPublicKeyAlgorithm", x509.RSA: "RSA", x509.DSA: "DSA", x509.ECDSA: "ECDSA", x509.Ed25519: "Ed25519", x509.X25519: "X25519"}
	for i := -2; i <= 12; i++ {
		if !next() {
			continue
		}
		v := x509.PublicKeyAlgorithm(i)
		var f x509.PublicKeyAlgorithm
		name, defined := pkaNames[v]
		if !defined {
			name = fmt.Sprint(i)
		}
		k.roundTrip(spec{typ: "x509.PublicKeyAlgorithm", inDomain: defined, enum: defined, desc: name}, &v, &f, func() string { return same(v, f, "value") })
	}

	for i := -2; i <= 24; i++ {
		if !next() {
			continue
		}
		v := x509.SignatureAlgorithm(i)
		var f x509.SignatureAlgorithm
		defined := v > x509.UnknownSignatureAlgorithm && v <= x509.Ed25519Sig // 0: refused by design, see domains
		d := fmt.Sprintf("%d(%s)", i, v.String())
		k.roundTrip(spec{typ: "x509.SignatureAlgorithm", inDomain: defined, enum: defined, desc: d}, &v, &f, func() string { return same(v, f, "value") })
	}

	normCT := func(t x509.CertificateType) x509.CertificateType {
		switch t {
		case x509.CertificateTypeLeaf, x509.CertificateTypeIntermediate, x509.CertificateTypeRoot:
			return t
		}
		return x509.CertificateTypeUnknown
	}
	for i := -50; i <= 50; i++ {
		if !next() {
			continue
		}
		v := x509.CertificateType(i)
		var f x509.CertificateType
		k.roundTrip(spec{typ: "x509.CertificateType", inDomain: true, enum: true, desc: fmt.Sprint(i)}, &v, &f, func() string { return same(normCT(v), normCT(f), "value") })
	}

	for i := -5; i <= 20; i++ {
		if !next() {
			continue
		}
		v := crl.RevocationReasonCode(i)
		var f crl.RevocationReasonCode
		k.roundTrip(spec{typ: "crl.RevocationReasonCode", inDomain: true, enum: true, desc: fmt.Sprint(i)}, &v, &f, func() string { return same(v, f, "value") })
	}

	for i := -2; i <= 6; i++ {
		if !next() {
			continue
		}
		v := x509.CertValidationLevel(i)
		k.roundTrip(spec{typ: "x509.CertValidationLevel", inDomain: true, noDecode: true, enum: true, desc: fmt.Sprint(i)}, &v, nil, nil)
	}

	// KeyShareExtension wraps a CurveID
	for _, g := range []tls.CurveID{0, tls.CurveP256, tls.X25519, tls.X25519MLKEM768, 0xffff} {
		if !next() {
			continue
		}
		g := g
		v := tls.KeyShareExtension{KeyExchange: &g}
		var f tls.KeyShareExtension
		k.roundTrip(spec{typ: "tls.KeyShareExtension", inDomain: true, enum: true, desc: fmt.Sprint(uint16(g))}, &v, &f, func() string {
			if f.KeyExchange == nil {
				return "KeyExchange"
			}
			return same(*v.KeyExchange, *f.KeyExchange, "KeyExchange")
		})
	}
	_ = ct.SHA256Hash{}
}

// ---------------------------------------------------------------------------

func runC33(c *core.Ctx) {
	if c.Shard == 0 {
		for _, d := range domains {
			c.Note("domain — %s", d)
		}
	}
	k := &checker{c: c}
	k.enums()
	k.structured()
}

// used by c33_gen.go
var _ = reflect.DeepEqual
