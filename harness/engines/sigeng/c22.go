package sigeng

import (
	"bytes"
	"encoding/json"
	"fmt"
	"math/rand/v2"
	"reflect"
	"strings"

	"github.com/zmap/zcrypto/encoding/asn1"
	"github.com/zmap/zcrypto/x509/pkix"

	"verifharness/internal/core"
)

// C22 — distinguished names round-trip through RDN sequences.
//
// Direction 1: Name built from the fields ToRDNSequence emits -> ToRDNSequence -> asn1.Marshal ->
// asn1.Unmarshal -> FillFromRDNSequence; every field must carry the same values (as a
// multiset: DER SET OF ordering may permute the values of one multi-valued RDN), CommonName and
// SerialNumber must be equal, Names must list every attribute.
// Direction 2: RDNSequences written by the monitor's own DER writer (multi-valued RDNs, repeated
// and unknown attribute types, every string type) -> asn1.Unmarshal -> FillFromRDNSequence ->
// ToRDNSequence must be element-wise the parsed sequence; when the input used the string types
// and SET ordering the marshaller itself picks, re-marshalling must reproduce the input bytes.

func init() {
	core.RegisterMeta("C22", core.Meta{
		Rule: "direction 1: generated pkix.Name over the emitted fields (0-3 values per multi-valued field; values printable / UTF8-forcing ASCII / non-ASCII incl. 4-byte runes / " +
			"empty / leading+trailing spaces / RFC 2253 specials / control / 0-200 bytes; ExtraNames with unknown OIDs) -> ToRDNSequence -> Marshal -> Unmarshal -> Fill; " +
			"non-trivial = at least two populated fields and the round trip completed; distinct by the canonical field listing. " +
			"direction 2: RDNSequence DER from the monitor's own writer (0-6 RDNs, 1-3 attributes each, known/unknown/repeated types, Printable/UTF8/IA5/T61/BMP/Numeric strings, " +
			"a few INTEGER/OCTET STRING values, sorted and unsorted SETs) -> Unmarshal -> Fill -> ToRDNSequence -> Marshal; non-trivial = parsed and at least one attribute; distinct by input bytes",
		MinNontrivial:         10000,
		MinNontrivialThorough: 400000,
		Shards:                16,
		Assumptions: []string{
			"value multisets are compared per field: the order of values inside one multi-valued RDN is not part of the statement (DER SET OF ordering)",
			"names whose values are not valid UTF-8 are outside the domain (the marshaller refuses them)",
			"ExtraNames whose OID collides with an emitted field are run but only counted: the doc comment (override) and the code (append) disagree and the statement is silent",
			"GivenName/Surname/CommonNames/SerialNumbers are not emitted by ToRDNSequence and are therefore not part of direction 1",
			"direction 2 byte equality is demanded only for inputs in the marshaller's own canonical form; otherwise element-wise equality of the sequences",
		},
	}, runC22)
}

func runC22(c *core.Ctx) {
	if asn1.AllowPermissiveParsing {
		c.Violation("harness:permissive-parsing-enabled-at-start", "", "", nil)
		return
	}
	n := c.PerShard(c.Pick(12000, 600000))
	c22Forward(c, c.SubRng("fwd"), n)
	c22Collide(c, c.SubRng("collide"), n/10)
	c22Backward(c, c.SubRng("bwd"), n)
	if asn1.AllowPermissiveParsing {
		c.Violation("harness:permissive-parsing-left-enabled", "", "", nil)
	}
}

func guardTotality(c *core.Ctx, what string, input any, f func()) {
	if pi := core.Guard(f); pi != nil {
		c.Violation("totality:"+what+":"+pi.Key, pi.Value+"\n"+pi.Stack, what, input)
	}
}

func c22Forward(c *core.Ctx, r *rand.Rand, n int) {
	classes := map[string]int{}
	for i := 0; i < n; i++ {
		name := genName(r, nameOpts{Sparse: r.IntN(2) == 0}, classes)
		desc := describeName(&name)
		id := fmt.Sprintf("fwd-%d-%d", c.Shard, i)
		c.Eval(1)
		var der []byte
		var back pkix.Name
		var err error
		if pi := core.Guard(func() { der, back, err = roundTripName(&name) }); pi != nil {
			c.Violation("name-roundtrip:"+pi.Key, pi.Value+"\n"+pi.Stack, id, desc)
			continue
		}
		if err != nil {
			key := "name-roundtrip:marshal-error"
			if strings.HasPrefix(err.Error(), "unmarshal") {
				key = "name-roundtrip:strict-parse-rejects-own-output"
			}
			c.Violation(key, err.Error(), id, map[string]any{"name": desc, "der": core.FullHex(der)})
			continue
		}
		for _, m := range compareName(&name, &back) {
			c.Violation("name-roundtrip:field:"+fieldLabel(m), m, id, map[string]any{"name": desc, "der": core.FullHex(der)})
		}
		// a Name filled from a parsed sequence converts back to that same sequence
		again, err2 := asn1.Marshal(back.ToRDNSequence())
		if err2 != nil || !bytes.Equal(again, der) {
			c.Violation("name-roundtrip:refilled-name-converts-to-different-sequence", fmt.Sprintf("err=%v\nfirst=%x\nsecond=%x", err2, der, again), id,
				map[string]any{"name": desc, "der": core.FullHex(der)})
		}
		guardTotality(c, "Name.String", desc, func() { _ = name.String(); _ = back.String() })
		guardTotality(c, "Name.MarshalJSON", desc, func() {
			_, _ = json.Marshal(&name)
			_, _ = json.Marshal(&back)
		})
		if nameSetFields(&name) >= 2 {
			c.Nontrivial("fwd", nameSig(&name))
		}
		c.Count("forward_names", 1)
		c.Max("fields_in_a_name", nameSetFields(&name))
		if i < 2 && c.Shard == 0 {
			c.Sample(map[string]any{"direction": "name->der->name", "name": desc, "der": core.Hex(der)})
		}
	}
	for k, v := range classes {
		c.Count("value_class:"+k, v)
	}
}

// c22Collide runs names whose ExtraNames reuse the OID of an emitted field. Counted only.
func c22Collide(c *core.Ctx, r *rand.Rand, n int) {
	for i := 0; i < n; i++ {
		name := genName(r, nameOpts{Sparse: true, NoExtra: true}, nil)
		f := nameFields[r.IntN(len(nameFields))]
		v, _ := genValue(r)
		name.ExtraNames = []pkix.AttributeTypeAndValue{{Type: f.OID, Value: v}}
		c.Eval(1)
		var back pkix.Name
		var err error
		if pi := core.Guard(func() { _, back, err = roundTripName(&name) }); pi != nil {
			c.Violation("name-roundtrip:"+pi.Key, pi.Value+"\n"+pi.Stack, fmt.Sprintf("collide-%d-%d", c.Shard, i), describeName(&name))
			continue
		}
		if err != nil {
			c.Count("collide_roundtrip_error", 1)
			continue
		}
		field, got := *f.Get(&name), *f.Get(&back)
		switch {
		case sameMultiset(got, append(append([]string(nil), field...), v)):
			c.Count("extra_name_same_oid_appended_to_field", 1)
		case sameMultiset(got, []string{v}):
			c.Count("extra_name_same_oid_overrides_field", 1)
		default:
			c.Count("extra_name_same_oid_other_outcome", 1)
		}
	}
}

// ---- direction 2 ---------------------------------------------------------------

type genATV struct {
	OID    []int
	Tag    byte
	Val    string // string value as the parser should report it
	IntVal int64  // for tagInteger
	Raw    []byte // for tagOctet
}

var allNameOIDs = func() [][]int {
	o := [][]int{oidCN, oidSerial, oidGivenName, oidSurname}
	for _, f := range nameFields {
		o = append(o, f.OID)
	}
	return o
}()

func strictPrintable(s string) bool {
	for i := 0; i < len(s); i++ {
		if !strings.ContainsRune(printableAlphabet, rune(s[i])) {
			return false
		}
	}
	return true
}

func genATVFor(r *rand.Rand, canonicalOnly bool) genATV {
	var a genATV
	if r.IntN(4) == 0 {
		a.OID = genUnknownOID(r)
	} else {
		a.OID = allNameOIDs[r.IntN(len(allNameOIDs))]
	}
	if canonicalOnly {
		// the string type the marshaller itself would pick for the value
		a.Val, _ = genValue(r)
		a.Tag = tagUTF8
		if strictPrintable(a.Val) {
			a.Tag = tagPrintable
		}
		return a
	}
	switch t := r.IntN(20); {
	case t < 7:
		a.Tag, a.Val = tagPrintable, genPrintable(r, r.IntN(12))
	case t < 13:
		a.Tag = tagUTF8
		a.Val, _ = genValue(r)
	case t < 15:
		a.Tag = tagIA5
		a.Val = genPrintable(r, r.IntN(6)) + pick(r, []string{"@", "_", "&", "*", "\x7f", "\x01", ""}) + genPrintable(r, r.IntN(6))
	case t < 16:
		a.Tag = tagNumeric
		for i := 0; i < r.IntN(10); i++ {
			a.Val += string(rune("0123456789 "[r.IntN(11)]))
		}
	case t < 17:
		a.Tag = tagT61
		a.Val = genPrintable(r, 1+r.IntN(8)) // ASCII only: what the parser makes of high bytes is not specified
	case t < 18:
		a.Tag = tagBMP
		a.Val = genPrintable(r, 1+r.IntN(4)) + pick(r, []string{"é", "Ω", "日本", "€", "x"})
	case t < 19:
		a.Tag, a.IntVal = tagInteger, int64(r.IntN(1<<20))-1000
	default:
		a.Tag, a.Raw = tagOctet, randBytes(r, r.IntN(6))
	}
	return a
}

func (a genATV) der() []byte {
	switch a.Tag {
	case tagInteger:
		return derSeq(derOID(a.OID), derSmallInt(a.IntVal))
	case tagOctet:
		return derSeq(derOID(a.OID), derOctets(a.Raw))
	}
	return derATV(a.OID, a.Tag, a.Val)
}

func (a genATV) isString() bool { return a.Tag != tagInteger && a.Tag != tagOctet }

// canonicalTag reports whether the marshaller would pick the same string type for the value.
func (a genATV) canonicalTag() bool {
	if !a.isString() {
		return false
	}
	if strictPrintable(a.Val) {
		return a.Tag == tagPrintable
	}
	return a.Tag == tagUTF8
}

func (a genATV) wantValue() any {
	switch a.Tag {
	case tagInteger:
		return a.IntVal
	case tagOctet:
		return a.Raw
	}
	return a.Val
}

func c22Backward(c *core.Ctx, r *rand.Rand, n int) {
	tagNames := map[byte]string{tagPrintable: "Printable", tagUTF8: "UTF8", tagIA5: "IA5", tagNumeric: "Numeric", tagT61: "T61", tagBMP: "BMP", tagInteger: "INTEGER", tagOctet: "OCTETSTRING"}
	for i := 0; i < n; i++ {
		id := fmt.Sprintf("bwd-%d-%d", c.Shard, i)
		nr := r.IntN(7)
		canonical := true
		canonMode := r.IntN(2) == 0
		sorted := canonMode || r.IntN(5) != 0
		var rdnsDER [][]byte
		var order [][]genATV // attributes in the order they appear in the bytes
		usedTags := map[byte]bool{}
		for j := 0; j < nr; j++ {
			k := 1
			if r.IntN(3) == 0 {
				k = 2 + r.IntN(2)
			}
			atvs := make([]genATV, k)
			enc := make([][]byte, k)
			for x := range atvs {
				atvs[x] = genATVFor(r, canonMode)
				if r.IntN(6) == 0 && x > 0 {
					atvs[x].OID = atvs[0].OID // repeated type inside one RDN
				}
				enc[x] = atvs[x].der()
				usedTags[atvs[x].Tag] = true
				if !atvs[x].canonicalTag() {
					canonical = false
				}
			}
			if sorted || k == 1 {
				// sort attributes and encodings together
				idx := make([]int, k)
				for x := range idx {
					idx[x] = x
				}
				for x := 1; x < k; x++ {
					for y := x; y > 0 && bytes.Compare(enc[idx[y]], enc[idx[y-1]]) < 0; y-- {
						idx[y], idx[y-1] = idx[y-1], idx[y]
					}
				}
				sa, se := make([]genATV, k), make([][]byte, k)
				for x, ix := range idx {
					sa[x], se[x] = atvs[ix], enc[ix]
				}
				atvs, enc = sa, se
			} else {
				for x := 1; x < k; x++ {
					if bytes.Compare(enc[x], enc[x-1]) < 0 {
						canonical = false
					}
				}
			}
			rdnsDER = append(rdnsDER, tlv(tagSet, enc...))
			order = append(order, atvs)
		}
		der := derSeq(rdnsDER...)
		input := map[string]any{"der": core.FullHex(der)}
		c.Eval(1)

		var seq pkix.RDNSequence
		var rest []byte
		var err error
		if pi := core.Guard(func() { rest, err = asn1.Unmarshal(der, &seq) }); pi != nil {
			c.Violation("rdn-parse:"+pi.Key, pi.Value+"\n"+pi.Stack, id, input)
			continue
		}
		if err != nil || len(rest) != 0 {
			// parsing is not what the statement is about; count by string types present
			for t := range usedTags {
				c.Count("rdn_parse_rejected_with_"+tagNames[t], 1)
			}
			if canonical {
				// the marshaller's own canonical form must be readable, otherwise direction 1 is vacuous
				c.Violation("rdn-parse:canonical-sequence-rejected", fmt.Sprintf("err=%v rest=%d", err, len(rest)), id, input)
			}
			continue
		}
		// the parsed sequence must be what was written (shape, types, values)
		shapeOK := len(seq) == len(order)
		for j := 0; shapeOK && j < len(order); j++ {
			if len(seq[j]) != len(order[j]) {
				shapeOK = false
				break
			}
			for x, a := range order[j] {
				if !seq[j][x].Type.Equal(a.OID) || !reflect.DeepEqual(seq[j][x].Value, a.wantValue()) {
					shapeOK = false
					c.Violation("rdn-parse:attribute-decoded-differently:"+tagNames[a.Tag],
						fmt.Sprintf("rdn %d attr %d: wrote %v=%#v read %v=%#v", j, x, a.OID, a.wantValue(), seq[j][x].Type, seq[j][x].Value), id, input)
					break
				}
			}
		}
		if !shapeOK && len(seq) != len(order) {
			c.Violation("rdn-parse:shape-differs", fmt.Sprintf("wrote %d RDNs read %d", len(order), len(seq)), id, input)
		}
		snapshot := cloneRDNs(seq)

		var name pkix.Name
		var out pkix.RDNSequence
		if pi := core.Guard(func() { name.FillFromRDNSequence(&seq); out = name.ToRDNSequence() }); pi != nil {
			c.Violation("name-fill:"+pi.Key, pi.Value+"\n"+pi.Stack, id, input)
			continue
		}
		if !rdnsEqual(out, snapshot) {
			c.Violation("name-fill:converts-back-to-different-sequence", fmt.Sprintf("parsed %v\nconverted %v", snapshot, out), id, input)
		}
		// fields must hold exactly the string-valued attributes of their type
		if shapeOK {
			want := expectedFill(order)
			for _, m := range compareFilled(want, &name) {
				c.Violation("name-fill:field:"+fieldLabel(m), m, id, input)
			}
		}
		var again []byte
		var merr error
		if pi := core.Guard(func() { again, merr = asn1.Marshal(out) }); pi != nil {
			c.Violation("name-fill:marshal:"+pi.Key, pi.Value+"\n"+pi.Stack, id, input)
			continue
		}
		if canonical {
			if merr != nil || !bytes.Equal(again, der) {
				c.Violation("name-fill:canonical-sequence-remarshals-differently", fmt.Sprintf("err=%v\nin =%x\nout=%x", merr, der, again), id, input)
			}
			c.Count("backward_canonical", 1)
		} else {
			c.Count("backward_noncanonical", 1)
			if merr != nil {
				c.Count("backward_noncanonical_remarshal_error", 1)
			}
		}
		guardTotality(c, "Name.String", input, func() { _ = name.String() })
		guardTotality(c, "Name.MarshalJSON", input, func() { _, _ = json.Marshal(&name) })
		if nr > 0 {
			c.Nontrivial("bwd", der)
		}
		c.Count("backward_sequences", 1)
		for t := range usedTags {
			c.Count("backward_with_"+tagNames[t], 1)
		}
		if i < 2 && c.Shard == 1 {
			c.Sample(map[string]any{"direction": "der->name->der", "der": core.Hex(der), "canonical": canonical, "name": name.String()})
		}
	}
}

func cloneRDNs(s pkix.RDNSequence) pkix.RDNSequence {
	if s == nil {
		return nil
	}
	out := make(pkix.RDNSequence, len(s))
	for i, rdn := range s {
		out[i] = append(pkix.RelativeDistinguishedNameSET(nil), rdn...)
	}
	return out
}

func rdnsEqual(a, b pkix.RDNSequence) bool {
	if len(a) != len(b) {
		return false
	}
	for i := range a {
		if len(a[i]) != len(b[i]) {
			return false
		}
		for j := range a[i] {
			if !a[i][j].Type.Equal(b[i][j].Type) || !reflect.DeepEqual(a[i][j].Value, b[i][j].Value) {
				return false
			}
		}
	}
	return true
}

// filled is what FillFromRDNSequence is documented to produce ("Multi-entry RDNs are flattened,
// all entries are added to the relevant n fields").
type filled struct {
	Fields       map[string][]string // label -> values
	CommonName   string
	SerialNumber string
	Names        []string
}

func expectedFill(order [][]genATV) filled {
	f := filled{Fields: map[string][]string{}}
	byOID := map[string]string{oidKey(oidGivenName): "GivenName", oidKey(oidSurname): "Surname"}
	for _, nf := range nameFields {
		byOID[oidKey(nf.OID)] = nf.Label
	}
	for _, rdn := range order {
		for _, a := range rdn {
			f.Names = append(f.Names, oidKey(a.OID)+"="+fmt.Sprint(a.wantValue()))
			if !a.isString() {
				continue
			}
			switch k := oidKey(a.OID); {
			case k == oidKey(oidCN):
				f.CommonName = a.Val
				f.Fields["CommonNames"] = append(f.Fields["CommonNames"], a.Val)
			case k == oidKey(oidSerial):
				f.SerialNumber = a.Val
				f.Fields["SerialNumbers"] = append(f.Fields["SerialNumbers"], a.Val)
			case byOID[k] != "":
				f.Fields[byOID[k]] = append(f.Fields[byOID[k]], a.Val)
			}
		}
	}
	return f
}

func compareFilled(want filled, got *pkix.Name) []string {
	var bad []string
	chk := func(label string, g []string) {
		if !sameMultiset(want.Fields[label], g) {
			bad = append(bad, fmt.Sprintf("%s: want %q got %q", label, want.Fields[label], g))
		}
	}
	for _, nf := range nameFields {
		chk(nf.Label, *nf.Get(got))
	}
	chk("GivenName", got.GivenName)
	chk("Surname", got.Surname)
	chk("CommonNames", got.CommonNames)
	chk("SerialNumbers", got.SerialNumbers)
	if want.CommonName != got.CommonName {
		bad = append(bad, fmt.Sprintf("CommonName: want %q got %q", want.CommonName, got.CommonName))
	}
	if want.SerialNumber != got.SerialNumber {
		bad = append(bad, fmt.Sprintf("SerialNumber: want %q got %q", want.SerialNumber, got.SerialNumber))
	}
	if !sameMultiset(want.Names, atvStrings(got.Names)) {
		bad = append(bad, fmt.Sprintf("Names: want %q got %q", sortedCopy(want.Names), sortedCopy(atvStrings(got.Names))))
	}
	return bad
}
