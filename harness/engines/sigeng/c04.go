package sigeng

import (
	"bytes"
	"crypto/ecdsa"
	"crypto/ed25519"
	stdx509 "crypto/x509"
	"encoding/hex"
	"fmt"
	"math/big"
	"math/rand/v2"
	"net"
	"regexp"
	"strings"
	"time"

	"github.com/zmap/zcrypto/encoding/asn1"
	zrsa "github.com/zmap/zcrypto/rsa"
	"github.com/zmap/zcrypto/x509"
	"github.com/zmap/zcrypto/x509/pkix"

	"verifharness/internal/core"
)

// C04 — CreateCertificate -> ParseCertificate round trip, field by field, over a template generator.

func init() {
	core.RegisterMeta("C04", core.Meta{
		Rule: "generated templates over the fields the CreateCertificate / Certificate doc comments list (serial 1..2^159, subject from the C22 name generator or RawSubject, validity 1900..2200 with " +
			"sub-second parts and non-UTC zones, all 2^9 key-usage masks, EKU subsets + unknown EKU OIDs, basic constraints x path length {-1,0,1,5} x MaxPathLenZero, SKID/AKID, DNS/email/IP SANs " +
			"(IPv4 in 4- and 16-byte form, IPv6), OCSP / issuer URLs, CRL distribution points, policy OIDs, name constraints (DNS, email, IP ranges, directory names, critical flag), " +
			"extra extensions (unknown OIDs and OIDs overriding generated ones), SignatureAlgorithm 0 or any valid for the signer) x subject key RSA/ECDSA/Ed25519 x signer key RSA/ECDSA P-224..P-521/Ed25519 " +
			"x self-signed / issued from a parsed parent / issued from an unparsed parent; plus reuse histories: one template (and one hand-built parent) used for 2-4 creations with one field " +
			"edited between them (subject, parent subject, SANs, key usage, validity, serial, SKID, extra extensions), expectation = the harness's own model of the caller's values at that call; non-trivial = at least three optional fields set and the certificate was created; distinct by the template description",
		MinNontrivial:         1100,
		MinNontrivialThorough: 25000,
		Shards:                16,
		Env:                   []string{"GODEBUG=rsa1024min=0"},
		Assumptions: []string{
			"times are compared to the second in UTC",
			"AuthorityKeyId is compared with the template's value (the statement); the CreateCertificate doc comment promises the parent's SubjectKeyId for issued certificates - the disagreement is counted (akid_doc_comment_expects_parent_skid)",
			"ExtKeyUsage constants for which the library has no OID in its marshalling table make CreateCertificate panic; they are kept out of the generated domain and probed once under the guard (counted)",
			"when an extra extension overrides a generated one, the corresponding parsed field is not compared (it reflects the caller's bytes)",
			"Go's crypto/x509 is the differential parser; a certificate it refuses is reported under cert-differential:go-rejects",
			"name-constraint IP ranges: address and mask of the same length are asserted (4+4, 16+16 incl. IPv4-mapped ::ffff:a.b.c.d/>=96 kept as 16+16, ::/0, host ranges, host bits set); " +
				"net.IPNet values whose address and mask lengths differ (16-byte IPv4 address + 4-byte mask, 4-byte address + 16-byte mask) are counted only: at HEAD they are emitted as 20 bytes and the strict parser refuses the certificate",
			"self-signed templates that are not CAs are verified with Certificate.CheckSignature (CheckSignatureFrom would refuse the parent for its CA bits, not for the signature)",
		},
	}, runC04)
}

// ---- template description (JSON-able, goes to replay files) -----------------------------

type extDesc struct {
	OID      string `json:"oid"`
	Critical bool   `json:"critical"`
	Value    string `json:"value_hex"`
}

type certDesc struct {
	Mode        string         `json:"mode"` // self-signed | issued | issued-unparsed-parent
	SubjectKey  string         `json:"subject_key"`
	SignerKey   string         `json:"signer_key"`
	SigAlg      string         `json:"signature_algorithm"`
	Serial      string         `json:"serial_hex"`
	Subject     map[string]any `json:"subject"`
	RawSubject  string         `json:"raw_subject_hex,omitempty"`
	NotBefore   string         `json:"not_before"`
	NotAfter    string         `json:"not_after"`
	KeyUsage    int            `json:"key_usage"`
	EKU         []int          `json:"eku,omitempty"`
	UnknownEKU  []string       `json:"unknown_eku,omitempty"`
	BCValid     bool           `json:"bc_valid"`
	IsCA        bool           `json:"is_ca"`
	MaxPathLen  int            `json:"max_path_len"`
	MaxPathZero bool           `json:"max_path_len_zero"`
	SKID        string         `json:"skid,omitempty"`
	AKID        string         `json:"akid,omitempty"`
	DNS         []string       `json:"dns,omitempty"`
	Email       []string       `json:"email,omitempty"`
	IPs         []string       `json:"ips_hex,omitempty"`
	OCSP        []string       `json:"ocsp,omitempty"`
	IssuerURL   []string       `json:"issuing_url,omitempty"`
	CRLDP       []string       `json:"crldp,omitempty"`
	Policies    []string       `json:"policies,omitempty"`
	NCCritical  bool           `json:"nc_critical,omitempty"`
	PermDNS     []string       `json:"permitted_dns,omitempty"`
	ExclDNS     []string       `json:"excluded_dns,omitempty"`
	PermEmail   []string       `json:"permitted_email,omitempty"`
	ExclEmail   []string       `json:"excluded_email,omitempty"`
	PermIP      []string       `json:"permitted_ip,omitempty"`
	ExclIP      []string       `json:"excluded_ip,omitempty"`
	PermDir     []any          `json:"permitted_dirname,omitempty"`
	ExclDir     []any          `json:"excluded_dirname,omitempty"`
	Extra       []extDesc      `json:"extra_extensions,omitempty"`
	OptionalSet int            `json:"optional_fields_set"`
	Aliasing    string         `json:"aliasing,omitempty"`
	Reused      bool           `json:"template_reused,omitempty"`
}

// ---- generators ----------------------------------------------------------------------------

func genSerial(r *rand.Rand) *big.Int {
	bits := 1 + r.IntN(159)
	switch r.IntN(8) {
	case 0:
		bits = 159
	case 1:
		bits = 1 + r.IntN(16)
	case 2:
		bits = []int{7, 8, 15, 16, 63, 64, 127, 128}[r.IntN(8)] // sign-bit boundaries
	}
	v := new(big.Int).SetBytes(randBytes(r, (bits+7)/8))
	v.SetBit(v, bits-1, 1)
	for i := bits; i < ((bits+7)/8)*8; i++ {
		v.SetBit(v, i, 0)
	}
	return v
}

func genTime(r *rand.Rand, from, to int) time.Time {
	y := from + r.IntN(to-from+1)
	switch r.IntN(10) {
	case 0:
		y = 1949 + r.IntN(3) // UTCTime / GeneralizedTime boundary
	case 1:
		y = 2048 + r.IntN(3)
	}
	t := time.Date(y, time.Month(1+r.IntN(12)), 1+r.IntN(28), r.IntN(24), r.IntN(60), r.IntN(60), 0, time.UTC)
	if r.IntN(3) == 0 {
		t = t.Add(time.Duration(r.IntN(1_000_000_000)))
	}
	switch r.IntN(4) {
	case 0:
		t = t.In(time.FixedZone("east", (1+r.IntN(14))*3600+r.IntN(2)*1800))
	case 1:
		t = t.In(time.FixedZone("west", -(1+r.IntN(12))*3600))
	}
	return t
}

var hostLabels = []string{"example", "test", "a", "xn--bcher-kva", "www", "mail", "host-1", "sub.domain", "x9"}

func genHost(r *rand.Rand) string {
	h := pick(r, hostLabels) + "." + pick(r, []string{"com", "org", "net", "example", "co.uk"})
	if r.IntN(5) == 0 {
		h = "*." + h
	}
	return h
}

func genHosts(r *rand.Rand, max int) []string {
	n := 1 + r.IntN(max)
	out := make([]string, n)
	for i := range out {
		out[i] = genHost(r)
	}
	return out
}

func genEmails(r *rand.Rand, max int) []string {
	n := 1 + r.IntN(max)
	out := make([]string, n)
	for i := range out {
		out[i] = pick(r, []string{"user", "first.last", "a+b", "x_y"}) + "@" + strings.TrimPrefix(genHost(r), "*.")
	}
	return out
}

func genURLs(r *rand.Rand, max int) []string {
	n := 1 + r.IntN(max)
	out := make([]string, n)
	for i := range out {
		out[i] = pick(r, []string{"http://", "https://", "ldap://"}) + strings.TrimPrefix(genHost(r), "*.") + "/" + genPrintable(r, r.IntN(8))
		out[i] = strings.ReplaceAll(out[i], " ", "_")
	}
	return out
}

func genIP(r *rand.Rand) net.IP {
	switch r.IntN(4) {
	case 0:
		return net.IP(randBytes(r, 4))
	case 1:
		return net.IPv4(byte(r.Uint32()), byte(r.Uint32()), byte(r.Uint32()), byte(r.Uint32())) // 16-byte form of an IPv4 address
	case 2:
		ip := net.IP(randBytes(r, 16))
		ip[0] = 0x20 // not an IPv4-mapped address
		return ip
	default:
		return pick(r, []net.IP{net.IPv4(127, 0, 0, 1).To4(), net.IPv6loopback, net.IPv4zero, net.IPv4zero.To4(), net.IPv6unspecified, net.IPv4bcast.To4(), net.IPv4bcast,
			net.ParseIP("10.1.2.3"), net.ParseIP("::ffff:192.0.2.1"), net.ParseIP("2001:db8::1"), net.ParseIP("::ffff:0:0"), net.ParseIP("64:ff9b::192.0.2.33")})
	}
}

// genIPNet returns an address range in one of the representations a caller can legitimately hold in a net.IPNet.
// mixed reports the representations whose address and mask have different lengths (net.IPNet semantics bring them to the
// same family; what CreateCertificate makes of them is counted, not asserted).
func genIPNet(r *rand.Rand) (n net.IPNet, mixed bool) {
	v4 := func() net.IP { return net.IP(randBytes(r, 4)) }
	v6 := func() net.IP {
		ip := net.IP(randBytes(r, 16))
		ip[0] = 0x20 // not an IPv4-mapped address
		return ip
	}
	prefix := func(max int) int {
		switch r.IntN(6) {
		case 0:
			return 0
		case 1:
			return max
		}
		return r.IntN(max + 1)
	}
	keepHostBits := r.IntN(4) == 0 // the builder is not documented to mask the address
	mk := func(ip net.IP, m net.IPMask) net.IPNet {
		if !keepHostBits {
			if masked := ip.Mask(m); masked != nil && len(masked) == len(ip) {
				ip = masked
			}
		}
		return net.IPNet{IP: ip, Mask: m}
	}
	switch r.IntN(12) {
	case 0, 1, 2:
		return mk(v4(), net.CIDRMask(prefix(32), 32)), false // 4 + 4
	case 3, 4, 5:
		return mk(v6(), net.CIDRMask(prefix(128), 128)), false // 16 + 16
	case 6, 7, 8:
		// an IPv4-mapped IPv6 range kept as genuine IPv6: 16-byte address ::ffff:a.b.c.d, 16-byte mask, prefix >= 96
		ip := net.IPv4(byte(r.Uint32()), byte(r.Uint32()), byte(r.Uint32()), byte(r.Uint32()))
		m := net.CIDRMask(96+prefix(32), 128)
		if !keepHostBits {
			for i := range ip {
				ip[i] &= m[i]
			}
		}
		return net.IPNet{IP: ip, Mask: m}, false
	case 9:
		return pick(r, []net.IPNet{
			{IP: net.IPv6unspecified, Mask: net.CIDRMask(0, 128)}, {IP: net.IPv4zero.To4(), Mask: net.CIDRMask(0, 32)},
			{IP: net.IPv4(127, 0, 0, 1).To4(), Mask: net.CIDRMask(32, 32)}, {IP: net.IPv6loopback, Mask: net.CIDRMask(128, 128)},
			{IP: net.IPv4(10, 0, 0, 0).To4(), Mask: net.CIDRMask(8, 32)}, {IP: net.ParseIP("2001:db8::"), Mask: net.CIDRMask(32, 128)},
		}), false
	case 10:
		// net.IPv4 yields the 16-byte form; with the natural 4-byte mask
		m := net.CIDRMask(prefix(32), 32)
		ip := net.IPv4(byte(r.Uint32()), byte(r.Uint32()), byte(r.Uint32()), byte(r.Uint32()))
		if !keepHostBits {
			ip = net.IP(append(append([]byte(nil), ip[:12]...), ip.Mask(m)...))
		}
		return net.IPNet{IP: ip, Mask: m}, true
	default:
		// 4-byte address with the 16-byte form of an IPv4 mask (ff x 12 || mask)
		m4 := net.CIDRMask(prefix(32), 32)
		m := net.IPMask(append(bytes.Repeat([]byte{0xff}, 12), m4...))
		return net.IPNet{IP: v4().Mask(m4), Mask: m}, true
	}
}

func genPolicyOID(r *rand.Rand) asn1.ObjectIdentifier {
	switch r.IntN(4) {
	case 0:
		return asn1.ObjectIdentifier{2, 23, 140, 1, 2, 1 + r.IntN(3)}
	case 1:
		return asn1.ObjectIdentifier{2, 5, 29, 32, 0}
	case 2:
		return asn1.ObjectIdentifier{1, 3, 6, 1, 4, 1, 44947, 1, 1, 1 + r.IntN(100)}
	default:
		return asn1.ObjectIdentifier{2, 16, 840, 1, 114412, 1 + r.IntN(3), r.IntN(200)}
	}
}

var nativeEKUs = []x509.ExtKeyUsage{x509.ExtKeyUsageAny, x509.ExtKeyUsageServerAuth, x509.ExtKeyUsageClientAuth, x509.ExtKeyUsageCodeSigning,
	x509.ExtKeyUsageEmailProtection, x509.ExtKeyUsageIpsecEndSystem, x509.ExtKeyUsageIpsecTunnel, x509.ExtKeyUsageIpsecUser, x509.ExtKeyUsageTimeStamping,
	x509.ExtKeyUsageOcspSigning, x509.ExtKeyUsageMicrosoftServerGatedCrypto, x509.ExtKeyUsageNetscapeServerGatedCrypto}

// generated extension OIDs that an extra extension may override, and the field each one feeds
var overridable = []struct {
	OID   asn1.ObjectIdentifier
	Field string
}{
	{asn1.ObjectIdentifier{2, 5, 29, 15}, "KeyUsage"}, {asn1.ObjectIdentifier{2, 5, 29, 37}, "ExtKeyUsage"}, {asn1.ObjectIdentifier{2, 5, 29, 19}, "BasicConstraints"},
	{asn1.ObjectIdentifier{2, 5, 29, 14}, "SubjectKeyId"}, {asn1.ObjectIdentifier{2, 5, 29, 35}, "AuthorityKeyId"}, {asn1.ObjectIdentifier{1, 3, 6, 1, 5, 5, 7, 1, 1}, "AIA"},
	{asn1.ObjectIdentifier{2, 5, 29, 17}, "SAN"}, {asn1.ObjectIdentifier{2, 5, 29, 32}, "Policies"}, {asn1.ObjectIdentifier{2, 5, 29, 30}, "NameConstraints"},
	{asn1.ObjectIdentifier{2, 5, 29, 31}, "CRLDP"},
}

// wellFormedOverride is a syntactically valid value for an overriding extension, written by the
// monitor's DER writer (a malformed value would make the strict parser refuse the certificate,
// which is the caller's doing, not the library's).
func wellFormedOverride(field string) []byte {
	switch field {
	case "KeyUsage":
		return tlv(tagBitString, []byte{0x07, 0x80}) // digitalSignature
	case "ExtKeyUsage":
		return derSeq(derOID([]int{1, 3, 6, 1, 5, 5, 7, 3, 2}))
	case "BasicConstraints":
		return derSeq(derBool(true), derSmallInt(3))
	case "SubjectKeyId":
		return derOctets([]byte{9, 9, 9})
	case "AuthorityKeyId":
		return derSeq(tlv(0x80, []byte{8, 8, 8}))
	case "AIA":
		return derSeq(derSeq(derOID([]int{1, 3, 6, 1, 5, 5, 7, 48, 1}), tlv(0x86, []byte("http://override.example/"))))
	case "SAN":
		return derSeq(tlv(0x82, []byte("override.example")))
	case "Policies":
		return derSeq(derSeq(derOID([]int{2, 23, 140, 1, 2, 2})))
	case "NameConstraints":
		return derSeq(tlv(0xa0, derSeq(tlv(0x82, []byte("override.example")))))
	case "CRLDP":
		return derSeq(derSeq(tlv(0xa0, tlv(0xa0, tlv(0x86, []byte("http://override.example/crl"))))))
	}
	return nil
}

type c04Case struct {
	Tpl        *x509.Certificate // what is handed to CreateCertificate (may alias, may be reused)
	Want       *x509.Certificate // an identical template built from the same random stream, sharing no memory with Tpl: what was supplied
	Desc       certDesc
	SubjectKey *sigKey
	SignerKey  *sigKey
	Mode       string
	Overridden map[string]bool
	RawName    *pkix.Name // the name RawSubject encodes, when RawSubject is set
	Classes    map[string]int
	// MixedIPRange: a name-constraint range whose address and mask lengths differ (16-byte IPv4 address with 4-byte mask or
	// the reverse). Counted, not asserted.
	MixedIPRange bool
}

func hexs(b []byte) string { return hex.EncodeToString(b) }

func genCert(r *rand.Rand) *c04Case {
	p := pool()
	cs := &c04Case{Overridden: map[string]bool{}, Classes: map[string]int{}}
	signers := []*sigKey{p.RSA[3], p.RSA[8], p.RSA[16], p.EC[0], p.EC[4], p.EC[8], p.EC[12], p.Ed[0], p.RSA[0], p.RSA[13]}
	subjects := []*sigKey{p.RSA[4], p.RSA[9], p.RSA[0], p.RSA[12], p.EC[1], p.EC[5], p.EC[9], p.EC[13], p.Ed[1], p.RSA[18]}
	cs.SignerKey = signers[r.IntN(len(signers))]
	cs.SubjectKey = subjects[r.IntN(len(subjects))]
	cs.Mode = []string{"self-signed", "issued", "issued", "issued-unparsed-parent"}[r.IntN(4)]
	if cs.Mode == "self-signed" {
		cs.SubjectKey = cs.SignerKey
	}
	t := &x509.Certificate{}
	cs.Tpl = t
	opt := 0
	d := &cs.Desc
	d.Mode, d.SubjectKey, d.SignerKey = cs.Mode, cs.SubjectKey.ID, cs.SignerKey.ID

	t.SerialNumber = genSerial(r)
	d.Serial = t.SerialNumber.Text(16)

	t.Subject = genName(r, nameOpts{Sparse: true, NeverEmpty: r.IntN(8) != 0}, cs.Classes)
	d.Subject = describeName(&t.Subject)
	if cs.Mode != "self-signed" && r.IntN(6) == 0 {
		// RawSubject override: bytes written by the monitor's DER writer, unrelated to Subject
		n := genName(r, nameOpts{Sparse: true, NoExtra: true, NeverEmpty: true}, nil)
		der, err := asn1.Marshal(n.ToRDNSequence())
		if err == nil {
			t.RawSubject = der
			cs.RawName = &n
			d.RawSubject = hexs(der)
			opt++
		}
	}
	t.NotBefore = genTime(r, 1900, 2150)
	t.NotAfter = t.NotBefore.Add(time.Duration(r.Int64N(int64(50*365*24)))*time.Hour + time.Duration(r.IntN(3600))*time.Second)
	if r.IntN(10) == 0 {
		t.NotAfter = genTime(r, 2100, 2200)
	}
	d.NotBefore, d.NotAfter = t.NotBefore.Format(time.RFC3339Nano), t.NotAfter.Format(time.RFC3339Nano)

	// signature algorithm: 0 or any of the signer's family that fits the key
	d.SigAlg = "default"
	if r.IntN(3) != 0 {
		var cands []algInfo
		for _, a := range algTable {
			if a.Usable && a.Family == cs.SignerKey.Family {
				if cs.SignerKey.Family == "RSA" {
					need := a.Hash.Size() + 19 + 11
					if a.PSS {
						need = 2*a.Hash.Size() + 2
					}
					if need > cs.SignerKey.Bits/8 {
						continue
					}
				}
				cands = append(cands, a)
			}
		}
		a := cands[r.IntN(len(cands))]
		t.SignatureAlgorithm = a.Algo
		d.SigAlg = a.Name
	}

	if r.IntN(4) != 0 {
		t.KeyUsage = x509.KeyUsage(r.IntN(512))
		if t.KeyUsage != 0 {
			opt++
		}
	}
	d.KeyUsage = int(t.KeyUsage)
	if r.IntN(3) == 0 {
		perm := r.Perm(len(nativeEKUs))
		for i := 0; i < 1+r.IntN(4); i++ {
			t.ExtKeyUsage = append(t.ExtKeyUsage, nativeEKUs[perm[i]])
			d.EKU = append(d.EKU, int(nativeEKUs[perm[i]]))
		}
		opt++
	}
	if r.IntN(5) == 0 {
		for i := 0; i < 1+r.IntN(2); i++ {
			oid := asn1.ObjectIdentifier{1, 3, 6, 1, 4, 1, 55555, 3, 1 + r.IntN(1000)}
			t.UnknownExtKeyUsage = append(t.UnknownExtKeyUsage, oid)
			d.UnknownEKU = append(d.UnknownEKU, oid.String())
		}
		opt++
	}
	if r.IntN(3) != 0 {
		t.BasicConstraintsValid = true
		t.IsCA = r.IntN(2) == 0
		t.MaxPathLen = []int{-1, 0, 0, 1, 5}[r.IntN(5)]
		t.MaxPathLenZero = r.IntN(2) == 0
		opt++
	}
	d.BCValid, d.IsCA, d.MaxPathLen, d.MaxPathZero = t.BasicConstraintsValid, t.IsCA, t.MaxPathLen, t.MaxPathLenZero
	if r.IntN(2) == 0 {
		t.SubjectKeyId = randBytes(r, 1+r.IntN(20))
		d.SKID = hexs(t.SubjectKeyId)
		opt++
	}
	if r.IntN(2) == 0 {
		t.AuthorityKeyId = randBytes(r, 1+r.IntN(20))
		d.AKID = hexs(t.AuthorityKeyId)
		opt++
	}
	if r.IntN(2) == 0 {
		t.DNSNames = genHosts(r, 3)
		d.DNS = t.DNSNames
		opt++
	}
	if r.IntN(4) == 0 {
		t.EmailAddresses = genEmails(r, 2)
		d.Email = t.EmailAddresses
		opt++
	}
	if r.IntN(3) == 0 {
		for i := 0; i < 1+r.IntN(3); i++ {
			ip := genIP(r)
			t.IPAddresses = append(t.IPAddresses, ip)
			d.IPs = append(d.IPs, hexs(ip))
		}
		opt++
	}
	if r.IntN(4) == 0 {
		t.OCSPServer = genURLs(r, 2)
		d.OCSP = t.OCSPServer
		opt++
	}
	if r.IntN(4) == 0 {
		t.IssuingCertificateURL = genURLs(r, 2)
		d.IssuerURL = t.IssuingCertificateURL
		opt++
	}
	if r.IntN(4) == 0 {
		t.CRLDistributionPoints = genURLs(r, 3)
		d.CRLDP = t.CRLDistributionPoints
		opt++
	}
	if r.IntN(4) == 0 {
		for i := 0; i < 1+r.IntN(3); i++ {
			oid := genPolicyOID(r)
			dup := false
			for _, o := range t.PolicyIdentifiers {
				dup = dup || o.Equal(oid)
			}
			if !dup {
				t.PolicyIdentifiers = append(t.PolicyIdentifiers, oid)
				d.Policies = append(d.Policies, oid.String())
			}
		}
		opt++
	}
	if r.IntN(4) == 0 {
		// name constraints
		t.NameConstraintsCritical = r.IntN(2) == 0
		d.NCCritical = t.NameConstraintsCritical
		strs := func(vals []string) []x509.GeneralSubtreeString {
			var out []x509.GeneralSubtreeString
			for _, v := range vals {
				out = append(out, x509.GeneralSubtreeString{Data: v})
			}
			return out
		}
		dom := func() []string {
			var o []string
			for i := 0; i < 1+r.IntN(2); i++ {
				h := strings.TrimPrefix(genHost(r), "*.")
				if r.IntN(3) == 0 {
					h = "." + h
				}
				o = append(o, h)
			}
			return o
		}
		mails := func() []string {
			return []string{pick(r, []string{"example.com", ".example.com", "user@example.org"})}
		}
		nets := func() ([]x509.GeneralSubtreeIP, []string) {
			var o []x509.GeneralSubtreeIP
			var ds []string
			for i := 0; i < 1+r.IntN(2); i++ {
				n, mixed := genIPNet(r)
				if mixed {
					if r.IntN(3) != 0 { // keep the mixed-length forms rare: at HEAD they make the whole certificate unparsable
						n, mixed = net.IPNet{IP: net.IPv4(10, 0, 0, 0).To4(), Mask: net.CIDRMask(8, 32)}, false
					}
				}
				cs.MixedIPRange = cs.MixedIPRange || mixed
				o = append(o, x509.GeneralSubtreeIP{Data: n})
				ds = append(ds, hexs(n.IP)+"/"+hexs(n.Mask))
			}
			return o, ds
		}
		dirs := func() ([]x509.GeneralSubtreeName, []any) {
			var o []x509.GeneralSubtreeName
			var ds []any
			for i := 0; i < 1+r.IntN(2); i++ {
				n := genName(r, nameOpts{Sparse: true, NeverEmpty: true}, nil)
				o = append(o, x509.GeneralSubtreeName{Data: n})
				ds = append(ds, describeName(&n))
			}
			return o, ds
		}
		any := false
		for !any {
			if r.IntN(2) == 0 {
				d.PermDNS = dom()
				t.PermittedDNSNames = strs(d.PermDNS)
				any = true
			}
			if r.IntN(3) == 0 {
				d.ExclDNS = dom()
				t.ExcludedDNSNames = strs(d.ExclDNS)
				any = true
			}
			if r.IntN(4) == 0 {
				d.PermEmail = mails()
				t.PermittedEmailAddresses = strs(d.PermEmail)
				any = true
			}
			if r.IntN(4) == 0 {
				d.ExclEmail = mails()
				t.ExcludedEmailAddresses = strs(d.ExclEmail)
				any = true
			}
			if r.IntN(3) == 0 {
				t.PermittedIPAddresses, d.PermIP = nets()
				any = true
			}
			if r.IntN(3) == 0 {
				t.ExcludedIPAddresses, d.ExclIP = nets()
				any = true
			}
			if r.IntN(4) == 0 {
				t.PermittedDirectoryNames, d.PermDir = dirs()
				any = true
			}
			if r.IntN(4) == 0 {
				t.ExcludedDirectoryNames, d.ExclDir = dirs()
				any = true
			}
		}
		opt++
	}
	if r.IntN(4) == 0 {
		used := map[string]bool{}
		for i := 0; i < 1+r.IntN(3); i++ {
			var e pkix.Extension
			if r.IntN(3) == 0 {
				o := overridable[r.IntN(len(overridable))]
				// criticality as RFC 5280 prescribes for the extension (Go's parser refuses e.g. a critical AIA / SKID / AKID)
				crit := o.Field == "KeyUsage" || o.Field == "BasicConstraints" || (o.Field == "NameConstraints" && r.IntN(2) == 0)
				e = pkix.Extension{Id: o.OID, Critical: crit, Value: wellFormedOverride(o.Field)}
				cs.Overridden[o.Field] = true
			} else {
				e = pkix.Extension{Id: asn1.ObjectIdentifier{1, 3, 6, 1, 4, 1, 55555, 9, 1 + r.IntN(50)}, Critical: r.IntN(3) == 0, Value: randBytes(r, r.IntN(40))}
				if r.IntN(4) == 0 {
					e.Id = asn1.ObjectIdentifier{2, 5, 29, 9} // subjectDirectoryAttributes: known arc, not generated
					e.Value = derSeq()
				}
			}
			if used[e.Id.String()] {
				continue
			}
			used[e.Id.String()] = true
			t.ExtraExtensions = append(t.ExtraExtensions, e)
			d.Extra = append(d.Extra, extDesc{e.Id.String(), e.Critical, hexs(e.Value)})
		}
		opt++
	}
	d.OptionalSet = opt
	return cs
}

// aliasTemplate re-homes slices of the library's copy of the template so that they share memory or have spare capacity
// (values unchanged): IP ranges of the name constraints and SAN IPs carved out of one array each, SKID and AKID out of one
// array, list fields with spare capacity; optionally the template is used twice.
func aliasTemplate(r *rand.Rand, cs *c04Case) {
	t := cs.Tpl
	var what []string
	var nets []*net.IPNet
	for i := range t.PermittedIPAddresses {
		nets = append(nets, &t.PermittedIPAddresses[i].Data)
	}
	for i := range t.ExcludedIPAddresses {
		nets = append(nets, &t.ExcludedIPAddresses[i].Data)
	}
	if len(nets) > 0 {
		total := 0
		for _, n := range nets {
			total += len(n.IP)
		}
		buf := make([]byte, 0, total+40)
		for _, n := range nets {
			o := len(buf)
			buf = append(buf, n.IP...)
			n.IP = buf[o:len(buf):cap(buf)] // capacity reaches over the following addresses
		}
		what = append(what, "name-constraint IPs carved from one array")
	}
	if len(t.IPAddresses) > 0 {
		buf := make([]byte, 0, 16*len(t.IPAddresses)+8)
		for i, ip := range t.IPAddresses {
			o := len(buf)
			buf = append(buf, ip...)
			t.IPAddresses[i] = buf[o:len(buf):cap(buf)]
		}
		what = append(what, "SAN IPs carved from one array")
	}
	if len(t.SubjectKeyId) > 0 && len(t.AuthorityKeyId) > 0 {
		buf := append(append(make([]byte, 0, 64), t.SubjectKeyId...), t.AuthorityKeyId...)
		t.SubjectKeyId, t.AuthorityKeyId = buf[:len(t.SubjectKeyId)], buf[len(t.SubjectKeyId):]
		what = append(what, "SKID and AKID carved from one array")
	}
	if len(t.ExtraExtensions) > 0 {
		t.ExtraExtensions = append(make([]pkix.Extension, 0, len(t.ExtraExtensions)+3), t.ExtraExtensions...)
	}
	if len(t.UnknownExtKeyUsage) > 0 {
		t.UnknownExtKeyUsage = append(make([]asn1.ObjectIdentifier, 0, len(t.UnknownExtKeyUsage)+3), t.UnknownExtKeyUsage...)
	}
	if len(t.ExtKeyUsage) > 0 {
		t.ExtKeyUsage = append(make([]x509.ExtKeyUsage, 0, len(t.ExtKeyUsage)+3), t.ExtKeyUsage...)
	}
	if len(t.DNSNames) > 0 {
		t.DNSNames = append(make([]string, 0, len(t.DNSNames)+3), t.DNSNames...)
	}
	what = append(what, "list fields with spare capacity")
	cs.Desc.Reused = cs.Mode != "self-signed" && r.IntN(2) == 0
	cs.Desc.Aliasing = strings.Join(what, "; ")
}

// templateInputsEqual compares the memory-carrying fields of the template given to the library with the pristine copy.
func templateInputsEqual(a, b *x509.Certificate) bool {
	nets := func(s []x509.GeneralSubtreeIP) string {
		var o []string
		for _, v := range s {
			o = append(o, fmt.Sprintf("%x/%x", []byte(v.Data.IP), []byte(v.Data.Mask)))
		}
		return strings.Join(o, ",")
	}
	if nets(a.PermittedIPAddresses) != nets(b.PermittedIPAddresses) || nets(a.ExcludedIPAddresses) != nets(b.ExcludedIPAddresses) {
		return false
	}
	if len(a.IPAddresses) != len(b.IPAddresses) {
		return false
	}
	for i := range a.IPAddresses {
		if !bytes.Equal(a.IPAddresses[i], b.IPAddresses[i]) {
			return false
		}
	}
	if !bytes.Equal(a.SubjectKeyId, b.SubjectKeyId) || !bytes.Equal(a.AuthorityKeyId, b.AuthorityKeyId) || !sameStrings(a.DNSNames, b.DNSNames) ||
		!sameOIDs(a.UnknownExtKeyUsage, b.UnknownExtKeyUsage) || len(a.ExtraExtensions) != len(b.ExtraExtensions) {
		return false
	}
	for i := range a.ExtraExtensions {
		if !a.ExtraExtensions[i].Id.Equal(b.ExtraExtensions[i].Id) || !bytes.Equal(a.ExtraExtensions[i].Value, b.ExtraExtensions[i].Value) {
			return false
		}
	}
	return a.SerialNumber.Cmp(b.SerialNumber) == 0 && a.KeyUsage == b.KeyUsage
}

// ---- oracle --------------------------------------------------------------------------------

var reNumbers = regexp.MustCompile(`[0-9]+`)

func normErr(err error) string {
	s := reNumbers.ReplaceAllString(err.Error(), "N")
	if len(s) > 90 {
		s = s[:90]
	}
	return s
}

func sameStrings(a, b []string) bool {
	if len(a) != len(b) {
		return false
	}
	for i := range a {
		if a[i] != b[i] {
			return false
		}
	}
	return true
}

func sameIPs(a, b []net.IP) bool {
	if len(a) != len(b) {
		return false
	}
	for i := range a {
		if !a[i].Equal(b[i]) {
			return false
		}
	}
	return true
}

func sameOIDs(a, b []asn1.ObjectIdentifier) bool {
	if len(a) != len(b) {
		return false
	}
	for i := range a {
		if !a[i].Equal(b[i]) {
			return false
		}
	}
	return true
}

func subtreeStrings(s []x509.GeneralSubtreeString) []string {
	var o []string
	for _, v := range s {
		o = append(o, fmt.Sprintf("%s|min=%d|max=%d", v.Data, v.Min, v.Max))
	}
	return o
}

func subtreeIPs(s []x509.GeneralSubtreeIP) []string {
	var o []string
	for _, v := range s {
		// a range is (address, mask) of one family: the mixed-length forms net.IPNet allows denote the IPv4 range
		ip, mask := v.Data.IP, v.Data.Mask
		if ip4 := ip.To4(); ip4 != nil && len(mask) == 4 {
			ip = ip4
		}
		if len(ip) == 4 && len(mask) == 16 {
			mask = mask[12:]
		}
		o = append(o, fmt.Sprintf("%x/%x|min=%d|max=%d", []byte(ip), []byte(mask), v.Min, v.Max))
	}
	return o
}

func publicKeyMatches(k *sigKey, parsed any) bool {
	switch k.Family {
	case "RSA":
		p, ok := parsed.(*zrsa.PublicKey)
		return ok && p.N.Cmp(k.ZRSA.N) == 0 && p.E.Cmp(k.ZRSA.E) == 0
	case "ECDSA":
		p, ok := parsed.(*x509.AugmentedECDSA)
		return ok && p.Pub != nil && p.Pub.Curve == k.EC.Curve && p.Pub.X.Cmp(k.EC.X) == 0 && p.Pub.Y.Cmp(k.EC.Y) == 0
	case "Ed25519":
		p, ok := parsed.(ed25519.PublicKey)
		return ok && bytes.Equal(p, k.Ed.Public().(ed25519.PublicKey))
	}
	return false
}

func extCount(exts []pkix.Extension, oid asn1.ObjectIdentifier) int {
	n := 0
	for _, e := range exts {
		if e.Id.Equal(oid) {
			n++
		}
	}
	return n
}

// checkCert compares the parsed certificate with the template. It returns "field: detail" strings.
func checkCert(cs *c04Case, parentSubject *pkix.Name, parentRawSubject []byte, got *x509.Certificate) []string {
	t := cs.Want
	var bad []string
	add := func(field, format string, a ...any) { bad = append(bad, field+": "+fmt.Sprintf(format, a...)) }

	if got.Version != 3 {
		add("Version", "got %d", got.Version)
	}
	if got.SerialNumber == nil || got.SerialNumber.Cmp(t.SerialNumber) != 0 {
		add("SerialNumber", "want %x got %x", t.SerialNumber, got.SerialNumber)
	}
	// subject
	if cs.RawName != nil {
		if !bytes.Equal(got.RawSubject, t.RawSubject) {
			add("RawSubject", "want %x got %x", t.RawSubject, got.RawSubject)
		}
		for _, m := range compareName(cs.RawName, &got.Subject) {
			add("Subject(RawSubject)."+fieldLabel(m), "%s", m)
		}
	} else {
		for _, m := range compareName(&t.Subject, &got.Subject) {
			add("Subject."+fieldLabel(m), "%s", m)
		}
	}
	// issuer
	if cs.Mode == "self-signed" {
		for _, m := range compareName(&t.Subject, &got.Issuer) {
			add("Issuer."+fieldLabel(m), "%s", m)
		}
		if !bytes.Equal(got.RawIssuer, got.RawSubject) {
			add("RawIssuer", "self-signed certificate with issuer bytes different from subject bytes")
		}
	} else {
		for _, m := range compareName(parentSubject, &got.Issuer) {
			add("Issuer."+fieldLabel(m), "%s", m)
		}
		if parentRawSubject != nil && !bytes.Equal(got.RawIssuer, parentRawSubject) {
			add("RawIssuer", "want %x got %x", parentRawSubject, got.RawIssuer)
		}
	}
	// validity, to the second in UTC
	if w := t.NotBefore.UTC().Truncate(time.Second); !got.NotBefore.Equal(w) {
		add("NotBefore", "want %s got %s", w, got.NotBefore)
	}
	if w := t.NotAfter.UTC().Truncate(time.Second); !got.NotAfter.Equal(w) {
		add("NotAfter", "want %s got %s", w, got.NotAfter)
	}
	if !publicKeyMatches(cs.SubjectKey, got.PublicKey) {
		add("PublicKey", "parsed key %T differs from the subject key %s", got.PublicKey, cs.SubjectKey.ID)
	}
	ov := cs.Overridden
	if !ov["KeyUsage"] && got.KeyUsage != t.KeyUsage {
		add("KeyUsage", "want %09b got %09b", t.KeyUsage, got.KeyUsage)
	}
	if !ov["ExtKeyUsage"] {
		if len(got.ExtKeyUsage) != len(t.ExtKeyUsage) {
			add("ExtKeyUsage", "want %v got %v", t.ExtKeyUsage, got.ExtKeyUsage)
		} else {
			for i := range t.ExtKeyUsage {
				if got.ExtKeyUsage[i] != t.ExtKeyUsage[i] {
					add("ExtKeyUsage", "want %v got %v", t.ExtKeyUsage, got.ExtKeyUsage)
					break
				}
			}
		}
		if !sameOIDs(got.UnknownExtKeyUsage, t.UnknownExtKeyUsage) {
			add("UnknownExtKeyUsage", "want %v got %v", t.UnknownExtKeyUsage, got.UnknownExtKeyUsage)
		}
	}
	if !ov["BasicConstraints"] {
		if got.BasicConstraintsValid != t.BasicConstraintsValid {
			add("BasicConstraintsValid", "want %v got %v", t.BasicConstraintsValid, got.BasicConstraintsValid)
		} else if t.BasicConstraintsValid {
			if got.IsCA != t.IsCA {
				add("IsCA", "want %v got %v", t.IsCA, got.IsCA)
			}
			wantLen, wantZero := t.MaxPathLen, false
			switch {
			case t.MaxPathLen == -1, t.MaxPathLen == 0 && !t.MaxPathLenZero:
				wantLen = -1
			case t.MaxPathLen == 0:
				wantZero = true
			}
			if got.MaxPathLen != wantLen || got.MaxPathLenZero != wantZero {
				add("MaxPathLen", "template (%d,%v): want (%d,%v) got (%d,%v)", t.MaxPathLen, t.MaxPathLenZero, wantLen, wantZero, got.MaxPathLen, got.MaxPathLenZero)
			}
		} else if got.IsCA {
			add("IsCA", "no basic constraints requested, parsed IsCA=true")
		}
	}
	if !ov["SubjectKeyId"] && !bytes.Equal(got.SubjectKeyId, t.SubjectKeyId) {
		add("SubjectKeyId", "want %x got %x", t.SubjectKeyId, got.SubjectKeyId)
	}
	if !ov["AuthorityKeyId"] && !bytes.Equal(got.AuthorityKeyId, t.AuthorityKeyId) {
		add("AuthorityKeyId", "want %x got %x", t.AuthorityKeyId, got.AuthorityKeyId)
	}
	if !ov["SAN"] {
		if !sameStrings(got.DNSNames, t.DNSNames) {
			add("DNSNames", "want %q got %q", t.DNSNames, got.DNSNames)
		}
		if !sameStrings(got.EmailAddresses, t.EmailAddresses) {
			add("EmailAddresses", "want %q got %q", t.EmailAddresses, got.EmailAddresses)
		}
		if !sameIPs(got.IPAddresses, t.IPAddresses) {
			add("IPAddresses", "want %v got %v", t.IPAddresses, got.IPAddresses)
		}
		for _, ip := range got.IPAddresses {
			if len(ip) == 16 && ip.To4() != nil {
				add("IPAddresses", "IPv4 address %v encoded in 16 bytes (doc: always 4 bytes when possible)", ip)
			}
		}
	}
	if !ov["AIA"] {
		if !sameStrings(got.OCSPServer, t.OCSPServer) {
			add("OCSPServer", "want %q got %q", t.OCSPServer, got.OCSPServer)
		}
		if !sameStrings(got.IssuingCertificateURL, t.IssuingCertificateURL) {
			add("IssuingCertificateURL", "want %q got %q", t.IssuingCertificateURL, got.IssuingCertificateURL)
		}
	}
	if !ov["CRLDP"] && !sameStrings(got.CRLDistributionPoints, t.CRLDistributionPoints) {
		add("CRLDistributionPoints", "want %q got %q", t.CRLDistributionPoints, got.CRLDistributionPoints)
	}
	if !ov["Policies"] && !sameOIDs(got.PolicyIdentifiers, t.PolicyIdentifiers) {
		add("PolicyIdentifiers", "want %v got %v", t.PolicyIdentifiers, got.PolicyIdentifiers)
	}
	if !ov["NameConstraints"] {
		hasNC := len(t.PermittedDNSNames)+len(t.ExcludedDNSNames)+len(t.PermittedEmailAddresses)+len(t.ExcludedEmailAddresses)+
			len(t.PermittedIPAddresses)+len(t.ExcludedIPAddresses)+len(t.PermittedDirectoryNames)+len(t.ExcludedDirectoryNames) > 0
		if got.NameConstraintsCritical != (hasNC && t.NameConstraintsCritical) {
			add("NameConstraintsCritical", "want %v got %v", hasNC && t.NameConstraintsCritical, got.NameConstraintsCritical)
		}
		for _, x := range []struct {
			f    string
			w, g []x509.GeneralSubtreeString
		}{{"PermittedDNSNames", t.PermittedDNSNames, got.PermittedDNSNames}, {"ExcludedDNSNames", t.ExcludedDNSNames, got.ExcludedDNSNames},
			{"PermittedEmailAddresses", t.PermittedEmailAddresses, got.PermittedEmailAddresses}, {"ExcludedEmailAddresses", t.ExcludedEmailAddresses, got.ExcludedEmailAddresses}} {
			if !sameStrings(subtreeStrings(x.w), subtreeStrings(x.g)) {
				add(x.f, "want %q got %q", subtreeStrings(x.w), subtreeStrings(x.g))
			}
		}
		if w, g := subtreeIPs(t.PermittedIPAddresses), subtreeIPs(got.PermittedIPAddresses); !sameStrings(w, g) {
			add("PermittedIPAddresses", "want %q got %q", w, g)
		}
		if w, g := subtreeIPs(t.ExcludedIPAddresses), subtreeIPs(got.ExcludedIPAddresses); !sameStrings(w, g) {
			add("ExcludedIPAddresses", "want %q got %q", w, g)
		}
		for _, x := range []struct {
			f    string
			w, g []x509.GeneralSubtreeName
		}{{"PermittedDirectoryNames", t.PermittedDirectoryNames, got.PermittedDirectoryNames}, {"ExcludedDirectoryNames", t.ExcludedDirectoryNames, got.ExcludedDirectoryNames}} {
			if len(x.w) != len(x.g) {
				add(x.f, "want %d names got %d", len(x.w), len(x.g))
				continue
			}
			for i := range x.w {
				for _, m := range compareName(&x.w[i].Data, &x.g[i].Data) {
					add(x.f, "entry %d: %s", i, m)
				}
				if x.g[i].Min != 0 || x.g[i].Max != 0 {
					add(x.f, "entry %d: min/max %d/%d", i, x.g[i].Min, x.g[i].Max)
				}
			}
		}
		if len(got.PermittedURIs)+len(got.ExcludedURIs)+len(got.PermittedEdiPartyNames)+len(got.ExcludedEdiPartyNames)+len(got.PermittedRegisteredIDs)+
			len(got.ExcludedRegisteredIDs)+len(got.PermittedX400Addresses)+len(got.ExcludedX400Addresses) != 0 {
			add("NameConstraints", "constraint kinds appeared that the template does not have")
		}
	}
	// extra extensions verbatim, exactly once; overridden generated extension absent
	for _, e := range t.ExtraExtensions {
		n := 0
		for _, g := range got.Extensions {
			if g.Id.Equal(e.Id) {
				n++
				if g.Critical != e.Critical || !bytes.Equal(g.Value, e.Value) {
					add("ExtraExtensions", "extension %v: want critical=%v value=%x got critical=%v value=%x", e.Id, e.Critical, e.Value, g.Critical, g.Value)
				}
			}
		}
		if n != 1 {
			add("ExtraExtensions", "extension %v present %d times", e.Id, n)
		}
	}
	// no extension may appear that nothing in the template asks for, and none twice
	seen := map[string]int{}
	for _, g := range got.Extensions {
		seen[g.Id.String()]++
	}
	for id, n := range seen {
		if n > 1 {
			add("Extensions", "extension %s present %d times", id, n)
		}
	}
	want := map[string]bool{}
	for _, e := range t.ExtraExtensions {
		want[e.Id.String()] = true
	}
	mark := func(cond bool, oid string) {
		if cond {
			want[oid] = true
		}
	}
	mark(t.KeyUsage != 0, "2.5.29.15")
	mark(len(t.ExtKeyUsage)+len(t.UnknownExtKeyUsage) > 0, "2.5.29.37")
	mark(t.BasicConstraintsValid, "2.5.29.19")
	mark(len(t.SubjectKeyId) > 0, "2.5.29.14")
	mark(len(t.AuthorityKeyId) > 0, "2.5.29.35")
	mark(len(t.OCSPServer)+len(t.IssuingCertificateURL) > 0, "1.3.6.1.5.5.7.1.1")
	mark(len(t.DNSNames)+len(t.EmailAddresses)+len(t.IPAddresses) > 0, "2.5.29.17")
	mark(len(t.PolicyIdentifiers) > 0, "2.5.29.32")
	mark(len(t.PermittedDNSNames)+len(t.ExcludedDNSNames)+len(t.PermittedEmailAddresses)+len(t.ExcludedEmailAddresses)+
		len(t.PermittedIPAddresses)+len(t.ExcludedIPAddresses)+len(t.PermittedDirectoryNames)+len(t.ExcludedDirectoryNames) > 0, "2.5.29.30")
	mark(len(t.CRLDistributionPoints) > 0, "2.5.29.31")
	for id := range want {
		if seen[id] == 0 {
			add("Extensions", "extension %s requested by the template is missing", id)
		}
	}
	for id := range seen {
		if !want[id] {
			add("Extensions", "extension %s present although nothing in the template asks for it", id)
		}
	}
	return bad
}

// differential compares zcrypto's view with Go's crypto/x509 on the fields the design names.
func differential(cs *c04Case, der []byte, got *x509.Certificate) []string {
	var bad []string
	g, err := stdx509.ParseCertificate(der)
	if err != nil {
		return []string{"go-rejects:" + normErr(err) + ": " + err.Error()}
	}
	add := func(field, format string, a ...any) { bad = append(bad, field+": "+fmt.Sprintf(format, a...)) }
	if g.SerialNumber.Cmp(got.SerialNumber) != 0 {
		add("SerialNumber", "go %x zcrypto %x", g.SerialNumber, got.SerialNumber)
	}
	if !g.NotBefore.Equal(got.NotBefore) || !g.NotAfter.Equal(got.NotAfter) {
		add("Validity", "go %s..%s zcrypto %s..%s", g.NotBefore, g.NotAfter, got.NotBefore, got.NotAfter)
	}
	if !sameStrings(g.DNSNames, got.DNSNames) || !sameStrings(g.EmailAddresses, got.EmailAddresses) || !sameIPs(g.IPAddresses, got.IPAddresses) {
		add("SAN", "go %q %q %v zcrypto %q %q %v", g.DNSNames, g.EmailAddresses, g.IPAddresses, got.DNSNames, got.EmailAddresses, got.IPAddresses)
	}
	if g.BasicConstraintsValid != got.BasicConstraintsValid || g.IsCA != got.IsCA {
		add("BasicConstraints", "go valid=%v ca=%v zcrypto valid=%v ca=%v", g.BasicConstraintsValid, g.IsCA, got.BasicConstraintsValid, got.IsCA)
	} else if g.BasicConstraintsValid && (g.MaxPathLen != got.MaxPathLen || g.MaxPathLenZero != got.MaxPathLenZero) {
		add("MaxPathLen", "go (%d,%v) zcrypto (%d,%v)", g.MaxPathLen, g.MaxPathLenZero, got.MaxPathLen, got.MaxPathLenZero)
	}
	if int(g.KeyUsage) != int(got.KeyUsage) {
		add("KeyUsage", "go %09b zcrypto %09b", g.KeyUsage, got.KeyUsage)
	}
	if !bytes.Equal(g.SubjectKeyId, got.SubjectKeyId) || !bytes.Equal(g.AuthorityKeyId, got.AuthorityKeyId) {
		add("KeyIds", "go %x/%x zcrypto %x/%x", g.SubjectKeyId, g.AuthorityKeyId, got.SubjectKeyId, got.AuthorityKeyId)
	}
	if !sameStrings(g.OCSPServer, got.OCSPServer) || !sameStrings(g.IssuingCertificateURL, got.IssuingCertificateURL) || !sameStrings(g.CRLDistributionPoints, got.CRLDistributionPoints) {
		add("URLs", "go %q %q %q zcrypto %q %q %q", g.OCSPServer, g.IssuingCertificateURL, g.CRLDistributionPoints, got.OCSPServer, got.IssuingCertificateURL, got.CRLDistributionPoints)
	}
	if !bytes.Equal(g.RawSubject, got.RawSubject) || !bytes.Equal(g.RawIssuer, got.RawIssuer) || !bytes.Equal(g.RawTBSCertificate, got.RawTBSCertificate) ||
		!bytes.Equal(g.RawSubjectPublicKeyInfo, got.RawSubjectPublicKeyInfo) || !bytes.Equal(g.Signature, got.Signature) {
		add("RawParts", "raw subject / issuer / TBS / SPKI / signature slices differ between the parsers")
	}
	switch k := g.PublicKey.(type) {
	case *ecdsa.PublicKey:
		if cs.SubjectKey.Family != "ECDSA" || k.X.Cmp(cs.SubjectKey.EC.X) != 0 {
			add("PublicKey", "go parsed another ECDSA key")
		}
	case ed25519.PublicKey:
		if cs.SubjectKey.Family != "Ed25519" {
			add("PublicKey", "go parsed an Ed25519 key")
		}
	}
	return bad
}

// ---- engine --------------------------------------------------------------------------------

func runC04(c *core.Ctx) {
	if asn1.AllowPermissiveParsing {
		c.Violation("harness:permissive-parsing-enabled-at-start", "", "", nil)
		return
	}
	n := c.PerShard(c.Pick(2400, 60000))
	r := c.SubRng("templates")
	for i := 0; i < n; i++ {
		// the template is generated twice from the same stream: one copy goes to the library, the other is the record of
		// what was supplied (so that a library writing into its input cannot move the oracle)
		lbl := fmt.Sprintf("tpl-%d", i)
		cs := genCert(c.SubRng(lbl))
		cs.Want = genCert(c.SubRng(lbl)).Tpl
		if r.IntN(4) == 0 {
			aliasTemplate(r, cs)
		}
		runCertCase(c, r, fmt.Sprintf("c04-%d-%d", c.Shard, i), cs)
	}
	nh := c.PerShard(c.Pick(480, 12000))
	hr := c.SubRng("histories")
	for i := 0; i < nh; i++ {
		runCertHistory(c, hr, i)
	}
	if c.Shard == 0 {
		probeUnmappedEKU(c)
	}
	if asn1.AllowPermissiveParsing {
		c.Violation("harness:permissive-parsing-left-enabled", "", "", nil)
	}
}

func runCertCase(c *core.Ctx, r *rand.Rand, id string, cs *c04Case) {
	c.Eval(1)
	input := map[string]any{"template": cs.Desc}
	signer := cs.SignerKey.Signer()
	var parentArg *x509.Certificate
	var parentCert *x509.Certificate // parsed form for CheckSignatureFrom
	var parentSubject *pkix.Name
	var parentRaw []byte
	switch cs.Mode {
	case "self-signed":
		parentArg = cs.Tpl
	default:
		ca, err := caFor(cs.SignerKey, "std")
		if err != nil {
			c.Violation("cert-roundtrip:CA-with-default-algorithm-failed:"+cs.SignerKey.Family, err.Error(), id, input)
			return
		}
		parentCert = ca.Cert
		parentRaw = ca.Cert.RawSubject
		ps := pkix.Name{CommonName: "verif CA " + cs.SignerKey.ID + "/std", Organization: []string{"verif"}}
		parentSubject = &ps
		if cs.Mode == "issued" {
			parentArg = ca.Cert
		} else {
			// an unparsed parent: only Subject and SubjectKeyId, as a caller holding a template would pass
			parentArg = &x509.Certificate{Subject: ps, SubjectKeyId: ca.Cert.SubjectKeyId}
		}
		if len(parentArg.SubjectKeyId) > 0 && !bytes.Equal(parentArg.SubjectKeyId, cs.Tpl.AuthorityKeyId) {
			c.Count("akid_doc_comment_expects_parent_skid", 1)
		}
	}
	if cs.Desc.Reused {
		// the same template used twice: the second certificate is the one that is checked
		core.Guard(func() {
			_, _ = x509.CreateCertificate(detReader(r), cs.Tpl, parentArg, cs.SubjectKey.Signer().Public(), signer)
		})
	}
	var der []byte
	var err error
	if pi := core.Guard(func() {
		der, err = x509.CreateCertificate(detReader(r), cs.Tpl, parentArg, cs.SubjectKey.Signer().Public(), signer)
	}); pi != nil {
		c.Violation("cert-roundtrip:create:"+pi.Key, pi.Value+"\n"+pi.Stack, id, input)
		return
	}
	if err != nil {
		c.Violation("cert-roundtrip:create-failed:"+normErr(err), err.Error(), id, input)
		return
	}
	input["der"] = core.FullHex(der)
	// observation only: did the call change the template it was given?
	if templateInputsEqual(cs.Tpl, cs.Want) {
		c.Count("create_left_its_template_unchanged", 1)
	} else {
		c.Count("create_changed_its_template", 1)
	}
	var got *x509.Certificate
	if pi := core.Guard(func() { got, err = x509.ParseCertificate(der) }); pi != nil {
		c.Violation("cert-roundtrip:parse:"+pi.Key, pi.Value+"\n"+pi.Stack, id, input)
		return
	}
	if err != nil {
		if cs.MixedIPRange && strings.Contains(err.Error(), "IP address range of length") {
			// address and mask of different lengths are written as they are (16+4 or 4+16 bytes); the strict parser refuses the result
			c.Count("nc_ip_range_with_mixed_lengths_created_but_unparsable", 1)
			return
		}
		c.Violation("cert-roundtrip:parse-failed:"+normErr(err), err.Error(), id, input)
		return
	}
	if cs.MixedIPRange {
		c.Count("nc_ip_range_with_mixed_lengths_round_tripped", 1)
	}
	for _, m := range checkCert(cs, parentSubject, parentRaw, got) {
		c.Violation("cert-roundtrip:field:"+fieldLabel(m), m, id, input)
	}
	// RFC 5280 4.1.2.5: validity in Zulu form, UTCTime through 2049, GeneralizedTime from 2050 (both parsers accept offsets and would hide it)
	if !bytes.Contains(der, derSeq(derTime(cs.Tpl.NotBefore), derTime(cs.Tpl.NotAfter))) {
		c.Violation("cert-roundtrip:encoding:validity-not-utc-zulu", fmt.Sprintf("validity is not encoded as %x", derSeq(derTime(cs.Tpl.NotBefore), derTime(cs.Tpl.NotAfter))), id, input)
	}
	// signature
	var serr error
	if cs.Mode == "self-signed" {
		ca := cs.Tpl.BasicConstraintsValid && cs.Tpl.IsCA && !cs.Overridden["BasicConstraints"] && !cs.Overridden["KeyUsage"] &&
			(cs.Tpl.KeyUsage == 0 || cs.Tpl.KeyUsage&x509.KeyUsageCertSign != 0)
		if ca {
			serr = got.CheckSignatureFrom(got)
		} else {
			serr = got.CheckSignature(got.SignatureAlgorithm, got.RawTBSCertificate, got.Signature)
		}
		if serr == nil && !got.SelfSigned {
			c.Violation("cert-roundtrip:self-signed-flag-not-set", "signature verifies with the certificate's own key, issuer bytes equal subject bytes, SelfSigned=false", id, input)
		}
	} else {
		serr = got.CheckSignatureFrom(parentCert)
	}
	if serr != nil {
		c.Violation("cert-roundtrip:signature:"+cs.Desc.SigAlg+":"+cs.SignerKey.Family, serr.Error(), id, input)
	}
	if cs.Tpl.SignatureAlgorithm != 0 && got.SignatureAlgorithm != cs.Tpl.SignatureAlgorithm {
		c.Violation("cert-roundtrip:field:SignatureAlgorithm", fmt.Sprintf("requested %v parsed %v", cs.Tpl.SignatureAlgorithm, got.SignatureAlgorithm), id, input)
	}
	for _, m := range differential(cs, der, got) {
		c.Violation("cert-differential:"+fieldLabel(m), m, id, input)
	}
	c.Count("certificates_created", 1)
	c.Count("mode:"+cs.Mode, 1)
	c.Count("signer:"+cs.SignerKey.Family, 1)
	c.Count("sigalg:"+cs.Desc.SigAlg, 1)
	c.Max("optional_fields_in_a_template", cs.Desc.OptionalSet)
	if len(cs.Overridden) > 0 {
		c.Count("templates_with_overriding_extra_extension", 1)
	}
	if cs.Desc.OptionalSet >= 3 {
		c.Nontrivial(fmt.Sprintf("%+v", cs.Desc))
	}
	if c.WantSample() && cs.Desc.OptionalSet >= 5 {
		c.Sample(map[string]any{"template": cs.Desc, "der": core.Hex(der)})
	}
}

// probeUnmappedEKU documents what CreateCertificate does with an ExtKeyUsage constant that the
// marshalling table does not know (outside the generated domain; guard only).
func probeUnmappedEKU(c *core.Ctx) {
	k := pool().EC[4]
	tpl := &x509.Certificate{SerialNumber: big.NewInt(1), Subject: pkix.Name{CommonName: "eku probe"}, NotBefore: caNotBefore, NotAfter: caNotAfter,
		ExtKeyUsage: []x509.ExtKeyUsage{x509.ExtKeyUsageAppleCodeSigning}}
	var err error
	pi := core.Guard(func() { _, err = x509.CreateCertificate(fixedReader("eku"), tpl, tpl, k.Signer().Public(), k.Signer()) })
	switch {
	case pi != nil:
		c.Count("out_of_domain_eku_constant_without_marshalling_oid_panics", 1)
		c.Note("out of domain: CreateCertificate panics (%s) for ExtKeyUsage constants that oidFromExtKeyUsage does not map, e.g. ExtKeyUsageAppleCodeSigning", pi.Key)
	case err != nil:
		c.Count("out_of_domain_eku_constant_without_marshalling_oid_error", 1)
	default:
		c.Count("out_of_domain_eku_constant_without_marshalling_oid_accepted", 1)
	}
}
