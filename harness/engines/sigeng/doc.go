// Package sigeng holds property monitors (see /verif/DESIGN.md section 4).
package sigeng
