package sigeng

import (
	"fmt"
	"math/big"
	"time"

	"github.com/zmap/zcrypto/x509"
	"github.com/zmap/zcrypto/x509/pkix"
	"github.com/zmap/zcrypto/x509/revocation/ocsp"

	"verifharness/internal/core"
)

// Certificate-level key substitution and in-memory field mutation for C03.
//
// For every signer key: a genuine self-signed root R and a genuine child C issued by R; "look-alike" certificates that
// carry R's subject/issuer bytes, SubjectKeyId and AuthorityKeyId but a DIFFERENT key (same family and other families),
// used in both roles (look-alike self-signed certificate checked against the genuine root; genuine child and genuine root
// checked against a look-alike parent); and parsed certificates whose Signature / RawTBSCertificate / SignatureAlgorithm
// fields are changed in memory before CheckSignatureFrom / CheckSignature. Every verdict is judged by the standard-library
// verifier over the fields the call actually receives.

func parseFresh(der []byte) (*x509.Certificate, error) { return x509.ParseCertificate(der) }

// lookAlike makes a self-signed certificate with key k2 that names itself exactly like root.
func lookAlike(root *caEntry, k2 *sigKey, tag string) (*caEntry, error) {
	tpl := &x509.Certificate{
		SerialNumber:          big.NewInt(31337),
		RawSubject:            root.Cert.RawSubject,
		NotBefore:             caNotBefore,
		NotAfter:              caNotAfter,
		BasicConstraintsValid: true,
		IsCA:                  true,
		KeyUsage:              x509.KeyUsageCertSign | x509.KeyUsageCRLSign | x509.KeyUsageDigitalSignature,
		SubjectKeyId:          root.Cert.SubjectKeyId,
		AuthorityKeyId:        root.Cert.SubjectKeyId,
	}
	der, err := x509.CreateCertificate(fixedReader("lookalike/"+tag), tpl, tpl, k2.Signer().Public(), k2.Signer())
	if err != nil {
		return nil, err
	}
	cert, err := x509.ParseCertificate(der)
	if err != nil {
		return nil, err
	}
	return &caEntry{Key: k2, Cert: cert, DER: der}, nil
}

func runCertLevel(c *core.Ctx) {
	p := pool()
	others := map[string][]*sigKey{ // keys the look-alikes are made with: same family other key, then the other families
		"RSA":     {p.RSA[10], p.EC[6], p.Ed[3]},
		"ECDSA":   {p.EC[7], p.RSA[10], p.Ed[3]},
		"Ed25519": {p.Ed[3], p.RSA[10], p.EC[6]},
	}
	for i, k := range createKeys(c) {
		if i%c.NShards != c.Shard {
			continue
		}
		base := "certlevel/" + k.ID
		root, err := caFor(k, "std")
		if err != nil {
			c.Violation("create:CA-with-default-algorithm-failed:"+k.Family, err.Error(), base, nil)
			continue
		}
		// genuine child of the root
		ctpl := &x509.Certificate{SerialNumber: big.NewInt(99), Subject: pkix.Name{CommonName: "child of " + k.ID}, NotBefore: caNotBefore, NotAfter: caNotAfter,
			AuthorityKeyId: root.Cert.SubjectKeyId, SubjectKeyId: []byte{0xc1, 0x1d}, DNSNames: []string{"child.example"}}
		var childDER []byte
		if pi := core.Guard(func() {
			childDER, err = x509.CreateCertificate(fixedReader(base+"/child"), ctpl, root.Cert, &p.EC[5].EC.PublicKey, k.Signer())
		}); pi != nil || err != nil {
			c.Count("certlevel_child_creation_failed", 1)
			continue
		}
		fresh := func(der []byte) *x509.Certificate {
			cert, err := parseFresh(der)
			if err != nil {
				return nil
			}
			return cert
		}
		judge := func(mut, info string, child, parent *x509.Certificate, parentKey *sigKey, viaCheckSignature bool) {
			if child == nil || parent == nil {
				return
			}
			c.Eval(1)
			input := map[string]any{"base": base, "mutation": mut, "mutation_info": info, "parent_key": parentKey.ID, "parent_der": core.FullHex(parent.Raw),
				"child_tbs": core.FullHex(child.RawTBSCertificate), "child_signature": core.FullHex(child.Signature), "child_algorithm": int(child.SignatureAlgorithm), "child_self_signed_flag": child.SelfSigned}
			want := effectiveValid(pairOf(parentKey), algByValue(child.SignatureAlgorithm), child.RawTBSCertificate, child.Signature)
			api := "Certificate.CheckSignatureFrom"
			var got error
			if pi := core.Guard(func() {
				if viaCheckSignature {
					api = "Certificate.CheckSignature"
					got = parent.CheckSignature(child.SignatureAlgorithm, child.RawTBSCertificate, child.Signature)
				} else {
					got = child.CheckSignatureFrom(parent)
				}
			}); pi != nil {
				c.Violation("verify:"+api+":"+pi.Key, pi.Value+"\n"+pi.Stack, base+"|"+mut+"|"+info, input)
				return
			}
			c.Count("certificate_level_checks", 1)
			c.Count("mut:"+mut, 1)
			c.Nontrivial(base, mut, info, api)
			switch {
			case got == nil && !want:
				c.Violation("accepts-invalid:"+api+"(certificate-level):"+parentKey.Family+":"+mut,
					fmt.Sprintf("%s: accepted, but the signature does not verify with the parent certificate's key (%s)", info, parentKey.ID), base+"|"+mut+"|"+info, input)
			case got != nil && want && mut == "genuine":
				c.Violation("rejects-genuine:"+api+"(certificate-level):"+algByValue(child.SignatureAlgorithm).Name, fmt.Sprintf("%s: %v", info, got), base+"|"+mut+"|"+info, input)
			case got == nil:
				c.Count("accepted_valid", 1)
			default:
				c.Count("rejected_invalid", 1)
			}
		}
		// genuine pairs
		judge("genuine", "child-from-root", fresh(childDER), root.Cert, k, false)
		judge("genuine", "root-from-root", fresh(root.DER), root.Cert, k, false)
		// look-alikes
		for _, k2 := range others[k.Family] {
			la, err := lookAlike(root, k2, k.ID+"/"+k2.ID)
			if err != nil {
				c.Count("certlevel_lookalike_creation_failed", 1)
				continue
			}
			kind := "same-family"
			if k2.Family != k.Family {
				kind = "other-family"
			}
			// look-alike self-signed certificate (its own signature is fine) presented as if it were the root / issued by the root
			judge("lookalike-child-own-key", kind+":self-signed look-alike vs genuine root", fresh(la.DER), root.Cert, k, false)
			// genuine child and genuine root against a parent that only looks like the root
			judge("lookalike-parent-other-key", kind+":genuine child vs look-alike parent", fresh(childDER), la.Cert, k2, false)
			judge("lookalike-parent-other-key", kind+":genuine root vs look-alike parent", fresh(root.DER), la.Cert, k2, false)
			judge("lookalike-parent-other-key", kind+":genuine child vs look-alike parent (CheckSignature)", fresh(childDER), la.Cert, k2, true)
			// OCSP: a response signed with the look-alike's key, with and without the look-alike certificate embedded,
			// presented as coming from the genuine root. Neither the response nor the embedded certificate verifies with the root's key.
			if k2.Family != "Ed25519" {
				for _, embed := range []bool{true, false} {
					tplO := ocsp.Response{Status: ocsp.Good, SerialNumber: big.NewInt(99), ThisUpdate: createNow, NextUpdate: createNow.Add(time.Hour)}
					info := kind + ":response signed by look-alike key"
					if embed {
						tplO.Certificate = la.Cert
						info += ", look-alike certificate embedded"
					}
					var oder []byte
					var oerr, perr error
					var resp *ocsp.Response
					if pi := core.Guard(func() {
						oder, oerr = ocsp.CreateResponse(root.Cert, la.Cert, tplO, k2.Signer())
						if oerr == nil {
							resp, perr = ocsp.ParseResponse(oder, root.Cert)
						}
					}); pi != nil {
						c.Violation("verify:ocsp.ParseResponse:"+pi.Key, pi.Value+"\n"+pi.Stack, base+"|ocsp|"+info, nil)
						continue
					}
					if oerr != nil {
						c.Count("certlevel_ocsp_creation_refused", 1)
						continue
					}
					c.Eval(1)
					c.Count("certificate_level_checks", 1)
					c.Count("mut:lookalike-ocsp-responder", 1)
					c.Nontrivial(base, "lookalike-ocsp-responder", info)
					if perr == nil {
						// the reference view: does anything in the response verify with the root's key?
						okResp := effectiveValid(pairOf(k), algByValue(resp.SignatureAlgorithm), resp.TBSResponseData, resp.Signature)
						okCert := resp.Certificate != nil && effectiveValid(pairOf(k), algByValue(resp.Certificate.SignatureAlgorithm), resp.Certificate.RawTBSCertificate, resp.Certificate.Signature)
						if !okResp && !okCert {
							c.Violation("accepts-invalid:ocsp.ParseResponse(certificate-level):"+k.Family+":lookalike-ocsp-responder",
								info+": accepted, but neither the response nor the embedded certificate verifies with the issuer's key", base+"|ocsp|"+info,
								map[string]any{"base": base, "issuer_der": core.FullHex(root.DER), "response_der": core.FullHex(oder), "signed_with": k2.ID})
						}
					} else {
						c.Count("rejected_invalid", 1)
					}
				}
			}
		}
		// in-memory mutation of parsed fields
		for _, which := range []string{"child", "root"} {
			der := childDER
			if which == "root" {
				der = root.DER
			}
			for _, via := range []bool{false, true} {
				if m := fresh(der); m != nil && len(m.Signature) > 0 {
					m.Signature = flipBit(m.Signature, len(m.Signature)*4)
					judge("parsed-field-mutated", which+":Signature bit flipped", m, root.Cert, k, via)
				}
				if m := fresh(der); m != nil {
					m.Signature = append(append([]byte(nil), m.Signature...), 0)
					judge("parsed-field-mutated", which+":Signature byte appended", m, root.Cert, k, via)
				}
				if m := fresh(der); m != nil {
					m.RawTBSCertificate = flipBit(m.RawTBSCertificate, len(m.RawTBSCertificate)*4)
					judge("parsed-field-mutated", which+":RawTBSCertificate bit flipped", m, root.Cert, k, via)
				}
				if m := fresh(der); m != nil {
					for _, a := range algTable {
						if a.Family == k.Family && a.Usable && a.Algo != m.SignatureAlgorithm {
							m.SignatureAlgorithm = a.Algo
							break
						}
					}
					judge("parsed-field-mutated", which+":SignatureAlgorithm replaced", m, root.Cert, k, via)
				}
				if m := fresh(der); m != nil {
					m.SignatureAlgorithm = x509.UnknownSignatureAlgorithm
					judge("parsed-field-mutated", which+":SignatureAlgorithm unknown", m, root.Cert, k, via)
				}
			}
		}
	}
}
