package sigeng

import (
	"bytes"
	"math/big"
	"sort"
	"time"
	"unicode/utf16"
)

// A minimal DER writer written for the monitors (shares no code with zcrypto's codec). It is
// used where an input must not be produced by the code under test: RDNSequences for C22's
// second direction, SPKIs / holder certificates for key types CreateCertificate cannot emit,
// and canonical / deliberately non-canonical encodings of ECDSA and DSA signatures.

const (
	tagInteger   = 0x02
	tagBitString = 0x03
	tagOctet     = 0x04
	tagNull      = 0x05
	tagOID       = 0x06
	tagUTF8      = 0x0c
	tagNumeric   = 0x12
	tagPrintable = 0x13
	tagT61       = 0x14
	tagIA5       = 0x16
	tagUTCTime   = 0x17
	tagGenTime   = 0x18
	tagBMP       = 0x1e
	tagSeq       = 0x30
	tagSet       = 0x31
)

func derLen(n int) []byte {
	if n < 0x80 {
		return []byte{byte(n)}
	}
	var b []byte
	for v := n; v > 0; v >>= 8 {
		b = append([]byte{byte(v)}, b...)
	}
	return append([]byte{0x80 | byte(len(b))}, b...)
}

func tlv(tag byte, content ...[]byte) []byte {
	n := 0
	for _, c := range content {
		n += len(c)
	}
	out := append([]byte{tag}, derLen(n)...)
	for _, c := range content {
		out = append(out, c...)
	}
	return out
}

func derSeq(items ...[]byte) []byte { return tlv(tagSeq, items...) }

// derSetOf sorts the encoded elements as DER requires for SET OF.
func derSetOf(items ...[]byte) []byte {
	s := make([][]byte, len(items))
	copy(s, items)
	sort.Slice(s, func(i, j int) bool { return bytes.Compare(s[i], s[j]) < 0 })
	return tlv(tagSet, s...)
}

// derIntBytes is the minimal two's complement content of v.
func derIntBytes(v *big.Int) []byte {
	switch v.Sign() {
	case 0:
		return []byte{0}
	case 1:
		b := v.Bytes()
		if b[0]&0x80 != 0 {
			b = append([]byte{0}, b...)
		}
		return b
	}
	// negative: two's complement of |v|
	n := (v.BitLen() + 8) / 8 // enough bytes
	mod := new(big.Int).Lsh(big.NewInt(1), uint(8*n))
	b := new(big.Int).Add(mod, v).Bytes()
	for len(b) < n {
		b = append([]byte{0}, b...)
	}
	for len(b) > 1 && b[0] == 0xff && b[1]&0x80 != 0 {
		b = b[1:]
	}
	return b
}

func derInt(v *big.Int) []byte   { return tlv(tagInteger, derIntBytes(v)) }
func derSmallInt(v int64) []byte { return derInt(big.NewInt(v)) }

func base128(v int) []byte {
	if v == 0 {
		return []byte{0}
	}
	var b []byte
	for ; v > 0; v >>= 7 {
		b = append([]byte{byte(v & 0x7f)}, b...)
	}
	for i := 0; i < len(b)-1; i++ {
		b[i] |= 0x80
	}
	return b
}

func derOID(oid []int) []byte {
	c := base128(oid[0]*40 + oid[1])
	for _, a := range oid[2:] {
		c = append(c, base128(a)...)
	}
	return tlv(tagOID, c)
}

func derBitString(b []byte) []byte { return tlv(tagBitString, []byte{0}, b) }
func derOctets(b []byte) []byte    { return tlv(tagOctet, b) }
func derNull() []byte              { return []byte{tagNull, 0} }
func derBool(v bool) []byte {
	if v {
		return []byte{0x01, 0x01, 0xff}
	}
	return []byte{0x01, 0x01, 0x00}
}

// derExplicit wraps content in a constructed context-specific tag.
func derExplicit(n int, content []byte) []byte { return tlv(0xa0|byte(n), content) }

func derString(tag byte, s string) []byte {
	if tag == tagBMP {
		u := utf16.Encode([]rune(s))
		b := make([]byte, 0, 2*len(u))
		for _, c := range u {
			b = append(b, byte(c>>8), byte(c))
		}
		return tlv(tag, b)
	}
	return tlv(tag, []byte(s))
}

func derTime(t time.Time) []byte {
	t = t.UTC()
	if t.Year() >= 1950 && t.Year() < 2050 {
		return tlv(tagUTCTime, []byte(t.Format("060102150405Z")))
	}
	return tlv(tagGenTime, []byte(t.Format("20060102150405Z")))
}

// derATV is one AttributeTypeAndValue with the given string type.
func derATV(oid []int, strTag byte, val string) []byte {
	return derSeq(derOID(oid), derString(strTag, val))
}
