package sigeng

import (
	"crypto"
	"fmt"
	"math/big"
	"math/rand/v2"
	"sync"
	"time"

	"github.com/zmap/zcrypto/x509"
	"github.com/zmap/zcrypto/x509/pkix"
	"github.com/zmap/zcrypto/x509/revocation/ocsp"

	"verifharness/internal/core"
)

// ---- CA certificates made by zcrypto itself (shared by C03 create leg, C04, C05) -------------

type caEntry struct {
	Key  *sigKey
	Cert *x509.Certificate
	DER  []byte
}

var (
	caMu    sync.Mutex
	caCache = map[string]*caEntry{}
	caErr   = map[string]error{}
)

var (
	caNotBefore = time.Date(2015, 6, 1, 12, 0, 0, 0, time.UTC)
	caNotAfter  = time.Date(2045, 6, 1, 12, 0, 0, 0, time.UTC)
)

func fixedReader(label string) *rand.ChaCha8 {
	var seed [32]byte
	copy(seed[:], label)
	return rand.NewChaCha8(seed)
}

// caFor returns a self-signed CA certificate for the key, created with CreateCertificate
// (default signature algorithm) and parsed back. variant selects extra properties.
func caFor(k *sigKey, variant string) (*caEntry, error) {
	id := k.ID + "/" + variant
	caMu.Lock()
	defer caMu.Unlock()
	if e, ok := caCache[id]; ok {
		return e, nil
	}
	if err, ok := caErr[id]; ok {
		return nil, err
	}
	tpl := &x509.Certificate{
		SerialNumber:          big.NewInt(1000 + int64(len(caCache))),
		Subject:               pkix.Name{CommonName: "verif CA " + id, Organization: []string{"verif"}},
		NotBefore:             caNotBefore,
		NotAfter:              caNotAfter,
		BasicConstraintsValid: true,
		IsCA:                  true,
		KeyUsage:              x509.KeyUsageCertSign | x509.KeyUsageCRLSign | x509.KeyUsageDigitalSignature,
		SubjectKeyId:          []byte{0xca, byte(len(caCache)), 1, 2, 3, 4, 5, 6},
	}
	switch variant {
	case "no-skid":
		tpl.SubjectKeyId = nil
	case "no-crlsign":
		tpl.KeyUsage = x509.KeyUsageCertSign
	}
	var der []byte
	var cert *x509.Certificate
	var err error
	if pi := core.Guard(func() {
		der, err = x509.CreateCertificate(fixedReader(id), tpl, tpl, k.Signer().Public(), k.Signer())
		if err == nil {
			cert, err = x509.ParseCertificate(der)
		}
	}); pi != nil {
		err = fmt.Errorf("panic %s", pi.Key)
	}
	if err != nil {
		caErr[id] = err
		return nil, err
	}
	e := &caEntry{Key: k, Cert: cert, DER: der}
	caCache[id] = e
	return e, nil
}

// intermediateFor returns a CA certificate for key k that was ISSUED by the self-signed CA of parent and signed with
// parentAlg (0 = the parent's default): a parsed issuer whose own SignatureAlgorithm field says nothing about its key.
func intermediateFor(parent *sigKey, parentAlg algInfo, k *sigKey) (*caEntry, error) {
	root, err := caFor(parent, "std")
	if err != nil {
		return nil, err
	}
	id := "inter/" + k.ID + "/under/" + parent.ID + "/" + parentAlg.Name
	caMu.Lock()
	defer caMu.Unlock()
	if e, ok := caCache[id]; ok {
		return e, nil
	}
	if err, ok := caErr[id]; ok {
		return nil, err
	}
	tpl := &x509.Certificate{
		SerialNumber:          big.NewInt(5000 + int64(len(caCache))),
		Subject:               pkix.Name{CommonName: "verif intermediate " + id, Organization: []string{"verif"}},
		NotBefore:             caNotBefore,
		NotAfter:              caNotAfter,
		BasicConstraintsValid: true,
		IsCA:                  true,
		KeyUsage:              x509.KeyUsageCertSign | x509.KeyUsageCRLSign | x509.KeyUsageDigitalSignature,
		SubjectKeyId:          []byte{0x1c, byte(len(caCache)), byte(len(caCache) >> 8), 7, 7},
		SignatureAlgorithm:    parentAlg.Algo,
	}
	var der []byte
	var cert *x509.Certificate
	if pi := core.Guard(func() {
		der, err = x509.CreateCertificate(fixedReader(id), tpl, root.Cert, k.Signer().Public(), parent.Signer())
		if err == nil {
			cert, err = x509.ParseCertificate(der)
		}
		if err == nil {
			err = cert.CheckSignatureFrom(root.Cert)
		}
	}); pi != nil {
		err = fmt.Errorf("panic %s", pi.Key)
	}
	if err != nil {
		caErr[id] = err
		return nil, err
	}
	e := &caEntry{Key: k, Cert: cert, DER: der}
	caCache[id] = e
	return e, nil
}

// algFits reports whether the RSA modulus of k can carry the algorithm's encoded message.
func algFits(a algInfo, k *sigKey) bool {
	if k.Family != "RSA" || a.Algo == 0 {
		return true
	}
	need := a.Hash.Size() + 19 + 11
	if a.PSS {
		need = 2*a.Hash.Size() + 2
	}
	return need <= k.Bits/8
}

// ---- create leg -------------------------------------------------------------------------

type createCase struct {
	API  string
	Alg  algInfo // Algo 0 = default
	Key  *sigKey
	Mode string
	// Parent / ParentAlg: the issuer certificate is not self-signed but issued by Parent's CA and signed with ParentAlg
	Parent    *sigKey
	ParentAlg algInfo
}

func createKeys(c *core.Ctx) []*sigKey {
	p := pool()
	if c.Thorough() {
		var out []*sigKey
		out = append(out, p.RSA...)
		out = append(out, p.EC...)
		out = append(out, p.Ed...)
		return out
	}
	// one key per size class / curve
	out := []*sigKey{p.rsaBits(512)[0], p.rsaBits(1024)[0], p.rsaBits(2048)[0], p.RSA[16] /* 3-prime 2048 */}
	for _, cn := range []string{"P-224", "P-256", "P-384", "P-521"} {
		out = append(out, p.ecCurve(cn)[0])
	}
	return append(out, p.Ed[0])
}

var createAPIs = []string{"CreateCertificate", "CreateCertificate(self-signed)", "CreateCertificateRequest", "CreateCRL", "CreateRevocationList", "ocsp.CreateResponse", "ocsp.CreateResponse(delegated)"}

func runCreateLeg(c *core.Ctx) {
	var cases []createCase
	for _, k := range createKeys(c) {
		for _, api := range createAPIs {
			if api == "CreateCRL" {
				cases = append(cases, createCase{API: api, Alg: algByValue(0), Key: k})
				continue
			}
			for _, a := range algTable {
				cases = append(cases, createCase{API: api, Alg: a, Key: k})
			}
		}
	}
	// issuers that are parsed certificates issued by another CA: every parent family x every algorithm valid for the parent
	// (incl. PSS, SHA-1/384/512, MD5) x the issuer's own key type; the object itself is requested with the default algorithm
	p := pool()
	parents := map[string]*sigKey{"RSA": p.RSA[9], "ECDSA": p.EC[5], "Ed25519": p.Ed[1]}
	for _, k := range createKeys(c) {
		for _, a := range algTable {
			if !a.Usable || parents[a.Family] == nil {
				continue
			}
			for _, api := range []string{"CreateCRL", "CreateRevocationList", "ocsp.CreateResponse"} {
				cases = append(cases, createCase{API: api, Alg: algByValue(0), Key: k, Parent: parents[a.Family], ParentAlg: a})
			}
		}
	}
	for i, cc := range cases {
		if i%c.NShards != c.Shard {
			continue
		}
		runCreate(c, cc)
	}
}

var createNow = time.Date(2024, 2, 29, 23, 59, 58, 0, time.UTC)

func runCreate(c *core.Ctx, cc createCase) {
	id := fmt.Sprintf("create/%s/%s/%s", cc.API, cc.Alg.Name, cc.Key.ID)
	input := map[string]any{"api": cc.API, "algorithm": cc.Alg.Name, "algorithm_value": int(cc.Alg.Algo), "key": cc.Key.ID}
	apiLabel := cc.API
	c.Eval(1)
	ca, err := caFor(cc.Key, "std")
	if err == nil && cc.Parent != nil {
		id += "/issuer-under/" + cc.Parent.ID + "/" + cc.ParentAlg.Name
		input["issuer_certificate_issued_by"] = cc.Parent.ID
		input["issuer_certificate_signed_with"] = cc.ParentAlg.Name
		apiLabel += "(issuer-signed-with-" + cc.ParentAlg.Name + ")"
		ca, err = intermediateFor(cc.Parent, cc.ParentAlg, cc.Key)
		if err == nil {
			input["issuer_der"] = core.FullHex(ca.DER)
		}
	}
	if err != nil {
		c.Violation("create:CA-with-default-algorithm-failed:"+cc.Key.Family, err.Error(), id, input)
		return
	}
	rd := fixedReader(id)
	signer := cc.Key.Signer()
	leafKey := pool().EC[5]

	var der []byte
	var cerr error
	var verify func() (tbs, sig []byte, algo x509.SignatureAlgorithm, err error)
	verifierKey := pairOf(cc.Key)

	pi := core.Guard(func() {
		switch cc.API {
		case "CreateCertificate":
			tpl := &x509.Certificate{SerialNumber: big.NewInt(77), Subject: pkix.Name{CommonName: "leaf"}, NotBefore: caNotBefore, NotAfter: caNotAfter,
				SignatureAlgorithm: cc.Alg.Algo, DNSNames: []string{"leaf.example"}}
			der, cerr = x509.CreateCertificate(rd, tpl, ca.Cert, &leafKey.EC.PublicKey, signer)
			verify = func() ([]byte, []byte, x509.SignatureAlgorithm, error) {
				cert, err := x509.ParseCertificate(der)
				if err != nil {
					return nil, nil, 0, fmt.Errorf("parse: %w", err)
				}
				return cert.RawTBSCertificate, cert.Signature, cert.SignatureAlgorithm, cert.CheckSignatureFrom(ca.Cert)
			}
		case "CreateCertificate(self-signed)":
			tpl := &x509.Certificate{SerialNumber: big.NewInt(78), Subject: pkix.Name{CommonName: "self " + cc.Key.ID}, NotBefore: caNotBefore, NotAfter: caNotAfter,
				SignatureAlgorithm: cc.Alg.Algo, BasicConstraintsValid: true, IsCA: true}
			der, cerr = x509.CreateCertificate(rd, tpl, tpl, signer.Public(), signer)
			verify = func() ([]byte, []byte, x509.SignatureAlgorithm, error) {
				cert, err := x509.ParseCertificate(der)
				if err != nil {
					return nil, nil, 0, fmt.Errorf("parse: %w", err)
				}
				if err := cert.CheckSignatureFrom(cert); err != nil {
					return cert.RawTBSCertificate, cert.Signature, cert.SignatureAlgorithm, err
				}
				if !cert.SelfSigned {
					return cert.RawTBSCertificate, cert.Signature, cert.SignatureAlgorithm, fmt.Errorf("parsed certificate is not marked SelfSigned although its signature verifies with its own key")
				}
				return cert.RawTBSCertificate, cert.Signature, cert.SignatureAlgorithm, nil
			}
		case "CreateCertificateRequest":
			tpl := &x509.CertificateRequest{Subject: pkix.Name{CommonName: "csr"}, SignatureAlgorithm: cc.Alg.Algo, DNSNames: []string{"csr.example"}}
			der, cerr = x509.CreateCertificateRequest(rd, tpl, signer)
			verify = func() ([]byte, []byte, x509.SignatureAlgorithm, error) {
				csr, err := x509.ParseCertificateRequest(der)
				if err != nil {
					return nil, nil, 0, fmt.Errorf("parse: %w", err)
				}
				return csr.RawTBSCertificateRequest, csr.Signature, csr.SignatureAlgorithm, csr.CheckSignature()
			}
		case "CreateCRL":
			revoked := []pkix.RevokedCertificate{{SerialNumber: big.NewInt(5), RevocationTime: createNow}}
			der, cerr = ca.Cert.CreateCRL(rd, signer, revoked, createNow, createNow.Add(24*time.Hour))
			verify = func() ([]byte, []byte, x509.SignatureAlgorithm, error) {
				crl, err := x509.ParseCRL(der)
				if err != nil {
					return nil, nil, 0, fmt.Errorf("parse: %w", err)
				}
				return crl.TBSCertList.Raw, crl.SignatureValue.RightAlign(), x509.GetSignatureAlgorithmFromAI(crl.SignatureAlgorithm), ca.Cert.CheckCRLSignature(crl)
			}
		case "CreateRevocationList":
			reason := 1
			tpl := &x509.RevocationList{SignatureAlgorithm: cc.Alg.Algo, Number: big.NewInt(9), ThisUpdate: createNow, NextUpdate: createNow.Add(time.Hour),
				RevokedCertificates: []x509.RevokedCertificate{{SerialNumber: big.NewInt(6), RevocationTime: createNow, ReasonCode: &reason}}}
			der, cerr = x509.CreateRevocationList(rd, tpl, ca.Cert, signer)
			verify = func() ([]byte, []byte, x509.SignatureAlgorithm, error) {
				rl, err := x509.ParseRevocationList(der)
				if err != nil {
					return nil, nil, 0, fmt.Errorf("parse: %w", err)
				}
				return rl.RawTBSRevocationList, rl.Signature, rl.SignatureAlgorithm, rl.CheckSignatureFrom(ca.Cert)
			}
		case "ocsp.CreateResponse":
			tpl := ocsp.Response{Status: ocsp.Good, SerialNumber: big.NewInt(77), ThisUpdate: createNow, NextUpdate: createNow.Add(time.Hour), SignatureAlgorithm: cc.Alg.Algo}
			der, cerr = ocsp.CreateResponse(ca.Cert, ca.Cert, tpl, signer)
			verify = func() ([]byte, []byte, x509.SignatureAlgorithm, error) {
				resp, err := ocsp.ParseResponse(der, ca.Cert)
				if err != nil {
					// distinguish parse problems from signature problems by parsing without an issuer
					if r2, err2 := ocsp.ParseResponse(der, nil); err2 == nil {
						return r2.TBSResponseData, r2.Signature, r2.SignatureAlgorithm, err
					}
					return nil, nil, 0, fmt.Errorf("parse: %w", err)
				}
				return resp.TBSResponseData, resp.Signature, resp.SignatureAlgorithm, resp.CheckSignatureFrom(ca.Cert)
			}
		case "ocsp.CreateResponse(delegated)":
			// responder certificate issued by the CA for the same key family (the CA key of a sibling pool key)
			rk := delegatedKey(cc.Key)
			rtpl := &x509.Certificate{SerialNumber: big.NewInt(4711), Subject: pkix.Name{CommonName: "ocsp responder " + rk.ID}, NotBefore: caNotBefore, NotAfter: caNotAfter,
				KeyUsage: x509.KeyUsageDigitalSignature, ExtKeyUsage: []x509.ExtKeyUsage{x509.ExtKeyUsageOcspSigning}}
			rder, err := x509.CreateCertificate(fixedReader(id+"/responder"), rtpl, ca.Cert, rk.Signer().Public(), signer)
			if err != nil {
				cerr = fmt.Errorf("responder certificate: %w", err)
				return
			}
			rcert, err := x509.ParseCertificate(rder)
			if err != nil {
				cerr = fmt.Errorf("responder certificate parse: %w", err)
				return
			}
			verifierKey = pairOf(rk)
			tpl := ocsp.Response{Status: ocsp.Revoked, RevokedAt: createNow, RevocationReason: 1, SerialNumber: big.NewInt(77), ThisUpdate: createNow, NextUpdate: createNow.Add(time.Hour),
				SignatureAlgorithm: cc.Alg.Algo, Certificate: rcert}
			der, cerr = ocsp.CreateResponse(ca.Cert, rcert, tpl, rk.Signer())
			verify = func() ([]byte, []byte, x509.SignatureAlgorithm, error) {
				resp, err := ocsp.ParseResponse(der, ca.Cert)
				if err != nil {
					if r2, err2 := ocsp.ParseResponse(der, nil); err2 == nil {
						return r2.TBSResponseData, r2.Signature, r2.SignatureAlgorithm, err
					}
					return nil, nil, 0, fmt.Errorf("parse: %w", err)
				}
				if resp.Certificate == nil {
					return resp.TBSResponseData, resp.Signature, resp.SignatureAlgorithm, fmt.Errorf("embedded responder certificate missing after parsing")
				}
				return resp.TBSResponseData, resp.Signature, resp.SignatureAlgorithm, resp.CheckSignatureFrom(resp.Certificate)
			}
		}
	})
	if pi != nil {
		c.Violation("create:"+cc.API+":"+pi.Key, pi.Value+"\n"+pi.Stack, id, input)
		return
	}
	famOK := cc.Alg.Algo == 0 || (cc.Alg.Family == cc.Key.Family && cc.Alg.Usable)
	if cerr != nil {
		c.Count("create_refused", 1)
		if cc.Parent != nil {
			c.Count("create_refused_with_issued_issuer:"+cc.API+":"+cc.Key.Family+"-under-"+cc.ParentAlg.Name, 1)
		}
		if famOK {
			// matching family, yet refused: legitimate when the key is too small for the encoding, or the API does not offer the scheme
			c.Count("create_refused_matching_family:"+cc.API+":"+cc.Alg.Name, 1)
		}
		return
	}
	input["der"] = core.FullHex(der)
	c.Count("created:"+cc.API, 1)
	if !famOK {
		c.Count("created_with_foreign_family_algorithm:"+cc.API+":"+cc.Alg.Name+":"+cc.Key.Family, 1)
	}
	var tbs, sig []byte
	var palgo x509.SignatureAlgorithm
	var verr error
	if pi := core.Guard(func() { tbs, sig, palgo, verr = verify() }); pi != nil {
		c.Violation("create:"+cc.API+":verify:"+pi.Key, pi.Value+"\n"+pi.Stack, id, input)
		return
	}
	c.Nontrivial(id)
	if verr != nil {
		c.Violation("created-object-fails-own-verification:"+apiLabel+":"+cc.Alg.Name, fmt.Sprintf("signer key %s: %v", cc.Key.ID, verr), id, input)
		return
	}
	c.Count("created_and_verified:"+cc.API, 1)
	if cc.Alg.Algo != 0 && palgo != cc.Alg.Algo {
		c.Count("created_object_reports_other_algorithm_than_requested:"+cc.API, 1)
	}
	// independent view of the same bytes
	if tbs != nil && !effectiveValid(verifierKey, algByValue(palgo), tbs, sig) {
		c.Violation("created-object-invalid-per-reference:"+apiLabel+":"+cc.Alg.Name, fmt.Sprintf("signer key %s: own API accepts, the standard library rejects", cc.Key.ID), id, input)
	}
	if c.WantSample() && cc.Alg.Algo != 0 {
		c.Sample(map[string]any{"api": cc.API, "algorithm": cc.Alg.Name, "key": cc.Key.ID, "der": core.Hex(der)})
	}
}

// delegatedKey picks another pool key of the same family for a delegated OCSP responder.
func delegatedKey(k *sigKey) *sigKey {
	p := pool()
	switch k.Family {
	case "RSA":
		for _, o := range p.RSA {
			if o.Bits == k.Bits && o.ID != k.ID {
				return o
			}
		}
		return p.RSA[9]
	case "ECDSA":
		for _, o := range p.EC {
			if curveName(o.EC.Curve) == curveName(k.EC.Curve) && o.ID != k.ID {
				return o
			}
		}
	case "Ed25519":
		for _, o := range p.Ed {
			if o.ID != k.ID {
				return o
			}
		}
	}
	return k
}

var _ crypto.Signer
