package sigeng

import (
	"bytes"
	stdx509 "crypto/x509"
	"fmt"
	"math/big"
	"math/rand/v2"
	"net"
	"time"

	"github.com/zmap/zcrypto/encoding/asn1"
	"github.com/zmap/zcrypto/x509"
	"github.com/zmap/zcrypto/x509/pkix"

	"verifharness/internal/core"
)

// C05 — CSRs, legacy CRLs and v2 revocation lists round-trip and self-verify.

func init() {
	core.RegisterMeta("C05", core.Meta{
		Rule: "CSR templates (subject from the C22 generator or RawSubject, DNS/email/IP SANs, extra extensions incl. one overriding the SAN, Attributes with and without an extensionRequest attribute " +
			"that collides with the extra extensions, every SignatureAlgorithm valid for the key); legacy Certificate.CreateCRL (0..200 entries, serials up to 2^159, revocation times in both time " +
			"encodings and non-UTC zones, per-entry extensions, issuer parsed / unparsed, with / without SKID); CreateRevocationList (Number 0..2^159-1, entries with ReasonCode nil/0/1..10, user-supplied " +
			"reasonCode extra extension, other entry and list extensions, empty list, every SignatureAlgorithm valid for the key, both time encodings) x RSA / ECDSA P-224..P-521 / Ed25519; " +
			"plus reuse histories (the same CSR template / hand-built CRL issuer / RevocationList template and issuer used for 2-4 creations with one field edited in between, expectation = the harness's model of " +
			"the caller's values at that call) and the documented rejections of CreateRevocationList. non-trivial = object created and parsed with at least one optional element (SAN, extension or entry); distinct by template description",
		MinNontrivial:         1250,
		MinNontrivialThorough: 30000,
		Shards:                16,
		Env:                   []string{"GODEBUG=rsa1024min=0"},
		Assumptions: []string{
			"a CSR cannot carry the critical flag of a requested extension (doc comment in CreateCertificateRequest): extensions are compared by id and value",
			"when the SAN extension is overridden (ExtraExtensions or Attributes) the parsed SAN fields are compared with the overriding bytes' content, not with the template's SAN fields",
			"RevocationList.AuthorityKeyId is not in the statement's list; what the parser puts there is counted, the created extension itself is checked through Go's parser",
			"Go's crypto/x509 ParseCertificateRequest / ParseRevocationList are the differential parsers",
			"inputs may alias each other (entries sharing extension storage, slices with spare capacity, reused templates); what was supplied is captured by deep copy before the call; " +
				"whether a creation API changed its inputs is counted (…_changed_its_input), not asserted",
			"times to the second in UTC; on the wire in Zulu form (RFC 5280 5.1.2.4-6, 'force revocation times to UTC' in CreateCRL), checked on the bytes",
		},
	}, runC05)
}

func runC05(c *core.Ctx) {
	if asn1.AllowPermissiveParsing {
		c.Violation("harness:permissive-parsing-enabled-at-start", "", "", nil)
		return
	}
	r := c.SubRng("c05")
	n := c.PerShard(c.Pick(1100, 30000))
	for i := 0; i < n; i++ {
		runCSRCase(c, r, fmt.Sprintf("csr-%d-%d", c.Shard, i))
	}
	n = c.PerShard(c.Pick(700, 20000))
	for i := 0; i < n; i++ {
		runCRLCase(c, r, fmt.Sprintf("crl-%d-%d", c.Shard, i))
	}
	n = c.PerShard(c.Pick(1100, 30000))
	for i := 0; i < n; i++ {
		runRLCase(c, r, fmt.Sprintf("rl-%d-%d", c.Shard, i))
	}
	runC05Histories(c, c.SubRng("histories"))
	if c.Shard == 0 {
		runRLRejections(c)
	}
	if asn1.AllowPermissiveParsing {
		c.Violation("harness:permissive-parsing-left-enabled", "", "", nil)
	}
}

// ---- shared helpers -------------------------------------------------------------------------

func c05SignerKeys() []*sigKey {
	p := pool()
	return []*sigKey{p.RSA[3], p.RSA[8], p.RSA[0], p.RSA[16], p.EC[0], p.EC[4], p.EC[8], p.EC[12], p.Ed[0], p.Ed[2]}
}

// pickSigAlg returns 0 or an algorithm valid for the key (fits the RSA modulus).
func pickSigAlg(r *rand.Rand, k *sigKey) algInfo {
	if r.IntN(3) == 0 {
		return algInfo{Name: "default"}
	}
	var cands []algInfo
	for _, a := range algTable {
		if a.Usable && a.Family == k.Family {
			if k.Family == "RSA" {
				need := a.Hash.Size() + 19 + 11
				if a.PSS {
					need = 2*a.Hash.Size() + 2
				}
				if need > k.Bits/8 {
					continue
				}
			}
			cands = append(cands, a)
		}
	}
	return cands[r.IntN(len(cands))]
}

func genUnknownExt(r *rand.Rand, arc int) pkix.Extension {
	return pkix.Extension{Id: asn1.ObjectIdentifier{1, 3, 6, 1, 4, 1, 55555, arc, 1 + r.IntN(60)}, Critical: r.IntN(4) == 0, Value: randBytes(r, r.IntN(30))}
}

func extListDesc(exts []pkix.Extension) []extDesc {
	var o []extDesc
	for _, e := range exts {
		o = append(o, extDesc{e.Id.String(), e.Critical, hexs(e.Value)})
	}
	return o
}

func secUTC(t time.Time) time.Time { return t.UTC().Truncate(time.Second) }

// ---- CSR ------------------------------------------------------------------------------------

var oidSAN = asn1.ObjectIdentifier{2, 5, 29, 17}
var oidExtReq = asn1.ObjectIdentifier{1, 2, 840, 113549, 1, 9, 14}

type idValue struct {
	ID    string
	Value []byte
}

func runCSRCase(c *core.Ctx, r *rand.Rand, id string) {
	c.Eval(1)
	keys := c05SignerKeys()
	k := keys[r.IntN(len(keys))]
	alg := pickSigAlg(r, k)
	t := &x509.CertificateRequest{SignatureAlgorithm: alg.Algo}
	desc := map[string]any{"object": "CSR", "key": k.ID, "signature_algorithm": alg.Name}
	optional := 0

	t.Subject = genName(r, nameOpts{Sparse: true, NeverEmpty: r.IntN(6) != 0}, nil)
	desc["subject"] = describeName(&t.Subject)
	wantName := &t.Subject
	if r.IntN(6) == 0 {
		n := genName(r, nameOpts{Sparse: true, NoExtra: true, NeverEmpty: true}, nil)
		if der, err := asn1.Marshal(n.ToRDNSequence()); err == nil {
			t.RawSubject = der
			wantName = &n
			desc["raw_subject_hex"] = hexs(der)
			optional++
		}
	}
	if r.IntN(2) == 0 {
		t.DNSNames = genHosts(r, 3)
		desc["dns"] = t.DNSNames
	}
	if r.IntN(4) == 0 {
		t.EmailAddresses = genEmails(r, 2)
		desc["email"] = t.EmailAddresses
	}
	if r.IntN(3) == 0 {
		var hx []string
		for i := 0; i < 1+r.IntN(3); i++ {
			ip := genIP(r)
			t.IPAddresses = append(t.IPAddresses, ip)
			hx = append(hx, hexs(ip))
		}
		desc["ips_hex"] = hx
	}
	hasSANFields := len(t.DNSNames)+len(t.EmailAddresses)+len(t.IPAddresses) > 0
	if hasSANFields {
		optional++
	}
	// extra extensions
	sanOverride := []byte(nil)
	if r.IntN(3) == 0 {
		used := map[string]bool{}
		for i := 0; i < 1+r.IntN(3); i++ {
			e := genUnknownExt(r, 5)
			if r.IntN(5) == 0 {
				e = pkix.Extension{Id: oidSAN, Value: derSeq(tlv(0x82, []byte("extra-override.example")), tlv(0x87, []byte{192, 0, 2, 1}))}
			}
			if used[e.Id.String()] {
				continue
			}
			used[e.Id.String()] = true
			if e.Id.Equal(oidSAN) {
				sanOverride = e.Value
			}
			t.ExtraExtensions = append(t.ExtraExtensions, e)
		}
		desc["extra_extensions"] = extListDesc(t.ExtraExtensions)
		optional++
	}
	// attributes
	var attrExts []idValue // extensions requested through Attributes (they take priority)
	otherAttrs := 0
	if r.IntN(3) == 0 {
		if r.IntN(3) != 0 {
			// an extensionRequest attribute; sometimes colliding with an extra extension or the SAN
			var atvs []pkix.AttributeTypeAndValue
			usedA := map[string]bool{}
			for i := 0; i < 1+r.IntN(2); i++ {
				var oid asn1.ObjectIdentifier
				val := randBytes(r, 1+r.IntN(20))
				switch {
				case len(t.ExtraExtensions) > 0 && r.IntN(2) == 0:
					oid = t.ExtraExtensions[r.IntN(len(t.ExtraExtensions))].Id
					if oid.Equal(oidSAN) {
						val = derSeq(tlv(0x82, []byte("attribute-override.example")))
					}
				case r.IntN(4) == 0:
					oid = oidSAN
					val = derSeq(tlv(0x82, []byte("attribute-override.example")))
				default:
					oid = genUnknownExt(r, 6).Id
				}
				if usedA[oid.String()] {
					continue
				}
				usedA[oid.String()] = true
				atvs = append(atvs, pkix.AttributeTypeAndValue{Type: oid, Value: val})
				attrExts = append(attrExts, idValue{oid.String(), val})
			}
			t.Attributes = append(t.Attributes, pkix.AttributeTypeAndValueSET{Type: oidExtReq, Value: [][]pkix.AttributeTypeAndValue{atvs}})
		}
		if r.IntN(2) == 0 {
			// an unrelated attribute (string valued)
			t.Attributes = append(t.Attributes, pkix.AttributeTypeAndValueSET{Type: asn1.ObjectIdentifier{1, 3, 6, 1, 4, 1, 55555, 7, 1},
				Value: [][]pkix.AttributeTypeAndValue{{{Type: asn1.ObjectIdentifier{2, 5, 4, 3}, Value: "attr value"}}}})
			otherAttrs++
		}
		var ad []any
		for _, a := range attrExts {
			ad = append(ad, map[string]string{"oid": a.ID, "value_hex": hexs(a.Value)})
		}
		desc["attribute_extension_requests"] = ad
		desc["other_attributes"] = otherAttrs
		optional++
	}

	// ---- expected extension list: attribute-requested ones first, then generated SAN, then extras, minus those the attribute already names
	inAttr := map[string]bool{}
	var wantExts []idValue
	for _, a := range attrExts {
		inAttr[a.ID] = true
		wantExts = append(wantExts, a)
	}
	var generatedSAN []byte
	if hasSANFields && sanOverride == nil {
		// written independently of marshalSANs: DNS, then email, then IPs (IPv4 always in four bytes)
		var items [][]byte
		for _, d := range t.DNSNames {
			items = append(items, tlv(0x82, []byte(d)))
		}
		for _, e := range t.EmailAddresses {
			items = append(items, tlv(0x81, []byte(e)))
		}
		for _, ip := range t.IPAddresses {
			b := []byte(ip)
			if v4 := ip.To4(); v4 != nil {
				b = v4
			}
			items = append(items, tlv(0x87, b))
		}
		generatedSAN = derSeq(items...)
		if !inAttr[oidSAN.String()] {
			wantExts = append(wantExts, idValue{oidSAN.String(), generatedSAN})
		}
	}
	for _, e := range t.ExtraExtensions {
		if !inAttr[e.Id.String()] {
			wantExts = append(wantExts, idValue{e.Id.String(), e.Value})
		}
	}
	if len(attrExts) > 0 && !hasSANFields && len(t.ExtraExtensions) == 0 {
		// nothing to merge: the attribute is copied as it is
		wantExts = append([]idValue(nil), attrExts...)
	}

	// aliasing / reuse: slices with spare capacity (an append inside the library then writes into the caller's array), the same
	// template used twice (the second request is the one that is checked). Supplied values are captured by copy before the call.
	for i := range wantExts {
		wantExts[i].Value = append([]byte{}, wantExts[i].Value...)
	}
	wantDNS, wantEmail := append([]string(nil), t.DNSNames...), append([]string(nil), t.EmailAddresses...)
	var wantIPs []net.IP
	for _, ip := range t.IPAddresses {
		wantIPs = append(wantIPs, append(net.IP(nil), ip...))
	}
	extrasBefore := cloneExts(t.ExtraExtensions)
	attrsBefore := fmt.Sprint(t.Attributes)
	if r.IntN(4) == 0 {
		if len(t.ExtraExtensions) > 0 {
			t.ExtraExtensions = append(make([]pkix.Extension, 0, len(t.ExtraExtensions)+2), t.ExtraExtensions...)
		}
		for i := range t.Attributes {
			for j := range t.Attributes[i].Value {
				v := t.Attributes[i].Value[j]
				t.Attributes[i].Value[j] = append(make([]pkix.AttributeTypeAndValue, 0, len(v)+3), v...)
			}
		}
		desc["aliasing"] = "ExtraExtensions and attribute value slices have spare capacity"
		if r.IntN(2) == 0 {
			desc["template_reused"] = true
			core.Guard(func() { _, _ = x509.CreateCertificateRequest(detReader(r), t, k.Signer()) })
		}
		c.Count("csr_with_spare_capacity_or_reused_template", 1)
	}
	input := map[string]any{"template": desc}
	var der []byte
	var err error
	if pi := core.Guard(func() { der, err = x509.CreateCertificateRequest(detReader(r), t, k.Signer()) }); pi != nil {
		c.Violation("csr-roundtrip:create:"+pi.Key, pi.Value+"\n"+pi.Stack, id, input)
		return
	}
	if err != nil {
		c.Violation("csr-roundtrip:create-failed:"+normErr(err), err.Error(), id, input)
		return
	}
	input["der"] = core.FullHex(der)
	if sameExts(t.ExtraExtensions, extrasBefore) && fmt.Sprint(t.Attributes) == attrsBefore && sameStrings(t.DNSNames, wantDNS) && sameStrings(t.EmailAddresses, wantEmail) && sameIPs(t.IPAddresses, wantIPs) {
		c.Count("csr_create_left_its_input_unchanged", 1)
	} else {
		c.Count("csr_create_changed_its_input", 1) // known on the unchanged tree: requested extensions are appended to the caller's extensionRequest attribute
	}
	var got *x509.CertificateRequest
	if pi := core.Guard(func() { got, err = x509.ParseCertificateRequest(der) }); pi != nil {
		c.Violation("csr-roundtrip:parse:"+pi.Key, pi.Value+"\n"+pi.Stack, id, input)
		return
	}
	if err != nil {
		c.Violation("csr-roundtrip:parse-failed:"+normErr(err), err.Error(), id, input)
		return
	}
	viol := func(field, format string, a ...any) {
		c.Violation("csr-roundtrip:field:"+field, fmt.Sprintf(format, a...), id, input)
	}
	for _, m := range compareName(wantName, &got.Subject) {
		viol("Subject."+fieldLabel(m), "%s", m)
	}
	if len(t.RawSubject) > 0 && !bytes.Equal(got.RawSubject, t.RawSubject) {
		viol("RawSubject", "want %x got %x", t.RawSubject, got.RawSubject)
	}
	if got.Version != 0 {
		viol("Version", "got %d", got.Version)
	}
	if !publicKeyMatches(k, got.PublicKey) {
		viol("PublicKey", "parsed %T differs from the signer key %s", got.PublicKey, k.ID)
	}
	// extensions in order, by id and value
	if len(got.Extensions) != len(wantExts) {
		viol("Extensions", "want %d extensions %v got %d %v", len(wantExts), idList(wantExts), len(got.Extensions), extListDesc(got.Extensions))
	} else {
		for i, w := range wantExts {
			g := got.Extensions[i]
			if g.Id.String() != w.ID || !bytes.Equal(g.Value, w.Value) {
				viol("Extensions", "position %d: want %s=%x got %s=%x", i, w.ID, w.Value, g.Id, g.Value)
				break
			}
			if g.Critical {
				c.Count("csr_parsed_extension_marked_critical", 1)
			}
		}
	}
	// SAN fields: from the effective SAN extension
	var effSAN []byte
	for _, w := range wantExts {
		if w.ID == oidSAN.String() {
			effSAN = w.Value
		}
	}
	switch {
	case effSAN == nil:
		if len(got.DNSNames)+len(got.EmailAddresses)+len(got.IPAddresses) != 0 {
			viol("SAN", "no SAN requested, parsed %q %q %v", got.DNSNames, got.EmailAddresses, got.IPAddresses)
		}
	case bytes.Equal(effSAN, generatedSAN):
		if !sameStrings(got.DNSNames, wantDNS) {
			viol("DNSNames", "want %q got %q", wantDNS, got.DNSNames)
		}
		if !sameStrings(got.EmailAddresses, wantEmail) {
			viol("EmailAddresses", "want %q got %q", wantEmail, got.EmailAddresses)
		}
		if !sameIPs(got.IPAddresses, wantIPs) {
			viol("IPAddresses", "want %v got %v", wantIPs, got.IPAddresses)
		}
	default:
		c.Count("csr_san_overridden", 1)
		wantDNS := "extra-override.example"
		if inAttr[oidSAN.String()] {
			wantDNS = "attribute-override.example"
		}
		if len(got.DNSNames) != 1 || got.DNSNames[0] != wantDNS {
			viol("DNSNames", "overriding SAN carries %q, parsed %q", wantDNS, got.DNSNames)
		}
	}
	if alg.Algo != 0 && got.SignatureAlgorithm != alg.Algo {
		viol("SignatureAlgorithm", "requested %v parsed %v", alg.Algo, got.SignatureAlgorithm)
	}
	if len(got.Attributes) < otherAttrs {
		c.Count("csr_unrelated_attribute_not_reported", 1)
	}
	if err := got.CheckSignature(); err != nil {
		c.Violation("csr-roundtrip:self-verify:"+alg.Name+":"+k.Family, err.Error(), id, input)
	}
	// differential
	if g, err := stdx509.ParseCertificateRequest(der); err != nil {
		c.Violation("csr-differential:go-rejects:"+normErr(err), err.Error(), id, input)
	} else {
		if !bytes.Equal(g.RawSubject, got.RawSubject) || !bytes.Equal(g.RawTBSCertificateRequest, got.RawTBSCertificateRequest) || !bytes.Equal(g.Signature, got.Signature) ||
			!bytes.Equal(g.RawSubjectPublicKeyInfo, got.RawSubjectPublicKeyInfo) {
			c.Violation("csr-differential:RawParts", "raw subject / TBS / SPKI / signature differ between the parsers", id, input)
		}
		if !sameStrings(g.DNSNames, got.DNSNames) || !sameStrings(g.EmailAddresses, got.EmailAddresses) || !sameIPs(g.IPAddresses, got.IPAddresses) {
			c.Violation("csr-differential:SAN", fmt.Sprintf("go %q %q %v zcrypto %q %q %v", g.DNSNames, g.EmailAddresses, g.IPAddresses, got.DNSNames, got.EmailAddresses, got.IPAddresses), id, input)
		}
		same := len(g.Extensions) == len(got.Extensions)
		for i := 0; same && i < len(g.Extensions); i++ {
			same = g.Extensions[i].Id.String() == got.Extensions[i].Id.String() && bytes.Equal(g.Extensions[i].Value, got.Extensions[i].Value)
		}
		if !same {
			c.Violation("csr-differential:Extensions", fmt.Sprintf("go %d extensions, zcrypto %d", len(g.Extensions), len(got.Extensions)), id, input)
		}
	}
	c.Count("csr_created", 1)
	c.Count("csr_sigalg:"+alg.Name, 1)
	if len(attrExts) > 0 {
		c.Count("csr_with_extension_request_attribute", 1)
	}
	if optional > 0 {
		c.Nontrivial(fmt.Sprint(desc))
	}
	if c.WantSample() && optional >= 3 {
		c.Sample(map[string]any{"template": desc, "der": core.Hex(der)})
	}
}

func idList(v []idValue) []string {
	var o []string
	for _, x := range v {
		o = append(o, x.ID)
	}
	return o
}

// ---- revocation entries ---------------------------------------------------------------------

func genRevTime(r *rand.Rand) time.Time {
	if r.IntN(6) == 0 {
		return genTime(r, 2050, 2120) // GeneralizedTime
	}
	return genTime(r, 1990, 2049)
}

func genEntryCount(r *rand.Rand) int {
	switch c := r.IntN(10); {
	case c < 2:
		return 0
	case c < 7:
		return 1 + r.IntN(5)
	case c < 9:
		return 6 + r.IntN(40)
	default:
		return 100 + r.IntN(101)
	}
}

var oidReasonCode = asn1.ObjectIdentifier{2, 5, 29, 21}
var oidInvalidityDate = asn1.ObjectIdentifier{2, 5, 29, 24}

// ---- legacy CRL -----------------------------------------------------------------------------

func runCRLCase(c *core.Ctx, r *rand.Rand, id string) {
	c.Eval(1)
	keys := c05SignerKeys()
	k := keys[r.IntN(len(keys))]
	desc := map[string]any{"object": "CRL", "key": k.ID}
	variant := "std"
	if r.IntN(4) == 0 {
		variant = "no-skid"
	}
	ca, err := caFor(k, variant)
	if err == nil && variant == "std" && r.IntN(2) == 0 {
		// a parsed issuer that was itself issued by another CA (any family) with any algorithm valid for that parent
		parent := keys[r.IntN(len(keys))]
		palg := pickSigAlg(r, parent)
		ca, err = intermediateFor(parent, palg, k)
		variant = "issued-by/" + parent.ID + "/" + palg.Name
		c.Count("crl_issuer_is_an_issued_certificate", 1)
	}
	if err != nil {
		c.Violation("crl-roundtrip:CA-with-default-algorithm-failed:"+k.Family, err.Error(), id, desc)
		return
	}
	issuer := ca.Cert
	issuerMode := "parsed"
	if r.IntN(3) == 0 {
		// an unparsed issuer: Subject from the generator, optional SKID
		issuerMode = "unparsed"
		issuer = &x509.Certificate{Subject: genName(r, nameOpts{Sparse: true, NeverEmpty: true}, nil)}
		if r.IntN(2) == 0 {
			issuer.SubjectKeyId = randBytes(r, 1+r.IntN(20))
		}
		desc["issuer_subject"] = describeName(&issuer.Subject)
	}
	desc["issuer"] = issuerMode + "/" + variant
	desc["issuer_skid"] = hexs(issuer.SubjectKeyId)
	n := genEntryCount(r)
	revoked := make([]pkix.RevokedCertificate, n)
	var ed []any
	for i := range revoked {
		revoked[i].SerialNumber = genSerial(r)
		revoked[i].RevocationTime = genRevTime(r)
		if r.IntN(4) == 0 {
			for j := 0; j < 1+r.IntN(2); j++ {
				e := genUnknownExt(r, 8)
				e.Id = append(asn1.ObjectIdentifier(nil), e.Id...)
				e.Id[len(e.Id)-1] = 100*j + e.Id[len(e.Id)-1] // distinct ids inside one entry
				revoked[i].Extensions = append(revoked[i].Extensions, e)
			}
			if r.IntN(3) == 0 {
				revoked[i].Extensions = append(revoked[i].Extensions, pkix.Extension{Id: oidReasonCode, Value: []byte{0x0a, 0x01, byte(1 + r.IntN(6))}})
			}
		}
		if i < 8 {
			ed = append(ed, map[string]any{"serial": revoked[i].SerialNumber.Text(16), "time": revoked[i].RevocationTime.Format(time.RFC3339Nano), "extensions": extListDesc(revoked[i].Extensions)})
		}
	}
	// aliasing between inputs: entries sharing one Extensions backing array, the list itself with spare capacity
	if n >= 2 && r.IntN(4) == 0 {
		arr := make([]pkix.Extension, 4)
		for j := range arr {
			e := genUnknownExt(r, 8)
			e.Id = append(asn1.ObjectIdentifier(nil), e.Id...)
			e.Id[len(e.Id)-1] += 1000 * (j + 1)
			arr[j] = e
		}
		for i := range revoked {
			if i < 12 || r.IntN(2) == 0 {
				off := r.IntN(3)
				revoked[i].Extensions = arr[off : off+r.IntN(4-off+1)]
				if len(revoked[i].Extensions) == 0 {
					revoked[i].Extensions = nil
				}
			}
		}
		revoked = append(make([]pkix.RevokedCertificate, 0, n+3), revoked...)
		desc["aliasing"] = "entries share windows of one extension array; list has spare capacity"
		c.Count("crl_with_entries_sharing_extension_storage", 1)
	}
	wantRevoked := cloneRevokedV1(revoked) // what was supplied; the oracle below only looks at this copy
	desc["entries"] = n
	desc["first_entries"] = ed
	now := genRevTime(r)
	expiry := now.Add(time.Duration(1+r.IntN(400*24)) * time.Hour)
	desc["this_update"], desc["next_update"] = now.Format(time.RFC3339Nano), expiry.Format(time.RFC3339Nano)
	input := map[string]any{"template": desc}

	var der []byte
	if pi := core.Guard(func() { der, err = issuer.CreateCRL(detReader(r), k.Signer(), revoked, now, expiry) }); pi != nil {
		c.Violation("crl-roundtrip:create:"+pi.Key, pi.Value+"\n"+pi.Stack, id, input)
		return
	}
	if err != nil {
		c.Violation("crl-roundtrip:create-failed:"+normErr(err), err.Error(), id, input)
		return
	}
	input["der"] = core.FullHex(der)
	if sameRevokedV1(revoked, wantRevoked) {
		c.Count("crl_create_left_its_input_unchanged", 1)
	} else {
		c.Count("crl_create_changed_its_input", 1)
	}
	var got *pkix.CertificateList
	if pi := core.Guard(func() { got, err = x509.ParseCRL(der) }); pi != nil {
		c.Violation("crl-roundtrip:parse:"+pi.Key, pi.Value+"\n"+pi.Stack, id, input)
		return
	}
	if err != nil {
		c.Violation("crl-roundtrip:parse-failed:"+normErr(err), err.Error(), id, input)
		return
	}
	viol := func(field, format string, a ...any) {
		c.Violation("crl-roundtrip:field:"+field, fmt.Sprintf(format, a...), id, input)
	}
	tbs := got.TBSCertList
	// issuer RDNs
	var gi pkix.Name
	gi.FillFromRDNSequence(&tbs.Issuer)
	if issuerMode == "parsed" {
		if !rdnsEqual(tbs.Issuer, issuer.Subject.ToRDNSequence()) {
			viol("Issuer", "want %v got %v", issuer.Subject.ToRDNSequence(), tbs.Issuer)
		}
	} else {
		for _, m := range compareName(&issuer.Subject, &gi) {
			viol("Issuer."+fieldLabel(m), "%s", m)
		}
	}
	if !tbs.ThisUpdate.Equal(secUTC(now)) {
		viol("ThisUpdate", "want %s got %s", secUTC(now), tbs.ThisUpdate)
	}
	if !tbs.NextUpdate.Equal(secUTC(expiry)) {
		viol("NextUpdate", "want %s got %s", secUTC(expiry), tbs.NextUpdate)
	}
	if tbs.Version != 1 {
		viol("Version", "got %d, CreateCRL documents a v2 list (version field 1)", tbs.Version)
	}
	if len(tbs.RevokedCertificates) != n {
		viol("RevokedCertificates", "want %d entries got %d", n, len(tbs.RevokedCertificates))
	} else {
		for i, w := range wantRevoked {
			g := tbs.RevokedCertificates[i]
			if g.SerialNumber == nil || g.SerialNumber.Cmp(w.SerialNumber) != 0 {
				viol("RevokedCertificates.SerialNumber", "entry %d: want %x got %x", i, w.SerialNumber, g.SerialNumber)
				break
			}
			if !g.RevocationTime.Equal(secUTC(w.RevocationTime)) {
				viol("RevokedCertificates.RevocationTime", "entry %d: want %s got %s", i, secUTC(w.RevocationTime), g.RevocationTime)
				break
			}
			if !sameExts(g.Extensions, w.Extensions) {
				viol("RevokedCertificates.Extensions", "entry %d: want %v got %v", i, extListDesc(w.Extensions), extListDesc(g.Extensions))
				break
			}
		}
	}
	// RFC 5280 5.1.2.4-5.1.2.6 (and the "force revocation times to UTC" comment in CreateCRL): times are written in
	// Zulu form, UTCTime through 2049 and GeneralizedTime from 2050. Checked on the bytes with the monitor's own writer,
	// because both parsers accept a zone offset and would hide it.
	if !bytes.Contains(der, cat(derTime(now), derTime(expiry))) {
		viol("encoding:update-times-not-utc-zulu", "thisUpdate/nextUpdate are not encoded as %x %x", derTime(now), derTime(expiry))
	}
	for i, w := range wantRevoked {
		if !bytes.Contains(der, cat(derInt(w.SerialNumber), derTime(w.RevocationTime))) {
			viol("encoding:revocation-time-not-utc-zulu", "entry %d: serial %x is not followed by %x", i, w.SerialNumber, derTime(w.RevocationTime))
			break
		}
	}
	// authority key id extension iff the issuer has a SKID
	akiWant := []byte(nil)
	if len(issuer.SubjectKeyId) > 0 {
		akiWant = derSeq(tlv(0x80, issuer.SubjectKeyId))
	}
	var akiGot []byte
	for _, e := range tbs.Extensions {
		if e.Id.Equal(asn1.ObjectIdentifier{2, 5, 29, 35}) {
			akiGot = e.Value
		}
	}
	if !bytes.Equal(akiGot, akiWant) {
		viol("AuthorityKeyId", "want %x got %x", akiWant, akiGot)
	}
	if err := ca.Cert.CheckCRLSignature(got); err != nil {
		c.Violation("crl-roundtrip:verify:CheckCRLSignature:"+k.Family, err.Error(), id, input)
	}
	// differential
	if g, err := stdx509.ParseRevocationList(der); err != nil {
		c.Violation("crl-differential:go-rejects:"+normErr(err), err.Error(), id, input)
	} else {
		if !g.ThisUpdate.Equal(tbs.ThisUpdate) || !g.NextUpdate.Equal(tbs.NextUpdate) {
			c.Violation("crl-differential:Updates", fmt.Sprintf("go %s %s zcrypto %s %s", g.ThisUpdate, g.NextUpdate, tbs.ThisUpdate, tbs.NextUpdate), id, input)
		}
		if len(g.RevokedCertificateEntries) != len(tbs.RevokedCertificates) {
			c.Violation("crl-differential:Entries", fmt.Sprintf("go %d zcrypto %d", len(g.RevokedCertificateEntries), len(tbs.RevokedCertificates)), id, input)
		} else {
			for i, e := range g.RevokedCertificateEntries {
				z := tbs.RevokedCertificates[i]
				if e.SerialNumber.Cmp(z.SerialNumber) != 0 || !e.RevocationTime.Equal(z.RevocationTime) {
					c.Violation("crl-differential:Entries", fmt.Sprintf("entry %d: go %x %s zcrypto %x %s", i, e.SerialNumber, e.RevocationTime, z.SerialNumber, z.RevocationTime), id, input)
					break
				}
			}
		}
		if !bytes.Equal(g.RawTBSRevocationList, tbs.Raw) {
			c.Violation("crl-differential:RawTBS", "TBS bytes differ between the parsers", id, input)
		}
	}
	c.Count("crl_created", 1)
	c.Count("crl_entries", n)
	c.Max("crl_entries_in_one_list", n)
	if n > 0 || len(issuer.SubjectKeyId) > 0 {
		c.Nontrivial(fmt.Sprint(desc))
	}
}

func cloneRevokedV1(in []pkix.RevokedCertificate) []pkix.RevokedCertificate {
	o := make([]pkix.RevokedCertificate, len(in))
	for i, rc := range in {
		o[i] = pkix.RevokedCertificate{SerialNumber: new(big.Int).Set(rc.SerialNumber), RevocationTime: rc.RevocationTime, Extensions: cloneExts(rc.Extensions)}
	}
	return o
}

func sameRevokedV1(a, b []pkix.RevokedCertificate) bool {
	if len(a) != len(b) {
		return false
	}
	for i := range a {
		if a[i].SerialNumber.Cmp(b[i].SerialNumber) != 0 || !a[i].RevocationTime.Equal(b[i].RevocationTime) || !sameExts(a[i].Extensions, b[i].Extensions) {
			return false
		}
	}
	return true
}

func sameExts(a, b []pkix.Extension) bool {
	if len(a) != len(b) {
		return false
	}
	for i := range a {
		if !a[i].Id.Equal(b[i].Id) || a[i].Critical != b[i].Critical || !bytes.Equal(a[i].Value, b[i].Value) {
			return false
		}
	}
	return true
}

// ---- v2 revocation list -----------------------------------------------------------------------

func genCRLNumber(r *rand.Rand) *big.Int {
	switch r.IntN(8) {
	case 0:
		return big.NewInt(0)
	case 1:
		return new(big.Int).Sub(new(big.Int).Lsh(big.NewInt(1), 159), big.NewInt(1)) // 2^159-1: the largest 20-octet value
	case 2:
		return big.NewInt(int64(r.IntN(300)))
	default:
		return genSerial(r)
	}
}

func runRLCase(c *core.Ctx, r *rand.Rand, id string) {
	c.Eval(1)
	keys := c05SignerKeys()
	k := keys[r.IntN(len(keys))]
	alg := pickSigAlg(r, k)
	desc := map[string]any{"object": "RevocationList", "key": k.ID, "signature_algorithm": alg.Name}
	ca, err := caFor(k, "std")
	if err == nil && r.IntN(2) == 0 {
		parent := keys[r.IntN(len(keys))]
		palg := pickSigAlg(r, parent)
		ca, err = intermediateFor(parent, palg, k)
		desc["issuer_issued_by"] = parent.ID + "/" + palg.Name
		c.Count("rl_issuer_is_an_issued_certificate", 1)
	}
	if err != nil {
		c.Violation("rl-roundtrip:CA-with-default-algorithm-failed:"+k.Family, err.Error(), id, desc)
		return
	}
	issuer := ca.Cert
	issuerMode := "parsed"
	var issuerName *pkix.Name
	if r.IntN(3) == 0 {
		issuerMode = "unparsed"
		n := genName(r, nameOpts{Sparse: true, NeverEmpty: true}, nil)
		issuerName = &n
		issuer = &x509.Certificate{Subject: n, SubjectKeyId: randBytes(r, 1+r.IntN(20)), KeyUsage: x509.KeyUsageCRLSign | x509.KeyUsage(r.IntN(512))}
		desc["issuer_subject"] = describeName(&n)
	}
	desc["issuer"] = issuerMode
	desc["issuer_skid"] = hexs(issuer.SubjectKeyId)

	t := &x509.RevocationList{SignatureAlgorithm: alg.Algo, Number: genCRLNumber(r)}
	desc["number"] = t.Number.Text(16)
	t.ThisUpdate = genRevTime(r)
	t.NextUpdate = t.ThisUpdate.Add(time.Duration(1+r.IntN(400*24))*time.Hour + time.Duration(r.IntN(1000))*time.Millisecond)
	desc["this_update"], desc["next_update"] = t.ThisUpdate.Format(time.RFC3339Nano), t.NextUpdate.Format(time.RFC3339Nano)
	n := genEntryCount(r)
	type want struct {
		reason *int
		exts   []pkix.Extension // other extensions, in order
	}
	wants := make([]want, n)
	var ed []any
	for i := 0; i < n; i++ {
		rc := x509.RevokedCertificate{SerialNumber: genSerial(r), RevocationTime: genRevTime(r)}
		reasonDesc := "nil"
		switch x := r.IntN(6); {
		case x == 0:
			z := 0
			rc.ReasonCode = &z
			reasonDesc = "0"
		case x < 4:
			v := 1 + r.IntN(10)
			rc.ReasonCode = &v
			wants[i].reason = &v
			reasonDesc = fmt.Sprint(v)
		}
		if r.IntN(4) == 0 {
			for j := 0; j < 1+r.IntN(2); j++ {
				e := genUnknownExt(r, 8)
				e.Id = append(asn1.ObjectIdentifier(nil), e.Id...)
				e.Id[len(e.Id)-1] += 100 * j
				if r.IntN(3) == 0 && j == 0 {
					// a user-supplied reasonCode extension: must be replaced by the one made from ReasonCode
					rc.ExtraExtensions = append(rc.ExtraExtensions, pkix.Extension{Id: oidReasonCode, Value: []byte{0x0a, 0x01, 0x09}})
				}
				rc.ExtraExtensions = append(rc.ExtraExtensions, e)
				wants[i].exts = append(wants[i].exts, cloneExt(e))
			}
			if r.IntN(4) == 0 {
				e := pkix.Extension{Id: oidInvalidityDate, Value: tlv(tagGenTime, []byte("20200101000000Z"))}
				rc.ExtraExtensions = append(rc.ExtraExtensions, e)
				wants[i].exts = append(wants[i].exts, cloneExt(e))
			}
		}
		_ = reasonDesc
		t.RevokedCertificates = append(t.RevokedCertificates, rc)
	}
	// ---- aliasing between inputs: several entries share one ExtraExtensions backing array (the same slice with or
	// without spare capacity, prefixes of one larger array, overlapping windows) and carry different non-zero reasons.
	// What each entry supplies is captured by deep copy here, before the call.
	var sharedArr, sharedBefore []pkix.Extension
	if n >= 2 && r.IntN(4) == 0 {
		k, spare, mode := r.IntN(3), r.IntN(3), r.IntN(3)
		sharedArr = make([]pkix.Extension, k+2+spare)
		for j := range sharedArr {
			e := genUnknownExt(r, 8)
			e.Id = append(asn1.ObjectIdentifier(nil), e.Id...)
			e.Id[len(e.Id)-1] += 1000 * (j + 1) // distinct ids over the whole array
			sharedArr[j] = e
		}
		if k > 0 && r.IntN(3) == 0 {
			sharedArr[r.IntN(k)] = pkix.Extension{Id: oidReasonCode, Value: []byte{0x0a, 0x01, 0x09}} // user-supplied reason inside the shared slice
		}
		var windows []string
		for i := range t.RevokedCertificates {
			if i >= 12 && r.IntN(2) == 0 {
				continue
			}
			var sl []pkix.Extension
			switch mode {
			case 0:
				sl = sharedArr[: k : k+spare] // the same slice for every entry, cap - len = spare
			case 1:
				sl = sharedArr[:r.IntN(k+3)] // prefixes of different length, capacity reaches the end of the array
			default:
				off := r.IntN(3)
				sl = sharedArr[off : off+k : off+k+r.IntN(spare+1)] // windows, possibly overlapping
			}
			v := 1 + (i+r.IntN(3))%10
			t.RevokedCertificates[i].ExtraExtensions = sl
			t.RevokedCertificates[i].ReasonCode = &v
			w := v
			wants[i] = want{reason: &w}
			for _, e := range sl {
				if !e.Id.Equal(oidReasonCode) {
					wants[i].exts = append(wants[i].exts, cloneExt(e))
				}
			}
			if i < 12 {
				windows = append(windows, fmt.Sprintf("entry%d:len=%d,cap=%d,reason=%d", i, len(sl), cap(sl), v))
			}
		}
		sharedBefore = cloneExts(sharedArr)
		desc["aliasing"] = map[string]any{"mode": []string{"same-slice", "prefixes-of-one-array", "windows-of-one-array"}[mode], "shared_len": k, "spare": spare,
			"array": extListDesc(sharedArr), "entries": windows}
		c.Count("rl_with_entries_sharing_extension_storage", 1)
	}
	for i, rc := range t.RevokedCertificates {
		if i >= 8 {
			break
		}
		ed = append(ed, map[string]any{"serial": rc.SerialNumber.Text(16), "time": rc.RevocationTime.Format(time.RFC3339Nano), "reason": fmtIntPtr(rc.ReasonCode), "extra_extensions": extListDesc(rc.ExtraExtensions)})
	}
	desc["entries"] = n
	desc["first_entries"] = ed
	if r.IntN(4) == 0 {
		for j := 0; j < 1+r.IntN(2); j++ {
			e := genUnknownExt(r, 9)
			e.Id = append(asn1.ObjectIdentifier(nil), e.Id...)
			e.Id[len(e.Id)-1] += 100 * j
			t.ExtraExtensions = append(t.ExtraExtensions, e)
		}
		desc["extra_extensions"] = extListDesc(t.ExtraExtensions)
	}
	input := map[string]any{"template": desc}
	tw := cloneRLTemplate(t) // what was supplied; the oracle below only looks at this copy
	if sharedArr != nil && r.IntN(2) == 0 {
		// the same template used twice: the second list is the one that is checked
		desc["template_reused"] = true
		core.Guard(func() { _, _ = x509.CreateRevocationList(detReader(r), t, issuer, k.Signer()) })
	}

	var der []byte
	if pi := core.Guard(func() { der, err = x509.CreateRevocationList(detReader(r), t, issuer, k.Signer()) }); pi != nil {
		c.Violation("rl-roundtrip:create:"+pi.Key, pi.Value+"\n"+pi.Stack, id, input)
		return
	}
	if err != nil {
		c.Violation("rl-roundtrip:create-failed:"+normErr(err), err.Error(), id, input)
		return
	}
	input["der"] = core.FullHex(der)
	// observation only (the statement is about what parses back): did the call change what the caller passed in?
	if !sameRLTemplate(t, tw) || (sharedArr != nil && !sameExts(sharedArr, sharedBefore)) {
		c.Count("rl_create_changed_its_input", 1)
	} else {
		c.Count("rl_create_left_its_input_unchanged", 1)
	}
	var got *x509.RevocationList
	if pi := core.Guard(func() { got, err = x509.ParseRevocationList(der) }); pi != nil {
		c.Violation("rl-roundtrip:parse:"+pi.Key, pi.Value+"\n"+pi.Stack, id, input)
		return
	}
	if err != nil {
		c.Violation("rl-roundtrip:parse-failed:"+normErr(err), err.Error(), id, input)
		return
	}
	viol := func(field, format string, a ...any) {
		c.Violation("rl-roundtrip:field:"+field, fmt.Sprintf(format, a...), id, input)
	}
	if issuerMode == "parsed" {
		if !bytes.Equal(got.RawIssuer, issuer.RawSubject) {
			viol("RawIssuer", "want %x got %x", issuer.RawSubject, got.RawIssuer)
		}
		if !rdnsEqual(got.Issuer.ToRDNSequence(), issuer.Subject.ToRDNSequence()) {
			viol("Issuer", "want %v got %v", issuer.Subject.ToRDNSequence(), got.Issuer.ToRDNSequence())
		}
	} else {
		for _, m := range compareName(issuerName, &got.Issuer) {
			viol("Issuer."+fieldLabel(m), "%s", m)
		}
	}
	if !got.ThisUpdate.Equal(secUTC(t.ThisUpdate)) {
		viol("ThisUpdate", "want %s got %s", secUTC(t.ThisUpdate), got.ThisUpdate)
	}
	if !got.NextUpdate.Equal(secUTC(t.NextUpdate)) {
		viol("NextUpdate", "want %s got %s", secUTC(t.NextUpdate), got.NextUpdate)
	}
	if got.Number == nil || got.Number.Cmp(tw.Number) != 0 {
		viol("Number", "want %x got %x", tw.Number, got.Number)
	}
	if alg.Algo != 0 && got.SignatureAlgorithm != alg.Algo {
		viol("SignatureAlgorithm", "requested %v parsed %v", alg.Algo, got.SignatureAlgorithm)
	}
	if len(got.RevokedCertificates) != n {
		viol("RevokedCertificates", "want %d entries got %d", n, len(got.RevokedCertificates))
	} else {
	entries:
		for i, w := range tw.RevokedCertificates {
			g := got.RevokedCertificates[i]
			if g.SerialNumber == nil || g.SerialNumber.Cmp(w.SerialNumber) != 0 {
				viol("RevokedCertificates.SerialNumber", "entry %d: want %x got %x", i, w.SerialNumber, g.SerialNumber)
				break
			}
			if !g.RevocationTime.Equal(secUTC(w.RevocationTime)) {
				viol("RevokedCertificates.RevocationTime", "entry %d: want %s got %s", i, secUTC(w.RevocationTime), g.RevocationTime)
				break
			}
			wr := wants[i].reason
			switch {
			case wr == nil && g.ReasonCode != nil:
				viol("RevokedCertificates.ReasonCode", "entry %d: supplied nil/0, parsed %d", i, *g.ReasonCode)
				break entries
			case wr != nil && (g.ReasonCode == nil || *g.ReasonCode != *wr):
				viol("RevokedCertificates.ReasonCode", "entry %d: supplied %d, parsed %v", i, *wr, fmtIntPtr(g.ReasonCode))
				break entries
			}
			// exactly one reasonCode extension iff the reason is non-zero; the others preserved in order
			var others []pkix.Extension
			reasons := 0
			for _, e := range g.Extensions {
				if e.Id.Equal(oidReasonCode) {
					reasons++
					if wr != nil && !bytes.Equal(e.Value, []byte{0x0a, 0x01, byte(*wr)}) {
						viol("RevokedCertificates.ReasonCode", "entry %d: reasonCode extension value %x for reason %d", i, e.Value, *wr)
						break entries
					}
				} else {
					others = append(others, e)
				}
			}
			if (wr == nil && reasons != 0) || (wr != nil && reasons != 1) {
				viol("RevokedCertificates.ReasonCode", "entry %d: %d reasonCode extensions for supplied reason %v", i, reasons, fmtIntPtr(wr))
				break
			}
			if !sameExts(others, wants[i].exts) {
				viol("RevokedCertificates.Extensions", "entry %d: want %v got %v", i, extListDesc(wants[i].exts), extListDesc(others))
				break
			}
		}
	}
	if !bytes.Contains(der, cat(derTime(t.ThisUpdate), derTime(t.NextUpdate))) {
		viol("encoding:update-times-not-utc-zulu", "thisUpdate/nextUpdate are not encoded as %x %x", derTime(t.ThisUpdate), derTime(t.NextUpdate))
	}
	for i, w := range tw.RevokedCertificates {
		if !bytes.Contains(der, cat(derInt(w.SerialNumber), derTime(w.RevocationTime))) {
			viol("encoding:revocation-time-not-utc-zulu", "entry %d: serial %x is not followed by %x", i, w.SerialNumber, derTime(w.RevocationTime))
			break
		}
	}
	// list extensions: AKI, CRL number, then the extras verbatim
	if len(got.Extensions) != 2+len(tw.ExtraExtensions) {
		viol("Extensions", "want %d list extensions got %v", 2+len(tw.ExtraExtensions), extListDesc(got.Extensions))
	} else if !sameExts(got.Extensions[2:], tw.ExtraExtensions) {
		viol("Extensions", "extra list extensions: want %v got %v", extListDesc(tw.ExtraExtensions), extListDesc(got.Extensions[2:]))
	}
	switch {
	case bytes.Equal(got.AuthorityKeyId, issuer.SubjectKeyId):
		c.Count("rl_authority_key_id_is_key_identifier", 1)
	case bytes.Equal(got.AuthorityKeyId, derSeq(tlv(0x80, issuer.SubjectKeyId))):
		c.Count("rl_authority_key_id_is_raw_extension_value", 1)
	default:
		c.Count("rl_authority_key_id_other", 1)
	}
	if err := got.CheckSignatureFrom(ca.Cert); err != nil {
		c.Violation("rl-roundtrip:verify:CheckSignatureFrom:"+alg.Name+":"+k.Family, err.Error(), id, input)
	}
	// differential
	if g, err := stdx509.ParseRevocationList(der); err != nil {
		c.Violation("rl-differential:go-rejects:"+normErr(err), err.Error(), id, input)
	} else {
		if g.Number == nil || g.Number.Cmp(tw.Number) != 0 {
			c.Violation("rl-differential:Number", fmt.Sprintf("go %x template %x", g.Number, tw.Number), id, input)
		}
		if !bytes.Equal(g.AuthorityKeyId, issuer.SubjectKeyId) {
			c.Violation("rl-differential:AuthorityKeyId", fmt.Sprintf("go reads %x from the created list, issuer SKID %x", g.AuthorityKeyId, issuer.SubjectKeyId), id, input)
		}
		if !g.ThisUpdate.Equal(got.ThisUpdate) || !g.NextUpdate.Equal(got.NextUpdate) {
			c.Violation("rl-differential:Updates", "update times differ between the parsers", id, input)
		}
		if len(g.RevokedCertificateEntries) != len(got.RevokedCertificates) {
			c.Violation("rl-differential:Entries", fmt.Sprintf("go %d zcrypto %d", len(g.RevokedCertificateEntries), len(got.RevokedCertificates)), id, input)
		} else {
			for i, e := range g.RevokedCertificateEntries {
				z := got.RevokedCertificates[i]
				zr := 0
				if z.ReasonCode != nil {
					zr = *z.ReasonCode
				}
				if e.SerialNumber.Cmp(z.SerialNumber) != 0 || !e.RevocationTime.Equal(z.RevocationTime) || e.ReasonCode != zr {
					c.Violation("rl-differential:Entries", fmt.Sprintf("entry %d: go (%x,%s,%d) zcrypto (%x,%s,%d)", i, e.SerialNumber, e.RevocationTime, e.ReasonCode, z.SerialNumber, z.RevocationTime, zr), id, input)
					break
				}
			}
		}
		if !bytes.Equal(g.RawTBSRevocationList, got.RawTBSRevocationList) || !bytes.Equal(g.RawIssuer, got.RawIssuer) || !bytes.Equal(g.Signature, got.Signature) {
			c.Violation("rl-differential:RawParts", "raw TBS / issuer / signature differ between the parsers", id, input)
		}
	}
	c.Count("rl_created", 1)
	c.Count("rl_entries", n)
	c.Count("rl_sigalg:"+alg.Name, 1)
	if n > 0 || len(tw.ExtraExtensions) > 0 {
		c.Nontrivial(fmt.Sprint(desc))
	}
	if c.WantSample() && n > 0 && n < 4 {
		c.Sample(map[string]any{"template": desc, "der": core.Hex(der)})
	}
}

func cloneExt(e pkix.Extension) pkix.Extension {
	return pkix.Extension{Id: append(asn1.ObjectIdentifier(nil), e.Id...), Critical: e.Critical, Value: append([]byte{}, e.Value...)}
}

func cloneExts(s []pkix.Extension) []pkix.Extension {
	if s == nil {
		return nil
	}
	o := make([]pkix.Extension, len(s))
	for i, e := range s {
		o[i] = cloneExt(e)
	}
	return o
}

func cloneRLTemplate(t *x509.RevocationList) *x509.RevocationList {
	o := &x509.RevocationList{SignatureAlgorithm: t.SignatureAlgorithm, ThisUpdate: t.ThisUpdate, NextUpdate: t.NextUpdate, ExtraExtensions: cloneExts(t.ExtraExtensions)}
	if t.Number != nil {
		o.Number = new(big.Int).Set(t.Number)
	}
	for _, rc := range t.RevokedCertificates {
		n := x509.RevokedCertificate{SerialNumber: new(big.Int).Set(rc.SerialNumber), RevocationTime: rc.RevocationTime, ExtraExtensions: cloneExts(rc.ExtraExtensions)}
		if rc.ReasonCode != nil {
			v := *rc.ReasonCode
			n.ReasonCode = &v
		}
		o.RevokedCertificates = append(o.RevokedCertificates, n)
	}
	return o
}

func sameRLTemplate(a, b *x509.RevocationList) bool {
	if a.SignatureAlgorithm != b.SignatureAlgorithm || !a.ThisUpdate.Equal(b.ThisUpdate) || !a.NextUpdate.Equal(b.NextUpdate) || (a.Number == nil) != (b.Number == nil) ||
		(a.Number != nil && a.Number.Cmp(b.Number) != 0) || !sameExts(a.ExtraExtensions, b.ExtraExtensions) || len(a.RevokedCertificates) != len(b.RevokedCertificates) {
		return false
	}
	for i := range a.RevokedCertificates {
		x, y := a.RevokedCertificates[i], b.RevokedCertificates[i]
		if x.SerialNumber.Cmp(y.SerialNumber) != 0 || !x.RevocationTime.Equal(y.RevocationTime) || fmtIntPtr(x.ReasonCode) != fmtIntPtr(y.ReasonCode) || !sameExts(x.ExtraExtensions, y.ExtraExtensions) {
			return false
		}
	}
	return true
}

func fmtIntPtr(p *int) string {
	if p == nil {
		return "nil"
	}
	return fmt.Sprint(*p)
}

// runRLRejections: the documented refusals of CreateRevocationList must be errors, not panics, and must not produce a list.
func runRLRejections(c *core.Ctx) {
	k := pool().EC[4]
	ca, err := caFor(k, "std")
	if err != nil {
		return
	}
	good := func() *x509.RevocationList {
		return &x509.RevocationList{Number: big.NewInt(1), ThisUpdate: createNow, NextUpdate: createNow.Add(time.Hour)}
	}
	noSKID, _ := caFor(k, "no-skid")
	noCRLSign, _ := caFor(k, "no-crlsign")
	tooBig := good()
	tooBig.Number = new(big.Int).Lsh(big.NewInt(1), 159) // 2^159 needs 21 octets as an INTEGER
	huge := good()
	huge.Number = new(big.Int).Lsh(big.NewInt(1), 200)
	nilNumber := good()
	nilNumber.Number = nil
	backwards := good()
	backwards.NextUpdate = backwards.ThisUpdate.Add(-time.Second)
	cases := []struct {
		name   string
		tpl    *x509.RevocationList
		issuer *x509.Certificate
	}{
		{"nil-template", nil, ca.Cert}, {"nil-issuer", good(), nil}, {"number-2^159", tooBig, ca.Cert}, {"number-2^200", huge, ca.Cert},
		{"nil-number", nilNumber, ca.Cert}, {"next-update-before-this-update", backwards, ca.Cert},
	}
	if noSKID != nil {
		cases = append(cases, struct {
			name   string
			tpl    *x509.RevocationList
			issuer *x509.Certificate
		}{"issuer-without-skid", good(), noSKID.Cert})
	}
	if noCRLSign != nil {
		cases = append(cases, struct {
			name   string
			tpl    *x509.RevocationList
			issuer *x509.Certificate
		}{"issuer-without-crlsign", good(), noCRLSign.Cert})
	}
	for _, cs := range cases {
		c.Eval(1)
		var der []byte
		var err error
		if pi := core.Guard(func() { der, err = x509.CreateRevocationList(fixedReader(cs.name), cs.tpl, cs.issuer, k.Signer()) }); pi != nil {
			c.Violation("rl-rejection:"+cs.name+":"+pi.Key, pi.Value+"\n"+pi.Stack, "rl-reject-"+cs.name, map[string]any{"case": cs.name})
			continue
		}
		if err == nil {
			c.Violation("rl-rejection:"+cs.name+":accepted", fmt.Sprintf("documented rejection did not happen, %d bytes returned", len(der)), "rl-reject-"+cs.name, map[string]any{"case": cs.name, "der": core.FullHex(der)})
			continue
		}
		c.Count("rl_documented_rejections_observed", 1)
	}
}
