package sigeng

import (
	"fmt"
	"math/rand/v2"
	"net"
	"time"

	"github.com/zmap/zcrypto/encoding/asn1"
	"github.com/zmap/zcrypto/x509"
	"github.com/zmap/zcrypto/x509/pkix"

	"verifharness/internal/core"
)

// Multi-step reuse histories for C04: one template struct (and, for issued certificates, one hand-built parent struct)
// is used for 2-4 creations and edited between them, one field at a time. The harness keeps its own model of what the
// caller has set (never handed to the library); the expectation for creation i is the model at that call. A library that
// caches derived data on the caller's structs (or otherwise lets an earlier call influence a later one) shows up here.

func cloneName(n pkix.Name) pkix.Name {
	o := pkix.Name{CommonName: n.CommonName, SerialNumber: n.SerialNumber}
	for _, f := range nameFields {
		*f.Get(&o) = append([]string(nil), *f.Get(&n)...)
	}
	for _, e := range n.ExtraNames {
		o.ExtraNames = append(o.ExtraNames, pkix.AttributeTypeAndValue{Type: append(asn1.ObjectIdentifier(nil), e.Type...), Value: e.Value})
	}
	return o
}

type histEdit struct {
	Kind string
	Desc any
}

// applyEdit changes one field of the library's template t (or parent p) and the same field of the model m (pm).
func applyEdit(r *rand.Rand, t, m, p, pm *x509.Certificate) histEdit {
	kinds := []string{"Subject", "Subject", "DNSNames", "IPAddresses", "KeyUsage", "Validity", "SerialNumber", "ExtraExtensions", "SubjectKeyId", "EmailAddresses"}
	if p != nil {
		kinds = append(kinds, "ParentSubject", "ParentSubject", "ParentSubject")
	}
	switch k := kinds[r.IntN(len(kinds))]; k {
	case "Subject":
		n := genName(r, nameOpts{Sparse: true, NeverEmpty: true}, nil)
		t.Subject, m.Subject = n, cloneName(n)
		return histEdit{k, describeName(&n)}
	case "ParentSubject":
		n := genName(r, nameOpts{Sparse: true, NeverEmpty: true, NoExtra: true}, nil)
		p.Subject, pm.Subject = n, cloneName(n)
		return histEdit{k, describeName(&n)}
	case "DNSNames":
		d := genHosts(r, 3)
		t.DNSNames, m.DNSNames = d, append([]string(nil), d...)
		return histEdit{k, d}
	case "EmailAddresses":
		d := genEmails(r, 2)
		t.EmailAddresses, m.EmailAddresses = d, append([]string(nil), d...)
		return histEdit{k, d}
	case "IPAddresses":
		var a, b []net.IP
		var hx []string
		for i := 0; i < 1+r.IntN(2); i++ {
			ip := genIP(r)
			a, b = append(a, ip), append(b, append(net.IP(nil), ip...))
			hx = append(hx, hexs(ip))
		}
		t.IPAddresses, m.IPAddresses = a, b
		return histEdit{k, hx}
	case "KeyUsage":
		ku := x509.KeyUsage(1 + r.IntN(511))
		t.KeyUsage, m.KeyUsage = ku, ku
		return histEdit{k, int(ku)}
	case "Validity":
		nb := genTime(r, 1960, 2100)
		na := nb.Add(time.Duration(1+r.IntN(20000)) * time.Hour)
		t.NotBefore, t.NotAfter, m.NotBefore, m.NotAfter = nb, na, nb, na
		return histEdit{k, nb.Format(time.RFC3339) + ".." + na.Format(time.RFC3339)}
	case "SerialNumber":
		s := genSerial(r)
		t.SerialNumber, m.SerialNumber = s, cloneInt(s)
		return histEdit{k, s.Text(16)}
	case "SubjectKeyId":
		id := randBytes(r, 1+r.IntN(20))
		t.SubjectKeyId, m.SubjectKeyId = id, append([]byte(nil), id...)
		return histEdit{k, hexs(id)}
	default: // one more unknown extra extension
		e := pkix.Extension{Id: asn1.ObjectIdentifier{1, 3, 6, 1, 4, 1, 55555, 11, 1000 + len(t.ExtraExtensions)*7 + r.IntN(7)}, Critical: r.IntN(3) == 0, Value: randBytes(r, r.IntN(20))}
		t.ExtraExtensions = append(t.ExtraExtensions, e)
		m.ExtraExtensions = append(m.ExtraExtensions, cloneExt(e))
		return histEdit{"ExtraExtensions", extDesc{e.Id.String(), e.Critical, hexs(e.Value)}}
	}
}

func runCertHistory(c *core.Ctx, r *rand.Rand, idx int) {
	lbl := fmt.Sprintf("hist-%d", idx)
	cs := genCert(c.SubRng(lbl))
	model := genCert(c.SubRng(lbl)).Tpl // same values, separate memory: the caller's view
	if cs.MixedIPRange {
		c.Count("reuse_histories_skipped_mixed_length_ip_range", 1) // counted representation, see Assumptions
		return
	}
	t := cs.Tpl
	t.RawSubject, model.RawSubject, cs.RawName = nil, nil, nil // the caller never sets RawSubject in a history
	cs.Desc.RawSubject = ""
	var p, pm *x509.Certificate
	if cs.Mode != "self-signed" {
		cs.Mode = "issued-unparsed-parent"
		n := genName(r, nameOpts{Sparse: true, NeverEmpty: true, NoExtra: true}, nil)
		p = &x509.Certificate{Subject: n, SubjectKeyId: []byte{1, 2, 3}}
		pm = &x509.Certificate{Subject: cloneName(n), SubjectKeyId: []byte{1, 2, 3}}
	}
	cs.Desc.Mode = cs.Mode
	steps := 2 + r.IntN(3)
	var edits []any
	id := fmt.Sprintf("c04-hist-%d-%d", c.Shard, idx)
	for step := 0; step < steps; step++ {
		if step > 0 {
			e := applyEdit(r, t, model, p, pm)
			edits = append(edits, map[string]any{"before_creation": step + 1, "field": e.Kind, "value": e.Desc})
		}
		c.Eval(1)
		input := map[string]any{"initial_template": cs.Desc, "edits": edits, "creation": step + 1}
		if p != nil {
			input["hand_built_parent_subject_at_this_call"] = describeName(&pm.Subject)
		}
		parentArg := t
		if p != nil {
			parentArg = p
		}
		var der []byte
		var err error
		if pi := core.Guard(func() {
			der, err = x509.CreateCertificate(detReader(r), t, parentArg, cs.SubjectKey.Signer().Public(), cs.SignerKey.Signer())
		}); pi != nil {
			c.Violation("cert-reuse:create:"+pi.Key, pi.Value+"\n"+pi.Stack, id, input)
			return
		}
		if err != nil {
			c.Violation("cert-reuse:create-failed:"+normErr(err), err.Error(), id, input)
			return
		}
		input["der"] = core.FullHex(der)
		got, err := x509.ParseCertificate(der)
		if err != nil {
			c.Violation("cert-reuse:parse-failed:"+normErr(err), err.Error(), id, input)
			return
		}
		view := *cs
		view.Want = model
		var parentSubject *pkix.Name
		if pm != nil {
			parentSubject = &pm.Subject
		}
		for _, mm := range checkCert(&view, parentSubject, nil, got) {
			c.Violation("cert-reuse:field:"+fieldLabel(mm), fmt.Sprintf("creation %d of %d with the same template: %s", step+1, steps, mm), id, input)
		}
		// signature with the signer's key (the hand-built parent has no parsed form)
		if err := x509.CheckSignatureFromKey(cs.SignerKey.ZPub(), got.SignatureAlgorithm, got.RawTBSCertificate, got.Signature); err != nil {
			c.Violation("cert-reuse:signature:"+cs.SignerKey.Family, err.Error(), id, input)
		}
		c.Count("reuse_history_creations", 1)
		if step > 0 {
			c.Nontrivial("hist", fmt.Sprint(cs.Desc), fmt.Sprint(edits))
		}
	}
	c.Count("reuse_histories", 1)
}
