package sigeng

import (
	"crypto"
	stddsa "crypto/dsa"
	"crypto/ecdsa"
	"crypto/ed25519"
	"crypto/elliptic"
	_ "crypto/md5"
	stdrsa "crypto/rsa"
	_ "crypto/sha1"
	_ "crypto/sha256"
	_ "crypto/sha512"
	"fmt"
	"math/big"
	"math/rand/v2"
	"sync"
	"time"

	"golang.org/x/crypto/cryptobyte"
	cbasn1 "golang.org/x/crypto/cryptobyte/asn1"

	zdsa "github.com/zmap/zcrypto/dsa"
	"github.com/zmap/zcrypto/encoding/asn1"
	zrsa "github.com/zmap/zcrypto/rsa"
	"github.com/zmap/zcrypto/x509"

	"verifharness/internal/core"
)

// C03 — signature verification accepts exactly the genuine signatures.
//
// Leg "verify": for every algorithm with a hash × pool keys × messages, a genuine signature is
// produced by an independent signer (Go crypto/*) and by zcrypto's own signer where it has one;
// the tuple (key, algorithm, message, signature) and ~100-1200 mutations of it go through
// CheckSignatureFromKey (plain key), Certificate.CheckSignature (key as parsed from a holder
// certificate) and Certificate.CheckSignatureFrom; each verdict is compared with the Go
// standard-library verifier of the scheme named by the claimed algorithm.
// Leg "create": every (creation API, SignatureAlgorithm, signer key type) pair; what the API
// accepts must parse and verify with the API's own verification function.

func init() {
	core.RegisterMeta("C03", core.Meta{
		Rule: "verify leg: (algorithm with a hash) × pool keys × messages {empty, 1 byte, 1 KiB, random}; genuine signature by Go crypto/* and by zcrypto's signer; mutations of signature " +
			"(bit flips, r/s arithmetic, DER re-encodings, padding forgeries made with the private key, length changes), message, key (same family other key, same modulus other exponent, " +
			"other curve, other family) and claimed algorithm (every enum value); each tuple is checked through CheckSignatureFromKey, Certificate.CheckSignature and CheckSignatureFrom " +
			"against the standard-library verifier. non-trivial = tuple inside the asserted domain (claimed algorithm of the key's family, DSA hash not longer than q); " +
			"distinct by (algorithm, key, message, signer, mutation). create leg: CreateCertificate / CreateCertificateRequest / CreateCRL / CreateRevocationList / ocsp.CreateResponse × " +
			"SignatureAlgorithm 0..16 × RSA, ECDSA P-224..P-521, Ed25519 signer keys; non-trivial = the API accepted the pair (object created)",
		MinNontrivial:         27000,
		MinNontrivialThorough: 1000000,
		Shards:                16,
		Env:                   []string{"GODEBUG=rsa1024min=0"},
		Assumptions: []string{
			"Go's crypto/rsa, crypto/ecdsa (VerifyASN1), crypto/ed25519 and crypto/dsa decide whether a tuple is itself a valid signature",
			"a claimed algorithm whose key family differs from the key's dynamic type is dispatched on the key type by zcrypto; such tuples are counted (label_family_mismatch_*), not asserted",
			"DSA with a hash longer than q is outside the domain (counted)",
			"a mutated tuple that is itself valid but rejected by zcrypto is counted (valid_variant_rejected), the statement does not demand acceptance of signatures not produced by the signer",
			"creation pairs the API refuses with an error are 'not accepted' and only counted",
			"strict parsing (asn1.AllowPermissiveParsing == false)",
		},
		ChildTimeoutQuick:    600,
		ChildTimeoutThorough: 5400,
	}, runC03)
}

// ---- algorithms (table written from RFC 3279 / 4055 / 5758 / 8410 names) --------------------

type algInfo struct {
	Algo   x509.SignatureAlgorithm
	Name   string
	Family string // RSA ECDSA Ed25519 DSA, "" for values without a scheme
	PSS    bool
	Hash   crypto.Hash // 0 = message signed directly
	Usable bool        // has a verification scheme at all
}

var algTable = []algInfo{
	{x509.UnknownSignatureAlgorithm, "Unknown(0)", "", false, 0, false},
	{x509.MD2WithRSA, "MD2-RSA", "RSA", false, 0, false},
	{x509.MD5WithRSA, "MD5-RSA", "RSA", false, crypto.MD5, true},
	{x509.SHA1WithRSA, "SHA1-RSA", "RSA", false, crypto.SHA1, true},
	{x509.SHA256WithRSA, "SHA256-RSA", "RSA", false, crypto.SHA256, true},
	{x509.SHA384WithRSA, "SHA384-RSA", "RSA", false, crypto.SHA384, true},
	{x509.SHA512WithRSA, "SHA512-RSA", "RSA", false, crypto.SHA512, true},
	{x509.DSAWithSHA1, "DSA-SHA1", "DSA", false, crypto.SHA1, true},
	{x509.DSAWithSHA256, "DSA-SHA256", "DSA", false, crypto.SHA256, true},
	{x509.ECDSAWithSHA1, "ECDSA-SHA1", "ECDSA", false, crypto.SHA1, true},
	{x509.ECDSAWithSHA256, "ECDSA-SHA256", "ECDSA", false, crypto.SHA256, true},
	{x509.ECDSAWithSHA384, "ECDSA-SHA384", "ECDSA", false, crypto.SHA384, true},
	{x509.ECDSAWithSHA512, "ECDSA-SHA512", "ECDSA", false, crypto.SHA512, true},
	{x509.SHA256WithRSAPSS, "SHA256-RSAPSS", "RSA", true, crypto.SHA256, true},
	{x509.SHA384WithRSAPSS, "SHA384-RSAPSS", "RSA", true, crypto.SHA384, true},
	{x509.SHA512WithRSAPSS, "SHA512-RSAPSS", "RSA", true, crypto.SHA512, true},
	{x509.Ed25519Sig, "Ed25519", "Ed25519", false, 0, true},
}

func algByValue(a x509.SignatureAlgorithm) algInfo {
	for _, e := range algTable {
		if e.Algo == a {
			return e
		}
	}
	return algInfo{Algo: a, Name: fmt.Sprintf("out-of-range(%d)", int(a))}
}

func digestOf(h crypto.Hash, msg []byte) []byte {
	if h == 0 {
		return msg
	}
	d := h.New()
	d.Write(msg)
	return d.Sum(nil)
}

// ---- public keys in both worlds ------------------------------------------------

// pubPair is one public key as the reference sees it (Std) and as zcrypto sees it (Z: plain
// form; Holder: a certificate parsed by zcrypto whose SubjectPublicKeyInfo is this key).
type pubPair struct {
	ID     string
	Family string
	Std    any
	Z      any
	SPKI   []byte
	QBytes int // DSA: byte length of q

	holderOnce sync.Once
	holder     *x509.Certificate
	holderErr  error
}

var (
	oidRSAEnc   = []int{1, 2, 840, 113549, 1, 1, 1}
	oidDSAKey   = []int{1, 2, 840, 10040, 4, 1}
	oidECKey    = []int{1, 2, 840, 10045, 2, 1}
	oidEdKey    = []int{1, 3, 101, 112}
	oidECDSA256 = []int{1, 2, 840, 10045, 4, 3, 2}
	curveOIDs   = map[string][]int{"P-224": {1, 3, 132, 0, 33}, "P-256": {1, 2, 840, 10045, 3, 1, 7}, "P-384": {1, 3, 132, 0, 34}, "P-521": {1, 3, 132, 0, 35}}
)

func rsaPair(id string, n *big.Int, e int64) *pubPair {
	return &pubPair{ID: id, Family: "RSA",
		Std:  &stdrsa.PublicKey{N: cloneInt(n), E: int(e)},
		Z:    &zrsa.PublicKey{N: cloneInt(n), E: big.NewInt(e)},
		SPKI: derSeq(derSeq(derOID(oidRSAEnc), derNull()), derBitString(derSeq(derInt(n), derSmallInt(e))))}
}

func ecPair(id string, pub *ecdsa.PublicKey) *pubPair {
	pt := elliptic.Marshal(pub.Curve, pub.X, pub.Y)
	return &pubPair{ID: id, Family: "ECDSA", Std: pub, Z: pub,
		SPKI: derSeq(derSeq(derOID(oidECKey), derOID(curveOIDs[curveName(pub.Curve)])), derBitString(pt))}
}

func edPair(id string, pub ed25519.PublicKey) *pubPair {
	return &pubPair{ID: id, Family: "Ed25519", Std: pub, Z: pub, SPKI: derSeq(derSeq(derOID(oidEdKey)), derBitString(pub))}
}

func dsaPair(id string, k *sigKey) *pubPair {
	p := &k.StdDSA.PublicKey
	return &pubPair{ID: id, Family: "DSA", Std: p, Z: &k.ZDSA.PublicKey, QBytes: (p.Q.BitLen() + 7) / 8,
		SPKI: derSeq(derSeq(derOID(oidDSAKey), derSeq(derInt(p.P), derInt(p.Q), derInt(p.G))), derBitString(derInt(p.Y)))}
}

var (
	pairMu    sync.Mutex
	pairCache = map[string]*pubPair{}
)

func pairOf(k *sigKey) *pubPair {
	pairMu.Lock()
	defer pairMu.Unlock()
	if p, ok := pairCache[k.ID]; ok {
		return p
	}
	var p *pubPair
	switch k.Family {
	case "RSA":
		p = rsaPair(k.ID, k.StdRSA.N, int64(k.StdRSA.E))
	case "ECDSA":
		p = ecPair(k.ID, &k.EC.PublicKey)
	case "Ed25519":
		p = edPair(k.ID, k.Ed.Public().(ed25519.PublicKey))
	case "DSA":
		p = dsaPair(k.ID, k)
	}
	pairCache[k.ID] = p
	return p
}

var holderTime = time.Date(2020, 1, 1, 0, 0, 0, 0, time.UTC)

// holderCertDER is a v3 CA certificate around spki, written with the monitor's DER writer. Its
// signature is a placeholder: only the parsed public key and CA bits are used.
func holderCertDER(spki []byte, cn string) []byte {
	name := func(s string) []byte { return derSeq(tlv(tagSet, derATV(oidCN, tagUTF8, s))) }
	sigAlg := derSeq(derOID(oidECDSA256))
	bc := derSeq(derOID([]int{2, 5, 29, 19}), derBool(true), derOctets(derSeq(derBool(true))))
	ku := derSeq(derOID([]int{2, 5, 29, 15}), derBool(true), derOctets(tlv(tagBitString, []byte{0x01, 0x06}))) // keyCertSign | cRLSign
	skid := derSeq(derOID([]int{2, 5, 29, 14}), derOctets(derOctets([]byte{1, 2, 3, 4})))
	tbs := derSeq(derExplicit(0, derSmallInt(2)), derSmallInt(4242), sigAlg, name("holder issuer"),
		derSeq(derTime(holderTime), derTime(holderTime.AddDate(30, 0, 0))), name(cn), spki, derExplicit(3, derSeq(bc, ku, skid)))
	return derSeq(tbs, sigAlg, derBitString([]byte{0x30, 0x06, 0x02, 0x01, 0x01, 0x02, 0x01, 0x01}))
}

func (p *pubPair) Holder() (*x509.Certificate, error) {
	p.holderOnce.Do(func() {
		der := holderCertDER(p.SPKI, "holder "+p.ID)
		if pi := core.Guard(func() { p.holder, p.holderErr = x509.ParseCertificate(der) }); pi != nil {
			p.holderErr = fmt.Errorf("panic: %s", pi.Key)
		}
		if p.holderErr != nil {
			p.holderErr = fmt.Errorf("%w (holder DER %x)", p.holderErr, der)
		}
	})
	return p.holder, p.holderErr
}

// ---- reference verdict --------------------------------------------------------------

// parseRS strictly parses a DER Dss-Sig-Value / ECDSA-Sig-Value.
func parseRS(sig []byte) (r, s *big.Int, ok bool) {
	in := cryptobyte.String(sig)
	var inner cryptobyte.String
	r, s = new(big.Int), new(big.Int)
	if !in.ReadASN1(&inner, cbasn1.SEQUENCE) || !in.Empty() || !inner.ReadASN1Integer(r) || !inner.ReadASN1Integer(s) || !inner.Empty() {
		return nil, nil, false
	}
	return r, s, true
}

// effectiveValid says whether sig is a valid signature over msg under the scheme zcrypto is
// documented to apply: the key's family, the claimed algorithm's hash, PSS iff the claimed
// algorithm is a PSS one. Decided entirely by the Go standard library.
func effectiveValid(p *pubPair, a algInfo, msg, sig []byte) bool {
	if !a.Usable {
		return false
	}
	d := digestOf(a.Hash, msg)
	switch k := p.Std.(type) {
	case *stdrsa.PublicKey:
		if a.PSS {
			return stdrsa.VerifyPSS(k, a.Hash, d, sig, &stdrsa.PSSOptions{SaltLength: stdrsa.PSSSaltLengthEqualsHash}) == nil
		}
		return stdrsa.VerifyPKCS1v15(k, a.Hash, d, sig) == nil
	case *ecdsa.PublicKey:
		return ecdsa.VerifyASN1(k, d, sig)
	case ed25519.PublicKey:
		if len(k) != ed25519.PublicKeySize {
			return false
		}
		return ed25519.Verify(k, d, sig)
	case *stddsa.PublicKey:
		r, s, ok := parseRS(sig)
		if !ok || r.Sign() <= 0 || s.Sign() <= 0 {
			return false
		}
		return stddsa.Verify(k, d, r, s)
	}
	return false
}

// ---- the three verification entry points ------------------------------------------------

type apiCall struct {
	Name string
	Arm  string // which key representation reaches CheckSignatureFromKey
	Run  func(p *pubPair, algo x509.SignatureAlgorithm, msg, sig []byte) error
}

var verifyAPIs = []apiCall{
	{"CheckSignatureFromKey", "plain-key", func(p *pubPair, algo x509.SignatureAlgorithm, msg, sig []byte) error {
		return x509.CheckSignatureFromKey(p.Z, algo, msg, sig)
	}},
	{"Certificate.CheckSignature", "parsed-key", func(p *pubPair, algo x509.SignatureAlgorithm, msg, sig []byte) error {
		h, err := p.Holder()
		if err != nil {
			return errHolder{err}
		}
		return h.CheckSignature(algo, msg, sig)
	}},
	{"Certificate.CheckSignatureFrom", "parsed-key", func(p *pubPair, algo x509.SignatureAlgorithm, msg, sig []byte) error {
		h, err := p.Holder()
		if err != nil {
			return errHolder{err}
		}
		child := &x509.Certificate{RawTBSCertificate: msg, Signature: sig, SignatureAlgorithm: algo, RawIssuer: h.RawSubject}
		return child.CheckSignatureFrom(h)
	}},
}

type errHolder struct{ error }

// tuple is one verification case.
type tuple struct {
	Key  *pubPair
	Alg  algInfo
	Msg  []byte
	Sig  []byte
	Mut  string // stable mutation class ("genuine" for the unmutated tuple)
	Info string // parameters of the mutation (bit index, …)
}

func (t *tuple) input(base string) map[string]any {
	return map[string]any{"base": base, "key": t.Key.ID, "spki": core.FullHex(t.Key.SPKI), "algorithm": t.Alg.Name, "algorithm_value": int(t.Alg.Algo),
		"message": core.FullHex(t.Msg), "signature": core.FullHex(t.Sig), "mutation": t.Mut, "mutation_info": t.Info}
}

// checkTuple runs one tuple through the three APIs and the reference.
func checkTuple(c *core.Ctx, base string, t *tuple) {
	c.Eval(1)
	want := effectiveValid(t.Key, t.Alg, t.Msg, t.Sig)
	inDomain := t.Alg.Family == t.Key.Family || !t.Alg.Usable
	if t.Key.Family == "DSA" && t.Alg.Usable && t.Alg.Hash != 0 && t.Alg.Hash.Size() > t.Key.QBytes {
		inDomain = false
		c.Count("dsa_hash_longer_than_q_tuples", 1)
	}
	caseID := base + "|" + t.Mut + "|" + t.Info
	for _, api := range verifyAPIs {
		var err error
		if pi := core.Guard(func() { err = api.Run(t.Key, t.Alg.Algo, t.Msg, t.Sig) }); pi != nil {
			c.Violation("verify:"+api.Name+":"+pi.Key, pi.Value+"\n"+pi.Stack, caseID, t.input(base))
			continue
		}
		if eh, ok := err.(errHolder); ok {
			c.Violation("verify:holder-certificate-does-not-parse:"+t.Key.Family, eh.Error(), caseID, t.input(base))
			continue
		}
		got := err == nil
		c.Count("verify_calls", 1)
		switch {
		case !inDomain:
			if t.Alg.Usable && t.Alg.Family != t.Key.Family {
				if got {
					c.Count("label_family_mismatch_accepted", 1)
				} else {
					c.Count("label_family_mismatch_rejected", 1)
				}
				if got != want {
					c.Count("label_family_mismatch_differs_from_effective_scheme", 1)
				}
			} else if got != want {
				c.Count("out_of_domain_differs_from_reference", 1)
			}
		case got == want:
			if got {
				c.Count("accepted_valid", 1)
			} else {
				c.Count("rejected_invalid", 1)
			}
		case want && !got && t.Mut == "genuine":
			c.Violation("rejects-genuine:"+api.Name+":"+t.Alg.Name, fmt.Sprintf("%s key %s: %v", t.Info, t.Key.ID, err), caseID, t.input(base))
		case want && !got:
			c.Count("valid_variant_rejected:"+t.Mut, 1)
		default:
			c.Violation("accepts-invalid:"+api.Name+"("+api.Arm+"):"+t.Key.Family+":"+t.Mut,
				fmt.Sprintf("algorithm %s key %s %s: accepted, but the standard library rejects the tuple", t.Alg.Name, t.Key.ID, t.Info), caseID, t.input(base))
		}
	}
	if inDomain {
		c.Nontrivial(base, t.Mut, t.Info)
		if want && t.Mut != "genuine" {
			c.Count("mutation_itself_valid:"+t.Mut, 1)
		}
	}
	c.Count("mut:"+t.Mut, 1)
}

// ---- base cases ------------------------------------------------------------------------

type baseCase struct {
	Alg algInfo
	Key *sigKey
	Msg int // message class
	Rep int
}

func c03Messages(r *rand.Rand, class int) []byte {
	switch class {
	case 0:
		return []byte{}
	case 1:
		return []byte{byte(r.Uint32())}
	case 2:
		return randBytes(r, 1024)
	default:
		return randBytes(r, 2+r.IntN(300))
	}
}

// keysFor lists the pool keys that can carry the algorithm (size limits of RSA are handled by the signer).
func keysFor(a algInfo) []*sigKey {
	p := pool()
	switch a.Family {
	case "RSA":
		return p.RSA
	case "ECDSA":
		return p.EC
	case "Ed25519":
		return p.Ed
	case "DSA":
		return p.DSA
	}
	return nil
}

func runC03(c *core.Ctx) {
	if asn1.AllowPermissiveParsing {
		c.Violation("harness:permissive-parsing-enabled-at-start", "", "", nil)
		return
	}
	defer func() {
		if asn1.AllowPermissiveParsing {
			c.Violation("harness:permissive-parsing-left-enabled", "", "", nil)
		}
	}()
	// base cases: the same list in every shard, dealt round-robin
	g := c.GlobalRng("bases")
	var bases []baseCase
	keysPer := c.Pick(2, 8)
	msgClasses := c.Pick(3, 4)
	reps := c.Pick(1, 2)
	for _, a := range algTable {
		if !a.Usable {
			continue
		}
		ks := keysFor(a)
		// choose keysPer keys per curve / size class so that every curve and DSA size is present
		groups := map[string][]*sigKey{}
		var order []string
		for _, k := range ks {
			gk := k.Family
			switch k.Family {
			case "ECDSA":
				gk = curveName(k.EC.Curve)
			case "DSA":
				gk = fmt.Sprintf("%d/%d", k.Bits, k.QBits)
			}
			if _, ok := groups[gk]; !ok {
				order = append(order, gk)
			}
			groups[gk] = append(groups[gk], k)
		}
		for _, gk := range order {
			grp := groups[gk]
			n := keysPer
			if a.Family == "RSA" {
				n = c.Pick(4, len(grp))
			}
			perm := g.Perm(len(grp))
			for i := 0; i < n && i < len(grp); i++ {
				for m := 0; m < msgClasses; m++ {
					for rep := 0; rep < reps; rep++ {
						bases = append(bases, baseCase{a, grp[perm[i]], m, rep})
					}
				}
			}
		}
	}
	g.Shuffle(len(bases), func(i, j int) { bases[i], bases[j] = bases[j], bases[i] })
	for i, b := range bases {
		if i%c.NShards != c.Shard {
			continue
		}
		r := c.SubRng(fmt.Sprintf("base-%d", i))
		runBase(c, r, i, b)
	}
	runCreateLeg(c)
	runCertLevel(c)
}

// sign produces the genuine signatures of a base case: independent signer first, zcrypto's second.
func signBase(r *rand.Rand, b baseCase, msg []byte) (sigs map[string][]byte, errs map[string]error) {
	sigs, errs = map[string][]byte{}, map[string]error{}
	d := digestOf(b.Alg.Hash, msg)
	rd := detReader(r)
	put := func(who string, sig []byte, err error) {
		if err != nil {
			errs[who] = err
			return
		}
		sigs[who] = sig
	}
	switch b.Alg.Family {
	case "RSA":
		if b.Alg.PSS {
			s, err := stdrsa.SignPSS(rd, b.Key.StdRSA, b.Alg.Hash, d, &stdrsa.PSSOptions{SaltLength: stdrsa.PSSSaltLengthEqualsHash})
			put("go", s, err)
			z, err := zrsa.SignPSS(rd, b.Key.ZRSA, b.Alg.Hash, d, &zrsa.PSSOptions{SaltLength: zrsa.PSSSaltLengthEqualsHash})
			put("zcrypto", z, err)
		} else {
			s, err := stdrsa.SignPKCS1v15(nil, b.Key.StdRSA, b.Alg.Hash, d)
			put("go", s, err)
			z, err := zrsa.SignPKCS1v15(nil, b.Key.ZRSA, b.Alg.Hash, d)
			put("zcrypto", z, err)
		}
	case "ECDSA":
		s, err := ecdsa.SignASN1(rd, b.Key.EC, d)
		put("go", s, err)
	case "Ed25519":
		put("go", ed25519.Sign(b.Key.Ed, msg), nil)
	case "DSA":
		rr, ss, err := stddsa.Sign(rd, b.Key.StdDSA, d)
		if err == nil {
			put("go", derSeq(derInt(rr), derInt(ss)), nil)
		} else {
			put("go", nil, err)
		}
		zr, zs, err := zdsa.Sign(rd, b.Key.ZDSA, d)
		if err == nil {
			put("zcrypto", derSeq(derInt(zr), derInt(zs)), nil)
		} else {
			put("zcrypto", nil, err)
		}
	}
	return
}

func runBase(c *core.Ctx, r *rand.Rand, idx int, b baseCase) {
	msg := c03Messages(r, b.Msg)
	key := pairOf(b.Key)
	base := fmt.Sprintf("%s/%s/msg%d.%d", b.Alg.Name, b.Key.ID, b.Msg, b.Rep)
	var sigs map[string][]byte
	var errs map[string]error
	if pi := core.Guard(func() { sigs, errs = signBase(r, b, msg) }); pi != nil {
		c.Violation("sign:"+pi.Key, pi.Value+"\n"+pi.Stack, base, map[string]any{"base": base, "message": core.FullHex(msg)})
		return
	}
	for who, err := range errs {
		c.Count("signer_refused:"+who+":"+b.Alg.Name, 1)
		_ = err
	}
	if len(sigs) == 0 {
		// e.g. RSA-512 with SHA-512: the encoded message does not fit; not a signature case
		c.Count("base_cases_without_signature", 1)
		return
	}
	c.Count("base_cases", 1)
	first := true
	for _, who := range []string{"go", "zcrypto"} {
		sig, ok := sigs[who]
		if !ok {
			continue
		}
		gen := &tuple{Key: key, Alg: b.Alg, Msg: msg, Sig: sig, Mut: "genuine", Info: "signer=" + who}
		checkTuple(c, base, gen)
		c.Count("genuine_signatures:"+who, 1)
		if !effectiveValid(key, b.Alg, msg, sig) {
			// the signer under test produced something the reference does not accept
			if who == "zcrypto" {
				c.Violation("sign:zcrypto-signature-invalid-per-reference:"+b.Alg.Name, "key "+b.Key.ID, base, gen.input(base))
			} else {
				c.Violation("harness:reference-signer-and-verifier-disagree:"+b.Alg.Name, "key "+b.Key.ID, base, gen.input(base))
			}
			continue
		}
		// the full mutation set on the first available signature, a light one on the second
		mutateAll(c, r, base+"/"+who, b, gen, first)
		first = false
	}
	if c.WantSample() && idx%7 == 0 {
		c.Sample(map[string]any{"algorithm": b.Alg.Name, "key": b.Key.ID, "message": core.Hex(msg), "signature": core.Hex(sigs["go"])})
	}
}
