package sigeng

import (
	"fmt"
	"math/rand/v2"
	"sort"
	"strings"

	"github.com/zmap/zcrypto/encoding/asn1"
	"github.com/zmap/zcrypto/x509/pkix"
)

// ---- value generator ---------------------------------------------------------

var (
	printableAlphabet = "abcdefghijklmnopqrstuvwxyzABCDEFGHIJKLMNOPQRSTUVWXYZ0123456789 '()+,-./:=?"
	utf8Forcing       = []string{"@", "&", "*", "_", "!", "%", "~", "[", "]", "|", "^", "`", "{", "}", "$"}
	nonASCII          = []string{"é", "ü", "ß", "Ω", "ж", "日本", "한", "ع", "€", " ", "😀", "𝔘", "\U0010FFFF", "\u0080"}
	rfc2253Specials   = []string{",", "+", "\"", "\\", "<", ">", ";", "#"}
)

func pick[T any](r *rand.Rand, s []T) T { return s[r.IntN(len(s))] }

func genPrintable(r *rand.Rand, n int) string {
	var sb strings.Builder
	for i := 0; i < n; i++ {
		sb.WriteByte(printableAlphabet[r.IntN(len(printableAlphabet))])
	}
	return sb.String()
}

// genValue returns an attribute value and the name of its class.
func genValue(r *rand.Rand) (string, string) {
	switch c := r.IntN(20); {
	case c < 6:
		return genPrintable(r, 1+r.IntN(12)), "printable"
	case c < 8:
		return genPrintable(r, 1+r.IntN(5)) + pick(r, utf8Forcing) + genPrintable(r, r.IntN(5)), "utf8-forcing-ascii"
	case c < 11:
		return genPrintable(r, r.IntN(4)) + pick(r, nonASCII) + genPrintable(r, r.IntN(4)) + pick(r, nonASCII), "non-ascii"
	case c < 12:
		return "", "empty"
	case c < 14:
		s := genPrintable(r, 1+r.IntN(6))
		switch r.IntN(3) {
		case 0:
			return " " + s, "leading-space"
		case 1:
			return s + " ", "trailing-space"
		}
		return "  " + s + "  ", "both-spaces"
	case c < 17:
		s := genPrintable(r, r.IntN(4))
		for i := 0; i <= r.IntN(3); i++ {
			s += pick(r, rfc2253Specials) + genPrintable(r, r.IntN(3))
		}
		if r.IntN(3) == 0 {
			s = "#" + s
		}
		return s, "rfc2253-special"
	case c < 18:
		return genPrintable(r, 60+r.IntN(141)), "long"
	case c < 19:
		// control characters and DEL are valid UTF-8 but not printable
		return genPrintable(r, r.IntN(3)) + string(rune(r.IntN(32))) + "\x7f", "control"
	default:
		var sb strings.Builder
		for sb.Len() < 150+r.IntN(50) {
			sb.WriteString(pick(r, nonASCII))
		}
		return sb.String(), "long-non-ascii"
	}
}

func genValues(r *rand.Rand, classes map[string]int) []string {
	var n int
	switch c := r.IntN(10); {
	case c < 5:
		n = 0
	case c < 8:
		n = 1
	case c < 9:
		n = 2
	default:
		n = 3
	}
	if n == 0 {
		return nil
	}
	out := make([]string, n)
	for i := range out {
		v, cl := genValue(r)
		out[i] = v
		if classes != nil {
			classes[cl]++
		}
	}
	return out
}

// oids the converter emits (copied from RFC 5280 / the EV guidelines, not from zcrypto)
var (
	oidCN        = []int{2, 5, 4, 3}
	oidSerial    = []int{2, 5, 4, 5}
	oidC         = []int{2, 5, 4, 6}
	oidL         = []int{2, 5, 4, 7}
	oidST        = []int{2, 5, 4, 8}
	oidStreet    = []int{2, 5, 4, 9}
	oidO         = []int{2, 5, 4, 10}
	oidOU        = []int{2, 5, 4, 11}
	oidPostal    = []int{2, 5, 4, 17}
	oidOrgID     = []int{2, 5, 4, 97}
	oidDC        = []int{0, 9, 2342, 19200300, 100, 1, 25}
	oidEmail     = []int{1, 2, 840, 113549, 1, 9, 1}
	oidJurL      = []int{1, 3, 6, 1, 4, 1, 311, 60, 2, 1, 1}
	oidJurST     = []int{1, 3, 6, 1, 4, 1, 311, 60, 2, 1, 2}
	oidJurC      = []int{1, 3, 6, 1, 4, 1, 311, 60, 2, 1, 3}
	oidGivenName = []int{2, 5, 4, 42}
	oidSurname   = []int{2, 5, 4, 4}
)

// nameField describes one multi-valued field of pkix.Name that ToRDNSequence emits.
type nameField struct {
	Label string
	OID   []int
	Get   func(*pkix.Name) *[]string
}

var nameFields = []nameField{
	{"Country", oidC, func(n *pkix.Name) *[]string { return &n.Country }},
	{"Organization", oidO, func(n *pkix.Name) *[]string { return &n.Organization }},
	{"OrganizationalUnit", oidOU, func(n *pkix.Name) *[]string { return &n.OrganizationalUnit }},
	{"Locality", oidL, func(n *pkix.Name) *[]string { return &n.Locality }},
	{"Province", oidST, func(n *pkix.Name) *[]string { return &n.Province }},
	{"StreetAddress", oidStreet, func(n *pkix.Name) *[]string { return &n.StreetAddress }},
	{"PostalCode", oidPostal, func(n *pkix.Name) *[]string { return &n.PostalCode }},
	{"DomainComponent", oidDC, func(n *pkix.Name) *[]string { return &n.DomainComponent }},
	{"EmailAddress", oidEmail, func(n *pkix.Name) *[]string { return &n.EmailAddress }},
	{"JurisdictionLocality", oidJurL, func(n *pkix.Name) *[]string { return &n.JurisdictionLocality }},
	{"JurisdictionProvince", oidJurST, func(n *pkix.Name) *[]string { return &n.JurisdictionProvince }},
	{"JurisdictionCountry", oidJurC, func(n *pkix.Name) *[]string { return &n.JurisdictionCountry }},
	{"OrganizationIDs", oidOrgID, func(n *pkix.Name) *[]string { return &n.OrganizationIDs }},
}

func oidKey(oid []int) string { return fmt.Sprint(oid) }

var knownNameOIDs = func() map[string]bool {
	m := map[string]bool{oidKey(oidCN): true, oidKey(oidSerial): true, oidKey(oidGivenName): true, oidKey(oidSurname): true}
	for _, f := range nameFields {
		m[oidKey(f.OID)] = true
	}
	return m
}()

func genUnknownOID(r *rand.Rand) []int {
	switch r.IntN(4) {
	case 0:
		return []int{2, 5, 4, 100 + r.IntN(900)}
	case 1:
		return []int{1, 3, 6, 1, 4, 1, 55555, 1 + r.IntN(1000), r.IntN(5)}
	case 2:
		return []int{1, 2, 840, 113549, 1, 9, 2 + r.IntN(6)} // pkcs-9 unstructuredName …
	default:
		return []int{2, 999, 1 + r.IntN(1<<20)}
	}
}

type nameOpts struct {
	Sparse     bool // fewer fields (for certificate subjects)
	NoExtra    bool
	NeverEmpty bool // at least a CommonName
}

// genName builds a Name over the fields ToRDNSequence emits. classes (optional) counts value classes.
func genName(r *rand.Rand, o nameOpts, classes map[string]int) pkix.Name {
	var n pkix.Name
	for _, f := range nameFields {
		if o.Sparse && r.IntN(3) != 0 {
			continue
		}
		*f.Get(&n) = genValues(r, classes)
	}
	if r.IntN(4) != 0 || o.NeverEmpty {
		v, cl := genValue(r)
		if o.NeverEmpty && v == "" {
			v, cl = "cn", "printable"
		}
		n.CommonName = v
		if classes != nil {
			classes[cl]++
		}
	}
	if r.IntN(3) == 0 {
		v, cl := genValue(r)
		n.SerialNumber = v
		if classes != nil {
			classes[cl]++
		}
	}
	if !o.NoExtra && r.IntN(3) == 0 {
		for i := 0; i <= r.IntN(3); i++ {
			v, cl := genValue(r)
			n.ExtraNames = append(n.ExtraNames, pkix.AttributeTypeAndValue{Type: genUnknownOID(r), Value: v})
			if classes != nil {
				classes["extra:"+cl]++
			}
		}
	}
	return n
}

// ---- comparison ---------------------------------------------------------------

func sortedCopy(s []string) []string {
	c := append([]string(nil), s...)
	sort.Strings(c)
	return c
}

func sameMultiset(a, b []string) bool {
	if len(a) != len(b) {
		return false
	}
	x, y := sortedCopy(a), sortedCopy(b)
	for i := range x {
		if x[i] != y[i] {
			return false
		}
	}
	return true
}

// expectedATVs lists every (oid, value) pair the statement says a Name carries.
func expectedATVs(n *pkix.Name) []string {
	var out []string
	add := func(oid []int, v string) { out = append(out, oidKey(oid)+"="+v) }
	if n.CommonName != "" {
		add(oidCN, n.CommonName)
	}
	if n.SerialNumber != "" {
		add(oidSerial, n.SerialNumber)
	}
	for _, f := range nameFields {
		for _, v := range *f.Get(n) {
			add(f.OID, v)
		}
	}
	for _, e := range n.ExtraNames {
		add(e.Type, fmt.Sprint(e.Value))
	}
	return out
}

func atvStrings(atvs []pkix.AttributeTypeAndValue) []string {
	var out []string
	for _, a := range atvs {
		out = append(out, oidKey(a.Type)+"="+fmt.Sprint(a.Value))
	}
	return out
}

// compareName returns the labels of fields of got that do not carry the attribute values of
// want (want: a Name built from fields, ExtraNames only with OIDs outside the emitted fields;
// got: a Name filled from the decoded sequence). Order inside a field is not compared: DER SET
// OF ordering may permute the values of one RDN.
func compareName(want, got *pkix.Name) []string {
	var bad []string
	for _, f := range nameFields {
		w, g := *f.Get(want), *f.Get(got)
		if !sameMultiset(w, g) {
			bad = append(bad, fmt.Sprintf("%s: want %q got %q", f.Label, w, g))
		}
	}
	if want.CommonName != got.CommonName {
		bad = append(bad, fmt.Sprintf("CommonName: want %q got %q", want.CommonName, got.CommonName))
	}
	if want.SerialNumber != got.SerialNumber {
		bad = append(bad, fmt.Sprintf("SerialNumber: want %q got %q", want.SerialNumber, got.SerialNumber))
	}
	if w, g := expectedATVs(want), atvStrings(got.Names); !sameMultiset(w, g) {
		bad = append(bad, fmt.Sprintf("Names: want %q got %q", sortedCopy(w), sortedCopy(g)))
	}
	return bad
}

func fieldLabel(mismatch string) string {
	if i := strings.IndexByte(mismatch, ':'); i > 0 {
		return mismatch[:i]
	}
	return mismatch
}

// nameSetFields counts the populated attribute fields of a name.
func nameSetFields(n *pkix.Name) int {
	c := 0
	for _, f := range nameFields {
		if len(*f.Get(n)) > 0 {
			c++
		}
	}
	if n.CommonName != "" {
		c++
	}
	if n.SerialNumber != "" {
		c++
	}
	if len(n.ExtraNames) > 0 {
		c++
	}
	return c
}

// describeName is a canonical, replayable description of a generated Name.
func describeName(n *pkix.Name) map[string]any {
	m := map[string]any{}
	for _, f := range nameFields {
		if v := *f.Get(n); len(v) > 0 {
			m[f.Label] = v
		}
	}
	if n.CommonName != "" {
		m["CommonName"] = n.CommonName
	}
	if n.SerialNumber != "" {
		m["SerialNumber"] = n.SerialNumber
	}
	if len(n.ExtraNames) > 0 {
		m["ExtraNames"] = atvStrings(n.ExtraNames)
	}
	return m
}

func nameSig(n *pkix.Name) string { return fmt.Sprint(describeName(n)) }

// roundTripName converts n to an RDNSequence, DER-encodes it, decodes and fills a new Name.
func roundTripName(n *pkix.Name) (der []byte, back pkix.Name, err error) {
	der, err = asn1.Marshal(n.ToRDNSequence())
	if err != nil {
		return nil, back, fmt.Errorf("marshal: %w", err)
	}
	var seq pkix.RDNSequence
	rest, err := asn1.Unmarshal(der, &seq)
	if err != nil {
		return der, back, fmt.Errorf("unmarshal: %w", err)
	}
	if len(rest) != 0 {
		return der, back, fmt.Errorf("unmarshal: %d trailing bytes", len(rest))
	}
	back.FillFromRDNSequence(&seq)
	return der, back, nil
}
