package sigeng

import (
	"crypto"
	"crypto/ed25519"
	stdrsa "crypto/rsa"
	"fmt"
	"math/big"
	"math/rand/v2"

	"github.com/zmap/zcrypto/x509"

	"verifharness/internal/core"
)

// Mutations of a genuine tuple. Every mutated tuple is judged by the reference verifier, so a
// mutation that happens to yield another valid signature (e.g. (r, n-s) for ECDSA) is handled
// by the "unless it is itself valid" clause of the statement without special cases here.

func flipBit(b []byte, bit int) []byte {
	o := append([]byte(nil), b...)
	o[bit/8] ^= 0x80 >> (bit % 8)
	return o
}

func cat(parts ...[]byte) []byte {
	var o []byte
	for _, p := range parts {
		o = append(o, p...)
	}
	return o
}

func leftPad(b []byte, n int) []byte {
	if len(b) >= n {
		return b
	}
	return append(make([]byte, n-len(b)), b...)
}

func mutateAll(c *core.Ctx, r *rand.Rand, base string, b baseCase, gen *tuple, full bool) {
	emit := func(mut, info string, key *pubPair, alg algInfo, msg, sig []byte) {
		checkTuple(c, base, &tuple{Key: key, Alg: alg, Msg: msg, Sig: sig, Mut: mut, Info: info})
	}
	sigMut := func(mut, info string, sig []byte) { emit(mut, info, gen.Key, gen.Alg, gen.Msg, sig) }
	sig, msg := gen.Sig, gen.Msg

	// ---- signature bit flips
	nbits := len(sig) * 8
	var bits []int
	// thorough: every bit of every signature. quick: every bit of Ed25519 signatures and of the
	// ECDSA P-256 empty-message cases; first/last four bytes plus a sample otherwise.
	allBits := c.Thorough() || gen.Key.Family == "Ed25519" ||
		(gen.Key.Family == "ECDSA" && b.Msg == 0 && curveName(b.Key.EC.Curve) == "P-256")
	if !full {
		allBits = false
	}
	if allBits {
		for i := 0; i < nbits; i++ {
			bits = append(bits, i)
		}
	} else {
		seen := map[int]bool{}
		for i := 0; i < 32 && i < nbits; i++ { // first and last four bytes
			seen[i], seen[nbits-1-i] = true, true
		}
		n := 64
		if !full {
			n = 8
		}
		for i := 0; i < n && nbits > 0; i++ {
			seen[r.IntN(nbits)] = true
		}
		for i := 0; i < nbits; i++ {
			if seen[i] {
				bits = append(bits, i)
			}
		}
	}
	for _, bit := range bits {
		sigMut("sig-bit-flip", fmt.Sprintf("bit=%d", bit), flipBit(sig, bit))
	}
	if allBits {
		c.Exhaustive("signature-bit-flips:"+gen.Alg.Name, int64(nbits))
	}

	// ---- generic length / content changes of the signature
	sigMut("sig-empty", "", []byte{})
	if len(sig) > 0 {
		sigMut("sig-truncated", "drop-last", sig[:len(sig)-1])
		sigMut("sig-truncated", "drop-first", sig[1:])
		sigMut("sig-truncated", "half", sig[:len(sig)/2])
	}
	sigMut("sig-append-zero", "", cat(sig, []byte{0}))
	sigMut("sig-append-garbage", "010203", cat(sig, []byte{1, 2, 3}))
	sigMut("sig-prepend-zero", "", cat([]byte{0}, sig))
	sigMut("sig-all-zero", "", make([]byte, len(sig)))
	sigMut("sig-random", "", randBytes(r, len(sig)))
	if !full {
		return
	}

	// ---- message
	if len(msg) > 0 {
		for i := 0; i < 3; i++ {
			bit := r.IntN(len(msg) * 8)
			emit("msg-bit-flip", fmt.Sprintf("bit=%d", bit), gen.Key, gen.Alg, flipBit(msg, bit), sig)
		}
		emit("msg-truncated", "", gen.Key, gen.Alg, msg[:len(msg)-1], sig)
		emit("msg-empty", "", gen.Key, gen.Alg, []byte{}, sig)
	}
	emit("msg-append-zero", "", gen.Key, gen.Alg, cat(msg, []byte{0}), sig)
	emit("msg-random", "", gen.Key, gen.Alg, randBytes(r, len(msg)+1), sig)
	if gen.Alg.Hash != 0 {
		// the digest itself as message (verifier hashing twice / not at all)
		emit("msg-is-digest", "", gen.Key, gen.Alg, digestOf(gen.Alg.Hash, msg), sig)
	}

	// ---- claimed algorithm: every enum value and two out-of-range ones
	for v := -1; v <= 18; v++ {
		a := algByValue(x509.SignatureAlgorithm(v))
		if a.Algo == gen.Alg.Algo {
			continue
		}
		emit("algorithm-substituted", "to="+a.Name, gen.Key, a, msg, sig)
	}

	// ---- key substitution
	p := pool()
	var others []*pubPair
	for _, k := range keysFor(gen.Alg) {
		if k.ID != b.Key.ID && len(others) < 6 {
			others = append(others, pairOf(k))
		}
	}
	for _, o := range others {
		emit("key-substituted-same-family", "to="+o.ID, o, gen.Alg, msg, sig)
	}
	for _, k := range []*sigKey{p.RSA[8], p.EC[4], p.Ed[1], p.DSA[4]} {
		if k.Family != gen.Key.Family {
			emit("key-substituted-other-family", "to="+k.ID, pairOf(k), gen.Alg, msg, sig)
		}
	}

	switch gen.Key.Family {
	case "RSA":
		mutateRSA(c, r, b, gen, emit, sigMut)
	case "ECDSA":
		mutateRS(r, gen, b.Key.EC.Curve.Params().N, sigMut)
	case "DSA":
		mutateRS(r, gen, b.Key.StdDSA.Q, sigMut)
	case "Ed25519":
		mutateEd(gen, sigMut)
	}
}

// ---- ECDSA / DSA -------------------------------------------------------------------------

func encRS(r, s *big.Int) []byte { return derSeq(derInt(r), derInt(s)) }

func mutateRS(rng *rand.Rand, gen *tuple, n *big.Int, sigMut func(mut, info string, sig []byte)) {
	r, s, ok := parseRS(gen.Sig)
	if !ok {
		return
	}
	one := big.NewInt(1)
	add := func(a, b *big.Int) *big.Int { return new(big.Int).Add(a, b) }
	sub := func(a, b *big.Int) *big.Int { return new(big.Int).Sub(a, b) }
	zero := new(big.Int)
	for _, v := range []struct {
		info string
		r, s *big.Int
	}{
		{"r+1", add(r, one), s}, {"r-1", sub(r, one), s}, {"s+1", r, add(s, one)}, {"s-1", r, sub(s, one)},
		{"r=0", zero, s}, {"s=0", r, zero}, {"r=0,s=0", zero, zero},
		{"r=n", n, s}, {"s=n", r, n}, {"r+n", add(r, n), s}, {"s+n", r, add(s, n)},
		{"-r", new(big.Int).Neg(r), s}, {"-s", r, new(big.Int).Neg(s)}, {"-r,-s", new(big.Int).Neg(r), new(big.Int).Neg(s)},
		{"r-n", sub(r, n), s}, {"s-n", r, sub(s, n)},
		{"n-s", r, sub(n, s)}, {"n-r", sub(n, r), s}, {"swap", s, r}, {"r=1", one, s}, {"s=1", r, one},
	} {
		sigMut("rs-arithmetic", v.info, encRS(v.r, v.s))
	}
	ri, si := derIntBytes(r), derIntBytes(s)
	body := cat(derInt(r), derInt(s))
	// non-canonical encodings of the same (r, s)
	sigMut("der-nonminimal-integer", "r-leading-00", derSeq(tlv(tagInteger, []byte{0}, ri), derInt(s)))
	sigMut("der-nonminimal-integer", "s-leading-00", derSeq(derInt(r), tlv(tagInteger, []byte{0}, si)))
	sigMut("der-nonminimal-integer", "r-leading-0000", derSeq(tlv(tagInteger, []byte{0, 0}, ri), derInt(s)))
	if len(body) < 128 {
		sigMut("der-nonminimal-length", "sequence-81", cat([]byte{0x30, 0x81, byte(len(body))}, body))
		sigMut("der-nonminimal-length", "sequence-8200", cat([]byte{0x30, 0x82, 0, byte(len(body))}, body))
	} else if len(body) < 256 {
		sigMut("der-nonminimal-length", "sequence-8200", cat([]byte{0x30, 0x82, 0, byte(len(body))}, body))
	}
	sigMut("der-nonminimal-length", "integer-r-81", derSeq(cat([]byte{tagInteger, 0x81, byte(len(ri))}, ri), derInt(s)))
	sigMut("der-nonminimal-length", "integer-s-81", derSeq(derInt(r), cat([]byte{tagInteger, 0x81, byte(len(si))}, si)))
	sigMut("der-indefinite-length", "", cat([]byte{0x30, 0x80}, body, []byte{0, 0}))
	// structure changes
	sigMut("der-extra-element", "third-integer", derSeq(derInt(r), derInt(s), derSmallInt(1)))
	sigMut("der-extra-element", "trailing-null-inside", derSeq(derInt(r), derInt(s), derNull()))
	sigMut("der-missing-element", "only-r", derSeq(derInt(r)))
	sigMut("der-missing-element", "empty-sequence", derSeq())
	sigMut("der-wrong-tag", "set", tlv(tagSet, body))
	sigMut("der-wrong-tag", "context-0", tlv(0xa0, body))
	sigMut("der-wrong-tag", "octet-string", tlv(tagOctet, body))
	sigMut("der-wrong-tag", "r-as-octet-string", derSeq(tlv(tagOctet, ri), derInt(s)))
	sigMut("der-wrong-tag", "r-as-enumerated", derSeq(tlv(0x0a, ri), derInt(s)))
	sigMut("der-wrong-tag", "high-tag-form", cat([]byte{0x3f, 0x10, byte(len(body))}, body))
	sigMut("der-nested", "sequence-in-sequence", derSeq(derSeq(derInt(r), derInt(s))))
	// trailing data after the SEQUENCE (sig-append-* above cover 00 and 010203)
	sigMut("sig-append-garbage", "second-signature", cat(gen.Sig, gen.Sig))
	sigMut("sig-append-garbage", "ff", cat(gen.Sig, []byte{0xff}))
	// sign bit handling: drop the 00 guard so that the value reads negative
	if ri[0] == 0 && len(ri) > 1 {
		sigMut("der-negative-integer", "r-guard-byte-dropped", derSeq(tlv(tagInteger, ri[1:]), derInt(s)))
	}
	if si[0] == 0 && len(si) > 1 {
		sigMut("der-negative-integer", "s-guard-byte-dropped", derSeq(derInt(r), tlv(tagInteger, si[1:])))
	}
	sigMut("der-empty-integer", "r", derSeq(tlv(tagInteger), derInt(s)))
	// raw r||s (IEEE P1363 form) instead of DER
	w := (n.BitLen() + 7) / 8
	sigMut("p1363-encoding", "", cat(leftPad(r.Bytes(), w), leftPad(s.Bytes(), w)))
	_ = rng
}

// ---- Ed25519 -------------------------------------------------------------------------------

var edL, _ = new(big.Int).SetString("7237005577332262213973186563042994240857116359379907606001950938285454250989", 10)

func mutateEd(gen *tuple, sigMut func(mut, info string, sig []byte)) {
	sig := gen.Sig
	if len(sig) != ed25519.SignatureSize {
		return
	}
	le := func(v *big.Int) []byte { // 32-byte little endian
		b := leftPad(v.Bytes(), 32)
		o := make([]byte, 32)
		for i := range b {
			o[31-i] = b[i]
		}
		return o
	}
	sBE := make([]byte, 32)
	for i := 0; i < 32; i++ {
		sBE[31-i] = sig[32+i]
	}
	s := new(big.Int).SetBytes(sBE)
	// non-canonical S: S + L encodes the same scalar mod L and must be rejected
	if sl := new(big.Int).Add(s, edL); sl.BitLen() <= 256 {
		sigMut("ed25519-noncanonical-s", "s+L", cat(sig[:32], le(sl)))
	}
	if sl := new(big.Int).Add(s, new(big.Int).Lsh(edL, 1)); sl.BitLen() <= 256 {
		sigMut("ed25519-noncanonical-s", "s+2L", cat(sig[:32], le(sl)))
	}
	sigMut("ed25519-s-arithmetic", "s+1", cat(sig[:32], le(new(big.Int).Add(s, big.NewInt(1)))))
	sigMut("ed25519-s-arithmetic", "s=0", cat(sig[:32], make([]byte, 32)))
	identity := make([]byte, 32)
	identity[0] = 1
	sigMut("ed25519-r-replaced", "identity", cat(identity, sig[32:]))
	sigMut("ed25519-r-replaced", "identity,s=0", cat(identity, make([]byte, 32)))
	sigMut("ed25519-r-replaced", "r=s-halves-swapped", cat(sig[32:], sig[:32]))
}

// ---- RSA -----------------------------------------------------------------------------------

// DigestInfo prefixes, RFC 8017 section 9.2 note 1 (MD5: RFC 3447).
var digestInfoPrefix = map[crypto.Hash][]byte{
	crypto.MD5:    {0x30, 0x20, 0x30, 0x0c, 0x06, 0x08, 0x2a, 0x86, 0x48, 0x86, 0xf7, 0x0d, 0x02, 0x05, 0x05, 0x00, 0x04, 0x10},
	crypto.SHA1:   {0x30, 0x21, 0x30, 0x09, 0x06, 0x05, 0x2b, 0x0e, 0x03, 0x02, 0x1a, 0x05, 0x00, 0x04, 0x14},
	crypto.SHA256: {0x30, 0x31, 0x30, 0x0d, 0x06, 0x09, 0x60, 0x86, 0x48, 0x01, 0x65, 0x03, 0x04, 0x02, 0x01, 0x05, 0x00, 0x04, 0x20},
	crypto.SHA384: {0x30, 0x41, 0x30, 0x0d, 0x06, 0x09, 0x60, 0x86, 0x48, 0x01, 0x65, 0x03, 0x04, 0x02, 0x02, 0x05, 0x00, 0x04, 0x30},
	crypto.SHA512: {0x30, 0x51, 0x30, 0x0d, 0x06, 0x09, 0x60, 0x86, 0x48, 0x01, 0x65, 0x03, 0x04, 0x02, 0x03, 0x05, 0x00, 0x04, 0x40},
}

// rsaPrivate is the textbook private-key operation on an encoded message (nil if em >= N).
func rsaPrivate(k *sigKey, em []byte) []byte {
	m := new(big.Int).SetBytes(em)
	if m.Cmp(k.StdRSA.N) >= 0 {
		return nil
	}
	s := new(big.Int).Exp(m, k.StdRSA.D, k.StdRSA.N)
	return leftPad(s.Bytes(), (k.StdRSA.N.BitLen()+7)/8)
}

func mgf1(h crypto.Hash, seed []byte, n int) []byte {
	var out []byte
	for ctr := uint32(0); len(out) < n; ctr++ {
		d := h.New()
		d.Write(seed)
		d.Write([]byte{byte(ctr >> 24), byte(ctr >> 16), byte(ctr >> 8), byte(ctr)})
		out = d.Sum(out)
	}
	return out[:n]
}

type pssVariant struct {
	Name      string
	Trailer   byte
	Separator byte
	PSByte    byte // value of the first padding byte (0 = correct)
	TopBit    bool // set a bit that must be zero
	MGFHash   crypto.Hash
}

// pssEncode is EMSA-PSS-ENCODE (RFC 8017 section 9.1.1) with deliberate deviations.
func pssEncode(mHash []byte, emBits int, salt []byte, h crypto.Hash, v pssVariant) []byte {
	hLen, sLen, emLen := h.Size(), len(salt), (emBits+7)/8
	if emLen < hLen+sLen+2 {
		return nil
	}
	d := h.New()
	d.Write(make([]byte, 8))
	d.Write(mHash)
	d.Write(salt)
	H := d.Sum(nil)
	db := make([]byte, emLen-hLen-1)
	psLen := emLen - sLen - hLen - 2
	if v.PSByte != 0 {
		if psLen == 0 {
			return nil
		}
		db[0] = v.PSByte
	}
	db[psLen] = v.Separator
	copy(db[psLen+1:], salt)
	mh := h
	if v.MGFHash != 0 {
		mh = v.MGFHash
	}
	mask := mgf1(mh, H, len(db))
	for i := range db {
		db[i] ^= mask[i]
	}
	unused := 8*emLen - emBits
	db[0] &= 0xff >> unused
	if v.TopBit {
		if unused == 0 {
			return nil
		}
		db[0] |= 0x80 >> (unused - 1)
	}
	return cat(db, H, []byte{v.Trailer})
}

func mutateRSA(c *core.Ctx, r *rand.Rand, b baseCase, gen *tuple, emit func(mut, info string, key *pubPair, alg algInfo, msg, sig []byte), sigMut func(mut, info string, sig []byte)) {
	k := b.Key
	N := k.StdRSA.N
	kLen := (N.BitLen() + 7) / 8
	sig := gen.Sig
	// same modulus, other exponent
	for _, e := range []int64{3, 17, 65539} {
		emit("key-same-modulus-other-exponent", fmt.Sprintf("e=%d", e), rsaPair(fmt.Sprintf("%s-e%d", k.ID, e), N, e), gen.Alg, gen.Msg, sig)
	}
	// numeric aliases of the signature
	sigMut("rsa-sig-is-modulus", "", leftPad(N.Bytes(), kLen))
	sv := new(big.Int).SetBytes(sig)
	if alias := new(big.Int).Add(sv, N); (alias.BitLen()+7)/8 <= kLen {
		sigMut("rsa-sig-plus-modulus", "same-length", leftPad(alias.Bytes(), kLen))
	} else {
		sigMut("rsa-sig-plus-modulus", "one-byte-longer", leftPad(alias.Bytes(), kLen+1))
	}
	sigMut("rsa-sig-small-value", "1", leftPad([]byte{1}, kLen))
	sigMut("rsa-sig-leading-zero-stripped", "", new(big.Int).SetBytes(sig).Bytes()) // differs only if sig has a leading 00

	d := digestOf(gen.Alg.Hash, gen.Msg)
	if !gen.Alg.PSS {
		// PKCS#1 v1.5 padding forgeries, signed with the real private key
		T := cat(digestInfoPrefix[gen.Alg.Hash], d)
		if pad := kLen - 3 - len(T); pad >= 8 {
			ff := func(n int) []byte {
				p := make([]byte, n)
				for i := range p {
					p[i] = 0xff
				}
				return p
			}
			try := func(info string, em []byte) {
				if len(em) != kLen {
					return
				}
				if s := rsaPrivate(k, em); s != nil {
					sigMut("rsa-pkcs1v15-padding-forgery", info, s)
				}
			}
			if garbage := pad - 8; garbage > 0 {
				try("short-ps-trailing-garbage", cat([]byte{0, 1}, ff(8), []byte{0}, T, randBytes(r, garbage)))
				try("short-ps-garbage-before-digestinfo", cat([]byte{0, 1}, ff(8), []byte{0}, randBytes(r, garbage), T))
			}
			p := ff(pad)
			p[pad/2] = 0xfe
			try("ps-byte-not-ff", cat([]byte{0, 1}, p, []byte{0}, T))
			p = ff(pad)
			p[0] = 0
			try("ps-starts-with-00", cat([]byte{0, 1}, p, []byte{0}, T))
			try("block-type-02", cat([]byte{0, 2}, ff(pad), []byte{0}, T))
			try("block-type-00", cat([]byte{0, 0}, ff(pad), []byte{0}, T))
			try("separator-missing", cat([]byte{0, 1}, ff(pad+1), T))
			try("separator-01", cat([]byte{0, 1}, ff(pad), []byte{1}, T))
			// DigestInfo without the NULL parameters
			pre := append([]byte(nil), digestInfoPrefix[gen.Alg.Hash]...)
			if len(pre) > 6 {
				oidEnd := 4 + 2 + int(pre[5])
				noNull := cat(pre[:oidEnd], pre[oidEnd+2:])
				noNull[1] -= 2
				noNull[3] -= 2
				try("digestinfo-without-null", cat([]byte{0, 1}, ff(pad+2), []byte{0}, noNull, d))
			}
			// bare digest without DigestInfo
			try("bare-digest", cat([]byte{0, 1}, ff(kLen-3-len(d)), []byte{0}, d))
			// DigestInfo of another hash function around the right digest bytes
			for h2, pre2 := range digestInfoPrefix {
				if h2 != gen.Alg.Hash && h2.Size() == gen.Alg.Hash.Size() {
					try("digestinfo-other-oid", cat([]byte{0, 1}, ff(kLen-3-len(pre2)-len(d)), []byte{0}, pre2, d))
				}
			}
		}
		// a PSS signature presented under the v1.5 algorithm
		if gen.Alg.Hash.Size() >= 32 {
			if s, err := stdrsa.SignPSS(detReader(r), k.StdRSA, gen.Alg.Hash, d, &stdrsa.PSSOptions{SaltLength: stdrsa.PSSSaltLengthEqualsHash}); err == nil {
				sigMut("rsa-scheme-confusion", "pss-signature-under-v1.5", s)
			}
		}
		return
	}
	// PSS: salt length other than the hash length
	for _, sl := range []int{stdrsa.PSSSaltLengthAuto, 0x7fffffff /* placeholder for 0 */, 20, gen.Alg.Hash.Size() - 1, gen.Alg.Hash.Size() + 1} {
		var salt []byte
		info := fmt.Sprintf("salt=%d", sl)
		emBits := N.BitLen() - 1
		switch sl {
		case stdrsa.PSSSaltLengthAuto:
			n := (emBits+7)/8 - 2 - gen.Alg.Hash.Size()
			if n < 0 {
				continue
			}
			salt, info = randBytes(r, n), fmt.Sprintf("salt=max(%d)", n)
		case 0x7fffffff:
			salt, info = []byte{}, "salt=0"
		default:
			salt = randBytes(r, sl)
		}
		em := pssEncode(d, emBits, salt, gen.Alg.Hash, pssVariant{Trailer: 0xbc, Separator: 1})
		if em == nil {
			continue
		}
		if s := rsaPrivate(k, leftPad(em, kLen)); s != nil {
			sigMut("rsa-pss-salt-length", info, s)
		}
	}
	// PSS encodings with one defect each
	salt := randBytes(r, gen.Alg.Hash.Size())
	other := crypto.SHA256
	if gen.Alg.Hash == crypto.SHA256 {
		other = crypto.SHA512
	}
	for _, v := range []pssVariant{
		{Name: "correct", Trailer: 0xbc, Separator: 1},
		{Name: "trailer-bb", Trailer: 0xbb, Separator: 1},
		{Name: "trailer-cc", Trailer: 0xcc, Separator: 1},
		{Name: "separator-02", Trailer: 0xbc, Separator: 2},
		{Name: "separator-00", Trailer: 0xbc, Separator: 0},
		{Name: "ps-nonzero", Trailer: 0xbc, Separator: 1, PSByte: 0x01},
		{Name: "top-bit-set", Trailer: 0xbc, Separator: 1, TopBit: true},
		{Name: "mgf1-other-hash", Trailer: 0xbc, Separator: 1, MGFHash: other},
	} {
		em := pssEncode(d, N.BitLen()-1, salt, gen.Alg.Hash, v)
		if em == nil {
			continue
		}
		if s := rsaPrivate(k, leftPad(em, kLen)); s != nil {
			sigMut("rsa-pss-encoding", v.Name, s)
		}
	}
	if s, err := stdrsa.SignPKCS1v15(nil, k.StdRSA, gen.Alg.Hash, d); err == nil {
		sigMut("rsa-scheme-confusion", "v1.5-signature-under-pss", s)
	}
}
