package sigeng

import (
	"crypto"
	"crypto/ecdsa"
	"crypto/ed25519"
	"crypto/elliptic"
	stdrsa "crypto/rsa"
	"fmt"
	"io"
	"math/big"
	"math/rand/v2"
	"sync"

	stddsa "crypto/dsa"

	zdsa "github.com/zmap/zcrypto/dsa"
	zrsa "github.com/zmap/zcrypto/rsa"

	"verifharness/internal/keys"
)

// sigKey is one key of the fixed pool in every representation the monitors need:
// the stdlib form (independent signer / verifier) and the zcrypto form (API under test).
type sigKey struct {
	ID     string // stable name: rsa2048#8, ecP256#4, ed#0, dsa1024/160#0
	Family string // RSA ECDSA Ed25519 DSA
	Bits   int    // RSA modulus bits / curve bits / DSA L
	QBits  int    // DSA N

	StdRSA *stdrsa.PrivateKey
	ZRSA   *zrsa.PrivateKey
	EC     *ecdsa.PrivateKey
	Ed     ed25519.PrivateKey
	StdDSA *stddsa.PrivateKey
	ZDSA   *zdsa.PrivateKey
}

// Signer returns the crypto.Signer the zcrypto creation APIs accept for this key (nil for DSA).
func (k *sigKey) Signer() crypto.Signer {
	switch k.Family {
	case "RSA":
		return k.ZRSA
	case "ECDSA":
		return k.EC
	case "Ed25519":
		return k.Ed
	}
	return nil
}

// ZPub is the public key in the form zcrypto's x509 uses for un-parsed keys.
func (k *sigKey) ZPub() any {
	switch k.Family {
	case "RSA":
		return &k.ZRSA.PublicKey
	case "ECDSA":
		return &k.EC.PublicKey
	case "Ed25519":
		return k.Ed.Public().(ed25519.PublicKey)
	case "DSA":
		return &k.ZDSA.PublicKey
	}
	return nil
}

func curveName(c elliptic.Curve) string { return c.Params().Name }

type keyPool struct {
	RSA, EC, Ed, DSA []*sigKey
	All              []*sigKey
}

var (
	poolOnce sync.Once
	thePool  *keyPool
)

func cloneInt(x *big.Int) *big.Int { return new(big.Int).Set(x) }

func pool() *keyPool {
	poolOnce.Do(func() {
		p := keys.Get()
		kp := &keyPool{}
		for i, r := range p.RSA {
			k := &sigKey{ID: fmt.Sprintf("rsa%d/%dp#%d", r.Bits, len(r.Primes), i), Family: "RSA", Bits: r.Bits}
			k.StdRSA = r.Std()
			z := &zrsa.PrivateKey{PublicKey: zrsa.PublicKey{N: cloneInt(r.N), E: big.NewInt(int64(r.E))}, D: cloneInt(r.D)}
			for _, q := range r.Primes {
				z.Primes = append(z.Primes, cloneInt(q))
			}
			z.Precompute()
			k.ZRSA = z
			kp.RSA = append(kp.RSA, k)
		}
		for i, e := range p.EC {
			k := &sigKey{ID: fmt.Sprintf("ec%s#%d", e.Curve, i), Family: "ECDSA", Bits: e.Priv.Curve.Params().BitSize, EC: e.Priv}
			kp.EC = append(kp.EC, k)
		}
		for i, e := range p.Ed {
			kp.Ed = append(kp.Ed, &sigKey{ID: fmt.Sprintf("ed25519#%d", i), Family: "Ed25519", Bits: 256, Ed: e})
		}
		for i, d := range p.DSA {
			k := &sigKey{ID: fmt.Sprintf("dsa%d/%d#%d", d.L, d.N, i), Family: "DSA", Bits: d.L, QBits: d.N, StdDSA: d.Priv}
			k.ZDSA = &zdsa.PrivateKey{PublicKey: zdsa.PublicKey{Parameters: zdsa.Parameters{
				P: cloneInt(d.Priv.P), Q: cloneInt(d.Priv.Q), G: cloneInt(d.Priv.G)}, Y: cloneInt(d.Priv.Y)}, X: cloneInt(d.Priv.X)}
			kp.DSA = append(kp.DSA, k)
		}
		kp.All = append(kp.All, kp.RSA...)
		kp.All = append(kp.All, kp.EC...)
		kp.All = append(kp.All, kp.Ed...)
		kp.All = append(kp.All, kp.DSA...)
		thePool = kp
	})
	return thePool
}

func (p *keyPool) rsaBits(bits int) []*sigKey {
	var out []*sigKey
	for _, k := range p.RSA {
		if k.Bits == bits {
			out = append(out, k)
		}
	}
	return out
}

func (p *keyPool) ecCurve(name string) []*sigKey {
	var out []*sigKey
	for _, k := range p.EC {
		if curveName(k.EC.Curve) == name {
			out = append(out, k)
		}
	}
	return out
}

// detReader is a deterministic byte stream (ChaCha8) used as the random source of signers, so
// that a seed reproduces a run as far as the signers allow (ECDSA/DSA signers deliberately
// consume a non-deterministic extra byte; nothing depends on signature bytes being equal).
func detReader(r *rand.Rand) io.Reader {
	var seed [32]byte
	for i := 0; i < 4; i++ {
		v := r.Uint64()
		for j := 0; j < 8; j++ {
			seed[i*8+j] = byte(v >> (8 * j))
		}
	}
	return rand.NewChaCha8(seed)
}

func randBytes(r *rand.Rand, n int) []byte {
	b := make([]byte, n)
	for i := range b {
		b[i] = byte(r.Uint32())
	}
	return b
}
