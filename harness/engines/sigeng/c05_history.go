package sigeng

import (
	"fmt"
	"math/big"
	"math/rand/v2"
	"time"

	"github.com/zmap/zcrypto/x509"
	"github.com/zmap/zcrypto/x509/pkix"

	"verifharness/internal/core"
)

// Reuse histories for C05: the same CSR template / hand-built CRL issuer / RevocationList template and issuer are used
// for 2-4 creations with one field edited between them. The expectation for creation i is the harness's own model of the
// caller's values at that call (the model is never handed to the library).

func runC05Histories(c *core.Ctx, r *rand.Rand) {
	n := c.PerShard(c.Pick(480, 12000))
	for i := 0; i < n; i++ {
		switch i % 3 {
		case 0:
			histRL(c, r, fmt.Sprintf("rl-hist-%d-%d", c.Shard, i))
		case 1:
			histCSR(c, r, fmt.Sprintf("csr-hist-%d-%d", c.Shard, i))
		default:
			histCRL(c, r, fmt.Sprintf("crl-hist-%d-%d", c.Shard, i))
		}
	}
}

func histViol(c *core.Ctx, obj, field, detail, id string, input any) {
	c.Violation("reuse-history:"+obj+":"+field, detail, id, input)
}

func histRL(c *core.Ctx, r *rand.Rand, id string) {
	keys := c05SignerKeys()
	k := keys[r.IntN(len(keys))]
	ca, err := caFor(k, "std")
	if err != nil {
		return
	}
	name := genName(r, nameOpts{Sparse: true, NeverEmpty: true, NoExtra: true}, nil)
	issuer := &x509.Certificate{Subject: name, SubjectKeyId: randBytes(r, 8), KeyUsage: x509.KeyUsageCRLSign}
	mName := cloneName(name)
	this := genRevTime(r)
	tpl := &x509.RevocationList{Number: big.NewInt(int64(r.IntN(1000))), ThisUpdate: this, NextUpdate: this.Add(48 * time.Hour),
		RevokedCertificates: []x509.RevokedCertificate{{SerialNumber: genSerial(r), RevocationTime: genRevTime(r)}}}
	mNumber := new(big.Int).Set(tpl.Number)
	mSerials := []*big.Int{new(big.Int).Set(tpl.RevokedCertificates[0].SerialNumber)}
	mThis := tpl.ThisUpdate
	var edits []string
	steps := 2 + r.IntN(3)
	for step := 0; step < steps; step++ {
		if step > 0 {
			switch r.IntN(5) {
			case 0, 1:
				nn := genName(r, nameOpts{Sparse: true, NeverEmpty: true, NoExtra: true}, nil)
				issuer.Subject, mName = nn, cloneName(nn)
				edits = append(edits, fmt.Sprintf("issuer.Subject=%v", describeName(&nn)))
			case 2:
				tpl.Number = genCRLNumber(r)
				mNumber = new(big.Int).Set(tpl.Number)
				edits = append(edits, "Number="+mNumber.Text(16))
			case 3:
				s := genSerial(r)
				tpl.RevokedCertificates = append(tpl.RevokedCertificates, x509.RevokedCertificate{SerialNumber: s, RevocationTime: genRevTime(r)})
				mSerials = append(mSerials, new(big.Int).Set(s))
				edits = append(edits, "entry appended "+s.Text(16))
			default:
				tpl.ThisUpdate = genRevTime(r)
				tpl.NextUpdate = tpl.ThisUpdate.Add(24 * time.Hour)
				mThis = tpl.ThisUpdate
				edits = append(edits, "ThisUpdate="+mThis.Format(time.RFC3339))
			}
		}
		c.Eval(1)
		input := map[string]any{"object": "RevocationList", "key": k.ID, "edits": append([]string(nil), edits...), "creation": step + 1, "issuer_subject_at_this_call": describeName(&mName)}
		var der []byte
		if pi := core.Guard(func() { der, err = x509.CreateRevocationList(detReader(r), tpl, issuer, k.Signer()) }); pi != nil {
			histViol(c, "RL", "create:"+pi.Key, pi.Value, id, input)
			return
		}
		if err != nil {
			histViol(c, "RL", "create-failed:"+normErr(err), err.Error(), id, input)
			return
		}
		input["der"] = core.FullHex(der)
		got, err := x509.ParseRevocationList(der)
		if err != nil {
			histViol(c, "RL", "parse-failed:"+normErr(err), err.Error(), id, input)
			return
		}
		for _, m := range compareName(&mName, &got.Issuer) {
			histViol(c, "RL", "Issuer."+fieldLabel(m), fmt.Sprintf("creation %d: %s", step+1, m), id, input)
		}
		if got.Number == nil || got.Number.Cmp(mNumber) != 0 {
			histViol(c, "RL", "Number", fmt.Sprintf("creation %d: want %x got %x", step+1, mNumber, got.Number), id, input)
		}
		if !got.ThisUpdate.Equal(secUTC(mThis)) {
			histViol(c, "RL", "ThisUpdate", fmt.Sprintf("creation %d: want %s got %s", step+1, secUTC(mThis), got.ThisUpdate), id, input)
		}
		if len(got.RevokedCertificates) != len(mSerials) {
			histViol(c, "RL", "RevokedCertificates", fmt.Sprintf("creation %d: want %d entries got %d", step+1, len(mSerials), len(got.RevokedCertificates)), id, input)
		} else {
			for i, s := range mSerials {
				if got.RevokedCertificates[i].SerialNumber.Cmp(s) != 0 {
					histViol(c, "RL", "RevokedCertificates", fmt.Sprintf("creation %d entry %d: want %x got %x", step+1, i, s, got.RevokedCertificates[i].SerialNumber), id, input)
					break
				}
			}
		}
		if err := got.CheckSignatureFrom(ca.Cert); err != nil {
			histViol(c, "RL", "verify", err.Error(), id, input)
		}
		c.Count("reuse_history_creations:RL", 1)
		if step > 0 {
			c.Nontrivial("rl-hist", k.ID, fmt.Sprint(edits))
		}
	}
}

func histCSR(c *core.Ctx, r *rand.Rand, id string) {
	keys := c05SignerKeys()
	k := keys[r.IntN(len(keys))]
	name := genName(r, nameOpts{Sparse: true, NeverEmpty: true}, nil)
	tpl := &x509.CertificateRequest{Subject: name, DNSNames: genHosts(r, 2)}
	mName, mDNS := cloneName(name), append([]string(nil), tpl.DNSNames...)
	var mExtras []pkix.Extension
	var edits []string
	steps := 2 + r.IntN(3)
	for step := 0; step < steps; step++ {
		if step > 0 {
			switch r.IntN(4) {
			case 0, 1:
				nn := genName(r, nameOpts{Sparse: true, NeverEmpty: true}, nil)
				tpl.Subject, mName = nn, cloneName(nn)
				edits = append(edits, fmt.Sprintf("Subject=%v", describeName(&nn)))
			case 2:
				tpl.DNSNames = genHosts(r, 3)
				mDNS = append([]string(nil), tpl.DNSNames...)
				edits = append(edits, fmt.Sprintf("DNSNames=%q", mDNS))
			default:
				e := genUnknownExt(r, 12)
				e.Id[len(e.Id)-1] += 1000 * (len(mExtras) + 1)
				tpl.ExtraExtensions = append(tpl.ExtraExtensions, e)
				mExtras = append(mExtras, cloneExt(e))
				edits = append(edits, "extra extension "+e.Id.String())
			}
		}
		c.Eval(1)
		input := map[string]any{"object": "CSR", "key": k.ID, "edits": append([]string(nil), edits...), "creation": step + 1, "subject_at_this_call": describeName(&mName), "dns_at_this_call": mDNS}
		var der []byte
		var err error
		if pi := core.Guard(func() { der, err = x509.CreateCertificateRequest(detReader(r), tpl, k.Signer()) }); pi != nil {
			histViol(c, "CSR", "create:"+pi.Key, pi.Value, id, input)
			return
		}
		if err != nil {
			histViol(c, "CSR", "create-failed:"+normErr(err), err.Error(), id, input)
			return
		}
		input["der"] = core.FullHex(der)
		got, err := x509.ParseCertificateRequest(der)
		if err != nil {
			histViol(c, "CSR", "parse-failed:"+normErr(err), err.Error(), id, input)
			return
		}
		for _, m := range compareName(&mName, &got.Subject) {
			histViol(c, "CSR", "Subject."+fieldLabel(m), fmt.Sprintf("creation %d: %s", step+1, m), id, input)
		}
		if !sameStrings(got.DNSNames, mDNS) {
			histViol(c, "CSR", "DNSNames", fmt.Sprintf("creation %d: want %q got %q", step+1, mDNS, got.DNSNames), id, input)
		}
		if len(got.Extensions) != 1+len(mExtras) {
			histViol(c, "CSR", "Extensions", fmt.Sprintf("creation %d: want SAN + %d extras, got %v", step+1, len(mExtras), extListDesc(got.Extensions)), id, input)
		} else {
			for i, e := range mExtras {
				g := got.Extensions[1+i]
				if !g.Id.Equal(e.Id) || string(g.Value) != string(e.Value) {
					histViol(c, "CSR", "Extensions", fmt.Sprintf("creation %d extra %d: want %v got %v", step+1, i, e.Id, g.Id), id, input)
					break
				}
			}
		}
		if err := got.CheckSignature(); err != nil {
			histViol(c, "CSR", "verify", err.Error(), id, input)
		}
		c.Count("reuse_history_creations:CSR", 1)
		if step > 0 {
			c.Nontrivial("csr-hist", k.ID, fmt.Sprint(edits))
		}
	}
}

func histCRL(c *core.Ctx, r *rand.Rand, id string) {
	keys := c05SignerKeys()
	k := keys[r.IntN(len(keys))]
	ca, err := caFor(k, "std")
	if err != nil {
		return
	}
	name := genName(r, nameOpts{Sparse: true, NeverEmpty: true, NoExtra: true}, nil)
	issuer := &x509.Certificate{Subject: name, SubjectKeyId: randBytes(r, 6)}
	mName := cloneName(name)
	revoked := []pkix.RevokedCertificate{{SerialNumber: genSerial(r), RevocationTime: genRevTime(r)}}
	mSerials := []*big.Int{new(big.Int).Set(revoked[0].SerialNumber)}
	now := genRevTime(r)
	var edits []string
	steps := 2 + r.IntN(3)
	for step := 0; step < steps; step++ {
		if step > 0 {
			switch r.IntN(3) {
			case 0, 1:
				nn := genName(r, nameOpts{Sparse: true, NeverEmpty: true, NoExtra: true}, nil)
				issuer.Subject, mName = nn, cloneName(nn)
				edits = append(edits, fmt.Sprintf("issuer.Subject=%v", describeName(&nn)))
			default:
				s := genSerial(r)
				revoked = append(revoked, pkix.RevokedCertificate{SerialNumber: s, RevocationTime: genRevTime(r)})
				mSerials = append(mSerials, new(big.Int).Set(s))
				edits = append(edits, "entry appended "+s.Text(16))
			}
		}
		c.Eval(1)
		input := map[string]any{"object": "CRL", "key": k.ID, "edits": append([]string(nil), edits...), "creation": step + 1, "issuer_subject_at_this_call": describeName(&mName)}
		var der []byte
		if pi := core.Guard(func() { der, err = issuer.CreateCRL(detReader(r), k.Signer(), revoked, now, now.Add(time.Hour)) }); pi != nil {
			histViol(c, "CRL", "create:"+pi.Key, pi.Value, id, input)
			return
		}
		if err != nil {
			histViol(c, "CRL", "create-failed:"+normErr(err), err.Error(), id, input)
			return
		}
		input["der"] = core.FullHex(der)
		got, err := x509.ParseCRL(der)
		if err != nil {
			histViol(c, "CRL", "parse-failed:"+normErr(err), err.Error(), id, input)
			return
		}
		var gi pkix.Name
		gi.FillFromRDNSequence(&got.TBSCertList.Issuer)
		for _, m := range compareName(&mName, &gi) {
			histViol(c, "CRL", "Issuer."+fieldLabel(m), fmt.Sprintf("creation %d: %s", step+1, m), id, input)
		}
		if len(got.TBSCertList.RevokedCertificates) != len(mSerials) {
			histViol(c, "CRL", "RevokedCertificates", fmt.Sprintf("creation %d: want %d entries got %d", step+1, len(mSerials), len(got.TBSCertList.RevokedCertificates)), id, input)
		} else {
			for i, s := range mSerials {
				if got.TBSCertList.RevokedCertificates[i].SerialNumber.Cmp(s) != 0 {
					histViol(c, "CRL", "RevokedCertificates", fmt.Sprintf("creation %d entry %d differs", step+1, i), id, input)
					break
				}
			}
		}
		if err := ca.Cert.CheckCRLSignature(got); err != nil {
			histViol(c, "CRL", "verify", err.Error(), id, input)
		}
		c.Count("reuse_history_creations:CRL", 1)
		if step > 0 {
			c.Nontrivial("crl-hist", k.ID, fmt.Sprint(edits))
		}
	}
}
