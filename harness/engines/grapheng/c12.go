package grapheng

// C12 — Verifier.Verify results are a consistent view of the walked chains.
//
// W = Graph.WalkChains(c) is taken as given (it is C11's subject). Every field of
// the VerificationResult named in the property is recomputed from W, the
// factory's ground truth (validity windows, CA flag, root set, names, serials)
// and harness-side OneCRL / CRLSet models, for verification times on and around
// every validity boundary of the certificate and of members of its chains.

import (
	"encoding/hex"
	"fmt"
	"math/big"
	"math/rand/v2"
	"sort"
	"strings"
	"time"

	"github.com/zmap/zcrypto/verifier"
	"github.com/zmap/zcrypto/x509"
	"github.com/zmap/zcrypto/x509/revocation/google"
	"github.com/zmap/zcrypto/x509/revocation/mozilla"

	"verifharness/internal/core"
)

func init() {
	core.RegisterMeta("C12", core.Meta{
		Rule: "graphs from C11-style universes (without the dense meshes) whose certificates carry validity windows on a small grid (nested, disjoint, touching at the second, empty), " +
			"SAN variants (none/DNS/wildcard/IP only/mixed case) and colliding serials; for every certificate (graph members and fresh outsiders): VerifyTime at NotBefore-1s, NotBefore, +1s, " +
			"middle, NotAfter-1s, NotAfter, +1s of the certificate and of up to two other chain members, plus up to 8 sub-second instants around the same boundaries " +
			"(NotBefore+1ns, +500ms, +999999999ns, -1ns, NotAfter-1ns, -500ms, +1ns; some expressed in a non-UTC location), the reference deciding on the exact instant supplied; Name from {\"\", matching, case/trailing-dot variants, wildcard hits and misses, IP literals, mismatch}; " +
			"3 of 13 OneCRL/CRLSet model kinds per certificate (listed by issuer+serial, same issuer other serial, other issuer same serial, blocked subject+key, near-miss blocks, " +
			"CRLSet keyed by a parent's / a non-parent's SPKI hash, blocked parent SPKI, combinations, none), the interesting entries surrounded by decoy serials in ascending / descending / " +
			"shuffled / duplicated order; each model reaches the verifier in one of three ways: wire encoding + Parse, the exported structs built directly in model order, or two parsed halves merged by appending. Non-trivial = the certificate has at least one walked chain; " +
			"distinct by hash of (universe structure, certificate, time, name, revocation model)",
		MinNontrivial:         20000,
		MinNontrivialThorough: 600000,
		Shards:                16,
		Assumptions: []string{
			"Graph.WalkChains is trusted here (C11 checks it); a second WalkChains call returns the same multiset as the one inside Verify",
			"date buckets follow the C07 rule: lb = max NotBefore, ub = min NotAfter; current iff lb < t < ub; never iff not lb < ub; expired otherwise",
			"InRevocationSet is decided on the harness models: OneCRL lists (issuer name, serial) or blocks (subject, SHA-256 of SPKI); CRLSet lists (hex SHA-256 of a parent's SPKI, serial) or blocks that hash, for some certificate in Parents",
			"the hostname reference is the C09 statement restricted to well-formed names",
			"ParentSPKI and VerifyTime fields of the result are not named in the property: mismatches are counted, not asserted",
		},
	}, runC12)
}

var flavourC12 = flavour{minCerts: 4, maxCerts: 11, constrained: true, windows: true, sans: true, outsiders: true}

func bucketOf(chain []*certSpec, t time.Time) int { // 0 current, 1 expired, 2 never
	lb, ub := chain[0].notBefore(), chain[0].notAfter()
	for _, s := range chain[1:] {
		if s.notBefore().After(lb) {
			lb = s.notBefore()
		}
		if s.notAfter().Before(ub) {
			ub = s.notAfter()
		}
	}
	switch {
	case lb.Before(t) && t.Before(ub):
		return 0
	case lb.Before(ub):
		return 1
	default:
		return 2
	}
}

var bucketName = []string{"current", "expired", "never"}

type revVariant struct {
	kind   int
	supply int
	one    *oneCRLModel
	crl    *crlSetModel
	oneLib *mozilla.OneCRL
	crlLib *google.CRLSet
	desc   string
}

const nRevKinds = 13

// makeVariant builds a revocation model of the given kind aimed at certificate s.
func makeVariant(rng *rand.Rand, u *universe, s *certSpec, kind int) *revVariant {
	v := &revVariant{kind: kind}
	others := func(pred func(o *certSpec) bool) *certSpec {
		var cand []*certSpec
		for _, o := range u.Certs {
			if o != s && pred(o) {
				cand = append(cand, o)
			}
		}
		if len(cand) == 0 {
			return nil
		}
		return cand[rng.IntN(len(cand))]
	}
	otherIssuer := others(func(o *certSpec) bool { return o.IssuerName != s.IssuerName })
	otherKey := others(func(o *certSpec) bool { return o.Subj.Key != s.Subj.Key })
	otherSubj := others(func(o *certSpec) bool { return o.Subj.Name != s.Subj.Name })
	// the SPKI of whoever really signed s, if that identity has a certificate at all
	var parentHash, nonParentHash *[32]byte
	if id, ok := s.verifierIdent(); ok {
		for _, o := range u.Certs {
			if o.Subj == id {
				h := spkiHashOf(o)
				parentHash = &h
				break
			}
		}
	}
	for _, o := range u.Certs {
		h := spkiHashOf(o)
		if parentHash == nil || h != *parentHash {
			nonParentHash = &h
			if rng.IntN(2) == 0 {
				break
			}
		}
	}
	if parentHash == nil {
		h := spkiHashOf(s)
		parentHash = &h // nothing can be a parent; keeps the shapes the same
	}
	if nonParentHash == nil {
		h := [32]byte{1, 2, 3}
		nonParentHash = &h
	}
	lz := rng.IntN(3) == 0
	listed := oneCRLRecord{IssuerDER: s.Cert.RawIssuer, Serial: serialBytes(s.Serial, lz), note: "issuer+serial of " + s.label()}
	sameIssuerOtherSerial := oneCRLRecord{IssuerDER: s.Cert.RawIssuer, Serial: serialBytes(s.Serial+100, false), note: "issuer of " + s.label() + " other serial"}
	var decoys []oneCRLRecord
	decoys = append(decoys, sameIssuerOtherSerial)
	if otherIssuer != nil {
		decoys = append(decoys, oneCRLRecord{IssuerDER: otherIssuer.Cert.RawIssuer, Serial: serialBytes(s.Serial, false), note: "issuer of " + otherIssuer.label() + " serial of " + s.label()})
	}
	sh := spkiHashOf(s)
	blockedSelf := oneCRLRecord{Blocked: true, SubjectDER: s.Cert.RawSubject, PubKeyHash: sh[:], note: "blocked subject+key of " + s.label()}
	var nearBlocks []oneCRLRecord
	if otherKey != nil {
		h := spkiHashOf(otherKey)
		nearBlocks = append(nearBlocks, oneCRLRecord{Blocked: true, SubjectDER: s.Cert.RawSubject, PubKeyHash: h[:], note: "blocked subject of " + s.label() + " key of " + otherKey.label()})
	}
	if otherSubj != nil {
		nearBlocks = append(nearBlocks, oneCRLRecord{Blocked: true, SubjectDER: otherSubj.Cert.RawSubject, PubKeyHash: sh[:], note: "blocked subject of " + otherSubj.label() + " key of " + s.label()})
	}
	crlList := func(h [32]byte, serials ...int64) crlSetList {
		l := crlSetList{Hash: h}
		for _, x := range serials {
			l.Serials = append(l.Serials, serialBytes(x, rng.IntN(4) == 0))
		}
		return l
	}
	switch kind {
	case 0: // none
	case 1:
		v.one = &oneCRLModel{Records: append([]oneCRLRecord{decoys[0], listed}, decoys[1:]...)}
	case 2:
		v.one = &oneCRLModel{Records: decoys}
	case 3:
		v.one = &oneCRLModel{Records: append(append([]oneCRLRecord{}, nearBlocks...), blockedSelf)}
	case 4:
		v.one = &oneCRLModel{Records: nearBlocks}
	case 5:
		v.crl = &crlSetModel{Sequence: 7, NumParents: 2, Lists: []crlSetList{crlList(*nonParentHash, s.Serial+1), crlList(*parentHash, s.Serial+3, s.Serial, 77)}}
	case 6:
		v.crl = &crlSetModel{Sequence: 7, NumParents: 1, Lists: []crlSetList{crlList(*nonParentHash, s.Serial)}}
	case 7:
		v.crl = &crlSetModel{Sequence: 7, NumParents: 1, Lists: []crlSetList{crlList(*parentHash, s.Serial+1, s.Serial+256)}}
	case 8:
		v.crl = &crlSetModel{Sequence: 9, Blocked: []string{hex.EncodeToString(nonParentHash[:4]), hex.EncodeToString(parentHash[:])}}
	case 9:
		v.crl = &crlSetModel{Sequence: 9, Blocked: []string{hex.EncodeToString(nonParentHash[:])}, Lists: []crlSetList{crlList(*parentHash)}}
	case 10: // OneCRL silent, CRLSet lists
		v.one = &oneCRLModel{Records: decoys}
		v.crl = &crlSetModel{Sequence: 3, NumParents: 1, Lists: []crlSetList{crlList(*parentHash, s.Serial)}}
	case 11: // OneCRL lists, CRLSet silent
		v.one = &oneCRLModel{Records: []oneCRLRecord{listed}}
		v.crl = &crlSetModel{Sequence: 3, NumParents: 1, Lists: []crlSetList{crlList(*parentHash, s.Serial+5)}}
	case 12: // empty sets
		v.one = &oneCRLModel{}
		v.crl = &crlSetModel{}
	}
	// surround the interesting entries with decoys in varied orders
	var orders []string
	if v.crl != nil {
		for i := range v.crl.Lists {
			var o string
			v.crl.Lists[i].Serials, o = padSerials(rng, v.crl.Lists[i].Serials, s.Serial)
			orders = append(orders, o)
		}
	}
	if v.one != nil && len(v.one.Records) > 0 {
		var recs []oneCRLRecord
		for _, r := range v.one.Records {
			recs = append(recs, r)
			if !r.Blocked && rng.IntN(2) == 0 {
				decoy, _ := padSerials(rng, nil, s.Serial)
				for _, d := range decoy {
					recs = append(recs, oneCRLRecord{IssuerDER: r.IssuerDER, Serial: d, note: fmt.Sprintf("decoy %x", d)})
				}
			}
		}
		if rng.IntN(2) == 0 {
			rng.Shuffle(len(recs), func(i, j int) { recs[i], recs[j] = recs[j], recs[i] })
		}
		v.one.Records = recs
	}
	v.supply = rng.IntN(nSupplyModes)
	var parts []string
	if v.one != nil {
		parts = append(parts, v.one.String())
	}
	if v.crl != nil {
		parts = append(parts, v.crl.String()+fmt.Sprint(orders))
	}
	v.desc = fmt.Sprintf("kind%d supplied as %s: %s", kind, supplyName[v.supply], strings.Join(parts, " "))
	return v
}

func (v *revVariant) parse(rng *rand.Rand) error {
	if v.one != nil {
		lib, err := v.one.supply(v.supply, rng)
		if err != nil {
			return err
		}
		v.oneLib = lib
	}
	if v.crl != nil {
		lib, err := v.crl.supply(v.supply, rng)
		if err != nil {
			return err
		}
		v.crlLib = lib
	}
	return nil
}

func boundaryTimes(s *certSpec) []time.Time {
	nb, na := s.notBefore(), s.notAfter()
	mid := nb.Add(na.Sub(nb) / 2)
	return []time.Time{nb.Add(-time.Second), nb, nb.Add(time.Second), mid, na.Add(-time.Second), na, na.Add(time.Second)}
}

// subSecondTimes are instants strictly inside the one-second cells around the validity
// boundaries: the rule is NotBefore < t < NotAfter for the exact instant the caller supplies.
func subSecondTimes(s *certSpec) []time.Time {
	nb, na := s.notBefore(), s.notAfter()
	return []time.Time{nb.Add(time.Nanosecond), nb.Add(500 * time.Millisecond), nb.Add(999999999 * time.Nanosecond), nb.Add(-time.Nanosecond),
		na.Add(-time.Nanosecond), na.Add(-500 * time.Millisecond), na.Add(time.Nanosecond)}
}

var probeZones = []*time.Location{time.UTC, time.FixedZone("verif+0530", 5*3600+1800), time.FixedZone("verif-0800", -8*3600)}

func chainSpecs(u *universe, ch x509.CertificateChain) ([]*certSpec, bool) {
	out := make([]*certSpec, len(ch))
	for i, c := range ch {
		if c == nil {
			return nil, false
		}
		s := u.byFP[string(c.FingerprintSHA256)]
		if s == nil {
			return nil, false
		}
		out[i] = s
	}
	return out, len(ch) > 0
}

func fpSet(certs []*x509.Certificate) (map[string]int, []string) {
	m := map[string]int{}
	var l []string
	for _, c := range certs {
		if c == nil {
			m["<nil>"]++
			continue
		}
		m[string(c.FingerprintSHA256)]++
	}
	for k := range m {
		l = append(l, k)
	}
	sort.Strings(l)
	return m, l
}

func msEqual(a, b map[string]int) bool {
	if len(a) != len(b) {
		return false
	}
	for k, n := range a {
		if b[k] != n {
			return false
		}
	}
	return true
}

func runC12(c *core.Ctx) {
	nG := c.PerShard(c.Pick(300, 10000))
	for gi := 0; gi < nG; gi++ {
		gid := fmt.Sprintf("v%d.%d", c.Shard, gi)
		rng := c.SubRng(gid)
		u := newCheckedUniverse(c, rng, flavourC12, gid)
		if u == nil {
			continue
		}
		g, order, pi := buildWalkGraph(rng, u)
		if pi != nil {
			c.Violation("c12:graph-build:"+pi.Key, pi.Stack, gid, u.replayInput())
			continue
		}
		c.Count("graphs", 1)
		ver := verifier.NewVerifier(g, nil)
		sdesc := u.structDesc()
		for _, s := range u.Certs {
			if !checkVerify(c, rng, u, g, ver, s, gid, order, sdesc) {
				return
			}
		}
	}
}

func checkVerify(c *core.Ctx, rng *rand.Rand, u *universe, g *verifier.Graph, ver *verifier.Verifier, s *certSpec, gid, order, sdesc string) bool {
	certID := gid + "." + s.label()
	if c.OnlyCase != "" && !strings.HasPrefix(c.OnlyCase, certID+".") && c.OnlyCase != certID {
		return true
	}
	baseInput := func(extra map[string]any) map[string]any {
		in := u.replayInput()
		in["insert_order"] = order
		in["certificate"] = s.label()
		for k, v := range extra {
			in[k] = v
		}
		return in
	}
	cert, err := x509.ParseCertificate(s.DER)
	if err != nil {
		c.Violation("harness:reparse", err.Error(), certID, nil)
		return true
	}
	walked, key, detail := syncWalk(g, cert)
	if key != "" {
		c.Violation("c12:walk:"+key, detail, certID, baseInput(nil))
		return !strings.Contains(key, "did-not-return")
	}
	var W [][]*certSpec
	var wKeys []string
	for _, ch := range walked {
		sp, ok := chainSpecs(u, ch)
		if !ok {
			c.Violation("c12:walk:chain-with-unknown-certificate", u.labelSeq(ch), certID, baseInput(nil))
			return true
		}
		W = append(W, sp)
		wKeys = append(wKeys, chainKey(sp))
	}
	wMS := multiset(wKeys)
	c.Count("walked_chains", len(W))

	// probe times: the certificate's own boundaries and those of up to two other chain members
	var times []time.Time
	seenT := map[int64]bool{}
	addTimes := func(ts []time.Time) {
		for _, t := range ts {
			if !seenT[t.UnixNano()] {
				seenT[t.UnixNano()] = true
				times = append(times, t)
			}
		}
	}
	addTimes(boundaryTimes(s))
	var members []*certSpec
	seenM := map[int]bool{s.ID: true}
	for _, w := range W {
		for _, m := range w {
			if !seenM[m.ID] {
				seenM[m.ID] = true
				members = append(members, m)
			}
		}
	}
	// WalkChains returns chains in map order: sort before drawing so that the case list depends on the seed only
	sort.Slice(members, func(i, j int) bool { return members[i].ID < members[j].ID })
	rng.Shuffle(len(members), func(i, j int) { members[i], members[j] = members[j], members[i] })
	for i := 0; i < len(members) && i < 2; i++ {
		addTimes(boundaryTimes(members[i]))
	}
	if len(times) > 16 {
		times = times[:16]
	}
	nWhole := len(times)
	// sub-second instants around the same boundaries: a seed-determined selection of up to 8,
	// each verified with one of the revocation variants; some expressed in a non-UTC location
	{
		var sub []time.Time
		whole := times
		times = nil
		addTimes(subSecondTimes(s))
		for i := 0; i < len(members) && i < 2; i++ {
			addTimes(subSecondTimes(members[i]))
		}
		sub, times = times, whole
		rng.Shuffle(len(sub), func(i, j int) { sub[i], sub[j] = sub[j], sub[i] })
		if len(sub) > 8 {
			sub = sub[:8]
		}
		for _, t := range sub {
			times = append(times, t.In(probeZones[rng.IntN(len(probeZones))]))
		}
	}

	// revocation variants
	kinds := rng.Perm(nRevKinds)[:3]
	var variants []*revVariant
	for _, k := range kinds {
		v := makeVariant(rng, u, s, k)
		if err := v.parse(rng); err != nil {
			c.Violation("c12:revocation-set-rejected", fmt.Sprintf("%v for %s", err, v.desc), certID, baseInput(map[string]any{"revocation": v.desc}))
			continue
		}
		variants = append(variants, v)
	}
	hosts := hostCandidates(s.Subj.Name)
	dns, ips := sanOf(s.SANKind, s.Subj.Name)
	hasSAN := s.SANKind != 0
	isRoot := s.Root && !s.Outside
	serial := big.NewInt(s.Serial)

	for ti, t := range times {
		for vi, rv := range variants {
			if ti >= nWhole && vi != ti%len(variants) {
				continue // sub-second instants: one revocation variant each
			}
			name := ""
			if r := (ti*3 + vi) % 4; r != 0 {
				name = hosts[rng.IntN(len(hosts))]
			}
			caseID := fmt.Sprintf("%s.t%d.r%d", certID, t.Unix()-baseTime.Unix(), rv.kind)
			if ns := t.Nanosecond(); ns != 0 {
				caseID = fmt.Sprintf("%s.t%d+%dns.r%d", certID, t.Unix()-baseTime.Unix(), ns, rv.kind)
				c.Count("sub_second_verify_times", 1)
				if t.Location() != time.UTC {
					c.Count("sub_second_verify_times_in_non_utc_location", 1)
				}
			}
			if c.OnlyCase != "" && c.OnlyCase != caseID && c.OnlyCase != certID {
				continue
			}
			extra := map[string]any{"verify_time": t.Format(time.RFC3339Nano), "name": name, "revocation": rv.desc, "supplied_as": supplyName[rv.supply]}
			if rv.one != nil {
				extra["onecrl_json"] = string(rv.one.encode())
			}
			if rv.crl != nil {
				extra["crlset_hex"] = hex.EncodeToString(rv.crl.encode())
			}
			opts := verifier.VerificationOptions{VerifyTime: t, Name: name, OneCRL: rv.oneLib, CRLSet: rv.crlLib}
			vcert, _ := x509.ParseCertificate(s.DER)
			var res *verifier.VerificationResult
			gr := core.GuardFull(walkBudget, false, func() { res = ver.Verify(vcert, opts) })
			c.Eval(1)
			if gr.Panic != nil {
				c.Violation("c12:"+gr.Panic.Key, gr.Panic.Stack, caseID, baseInput(extra))
				continue
			}
			if gr.Hang {
				c.Violation("c12:verify-did-not-return", gr.HangDump, caseID, baseInput(extra))
				return false
			}
			if res == nil {
				c.Violation("c12:nil-result", "", caseID, baseInput(extra))
				continue
			}
			fail := func(key, format string, a ...any) {
				c.Violation(key, fmt.Sprintf("%s at t=base%+ds+%dns (%s) name=%q %s: ", s.label(), t.Unix()-baseTime.Unix(), t.Nanosecond(), t.Format(time.RFC3339Nano), name, rv.desc)+fmt.Sprintf(format, a...), caseID, baseInput(extra))
			}

			// ---- partition and buckets ----
			var exp [3][]string
			for _, w := range W {
				b := bucketOf(w, t)
				exp[b] = append(exp[b], chainKey(w))
			}
			gotLists := [3][]x509.CertificateChain{res.CurrentChains, res.ExpiredChains, res.NeverValidChains}
			var all []string
			chainsOK := true
			for b := 0; b < 3; b++ {
				var got []string
				for _, ch := range gotLists[b] {
					got = append(got, fpSeq(ch))
				}
				all = append(all, got...)
				if !msEqual(multiset(got), multiset(exp[b])) {
					chainsOK = false
					var lbl []string
					for _, ch := range gotLists[b] {
						lbl = append(lbl, u.labelSeq(ch))
					}
					var want []string
					for _, w := range W {
						if bucketOf(w, t) == b {
							want = append(want, chainLabel(w))
						}
					}
					sort.Strings(lbl)
					sort.Strings(want)
					fail("c12:bucket:"+bucketName[b], "%s chains are %s, the date rule puts %s there", bucketName[b], capList(lbl, 6), capList(want, 6))
				}
			}
			if !msEqual(multiset(all), wMS) {
				chainsOK = false
				fail("c12:partition", "current+expired+never hold %d chains, the walk finds %d", len(all), len(W))
			}
			// ---- valid at expiration ----
			tExp := s.notAfter().Add(-time.Second)
			var expVAE []string
			var vaeChains [][]*certSpec
			for _, w := range W {
				if bucketOf(w, tExp) == 0 {
					expVAE = append(expVAE, chainKey(w))
					vaeChains = append(vaeChains, w)
				}
			}
			var gotVAE []string
			for _, ch := range res.ValidAtExpirationChains {
				gotVAE = append(gotVAE, fpSeq(ch))
			}
			if !msEqual(multiset(gotVAE), multiset(expVAE)) {
				chainsOK = false
				fail("c12:valid-at-expiration", "ValidAtExpirationChains has %d chains, %d walked chains are current one second before NotAfter", len(gotVAE), len(expVAE))
			}
			// ---- expired flag ----
			expExpired := !(s.notBefore().Before(t) && t.Before(s.notAfter()))
			if res.Expired != expExpired {
				fail("c12:expired-flag", "Expired=%v, NotBefore<t<NotAfter is %v", res.Expired, !expExpired)
			}
			// ---- parents ----
			var relevant [][]*certSpec
			if expExpired {
				relevant = vaeChains
			} else {
				for _, w := range W {
					if bucketOf(w, t) == 0 {
						relevant = append(relevant, w)
					}
				}
			}
			expParents := map[string]*certSpec{}
			for _, w := range relevant {
				if len(w) >= 2 {
					expParents[w[1].FP] = w[1]
				}
			}
			gotParents, _ := fpSet(res.Parents)
			parentsOK := len(gotParents) == len(expParents)
			for k, n := range gotParents {
				if n != 1 || expParents[k] == nil {
					parentsOK = false
				}
			}
			if !parentsOK {
				var gl, el []string
				for k, n := range gotParents {
					gl = append(gl, fmt.Sprintf("%s x%d", u.label(k), n))
				}
				for _, p := range expParents {
					el = append(el, p.label())
				}
				sort.Strings(gl)
				sort.Strings(el)
				fail("c12:parents", "Parents=%v, distinct second certificates of the relevant (%s) chains=%v", gl, map[bool]string{true: "valid-at-expiration", false: "current"}[expExpired], el)
			}
			// ---- certificate type ----
			expType := x509.CertificateTypeUnknown
			switch {
			case isRoot:
				expType = x509.CertificateTypeRoot
			case s.truthCA() && len(expParents) > 0:
				expType = x509.CertificateTypeIntermediate
			case len(expParents) > 0:
				expType = x509.CertificateTypeLeaf
			}
			if res.CertificateType != expType {
				fail("c12:certificate-type", "CertificateType=%v, expected %v (root=%v ca=%v parents=%d)", res.CertificateType, expType, isRoot, s.truthCA(), len(expParents))
			}
			// ---- name ----
			if res.Name != name {
				fail("c12:name-field", "result Name=%q", res.Name)
			}
			expNameOK := name == "" || refHostMatch(dns, ips, hasSAN, cnOf(s.Subj.Name), name)
			if (res.NameError == nil) != expNameOK {
				fail("c12:name-error", "NameError=%v, reference matcher accepts=%v (san kind %d)", res.NameError, expNameOK, s.SANKind)
			}
			// ---- parent fingerprint ----
			if len(expParents) == 0 {
				if parentsOK && len(res.ParentSPKISubjectFingerprint) != 0 {
					fail("c12:parent-fingerprint", "ParentSPKISubjectFingerprint set without parents")
				}
			} else if parentsOK {
				ok := false
				okSPKI := false
				for _, p := range expParents {
					if string(res.ParentSPKISubjectFingerprint) == p.NodeFP {
						ok = true
					}
					if string(res.ParentSPKI) == string(p.Cert.RawSubjectPublicKeyInfo) {
						okSPKI = true
					}
				}
				if !ok {
					fail("c12:parent-fingerprint", "ParentSPKISubjectFingerprint %x is not that of any parent", res.ParentSPKISubjectFingerprint)
				}
				if !okSPKI {
					c.Count("unasserted:parent_spki_not_of_a_parent", 1)
				}
			}
			if !res.VerifyTime.Equal(t) {
				c.Count("unasserted:result_VerifyTime_field_not_set", 1)
			}
			// ---- revocation ----
			expRev := rv.one != nil && rv.one.lists(s)
			viaCRLSet := false
			if rv.crl != nil {
				for _, p := range expParents {
					h := spkiHashOf(p)
					if rv.crl.lists(hex.EncodeToString(h[:]), serial) {
						viaCRLSet = true
					}
				}
			}
			if res.InRevocationSet != (expRev || viaCRLSet) {
				fail("c12:in-revocation-set", "InRevocationSet=%v, models say OneCRL lists=%v, CRLSet lists via a parent=%v (parents=%d)", res.InRevocationSet, expRev, viaCRLSet, len(expParents))
			}
			// ---- evidence ----
			if expRev {
				c.Count("revoked_via_onecrl", 1)
			}
			if viaCRLSet {
				c.Count("revoked_via_crlset", 1)
			}
			if rv.one != nil || rv.crl != nil {
				c.Count("revocation_sets_supplied_as:"+supplyName[rv.supply], 1)
			}
			if !expRev && !viaCRLSet && (rv.one != nil || rv.crl != nil) {
				c.Count("revocation_sets_not_listing", 1)
			}
			c.Count(fmt.Sprintf("type_%v", expType), 1)
			if expExpired {
				c.Count("certificate_expired_at_verify_time", 1)
			}
			if name != "" {
				if expNameOK {
					c.Count("name_matches", 1)
				} else {
					c.Count("name_mismatches", 1)
				}
			}
			for b := 0; b < 3; b++ {
				c.Count("chains_"+bucketName[b], len(exp[b]))
			}
			c.Count("chains_valid_at_expiration", len(expVAE))
			nb := 0
			for b := 0; b < 3; b++ {
				if len(exp[b]) > 0 {
					nb++
				}
			}
			if nb >= 2 {
				c.Count("results_with_chains_in_several_buckets", 1)
			}
			if len(expParents) >= 2 {
				c.Count("results_with_several_parents", 1)
			}
			if len(W) > 0 {
				c.Nontrivial(sdesc, s.label(), t.UnixNano(), name, rv.desc)
			}
			if chainsOK && len(W) >= 2 && nb >= 2 && c.WantSample() {
				c.Sample(map[string]any{"certificate": s.desc(), "t": t.Format(time.RFC3339), "name": name, "revocation": rv.desc,
					"current": len(exp[0]), "expired": len(exp[1]), "never": len(exp[2]), "in_revocation_set": res.InRevocationSet, "type": fmt.Sprint(res.CertificateType)})
			}
		}
	}
	return true
}
