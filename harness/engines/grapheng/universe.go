package grapheng

// Certificate-universe factory with ground truth, private to this engine.
//
// A universe is a small set of certificates over a few subject names and a few
// keys of the fixed pool (ECDSA P-256 first, then P-384). For every certificate
// the factory records who really signed it (key index), whether the signature
// was corrupted afterwards, the issuer *name* it carries, its CA flag, path
// length limit, validity window, serial and names. The oracles decide on this
// record, never on what the code under test derived from the bytes.
//
// Ground truth for "node n verifies certificate c":
//     n.Name == c.IssuerName  &&  n.Key == c.SignerKey  &&  !c.Corrupt
// (distinct key indices are distinct keys, hence distinct SPKIs; the factory
// re-checks the claim for every (key, certificate) pair with Go's crypto/ecdsa).

import (
	"crypto"
	"crypto/ecdsa"
	crand "crypto/rand"
	"crypto/sha256"
	"crypto/sha512"
	"encoding/hex"
	"fmt"
	"math/big"
	"math/rand/v2"
	"net"
	"sort"
	"strings"
	"sync"
	"time"

	"github.com/zmap/zcrypto/x509"
	"github.com/zmap/zcrypto/x509/pkix"

	"verifharness/internal/keys"
)

// baseTime is the origin of all generated validity windows. It is far from any
// plausible wall clock so that code consulting time.Now() is caught.
var baseTime = time.Date(2035, 6, 1, 0, 0, 0, 0, time.UTC)

const (
	wideNB = -86400 * 30
	wideNA = 86400 * 3000
)

type ident struct{ Name, Key int }

func (i ident) String() string { return fmt.Sprintf("n%d/k%d", i.Name, i.Key) }

type certSpec struct {
	ID         int
	Subj       ident
	IssuerName int
	SignerKey  int
	Corrupt    bool
	BCValid    bool
	IsCA       bool
	PathLen    int // -1 = no limit
	NB, NA     int64
	Serial     int64
	SANKind    int
	Root       bool // member of the root set
	Outside    bool // never inserted into a graph (fresh start certificate)
	caRole     bool // generator intent: this certificate is meant to issue others

	DER    []byte
	Cert   *x509.Certificate
	Cert2  *x509.Certificate // second parse of the same bytes (distinct object)
	FP     string            // SHA-256 of DER, raw bytes
	NodeFP string            // SHA-256(SPKI || subject), raw bytes
}

func (s *certSpec) label() string { return fmt.Sprintf("c%d", s.ID) }

// truthCA is the ground truth of "is a CA certificate".
func (s *certSpec) truthCA() bool { return s.BCValid && s.IsCA }

// truthLimit returns the path length limit (-1 = none).
func (s *certSpec) truthLimit() int {
	if !s.BCValid {
		return -1
	}
	return s.PathLen
}

func (s *certSpec) notBefore() time.Time { return baseTime.Add(time.Duration(s.NB) * time.Second) }
func (s *certSpec) notAfter() time.Time  { return baseTime.Add(time.Duration(s.NA) * time.Second) }

func (s *certSpec) desc() string {
	x := 0
	if s.Corrupt {
		x = 1
	}
	fl := ""
	if s.Root {
		fl += "R"
	}
	if s.Outside {
		fl += "O"
	}
	return fmt.Sprintf("c%d:s=%s,i=n%d,sk=k%d,x=%d,bc=%v/%v,pl=%d,v=%d..%d,ser=%d,san=%d,%s",
		s.ID, s.Subj, s.IssuerName, s.SignerKey, x, s.BCValid, s.IsCA, s.PathLen, s.NB, s.NA, s.Serial, s.SANKind, fl)
}

type universe struct {
	KeyMap []int // universe key index -> pool index (into poolKeys())
	Certs  []*certSpec
	Motifs []string

	byFP      map[string]*certSpec
	identOfFP map[string]ident // node fingerprint -> identity
}

func (u *universe) desc() string {
	var sb strings.Builder
	fmt.Fprintf(&sb, "keys=%v;", u.KeyMap)
	for _, s := range u.Certs {
		sb.WriteString(s.desc())
		sb.WriteByte(';')
	}
	return sb.String()
}

// structDesc is desc without the pool key assignment (structure only).
func (u *universe) structDesc() string {
	var sb strings.Builder
	for _, s := range u.Certs {
		sb.WriteString(s.desc())
		sb.WriteByte(';')
	}
	return sb.String()
}

func (u *universe) replayInput() map[string]any {
	certs := make([]map[string]any, 0, len(u.Certs))
	for _, s := range u.Certs {
		certs = append(certs, map[string]any{"spec": s.desc(), "der": hex.EncodeToString(s.DER)})
	}
	return map[string]any{"keys": u.KeyMap, "motifs": u.Motifs, "base_time": baseTime.Format(time.RFC3339), "certs": certs}
}

// verifierIdent is the identity whose node (if it exists) verifies s.
func (s *certSpec) verifierIdent() (ident, bool) {
	if s.Corrupt {
		return ident{}, false
	}
	return ident{s.IssuerName, s.SignerKey}, true
}

// ---- key pool ----------------------------------------------------------------

var (
	poolOnce sync.Once
	poolEC   []*ecdsa.PrivateKey // P-256 x4 then P-384 x4
)

func poolKeys() []*ecdsa.PrivateKey {
	poolOnce.Do(func() {
		p := keys.Get()
		poolEC = append(poolEC, p.ECByCurve("P256")...)
		poolEC = append(poolEC, p.ECByCurve("P384")...)
	})
	return poolEC
}

const nP256 = 4

// ---- names -------------------------------------------------------------------

func nameOf(n int) pkix.Name {
	return pkix.Name{CommonName: cnOf(n), Organization: []string{"verif graph"}}
}

func cnOf(n int) string { return fmt.Sprintf("n%d.pki.test", n) }

func sanOf(kind, n int) (dns []string, ips []net.IP) {
	switch kind {
	case 1:
		return []string{cnOf(n), fmt.Sprintf("alt%d.pki.test", n)}, nil
	case 2:
		return []string{fmt.Sprintf("*.w%d.pki.test", n)}, nil
	case 3:
		return nil, []net.IP{net.IPv4(10, 0, 0, byte(1+n%200))}
	case 4:
		return []string{fmt.Sprintf("alt%d.pki.test", n)}, []net.IP{net.IPv4(10, 0, 0, byte(1+n%200))}
	case 5:
		return []string{fmt.Sprintf("N%d.PKI.Test", n)}, nil
	}
	return nil, nil
}

// ---- building ------------------------------------------------------------------

func (u *universe) key(i int) *ecdsa.PrivateKey { return poolKeys()[u.KeyMap[i]] }

func (u *universe) build() error {
	u.byFP = map[string]*certSpec{}
	u.identOfFP = map[string]ident{}
	for _, s := range u.Certs {
		tmpl := &x509.Certificate{
			SerialNumber:          big.NewInt(s.Serial),
			Subject:               nameOf(s.Subj.Name),
			NotBefore:             s.notBefore(),
			NotAfter:              s.notAfter(),
			BasicConstraintsValid: s.BCValid,
		}
		if s.BCValid {
			tmpl.IsCA = s.IsCA
			if s.PathLen >= 0 {
				tmpl.MaxPathLen = s.PathLen
				tmpl.MaxPathLenZero = s.PathLen == 0
			} else {
				tmpl.MaxPathLen = -1
			}
		}
		tmpl.DNSNames, tmpl.IPAddresses = sanOf(s.SANKind, s.Subj.Name)
		parent := &x509.Certificate{Subject: nameOf(s.IssuerName)}
		der, err := x509.CreateCertificate(crand.Reader, tmpl, parent, &u.key(s.Subj.Key).PublicKey, u.key(s.SignerKey))
		if err != nil {
			return fmt.Errorf("create %s: %v", s.desc(), err)
		}
		if s.Corrupt {
			// the last byte of the certificate is the last byte of the ECDSA s value
			der = append([]byte(nil), der...)
			der[len(der)-1] ^= 0x01
		}
		s.DER = der
		if s.Cert, err = x509.ParseCertificate(der); err != nil {
			return fmt.Errorf("parse %s: %v", s.desc(), err)
		}
		if s.Cert2, err = x509.ParseCertificate(der); err != nil {
			return fmt.Errorf("parse %s: %v", s.desc(), err)
		}
		fp := sha256.Sum256(der)
		s.FP = string(fp[:])
		h := sha256.New()
		h.Write(s.Cert.RawSubjectPublicKeyInfo)
		h.Write(s.Cert.RawSubject)
		s.NodeFP = string(h.Sum(nil))
		if _, dup := u.byFP[s.FP]; dup {
			return fmt.Errorf("two certificates with identical bytes")
		}
		u.byFP[s.FP] = s
		if id, ok := u.identOfFP[s.NodeFP]; ok && id != s.Subj {
			return fmt.Errorf("node fingerprint collision between %v and %v", id, s.Subj)
		}
		u.identOfFP[s.NodeFP] = s.Subj
	}
	return nil
}

func digestFor(alg x509.SignatureAlgorithm, tbs []byte) []byte {
	switch alg {
	case x509.ECDSAWithSHA256:
		d := sha256.Sum256(tbs)
		return d[:]
	case x509.ECDSAWithSHA384:
		d := sha512.Sum384(tbs)
		return d[:]
	case x509.ECDSAWithSHA512:
		d := sha512.Sum512(tbs)
		return d[:]
	}
	return nil
}

var _ = crypto.SHA256

// selfCheck re-derives the ground truth independently (Go's crypto/ecdsa over
// the TBS bytes, parsed attribute values) and returns disagreements. A non-empty
// result means the factory (or the parser it relies on) is broken, not the
// property under test.
func (u *universe) selfCheck() []string {
	var out []string
	identFP := map[ident]string{}
	nameRaw := map[int]string{}
	for _, s := range u.Certs {
		c := s.Cert
		if fp, ok := identFP[s.Subj]; ok && fp != s.NodeFP {
			out = append(out, fmt.Sprintf("%s: identity %v has two node fingerprints", s.label(), s.Subj))
		}
		identFP[s.Subj] = s.NodeFP
		if r, ok := nameRaw[s.Subj.Name]; ok && r != string(c.RawSubject) {
			out = append(out, fmt.Sprintf("%s: subject name n%d has two encodings", s.label(), s.Subj.Name))
		}
		nameRaw[s.Subj.Name] = string(c.RawSubject)
	}
	for _, s := range u.Certs {
		c := s.Cert
		if r, ok := nameRaw[s.IssuerName]; ok && r != string(c.RawIssuer) {
			out = append(out, fmt.Sprintf("%s: issuer name n%d encoded differently from the subject of that name", s.label(), s.IssuerName))
		}
		if (s.IssuerName == s.Subj.Name) != (string(c.RawIssuer) == string(c.RawSubject)) {
			out = append(out, fmt.Sprintf("%s: self-issued mismatch", s.label()))
		}
		if c.BasicConstraintsValid != s.BCValid || c.IsCA != s.truthCA() {
			out = append(out, fmt.Sprintf("%s: parsed basic constraints %v/%v, intended %v/%v", s.label(), c.BasicConstraintsValid, c.IsCA, s.BCValid, s.IsCA))
		}
		parsedLimit := -1
		if c.BasicConstraintsValid && c.MaxPathLen >= 0 {
			parsedLimit = c.MaxPathLen
		}
		if parsedLimit != s.truthLimit() {
			out = append(out, fmt.Sprintf("%s: parsed path length %d (zero=%v), intended %d", s.label(), c.MaxPathLen, c.MaxPathLenZero, s.truthLimit()))
		}
		if !c.NotBefore.Equal(s.notBefore()) || !c.NotAfter.Equal(s.notAfter()) {
			out = append(out, fmt.Sprintf("%s: parsed validity differs from intended", s.label()))
		}
		if c.SerialNumber == nil || c.SerialNumber.Cmp(big.NewInt(s.Serial)) != 0 {
			out = append(out, fmt.Sprintf("%s: parsed serial differs", s.label()))
		}
		dig := digestFor(c.SignatureAlgorithm, c.RawTBSCertificate)
		if dig == nil {
			out = append(out, fmt.Sprintf("%s: unexpected signature algorithm %v", s.label(), c.SignatureAlgorithm))
			continue
		}
		for k := range u.KeyMap {
			ok := ecdsa.VerifyASN1(&u.key(k).PublicKey, dig, c.Signature)
			want := k == s.SignerKey && !s.Corrupt
			if ok != want {
				out = append(out, fmt.Sprintf("%s: crypto/ecdsa says key k%d verifies=%v, ground truth %v", s.label(), k, ok, want))
			}
		}
	}
	return out
}

// ---- generation ----------------------------------------------------------------

type flavour struct {
	minCerts, maxCerts int
	constrained        bool // path-length limits, non-CA certificates in CA positions
	windows            bool // validity windows on a small grid (else one wide window)
	sans               bool // SAN variety
	outsiders          bool // certificates that are never inserted (fresh starts)
	big                bool // allow dense cross-sign meshes and long chains
}

type builder struct {
	rng    *rand.Rand
	u      *universe
	nNames int
	nKeys  int
	maxKey int
	cas    []ident // identities meant to act as issuers
}

func (b *builder) freshName() int { n := b.nNames; b.nNames++; return n }

// freshKey returns an unused key index, or (when the pool is exhausted) a random one.
func (b *builder) freshKey() int {
	if b.nKeys < b.maxKey {
		k := b.nKeys
		b.nKeys++
		return k
	}
	return b.rng.IntN(b.maxKey)
}

// otherKey returns a key index different from every key in avoid (allocating if possible).
func (b *builder) otherKey(avoid ...int) int {
	bad := func(k int) bool {
		for _, a := range avoid {
			if a == k {
				return true
			}
		}
		return false
	}
	if b.nKeys < b.maxKey {
		return b.freshKey()
	}
	for try := 0; try < 50; try++ {
		k := b.rng.IntN(b.maxKey)
		if !bad(k) {
			return k
		}
	}
	for k := 0; k < b.maxKey; k++ {
		if !bad(k) {
			return k
		}
	}
	return 0
}

func (b *builder) freshIdent() ident { return ident{b.freshName(), b.freshKey()} }

func (b *builder) someCA() (ident, bool) {
	if len(b.cas) == 0 {
		return ident{}, false
	}
	return b.cas[b.rng.IntN(len(b.cas))], true
}

func (b *builder) chance(p float64) bool { return b.rng.Float64() < p }

// add appends a certificate: subject identity, issuer name, signing key.
func (b *builder) add(subj ident, issName, signer int, ca bool) *certSpec {
	s := &certSpec{ID: len(b.u.Certs), Subj: subj, IssuerName: issName, SignerKey: signer,
		BCValid: true, IsCA: ca, PathLen: -1, NB: wideNB, NA: wideNA, Serial: int64(1 + b.rng.IntN(5)), caRole: ca}
	if !ca && b.chance(0.5) {
		s.BCValid = false
		s.IsCA = false
	}
	b.u.Certs = append(b.u.Certs, s)
	if ca {
		known := false
		for _, x := range b.cas {
			if x == subj {
				known = true
			}
		}
		if !known {
			b.cas = append(b.cas, subj)
		}
	}
	return s
}

func (b *builder) issue(subj, issuer ident, ca bool) *certSpec {
	return b.add(subj, issuer.Name, issuer.Key, ca)
}

func (b *builder) selfSigned(id ident, rootP float64) *certSpec {
	s := b.issue(id, id, true)
	s.Root = b.chance(rootP)
	return s
}

func (b *builder) motif(name string) { b.u.Motifs = append(b.u.Motifs, name) }

func (b *builder) motifChain() {
	b.motif("chain")
	var top ident
	if ca, ok := b.someCA(); ok && b.chance(0.35) {
		top = ca
	} else {
		top = b.freshIdent()
		b.selfSigned(top, 0.85)
	}
	depth := b.rng.IntN(3)
	cur := top
	for i := 0; i < depth; i++ {
		next := b.freshIdent()
		b.issue(next, cur, true)
		cur = next
	}
	b.issue(b.freshIdent(), cur, false)
}

func (b *builder) motifCross() {
	b.motif("cross-sign")
	var a ident
	if ca, ok := b.someCA(); ok && b.chance(0.3) {
		a = ca
	} else {
		a = b.freshIdent()
		b.selfSigned(a, 0.7)
	}
	bb := b.freshIdent()
	if b.chance(0.7) {
		b.selfSigned(bb, 0.5)
	}
	x := b.issue(a, bb, true)
	y := b.issue(bb, a, true)
	if b.chance(0.1) {
		x.Root = true
	}
	if b.chance(0.1) {
		y.Root = true
	}
	if b.chance(0.8) {
		iss := a
		if b.chance(0.5) {
			iss = bb
		}
		b.issue(b.freshIdent(), iss, false)
	}
}

func (b *builder) motifRollover() {
	b.motif("key-rollover")
	n := b.freshName()
	k1 := b.freshKey()
	k2 := b.otherKey(k1)
	o, nw := ident{n, k1}, ident{n, k2}
	if b.chance(0.85) {
		b.selfSigned(o, 0.8)
	}
	if b.chance(0.8) {
		b.selfSigned(nw, 0.5)
	}
	if b.chance(0.85) {
		b.issue(nw, o, true) // new-with-old
	}
	if b.chance(0.6) {
		b.issue(o, nw, true) // old-with-new
	}
	if b.chance(0.8) {
		iss := nw
		if b.chance(0.4) {
			iss = o
		}
		b.issue(b.freshIdent(), iss, false)
	}
}

func (b *builder) motifDangling() {
	b.motif("dangling-issuer")
	phantom := b.freshIdent() // never gets a certificate of its own
	c := b.freshIdent()
	s := b.issue(c, phantom, true)
	if b.chance(0.3) {
		s.Root = true // a trust anchor whose own issuer is unknown
	}
	if b.chance(0.7) {
		b.issue(b.freshIdent(), c, false)
	}
	if b.chance(0.4) {
		// a second certificate under the same unknown issuer name, other key
		b.add(b.freshIdent(), phantom.Name, b.otherKey(phantom.Key), b.chance(0.5))
	}
}

func (b *builder) motifSameSubject() {
	b.motif("same-subject-different-key")
	n := b.freshName()
	k1 := b.freshKey()
	k2 := b.otherKey(k1)
	a, c := ident{n, k1}, ident{n, k2}
	b.selfSigned(a, 0.8)
	if b.chance(0.6) {
		b.selfSigned(c, 0.5)
	} else if top, ok := b.someCA(); ok {
		b.issue(c, top, true)
	} else {
		b.selfSigned(c, 0.5)
	}
	b.issue(b.freshIdent(), a, b.chance(0.3))
	b.issue(b.freshIdent(), c, b.chance(0.3))
}

func (b *builder) motifBadSig() {
	b.motif("bad-signature")
	p, ok := b.someCA()
	if !ok {
		p = b.freshIdent()
		b.selfSigned(p, 0.9)
	}
	// name matches, key does not
	b.add(b.freshIdent(), p.Name, b.otherKey(p.Key), b.chance(0.4))
	if b.chance(0.6) {
		s := b.issue(b.freshIdent(), p, b.chance(0.4))
		s.Corrupt = true
	}
}

func (b *builder) motifMultiEdge() {
	b.motif("multi-edge")
	p, ok := b.someCA()
	if !ok {
		p = b.freshIdent()
		b.selfSigned(p, 0.9)
	}
	s := b.freshIdent()
	n := 2 + b.rng.IntN(2)
	for i := 0; i < n; i++ {
		x := b.issue(s, p, true)
		x.Serial = int64(10 + i)
		if b.chance(0.15) {
			x.Root = true
		}
	}
	if b.chance(0.7) {
		b.issue(b.freshIdent(), s, false)
	}
}

func (b *builder) motifSameKey() {
	b.motif("same-key-different-subject")
	p, ok := b.someCA()
	if !ok {
		p = b.freshIdent()
		b.selfSigned(p, 0.9)
	}
	q := ident{b.freshName(), p.Key}
	if b.chance(0.5) {
		b.selfSigned(q, 0.5)
	} else {
		b.issue(q, p, true)
	}
	b.issue(b.freshIdent(), q, false)
}

func (b *builder) motifDense() {
	b.motif("dense-mesh")
	n := 4 + b.rng.IntN(3)
	ids := make([]ident, n)
	for i := range ids {
		ids[i] = b.freshIdent()
	}
	anyRoot := false
	for i, id := range ids {
		if b.chance(0.75) {
			s := b.selfSigned(id, 0.45)
			anyRoot = anyRoot || s.Root
		}
		_ = i
	}
	for i := range ids {
		for j := range ids {
			if i != j {
				s := b.issue(ids[i], ids[j], true)
				if b.chance(0.04) {
					s.Root = true
					anyRoot = true
				}
			}
		}
	}
	if !anyRoot {
		b.selfSigned(ids[0], 1)
	}
	b.issue(b.freshIdent(), ids[b.rng.IntN(n)], false)
}

func (b *builder) motifLong() {
	b.motif("long-chain")
	total := 7 + b.rng.IntN(5) // certificates in the path incl. leaf and top: 7..11
	top := b.freshIdent()
	b.selfSigned(top, 1)
	cur := top
	for i := 0; i < total-2; i++ {
		next := b.freshIdent()
		s := b.issue(next, cur, true)
		if b.chance(0.1) {
			s.Root = true // a root in the middle of a longer path
		}
		cur = next
	}
	b.issue(b.freshIdent(), cur, false)
}

func (b *builder) extra() {
	var subj ident
	switch {
	case len(b.cas) > 0 && b.chance(0.3):
		subj, _ = b.someCA()
	default:
		subj = b.freshIdent()
	}
	var iss ident
	switch r := b.rng.IntN(10); {
	case r < 6 && len(b.cas) > 0:
		iss, _ = b.someCA()
	case r < 8:
		iss = subj
	default:
		iss = ident{b.freshName(), b.rng.IntN(b.maxKey)} // unknown issuer
	}
	s := b.issue(subj, iss, b.chance(0.6))
	if s.caRole && b.chance(0.1) {
		s.Root = true
	}
}

func (b *builder) addOutsiders() {
	n := 1 + b.rng.IntN(3)
	for i := 0; i < n; i++ {
		var s *certSpec
		p, ok := b.someCA()
		switch r := b.rng.IntN(10); {
		case r < 6 && ok: // issued by a graph node
			subj := b.freshIdent()
			if b.chance(0.25) {
				subj = p // a further certificate for an existing identity
				if q, ok2 := b.someCA(); ok2 {
					p = q
				}
			}
			s = b.issue(subj, p, b.chance(0.4))
		case r < 8 && ok: // name of a graph node, wrong key or broken signature
			if b.chance(0.5) {
				s = b.add(b.freshIdent(), p.Name, b.otherKey(p.Key), false)
			} else {
				s = b.issue(b.freshIdent(), p, false)
				s.Corrupt = true
			}
		default: // issued by nobody
			s = b.add(b.freshIdent(), b.freshName(), b.rng.IntN(b.maxKey), b.chance(0.3))
		}
		s.Outside = true
		s.Root = false
	}
}

var gridPoints = []int64{0, 3600, 7200, 7201, 10800, 86400}

func (b *builder) decorate(fl flavour) {
	u := b.u
	if fl.constrained {
		p := []float64{0, 0.08, 0.25}[b.rng.IntN(3)]
		for _, s := range u.Certs {
			if !s.caRole {
				continue
			}
			if b.chance(p) {
				s.PathLen = b.rng.IntN(4)
			}
			if b.chance(p * 0.4) {
				if b.chance(0.5) {
					s.IsCA = false
				} else {
					s.BCValid = false
					s.IsCA = false
					s.PathLen = -1
				}
			}
		}
	}
	if fl.windows {
		mode := b.rng.IntN(4)
		for _, s := range u.Certs {
			switch {
			case mode == 0:
				// all wide
			case mode == 1 && b.chance(0.6):
				// mostly wide
			default:
				var nb, na int64
				if b.chance(0.5) {
					nb = wideNB
				} else {
					nb = gridPoints[b.rng.IntN(len(gridPoints))]
				}
				if b.chance(0.4) {
					na = wideNA
				} else {
					na = gridPoints[b.rng.IntN(len(gridPoints))]
				}
				if na <= nb && !b.chance(0.15) {
					na = nb + []int64{1, 2, 3600, 86400}[b.rng.IntN(4)]
				}
				s.NB, s.NA = nb, na
			}
		}
	}
	if fl.sans {
		for _, s := range u.Certs {
			if s.caRole && !b.chance(0.3) {
				continue
			}
			s.SANKind = b.rng.IntN(6)
		}
	}
	// at least one root among the inserted certificates
	any := false
	for _, s := range u.Certs {
		any = any || (s.Root && !s.Outside)
	}
	if !any {
		var cand []*certSpec
		for _, s := range u.Certs {
			if !s.Outside && s.caRole {
				cand = append(cand, s)
			}
		}
		if len(cand) == 0 {
			for _, s := range u.Certs {
				if !s.Outside {
					cand = append(cand, s)
				}
			}
		}
		// prefer a self-signed one
		sort.SliceStable(cand, func(i, j int) bool {
			si := cand[i].IssuerName == cand[i].Subj.Name && cand[i].SignerKey == cand[i].Subj.Key
			sj := cand[j].IssuerName == cand[j].Subj.Name && cand[j].SignerKey == cand[j].Subj.Key
			return si && !sj
		})
		cand[0].Root = true
	}
}

// genUniverse draws one universe. The result is built (DER + parsed) and self-checked by the caller.
func genUniverse(rng *rand.Rand, fl flavour) *universe {
	u := &universe{}
	// key assignment: a permutation of the P-256 keys followed by a permutation of the P-384 keys
	p1 := rng.Perm(nP256)
	p2 := rng.Perm(len(poolKeys()) - nP256)
	for _, i := range p1 {
		u.KeyMap = append(u.KeyMap, i)
	}
	for _, i := range p2 {
		u.KeyMap = append(u.KeyMap, nP256+i)
	}
	b := &builder{rng: rng, u: u, maxKey: len(u.KeyMap)}
	target := fl.minCerts + rng.IntN(fl.maxCerts-fl.minCerts+1)
	small := []func(){b.motifChain, b.motifCross, b.motifRollover, b.motifDangling, b.motifSameSubject,
		b.motifBadSig, b.motifMultiEdge, b.motifSameKey, b.motifChain, b.motifCross}
	if fl.big && b.chance(0.3) {
		if b.chance(0.5) {
			b.motifDense()
		} else {
			b.motifLong()
			if b.chance(0.5) {
				b.motifCross()
			}
		}
	} else {
		for len(u.Certs) < target {
			if len(u.Certs) >= fl.minCerts-1 && b.chance(0.35) {
				b.motif("extra")
				b.extra()
				continue
			}
			small[rng.IntN(len(small))]()
		}
		if len(u.Certs) > fl.maxCerts {
			u.Certs = u.Certs[:fl.maxCerts]
		}
	}
	if fl.outsiders {
		b.addOutsiders()
	}
	b.decorate(fl)
	return u
}

// motifStats classifies a universe by the structures it really contains (ground truth).
func (u *universe) motifStats() map[string]bool {
	out := map[string]bool{}
	hasIdent := map[ident]bool{}
	nameKeys := map[int]map[int]bool{}
	for _, s := range u.Certs {
		if s.Outside {
			continue
		}
		hasIdent[s.Subj] = true
		if nameKeys[s.Subj.Name] == nil {
			nameKeys[s.Subj.Name] = map[int]bool{}
		}
		nameKeys[s.Subj.Name][s.Subj.Key] = true
	}
	issues := map[[2]ident]bool{}
	for _, s := range u.Certs {
		if s.Outside {
			continue
		}
		v, ok := s.verifierIdent()
		switch {
		case !ok:
			out["corrupted_signature"] = true
		case !hasIdent[v]:
			if len(nameKeys[s.IssuerName]) > 0 {
				out["issuer_name_matches_key_does_not"] = true
			} else {
				out["dangling_issuer_forever"] = true
			}
			if s.Root {
				out["root_without_issuer_node"] = true
			}
		default:
			issues[[2]ident{v, s.Subj}] = true
			if v == s.Subj {
				out["self_signed"] = true
			} else if v.Name == s.Subj.Name {
				out["self_issued_key_rollover"] = true
			}
		}
		if s.Root && !(ok && v == s.Subj) {
			out["root_not_self_signed"] = true
		}
	}
	for pr := range issues {
		if pr[0] != pr[1] && issues[[2]ident{pr[1], pr[0]}] {
			out["cross_sign"] = true
		}
	}
	for _, ks := range nameKeys {
		if len(ks) > 1 {
			out["same_subject_different_key"] = true
		}
	}
	return out
}
