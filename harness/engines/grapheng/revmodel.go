package grapheng

// Harness-side models of the two browser revocation sets the verifier consults,
// with their own wire encoders. Membership is decided on the model; the wire
// form is only the way to hand the model to the library (google.Parse /
// mozilla.Parse).
//
// CRLSet wire format (as consumed by google.Parse): uint16 little-endian header
// length, JSON header {"Sequence","NumParents","BlockedSPKIs",...}, then for each
// issuer: 32-byte SHA-256 of the issuer SPKI, uint32 little-endian serial count,
// and per serial one length byte followed by the big-endian serial bytes.
//
// OneCRL wire format (as consumed by mozilla.Parse): {"data":[record,...]} where a
// record carries either issuerName+serialNumber or subject+pubKeyHash, all
// base64 (standard alphabet) of DER name / big-endian serial / SHA-256 hash.

import (
	"bytes"
	"crypto/sha256"
	"encoding/base64"
	"encoding/binary"
	"encoding/hex"
	"encoding/json"
	"fmt"
	"math/big"
	"strings"
)

type crlSetList struct {
	Hash    [32]byte
	Serials [][]byte
}

type crlSetModel struct {
	Sequence   int
	NumParents int
	Blocked    []string // compared with the issuer-hash string the caller passes
	Lists      []crlSetList
}

func (m *crlSetModel) encode() []byte {
	hdr := map[string]any{"Version": 0, "ContentType": "CRLSet", "Sequence": m.Sequence, "DeltaFrom": 0,
		"NumParents": m.NumParents, "BlockedSPKIs": m.Blocked}
	if m.Blocked == nil {
		hdr["BlockedSPKIs"] = []string{}
	}
	hb, _ := json.Marshal(hdr)
	var buf bytes.Buffer
	binary.Write(&buf, binary.LittleEndian, uint16(len(hb)))
	buf.Write(hb)
	for _, l := range m.Lists {
		buf.Write(l.Hash[:])
		binary.Write(&buf, binary.LittleEndian, uint32(len(l.Serials)))
		for _, s := range l.Serials {
			buf.WriteByte(byte(len(s)))
			buf.Write(s)
		}
	}
	return buf.Bytes()
}

// lists decides whether the model revokes (issuer SPKI hash, serial).
func (m *crlSetModel) lists(issuerHashHex string, serial *big.Int) bool {
	for _, b := range m.Blocked {
		if b == issuerHashHex {
			return true
		}
	}
	for _, l := range m.Lists {
		if hex.EncodeToString(l.Hash[:]) != issuerHashHex {
			continue
		}
		for _, s := range l.Serials {
			if new(big.Int).SetBytes(s).Cmp(serial) == 0 {
				return true
			}
		}
	}
	return false
}

func (m *crlSetModel) String() string {
	var sb strings.Builder
	fmt.Fprintf(&sb, "CRLSet{blocked=%v", m.Blocked)
	for _, l := range m.Lists {
		fmt.Fprintf(&sb, " %x:[", l.Hash[:6])
		for _, s := range l.Serials {
			fmt.Fprintf(&sb, "%x ", s)
		}
		sb.WriteString("]")
	}
	sb.WriteString("}")
	return sb.String()
}

type oneCRLRecord struct {
	Blocked    bool
	IssuerDER  []byte // !Blocked
	Serial     []byte // !Blocked, big-endian
	SubjectDER []byte // Blocked
	PubKeyHash []byte // Blocked
	note       string
}

type oneCRLModel struct {
	Records []oneCRLRecord
}

func (m *oneCRLModel) encode() []byte {
	type details struct {
		Who     string `json:"who"`
		Created string `json:"created"`
		Bug     string `json:"bug"`
		Name    string `json:"name"`
		Why     string `json:"why"`
	}
	type rec struct {
		ID           string  `json:"id"`
		IssuerName   string  `json:"issuerName,omitempty"`
		SerialNumber string  `json:"serialNumber,omitempty"`
		Subject      string  `json:"subject,omitempty"`
		PubKeyHash   string  `json:"pubKeyHash,omitempty"`
		Enabled      bool    `json:"enabled"`
		Schema       int     `json:"schema"`
		LastModified int     `json:"last_modified"`
		Details      details `json:"details"`
	}
	recs := []rec{}
	for i, r := range m.Records {
		x := rec{ID: fmt.Sprintf("rec-%d", i), Enabled: true, Schema: 1552492993, LastModified: 1552492994,
			Details: details{Who: "verif", Bug: "https://bug.example/1", Name: "n", Why: "w"}}
		if r.Blocked {
			x.Subject = base64.StdEncoding.EncodeToString(r.SubjectDER)
			x.PubKeyHash = base64.StdEncoding.EncodeToString(r.PubKeyHash)
		} else {
			x.IssuerName = base64.StdEncoding.EncodeToString(r.IssuerDER)
			x.SerialNumber = base64.StdEncoding.EncodeToString(r.Serial)
		}
		recs = append(recs, x)
	}
	b, _ := json.Marshal(map[string]any{"data": recs})
	return b
}

// lists decides whether the model revokes the certificate.
func (m *oneCRLModel) lists(s *certSpec) bool {
	spkiHash := sha256.Sum256(s.Cert.RawSubjectPublicKeyInfo)
	serial := big.NewInt(s.Serial)
	for _, r := range m.Records {
		if r.Blocked {
			if bytes.Equal(r.SubjectDER, s.Cert.RawSubject) && bytes.Equal(r.PubKeyHash, spkiHash[:]) {
				return true
			}
			continue
		}
		if bytes.Equal(r.IssuerDER, s.Cert.RawIssuer) && new(big.Int).SetBytes(r.Serial).Cmp(serial) == 0 {
			return true
		}
	}
	return false
}

func (m *oneCRLModel) String() string {
	var sb strings.Builder
	sb.WriteString("OneCRL{")
	for _, r := range m.Records {
		sb.WriteString(r.note)
		sb.WriteByte(' ')
	}
	sb.WriteString("}")
	return sb.String()
}

func spkiHashOf(s *certSpec) [32]byte { return sha256.Sum256(s.Cert.RawSubjectPublicKeyInfo) }

func serialBytes(v int64, leadingZero bool) []byte {
	b := big.NewInt(v).Bytes()
	if leadingZero {
		b = append([]byte{0}, b...)
	}
	return b
}
