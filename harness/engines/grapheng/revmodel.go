package grapheng

// Harness-side models of the two browser revocation sets the verifier consults,
// with their own wire encoders. Membership is decided on the model; the wire
// form is only the way to hand the model to the library (google.Parse /
// mozilla.Parse).
//
// CRLSet wire format (as consumed by google.Parse): uint16 little-endian header
// length, JSON header {"Sequence","NumParents","BlockedSPKIs",...}, then for each
// issuer: 32-byte SHA-256 of the issuer SPKI, uint32 little-endian serial count,
// and per serial one length byte followed by the big-endian serial bytes.
//
// OneCRL wire format (as consumed by mozilla.Parse): {"data":[record,...]} where a
// record carries either issuerName+serialNumber or subject+pubKeyHash, all
// base64 (standard alphabet) of DER name / big-endian serial / SHA-256 hash.

import (
	"bytes"
	"crypto/sha256"
	"encoding/base64"
	"encoding/binary"
	"encoding/hex"
	"encoding/json"
	"fmt"
	"math/big"
	"math/rand/v2"
	"strings"

	"github.com/zmap/zcrypto/encoding/asn1"
	"github.com/zmap/zcrypto/x509/pkix"
	"github.com/zmap/zcrypto/x509/revocation/google"
	"github.com/zmap/zcrypto/x509/revocation/mozilla"
)

// Ways of handing a model to the verifier. The exported structs are plain data
// and VerificationOptions accepts any *CRLSet / *OneCRL, so a set need not come
// straight from Parse.
const (
	supplyWire    = iota // encode, then google.Parse / mozilla.Parse
	supplyStructs        // exported structs built directly, entries in model order
	supplyMerged         // model split in two, both parsed, second merged into the first by appending
	nSupplyModes
)

var supplyName = []string{"wire+Parse", "hand-built structs", "two parsed sets merged"}

type crlSetList struct {
	Hash    [32]byte
	Serials [][]byte
}

type crlSetModel struct {
	Sequence   int
	NumParents int
	Blocked    []string // compared with the issuer-hash string the caller passes
	Lists      []crlSetList
}

func (m *crlSetModel) encode() []byte {
	hdr := map[string]any{"Version": 0, "ContentType": "CRLSet", "Sequence": m.Sequence, "DeltaFrom": 0,
		"NumParents": m.NumParents, "BlockedSPKIs": m.Blocked}
	if m.Blocked == nil {
		hdr["BlockedSPKIs"] = []string{}
	}
	hb, _ := json.Marshal(hdr)
	var buf bytes.Buffer
	binary.Write(&buf, binary.LittleEndian, uint16(len(hb)))
	buf.Write(hb)
	for _, l := range m.Lists {
		buf.Write(l.Hash[:])
		binary.Write(&buf, binary.LittleEndian, uint32(len(l.Serials)))
		for _, s := range l.Serials {
			buf.WriteByte(byte(len(s)))
			buf.Write(s)
		}
	}
	return buf.Bytes()
}

// lists decides whether the model revokes (issuer SPKI hash, serial).
func (m *crlSetModel) lists(issuerHashHex string, serial *big.Int) bool {
	for _, b := range m.Blocked {
		if b == issuerHashHex {
			return true
		}
	}
	for _, l := range m.Lists {
		if hex.EncodeToString(l.Hash[:]) != issuerHashHex {
			continue
		}
		for _, s := range l.Serials {
			if new(big.Int).SetBytes(s).Cmp(serial) == 0 {
				return true
			}
		}
	}
	return false
}

func (m *crlSetModel) String() string {
	var sb strings.Builder
	fmt.Fprintf(&sb, "CRLSet{blocked=%v", m.Blocked)
	for _, l := range m.Lists {
		fmt.Fprintf(&sb, " %x:[", l.Hash[:6])
		for _, s := range l.Serials {
			fmt.Fprintf(&sb, "%x ", s)
		}
		sb.WriteString("]")
	}
	sb.WriteString("}")
	return sb.String()
}

type oneCRLRecord struct {
	Blocked    bool
	IssuerDER  []byte // !Blocked
	Serial     []byte // !Blocked, big-endian
	SubjectDER []byte // Blocked
	PubKeyHash []byte // Blocked
	note       string
}

type oneCRLModel struct {
	Records []oneCRLRecord
}

func (m *oneCRLModel) encode() []byte {
	type details struct {
		Who     string `json:"who"`
		Created string `json:"created"`
		Bug     string `json:"bug"`
		Name    string `json:"name"`
		Why     string `json:"why"`
	}
	type rec struct {
		ID           string  `json:"id"`
		IssuerName   string  `json:"issuerName,omitempty"`
		SerialNumber string  `json:"serialNumber,omitempty"`
		Subject      string  `json:"subject,omitempty"`
		PubKeyHash   string  `json:"pubKeyHash,omitempty"`
		Enabled      bool    `json:"enabled"`
		Schema       int     `json:"schema"`
		LastModified int     `json:"last_modified"`
		Details      details `json:"details"`
	}
	recs := []rec{}
	for i, r := range m.Records {
		x := rec{ID: fmt.Sprintf("rec-%d", i), Enabled: true, Schema: 1552492993, LastModified: 1552492994,
			Details: details{Who: "verif", Bug: "https://bug.example/1", Name: "n", Why: "w"}}
		if r.Blocked {
			x.Subject = base64.StdEncoding.EncodeToString(r.SubjectDER)
			x.PubKeyHash = base64.StdEncoding.EncodeToString(r.PubKeyHash)
		} else {
			x.IssuerName = base64.StdEncoding.EncodeToString(r.IssuerDER)
			x.SerialNumber = base64.StdEncoding.EncodeToString(r.Serial)
		}
		recs = append(recs, x)
	}
	b, _ := json.Marshal(map[string]any{"data": recs})
	return b
}

// lists decides whether the model revokes the certificate.
func (m *oneCRLModel) lists(s *certSpec) bool {
	spkiHash := sha256.Sum256(s.Cert.RawSubjectPublicKeyInfo)
	serial := big.NewInt(s.Serial)
	for _, r := range m.Records {
		if r.Blocked {
			if bytes.Equal(r.SubjectDER, s.Cert.RawSubject) && bytes.Equal(r.PubKeyHash, spkiHash[:]) {
				return true
			}
			continue
		}
		if bytes.Equal(r.IssuerDER, s.Cert.RawIssuer) && new(big.Int).SetBytes(r.Serial).Cmp(serial) == 0 {
			return true
		}
	}
	return false
}

func (m *oneCRLModel) String() string {
	var sb strings.Builder
	sb.WriteString("OneCRL{")
	for _, r := range m.Records {
		sb.WriteString(r.note)
		sb.WriteByte(' ')
	}
	sb.WriteString("}")
	return sb.String()
}

func spkiHashOf(s *certSpec) [32]byte { return sha256.Sum256(s.Cert.RawSubjectPublicKeyInfo) }

func serialBytes(v int64, leadingZero bool) []byte {
	b := big.NewInt(v).Bytes()
	if leadingZero {
		b = append([]byte{0}, b...)
	}
	return b
}

// ---- supplying a CRLSet model ------------------------------------------------------------

// handBuilt constructs the exported structs the way Parse fills them (hex issuer hash keys,
// big.Int serials), keeping the model's entry order.
func (m *crlSetModel) handBuilt() *google.CRLSet {
	cs := &google.CRLSet{Version: "verif", IssuerLists: map[string]*google.IssuerList{}, Sequence: m.Sequence,
		NumParents: m.NumParents, BlockedSPKIs: append([]string(nil), m.Blocked...)}
	for _, l := range m.Lists {
		h := hex.EncodeToString(l.Hash[:])
		il := &google.IssuerList{SPKIHash: h}
		for _, sb := range l.Serials {
			il.Entries = append(il.Entries, &google.Entry{SerialNumber: new(big.Int).SetBytes(sb)})
		}
		cs.IssuerLists[h] = il
	}
	return cs
}

// split cuts every serial list and the blocked list at a random point.
func (m *crlSetModel) split(rng *rand.Rand) (a, b *crlSetModel) {
	a = &crlSetModel{Sequence: m.Sequence, NumParents: m.NumParents}
	b = &crlSetModel{Sequence: m.Sequence + 1, NumParents: m.NumParents}
	cut := rng.IntN(len(m.Blocked) + 1)
	a.Blocked = append(a.Blocked, m.Blocked[:cut]...)
	b.Blocked = append(b.Blocked, m.Blocked[cut:]...)
	for _, l := range m.Lists {
		k := rng.IntN(len(l.Serials) + 1)
		if k > 0 || len(l.Serials) == 0 {
			a.Lists = append(a.Lists, crlSetList{Hash: l.Hash, Serials: l.Serials[:k]})
		}
		if k < len(l.Serials) {
			b.Lists = append(b.Lists, crlSetList{Hash: l.Hash, Serials: l.Serials[k:]})
		}
	}
	return
}

// mergeCRLSets appends b's content to a (a is modified and returned).
func mergeCRLSets(a, b *google.CRLSet) *google.CRLSet {
	a.BlockedSPKIs = append(a.BlockedSPKIs, b.BlockedSPKIs...)
	for k, bl := range b.IssuerLists {
		if al := a.IssuerLists[k]; al != nil {
			al.Entries = append(al.Entries, bl.Entries...)
		} else {
			a.IssuerLists[k] = bl
		}
	}
	return a
}

func (m *crlSetModel) supply(mode int, rng *rand.Rand) (*google.CRLSet, error) {
	switch mode {
	case supplyStructs:
		return m.handBuilt(), nil
	case supplyMerged:
		am, bm := m.split(rng)
		a, err := google.Parse(am.encode(), "verif")
		if err != nil {
			return nil, fmt.Errorf("google.Parse: %v", err)
		}
		b, err := google.Parse(bm.encode(), "verif")
		if err != nil {
			return nil, fmt.Errorf("google.Parse: %v", err)
		}
		return mergeCRLSets(a, b), nil
	}
	lib, err := google.Parse(m.encode(), "verif")
	if err != nil {
		return nil, fmt.Errorf("google.Parse: %v", err)
	}
	return lib, nil
}

// ---- supplying a OneCRL model --------------------------------------------------------------

func decodeName(der []byte) (*pkix.Name, error) {
	var rdn pkix.RDNSequence
	if _, err := asn1.Unmarshal(der, &rdn); err != nil {
		return nil, err
	}
	n := new(pkix.Name)
	n.FillFromRDNSequence(&rdn)
	return n, nil
}

// handBuilt constructs the exported structs the way Parse fills them (issuer lists keyed by
// Name.String(), blocked subject/key pairs), keeping the model's record order.
func (m *oneCRLModel) handBuilt() (*mozilla.OneCRL, error) {
	oc := &mozilla.OneCRL{IssuerLists: map[string]*mozilla.IssuerList{}, Blocked: []*mozilla.SubjectAndPublicKey{}}
	for i, r := range m.Records {
		if r.Blocked {
			n, err := decodeName(r.SubjectDER)
			if err != nil {
				return nil, err
			}
			oc.Blocked = append(oc.Blocked, &mozilla.SubjectAndPublicKey{RawSubject: r.SubjectDER, Subject: n, PubKeyHash: r.PubKeyHash})
			continue
		}
		n, err := decodeName(r.IssuerDER)
		if err != nil {
			return nil, err
		}
		e := &mozilla.Entry{ID: fmt.Sprintf("rec-%d", i), Enabled: true, Issuer: n, SerialNumber: new(big.Int).SetBytes(r.Serial)}
		key := n.String()
		if il := oc.IssuerLists[key]; il != nil {
			il.Entries = append(il.Entries, e)
		} else {
			oc.IssuerLists[key] = &mozilla.IssuerList{Issuer: n, Entries: []*mozilla.Entry{e}}
		}
	}
	return oc, nil
}

func mergeOneCRL(a, b *mozilla.OneCRL) *mozilla.OneCRL {
	a.Blocked = append(a.Blocked, b.Blocked...)
	for k, bl := range b.IssuerLists {
		if al := a.IssuerLists[k]; al != nil {
			al.Entries = append(al.Entries, bl.Entries...)
		} else {
			a.IssuerLists[k] = bl
		}
	}
	return a
}

func (m *oneCRLModel) supply(mode int, rng *rand.Rand) (*mozilla.OneCRL, error) {
	switch mode {
	case supplyStructs:
		return m.handBuilt()
	case supplyMerged:
		k := rng.IntN(len(m.Records) + 1)
		a, err := mozilla.Parse((&oneCRLModel{Records: m.Records[:k]}).encode())
		if err != nil {
			return nil, fmt.Errorf("mozilla.Parse: %v", err)
		}
		b, err := mozilla.Parse((&oneCRLModel{Records: m.Records[k:]}).encode())
		if err != nil {
			return nil, fmt.Errorf("mozilla.Parse: %v", err)
		}
		return mergeOneCRL(a, b), nil
	}
	lib, err := mozilla.Parse(m.encode())
	if err != nil {
		return nil, fmt.Errorf("mozilla.Parse: %v", err)
	}
	return lib, nil
}

// padSerials surrounds the serials of a list with decoys (never equal to avoid) and puts the
// result in one of several orders: ascending, descending, shuffled, shuffled with duplicates.
func padSerials(rng *rand.Rand, serials [][]byte, avoid int64) (out [][]byte, order string) {
	out = append(out, serials...)
	n := rng.IntN(7)
	for i := 0; i < n; i++ {
		var v int64
		switch rng.IntN(3) {
		case 0:
			v = avoid + 1 + int64(rng.IntN(40))
		case 1:
			v = 256 + int64(rng.IntN(70000))
		default:
			v = 1 + int64(rng.IntN(300))
		}
		if v == avoid {
			v++
		}
		out = append(out, serialBytes(v, rng.IntN(5) == 0))
	}
	val := func(b []byte) *big.Int { return new(big.Int).SetBytes(b) }
	sortAsc := func() {
		for i := 1; i < len(out); i++ {
			for j := i; j > 0 && val(out[j]).Cmp(val(out[j-1])) < 0; j-- {
				out[j], out[j-1] = out[j-1], out[j]
			}
		}
	}
	switch rng.IntN(4) {
	case 0:
		sortAsc()
		order = "ascending"
	case 1:
		sortAsc()
		for i, j := 0, len(out)-1; i < j; i, j = i+1, j-1 {
			out[i], out[j] = out[j], out[i]
		}
		order = "descending"
	case 2:
		rng.Shuffle(len(out), func(i, j int) { out[i], out[j] = out[j], out[i] })
		order = "shuffled"
	default:
		if len(out) > 0 {
			out = append(out, out[rng.IntN(len(out))], out[rng.IntN(len(out))])
		}
		rng.Shuffle(len(out), func(i, j int) { out[i], out[j] = out[j], out[i] })
		order = "shuffled+duplicates"
	}
	return
}
