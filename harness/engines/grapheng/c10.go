package grapheng

// C10 — the PKI graph is determined by its certificate set.
//
// For each generated universe a multiset of AddCert/AddRoot operations (with
// duplicates and root/non-root re-insertions) is executed in many orders. After
// EVERY step the hooked snapshot of verifier.Graph is compared with the
// reference graph of the certificates/roots inserted so far (every prefix of a
// history is itself "a sequence of insertions"); at the end of each order the
// canonical form of the snapshot is compared across orders.

import (
	"bytes"
	"fmt"
	"math/rand/v2"
	"sort"
	"strings"

	"github.com/zmap/zcrypto/verifier"
	"github.com/zmap/zcrypto/x509"

	"verifharness/internal/core"
)

func init() {
	core.RegisterMeta("C10", core.Meta{
		Rule: "universes of 4-10 certificates over 2-8 pool keys built from the motifs chain, cross-sign, self-issued key roll-over, dangling issuer, same subject/different key, " +
			"same key/different subject, name-matching issuer with wrong key or corrupted signature, several certificates per (issuer, subject); per universe one multiset of " +
			"AddCert/AddRoot operations (duplicates, re-insertion as root/non-root, second parse of the same bytes) executed in 24 (quick) / 120 (thorough) random orders; " +
			"the hooked graph state is compared with the reference graph after every step. Non-trivial = in that order at least one edge was observed without issuer and " +
			"later with one (dangling edge fixed up); distinct by hash of (universe structure, operation order)",
		MinNontrivial:         3000,
		MinNontrivialThorough: 100000,
		Shards:                16,
		Assumptions: []string{
			"ground truth 'key k signed certificate c' comes from the factory and is re-checked for every (key, certificate) pair with Go's crypto/ecdsa",
			"distinct pool keys have distinct SPKI encodings, so at most one node can verify a certificate in these universes (the permitted issuer ambiguity never arises)",
			"zcrypto's ParseCertificate/CreateCertificate are trusted for Raw*, validity and basic-constraints fields (self-checked against the intended values)",
			"the hook verifier.(*Graph).VerifView copies internal state faithfully",
		},
	}, runC10)
}

type problem struct{ key, detail string }

type gop struct {
	cert   int  // index into universe certs
	root   bool // AddRoot instead of AddCert
	second bool // pass the second parse of the same bytes
}

func (o gop) String() string {
	s := "C"
	if o.root {
		s = "R"
	}
	if o.second {
		s += "'"
	}
	return fmt.Sprintf("%s%d", s, o.cert)
}

func opsString(ops []gop) string {
	parts := make([]string, len(ops))
	for i, o := range ops {
		parts[i] = o.String()
	}
	return strings.Join(parts, " ")
}

// baseOps draws the operation multiset of a universe.
func baseOps(rng *rand.Rand, u *universe) []gop {
	var ops []gop
	for i, s := range u.Certs {
		if s.Outside {
			continue
		}
		if s.Root {
			ops = append(ops, gop{cert: i, root: true, second: rng.IntN(4) == 0})
			if rng.IntN(3) == 0 {
				ops = append(ops, gop{cert: i, root: false, second: rng.IntN(2) == 0})
			}
			if rng.IntN(5) == 0 {
				ops = append(ops, gop{cert: i, root: true, second: rng.IntN(2) == 0})
			}
		} else {
			ops = append(ops, gop{cert: i, second: rng.IntN(6) == 0})
			if rng.IntN(4) == 0 {
				ops = append(ops, gop{cert: i, second: rng.IntN(2) == 0})
			}
		}
	}
	return ops
}

// graphState is the reference state: which certificates were inserted, which were ever roots.
type graphState struct {
	in   []bool
	root []bool
}

func hx(s string) string {
	if len(s) > 6 {
		s = s[:6]
	}
	return fmt.Sprintf("%x", s)
}

// checkGraph compares a snapshot with the reference graph of the inserted certificates.
// It returns the problems found and the number of edges currently without issuer.
func checkGraph(u *universe, g *verifier.Graph, st *graphState) (probs []problem, danglingFPs map[string]bool) {
	add := func(key, format string, a ...any) {
		probs = append(probs, problem{key, fmt.Sprintf(format, a...)})
	}
	v := g.VerifView()

	// ---- reference ----
	expNodes := map[string]ident{} // node fp -> identity
	identNode := map[ident]string{}
	nIn := 0
	for i, s := range u.Certs {
		if st.in[i] {
			expNodes[s.NodeFP] = s.Subj
			identNode[s.Subj] = s.NodeFP
			nIn++
		}
	}
	expIssuer := func(s *certSpec) (string, bool) {
		id, ok := s.verifierIdent()
		if !ok {
			return "", false
		}
		fp, ok := identNode[id]
		return fp, ok
	}

	// ---- nodes ----
	ptrFP := map[*verifier.GraphNode]string{}
	seen := map[string]bool{}
	for _, nv := range v.Nodes {
		fp := string(nv.Fingerprint)
		if nv.Node == nil {
			add("c10:nodes:nil-node", "nil entry in node list")
			continue
		}
		if seen[fp] {
			add("c10:nodes:duplicate", "two nodes for (subject,SPKI) %s (%v)", hx(fp), expNodes[fp])
		}
		seen[fp] = true
		ptrFP[nv.Node] = fp
		id, ok := expNodes[fp]
		if !ok {
			add("c10:nodes:extra", "node %s is not the (subject,SPKI) of any inserted certificate", hx(fp))
			continue
		}
		sk := nv.Node.SubjectAndKey
		// the node must carry the subject and SPKI of its identity
		var ref *certSpec
		for i, s := range u.Certs {
			if st.in[i] && s.Subj == id {
				ref = s
				break
			}
		}
		if sk == nil || !bytes.Equal(sk.RawSubject, ref.Cert.RawSubject) || !bytes.Equal(sk.RawSubjectPublicKeyInfo, ref.Cert.RawSubjectPublicKeyInfo) {
			add("c10:nodes:wrong-subject-or-key", "node %s (%v) does not carry the subject/SPKI of its certificates", hx(fp), id)
		}
	}
	for fp, id := range expNodes {
		if !seen[fp] {
			add("c10:nodes:missing", "no node for (subject,SPKI) of identity %v", id)
		}
	}
	// index consistent with the node list
	if len(v.NodeIndex) != len(v.Nodes) {
		add("c10:node-index:size", "index has %d entries, node list %d", len(v.NodeIndex), len(v.Nodes))
	}
	for k, n := range v.NodeIndex {
		if fp, ok := ptrFP[n]; !ok || fp != k {
			add("c10:node-index:inconsistent", "index key %s maps to a node with fingerprint %s (listed=%v)", hx(k), hx(fp), ok)
		}
	}
	subjCount := 0
	for subj, ns := range v.NodesBySubject {
		for _, n := range ns {
			subjCount++
			if n == nil || n.SubjectAndKey == nil || string(n.SubjectAndKey.RawSubject) != subj {
				add("c10:subject-index:inconsistent", "node filed under a subject it does not have")
			} else if _, ok := ptrFP[n]; !ok {
				add("c10:subject-index:inconsistent", "subject index holds a node that is not in the node list")
			}
		}
	}
	if subjCount != len(v.Nodes) {
		add("c10:subject-index:inconsistent", "subject index holds %d nodes, node list %d", subjCount, len(v.Nodes))
	}

	// ---- edges ----
	danglingFPs = map[string]bool{}
	edgePtr := map[string]*verifier.GraphEdge{}
	seenE := map[string]bool{}
	for _, ev := range v.Edges {
		if ev.Edge == nil || ev.Certificate == nil {
			add("c10:edges:nil", "nil edge or certificate in edge set")
			continue
		}
		fp := string(ev.Certificate.FingerprintSHA256)
		if ev.SetKey != fp {
			add("c10:edges:set-key", "edge stored under a key that is not its certificate fingerprint")
		}
		s := u.byFP[fp]
		if s == nil || !st.in[s.ID] {
			add("c10:edges:extra", "edge for a certificate that was not inserted (%s)", hx(fp))
			continue
		}
		if seenE[fp] {
			add("c10:edges:duplicate", "two edges for %s", s.label())
		}
		seenE[fp] = true
		edgePtr[fp] = ev.Edge
		if !bytes.Equal(ev.Certificate.Raw, s.DER) {
			add("c10:edges:wrong-certificate", "edge %s holds other bytes", s.label())
		}
		// child
		if ev.Child == nil {
			add("c10:edge:child-missing", "%s has no child node", s.label())
		} else if cfp, ok := ptrFP[ev.Child]; !ok || cfp != s.NodeFP || v.NodeIndex[s.NodeFP] != ev.Child {
			add("c10:edge:child-wrong", "%s: child is node %s (%v), expected the node of %v", s.label(), hx(cfp), expNodes[cfp], s.Subj)
		}
		// issuer
		want, has := expIssuer(s)
		switch {
		case ev.Issuer == nil && has:
			add("c10:edge:issuer-missing", "%s has no issuer although node %v (issuer name n%d, signing key k%d) exists and verifies it", s.label(), expNodes[want], s.IssuerName, s.SignerKey)
		case ev.Issuer != nil && !has:
			ifp := ptrFP[ev.Issuer]
			add("c10:edge:issuer-spurious", "%s has issuer %v although no node with its issuer name verifies it (issuer name n%d, signed by k%d, corrupted=%v)", s.label(), expNodes[ifp], s.IssuerName, s.SignerKey, s.Corrupt)
		case ev.Issuer != nil:
			ifp, ok := ptrFP[ev.Issuer]
			if !ok {
				add("c10:edge:issuer-not-a-graph-node", "%s: issuer is not in the node list", s.label())
			} else if ifp != want {
				add("c10:edge:issuer-wrong", "%s: issuer is %v, but only %v has the issuer name and a verifying key", s.label(), expNodes[ifp], expNodes[want])
			}
		}
		if ev.Issuer == nil {
			danglingFPs[fp] = true
		}
		// root flag
		if ev.Root && !st.root[s.ID] {
			add("c10:root-flag:spurious", "%s is marked root but was never added as a root", s.label())
		}
		if !ev.Root && st.root[s.ID] {
			add("c10:root-flag:lost", "%s was added as a root but is not marked root", s.label())
		}
	}
	for i, s := range u.Certs {
		if st.in[i] && !seenE[s.FP] {
			add("c10:edges:missing", "no edge for inserted certificate %s", s.label())
		}
	}

	// ---- adjacency ----
	type slot struct{ node, key, fp string }
	inParents := map[slot]bool{}
	inChildren := map[slot]bool{}
	for _, nv := range v.Nodes {
		nfp := string(nv.Fingerprint)
		for k, set := range nv.Parents {
			for _, ev := range set {
				if ev.Edge == nil || ev.Certificate == nil {
					add("c10:adjacency:nil", "nil edge in a parent set")
					continue
				}
				fp := string(ev.Certificate.FingerprintSHA256)
				if edgePtr[fp] != ev.Edge {
					add("c10:adjacency:foreign-edge", "parent set holds an edge object that is not the graph's edge for that certificate")
				}
				if ev.Child != nv.Node {
					add("c10:adjacency:parents-wrong-child", "%s is in a parent set of node %v but its child is another node", u.label(fp), expNodes[nfp])
				}
				if ev.Issuer == nil || ptrFP[ev.Issuer] != k {
					add("c10:adjacency:parents-wrong-key", "%s is in parent set keyed %v of node %v but its issuer is %v", u.label(fp), expNodes[k], expNodes[nfp], expNodes[ptrFP[ev.Issuer]])
				}
				if ev.SetKey != fp {
					add("c10:adjacency:set-key", "edge stored under a key that is not its certificate fingerprint")
				}
				inParents[slot{nfp, k, fp}] = true
			}
		}
		for k, set := range nv.Children {
			for _, ev := range set {
				if ev.Edge == nil || ev.Certificate == nil {
					add("c10:adjacency:nil", "nil edge in a child set")
					continue
				}
				fp := string(ev.Certificate.FingerprintSHA256)
				if edgePtr[fp] != ev.Edge {
					add("c10:adjacency:foreign-edge", "child set holds an edge object that is not the graph's edge for that certificate")
				}
				if ev.Issuer != nv.Node {
					add("c10:adjacency:children-wrong-issuer", "%s is in a child set of node %v but its issuer is another node", u.label(fp), expNodes[nfp])
				}
				if ev.Child == nil || ptrFP[ev.Child] != k {
					add("c10:adjacency:children-wrong-key", "%s is in child set keyed %v of node %v but its child is %v", u.label(fp), expNodes[k], expNodes[nfp], expNodes[ptrFP[ev.Child]])
				}
				if ev.SetKey != fp {
					add("c10:adjacency:set-key", "edge stored under a key that is not its certificate fingerprint")
				}
				inChildren[slot{nfp, k, fp}] = true
			}
		}
	}
	for _, ev := range v.Edges {
		if ev.Edge == nil || ev.Certificate == nil || ev.Issuer == nil || ev.Child == nil {
			continue
		}
		fp := string(ev.Certificate.FingerprintSHA256)
		ifp, cfp := ptrFP[ev.Issuer], ptrFP[ev.Child]
		if !inParents[slot{cfp, ifp, fp}] {
			add("c10:adjacency:missing-from-parents", "%s (issuer %v, child %v) is not in its child's parent set for that issuer", u.label(fp), expNodes[ifp], expNodes[cfp])
		}
		if !inChildren[slot{ifp, cfp, fp}] {
			add("c10:adjacency:missing-from-children", "%s (issuer %v, child %v) is not in its issuer's child set for that child", u.label(fp), expNodes[ifp], expNodes[cfp])
		}
	}

	// ---- missing-issuer index ----
	inMissing := map[string]bool{}
	for k, set := range v.MissingIssuer {
		for _, ev := range set {
			if ev.Edge == nil || ev.Certificate == nil {
				add("c10:missing-issuer-index:nil", "nil edge")
				continue
			}
			fp := string(ev.Certificate.FingerprintSHA256)
			if inMissing[fp] {
				add("c10:missing-issuer-index:duplicate", "%s filed twice", u.label(fp))
			}
			inMissing[fp] = true
			if edgePtr[fp] != ev.Edge {
				add("c10:missing-issuer-index:foreign-edge", "index holds an edge object that is not the graph's edge")
			}
			if k != string(ev.Certificate.RawIssuer) {
				add("c10:missing-issuer-index:wrong-key", "%s filed under a name that is not its issuer name", u.label(fp))
			}
			if ev.Issuer != nil {
				add("c10:missing-issuer-index:stale", "%s has an issuer but is still in the missing-issuer index", u.label(fp))
			}
		}
	}
	for fp := range danglingFPs {
		if !inMissing[fp] {
			add("c10:missing-issuer-index:incomplete", "%s has no issuer but is not in the missing-issuer index", u.label(fp))
		}
	}

	// ---- public API agrees with the hook view ----
	pubNodes := g.Nodes()
	if len(pubNodes) != len(v.Nodes) {
		add("c10:api:Nodes", "Nodes() returns %d nodes, internal list %d", len(pubNodes), len(v.Nodes))
	}
	for _, n := range pubNodes {
		if _, ok := ptrFP[n]; !ok {
			add("c10:api:Nodes", "Nodes() returns a node that is not in the graph")
		}
	}
	pubEdges := g.Edges()
	if len(pubEdges) != len(v.Edges) {
		add("c10:api:Edges", "Edges() returns %d edges, internal set %d", len(pubEdges), len(v.Edges))
	}
	for _, e := range pubEdges {
		if e == nil || e.Certificate == nil || edgePtr[string(e.Certificate.FingerprintSHA256)] != e {
			add("c10:api:Edges", "Edges() returns an edge that is not in the graph")
		}
	}
	for i, s := range u.Certs {
		e := g.FindEdge(x509.CertificateFingerprint(s.FP))
		if st.in[i] != (e != nil) || (e != nil && e != edgePtr[s.FP]) {
			add("c10:api:FindEdge", "FindEdge(%s) = %v, inserted=%v", s.label(), e != nil, st.in[i])
		}
		for _, c := range []*x509.Certificate{s.Cert, s.Cert2} {
			if got := g.IsRoot(c); got != st.root[i] {
				add("c10:api:IsRoot", "IsRoot(%s) = %v, ever added as root = %v", s.label(), got, st.root[i])
			}
		}
		n := g.FindNode(x509.CertificateFingerprint(s.NodeFP))
		_, want := expNodes[s.NodeFP]
		if want != (n != nil) || (n != nil && ptrFP[n] != s.NodeFP) {
			add("c10:api:FindNode", "FindNode(%v) = %v, expected present=%v", s.Subj, n != nil, want)
		}
	}
	return probs, danglingFPs
}

func (u *universe) label(fp string) string {
	if s := u.byFP[fp]; s != nil {
		return s.label()
	}
	return "cert:" + hx(fp)
}

// canonical renders a snapshot independent of map order and object identity.
func canonical(u *universe, g *verifier.Graph) string {
	v := g.VerifView()
	var lines []string
	setStr := func(set []verifier.VerifEdgeView) string {
		var fps []string
		for _, ev := range set {
			if ev.Certificate != nil {
				fps = append(fps, u.label(string(ev.Certificate.FingerprintSHA256)))
			}
		}
		sort.Strings(fps)
		return strings.Join(fps, ",")
	}
	for _, ev := range v.Edges {
		if ev.Certificate == nil {
			continue
		}
		lines = append(lines, fmt.Sprintf("E %s issuer=%x child=%x root=%v", u.label(string(ev.Certificate.FingerprintSHA256)), ev.IssuerFP, ev.ChildFP, ev.Root))
	}
	for _, nv := range v.Nodes {
		var parts []string
		for k, set := range nv.Parents {
			if len(set) > 0 {
				parts = append(parts, fmt.Sprintf("p[%x]={%s}", k, setStr(set)))
			}
		}
		for k, set := range nv.Children {
			if len(set) > 0 {
				parts = append(parts, fmt.Sprintf("c[%x]={%s}", k, setStr(set)))
			}
		}
		sort.Strings(parts)
		lines = append(lines, fmt.Sprintf("N %x %s", nv.Fingerprint, strings.Join(parts, " ")))
	}
	for k, set := range v.MissingIssuer {
		if len(set) > 0 {
			lines = append(lines, fmt.Sprintf("M %x {%s}", k, setStr(set)))
		}
	}
	sort.Strings(lines)
	return strings.Join(lines, "\n")
}

// newCheckedUniverse draws, builds and self-checks a universe; problems are reported as harness violations.
func newCheckedUniverse(c *core.Ctx, rng *rand.Rand, fl flavour, id string) *universe {
	u := genUniverse(rng, fl)
	if err := u.build(); err != nil {
		c.Violation("harness:universe-build-failed", err.Error(), id, map[string]any{"universe": u.structDesc()})
		return nil
	}
	if probs := u.selfCheck(); len(probs) > 0 {
		c.Violation("harness:universe-selfcheck", strings.Join(probs, "\n"), id, u.replayInput())
		return nil
	}
	return u
}

var flavourC10 = flavour{minCerts: 4, maxCerts: 10}

func runC10(c *core.Ctx) {
	nU := c.PerShard(c.Pick(400, 10000))
	nOrders := c.Pick(24, 120)
	for ui := 0; ui < nU; ui++ {
		uid := fmt.Sprintf("u%d.%d", c.Shard, ui)
		rng := c.SubRng(uid)
		u := newCheckedUniverse(c, rng, flavourC10, uid)
		if u == nil {
			continue
		}
		c.Count("universes", 1)
		c.Count("certificates", len(u.Certs))
		for m := range u.motifStats() {
			c.Count("universes_with_"+m, 1)
		}
		ops := baseOps(rng, u)
		sdesc := u.structDesc()
		var firstCanon, firstOrder string
		for oi := 0; oi < nOrders; oi++ {
			order := make([]gop, len(ops))
			copy(order, ops)
			if oi > 0 {
				rng.Shuffle(len(order), func(i, j int) { order[i], order[j] = order[j], order[i] })
			}
			caseID := fmt.Sprintf("%s.o%d", uid, oi)
			if c.OnlyCase != "" && c.OnlyCase != caseID {
				continue
			}
			ostr := opsString(order)
			input := func() map[string]any {
				in := u.replayInput()
				in["ops"] = ostr
				return in
			}
			g := verifier.NewGraph()
			st := &graphState{in: make([]bool, len(u.Certs)), root: make([]bool, len(u.Certs))}
			everDangling := map[string]bool{}
			resolved := 0
			failed := false
			for step, o := range order {
				s := u.Certs[o.cert]
				cert := s.Cert
				if o.second {
					cert = s.Cert2
				}
				pi := core.Guard(func() {
					if o.root {
						g.AddRoot(cert)
					} else {
						g.AddCert(cert)
					}
				})
				if pi != nil {
					c.Violation("c10:"+pi.Key, fmt.Sprintf("step %d (%s) of [%s]\n%s", step, o, ostr, pi.Stack), caseID, input())
					failed = true
					break
				}
				st.in[o.cert] = true
				if o.root {
					st.root[o.cert] = true
				}
				probs, dangling := checkGraph(u, g, st)
				for fp := range everDangling {
					if !dangling[fp] {
						resolved++
						delete(everDangling, fp)
					}
				}
				for fp := range dangling {
					everDangling[fp] = true
				}
				if len(probs) > 0 {
					seen := map[string]bool{}
					for _, p := range probs {
						if seen[p.key] {
							continue
						}
						seen[p.key] = true
						c.Violation(p.key, fmt.Sprintf("after step %d (%s) of [%s]: %s", step, o, ostr, p.detail), caseID, input())
					}
					failed = true
					break
				}
			}
			c.Eval(1)
			c.Count("operations", len(order))
			if failed {
				continue
			}
			c.Count("dangling_edges_fixed_up", resolved)
			if len(everDangling) > 0 {
				c.Count("orders_ending_with_dangling_edges", 1)
			}
			if resolved > 0 {
				c.Nontrivial(sdesc, ostr)
			}
			canon := canonical(u, g)
			if oi == 0 || firstCanon == "" {
				firstCanon, firstOrder = canon, ostr
			} else if canon != firstCanon {
				c.Violation("c10:order-dependence", fmt.Sprintf("orders [%s] and [%s] of the same operations end in different graphs:\n--- first\n%s\n--- second\n%s", firstOrder, ostr, firstCanon, canon), caseID, input())
			}
			if oi == 1 && c.WantSample() {
				c.Sample(map[string]any{"universe": sdesc, "order": ostr, "fixed_up": resolved})
			}
		}
	}
}
