package grapheng

// C11 — chain walking returns exactly the permitted root-terminated paths.
//
// Reference: an independent depth-first enumeration over the hooked adjacency
// (the state C10 validates), deciding CA-ness, path-length limits and "who
// signed what" on the factory's ground truth. Two readings are computed:
//
//   lenient (asserted): moves along edges filed in a node's parent sets (issuer
//     link resolved in the graph); a candidate is skipped when the (subject,key)
//     of the node it leads to already occurs as the subject of a certificate in
//     the path; a root edge without issuer is reachable only as the start.
//   strict (counted only): any edge whose child is the current node may be
//     taken (a root edge needs no issuer), and "never revisits" means the
//     certificates of a path have pairwise distinct (subject,key).
//
// WalkChains must equal the lenient set as a multiset (duplicates are
// violations). WalkChainsAsync must deliver the same multiset for every channel
// size and consumer pacing and close its channel; delivered chains must not
// change afterwards.

import (
	"fmt"
	"math/rand/v2"
	"regexp"
	"runtime"
	"sort"
	"strings"
	"time"

	"github.com/zmap/zcrypto/verifier"
	"github.com/zmap/zcrypto/x509"

	"verifharness/internal/core"
)

const docMaxChainLen = 9 // verifier.maxIntermediateCount: a chain never has more certificates

func init() {
	core.RegisterMeta("C11", core.Meta{
		Rule: "graphs from C10-style universes (chains, cross-signs, key roll-overs, dangling issuers, same subject/different key, bad signatures, multi-edges; path-length limits 0-3 and " +
			"non-CA certificates in CA positions at random depths) plus dense meshes (4-6 CAs all cross-signed) and chains of 7-11 certificates straddling the documented maximum 9, " +
			"roots in the middle of longer paths; start = every certificate of the graph and 1-3 fresh certificates not in the graph (issued by a graph node / by nobody / bad signature). " +
			"WalkChains is compared with an independent enumeration over the hooked adjacency; WalkChainsAsync with channel sizes {default,1,2,64} x consumer pacing {eager, yield, 50us sleep} " +
			"(race leg: all 12 combinations under the race detector at GOMAXPROCS 1 and 4). Non-trivial = the start has >=2 chains or the graph contains a cycle; distinct by hash of (universe structure, start)",
		MinNontrivial:         2000,
		MinNontrivialThorough: 60000,
		Shards:                16,
		RaceShards:            4,
		RacePkgs:              []string{"zcrypto/verifier"},
		Assumptions: []string{
			"the adjacency read through the hook is the one C10 validates; CA flag, path-length limit and signer of every certificate are the factory's ground truth",
			"'follows issuer edges' is read leniently (edges whose issuer link is resolved; look-ahead revisit test on the issuer node); disagreements with the strict reading are counted, not asserted",
			"'documented maximum length' = 9 certificates (maxIntermediateCount)",
			"channel closure is observed as bounded progress: a receive must report closed within 30 s of the last delivery; the goroutine dump at expiry is the witness",
		},
	}, runC11)
}

// ---- reference graph ---------------------------------------------------------------

type rNode struct {
	fp      string
	id      ident
	parents []*rEdge // edges filed in this node's parent sets (hook view)
	inEdges []*rEdge // all edges whose child is this node (strict reading)
}

type rEdge struct {
	spec   *certSpec
	issuer *rNode // edge's own issuer link, nil when unresolved
	child  *rNode
	root   bool
}

type refGraph struct {
	u     *universe
	nodes map[string]*rNode
	edges map[string]*rEdge
	cycle bool
}

func buildRef(u *universe, g *verifier.Graph) (*refGraph, error) {
	v := g.VerifView()
	r := &refGraph{u: u, nodes: map[string]*rNode{}, edges: map[string]*rEdge{}}
	ptr := map[*verifier.GraphNode]*rNode{}
	for _, nv := range v.Nodes {
		fp := string(nv.Fingerprint)
		id, ok := u.identOfFP[fp]
		if !ok {
			return nil, fmt.Errorf("graph node %x is unknown to the universe", fp)
		}
		n := &rNode{fp: fp, id: id}
		r.nodes[fp] = n
		ptr[nv.Node] = n
	}
	for _, ev := range v.Edges {
		fp := string(ev.Certificate.FingerprintSHA256)
		s := u.byFP[fp]
		if s == nil {
			return nil, fmt.Errorf("graph edge %x is unknown to the universe", fp)
		}
		e := &rEdge{spec: s, issuer: ptr[ev.Issuer], child: ptr[ev.Child], root: ev.Root}
		r.edges[fp] = e
		if e.child != nil {
			e.child.inEdges = append(e.child.inEdges, e)
		}
	}
	for _, nv := range v.Nodes {
		n := r.nodes[string(nv.Fingerprint)]
		var ks []string
		for k := range nv.Parents {
			ks = append(ks, k)
		}
		sort.Strings(ks)
		for _, k := range ks {
			for _, ev := range nv.Parents[k] {
				e := r.edges[string(ev.Certificate.FingerprintSHA256)]
				if e == nil {
					return nil, fmt.Errorf("parent set holds an edge that is not in the graph")
				}
				n.parents = append(n.parents, e)
			}
		}
		sort.Slice(n.parents, func(i, j int) bool { return n.parents[i].spec.ID < n.parents[j].spec.ID })
		sort.Slice(n.inEdges, func(i, j int) bool { return n.inEdges[i].spec.ID < n.inEdges[j].spec.ID })
	}
	// cycle among nodes (child -> issuer moves), self-loops excluded
	color := map[*rNode]int{}
	var dfs func(n *rNode) bool
	dfs = func(n *rNode) bool {
		color[n] = 1
		for _, e := range n.parents {
			m := e.issuer
			if m == nil || m == n {
				continue
			}
			if color[m] == 1 || (color[m] == 0 && dfs(m)) {
				return true
			}
		}
		color[n] = 2
		return false
	}
	for _, n := range r.nodes {
		if color[n] == 0 && dfs(n) {
			r.cycle = true
			break
		}
	}
	return r, nil
}

// startOf resolves the start of a walk: the graph's edge when the certificate is in the
// graph, otherwise a synthetic edge whose issuer is the (ground truth) verifying node.
func (r *refGraph) startOf(s *certSpec) (issuer *rNode, root bool, inGraph bool) {
	if e, ok := r.edges[s.FP]; ok {
		return e.issuer, e.root, true
	}
	if id, ok := s.verifierIdent(); ok {
		for _, n := range r.nodes {
			if n.id == id {
				return n, false, false
			}
		}
	}
	return nil, false, false
}

func admissible(e *rEdge, pathLen int) bool {
	s := e.spec
	if !e.root && !s.truthCA() {
		return false
	}
	if l := s.truthLimit(); l >= 0 && pathLen-1 > l {
		return false
	}
	return true
}

func chainKey(path []*certSpec) string {
	var sb strings.Builder
	for _, s := range path {
		sb.WriteString(s.FP)
	}
	return sb.String()
}

func chainLabel(path []*certSpec) string {
	parts := make([]string, len(path))
	for i, s := range path {
		parts[i] = s.label()
	}
	return "[" + strings.Join(parts, " ") + "]"
}

// walkLenient enumerates the chains of the asserted reading, up to maxLen certificates.
func (r *refGraph) walkLenient(start *certSpec, maxLen int) [][]*certSpec {
	var out [][]*certSpec
	issuer, root, _ := r.startOf(start)
	var rec func(path []*certSpec, cur *rNode, lastRoot bool)
	rec = func(path []*certSpec, cur *rNode, lastRoot bool) {
		if lastRoot {
			out = append(out, append([]*certSpec(nil), path...))
			return
		}
		if cur == nil || len(path) >= maxLen {
			return
		}
		for _, e := range cur.parents {
			if e.issuer != nil {
				seen := false
				for _, p := range path {
					if p.Subj == e.issuer.id {
						seen = true
						break
					}
				}
				if seen {
					continue
				}
			}
			if !admissible(e, len(path)) {
				continue
			}
			rec(append(path, e.spec), e.issuer, e.root)
		}
	}
	rec([]*certSpec{start}, issuer, root)
	return out
}

// walkStrict enumerates the chains of the strict reading.
func (r *refGraph) walkStrict(start *certSpec, maxLen int) [][]*certSpec {
	var out [][]*certSpec
	issuer, root, _ := r.startOf(start)
	var rec func(path []*certSpec, cur *rNode, lastRoot bool)
	rec = func(path []*certSpec, cur *rNode, lastRoot bool) {
		if lastRoot {
			out = append(out, append([]*certSpec(nil), path...))
			return
		}
		if cur == nil || len(path) >= maxLen {
			return
		}
		for _, p := range path {
			if p.Subj == cur.id {
				return // the next certificate would repeat a (subject,key)
			}
		}
		for _, e := range cur.inEdges {
			if !admissible(e, len(path)) {
				continue
			}
			rec(append(path, e.spec), e.issuer, e.root)
		}
	}
	rec([]*certSpec{start}, issuer, root)
	return out
}

// ---- running the code under test -----------------------------------------------------

func fpSeq(ch x509.CertificateChain) string {
	var sb strings.Builder
	for _, c := range ch {
		if c == nil {
			sb.WriteString("<nil>")
			continue
		}
		sb.Write(c.FingerprintSHA256)
	}
	return sb.String()
}

func (u *universe) labelSeq(ch x509.CertificateChain) string {
	parts := make([]string, len(ch))
	for i, c := range ch {
		if c == nil {
			parts[i] = "<nil>"
		} else {
			parts[i] = u.label(string(c.FingerprintSHA256))
		}
	}
	return "[" + strings.Join(parts, " ") + "]"
}

func multiset(keys []string) map[string]int {
	m := map[string]int{}
	for _, k := range keys {
		m[k]++
	}
	return m
}

const walkBudget = 30 * time.Second

var reGoroutineHdr = regexp.MustCompile(`(?m)^goroutine \d+ \[([^\]]*)\]:`)

// producerState looks for the walk's producer goroutine in a full goroutine dump.
func producerState(dump string) (found bool, state, block string) {
	for _, blk := range strings.Split(dump, "\n\n") {
		if strings.Contains(blk, "verifier.(*Graph).walkFromEdgeToRoot") || strings.Contains(blk, "verifier.(*Graph).continueWalking") {
			m := reGoroutineHdr.FindStringSubmatch(blk)
			st := "?"
			if m != nil {
				st = m[1]
			}
			return true, st, blk
		}
	}
	return false, "", ""
}

func allStacks() string {
	buf := make([]byte, 4<<20)
	return string(buf[:runtime.Stack(buf, true)])
}

type asyncResult struct {
	atReceive []string // fingerprint sequences computed when received
	chains    []x509.CertificateChain
	closed    bool
	violKey   string
	detail    string
	inconcl   bool
}

// consumeAsync drains WalkChainsAsync with the given channel size and pacing.
// pacing: 0 eager, 1 yield between receives, 2 50us sleeps.
func consumeAsync(g *verifier.Graph, cert *x509.Certificate, chanSize, pacing int) (res asyncResult) {
	var ch chan x509.CertificateChain
	if pi := core.Guard(func() { ch = g.WalkChainsAsync(cert, verifier.WalkOptions{ChannelSize: chanSize}) }); pi != nil {
		res.violKey, res.detail = "c11:async:"+pi.Key, pi.Stack
		return
	}
	if ch == nil {
		res.violKey, res.detail = "c11:async:nil-channel", "WalkChainsAsync returned a nil channel"
		return
	}
	timer := time.NewTimer(walkBudget)
	defer timer.Stop()
	for {
		select {
		case chain, ok := <-ch:
			if !ok {
				res.closed = true
				return
			}
			res.atReceive = append(res.atReceive, fpSeq(chain))
			res.chains = append(res.chains, chain)
			switch pacing {
			case 1:
				runtime.Gosched()
			case 2:
				time.Sleep(50 * time.Microsecond)
			}
			if !timer.Stop() {
				select {
				case <-timer.C:
				default:
				}
			}
			timer.Reset(walkBudget)
		case <-timer.C:
			dump := allStacks()
			found, state, blk := producerState(dump)
			switch {
			case !found:
				res.violKey = "c11:async:channel-not-closed:producer-gone"
				res.detail = fmt.Sprintf("no delivery and no close for %v after %d chains; no goroutine is inside verifier.(*Graph).walkFromEdgeToRoot any more, so nothing can close the channel\n%s", walkBudget, len(res.chains), dump)
			case strings.HasPrefix(state, "chan send") || strings.HasPrefix(state, "select") || strings.HasPrefix(state, "sync") || strings.HasPrefix(state, "semacquire"):
				res.violKey = "c11:async:no-progress:producer-parked"
				res.detail = fmt.Sprintf("no delivery and no close for %v after %d chains while the consumer was receiving; producer goroutine state %q\n%s", walkBudget, len(res.chains), state, blk)
			default:
				// running / runnable inside the walk: give it a second budget before calling it a hang
				select {
				case _, ok := <-ch:
					res.inconcl = true
					res.detail = fmt.Sprintf("slow walk: progress only after more than %v (closed=%v)", walkBudget, !ok)
				case <-time.After(walkBudget):
					res.violKey = "c11:async:walk-not-terminating"
					res.detail = fmt.Sprintf("producer still %q inside the walk after 2x%v without delivering\n%s", state, walkBudget, blk)
				}
			}
			return
		}
	}
}

type walkCase struct {
	u     *universe
	g     *verifier.Graph
	ref   *refGraph
	order string
	id    string
}

func (w *walkCase) input(start *certSpec, extra map[string]any) map[string]any {
	in := w.u.replayInput()
	in["insert_order"] = w.order
	in["start"] = start.label()
	for k, v := range extra {
		in[k] = v
	}
	return in
}

// buildWalkGraph inserts the non-outside certificates in a random order.
func buildWalkGraph(rng *rand.Rand, u *universe) (*verifier.Graph, string, *core.PanicInfo) {
	g := verifier.NewGraph()
	var idx []int
	for i, s := range u.Certs {
		if !s.Outside {
			idx = append(idx, i)
		}
	}
	rng.Shuffle(len(idx), func(i, j int) { idx[i], idx[j] = idx[j], idx[i] })
	var ops []gop
	for _, i := range idx {
		ops = append(ops, gop{cert: i, root: u.Certs[i].Root})
	}
	pi := core.Guard(func() {
		for _, o := range ops {
			if o.root {
				g.AddRoot(u.Certs[o.cert].Cert)
			} else {
				g.AddCert(u.Certs[o.cert].Cert)
			}
		}
	})
	return g, opsString(ops), pi
}

var flavourC11 = flavour{minCerts: 4, maxCerts: 12, constrained: true, outsiders: true, big: true}

// syncWalk runs WalkChains under the hang guard.
func syncWalk(g *verifier.Graph, cert *x509.Certificate) (chains []x509.CertificateChain, key, detail string) {
	gr := core.GuardFull(walkBudget, false, func() { chains = g.WalkChains(cert) })
	if gr.Panic != nil {
		return nil, "c11:sync:" + gr.Panic.Key, gr.Panic.Stack
	}
	if gr.Hang {
		found, state, blk := producerState(gr.HangDump)
		switch {
		case !found:
			return nil, "c11:sync:walk-did-not-return:channel-not-closed", fmt.Sprintf("WalkChains did not return within %v; no goroutine is inside the walk any more, so its channel was never closed\n%s", walkBudget, gr.HangDump)
		default:
			return nil, "c11:sync:walk-did-not-return", fmt.Sprintf("WalkChains did not return within %v; producer goroutine state %q\n%s", walkBudget, state, blk)
		}
	}
	return chains, "", ""
}

func diffSets(u *universe, got map[string]int, gotChains map[string]string, want map[string][]*certSpec) (missing, extra, dup []string) {
	for k, p := range want {
		if got[k] == 0 {
			missing = append(missing, chainLabel(p))
		}
	}
	for k, n := range got {
		if _, ok := want[k]; !ok {
			extra = append(extra, gotChains[k])
		} else if n > 1 {
			dup = append(dup, fmt.Sprintf("%s x%d", gotChains[k], n))
		}
	}
	sort.Strings(missing)
	sort.Strings(extra)
	sort.Strings(dup)
	return
}

func capList(l []string, n int) string {
	if len(l) > n {
		return strings.Join(l[:n], " ") + fmt.Sprintf(" …(+%d)", len(l)-n)
	}
	return strings.Join(l, " ")
}

// checkStart runs all C11 checks for one start certificate. It returns false when the shard must stop (leaked hung goroutine).
func checkStart(c *core.Ctx, w *walkCase, rng *rand.Rand, start *certSpec, asyncConfigs [][2]int) bool {
	u := w.u
	caseID := w.id + "." + start.label()
	lenient := w.ref.walkLenient(start, docMaxChainLen)
	want := map[string][]*certSpec{}
	for _, p := range lenient {
		want[chainKey(p)] = p
	}
	if len(want) != len(lenient) {
		c.Violation("harness:reference-duplicates", "reference enumeration produced duplicates", caseID, w.input(start, nil))
		return true
	}
	// a fresh parse of the start certificate: the walk may write to it
	cert, err := x509.ParseCertificate(start.DER)
	if err != nil {
		c.Violation("harness:reparse", err.Error(), caseID, nil)
		return true
	}
	chains, key, detail := syncWalk(w.g, cert)
	c.Eval(1)
	if key != "" {
		c.Violation(key, detail, caseID, w.input(start, nil))
		return !strings.Contains(key, "did-not-return")
	}
	var gotKeys []string
	gotLabel := map[string]string{}
	maxLen := 0
	for _, ch := range chains {
		k := fpSeq(ch)
		gotKeys = append(gotKeys, k)
		gotLabel[k] = u.labelSeq(ch)
		if len(ch) > maxLen {
			maxLen = len(ch)
		}
		if len(ch) > docMaxChainLen {
			c.Violation("c11:chain-longer-than-documented-maximum", fmt.Sprintf("chain of %d certificates: %s", len(ch), u.labelSeq(ch)), caseID, w.input(start, nil))
		}
		if len(ch) == 0 || ch[0] == nil || string(ch[0].FingerprintSHA256) != start.FP {
			c.Violation("c11:chain-does-not-start-at-certificate", u.labelSeq(ch), caseID, w.input(start, nil))
		}
	}
	c.Max("chain_len", maxLen)
	if maxLen == docMaxChainLen {
		c.Count("chains_of_maximum_length_seen", 1)
	}
	got := multiset(gotKeys)
	missing, extra, dup := diffSets(u, got, gotLabel, want)
	if len(missing) > 0 {
		c.Violation("c11:sync:missing-chain", fmt.Sprintf("start %s: WalkChains lacks %d permitted chain(s): %s\nreturned %d, reference %d", start.label(), len(missing), capList(missing, 8), len(chains), len(lenient)), caseID, w.input(start, nil))
	}
	if len(extra) > 0 {
		c.Violation("c11:sync:extra-chain", fmt.Sprintf("start %s: WalkChains returned %d chain(s) that are not permitted: %s\nreturned %d, reference %d", start.label(), len(extra), capList(extra, 8), len(chains), len(lenient)), caseID, w.input(start, nil))
	}
	if len(dup) > 0 {
		c.Violation("c11:sync:duplicate-chain", fmt.Sprintf("start %s: %s", start.label(), capList(dup, 8)), caseID, w.input(start, nil))
	}
	c.Count("chains_returned", len(chains))
	if len(chains) == 0 {
		c.Count("starts_without_chain", 1)
	}
	_, _, inGraph := w.ref.startOf(start)
	if !inGraph {
		c.Count("starts_not_in_graph", 1)
		if len(chains) > 0 {
			c.Count("starts_not_in_graph_with_chains", 1)
		}
	}
	if len(lenient) >= 2 || w.ref.cycle {
		c.Nontrivial(u.structDesc(), start.label())
	}

	// strict reading: counted, never asserted
	strict := w.ref.walkStrict(start, docMaxChainLen)
	sk := map[string]bool{}
	for _, p := range strict {
		k := chainKey(p)
		sk[k] = true
		if _, ok := want[k]; !ok {
			c.Count("strict_reading_extra_chains", 1)
			last := p[len(p)-1]
			if e := w.ref.edges[last.FP]; e != nil && e.issuer == nil {
				c.Count("strict_reading_extra_chains:root_edge_without_issuer", 1)
			} else {
				c.Count("strict_reading_extra_chains:root_edge_issuer_already_in_path", 1)
			}
			if c.WantSample() && rng.IntN(4) == 0 {
				c.Sample(map[string]any{"strict_reading_only": chainLabel(p), "start": start.label(), "universe": u.structDesc()})
			}
		}
	}
	for k := range want {
		if !sk[k] {
			c.Count("lenient_reading_only_chains:repeated_subject_key_via_self_signed_link", 1)
		}
	}
	// paths the depth limit cuts (evidence only)
	if maxLen >= docMaxChainLen-1 {
		for _, p := range w.ref.walkLenient(start, docMaxChainLen+2) {
			if len(p) > docMaxChainLen {
				c.Count("reference_paths_longer_than_maximum_not_returned", 1)
			}
		}
	}

	// ---- asynchronous walks ----
	for _, cfg := range asyncConfigs {
		chanSize, pacing := cfg[0], cfg[1]
		if pacing == 2 && len(chains) > 300 {
			pacing = 1
		}
		acID := fmt.Sprintf("%s.ch%d.p%d", caseID, chanSize, pacing)
		acert, _ := x509.ParseCertificate(start.DER)
		extraIn := map[string]any{"channel_size": chanSize, "pacing": pacing, "gomaxprocs": runtime.GOMAXPROCS(0)}
		c.Begin(acID, map[string]any{"universe": u.structDesc(), "keys": u.KeyMap, "insert_order": w.order, "start": start.label(), "cfg": extraIn})
		res := consumeAsync(w.g, acert, chanSize, pacing)
		c.End(acID)
		c.Eval(1)
		c.Count(fmt.Sprintf("async_walks:chan=%d", chanSize), 1)
		c.Count(fmt.Sprintf("async_walks:pacing=%d", pacing), 1)
		if res.inconcl {
			c.Count("async_slow_walk_inconclusive", 1)
			c.Note("%s: %s", acID, res.detail)
			continue
		}
		if res.violKey != "" {
			c.Violation(res.violKey, res.detail, acID, w.input(start, extraIn))
			if !res.closed {
				return false
			}
			continue
		}
		c.Count("async_channels_closed", 1)
		// delivered chains must still be what they were when received
		mutated := false
		for i, ch := range res.chains {
			if fpSeq(ch) != res.atReceive[i] {
				mutated = true
				c.Violation("c11:async:chain-changed-after-delivery", fmt.Sprintf("chain %d was %s when received and is %s after the walk finished", i, hx(res.atReceive[i]), u.labelSeq(ch)), acID, w.input(start, extraIn))
				break
			}
		}
		if mutated {
			continue
		}
		agot := multiset(res.atReceive)
		same := len(agot) == len(got)
		for k, n := range got {
			if agot[k] != n {
				same = false
			}
		}
		if !same {
			alabel := map[string]string{}
			for _, ch := range res.chains {
				alabel[fpSeq(ch)] = u.labelSeq(ch)
			}
			var onlySync, onlyAsync []string
			for k, n := range got {
				if agot[k] < n {
					onlySync = append(onlySync, gotLabel[k])
				}
			}
			for k, n := range agot {
				if got[k] < n {
					onlyAsync = append(onlyAsync, alabel[k])
				}
			}
			sort.Strings(onlySync)
			sort.Strings(onlyAsync)
			c.Violation("c11:async:differs-from-sync", fmt.Sprintf("channel size %d, pacing %d: async delivered %d chains, sync %d; only sync: %s; only async: %s", chanSize, pacing, len(res.atReceive), len(chains), capList(onlySync, 6), capList(onlyAsync, 6)), acID, w.input(start, extraIn))
		}
	}
	return true
}

var allAsyncConfigs = func() [][2]int {
	var out [][2]int
	for _, cs := range []int{0, 1, 2, 64} {
		for p := 0; p < 3; p++ {
			out = append(out, [2]int{cs, p})
		}
	}
	return out
}()

func runC11(c *core.Ctx) {
	race := c.Leg == "race"
	nG := c.PerShard(c.Pick(600, 20000))
	if race {
		nG = c.PerShard(c.Pick(60, 1500))
	}
	for gi := 0; gi < nG; gi++ {
		gid := fmt.Sprintf("g%d.%d", c.Shard, gi)
		if race {
			gid = "r" + gid
		}
		rng := c.SubRng(gid)
		u := newCheckedUniverse(c, rng, flavourC11, gid)
		if u == nil {
			continue
		}
		g, order, pi := buildWalkGraph(rng, u)
		if pi != nil {
			c.Violation("c11:graph-build:"+pi.Key, pi.Stack, gid, u.replayInput())
			continue
		}
		ref, err := buildRef(u, g)
		if err != nil {
			c.Violation("c11:graph-inconsistent", err.Error(), gid, u.replayInput())
			continue
		}
		c.Count("graphs", 1)
		if ref.cycle {
			c.Count("graphs_with_cycle", 1)
		}
		for _, m := range u.Motifs {
			if m == "dense-mesh" || m == "long-chain" {
				c.Count("graphs_with_"+m, 1)
			}
		}
		w := &walkCase{u: u, g: g, ref: ref, order: order, id: gid}
		if race {
			runtime.GOMAXPROCS([]int{1, 4}[gi%2])
		}
		for _, s := range u.Certs {
			if c.OnlyCase != "" && !strings.HasPrefix(c.OnlyCase, gid+"."+s.label()) {
				continue
			}
			var cfgs [][2]int
			if race {
				cfgs = allAsyncConfigs
			} else {
				// two of the twelve combinations per start, all twelve over a graph's starts
				a := rng.IntN(len(allAsyncConfigs))
				cfgs = [][2]int{allAsyncConfigs[a], allAsyncConfigs[(a+5)%len(allAsyncConfigs)]}
			}
			if !checkStart(c, w, rng, s, cfgs) {
				c.Note("shard stopped after a walk that did not finish (a goroutine is still parked)")
				return
			}
		}
	}
}
