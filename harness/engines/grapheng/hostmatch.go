package grapheng

// Reference hostname matcher written from the C09 statement; C12 only uses it on
// well-formed names (the edge cases belong to C09's own monitor).

import (
	"net"
	"strings"
)

func asciiLower(s string) string {
	b := []byte(s)
	for i, c := range b {
		if 'A' <= c && c <= 'Z' {
			b[i] = c + 'a' - 'A'
		}
	}
	return string(b)
}

func refLabelMatch(pattern, host string) bool {
	pattern = strings.TrimSuffix(asciiLower(pattern), ".")
	host = strings.TrimSuffix(asciiLower(host), ".")
	if pattern == "" || host == "" {
		return false
	}
	pp, hp := strings.Split(pattern, "."), strings.Split(host, ".")
	if len(pp) != len(hp) {
		return false
	}
	for i := range pp {
		if pp[i] != "*" && pp[i] != hp[i] {
			return false
		}
	}
	return true
}

// refHostMatch: an IP literal (optionally bracketed) must equal an IP SAN; a DNS name
// must match a DNS SAN label by label; the subject CN is used only without a SAN extension.
func refHostMatch(dns []string, ips []net.IP, hasSAN bool, cn, host string) bool {
	cand := host
	if len(host) >= 3 && host[0] == '[' && host[len(host)-1] == ']' {
		cand = host[1 : len(host)-1]
	}
	if ip := net.ParseIP(cand); ip != nil {
		for _, x := range ips {
			if ip.Equal(x) {
				return true
			}
		}
		return false
	}
	if hasSAN {
		for _, p := range dns {
			if refLabelMatch(p, host) {
				return true
			}
		}
		return false
	}
	return refLabelMatch(cn, host)
}

// hostCandidates lists names to verify a certificate of subject name n / SAN kind against.
func hostCandidates(n int) []string {
	cn := cnOf(n)
	ip := net.IPv4(10, 0, 0, byte(1+n%200)).String()
	return []string{
		cn,
		strings.ToUpper(cn),
		cn + ".",
		"alt" + cn[1:],
		"x.w" + cn[1:],
		"w" + cn[1:],
		"x.y.w" + cn[1:],
		"X.W" + strings.ToUpper(cn[1:]) + ".",
		ip,
		"[" + ip + "]",
		"::ffff:" + ip,
		"10.0.0.250",
		"nomatch.pki.test",
		"*.w" + cn[1:],
	}
}
