// Package cteng holds property monitors (see /verif/DESIGN.md section 4).
package cteng
