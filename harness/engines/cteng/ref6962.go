package cteng

// Reference encoder for the RFC 6962 structures, written from the text of
// RFC 6962 section 3 (and the TLS presentation language of RFC 5246 section 4:
// big-endian integers, fixed-length vectors without a prefix, variable-length
// vectors <floor..ceiling> prefixed by the smallest number of bytes that can
// hold the ceiling). It shares no code with zcrypto and does not import it.
//
//	struct { Version sct_version; LogID id; uint64 timestamp;
//	         CtExtensions extensions; digitally-signed struct {...}; } SignedCertificateTimestamp;
//	opaque CtExtensions<0..2^16-1>;  opaque ASN.1Cert<1..2^24-1>;  opaque TBSCertificate<1..2^24-1>;
//	digitally-signed (RFC 5246 4.7): SignatureAndHashAlgorithm{hash, signature}; opaque signature<0..2^16-1>;
//	signature input of an SCT:  Version sct_version; SignatureType signature_type = certificate_timestamp(0);
//	         uint64 timestamp; LogEntryType entry_type (2 bytes); select(entry_type){ASN.1Cert; PreCert}; CtExtensions
//	PreCert: opaque issuer_key_hash[32]; TBSCertificate tbs_certificate;
//	signature input of an STH:  Version version; SignatureType signature_type = tree_hash(1);
//	         uint64 timestamp; uint64 tree_size; opaque sha256_root_hash[32];
//	MerkleTreeLeaf: Version version; MerkleLeafType leaf_type = timestamped_entry(0); TimestampedEntry
//	TimestampedEntry: uint64 timestamp; LogEntryType entry_type; select{ASN.1Cert; PreCert}; CtExtensions
//	get-entries extra_data: X509: ASN.1Cert certificate_chain<0..2^24-1>
//	                        precert: PrecertChainEntry{ASN.1Cert pre_certificate; ASN.1Cert precertificate_chain<0..2^24-1>}

import (
	"errors"
	"fmt"
)

var errRefRange = errors.New("ref6962: value outside the range of its vector type")

type mDS struct {
	Hash, Sig uint8
	Signature []byte
}

type mSCT struct {
	Version   uint8
	LogID     [32]byte
	Timestamp uint64
	Ext       []byte
	DS        mDS
}

// mEntry is a TimestampedEntry; EntryType 0 uses Cert, 1 uses IssuerKeyHash+TBS.
type mEntry struct {
	Timestamp     uint64
	EntryType     uint16
	Cert          []byte
	IssuerKeyHash [32]byte
	TBS           []byte
	Ext           []byte
}

type mLeaf struct {
	Version, LeafType uint8
	Entry             mEntry
}

type mSTH struct {
	Version             uint8
	Timestamp, TreeSize uint64
	Root                []byte // must be 32 bytes
}

type refW struct {
	b   []byte
	err error
}

func (w *refW) u8(v uint8) { w.b = append(w.b, v) }
func (w *refW) u16(v uint16) {
	w.b = append(w.b, byte(v>>8), byte(v))
}
func (w *refW) u64(v uint64) {
	for s := 56; s >= 0; s -= 8 {
		w.b = append(w.b, byte(v>>uint(s)))
	}
}
func (w *refW) fixed(v []byte, n int) {
	if len(v) != n {
		w.err = fmt.Errorf("%w: fixed vector of %d bytes given %d", errRefRange, n, len(v))
		return
	}
	w.b = append(w.b, v...)
}

// vec writes opaque v<floor..ceiling>; the prefix width follows from the ceiling.
func (w *refW) vec(v []byte, floor, ceiling int) {
	if len(v) < floor || len(v) > ceiling {
		w.err = fmt.Errorf("%w: %d bytes in <%d..%d>", errRefRange, len(v), floor, ceiling)
		return
	}
	width := 0
	for c := ceiling; c > 0; c >>= 8 {
		width++
	}
	n := len(v)
	for i := width - 1; i >= 0; i-- {
		w.b = append(w.b, byte(n>>(8*uint(i))))
	}
	w.b = append(w.b, v...)
}

func (w *refW) out() ([]byte, error) {
	if w.err != nil {
		return nil, w.err
	}
	return w.b, nil
}

const (
	max16 = 1<<16 - 1
	max24 = 1<<24 - 1
)

func (w *refW) ds(d mDS) {
	w.u8(d.Hash)
	w.u8(d.Sig)
	w.vec(d.Signature, 0, max16)
}

func refDS(d mDS) ([]byte, error) {
	var w refW
	w.ds(d)
	return w.out()
}

func refSCT(s mSCT) ([]byte, error) {
	var w refW
	w.u8(s.Version)
	w.fixed(s.LogID[:], 32)
	w.u64(s.Timestamp)
	w.vec(s.Ext, 0, max16)
	w.ds(s.DS)
	return w.out()
}

// signedEntry writes entry_type and the select arm. certFloor is 1 per the RFC;
// reader-fidelity cases may pass 0 to produce out-of-RFC zero-length members.
func (w *refW) signedEntry(e mEntry, certFloor int) {
	w.u16(e.EntryType)
	switch e.EntryType {
	case 0:
		w.vec(e.Cert, certFloor, max24)
	case 1:
		w.fixed(e.IssuerKeyHash[:], 32)
		w.vec(e.TBS, certFloor, max24)
	default:
		w.err = fmt.Errorf("%w: LogEntryType %d", errRefRange, e.EntryType)
	}
}

// refSCTSigInput: version must be v1(0), the only version RFC 6962 defines.
func refSCTSigInput(version uint8, timestamp uint64, e mEntry) ([]byte, error) {
	var w refW
	if version != 0 {
		return nil, fmt.Errorf("%w: Version %d", errRefRange, version)
	}
	w.u8(version)
	w.u8(0) // certificate_timestamp
	w.u64(timestamp)
	w.signedEntry(e, 1)
	w.vec(e.Ext, 0, max16)
	return w.out()
}

func refSTHSigInput(s mSTH) ([]byte, error) {
	var w refW
	if s.Version != 0 {
		return nil, fmt.Errorf("%w: Version %d", errRefRange, s.Version)
	}
	w.u8(s.Version)
	w.u8(1) // tree_hash
	w.u64(s.Timestamp)
	w.u64(s.TreeSize)
	w.fixed(s.Root, 32)
	return w.out()
}

func refLeaf(l mLeaf, certFloor int) ([]byte, error) {
	var w refW
	w.u8(l.Version)
	w.u8(l.LeafType)
	w.u64(l.Entry.Timestamp)
	w.signedEntry(l.Entry, certFloor)
	w.vec(l.Entry.Ext, 0, max16)
	return w.out()
}

func (w *refW) certList(chain [][]byte, certFloor int) {
	var inner refW
	for _, c := range chain {
		inner.vec(c, certFloor, max24)
	}
	if inner.err != nil {
		w.err = inner.err
		return
	}
	w.vec(inner.b, 0, max24)
}

func refX509Chain(chain [][]byte, certFloor int) ([]byte, error) {
	var w refW
	w.certList(chain, certFloor)
	return w.out()
}

func refPrecertChain(pre []byte, chain [][]byte, certFloor int) ([]byte, error) {
	var w refW
	w.vec(pre, certFloor, max24)
	w.certList(chain, certFloor)
	return w.out()
}
