package cteng

import (
	"fmt"
	"os"
	"testing"
	"time"
)

func TestDevScan(t *testing.T) {
	cfgs := []scanConfig{
		{TreeSeed: 1, TreeSize: 1876, Mix: "precerts", Batch: 1000, Fetchers: 8, Workers: 1, IgnoreParse: true, Matcher: "mod3", Plan: planParams{Seed: 5, Weights: [nBehaviours]int{100}, MaxFaults: 2}, Procs: 16, LogLevel: "debug"},
		{TreeSeed: 1, TreeSize: 1876, Mix: "precerts", Batch: 1000, Fetchers: 8, Workers: 1, IgnoreParse: true, Matcher: "mod3", Plan: planParams{Seed: 5, Weights: [nBehaviours]int{100}, MaxFaults: 2}, Procs: 16, LogLevel: "panic"},
		{TreeSeed: 2, TreeSize: 56, Mix: "mixed", Batch: 1, Fetchers: 2, Workers: 8, Start: 31, IgnoreParse: true, Matcher: "all", Plan: planParams{Seed: 7447260514609399345, Weights: [nBehaviours]int{25, 35, 15, 15, 10, 0}, MaxFaults: 3, DelayUs: 2000}, Procs: 2, LogLevel: "panic"},
		{TreeSeed: 2, TreeSize: 156, Mix: "mixed", Batch: 1, Fetchers: 2, Workers: 8, IgnoreParse: true, Matcher: "all", Plan: planParams{Seed: 7, Weights: [nBehaviours]int{100, 0, 0, 0, 0, 0}, MaxFaults: 3}, Procs: 2, LogLevel: "panic"},
		{TreeSeed: 2, TreeSize: 156, Mix: "mixed", Batch: 1, Fetchers: 2, Workers: 8, IgnoreParse: true, Matcher: "all", Plan: planParams{Seed: 7, Weights: [nBehaviours]int{0, 0, 100, 0, 0, 0}, MaxFaults: 1}, Procs: 2, LogLevel: "panic"},
		{TreeSeed: 2, TreeSize: 156, Mix: "mixed", Batch: 1, Fetchers: 2, Workers: 8, IgnoreParse: true, Matcher: "all", Plan: planParams{Seed: 7, Weights: [nBehaviours]int{0, 0, 0, 100, 0, 0}, MaxFaults: 1}, Procs: 2, LogLevel: "panic"},
		{TreeSeed: 2, TreeSize: 156, Mix: "mixed", Batch: 1, Fetchers: 2, Workers: 8, IgnoreParse: true, Matcher: "all", Plan: planParams{Seed: 7, Weights: [nBehaviours]int{0, 0, 0, 0, 100, 0}, MaxFaults: 1}, Procs: 2, LogLevel: "panic"},
	}
	for i, cfg := range cfgs {
		if s := os.Getenv("DEVCFG"); s != "" && s != fmt.Sprint(i) {
			continue
		}
		t0 := time.Now()
		tree, err := buildTree(cfg.TreeSeed, cfg.TreeSize, cfg.Mix)
		if err != nil {
			t.Fatal(err)
		}
		tb := time.Since(t0)
		res := runScan(cfg, tree)
		fmt.Printf("cfg %d: build %v scan %v reqs %d events %d ret %d err %v viol %v\n", i, tb, res.elapsed, len(res.reqs), len(res.events), res.ret, res.err, checkScan(cfg, tree, res))
	}
}
