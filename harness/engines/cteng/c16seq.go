package cteng

// C16, multi-call legs. A single serialise-then-compare cannot see a serialiser
// whose returned slice is backed by storage that a later call reuses (pooled or
// package-level buffers): the bytes are right when they are returned and wrong
// by the time the caller signs, hashes or compares them. These legs therefore
// keep the slices exactly as returned (no copy), obtain several outputs first,
// and only then compare each with the reference encoding of its own value:
//
//	batch      k = 2..6 outputs (same function / mixed functions / same value twice), then compare + re-hash
//	sequence   signature inputs for 2..3 STHs or SCTs prepared first, each signed over the prepared
//	           bytes, then all verified (own must verify, cross pairings must not)
//	concurrent 6 goroutines: serialise -> Gosched -> compare; genuine signatures verified concurrently
//
// They cover every function of ct and x509/ct that returns serialised bytes.

import (
	"bytes"
	"crypto/sha256"
	"encoding/base64"
	"fmt"
	"math/rand/v2"
	"runtime"
	"strings"
	"sync"

	"github.com/zmap/zcrypto/ct"
	xct "github.com/zmap/zcrypto/x509/ct"

	"verifharness/internal/core"
)

type serCall struct {
	fn   string
	desc map[string]any
	call func() ([]byte, error)
	ref  []byte
}

type serGen struct {
	name string
	gen  func(r *rand.Rand) serCall
}

func smallDS(r *rand.Rand) mDS {
	n := []int{0, 1, 8, 70, 71, 72, 256, 300 + r.IntN(300)}[r.IntN(8)]
	return mDS{Hash: uint8(r.IntN(256)), Sig: uint8(r.IntN(256)), Signature: fill(r, n)}
}

func smallSCT(r *rand.Rand) mSCT {
	m := mSCT{Timestamp: pickTimestamp(r), DS: smallDS(r)}
	copy(m.LogID[:], fill(r, 32))
	if r.IntN(2) == 0 {
		m.Ext = fill(r, r.IntN(60))
	}
	return m
}

func smallEntry(r *rand.Rand, entryType uint16) mEntry {
	e := mEntry{Timestamp: pickTimestamp(r), EntryType: entryType}
	n := 1 + r.IntN(1200)
	if entryType == 1 {
		e.TBS = fill(r, n)
		copy(e.IssuerKeyHash[:], fill(r, 32))
	} else {
		e.Cert = fill(r, n)
	}
	if r.IntN(3) == 0 {
		e.Ext = fill(r, 1+r.IntN(40))
	}
	return e
}

func smallSTH(r *rand.Rand) mSTH {
	return mSTH{Timestamp: pickTimestamp(r), TreeSize: pickTimestamp(r), Root: fill(r, 32)}
}

func xDS(d mDS) xct.DigitallySigned {
	return xct.DigitallySigned{HashAlgorithm: xct.HashAlgorithm(d.Hash), SignatureAlgorithm: xct.SignatureAlgorithm(d.Sig), Signature: d.Signature}
}

func jsonOfDS(ref []byte) []byte {
	return []byte(`"` + base64.StdEncoding.EncodeToString(ref) + `"`)
}

func sctSigInputGen(name string, entryType uint16) serGen {
	return serGen{name, func(r *rand.Rand) serCall {
		e := smallEntry(r, entryType)
		ts := pickTimestamp(r)
		ref, _ := refSCTSigInput(0, ts, e)
		l := mLeaf{Entry: e}
		return serCall{fn: name, ref: ref, desc: map[string]any{"sct_timestamp": ts, "entry": leafInput(l)},
			call: func() ([]byte, error) {
				return ct.SerializeSCTSignatureInput(ct.SignedCertificateTimestamp{SCTVersion: ct.V1, Timestamp: ts}, zEntry(l))
			}}
	}}
}

// serGens lists every function of ct and x509/ct that returns serialised bytes, with generators of RFC-encodable values.
var serGens = []serGen{
	{"ct.MarshalDigitallySigned", func(r *rand.Rand) serCall {
		d := smallDS(r)
		ref, _ := refDS(d)
		return serCall{fn: "ct.MarshalDigitallySigned", ref: ref, desc: map[string]any{"hash": d.Hash, "sig": d.Sig, "signature": hx(d.Signature)},
			call: func() ([]byte, error) { return ct.MarshalDigitallySigned(zDS(d)) }}
	}},
	{"x509/ct.MarshalDigitallySigned", func(r *rand.Rand) serCall {
		d := smallDS(r)
		ref, _ := refDS(d)
		return serCall{fn: "x509/ct.MarshalDigitallySigned", ref: ref, desc: map[string]any{"hash": d.Hash, "sig": d.Sig, "signature": hx(d.Signature)},
			call: func() ([]byte, error) { return xct.MarshalDigitallySigned(xDS(d)) }}
	}},
	{"ct.DigitallySigned.MarshalJSON", func(r *rand.Rand) serCall {
		d := smallDS(r)
		ref, _ := refDS(d)
		return serCall{fn: "ct.DigitallySigned.MarshalJSON", ref: jsonOfDS(ref), desc: map[string]any{"hash": d.Hash, "sig": d.Sig, "signature": hx(d.Signature)},
			call: func() ([]byte, error) { return zDS(d).MarshalJSON() }}
	}},
	{"x509/ct.DigitallySigned.MarshalJSON", func(r *rand.Rand) serCall {
		d := smallDS(r)
		ref, _ := refDS(d)
		return serCall{fn: "x509/ct.DigitallySigned.MarshalJSON", ref: jsonOfDS(ref), desc: map[string]any{"hash": d.Hash, "sig": d.Sig, "signature": hx(d.Signature)},
			call: func() ([]byte, error) { return xDS(d).MarshalJSON() }}
	}},
	{"ct.SerializeSCT", func(r *rand.Rand) serCall {
		m := smallSCT(r)
		ref, _ := refSCT(m)
		return serCall{fn: "ct.SerializeSCT", ref: ref, desc: sctInput(m), call: func() ([]byte, error) { return ct.SerializeSCT(zSCT(m)) }}
	}},
	{"ct.SerializeSCTHere(nil)", func(r *rand.Rand) serCall {
		m := smallSCT(r)
		ref, _ := refSCT(m)
		return serCall{fn: "ct.SerializeSCTHere(nil)", ref: ref, desc: sctInput(m), call: func() ([]byte, error) { return ct.SerializeSCTHere(zSCT(m), nil) }}
	}},
	sctSigInputGen("ct.SerializeSCTSignatureInput(x509)", 0),
	sctSigInputGen("ct.SerializeSCTSignatureInput(precert)", 1),
	{"ct.SerializeSTHSignatureInput", func(r *rand.Rand) serCall {
		s := smallSTH(r)
		ref, _ := refSTHSigInput(s)
		return serCall{fn: "ct.SerializeSTHSignatureInput", ref: ref,
			desc: map[string]any{"timestamp": s.Timestamp, "tree_size": s.TreeSize, "root": hx(s.Root)},
			call: func() ([]byte, error) { return ct.SerializeSTHSignatureInput(zSTH(s, [32]byte{}, mDS{})) }}
	}},
}

// batchCase: obtain all outputs first (slices kept as returned), then compare each with its own reference.
func (t *c16) batchCase(id string) {
	c, r := t.c, t.rng
	k := 2 + r.IntN(5)
	mode := r.IntN(3)
	calls := make([]serCall, 0, k)
	g0 := serGens[r.IntN(len(serGens))]
	for i := 0; i < k; i++ {
		switch {
		case mode == 1: // mixed functions
			calls = append(calls, serGens[r.IntN(len(serGens))].gen(r))
		case mode == 2 && i == 1: // the same value again
			calls = append(calls, calls[0])
		default: // same function, different values
			calls = append(calls, g0.gen(r))
		}
	}
	var names []string
	var descs []any
	for _, cl := range calls {
		names = append(names, cl.fn)
		descs = append(descs, map[string]any{"fn": cl.fn, "value": cl.desc})
	}
	in := map[string]any{"kind": "batch", "calls": descs}
	outs := make([][]byte, k)
	errs := make([]error, k)
	sums := make([][32]byte, k)
	okAtReturn := make([]bool, k)
	if !t.guard("batch "+strings.Join(names, ","), id, in, func() {
		for i, cl := range calls {
			outs[i], errs[i] = cl.call()
			sums[i] = sha256.Sum256(outs[i])
			okAtReturn[i] = bytes.Equal(outs[i], cl.ref)
		}
	}) {
		return
	}
	c.Eval(1)
	c.Count("batch_cases", 1)
	c.Count("batch_outputs", k)
	h := sha256.New()
	for i, cl := range calls {
		h.Write([]byte(cl.fn))
		h.Write(cl.ref)
		if errs[i] != nil {
			c.Count("error_on_rfc_encodable_value", 1)
			continue
		}
		still := bytes.Equal(outs[i], cl.ref)
		unchanged := sha256.Sum256(outs[i]) == sums[i]
		switch {
		case still && unchanged:
		case okAtReturn[i]:
			c.Violation("aliasing:"+cl.fn+":returned-bytes-changed-by-a-later-call",
				fmt.Sprintf("output %d of %d (%s) equalled the reference encoding of its value when it was returned; after the later calls %v the same slice holds\n%s\nreference %s\n%s",
					i+1, k, cl.fn, names[i+1:], core.Hex(outs[i]), core.Hex(cl.ref), firstDiff(outs[i], cl.ref)), id, in)
		default:
			c.Violation("encoding:"+cl.fn+":bytes-differ-from-rfc6962", fmt.Sprintf("batch output %d: zcrypto %s\nreference %s", i+1, core.Hex(outs[i]), core.Hex(cl.ref)), id, in)
		}
	}
	c.Nontrivial("batch", h.Sum(nil))
}

// sequenceCase: prepare the signature inputs of several STHs (or SCTs) first, sign each over the prepared bytes, then verify.
func (t *c16) sequenceCase(id string, usable []*logKey) {
	c, r := t.c, t.rng
	k := usable[r.IntN(len(usable))]
	sigAlg := uint8(3)
	if k.family == "rsa" {
		sigAlg = 1
	}
	n := 2 + r.IntN(2)
	kind := "STH"
	if r.IntN(2) == 0 {
		kind = "SCT"
	}
	sths := make([]mSTH, n)
	leaves := make([]mLeaf, n)
	tss := make([]uint64, n)
	refs := make([][]byte, n)
	held := make([][]byte, n)
	var descs []any
	for i := 0; i < n; i++ {
		if kind == "STH" {
			sths[i] = smallSTH(r)
			sths[i].TreeSize = uint64(1000 + i) // pairwise different inputs
			refs[i], _ = refSTHSigInput(sths[i])
			descs = append(descs, map[string]any{"timestamp": sths[i].Timestamp, "tree_size": sths[i].TreeSize, "root": hx(sths[i].Root)})
		} else {
			leaves[i] = mLeaf{Entry: smallEntry(r, uint16(r.IntN(2)))}
			tss[i] = uint64(5000 + i)
			refs[i], _ = refSCTSigInput(0, tss[i], leaves[i].Entry)
			descs = append(descs, map[string]any{"sct_timestamp": tss[i], "entry": leafInput(leaves[i])})
		}
	}
	in := map[string]any{"kind": "sequence-" + kind, "key": k.name, "values": descs}
	fn := "ct.SerializeSTHSignatureInput"
	if kind == "SCT" {
		fn = "ct.SerializeSCTSignatureInput"
	}
	var perr error
	if !t.guard("sequence "+fn, id, in, func() {
		for i := 0; i < n && perr == nil; i++ {
			if kind == "STH" {
				held[i], perr = ct.SerializeSTHSignatureInput(zSTH(sths[i], [32]byte{}, mDS{}))
			} else {
				held[i], perr = ct.SerializeSCTSignatureInput(ct.SignedCertificateTimestamp{SCTVersion: ct.V1, Timestamp: tss[i]}, zEntry(leaves[i]))
			}
		}
	}) {
		return
	}
	c.Eval(1)
	if perr != nil {
		c.Count("error_on_rfc_encodable_value", 1)
		return
	}
	c.Count("sequence_cases:"+kind, 1)
	sigs := make([][]byte, n)
	for i := 0; i < n; i++ {
		if !bytes.Equal(held[i], refs[i]) {
			c.Violation("sequence:"+kind+":prepared-signature-input-is-not-the-rfc6962-input-when-signed",
				fmt.Sprintf("%s for value %d of %d, all prepared before signing: the slice now holds %s\nreference %s\n%s", fn, i+1, n, core.Hex(held[i]), core.Hex(refs[i]), firstDiff(held[i], refs[i])), id, in)
		}
		dg := sha256.Sum256(held[i]) // what a log signs: the bytes it was given as "the signature input"
		sigs[i] = k.sign(dg[:])
	}
	dsh := sha256.New()
	for i := 0; i < n; i++ {
		dsh.Write(refs[i])
		for j := 0; j < n; j++ {
			var zerr error
			d := mDS{Hash: 4, Sig: sigAlg, Signature: sigs[j]}
			if !t.guard("sequence verify", id, in, func() {
				if kind == "STH" {
					zerr = k.sv.VerifySTHSignature(zSTH(sths[i], [32]byte{}, d))
				} else {
					zerr = k.sv.VerifySCTSignature(zSCT(mSCT{Timestamp: tss[i], DS: d}), zEntry(leaves[i]))
				}
			}) {
				return
			}
			switch {
			case i == j && zerr != nil:
				c.Violation("sequence:"+kind+":signature-over-prepared-input-rejected:"+k.family,
					fmt.Sprintf("value %d of %d: input prepared with %s, signed over the prepared bytes, then Verify%sSignature: %v", i+1, n, fn, kind, zerr), id, in)
			case i != j && zerr == nil:
				c.Violation("sequence:"+kind+":signature-made-for-another-value-accepted:"+k.family,
					fmt.Sprintf("signature made over the input prepared for value %d verifies for value %d", j+1, i+1), id, in)
			}
			c.Count("sequence_verifications", 1)
		}
	}
	c.Nontrivial("sequence", kind, k.name, dsh.Sum(nil))
}

// concurrentRound: 6 goroutines serialise -> yield -> compare, and verify genuine signatures, at the same time.
func (t *c16) concurrentRound(id string, usable []*logKey) {
	c, r := t.c, t.rng
	const G = 6
	k := usable[r.IntN(len(usable))]
	sigAlg := uint8(3)
	if k.family == "rsa" {
		sigAlg = 1
	}
	// genuine STH signatures, made sequentially over the reference input
	sths := make([]mSTH, G)
	sigs := make([][]byte, G)
	for i := range sths {
		sths[i] = smallSTH(r)
		sths[i].TreeSize = uint64(7000 + i)
		in, _ := refSTHSigInput(sths[i])
		dg := sha256.Sum256(in)
		sigs[i] = k.sign(dg[:])
	}
	iters := 12
	plans := make([][]serCall, G)
	for g := range plans {
		for i := 0; i < iters; i++ {
			gen := serGens[r.IntN(len(serGens))]
			if r.IntN(3) == 0 {
				gen = serGens[len(serGens)-1-r.IntN(3)] // the signature-input functions more often
			}
			plans[g] = append(plans[g], gen.gen(r))
		}
	}
	type finding struct{ key, detail string }
	results := make([][]finding, G) // one slot per goroutine, read after Wait
	var wg sync.WaitGroup
	gate := make(chan struct{})
	for g := 0; g < G; g++ {
		wg.Add(1)
		go func(g int) {
			defer wg.Done()
			<-gate
			pi := core.Guard(func() {
				for i, cl := range plans[g] {
					out, err := cl.call()
					if err != nil {
						continue
					}
					atReturn := bytes.Equal(out, cl.ref)
					runtime.Gosched()
					if !bytes.Equal(out, cl.ref) {
						key := "concurrent:" + cl.fn + ":bytes-differ-from-rfc6962"
						if atReturn {
							key = "aliasing:" + cl.fn + ":returned-bytes-changed-by-a-concurrent-call"
						}
						results[g] = append(results[g], finding{key, fmt.Sprintf("goroutine %d call %d: %s\nreference %s", g, i, core.Hex(out), core.Hex(cl.ref))})
					}
					// verification in between: own genuine signature must verify, the neighbour's must not
					own := k.sv.VerifySTHSignature(zSTH(sths[g], [32]byte{}, mDS{4, sigAlg, sigs[g]}))
					cross := k.sv.VerifySTHSignature(zSTH(sths[g], [32]byte{}, mDS{4, sigAlg, sigs[(g+1)%G]}))
					if own != nil {
						results[g] = append(results[g], finding{"concurrent:verify:STH:genuine-signature-rejected:" + k.family, fmt.Sprintf("goroutine %d: %v", g, own)})
					}
					if cross == nil {
						results[g] = append(results[g], finding{"concurrent:verify:STH:signature-of-another-sth-accepted:" + k.family, fmt.Sprintf("goroutine %d", g)})
					}
				}
			})
			if pi != nil {
				results[g] = append(results[g], finding{pi.Key, pi.Value + "\n" + pi.Stack})
			}
		}(g)
	}
	close(gate)
	wg.Wait()
	c.Eval(1)
	c.Count("concurrent_rounds", 1)
	c.Count("concurrent_serialisations", G*iters)
	c.Count("concurrent_verifications", 2*G*iters)
	h := sha256.New()
	for g := range plans {
		for _, cl := range plans[g] {
			h.Write(cl.ref)
		}
	}
	c.Nontrivial("concurrent", k.name, h.Sum(nil))
	for g := range results {
		for _, f := range results[g] {
			c.Violation(f.key, f.detail, id, map[string]any{"kind": "concurrent", "key": k.name, "goroutines": G, "calls_per_goroutine": iters})
		}
	}
}
