package cteng

// In-process fake CT log for C17: an http.Handler serving /ct/v1/get-sth and
// /ct/v1/get-entries from a tree of uniquely tagged entries, with a behaviour
// plan (data) deciding per (start index, attempt number) whether the answer is
// complete, a non-empty strict prefix, a transient HTTP error, malformed JSON or
// a connection reset. Keying the plan by (start, attempt) instead of by arrival
// order makes the fault sequence of every range independent of the interleaving
// of the fetchers, hence replayable.

import (
	"bytes"
	crand "crypto/rand"
	stdx509 "crypto/x509"
	stdpkix "crypto/x509/pkix"
	"encoding/base64"
	"encoding/binary"
	"fmt"
	"math/big"
	"net"
	"net/http"
	"runtime"
	"strconv"
	"strings"
	"sync"
	"time"

	"verifharness/internal/keys"
)

// ---- entry kinds ------------------------------------------------------------

type entryKind uint8

const (
	kX509            entryKind = iota // X.509 entry, parses cleanly
	kPrecert                          // precert entry, TBS parses cleanly
	kX509NonFatal                     // X.509 entry with an unknown critical extension (ct/x509 NonFatalErrors, certificate still returned)
	kPrecertNonFatal                  // same for a precert entry
	kX509Shaped                       // X.509 entry, Certificate-shaped ASN.1 whose TBS is not a TBSCertificate (fatal parse error, "valid ASN.1")
	kX509Corrupt                      // X.509 entry, bytes that are not DER at all
	kPrecertShaped                    // precert entry, same two kinds of unparsable TBS
	kPrecertCorrupt
	nKinds
)

var kindNames = [...]string{"x509", "precert", "x509-nonfatal", "precert-nonfatal", "x509-shaped-unparsable", "x509-corrupt", "precert-shaped-unparsable", "precert-corrupt"}

func (k entryKind) isPrecertType() bool {
	return k == kPrecert || k == kPrecertNonFatal || k == kPrecertShaped || k == kPrecertCorrupt
}
func (k entryKind) parsable() bool {
	return k == kX509 || k == kPrecert || k == kX509NonFatal || k == kPrecertNonFatal
}
func (k entryKind) shaped() bool { return k == kX509Shaped || k == kPrecertShaped }

// mixes: weights per kind (out of 1000)
var kindMixes = map[string][nKinds]int{
	"clean-x509": {1000, 0, 0, 0, 0, 0, 0, 0},
	"mixed":      {560, 250, 50, 30, 40, 25, 25, 20},
	"precerts":   {150, 650, 20, 80, 10, 10, 50, 30},
	"dirty":      {300, 200, 100, 100, 100, 60, 80, 60},
}
var mixNames = []string{"clean-x509", "mixed", "mixed", "precerts", "dirty"}

// ---- certificate templates ----------------------------------------------------

const tagBase = uint64(1) << 62 // serial = tagBase | index: 8 bytes, positive, fixed width

var tagPlaceholder = []byte{0x40, 0xA1, 0xA2, 0xA3, 0xA4, 0xA5, 0xA6, 0xA7}

type certTemplate struct {
	cert, tbs       []byte
	certOff, tbsOff int // offset of the 8 serial bytes
}

type templates struct {
	ok, nonFatal certTemplate
	chainCert    []byte // an untagged certificate used as chain member
	err          error
}

var (
	tmplOnce sync.Once
	tmpl     templates
)

func getTemplates() *templates {
	tmplOnce.Do(func() {
		priv := keys.Get().ECByCurve("P256")[0]
		mk := func(nonFatal bool, serial *big.Int) ([]byte, []byte, error) {
			t := &stdx509.Certificate{
				SerialNumber: serial,
				Subject:      stdpkix.Name{CommonName: "entry.ct.verif.example", Organization: []string{"verif"}},
				Issuer:       stdpkix.Name{CommonName: "fake log CA"},
				NotBefore:    time.Date(2020, 1, 1, 0, 0, 0, 0, time.UTC),
				NotAfter:     time.Date(2030, 1, 1, 0, 0, 0, 0, time.UTC),
				KeyUsage:     stdx509.KeyUsageDigitalSignature,
				ExtKeyUsage:  []stdx509.ExtKeyUsage{stdx509.ExtKeyUsageServerAuth},
				DNSNames:     []string{"entry.ct.verif.example", "www.ct.verif.example"},
			}
			if nonFatal {
				t.ExtraExtensions = []stdpkix.Extension{{Id: []int{1, 3, 6, 1, 4, 1, 99999, 17}, Critical: true, Value: []byte{0x05, 0x00}}}
			}
			der, err := stdx509.CreateCertificate(crand.Reader, t, t, &priv.PublicKey, priv)
			if err != nil {
				return nil, nil, err
			}
			c, err := stdx509.ParseCertificate(der)
			if err != nil {
				return nil, nil, err
			}
			return der, c.RawTBSCertificate, nil
		}
		ph := new(big.Int).SetBytes(tagPlaceholder)
		build := func(nonFatal bool) (certTemplate, error) {
			der, tbs, err := mk(nonFatal, ph)
			if err != nil {
				return certTemplate{}, err
			}
			if bytes.Count(der, tagPlaceholder) != 1 || bytes.Count(tbs, tagPlaceholder) != 1 {
				return certTemplate{}, fmt.Errorf("serial placeholder not unique in template")
			}
			return certTemplate{cert: der, tbs: tbs, certOff: bytes.Index(der, tagPlaceholder), tbsOff: bytes.Index(tbs, tagPlaceholder)}, nil
		}
		if tmpl.ok, tmpl.err = build(false); tmpl.err != nil {
			return
		}
		if tmpl.nonFatal, tmpl.err = build(true); tmpl.err != nil {
			return
		}
		tmpl.chainCert, _, tmpl.err = mk(false, big.NewInt(77))
	})
	return &tmpl
}

func patched(src []byte, off int, index int64) []byte {
	o := append([]byte{}, src...)
	binary.BigEndian.PutUint64(o[off:], tagBase|uint64(index))
	return o
}

// shapedUnparsable: SEQUENCE{ SEQUENCE{INTEGER tag}, SEQUENCE{OID 1.2.3}, BIT STRING } — parses as the scanner's
// ASN1Certificate (RawValue, AlgorithmIdentifier, BitString) but is neither a Certificate nor a TBSCertificate.
func shapedUnparsable(index int64) []byte {
	b := []byte{0x30, 0x16, 0x30, 0x0A, 0x02, 0x08, 0, 0, 0, 0, 0, 0, 0, 0, 0x30, 0x04, 0x06, 0x02, 0x2A, 0x03, 0x03, 0x02, 0x00, 0x01}
	binary.BigEndian.PutUint64(b[6:], tagBase|uint64(index))
	return b
}

// corruptBytes: a SEQUENCE header announcing far more content than follows.
func corruptBytes(index int64) []byte {
	b := []byte{0x30, 0x82, 0xFF, 0xF0, 0, 0, 0, 0, 0, 0, 0, 0}
	binary.BigEndian.PutUint64(b[4:], tagBase|uint64(index))
	return b
}

// ---- tree -------------------------------------------------------------------

type treeEntry struct {
	kind     entryKind
	raw      []byte   // certificate (X.509 entry) or TBSCertificate (precert entry) bytes inside the leaf
	chain    [][]byte // what LogEntry.Chain must hold (precert: pre_certificate first)
	ikh      [32]byte
	leafB64  string
	extraB64 string
	leafLen  int
}

type fakeTree struct {
	seed    uint64
	mix     string
	entries []treeEntry
	byRaw   map[string]int64
	sthJSON string
}

func mix64(a, b, c uint64) uint64 {
	x := a*0x9E3779B97F4A7C15 ^ b*0xC2B2AE3D27D4EB4F ^ c*0x165667B19E3779F9
	x ^= x >> 31
	x *= 0xD6E8FEB86659FD93
	x ^= x >> 29
	x *= 0xBF58476D1CE4E5B9
	x ^= x >> 32
	return x
}

func buildTree(seed uint64, n int, mix string) (*fakeTree, error) {
	tp := getTemplates()
	if tp.err != nil {
		return nil, tp.err
	}
	w := kindMixes[mix]
	t := &fakeTree{seed: seed, mix: mix, entries: make([]treeEntry, n), byRaw: make(map[string]int64, n)}
	for i := 0; i < n; i++ {
		h := mix64(seed, uint64(i), 1)
		x := int(h % 1000)
		k := entryKind(0)
		for acc := 0; k < nKinds; k++ {
			acc += w[k]
			if x < acc {
				break
			}
		}
		if k >= nKinds {
			k = kX509
		}
		e := &t.entries[i]
		e.kind = k
		idx := int64(i)
		switch k {
		case kX509:
			e.raw = patched(tp.ok.cert, tp.ok.certOff, idx)
		case kX509NonFatal:
			e.raw = patched(tp.nonFatal.cert, tp.nonFatal.certOff, idx)
		case kPrecert:
			e.raw = patched(tp.ok.tbs, tp.ok.tbsOff, idx)
		case kPrecertNonFatal:
			e.raw = patched(tp.nonFatal.tbs, tp.nonFatal.tbsOff, idx)
		case kX509Shaped, kPrecertShaped:
			e.raw = shapedUnparsable(idx)
		default:
			e.raw = corruptBytes(idx)
		}
		var issuers [][]byte
		for j := 0; j < int(h>>20%3); j++ {
			if j == 0 {
				issuers = append(issuers, tp.chainCert)
			} else {
				issuers = append(issuers, []byte{0x30, 0x03, 0x02, 0x01, byte(h >> 40)})
			}
		}
		m := mLeaf{Entry: mEntry{Timestamp: 1500000000000 + uint64(i)}}
		if h>>30%4 == 0 {
			m.Entry.Ext = []byte{byte(h >> 48), byte(h >> 56)}
		}
		var extra []byte
		var err error
		if k.isPrecertType() {
			m.Entry.EntryType = 1
			m.Entry.TBS = e.raw
			binary.BigEndian.PutUint64(e.ikh[:], mix64(seed, uint64(i), 2))
			binary.BigEndian.PutUint64(e.ikh[24:], uint64(i))
			m.Entry.IssuerKeyHash = e.ikh
			pre := patched(tp.ok.cert, tp.ok.certOff, idx) // the submitted precertificate
			e.chain = append([][]byte{pre}, issuers...)
			extra, err = refPrecertChain(pre, issuers, 1)
		} else {
			m.Entry.Cert = e.raw
			e.chain = issuers
			extra, err = refX509Chain(issuers, 1)
		}
		if err != nil {
			return nil, err
		}
		leaf, err := refLeaf(m, 1)
		if err != nil {
			return nil, err
		}
		e.leafLen = len(leaf)
		e.leafB64 = base64.StdEncoding.EncodeToString(leaf)
		e.extraB64 = base64.StdEncoding.EncodeToString(extra)
		t.byRaw[string(e.raw)] = idx
	}
	ds, _ := refDS(mDS{Hash: 4, Sig: 3, Signature: bytes.Repeat([]byte{0x5A}, 70)})
	root := make([]byte, 32)
	binary.BigEndian.PutUint64(root, seed)
	t.sthJSON = fmt.Sprintf(`{"tree_size":%d,"timestamp":%d,"sha256_root_hash":"%s","tree_head_signature":"%s"}`,
		n, 1500000000000+uint64(n), base64.StdEncoding.EncodeToString(root), base64.StdEncoding.EncodeToString(ds))
	return t, nil
}

// ---- behaviour plan -----------------------------------------------------------

type behaviour uint8

const (
	bFull behaviour = iota
	bPrefix
	b5xx
	bBadJSON
	bReset
	b500 // the status that makes the fetcher sleep 500 ms: long family only
	nBehaviours
)

var behaviourNames = [...]string{"full", "prefix", "5xx", "badjson", "reset", "http500"}

// planParams is the whole behaviour plan: the behaviour of attempt a on the range starting at s is
// a pure function of (Seed, s, a); after MaxFaults attempts on the same start the answer is complete.
type planParams struct {
	Seed      uint64
	Weights   [nBehaviours]int // out of 100, for attempts below MaxFaults
	MaxFaults int
	DelayUs   int // handler delay drawn from 0..DelayUs microseconds (plus FixedDelayUs)
	FixedUs   int
}

func (p planParams) String() string {
	return fmt.Sprintf("seed=%d w=%v maxfaults=%d delay=%d+%dus", p.Seed, p.Weights, p.MaxFaults, p.FixedUs, p.DelayUs)
}

func (p planParams) decide(start int64, attempt int) (behaviour, uint64) {
	h := mix64(p.Seed, uint64(start), uint64(attempt)+7)
	if attempt >= p.MaxFaults {
		return bFull, h
	}
	x := int(h % 100)
	acc := 0
	for b := behaviour(0); b < nBehaviours; b++ {
		acc += p.Weights[b]
		if x < acc {
			return b, h
		}
	}
	return bFull, h
}

type reqEvent struct {
	start, end int64
	beh        behaviour
	returned   int // entries in the answer (full/prefix)
	bad        bool
	atMs       int64 // arrival, ms since the log was created (evidence/diagnostics only)
}

type fakeLog struct {
	tree *fakeTree
	plan planParams

	t0       time.Time
	mu       sync.Mutex
	attempts map[int64]int
	reqs     []reqEvent
	sthReqs  int
	served   int64 // entries handed out in complete or prefix answers
	other    int
}

func newFakeLog(t *fakeTree, p planParams) *fakeLog {
	return &fakeLog{tree: t, plan: p, attempts: map[int64]int{}, t0: time.Now()}
}

func (f *fakeLog) writeEntries(sb *strings.Builder, from, to int64) { // [from, to]
	size := 16
	for i := from; i <= to; i++ {
		size += len(f.tree.entries[i].leafB64) + len(f.tree.entries[i].extraB64) + 40
	}
	sb.Grow(size)
	sb.WriteString(`{"entries":[`)
	for i := from; i <= to; i++ {
		if i > from {
			sb.WriteByte(',')
		}
		e := &f.tree.entries[i]
		sb.WriteString(`{"leaf_input":"`)
		sb.WriteString(e.leafB64)
		sb.WriteString(`","extra_data":"`)
		sb.WriteString(e.extraB64)
		sb.WriteString(`"}`)
	}
	sb.WriteString(`]}`)
}

func (f *fakeLog) ServeHTTP(w http.ResponseWriter, r *http.Request) {
	switch r.URL.Path {
	case "/ct/v1/get-sth":
		f.mu.Lock()
		f.sthReqs++
		f.mu.Unlock()
		w.Header().Set("Content-Type", "application/json")
		w.Write([]byte(f.tree.sthJSON))
		return
	case "/ct/v1/get-entries":
	default:
		f.mu.Lock()
		f.other++
		f.mu.Unlock()
		http.NotFound(w, r)
		return
	}
	q := r.URL.Query()
	start, e1 := strconv.ParseInt(q.Get("start"), 10, 64)
	end, e2 := strconv.ParseInt(q.Get("end"), 10, 64)
	n := int64(len(f.tree.entries))
	if e1 != nil || e2 != nil || start < 0 || end < start || end >= n {
		f.mu.Lock()
		f.reqs = append(f.reqs, reqEvent{start: start, end: end, bad: true})
		f.mu.Unlock()
		http.Error(w, "bad range", http.StatusBadRequest)
		return
	}
	f.mu.Lock()
	attempt := f.attempts[start]
	f.attempts[start] = attempt + 1
	beh, h := f.plan.decide(start, attempt)
	if beh == bPrefix && end == start {
		beh = bFull // a one-entry range has no non-empty strict prefix
	}
	ev := reqEvent{start: start, end: end, beh: beh, atMs: time.Since(f.t0).Milliseconds()}
	to := end
	if beh == bPrefix {
		to = start + int64((h>>8)%uint64(end-start)) // start .. end-1
	}
	if beh == bFull || beh == bPrefix {
		ev.returned = int(to - start + 1)
		f.served += to - start + 1
	}
	f.reqs = append(f.reqs, ev)
	f.mu.Unlock()

	if d := f.plan.FixedUs; d > 0 {
		time.Sleep(time.Duration(d) * time.Microsecond)
	}
	if f.plan.DelayUs > 0 {
		switch (h >> 16) % 4 {
		case 0:
			runtime.Gosched()
		case 1:
			time.Sleep(time.Duration((h>>20)%uint64(f.plan.DelayUs)) * time.Microsecond)
		}
	}
	switch beh {
	case bFull, bPrefix:
		var sb strings.Builder
		f.writeEntries(&sb, start, to)
		w.Header().Set("Content-Type", "application/json")
		w.Write([]byte(sb.String()))
	case b5xx:
		w.WriteHeader([]int{502, 503, 504, 429}[(h>>8)%4])
	case b500:
		w.WriteHeader(500)
	case bReset:
		if hj, ok := w.(http.Hijacker); ok {
			if conn, _, err := hj.Hijack(); err == nil {
				if tc, ok := conn.(*net.TCPConn); ok && (h>>8)%2 == 0 {
					tc.SetLinger(0) // RST instead of FIN
				}
				conn.Close()
				return
			}
		}
		w.WriteHeader(503)
	case bBadJSON:
		w.Header().Set("Content-Type", "application/json")
		w.Write(f.malformed(start, end, h>>8))
	}
}

// malformed bodies: each makes LogClient.GetEntries fail as a whole, several of them only after
// earlier entries of the same answer were decoded successfully (nothing of it may be delivered).
func (f *fakeLog) malformed(start, end int64, h uint64) []byte {
	span := end - start + 1
	if span > 3 {
		span = 3 // keep these bodies small: LogClient prints bodies it cannot parse to stdout
	}
	last := start + span - 1
	var sb strings.Builder
	switch h % 6 {
	case 0: // truncated JSON
		f.writeEntries(&sb, start, last)
		s := sb.String()
		cut := 1 + int((h>>8)%uint64(len(s)-1))
		if cut > 160 {
			cut = 160
		}
		return []byte(s[:cut])
	case 1: // wrong type
		return []byte(`{"entries":"none"}`)
	case 2: // last entry's leaf_input is not base64
		f.writeEntries(&sb, start, last)
		s := sb.String()
		i := strings.LastIndex(s, `{"leaf_input":"`) + len(`{"leaf_input":"`)
		return []byte(s[:i] + "!!" + s[i+2:])
	case 3: // last entry's leaf is truncated (valid base64 of a short leaf)
		return f.withLast(start, last, func(e *treeEntry) (string, string) {
			full, _ := base64.StdEncoding.DecodeString(e.leafB64)
			return base64.StdEncoding.EncodeToString(full[:len(full)/2]), e.extraB64
		})
	case 4: // last entry's leaf has an unknown entry type
		return f.withLast(start, last, func(e *treeEntry) (string, string) {
			full, _ := base64.StdEncoding.DecodeString(e.leafB64)
			full[10], full[11] = 0x7f, 0x7f
			return base64.StdEncoding.EncodeToString(full), e.extraB64
		})
	default: // last entry's extra_data is not a certificate chain
		return f.withLast(start, last, func(e *treeEntry) (string, string) {
			return e.leafB64, base64.StdEncoding.EncodeToString([]byte{0, 0, 9, 1, 2})
		})
	}
}

func (f *fakeLog) withLast(start, last int64, repl func(*treeEntry) (string, string)) []byte {
	var sb strings.Builder
	sb.WriteString(`{"entries":[`)
	for i := start; i <= last; i++ {
		if i > start {
			sb.WriteByte(',')
		}
		e := &f.tree.entries[i]
		l, x := e.leafB64, e.extraB64
		if i == last {
			l, x = repl(e)
		}
		sb.WriteString(`{"leaf_input":"` + l + `","extra_data":"` + x + `"}`)
	}
	sb.WriteString(`]}`)
	return []byte(sb.String())
}
