package cteng

// C16 — CT structures serialise canonically and verify soundly.
//
// Values (SCT, DigitallySigned, Merkle leaves, chains, STH) are generated as
// *model* values (plain structs of this package), converted to zcrypto's types,
// pushed through zcrypto's serialisers / readers / verifier, and compared with
// the reference RFC 6962 encoder of ref6962.go and Go's crypto/{ecdsa,rsa}.
// The oracle demands exactly what the statement says:
//   - serialiser returned nil error  ⇒  bytes deserialise to the same value,
//     nothing is left over, len == SerializedLength (SCT);
//   - signature inputs returned by zcrypto are the RFC 6962 bytes;
//   - verifier accepts ⇔ hash byte is SHA-256, signature byte names the key's
//     family and crypto/* verifies the signature over SHA-256(reference input).
// Things the statement leaves open are counted, not asserted (a serialiser that
// refuses an encodable value, readers accepting out-of-RFC input, ECDSA
// signatures followed by garbage, which ct/signatures.go logs and accepts).

import (
	"bytes"
	"crypto"
	"crypto/ecdsa"
	"crypto/ed25519"
	crand "crypto/rand"
	stdrsa "crypto/rsa"
	"crypto/sha256"
	stdasn1 "encoding/asn1"
	"encoding/hex"
	"encoding/json"
	"fmt"
	"math/big"
	"math/rand/v2"

	"github.com/zmap/zcrypto/ct"
	zrsa "github.com/zmap/zcrypto/rsa"
	xct "github.com/zmap/zcrypto/x509/ct"

	"verifharness/internal/core"
	"verifharness/internal/keys"
)

func init() {
	core.RegisterMeta("C16", core.Meta{
		Rule: "model values (DigitallySigned in ct and x509/ct; SCT; Merkle leaf; X509/precert chain; SCT and STH signature inputs) with field sizes drawn from " +
			"{0,1,typical,65535,65536,70000,2^24-1,2^24}, all 256 algorithm/version byte values; verifier: genuine signatures by pool keys (ECDSA P-256, RSA 2048/3072/4096; " +
			"non-compliant key types offered to the constructor) made with Go crypto/* over the reference RFC 6962 input, then one mutation of signature / algorithm bytes / " +
			"timestamp / entry type / certificate / extensions / issuer key hash / tree size / root hash / version / log id / signing key; " +
			"multi-call legs over every byte-returning function of ct and x509/ct: batches of 2..6 outputs kept as returned and compared afterwards, signature inputs prepared-then-signed-then-verified, " +
			"6-goroutine concurrent serialise/verify rounds. " +
			"non-trivial = (value case) zcrypto returned bytes or a decoded value that entered a comparison, or (verifier case) the unmutated signature verifies under Go crypto/*; " +
			"distinct by hash of (kind, model value[, key, mutation])",
		MinNontrivial:         14000,
		MinNontrivialThorough: 300000,
		Shards:                16,
		Assumptions: []string{
			"reference encoder engines/cteng/ref6962.go written from RFC 6962 section 3 / RFC 5246 section 4 is correct (it shares no code with zcrypto)",
			"Go crypto/ecdsa.VerifyASN1, crypto/rsa.VerifyPKCS1v15 and crypto/sha256 decide what 'signature by the log key covers the input' means",
			"ECDSA signatures followed by trailing bytes or otherwise accepted only by a lenient DER reading are outside the asserted mutation set (counted)",
			"a serialiser that returns an error for an RFC-encodable value does not refute the statement (counted as error_on_rfc_encodable_value)",
		},
	}, runC16)
}

// ---------------------------------------------------------------------------
// conversions model -> zcrypto

func zDS(d mDS) ct.DigitallySigned {
	return ct.DigitallySigned{HashAlgorithm: ct.HashAlgorithm(d.Hash), SignatureAlgorithm: ct.SignatureAlgorithm(d.Sig), Signature: d.Signature}
}

func zSCT(m mSCT) ct.SignedCertificateTimestamp {
	return ct.SignedCertificateTimestamp{SCTVersion: ct.Version(m.Version), LogID: ct.SHA256Hash(m.LogID), Timestamp: m.Timestamp,
		Extensions: ct.CTExtensions(m.Ext), Signature: zDS(m.DS)}
}

func zEntry(l mLeaf) ct.LogEntry {
	return ct.LogEntry{Leaf: ct.MerkleTreeLeaf{Version: ct.Version(l.Version), LeafType: ct.MerkleLeafType(l.LeafType),
		TimestampedEntry: ct.TimestampedEntry{Timestamp: l.Entry.Timestamp, EntryType: ct.LogEntryType(l.Entry.EntryType),
			X509Entry: ct.ASN1Cert(l.Entry.Cert), PrecertEntry: ct.PreCert{IssuerKeyHash: l.Entry.IssuerKeyHash, TBSCertificate: l.Entry.TBS},
			Extensions: ct.CTExtensions(l.Entry.Ext)}}}
}

func zSTH(m mSTH, logID [32]byte, d mDS) ct.SignedTreeHead {
	var root ct.SHA256Hash
	copy(root[:], m.Root)
	return ct.SignedTreeHead{Version: ct.Version(m.Version), TreeSize: m.TreeSize, Timestamp: m.Timestamp, SHA256RootHash: root,
		TreeHeadSignature: zDS(d), LogID: ct.SHA256Hash(logID)}
}

func dsEqual(a, b mDS) bool {
	return a.Hash == b.Hash && a.Sig == b.Sig && bytes.Equal(a.Signature, b.Signature)
}

func sctEqual(a, b mSCT) bool {
	return a.Version == b.Version && a.LogID == b.LogID && a.Timestamp == b.Timestamp && bytes.Equal(a.Ext, b.Ext) && dsEqual(a.DS, b.DS)
}

// ---------------------------------------------------------------------------
// generators

func fill(r *rand.Rand, n int) []byte {
	b := make([]byte, n)
	i := 0
	for ; i+8 <= n; i += 8 {
		v := r.Uint64()
		b[i], b[i+1], b[i+2], b[i+3], b[i+4], b[i+5], b[i+6], b[i+7] = byte(v), byte(v>>8), byte(v>>16), byte(v>>24), byte(v>>32), byte(v>>40), byte(v>>48), byte(v>>56)
	}
	for ; i < n; i++ {
		b[i] = byte(r.Uint32())
	}
	return b
}

// pick16 draws a length for a <0..2^16-1> vector: mostly small, with the edges and over-long values.
func pick16(r *rand.Rand) int {
	switch x := r.IntN(100); {
	case x < 8:
		return 0
	case x < 14:
		return 1
	case x < 50:
		return 2 + r.IntN(140) // typical ECDSA signature / small extension
	case x < 62:
		return []int{255, 256, 257, 511, 512, 513}[r.IntN(6)] // prefix-byte boundaries, RSA sizes
	case x < 72:
		return 65535
	case x < 78:
		return 65534
	case x < 86:
		return 65536
	case x < 90:
		return 65537
	case x < 96:
		return 70000
	default:
		return 65538 + r.IntN(140000)
	}
}

// pick24 draws a certificate length; the 2^24 edges are handled by maximalCases.
func pick24(r *rand.Rand, allowZero bool) int {
	switch x := r.IntN(100); {
	case x < 6:
		if allowZero {
			return 0
		}
		return 1
	case x < 14:
		return 1
	case x < 70:
		return 2 + r.IntN(1800)
	case x < 80:
		return []int{255, 256, 65535, 65536, 65537}[r.IntN(5)]
	case x < 92:
		return 70 * 1024
	default:
		return 2000 + r.IntN(70000)
	}
}

func pickTimestamp(r *rand.Rand) uint64 {
	switch r.IntN(8) {
	case 0:
		return 0
	case 1:
		return ^uint64(0)
	case 2:
		return 1 << 63
	case 3:
		return 1<<63 - 1
	case 4:
		return 0x0102030405060708
	default:
		return r.Uint64() >> uint(r.IntN(40))
	}
}

func pickVersion(r *rand.Rand) uint8 {
	if r.IntN(8) == 0 {
		return uint8(1 + r.IntN(255))
	}
	return 0
}

func genDS(r *rand.Rand) mDS {
	return mDS{Hash: uint8(r.IntN(256)), Sig: uint8(r.IntN(256)), Signature: fill(r, pick16(r))}
}

func genSCT(r *rand.Rand) mSCT {
	m := mSCT{Version: pickVersion(r), Timestamp: pickTimestamp(r), DS: genDS(r)}
	copy(m.LogID[:], fill(r, 32))
	// keep at most one over-long field per value most of the time so that both error paths are reached
	m.Ext = fill(r, pick16(r))
	if len(m.Ext) > 2000 && len(m.DS.Signature) > 2000 && r.IntN(4) != 0 {
		m.DS.Signature = fill(r, 71)
	}
	return m
}

func genEntry(r *rand.Rand, allowZero bool, anyType bool) mEntry {
	e := mEntry{Timestamp: pickTimestamp(r), EntryType: uint16(r.IntN(2))}
	if anyType && r.IntN(10) == 0 {
		e.EntryType = uint16(r.IntN(65536))
	}
	n := pick24(r, allowZero)
	if e.EntryType == 1 {
		e.TBS = fill(r, n)
		copy(e.IssuerKeyHash[:], fill(r, 32))
	} else {
		e.Cert = fill(r, n)
	}
	x := pick16(r)
	if x > 66000 && r.IntN(2) == 0 {
		x = 65535
	}
	e.Ext = fill(r, x)
	return e
}

func descEntry(e mEntry) string {
	return fmt.Sprintf("ts=%d type=%d cert=%d tbs=%d ext=%d", e.Timestamp, e.EntryType, len(e.Cert), len(e.TBS), len(e.Ext))
}

func hx(b []byte) string { return hex.EncodeToString(b) }

// abbreviated hex for replay inputs of large blobs: full bytes up to 4 KiB, otherwise generator description
func hxIn(b []byte) string {
	if len(b) <= 4096 {
		return hx(b)
	}
	h := sha256.Sum256(b)
	return fmt.Sprintf("%s…(%d bytes, sha256=%s; regenerate with the same seed/shard)", hx(b[:64]), len(b), hx(h[:8]))
}

// ---------------------------------------------------------------------------
// DigitallySigned in both packages

type dsAPI struct {
	name      string
	marshal   func(mDS) ([]byte, error)
	unmarshal func([]byte) (mDS, int, error) // value, bytes consumed
	toB64     func(mDS) (string, error)
	fromB64   func(string) (mDS, error)
	toJSON    func(mDS) ([]byte, error)
	fromJSON  func([]byte) (mDS, error)
}

var dsAPIs = []dsAPI{
	{
		name:    "ct",
		marshal: func(d mDS) ([]byte, error) { return ct.MarshalDigitallySigned(zDS(d)) },
		unmarshal: func(b []byte) (mDS, int, error) {
			rd := bytes.NewReader(b)
			v, err := ct.UnmarshalDigitallySigned(rd)
			if err != nil || v == nil {
				return mDS{}, 0, err
			}
			return mDS{uint8(v.HashAlgorithm), uint8(v.SignatureAlgorithm), v.Signature}, len(b) - rd.Len(), nil
		},
		toB64: func(d mDS) (string, error) { return zDS(d).Base64String() },
		fromB64: func(s string) (mDS, error) {
			var v ct.DigitallySigned
			err := v.FromBase64String(s)
			return mDS{uint8(v.HashAlgorithm), uint8(v.SignatureAlgorithm), v.Signature}, err
		},
		toJSON: func(d mDS) ([]byte, error) { return json.Marshal(zDS(d)) },
		fromJSON: func(b []byte) (mDS, error) {
			var v ct.DigitallySigned
			err := json.Unmarshal(b, &v)
			return mDS{uint8(v.HashAlgorithm), uint8(v.SignatureAlgorithm), v.Signature}, err
		},
	},
	{
		name: "x509/ct",
		marshal: func(d mDS) ([]byte, error) {
			return xct.MarshalDigitallySigned(xct.DigitallySigned{HashAlgorithm: xct.HashAlgorithm(d.Hash), SignatureAlgorithm: xct.SignatureAlgorithm(d.Sig), Signature: d.Signature})
		},
		unmarshal: func(b []byte) (mDS, int, error) {
			rd := bytes.NewReader(b)
			v, err := xct.UnmarshalDigitallySigned(rd)
			if err != nil || v == nil {
				return mDS{}, 0, err
			}
			return mDS{uint8(v.HashAlgorithm), uint8(v.SignatureAlgorithm), v.Signature}, len(b) - rd.Len(), nil
		},
		toB64: func(d mDS) (string, error) {
			return xct.DigitallySigned{HashAlgorithm: xct.HashAlgorithm(d.Hash), SignatureAlgorithm: xct.SignatureAlgorithm(d.Sig), Signature: d.Signature}.Base64String()
		},
		fromB64: func(s string) (mDS, error) {
			var v xct.DigitallySigned
			err := v.FromBase64String(s)
			return mDS{uint8(v.HashAlgorithm), uint8(v.SignatureAlgorithm), v.Signature}, err
		},
		toJSON: func(d mDS) ([]byte, error) {
			return json.Marshal(xct.DigitallySigned{HashAlgorithm: xct.HashAlgorithm(d.Hash), SignatureAlgorithm: xct.SignatureAlgorithm(d.Sig), Signature: d.Signature})
		},
		fromJSON: func(b []byte) (mDS, error) {
			var v xct.DigitallySigned
			err := json.Unmarshal(b, &v)
			return mDS{uint8(v.HashAlgorithm), uint8(v.SignatureAlgorithm), v.Signature}, err
		},
	},
}

type c16 struct {
	c   *core.Ctx
	rng *rand.Rand
}

func (t *c16) guard(what string, caseID string, input any, f func()) bool {
	if pi := core.Guard(f); pi != nil {
		t.c.Violation(pi.Key, what+": "+pi.Value+"\n"+pi.Stack, caseID, input)
		return false
	}
	return true
}

// rtClass names how a round trip failed; "" = it held.
func rtClass(decErr error, consumed, total int, equal bool) (string, string) {
	switch {
	case decErr != nil:
		return "decode-error", decErr.Error()
	case !equal && consumed != total:
		return "value-differs", fmt.Sprintf("decoded value differs and only %d of %d bytes were consumed", consumed, total)
	case !equal:
		return "value-differs", "decoded value differs from the serialised one"
	case consumed != total:
		return "trailing-bytes", fmt.Sprintf("only %d of %d bytes were consumed", consumed, total)
	}
	return "", ""
}

func (t *c16) dsCase(id string, api dsAPI, d mDS) {
	c := t.c
	in := map[string]any{"kind": "DigitallySigned", "pkg": api.name, "hash": d.Hash, "sig": d.Sig, "signature_len": len(d.Signature), "signature": hxIn(d.Signature)}
	ref, rerr := refDS(d)
	suffix := ""
	if rerr != nil {
		suffix = ":unencodable-length-accepted" // the RFC vector cannot hold it, so only an error is a correct answer
	}
	var b []byte
	var err error
	if !t.guard(api.name+".MarshalDigitallySigned", id, in, func() { b, err = api.marshal(d) }) {
		return
	}
	c.Eval(1)
	if err != nil {
		c.Count("ds_marshal_error", 1)
		if rerr == nil {
			c.Count("error_on_rfc_encodable_value", 1)
		} else {
			c.Count("overlong_refused", 1)
			c.Nontrivial("ds-refused", api.name, d.Hash, d.Sig, len(d.Signature))
		}
		return
	}
	c.Nontrivial("ds", api.name, d.Hash, d.Sig, d.Signature)
	c.Count("ds_marshal_ok", 1)
	if rerr == nil && !bytes.Equal(b, ref) {
		c.Violation("encoding:"+api.name+".MarshalDigitallySigned:bytes-differ-from-rfc6962",
			fmt.Sprintf("zcrypto %s\nreference %s", core.Hex(b), core.Hex(ref)), id, in)
	}
	var d2 mDS
	var used int
	var derr error
	if !t.guard(api.name+".UnmarshalDigitallySigned", id, in, func() { d2, used, derr = api.unmarshal(b) }) {
		return
	}
	if cls, det := rtClass(derr, used, len(b), dsEqual(d, d2)); cls != "" {
		k := "roundtrip:" + api.name + ".DigitallySigned:" + cls
		if suffix != "" {
			k = "roundtrip:" + api.name + ".DigitallySigned" + suffix
		}
		c.Violation(k, fmt.Sprintf("Marshal returned %d bytes and nil error for a %d-byte signature; Unmarshal: %s (decoded signature length %d; first bytes %s)",
			len(b), len(d.Signature), det, len(d2.Signature), core.Hex(b[:min(len(b), 8)])), id, in)
		return
	}
	// text forms
	var s string
	if !t.guard(api.name+".Base64String", id, in, func() { s, err = api.toB64(d) }) {
		return
	}
	if err == nil {
		var d3 mDS
		var e3 error
		if t.guard(api.name+".FromBase64String", id, in, func() { d3, e3 = api.fromB64(s) }) {
			if e3 != nil || !dsEqual(d, d3) {
				c.Violation("roundtrip:"+api.name+".DigitallySigned:base64"+suffix, fmt.Sprintf("err=%v decoded signature length %d", e3, len(d3.Signature)), id, in)
			}
		}
	}
	var js []byte
	if !t.guard(api.name+".MarshalJSON", id, in, func() { js, err = api.toJSON(d) }) {
		return
	}
	if err == nil {
		var d4 mDS
		var e4 error
		if t.guard(api.name+".UnmarshalJSON", id, in, func() { d4, e4 = api.fromJSON(js) }) {
			if e4 != nil || !dsEqual(d, d4) {
				c.Violation("roundtrip:"+api.name+".DigitallySigned:json"+suffix, fmt.Sprintf("err=%v decoded signature length %d", e4, len(d4.Signature)), id, in)
			}
		}
	}
	c.Count("ds_roundtrips_compared", 1)
}

// ---------------------------------------------------------------------------
// SCT

func sctInput(m mSCT) map[string]any {
	return map[string]any{"kind": "SCT", "version": m.Version, "log_id": hx(m.LogID[:]), "timestamp": m.Timestamp,
		"extensions_len": len(m.Ext), "extensions": hxIn(m.Ext), "hash": m.DS.Hash, "sig": m.DS.Sig,
		"signature_len": len(m.DS.Signature), "signature": hxIn(m.DS.Signature)}
}

func fromZSCT(v *ct.SignedCertificateTimestamp) mSCT {
	return mSCT{Version: uint8(v.SCTVersion), LogID: [32]byte(v.LogID), Timestamp: v.Timestamp, Ext: []byte(v.Extensions),
		DS: mDS{uint8(v.Signature.HashAlgorithm), uint8(v.Signature.SignatureAlgorithm), v.Signature.Signature}}
}

func fromXSCT(v *xct.SignedCertificateTimestamp) mSCT {
	return mSCT{Version: uint8(v.SCTVersion), LogID: [32]byte(v.LogID), Timestamp: v.Timestamp, Ext: []byte(v.Extensions),
		DS: mDS{uint8(v.Signature.HashAlgorithm), uint8(v.Signature.SignatureAlgorithm), v.Signature.Signature}}
}

func (t *c16) sctCase(id string, m mSCT) {
	c := t.c
	in := sctInput(m)
	z := zSCT(m)
	ref, rerr := refSCT(m)
	var b []byte
	var err, lerr error
	var n int
	if !t.guard("ct.SerializeSCT", id, in, func() { n, lerr = z.SerializedLength(); b, err = ct.SerializeSCT(z) }) {
		return
	}
	c.Eval(1)
	if err != nil {
		c.Count("sct_serialize_error", 1)
		switch {
		case m.Version != 0:
			c.Count("sct_unknown_version_refused", 1)
		case rerr == nil:
			c.Count("error_on_rfc_encodable_value", 1)
		default:
			c.Count("overlong_refused", 1)
			c.Nontrivial("sct-refused", m.Version, len(m.Ext), len(m.DS.Signature))
		}
	} else {
		c.Count("sct_serialize_ok", 1)
		c.Nontrivial("sct", m.Version, m.LogID[:], m.Timestamp, m.Ext, m.DS.Hash, m.DS.Sig, m.DS.Signature)
		if lerr != nil || n != len(b) {
			c.Violation("length:ct.SCT:SerializedLength-differs-from-serialisation", fmt.Sprintf("SerializedLength=(%d,%v) len(SerializeSCT)=%d", n, lerr, len(b)), id, in)
		}
		if rerr == nil && !bytes.Equal(b, ref) {
			c.Violation("encoding:ct.SerializeSCT:bytes-differ-from-rfc6962", fmt.Sprintf("zcrypto %s\nreference %s", core.Hex(b), core.Hex(ref)), id, in)
		}
		var back *ct.SignedCertificateTimestamp
		var derr error
		rd := bytes.NewReader(b)
		if !t.guard("ct.DeserializeSCT", id, in, func() { back, derr = ct.DeserializeSCT(rd) }) {
			return
		}
		var m2 mSCT
		if derr == nil && back != nil {
			m2 = fromZSCT(back)
		}
		if cls, det := rtClass(derr, len(b)-rd.Len(), len(b), derr == nil && back != nil && sctEqual(m, m2)); cls != "" {
			k := "roundtrip:ct.SCT:" + cls
			if rerr != nil {
				k = "roundtrip:ct.SCT:unencodable-length-accepted"
			}
			c.Violation(k, fmt.Sprintf("SerializeSCT returned %d bytes and nil error (extensions %d bytes, signature %d bytes); DeserializeSCT: %s (decoded extensions %d, signature %d bytes)",
				len(b), len(m.Ext), len(m.DS.Signature), det, len(m2.Ext), len(m2.DS.Signature)), id, in)
		} else {
			c.Count("sct_roundtrips_compared", 1)
		}
		// caller-provided buffers
		for _, extra := range []int{0, 1 + t.rng.IntN(40), -1, -n} {
			if n+extra < 0 {
				continue
			}
			buf := bytes.Repeat([]byte{0xAA}, n+extra)
			var hb []byte
			var herr error
			if !t.guard("ct.SerializeSCTHere", id, in, func() { hb, herr = ct.SerializeSCTHere(z, buf) }) {
				return
			}
			c.Count("sct_here_calls", 1)
			if herr != nil {
				if extra >= 0 {
					c.Count("error_on_rfc_encodable_value", 1)
				} else {
					c.Count("sct_here_short_buffer_refused", 1)
				}
				continue
			}
			if !bytes.Equal(hb, b) {
				c.Violation("roundtrip:ct.SerializeSCTHere:differs-from-SerializeSCT", fmt.Sprintf("buffer of %d bytes for a %d-byte SCT: returned %d bytes", n+extra, n, len(hb)), id, in)
			}
			if extra > 0 && bytes.Equal(buf[n:], bytes.Repeat([]byte{0xAA}, extra)) {
				c.Count("sct_here_tail_untouched", 1)
			}
		}
	}
	// the packages' readers on the reference bytes (x509/ct has no SCT serialiser, only this reader)
	if rerr == nil && m.Version == 0 {
		rd := bytes.NewReader(ref)
		var xb *xct.SignedCertificateTimestamp
		var xerr error
		if t.guard("x509/ct.DeserializeSCT", id, in, func() { xb, xerr = xct.DeserializeSCT(rd) }) {
			var m3 mSCT
			if xerr == nil && xb != nil {
				m3 = fromXSCT(xb)
			}
			if cls, det := rtClass(xerr, len(ref)-rd.Len(), len(ref), xerr == nil && xb != nil && sctEqual(m, m3)); cls != "" {
				c.Violation("decode:x509/ct.DeserializeSCT:"+cls, "reference RFC 6962 bytes: "+det, id, in)
			} else {
				c.Count("x509ct_sct_decodes_compared", 1)
			}
		}
		rd2 := bytes.NewReader(ref)
		var zb *ct.SignedCertificateTimestamp
		var zerr error
		if t.guard("ct.DeserializeSCT", id, in, func() { zb, zerr = ct.DeserializeSCT(rd2) }) {
			var m4 mSCT
			if zerr == nil && zb != nil {
				m4 = fromZSCT(zb)
			}
			if cls, det := rtClass(zerr, len(ref)-rd2.Len(), len(ref), zerr == nil && zb != nil && sctEqual(m, m4)); cls != "" {
				c.Violation("decode:ct.DeserializeSCT:"+cls, "reference RFC 6962 bytes: "+det, id, in)
			}
		}
	}
	if c.WantSample() && err == nil {
		c.Sample(map[string]any{"kind": "SCT", "serialized": core.Hex(b), "extensions_len": len(m.Ext), "signature_len": len(m.DS.Signature)})
	}
}

// ---------------------------------------------------------------------------
// Merkle tree leaves and chains: zcrypto only has readers; the reference encodes.

func leafInput(l mLeaf) map[string]any {
	return map[string]any{"kind": "MerkleTreeLeaf", "version": l.Version, "leaf_type": l.LeafType, "timestamp": l.Entry.Timestamp, "entry_type": l.Entry.EntryType,
		"cert": hxIn(l.Entry.Cert), "issuer_key_hash": hx(l.Entry.IssuerKeyHash[:]), "tbs": hxIn(l.Entry.TBS), "extensions": hxIn(l.Entry.Ext)}
}

func (t *c16) leafCase(id string, l mLeaf, trailing []byte) {
	c := t.c
	in := leafInput(l)
	inRFC := true
	b, rerr := refLeaf(l, 1)
	if rerr != nil {
		inRFC = false
		b, rerr = refLeaf(l, 0) // zero-length member: not RFC, reader behaviour recorded only
		if rerr != nil {
			c.Count("leaf_model_not_encodable", 1)
			return
		}
	}
	data := append(append([]byte{}, b...), trailing...)
	rd := bytes.NewReader(data)
	var got *ct.MerkleTreeLeaf
	var err error
	if !t.guard("ct.ReadMerkleTreeLeaf", id, in, func() { got, err = ct.ReadMerkleTreeLeaf(rd) }) {
		return
	}
	c.Eval(1)
	valid := inRFC && l.Version == 0 && l.LeafType == 0
	if !valid {
		if err == nil {
			c.Count("leaf_out_of_rfc_accepted", 1)
		} else {
			c.Count("leaf_out_of_rfc_rejected", 1)
		}
		return
	}
	if err != nil || got == nil {
		c.Violation("decode:ct.ReadMerkleTreeLeaf:rejects-rfc6962-leaf", fmt.Sprintf("err=%v for %s", err, descEntry(l.Entry)), id, in)
		return
	}
	c.Nontrivial("leaf", l.Entry.Timestamp, l.Entry.EntryType, l.Entry.Cert, l.Entry.IssuerKeyHash[:], l.Entry.TBS, l.Entry.Ext)
	te := got.TimestampedEntry
	ok := uint8(got.Version) == l.Version && uint8(got.LeafType) == l.LeafType && te.Timestamp == l.Entry.Timestamp && uint16(te.EntryType) == l.Entry.EntryType &&
		bytes.Equal(te.Extensions, l.Entry.Ext)
	if l.Entry.EntryType == 0 {
		ok = ok && bytes.Equal(te.X509Entry, l.Entry.Cert)
	} else {
		ok = ok && bytes.Equal(te.PrecertEntry.TBSCertificate, l.Entry.TBS) && te.PrecertEntry.IssuerKeyHash == l.Entry.IssuerKeyHash
	}
	if !ok {
		c.Violation("decode:ct.ReadMerkleTreeLeaf:value-differs", fmt.Sprintf("model %s; decoded ts=%d type=%d cert=%d tbs=%d ext=%d",
			descEntry(l.Entry), te.Timestamp, te.EntryType, len(te.X509Entry), len(te.PrecertEntry.TBSCertificate), len(te.Extensions)), id, in)
		return
	}
	if rd.Len() != len(trailing) {
		c.Violation("decode:ct.ReadMerkleTreeLeaf:consumed-wrong-length", fmt.Sprintf("leaf is %d bytes, reader consumed %d", len(b), len(data)-rd.Len()), id, in)
		return
	}
	c.Count("leaf_decodes_compared", 1)
	if len(trailing) > 0 {
		c.Count("leaf_trailing_bytes_left_unread", 1)
	}
}

func chainEqual(got []ct.ASN1Cert, want [][]byte) bool {
	if len(got) != len(want) {
		return false
	}
	for i := range got {
		if !bytes.Equal(got[i], want[i]) {
			return false
		}
	}
	return true
}

func (t *c16) chainCase(id string, precert bool, pre []byte, chain [][]byte) {
	c := t.c
	lens := []int{}
	hexes := []string{}
	for _, x := range chain {
		lens = append(lens, len(x))
		hexes = append(hexes, hxIn(x))
	}
	in := map[string]any{"kind": "chain", "precert": precert, "pre_certificate": hxIn(pre), "chain_lens": lens, "chain": hexes}
	inRFC := true
	enc := func(floor int) ([]byte, error) {
		if precert {
			return refPrecertChain(pre, chain, floor)
		}
		return refX509Chain(chain, floor)
	}
	b, rerr := enc(1)
	if rerr != nil {
		inRFC = false
		if b, rerr = enc(0); rerr != nil {
			c.Count("chain_model_not_encodable", 1)
			return
		}
	}
	var got []ct.ASN1Cert
	var err error
	name := "ct.UnmarshalX509ChainArray"
	if precert {
		name = "ct.UnmarshalPrecertChainArray"
	}
	if !t.guard(name, id, in, func() {
		if precert {
			got, err = ct.UnmarshalPrecertChainArray(b)
		} else {
			got, err = ct.UnmarshalX509ChainArray(b)
		}
	}) {
		return
	}
	c.Eval(1)
	want := chain
	if precert {
		want = append([][]byte{pre}, chain...)
	}
	if !inRFC {
		if err == nil && chainEqual(got, want) {
			c.Count("chain_zero_length_member_accepted", 1)
		} else {
			c.Count("chain_zero_length_member_other", 1)
		}
		return
	}
	if err != nil {
		c.Violation("decode:"+name+":rejects-rfc6962-chain", fmt.Sprintf("err=%v lens=%v", err, lens), id, in)
		return
	}
	c.Nontrivial("chain", precert, fmt.Sprint(lens), b[:min(len(b), 4096)])
	if !chainEqual(got, want) {
		gl := []int{}
		for _, g := range got {
			gl = append(gl, len(g))
		}
		c.Violation("decode:"+name+":value-differs", fmt.Sprintf("model lens=%v (pre=%d) decoded lens=%v", lens, len(pre), gl), id, in)
		return
	}
	c.Count("chain_decodes_compared", 1)
}

// ---------------------------------------------------------------------------
// signature inputs

func (t *c16) sctInputCase(id string, version uint8, ts uint64, l mLeaf) {
	c := t.c
	in := leafInput(l)
	in["kind"] = "SCT-signature-input"
	in["sct_version"] = version
	in["sct_timestamp"] = ts
	ref, rerr := refSCTSigInput(version, ts, l.Entry)
	var b []byte
	var err error
	if !t.guard("ct.SerializeSCTSignatureInput", id, in, func() {
		b, err = ct.SerializeSCTSignatureInput(ct.SignedCertificateTimestamp{SCTVersion: ct.Version(version), Timestamp: ts}, zEntry(l))
	}) {
		return
	}
	c.Eval(1)
	if err != nil {
		if rerr == nil && l.LeafType == 0 {
			c.Count("error_on_rfc_encodable_value", 1)
		} else {
			c.Count("siginput_invalid_refused", 1)
			c.Nontrivial("sctin-refused", version, l.LeafType, descEntry(l.Entry))
		}
		return
	}
	c.Nontrivial("sctin", version, ts, l.Entry.EntryType, l.Entry.Cert, l.Entry.IssuerKeyHash[:], l.Entry.TBS, l.Entry.Ext)
	if rerr != nil {
		c.Violation("siginput:ct.SerializeSCTSignatureInput:unencodable-value-accepted", fmt.Sprintf("reference refuses (%v) but zcrypto returned %d bytes; %s", rerr, len(b), descEntry(l.Entry)), id, in)
		return
	}
	if !bytes.Equal(b, ref) {
		c.Violation("siginput:ct.SerializeSCTSignatureInput:bytes-differ-from-rfc6962:entry_type="+fmt.Sprint(l.Entry.EntryType),
			fmt.Sprintf("zcrypto %s\nreference %s\n%s", core.Hex(b), core.Hex(ref), firstDiff(b, ref)), id, in)
		return
	}
	c.Count("sct_siginputs_compared", 1)
}

func firstDiff(a, b []byte) string {
	n := min(len(a), len(b))
	for i := 0; i < n; i++ {
		if a[i] != b[i] {
			return fmt.Sprintf("first difference at byte %d (lengths %d vs %d)", i, len(a), len(b))
		}
	}
	return fmt.Sprintf("lengths %d vs %d", len(a), len(b))
}

func (t *c16) sthInputCase(id string, s mSTH) {
	c := t.c
	in := map[string]any{"kind": "STH-signature-input", "version": s.Version, "timestamp": s.Timestamp, "tree_size": s.TreeSize, "root": hx(s.Root)}
	ref, rerr := refSTHSigInput(s)
	var b []byte
	var err error
	if !t.guard("ct.SerializeSTHSignatureInput", id, in, func() { b, err = ct.SerializeSTHSignatureInput(zSTH(s, [32]byte{}, mDS{})) }) {
		return
	}
	c.Eval(1)
	if err != nil {
		if rerr == nil {
			c.Count("error_on_rfc_encodable_value", 1)
		} else {
			c.Count("siginput_invalid_refused", 1)
		}
		return
	}
	c.Nontrivial("sthin", s.Version, s.Timestamp, s.TreeSize, s.Root)
	if rerr != nil {
		c.Violation("siginput:ct.SerializeSTHSignatureInput:unencodable-value-accepted", fmt.Sprintf("reference refuses (%v)", rerr), id, in)
		return
	}
	if !bytes.Equal(b, ref) {
		c.Violation("siginput:ct.SerializeSTHSignatureInput:bytes-differ-from-rfc6962", fmt.Sprintf("zcrypto %s\nreference %s\n%s", core.Hex(b), core.Hex(ref), firstDiff(b, ref)), id, in)
		return
	}
	c.Count("sth_siginputs_compared", 1)
}

// ---------------------------------------------------------------------------
// verifier

type logKey struct {
	name      string
	family    string // "ecdsa" | "rsa" | "" (never usable)
	zpub      crypto.PublicKey
	compliant bool // RFC 6962 2.1.4: NIST P-256 ECDSA or RSA >= 2048 bits
	sign      func(digest []byte) []byte
	verify    func(digest, sig []byte) bool // Go crypto/*, strict
	lenient   func(digest, sig []byte) bool // ECDSA only: DER prefix parsed by encoding/asn1, rest ignored
	sv        *ct.SignatureVerifier
}

func buildLogKeys() []*logKey {
	p := keys.Get()
	var out []*logKey
	addEC := func(curve string, compliant bool, limit int) {
		for i, k := range p.ECByCurve(curve) {
			if i >= limit {
				break
			}
			k := k
			out = append(out, &logKey{name: fmt.Sprintf("ecdsa-%s-%d", curve, i), family: "ecdsa", zpub: &k.PublicKey, compliant: compliant,
				sign: func(d []byte) []byte {
					s, err := ecdsa.SignASN1(crand.Reader, k, d)
					if err != nil {
						panic(err)
					}
					return s
				},
				verify: func(d, s []byte) bool { return ecdsa.VerifyASN1(&k.PublicKey, d, s) },
				lenient: func(d, s []byte) bool {
					var v struct{ R, S *big.Int }
					if _, err := stdasn1.Unmarshal(s, &v); err != nil || v.R == nil || v.S == nil {
						return false
					}
					if v.R.Sign() <= 0 || v.S.Sign() <= 0 {
						return false
					}
					re, err := stdasn1.Marshal(v)
					if err != nil {
						return false
					}
					return ecdsa.VerifyASN1(&k.PublicKey, d, re)
				},
			})
		}
	}
	addEC("P256", true, 4)
	addEC("P224", false, 1)
	addEC("P384", false, 1)
	addEC("P521", false, 1)
	addRSA := func(bits int, compliant bool, limit int) {
		for i, k := range p.RSAByBits(bits, 2) {
			if i >= limit {
				break
			}
			priv := k.Std()
			out = append(out, &logKey{name: fmt.Sprintf("rsa-%d-%d", bits, i), family: "rsa", compliant: compliant,
				zpub: &zrsa.PublicKey{N: new(big.Int).Set(k.N), E: big.NewInt(int64(k.E))},
				sign: func(d []byte) []byte {
					s, err := stdrsa.SignPKCS1v15(nil, priv, crypto.SHA256, d)
					if err != nil {
						panic(err)
					}
					return s
				},
				verify: func(d, s []byte) bool { return stdrsa.VerifyPKCS1v15(&priv.PublicKey, crypto.SHA256, d, s) == nil },
			})
		}
	}
	addRSA(2048, true, 2)
	addRSA(3072, true, 1)
	addRSA(4096, true, 1)
	addRSA(1024, false, 1)
	addRSA(1536, false, 1)
	// key types the constructor has no arm for
	out = append(out, &logKey{name: "ed25519", zpub: p.Ed[0].Public().(ed25519.PublicKey)})
	if ks := p.RSAByBits(2048, 2); len(ks) > 0 {
		out = append(out, &logKey{name: "crypto/rsa.PublicKey-2048 (stdlib type)", zpub: &ks[0].Std().PublicKey})
	}
	return out
}

type verCase struct {
	kind     string // SCT | STH
	key      *logKey
	mutation string
	sct      mSCT
	leaf     mLeaf
	sth      mSTH
	logID    [32]byte
	ds       mDS // STH signature
	baseOK   bool
	baseSig  string
}

func (v *verCase) input() map[string]any {
	in := map[string]any{"kind": "verify-" + v.kind, "key": v.key.name, "mutation": v.mutation}
	if v.kind == "SCT" {
		in["sct"] = sctInput(v.sct)
		in["entry"] = leafInput(v.leaf)
	} else {
		in["sth"] = map[string]any{"version": v.sth.Version, "timestamp": v.sth.Timestamp, "tree_size": v.sth.TreeSize, "root": hx(v.sth.Root),
			"hash": v.ds.Hash, "sig": v.ds.Sig, "signature": hx(v.ds.Signature)}
	}
	return in
}

// expected decides "its signature by the log key covers that input" with the reference encoder and Go crypto/*.
func (v *verCase) expected() (accept bool, lenientOnly bool) {
	var in []byte
	var err error
	d := v.ds
	if v.kind == "SCT" {
		in, err = refSCTSigInput(v.sct.Version, v.sct.Timestamp, v.leaf.Entry)
		d = v.sct.DS
		if v.leaf.Version != 0 || v.leaf.LeafType != 0 {
			return false, false
		}
	} else {
		in, err = refSTHSigInput(v.sth)
	}
	if err != nil || d.Hash != 4 || v.key.family == "" {
		return false, false
	}
	dg := sha256.Sum256(in)
	switch {
	case d.Sig == 1 && v.key.family == "rsa":
		return v.key.verify(dg[:], d.Signature), false
	case d.Sig == 3 && v.key.family == "ecdsa":
		if v.key.verify(dg[:], d.Signature) {
			return true, false
		}
		return false, v.key.lenient(dg[:], d.Signature)
	}
	return false, false
}

func (t *c16) evalVer(id string, v *verCase) {
	c := t.c
	var zerr error
	in := v.input()
	if !t.guard("ct.SignatureVerifier.Verify"+v.kind+"Signature", id, in, func() {
		if v.kind == "SCT" {
			zerr = v.key.sv.VerifySCTSignature(zSCT(v.sct), zEntry(v.leaf))
		} else {
			zerr = v.key.sv.VerifySTHSignature(zSTH(v.sth, v.logID, v.ds))
		}
	}) {
		return
	}
	c.Eval(1)
	want, lenient := v.expected()
	got := zerr == nil
	if v.baseOK {
		c.Nontrivial("ver", v.kind, v.key.name, v.mutation, v.baseSig)
	}
	if got {
		c.Count("verify_accept", 1)
	} else {
		c.Count("verify_reject", 1)
	}
	c.Count("verify_mutation:"+v.mutation, 1)
	switch {
	case got == want:
	case got && !want && lenient:
		c.Count("ecdsa_lenient_der_or_trailing_garbage_accepted_by_design", 1)
	case got && !want:
		c.Violation("verify:"+v.kind+":accepts-without-valid-signature:"+v.key.family+":"+v.mutation,
			"zcrypto accepted; Go crypto/* over SHA-256(reference input) with the declared algorithms does not", id, in)
	default:
		c.Violation("verify:"+v.kind+":rejects-genuine-signature:"+v.key.family+":"+v.mutation,
			fmt.Sprintf("zcrypto error: %v; Go crypto/* verifies the signature over SHA-256(reference input)", zerr), id, in)
	}
}

func flipBit(r *rand.Rand, b []byte) []byte {
	o := append([]byte{}, b...)
	if len(o) == 0 {
		return []byte{1}
	}
	o[r.IntN(len(o))] ^= 1 << uint(r.IntN(8))
	return o
}

func bswap64(v uint64) uint64 {
	var o uint64
	for i := 0; i < 8; i++ {
		o = o<<8 | (v>>(8*uint(i)))&0xff
	}
	return o
}

func (t *c16) verifierBase(idx int, usable []*logKey) {
	c, r := t.c, t.rng
	k := usable[r.IntN(len(usable))]
	sigAlg := uint8(3)
	if k.family == "rsa" {
		sigAlg = 1
	}
	other := func() *logKey {
		for tries := 0; tries < 50; tries++ {
			o := usable[r.IntN(len(usable))]
			if o != k && o.family == k.family {
				return o
			}
		}
		return nil
	}
	if r.IntN(5) < 3 {
		// SCT
		e := mEntry{Timestamp: pickTimestamp(r), EntryType: uint16(r.IntN(2))}
		n := 1 + r.IntN(1500)
		if r.IntN(12) == 0 {
			n = 70 * 1024
		}
		if e.EntryType == 1 {
			e.TBS = fill(r, n)
		} else {
			e.Cert = fill(r, n)
		}
		copy(e.IssuerKeyHash[:], fill(r, 32))
		switch r.IntN(6) {
		case 0:
			e.Ext = fill(r, 1+r.IntN(60))
		case 1:
			e.Ext = fill(r, 65535)
		}
		ts := pickTimestamp(r)
		leaf := mLeaf{Entry: e}
		leaf.Entry.Timestamp = pickTimestamp(r) // the leaf's own timestamp is not part of the SCT input
		in, err := refSCTSigInput(0, ts, e)
		if err != nil {
			c.Note("verifier base not encodable: %v", err)
			return
		}
		dg := sha256.Sum256(in)
		sig := k.sign(dg[:])
		base := mSCT{Version: 0, Timestamp: ts, Ext: e.Ext, DS: mDS{Hash: 4, Sig: sigAlg, Signature: sig}}
		copy(base.LogID[:], fill(r, 32))
		baseOK := k.verify(dg[:], sig)
		if !baseOK {
			c.Violation("harness:C16:genuine-signature-does-not-verify-with-go-crypto", k.name, "", nil)
			return
		}
		bs := fmt.Sprintf("%s|%d|%d|%x", k.name, ts, e.EntryType, dg[:8])
		mk := func(mut string, f func(v *verCase)) {
			v := &verCase{kind: "SCT", key: k, mutation: mut, sct: base, leaf: leaf, baseOK: baseOK, baseSig: bs}
			v.sct.DS.Signature = append([]byte{}, sig...)
			f(v)
			t.evalVer(fmt.Sprintf("ver-%d-%s", idx, mut), v)
		}
		mk("none", func(v *verCase) {})
		mk("signature-bit", func(v *verCase) { v.sct.DS.Signature = flipBit(r, sig) })
		mk("signature-truncated", func(v *verCase) { v.sct.DS.Signature = sig[:len(sig)-1] })
		mk("signature-empty", func(v *verCase) { v.sct.DS.Signature = nil })
		if k.family == "rsa" {
			mk("signature-extended", func(v *verCase) { v.sct.DS.Signature = append(append([]byte{}, sig...), byte(r.IntN(256))) })
			mk("signature-leading-zero", func(v *verCase) { v.sct.DS.Signature = append([]byte{0}, sig...) })
		} else {
			// outside the asserted mutation set: ct/signatures.go logs "Garbage following signature" and accepts
			v := &verCase{kind: "SCT", key: k, mutation: "ecdsa-trailing-garbage(not asserted)", sct: base, leaf: leaf}
			v.sct.DS.Signature = append(append([]byte{}, sig...), 1, 2, 3)
			var zerr error
			if t.guard("VerifySCTSignature", "", v.input(), func() { zerr = k.sv.VerifySCTSignature(zSCT(v.sct), zEntry(v.leaf)) }) {
				if zerr == nil {
					c.Count("ecdsa_trailing_garbage_accepted(not asserted)", 1)
				} else {
					c.Count("ecdsa_trailing_garbage_rejected(not asserted)", 1)
				}
			}
		}
		mk("hash-algorithm", func(v *verCase) {
			h := uint8(r.IntN(256))
			if h == 4 {
				h = []uint8{0, 2, 5, 6}[r.IntN(4)]
			}
			v.sct.DS.Hash = h
		})
		mk("signature-algorithm-other-family", func(v *verCase) { v.sct.DS.Sig = 4 - sigAlg })
		mk("signature-algorithm-random", func(v *verCase) {
			s := uint8(r.IntN(256))
			if s == sigAlg {
				s = 0
			}
			v.sct.DS.Sig = s
		})
		mk("timestamp+1", func(v *verCase) { v.sct.Timestamp++ })
		mk("timestamp-byteswapped", func(v *verCase) {
			if bswap64(v.sct.Timestamp) == v.sct.Timestamp {
				v.sct.Timestamp ^= 0x0100
			} else {
				v.sct.Timestamp = bswap64(v.sct.Timestamp)
			}
		})
		mk("entry-type-swapped", func(v *verCase) {
			v.leaf.Entry.EntryType ^= 1
			v.leaf.Entry.Cert, v.leaf.Entry.TBS = v.leaf.Entry.TBS, v.leaf.Entry.Cert
		})
		mk("certificate-bit", func(v *verCase) {
			if v.leaf.Entry.EntryType == 1 {
				v.leaf.Entry.TBS = flipBit(r, v.leaf.Entry.TBS)
			} else {
				v.leaf.Entry.Cert = flipBit(r, v.leaf.Entry.Cert)
			}
		})
		mk("certificate-truncated", func(v *verCase) {
			if v.leaf.Entry.EntryType == 1 {
				v.leaf.Entry.TBS = v.leaf.Entry.TBS[:len(v.leaf.Entry.TBS)-1]
			} else {
				v.leaf.Entry.Cert = v.leaf.Entry.Cert[:len(v.leaf.Entry.Cert)-1]
			}
		})
		mk("extensions", func(v *verCase) {
			if len(v.leaf.Entry.Ext) == 0 {
				v.leaf.Entry.Ext = []byte{0}
			} else if len(v.leaf.Entry.Ext) == 65535 || r.IntN(2) == 0 {
				v.leaf.Entry.Ext = flipBit(r, v.leaf.Entry.Ext)
			} else {
				v.leaf.Entry.Ext = append(append([]byte{}, v.leaf.Entry.Ext...), 0)
			}
			// a real log entry carries the SCT's extensions: keep the two copies (SCT struct, leaf) identical
			v.sct.Ext = v.leaf.Entry.Ext
		})
		mk("issuer-key-hash-bit", func(v *verCase) {
			h := flipBit(r, v.leaf.Entry.IssuerKeyHash[:])
			copy(v.leaf.Entry.IssuerKeyHash[:], h)
		})
		mk("log-id-bit", func(v *verCase) { copy(v.sct.LogID[:], flipBit(r, v.sct.LogID[:])) })
		mk("leaf-timestamp", func(v *verCase) { v.leaf.Entry.Timestamp ^= 0x55 })
		mk("sct-version", func(v *verCase) { v.sct.Version = uint8(1 + r.IntN(255)) })
		if o := other(); o != nil {
			v := &verCase{kind: "SCT", key: o, mutation: "signed-by-another-key", sct: base, leaf: leaf, baseOK: baseOK, baseSig: bs}
			t.evalVer(fmt.Sprintf("ver-%d-otherkey", idx), v)
		}
		return
	}
	// STH
	s := mSTH{Timestamp: pickTimestamp(r), TreeSize: pickTimestamp(r), Root: fill(r, 32)}
	in, err := refSTHSigInput(s)
	if err != nil {
		return
	}
	dg := sha256.Sum256(in)
	sig := k.sign(dg[:])
	baseOK := k.verify(dg[:], sig)
	if !baseOK {
		c.Violation("harness:C16:genuine-signature-does-not-verify-with-go-crypto", k.name, "", nil)
		return
	}
	bs := fmt.Sprintf("%s|%d|%d|%x", k.name, s.Timestamp, s.TreeSize, dg[:8])
	var logID [32]byte
	copy(logID[:], fill(r, 32))
	mk := func(mut string, f func(v *verCase)) {
		v := &verCase{kind: "STH", key: k, mutation: mut, sth: s, logID: logID, ds: mDS{4, sigAlg, append([]byte{}, sig...)}, baseOK: baseOK, baseSig: bs}
		v.sth.Root = append([]byte{}, s.Root...)
		f(v)
		t.evalVer(fmt.Sprintf("ver-%d-%s", idx, mut), v)
	}
	mk("none", func(v *verCase) {})
	mk("signature-bit", func(v *verCase) { v.ds.Signature = flipBit(r, sig) })
	mk("signature-truncated", func(v *verCase) { v.ds.Signature = sig[:len(sig)-1] })
	if k.family == "rsa" {
		mk("signature-extended", func(v *verCase) { v.ds.Signature = append(append([]byte{}, sig...), 0) })
	}
	mk("hash-algorithm", func(v *verCase) {
		h := uint8(r.IntN(256))
		if h == 4 {
			h = 5
		}
		v.ds.Hash = h
	})
	mk("signature-algorithm-other-family", func(v *verCase) { v.ds.Sig = 4 - sigAlg })
	mk("signature-algorithm-random", func(v *verCase) {
		x := uint8(r.IntN(256))
		if x == sigAlg {
			x = 2
		}
		v.ds.Sig = x
	})
	mk("timestamp+1", func(v *verCase) { v.sth.Timestamp++ })
	mk("tree-size+1", func(v *verCase) { v.sth.TreeSize++ })
	mk("tree-size-byteswapped", func(v *verCase) {
		if bswap64(v.sth.TreeSize) == v.sth.TreeSize {
			v.sth.TreeSize ^= 0x0100
		} else {
			v.sth.TreeSize = bswap64(v.sth.TreeSize)
		}
	})
	mk("timestamp-treesize-swapped", func(v *verCase) {
		if v.sth.Timestamp == v.sth.TreeSize {
			v.sth.TreeSize++
		} else {
			v.sth.Timestamp, v.sth.TreeSize = v.sth.TreeSize, v.sth.Timestamp
		}
	})
	mk("root-hash-bit", func(v *verCase) { v.sth.Root = flipBit(r, v.sth.Root) })
	mk("log-id-bit", func(v *verCase) { copy(v.logID[:], flipBit(r, v.logID[:])) })
	mk("sth-version", func(v *verCase) { v.sth.Version = uint8(1 + r.IntN(255)) })
	if o := other(); o != nil {
		v := &verCase{kind: "STH", key: o, mutation: "signed-by-another-key", sth: s, logID: logID, ds: mDS{4, sigAlg, sig}, baseOK: baseOK, baseSig: bs}
		t.evalVer(fmt.Sprintf("ver-%d-otherkey", idx), v)
	}
}

// ---------------------------------------------------------------------------
// maximal / over-long 2^24 fields (a handful of cases, one shard each)

func (t *c16) maximalCases() {
	c, r := t.c, t.rng
	type mc struct {
		name string
		run  func()
	}
	big1 := func(n int) []byte { return fill(r, n) }
	cases := []mc{
		{"siginput-x509-2^24-1", func() {
			t.sctInputCase("max-siginput-x509-max", 0, 7, mLeaf{Entry: mEntry{EntryType: 0, Cert: big1(max24), Ext: []byte{1}}})
		}},
		{"siginput-x509-2^24", func() {
			t.sctInputCase("max-siginput-x509-over", 0, 7, mLeaf{Entry: mEntry{EntryType: 0, Cert: big1(max24 + 1)}})
		}},
		{"siginput-precert-2^24-1", func() {
			t.sctInputCase("max-siginput-precert-max", 0, 7, mLeaf{Entry: mEntry{EntryType: 1, TBS: big1(max24), Ext: big1(65535)}})
		}},
		{"siginput-precert-2^24", func() {
			t.sctInputCase("max-siginput-precert-over", 0, 7, mLeaf{Entry: mEntry{EntryType: 1, TBS: big1(max24 + 1)}})
		}},
		{"leaf-x509-2^24-1", func() {
			t.leafCase("max-leaf-x509", mLeaf{Entry: mEntry{Timestamp: 9, EntryType: 0, Cert: big1(max24), Ext: big1(65535)}}, nil)
		}},
		{"leaf-precert-2^24-1", func() {
			t.leafCase("max-leaf-precert", mLeaf{Entry: mEntry{Timestamp: 9, EntryType: 1, TBS: big1(max24)}}, []byte{1, 2})
		}},
		{"chain-x509-2^24-4", func() { t.chainCase("max-chain-x509", false, nil, [][]byte{big1(max24 - 3)}) }},
		{"chain-precert-max", func() { t.chainCase("max-chain-precert", true, big1(max24), [][]byte{big1(max24 - 3)}) }},
		{"siginput-zero-length-cert", func() {
			t.sctInputCase("zero-cert", 0, 7, mLeaf{Entry: mEntry{EntryType: 0, Cert: nil}})
			t.sctInputCase("zero-tbs", 0, 7, mLeaf{Entry: mEntry{EntryType: 1, TBS: []byte{}}})
		}},
	}
	for i, m := range cases {
		if i%c.NShards != c.Shard {
			continue
		}
		m.run()
		c.Count("maximal_2^24_cases", 1)
	}
}

// ---------------------------------------------------------------------------

func runC16(c *core.Ctx) {
	t := &c16{c: c, rng: c.Rng}
	r := t.rng
	nv := c.PerShard(c.Pick(6400, 200000))
	for i := 0; i < nv; i++ {
		id := fmt.Sprintf("val-%d", i)
		switch k := i % 8; k {
		case 0, 1:
			t.dsCase(id, dsAPIs[k], genDS(r))
		case 2, 3:
			t.sctCase(id, genSCT(r))
		case 4:
			l := mLeaf{Version: pickVersion(r), Entry: genEntry(r, true, true)}
			if r.IntN(12) == 0 {
				l.LeafType = uint8(1 + r.IntN(255))
			}
			var trailing []byte
			if r.IntN(4) == 0 {
				trailing = fill(r, 1+r.IntN(8))
			}
			t.leafCase(id, l, trailing)
		case 5:
			precert := r.IntN(2) == 0
			n := r.IntN(6)
			chain := make([][]byte, n)
			for j := range chain {
				chain[j] = fill(r, pick24(r, r.IntN(4) == 0))
			}
			var pre []byte
			if precert {
				pre = fill(r, pick24(r, r.IntN(8) == 0))
			}
			t.chainCase(id, precert, pre, chain)
		case 6:
			l := mLeaf{Entry: genEntry(r, true, true)}
			if r.IntN(20) == 0 {
				l.LeafType = uint8(1 + r.IntN(255))
			}
			t.sctInputCase(id, pickVersion(r), pickTimestamp(r), l)
		case 7:
			t.sthInputCase(id, mSTH{Version: pickVersion(r), Timestamp: pickTimestamp(r), TreeSize: pickTimestamp(r), Root: fill(r, 32)})
		}
	}
	t.maximalCases()
	for i, nbatch := 0, c.PerShard(c.Pick(3200, 60000)); i < nbatch; i++ {
		t.batchCase(fmt.Sprintf("batch-%d", i))
	}

	// verifier
	lks := buildLogKeys()
	var usable []*logKey
	for _, k := range lks {
		var sv *ct.SignatureVerifier
		var err error
		if pi := core.Guard(func() { sv, err = ct.NewSignatureVerifier(k.zpub) }); pi != nil {
			c.Violation(pi.Key, "NewSignatureVerifier("+k.name+"): "+pi.Value, "newverifier-"+k.name, map[string]any{"key": k.name})
			continue
		}
		switch {
		case err == nil && sv != nil && k.family != "":
			k.sv = sv
			usable = append(usable, k)
			if !k.compliant {
				c.Count("constructor_accepted_noncompliant_key(not asserted)", 1)
			} else {
				c.Count("constructor_accepted_compliant_key", 1)
			}
		case err == nil:
			c.Count("constructor_accepted_unsupported_key_type(not asserted)", 1)
		case k.compliant:
			c.Violation("verify:constructor-refuses-rfc6962-compliant-key:"+k.family, fmt.Sprintf("NewSignatureVerifier(%s): %v — no genuine signature of this log can ever be accepted", k.name, err),
				"newverifier-"+k.name, map[string]any{"key": k.name})
		default:
			c.Count("constructor_refused_noncompliant_or_unsupported_key", 1)
			if c.Shard == 0 {
				c.Note("NewSignatureVerifier(%s) refused: %v", k.name, err)
			}
		}
	}
	if len(usable) == 0 {
		c.Violation("verify:no-usable-log-key", "NewSignatureVerifier accepted none of the pool keys", "", nil)
		return
	}
	nb := c.PerShard(c.Pick(1400, 40000))
	for i := 0; i < nb; i++ {
		t.verifierBase(i, usable)
	}
	for i, ns := 0, c.PerShard(c.Pick(640, 16000)); i < ns; i++ {
		t.sequenceCase(fmt.Sprintf("seq-%d", i), usable)
	}
	for i, nc := 0, c.PerShard(c.Pick(160, 3200)); i < nc; i++ {
		t.concurrentRound(fmt.Sprintf("conc-%d", i), usable)
	}
}
