package cteng

// C17 — the CT scanner processes every log entry exactly once without races.
//
// Each case is one Scanner.Scan against the in-process fake log of fakelog.go
// (httptest on 127.0.0.1). A recording Matcher wraps the configured matcher, so
// the hand-over of an entry to the matcher is an event of its own; the found
// callbacks are events too. Events go to per-goroutine buffers (keyed by
// goroutine id, no lock, no shared counter) which are merged after Scan has
// returned; the oracle then runs offline over the merged log and the model of
// the tree. The same scans run in the plain leg and, fewer of them, in the
// -race leg (Meta.RaceShards), where the supervisor collects race reports whose
// stacks pass through ct/scanner or ct/client.

import (
	"encoding/json"
	"fmt"
	"hash/fnv"
	"io"
	"math/big"
	"math/rand/v2"
	"net/http/httptest"
	"runtime"
	"sort"
	"strings"
	"sync"
	"time"

	"github.com/sirupsen/logrus"
	"github.com/zmap/zcrypto/ct"
	"github.com/zmap/zcrypto/ct/client"
	"github.com/zmap/zcrypto/ct/scanner"
	ctx509 "github.com/zmap/zcrypto/ct/x509"
	zasn1 "github.com/zmap/zcrypto/encoding/asn1"

	"verifharness/internal/core"
)

func init() {
	core.RegisterMeta("C17", core.Meta{
		Rule: "one case = one Scanner.Scan against an in-process fake CT log (httptest, 127.0.0.1) over a tree of 50..3000 uniquely tagged entries (serial = 2^62|index; " +
			"kinds: X.509 / precert / non-fatal parse error / Certificate-shaped unparsable / corrupt bytes), options from BatchSize{1,7,100,1000,other} x ParallelFetch{1,2,8} x " +
			"NumWorkers{1,2,8} x StartIndex{0,k} x MaximumIndex{0,k} x PrecertOnly x IgnoreParsingErrors x matcher{All,None,SerialNumber,tag%3}, behaviour plan per (range start, attempt): " +
			"full / non-empty strict prefix / HTTP 502,503,504,429 / malformed JSON (6 kinds) / connection reset, GOMAXPROCS{1,2,4,16}, every configuration run twice; " +
			"plus a long family (> 2.5 s, incl. HTTP 500) and a medium family (>= 1.2 s) in which the once-per-second progress goroutine runs, with the caller's treatment of the progress channel " +
			"as a dimension {drained, nil, unbuffered never read, buffered(1) never read, drained for 1.2 s then abandoned}. non-trivial = Scan returned and the scanned range held >= 1 entry; " +
			"distinct by hash of the configuration (tree, options, plan, GOMAXPROCS, leg) — the two repetitions of a configuration count once",
		MinNontrivial:         120,
		MinNontrivialThorough: 700,
		Shards:                8,
		RaceShards:            8,
		RacePkgs:              []string{"zcrypto/ct/scanner", "zcrypto/ct/client"},
		ChildTimeoutQuick:     5400,
		Assumptions: []string{
			"the fake log answers every range request with the complete range, a non-empty strict prefix or a transient failure, and after a bounded number of failures per range start with the complete range",
			"entries whose certificate cannot be parsed are not handed to the matcher (there is no certificate to hand over); per the scanner's comments they are skipped, or with IgnoreParsingErrors delivered to the found callback when they are valid ASN.1",
			"an entry is identified by the serial number of the certificate handed to the matcher / by the raw bytes handed to the callback",
			"termination: a Scan that has not returned while the fake log has seen no new request for 600 s (a whole scan normally takes < 5 s), with goroutines parked in ct/scanner frames, is reported as a violation with the goroutine dump",
			"tight termination rule: once the log has served the whole range, has been idle for 20 s and two goroutine dumps >= 10 s apart show Scan alive with no fetcher/matcher goroutine left, Scan is reported as not returning (witness: the dump)",
			"race detection is that of the Go race detector on the interleavings that occurred (GOMAXPROCS 1/2/4/16, perturbed callbacks and handlers)",
			"goroutine ids are read from runtime.Stack; ordering of events across goroutines uses the monotonic clock and is used for evidence (interleaving counts) only",
		},
	}, runC17)
}

// ---------------------------------------------------------------------------
// event recording: one buffer per goroutine, merged after Scan returns

const (
	evMatchCert uint8 = iota
	evMatchPrecert
	evFoundCert
	evFoundPrecert
)

const (
	fIsPrecert uint8 = 1 << iota
	fChainOK
	fNilCert
	fPrecertStructOK
	fLeafOK
	fServerOK
)

type event struct {
	t      int64 // ns since scan start (monotonic), evidence only
	kind   uint8
	flags  uint8
	tag    int64 // index decoded from the certificate's serial; -1 if there is no parsed certificate
	index  int64 // LogEntry.Index (found events)
	rawIdx int64 // log position of the bytes in LogEntry.RawCert (found events); -1 unknown
	slot   int   // goroutine slot, assigned at merge
}

type gbuf struct {
	goid int64
	ev   []event
}

type recorder struct {
	t0   time.Time
	bufs sync.Map // goroutine id -> *gbuf; written once per goroutine
}

func goid() int64 {
	var buf [64]byte
	n := runtime.Stack(buf[:], false)
	var id int64
	for _, ch := range buf[len("goroutine "):n] {
		if ch < '0' || ch > '9' {
			break
		}
		id = id*10 + int64(ch-'0')
	}
	return id
}

func (r *recorder) add(e event) {
	id := goid()
	v, ok := r.bufs.Load(id)
	if !ok {
		v, _ = r.bufs.LoadOrStore(id, &gbuf{goid: id})
	}
	b := v.(*gbuf)
	e.t = int64(time.Since(r.t0))
	b.ev = append(b.ev, e)
}

func (r *recorder) merged() ([]event, int) {
	var bufs []*gbuf
	r.bufs.Range(func(_, v any) bool { bufs = append(bufs, v.(*gbuf)); return true })
	sort.Slice(bufs, func(i, j int) bool { return bufs[i].goid < bufs[j].goid })
	var all []event
	for s, b := range bufs {
		for _, e := range b.ev {
			e.slot = s
			all = append(all, e)
		}
	}
	sort.SliceStable(all, func(i, j int) bool { return all[i].t < all[j].t })
	return all, len(bufs)
}

func serialTag(c *ctx509.Certificate) int64 {
	if c == nil || c.SerialNumber == nil || !c.SerialNumber.IsUint64() {
		return -1
	}
	v := c.SerialNumber.Uint64()
	if v&tagBase == 0 {
		return -1
	}
	return int64(v &^ tagBase)
}

// perturb yields or sleeps as a pure function of (seed, tag): schedule diversity without shared state.
func perturb(seed uint64, tag int64, level int) {
	if level == 0 {
		return
	}
	h := mix64(seed, uint64(tag), 99)
	switch h % 16 {
	case 0, 1, 2:
		runtime.Gosched()
	case 3:
		if level > 1 {
			time.Sleep(time.Duration(1+(h>>8)%40) * time.Microsecond)
		}
	}
}

// ---- matchers -----------------------------------------------------------------

type tagMod3 struct{}

func (tagMod3) CertificateMatches(c *ctx509.Certificate) bool { return serialTag(c)%3 == 0 }
func (tagMod3) PrecertificateMatches(p *ct.Precertificate) bool {
	return serialTag(p.TBSCertificate)%3 == 0
}

type recMatcher struct {
	inner scanner.Matcher
	rec   *recorder
	seed  uint64
	level int
}

func (m *recMatcher) CertificateMatches(c *ctx509.Certificate) bool {
	tag := serialTag(c)
	m.rec.add(event{kind: evMatchCert, tag: tag, index: -1, rawIdx: -1})
	perturb(m.seed, tag, m.level)
	return m.inner.CertificateMatches(c)
}

func (m *recMatcher) PrecertificateMatches(p *ct.Precertificate) bool {
	tag := int64(-1)
	if p != nil {
		tag = serialTag(p.TBSCertificate)
	}
	m.rec.add(event{kind: evMatchPrecert, tag: tag, index: -1, rawIdx: -1})
	perturb(m.seed, tag, m.level)
	return m.inner.PrecertificateMatches(p)
}

// ---- one scan -------------------------------------------------------------------

type scanConfig struct {
	TreeSeed    uint64
	TreeSize    int
	Mix         string
	Batch       int64
	Fetchers    int
	Workers     int
	Start       int64
	MaxIndex    int64
	PrecertOnly bool
	IgnoreParse bool
	Matcher     string // all | none | serial | mod3
	SerialOf    int64  // for "serial": the index whose serial is searched
	Plan        planParams
	Procs       int
	Perturb     int
	LogLevel    string // panic | debug
	Long        bool
	TargetMs    int    // long / medium family: intended duration
	Updater     string // how the caller treats the progress channel: drained | nil | unbuffered-unread | buffered1-unread | drained-1s-then-abandoned
}

var updaterModes = []string{"drained", "nil", "unbuffered-unread", "buffered1-unread", "drained-1s-then-abandoned"}

func (cfg scanConfig) String() string {
	b, _ := json.Marshal(cfg)
	return string(b)
}

func (cfg scanConfig) stop() int64 {
	if cfg.MaxIndex != 0 {
		return cfg.MaxIndex
	}
	return int64(cfg.TreeSize)
}

func (cfg scanConfig) matches(i int64) bool {
	switch cfg.Matcher {
	case "all":
		return true
	case "none":
		return false
	case "serial":
		return i == cfg.SerialOf
	default:
		return i%3 == 0
	}
}

type scanResult struct {
	ret      int64
	err      error
	events   []event
	nGor     int
	reqs     []reqEvent
	updates  []int64
	hung     bool
	hungWhy  string
	dump     string
	panicked *core.PanicInfo
	elapsed  time.Duration
}

func runScan(cfg scanConfig, tree *fakeTree) *scanResult {
	res := &scanResult{}
	fl := newFakeLog(tree, cfg.Plan)
	srv := httptest.NewServer(fl)
	defer srv.Close()

	rec := &recorder{t0: time.Now()}
	var inner scanner.Matcher
	switch cfg.Matcher {
	case "all":
		inner = scanner.MatchAll{}
	case "none":
		inner = scanner.MatchNone{}
	case "serial":
		var sn big.Int
		sn.SetUint64(tagBase | uint64(cfg.SerialOf))
		inner = scanner.MatchSerialNumber{SerialNumber: sn}
	default:
		inner = tagMod3{}
	}
	rm := &recMatcher{inner: inner, rec: rec, seed: cfg.Plan.Seed, level: cfg.Perturb}
	found := func(kind uint8) func(*ct.LogEntry, string) {
		return func(e *ct.LogEntry, server string) {
			ev := event{kind: kind, tag: -1, index: -1, rawIdx: -1}
			if e == nil {
				rec.add(ev)
				return
			}
			ev.index = e.Index
			if i, ok := tree.byRaw[string(e.RawCert)]; ok {
				ev.rawIdx = i
				te := &tree.entries[i]
				ok := len(e.Chain) == len(te.chain)
				for j := 0; ok && j < len(te.chain); j++ {
					ok = string(e.Chain[j]) == string(te.chain[j])
				}
				if ok {
					ev.flags |= fChainOK
				}
				lt := e.Leaf.TimestampedEntry
				if lt.Timestamp == 1500000000000+uint64(i) && (lt.EntryType == ct.PrecertLogEntryType) == te.kind.isPrecertType() {
					ev.flags |= fLeafOK
				}
				if e.Precert != nil && len(te.chain) > 0 && string(e.Precert.Raw) == string(te.chain[0]) && e.Precert.IssuerKeyHash == te.ikh {
					ev.flags |= fPrecertStructOK
				}
			}
			if e.IsPrecert {
				ev.flags |= fIsPrecert
			}
			if server == "fake-log" {
				ev.flags |= fServerOK
			}
			var c *ctx509.Certificate
			if kind == evFoundPrecert {
				if e.Precert != nil {
					c = e.Precert.TBSCertificate
				}
			} else {
				c = e.X509Cert
			}
			if c == nil {
				ev.flags |= fNilCert
			} else {
				ev.tag = serialTag(c)
			}
			rec.add(ev)
			perturb(cfg.Plan.Seed^0x5555, ev.index, cfg.Perturb)
		}
	}

	logger := logrus.New()
	logger.Out = io.Discard
	logger.Level = logrus.PanicLevel
	if cfg.LogLevel == "debug" {
		logger.Level = logrus.DebugLevel
	}
	opts := scanner.ScannerOptions{
		Matcher: rm, PrecertOnly: cfg.PrecertOnly, BatchSize: cfg.Batch, NumWorkers: cfg.Workers, ParallelFetch: cfg.Fetchers,
		StartIndex: cfg.Start, Quiet: true, Name: "fake-log", MaximumIndex: cfg.MaxIndex, IgnoreParsingErrors: cfg.IgnoreParse,
	}
	prev := runtime.GOMAXPROCS(cfg.Procs)
	defer runtime.GOMAXPROCS(prev)

	s := scanner.NewScanner(client.New(srv.URL), opts, logger)
	// the progress channel as different callers treat it; Scan's contract does not depend on anybody reading it
	var updater chan int64
	var readFrom chan int64
	var abandon <-chan time.Time
	switch cfg.Updater {
	case "nil":
	case "unbuffered-unread":
		updater = make(chan int64)
	case "buffered1-unread":
		updater = make(chan int64, 1)
	case "drained-1s-then-abandoned":
		updater = make(chan int64)
		readFrom = updater
		abandon = time.After(1200 * time.Millisecond)
	default:
		updater = make(chan int64, 64)
		readFrom = updater
	}
	stopDrain := make(chan struct{})
	drained := make(chan []int64, 1)
	go func() {
		var got []int64
		for {
			select {
			case v := <-readFrom:
				got = append(got, v)
			case <-abandon:
				readFrom, abandon = nil, nil // the consumer walks away
			case <-stopDrain:
				drained <- got
				return
			}
		}
	}()
	type out struct {
		ret int64
		err error
		pi  *core.PanicInfo
	}
	done := make(chan out, 1)
	t0 := time.Now()
	go func() {
		var o out
		o.pi = core.Guard(func() { o.ret, o.err = s.Scan(found(evFoundCert), found(evFoundPrecert), updater) })
		done <- o
	}()
	// termination watch: progress-based, so that a slow machine is not mistaken for a hang. Progress = a new
	// request reaching the fake log; once the last range has been fetched at most 3000 buffered entries remain.
	const idleLimit, hardLimit = 600 * time.Second, 40 * time.Minute
	tick := time.NewTicker(2 * time.Second)
	defer tick.Stop()
	lastN, lastChange := -1, time.Now()
	var parkedSince, lastDump time.Time
	wantServed := cfg.stop() - cfg.Start
wait:
	for {
		select {
		case o := <-done:
			res.ret, res.err, res.panicked = o.ret, o.err, o.pi
			break wait
		case <-tick.C:
			fl.mu.Lock()
			n := len(fl.reqs) + fl.sthReqs + fl.other
			served := fl.served
			fl.mu.Unlock()
			if n != lastN {
				lastN, lastChange = n, time.Now()
				parkedSince = time.Time{}
			}
			// tight rule: the log has handed out the whole range, has been idle for 20 s, and no fetcher or matcher
			// goroutine exists any more (so every entry was handed over) — then Scan itself must have returned.
			// Two dumps >= 10 s apart must both show Scan alive without workers.
			if wantServed > 0 && served >= wantServed && time.Since(lastChange) > 20*time.Second && time.Since(lastDump) > 10*time.Second {
				buf := make([]byte, 4<<20)
				dump := string(buf[:runtime.Stack(buf, true)])
				lastDump = time.Now()
				scanAlive := strings.Contains(dump, "ct/scanner.(*Scanner).Scan(")
				workers := strings.Contains(dump, "ct/scanner.(*Scanner).matcherJob(") || strings.Contains(dump, "ct/scanner.(*Scanner).fetcherJob(")
				switch {
				case !scanAlive || workers:
					parkedSince = time.Time{}
				case parkedSince.IsZero():
					parkedSince = time.Now()
				case time.Since(parkedSince) >= 10*time.Second:
					res.hung = true
					res.hungWhy = fmt.Sprintf("the log served all %d entries of the range and has seen no request for %d s; all fetcher and matcher goroutines have exited (every entry was handed over) but Scan has not returned (updater mode %q)",
						wantServed, int(time.Since(lastChange).Seconds()), cfg.Updater)
					res.dump = dump
					close(stopDrain)
					return res
				}
			}
			if time.Since(lastChange) > idleLimit || time.Since(t0) > hardLimit {
				buf := make([]byte, 4<<20)
				n := runtime.Stack(buf, true)
				res.hung = true
				res.hungWhy = "Scan has not returned and the log has seen no request for 600 s"
				res.dump = string(buf[:n])
				close(stopDrain)
				return res
			}
		}
	}
	res.elapsed = time.Since(t0)
	close(stopDrain)
	res.updates = <-drained
	res.events, res.nGor = rec.merged()
	fl.mu.Lock()
	res.reqs = append([]reqEvent{}, fl.reqs...)
	fl.mu.Unlock()
	return res
}

// ---------------------------------------------------------------------------
// oracle

type viol struct{ key, detail string }

func checkScan(cfg scanConfig, tree *fakeTree, res *scanResult) []viol {
	var vs []viol
	add := func(key, f string, a ...any) {
		for _, v := range vs {
			if v.key == key {
				return // one witness per key and scan
			}
		}
		vs = append(vs, viol{key, fmt.Sprintf(f, a...)})
	}
	start, stop := cfg.Start, cfg.stop()
	n := stop - start
	if n < 0 {
		n = 0
	}
	if res.err != nil {
		// the fake log always answers get-sth, so this can only be the environment (client timeouts on an
		// overloaded machine); the statement says nothing about it: counted by the caller, not asserted
		return vs
	}
	if res.ret != start+n {
		add("scan:return-value-not-start-plus-processed", "Scan returned %d, expected StartIndex %d + %d entries in [%d,%d) = %d", res.ret, start, n, start, stop, start+n)
	}
	inRange := func(i int64) bool { return i >= start && i < stop }
	// expectations per index
	handed := func(i int64) bool {
		k := tree.entries[i].kind
		if !k.parsable() {
			return false
		}
		return k.isPrecertType() || !cfg.PrecertOnly
	}
	foundExp := func(i int64) bool {
		k := tree.entries[i].kind
		if !k.isPrecertType() && cfg.PrecertOnly {
			return false
		}
		if k.parsable() {
			return cfg.matches(i)
		}
		return cfg.IgnoreParse && k.shaped()
	}
	matchSeen := map[int64]int{}
	foundSeen := map[int64]int{}
	for _, e := range res.events {
		switch e.kind {
		case evMatchCert, evMatchPrecert:
			if e.tag < 0 || e.tag >= int64(len(tree.entries)) {
				add("matcher:handed-a-certificate-that-is-not-a-log-entry", "matcher received a certificate whose serial is not a tag of this log (tag %d)", e.tag)
				continue
			}
			matchSeen[e.tag]++
			if !inRange(e.tag) {
				add("matcher:entry-outside-scanned-range", "entry %d handed to the matcher, scanned range is [%d,%d)", e.tag, start, stop)
				continue
			}
			if tree.entries[e.tag].kind.isPrecertType() != (e.kind == evMatchPrecert) {
				add("matcher:wrong-method-for-entry-type", "entry %d (%s) handed to the wrong Matcher method", e.tag, kindNames[tree.entries[e.tag].kind])
			}
			if !handed(e.tag) {
				add("matcher:entry-handed-over-that-should-be-skipped", "entry %d (%s) handed to the matcher with PrecertOnly=%v", e.tag, kindNames[tree.entries[e.tag].kind], cfg.PrecertOnly)
			}
		case evFoundCert, evFoundPrecert:
			if e.rawIdx < 0 {
				add("found:callback-with-bytes-that-are-not-a-log-entry", "found callback with RawCert that is no entry of this log (Index %d)", e.index)
				continue
			}
			i := e.rawIdx
			foundSeen[i]++
			te := tree.entries[i]
			sfx := ""
			if !te.kind.parsable() {
				sfx = ":unparsable-entry"
			}
			if e.index != i {
				add("found:wrong-index"+sfx, "entry at log position %d delivered with Index %d", i, e.index)
			}
			if e.flags&fNilCert == 0 && e.tag != i {
				add("found:certificate-does-not-belong-to-entry", "entry %d delivered with a parsed certificate tagged %d", i, e.tag)
			}
			if !inRange(i) {
				add("found:entry-outside-scanned-range", "entry %d delivered, scanned range is [%d,%d)", i, start, stop)
				continue
			}
			if te.kind.isPrecertType() != (e.kind == evFoundPrecert) || te.kind.isPrecertType() != (e.flags&fIsPrecert != 0) {
				add("found:wrong-callback-for-entry-type"+sfx, "entry %d (%s): callback kind %d IsPrecert=%v", i, kindNames[te.kind], e.kind, e.flags&fIsPrecert != 0)
			}
			if e.flags&fChainOK == 0 || e.flags&fLeafOK == 0 || (te.kind.isPrecertType() && e.flags&fPrecertStructOK == 0) {
				add("found:entry-content-differs-from-log"+sfx, "entry %d (%s): chain ok=%v leaf ok=%v precert struct ok=%v", i, kindNames[te.kind],
					e.flags&fChainOK != 0, e.flags&fLeafOK != 0, e.flags&fPrecertStructOK != 0)
			}
			if te.kind.parsable() == (e.flags&fNilCert != 0) {
				add("found:parsed-certificate-presence-wrong"+sfx, "entry %d (%s) delivered with nil certificate = %v", i, kindNames[te.kind], e.flags&fNilCert != 0)
			}
			if !foundExp(i) {
				add("found:unexpected-delivery"+sfx, "entry %d (%s) delivered to the found callback; matcher=%s PrecertOnly=%v IgnoreParsingErrors=%v", i, kindNames[te.kind], cfg.Matcher, cfg.PrecertOnly, cfg.IgnoreParse)
			}
		}
	}
	for i := start; i < stop; i++ {
		k := tree.entries[i].kind
		sfx := ""
		if !k.parsable() {
			sfx = ":unparsable-entry"
		}
		switch c := matchSeen[i]; {
		case c > 1:
			add("matcher:entry-handed-over-more-than-once", "entry %d (%s) handed to the matcher %d times", i, kindNames[k], c)
		case c == 0 && handed(i):
			add("matcher:entry-never-handed-over", "entry %d (%s) in the scanned range [%d,%d) never reached the matcher", i, kindNames[k], start, stop)
		}
		switch c := foundSeen[i]; {
		case c > 1:
			add("found:duplicate-delivery"+sfx, "entry %d (%s) delivered %d times", i, kindNames[k], c)
		case c == 0 && foundExp(i):
			add("found:missing-delivery"+sfx, "entry %d (%s) matched but was never delivered", i, kindNames[k])
		}
	}
	return vs
}

// ---------------------------------------------------------------------------
// evidence helpers

func hashInts(xs []int64) uint64 {
	h := fnv.New64a()
	var b [8]byte
	for _, x := range xs {
		for i := 0; i < 8; i++ {
			b[i] = byte(x >> (8 * uint(i)))
		}
		h.Write(b[:])
	}
	return h.Sum64()
}

type c17stats struct {
	interleavings map[uint64]bool // goroutine-slot sequence of the merged event log
	reqOrders     map[uint64]bool // order in which range starts arrived at the log
	deliveryOrder map[uint64]bool // order of indices at the matcher
}

func summarize(c *core.Ctx, st *c17stats, cfg scanConfig, res *scanResult) (il, ro uint64) {
	slots := make([]int64, 0, len(res.events))
	order := make([]int64, 0, len(res.events))
	inversions := 0
	last := int64(-1)
	perSlot := map[int]int{}
	for _, e := range res.events {
		slots = append(slots, int64(e.slot))
		perSlot[e.slot]++
		if e.kind == evMatchCert || e.kind == evMatchPrecert {
			order = append(order, e.tag)
			if e.tag < last {
				inversions++
			}
			last = e.tag
		}
	}
	il = hashInts(slots)
	st.interleavings[il] = true
	st.deliveryOrder[hashInts(order)] = true
	starts := make([]int64, 0, len(res.reqs))
	for _, r := range res.reqs {
		starts = append(starts, r.start)
		c.Count("requests:"+behaviourNames[r.beh], 1)
		if r.bad {
			c.Count("requests_outside_tree(not asserted)", 1)
		}
	}
	ro = hashInts(starts)
	st.reqOrders[ro] = true
	active := 0
	for _, n := range perSlot {
		if n > 0 {
			active++
		}
	}
	c.Max("goroutines_delivering_events_in_one_scan", active)
	if active >= 2 {
		c.Count("scans_with_2+_goroutines_delivering", 1)
	}
	if inversions > 0 {
		c.Count("scans_with_out_of_order_hand_over", 1)
	}
	c.Count("events_recorded", len(res.events))
	c.Count("http_requests", len(res.reqs))
	c.Count("progress_updates_received", len(res.updates))
	return
}

// ---------------------------------------------------------------------------
// configuration generator

func pickCfg(r *rand.Rand, targetMs int, race bool) scanConfig {
	long := targetMs > 0
	cfg := scanConfig{TreeSeed: r.Uint64() >> 1, Mix: mixNames[r.IntN(len(mixNames))]}
	batches := []int64{1, 7, 100, 1000, 3, 64, 250}
	cfg.Batch = batches[r.IntN(len(batches))]
	switch {
	case cfg.Batch == 1:
		cfg.TreeSize = 50 + r.IntN(51)
	case cfg.Batch <= 7:
		cfg.TreeSize = 50 + r.IntN(251)
	case cfg.Batch <= 250:
		cfg.TreeSize = 200 + r.IntN(1801)
	default:
		cfg.TreeSize = 1000 + r.IntN(2001)
	}
	if race && cfg.TreeSize > 1000 {
		cfg.TreeSize = 750 + cfg.TreeSize/4
	}
	cfg.Fetchers = []int{1, 2, 8}[r.IntN(3)]
	cfg.Workers = []int{1, 2, 8}[r.IntN(3)]
	if r.IntN(2) == 0 {
		cfg.Start = int64(r.IntN(cfg.TreeSize))
	}
	if r.IntN(2) == 0 {
		cfg.MaxIndex = cfg.Start + 1 + int64(r.IntN(cfg.TreeSize-int(cfg.Start)))
	}
	switch r.IntN(40) {
	case 0: // empty range: StartIndex == stop
		cfg.MaxIndex = 0
		cfg.Start = int64(cfg.TreeSize)
	case 1: // StartIndex beyond MaximumIndex
		if cfg.TreeSize > 10 {
			cfg.Start = int64(cfg.TreeSize - 3)
			cfg.MaxIndex = int64(cfg.TreeSize - 8)
		}
	}
	cfg.PrecertOnly = r.IntN(4) == 0
	cfg.IgnoreParse = r.IntN(2) == 0
	cfg.Matcher = []string{"all", "all", "all", "none", "serial", "mod3"}[r.IntN(6)]
	if cfg.Matcher == "serial" {
		lo, hi := cfg.Start, cfg.stop()
		if hi > lo {
			cfg.SerialOf = lo + r.Int64N(hi-lo)
		}
	}
	cfg.Plan = planParams{Seed: r.Uint64() >> 1, MaxFaults: 1 + r.IntN(4), DelayUs: []int{0, 200, 2000}[r.IntN(3)]}
	switch r.IntN(5) {
	case 0: // well-behaved log
		cfg.Plan.Weights = [nBehaviours]int{100, 0, 0, 0, 0, 0}
	case 1: // truncating log
		cfg.Plan.Weights = [nBehaviours]int{30, 70, 0, 0, 0, 0}
	case 2: // failing log
		cfg.Plan.Weights = [nBehaviours]int{25, 0, 30, 25, 20, 0}
	default: // everything
		cfg.Plan.Weights = [nBehaviours]int{25, 35, 15, 15, 10, 0}
	}
	cfg.Procs = []int{1, 2, 4, 16}[r.IntN(4)]
	cfg.Perturb = r.IntN(3)
	cfg.LogLevel = []string{"panic", "debug"}[r.IntN(2)]
	if long {
		// > 2.5 s: few fetchers, a fixed handler delay per request, matchers busy while the ticker fires
		cfg.Long = targetMs >= 2500
		cfg.TargetMs = targetMs
		cfg.Mix = "dirty"
		cfg.TreeSize = 400 + r.IntN(400)
		if !cfg.Long {
			cfg.TreeSize /= 2
		}
		cfg.Batch = int64(10 + r.IntN(16))
		cfg.Fetchers = 1 + r.IntN(2)
		cfg.Workers = []int{2, 8}[r.IntN(2)]
		cfg.Start, cfg.MaxIndex = 0, 0
		if r.IntN(2) == 0 {
			cfg.Start = int64(r.IntN(40))
		}
		cfg.PrecertOnly = false
		cfg.Matcher = "all"
		nreq := (cfg.TreeSize - int(cfg.Start) + int(cfg.Batch) - 1) / int(cfg.Batch)
		cfg.Plan.FixedUs = targetMs * 1000 * cfg.Fetchers / nreq
		cfg.Plan.Weights = [nBehaviours]int{55, 25, 8, 6, 4, 2}
		cfg.Plan.MaxFaults = 2
		cfg.Procs = []int{2, 4, 16}[r.IntN(3)]
		cfg.LogLevel = "debug"
	}
	return cfg
}

// ---------------------------------------------------------------------------

func runC17(c *core.Ctx) {
	race := c.Leg == "race"
	if tp := getTemplates(); tp.err != nil {
		c.Violation("harness:C17:certificate-template", tp.err.Error(), "", nil)
		return
	}
	if !selfCheckTemplates(c) {
		return
	}
	nShort := c.Pick(24, 150)
	nLong := c.Pick(1, 3)
	nMedium := c.Pick(1, 3) // >= 1.2 s: at least one tick of the progress goroutine, non-drained updater modes
	if race {
		nShort = c.Pick(8, 50)
	}
	st := &c17stats{interleavings: map[uint64]bool{}, reqOrders: map[uint64]bool{}, deliveryOrder: map[uint64]bool{}}
	r := c.Rng
	total := nShort + nLong
	nthLong := 0
	for i := 0; i < total+nMedium; i++ {
		long := i < total && i%(total/nLong) == (total/nLong)/2 && i/(total/nLong) < nLong
		target := 0
		if long {
			target = 3300
		} else if i >= total {
			target = 1700
		}
		cfg := pickCfg(r, target, race)
		switch {
		case long: // every updater mode appears in the long family (modes rotate over shards and legs)
			legOff := 0
			if race {
				legOff = 2
			}
			cfg.Updater = updaterModes[(c.Shard+legOff+nthLong)%len(updaterModes)]
			nthLong++
		case target > 0:
			cfg.Updater = updaterModes[1+(c.Shard+i)%(len(updaterModes)-1)]
		default:
			cfg.Updater = "drained"
		}
		long = target > 0
		id := fmt.Sprintf("scan-%s-%d", c.Leg, i)
		if strings.HasPrefix(c.OnlyCase, "scan-") && !strings.HasPrefix(c.OnlyCase, id+"-") {
			continue // replay of one scan; a race report names no scan, then the whole shard is repeated
		}
		tree, err := buildTree(cfg.TreeSeed, cfg.TreeSize, cfg.Mix)
		if err != nil {
			c.Violation("harness:C17:tree", err.Error(), id, cfg)
			return
		}
		reps := 2
		if long {
			reps = 1
		}
		var ils, ros []uint64
		for rep := 0; rep < reps; rep++ {
			cid := fmt.Sprintf("%s-rep%d", id, rep)
			c.Begin(cid, cfg)
			res := runScan(cfg, tree)
			c.Eval(1)
			c.Count("scans", 1)
			if res.hung {
				if strings.Contains(res.dump, "zcrypto/ct/scanner.(*Scanner)") {
					c.Violation("termination:scan-did-not-return", res.hungWhy+"; goroutine dump:\n"+scannerGoroutines(res.dump), cid, cfg)
				} else {
					c.Note("scan %s: watchdog fired without scanner frames in the dump (inconclusive)", cid)
					c.Count("watchdog_without_scanner_frames", 1)
				}
				return // the scanner goroutines cannot be cancelled; end this shard
			}
			if res.panicked != nil {
				c.Violation(res.panicked.Key, res.panicked.Value+"\n"+res.panicked.Stack, cid, cfg)
				c.End(cid)
				continue
			}
			if res.err != nil {
				c.Count("scan_returned_error(not asserted)", 1)
				c.Note("scan %s returned error %v", cid, res.err)
				c.End(cid)
				continue
			}
			for _, v := range checkScan(cfg, tree, res) {
				c.Violation(v.key, v.detail+"\nconfig: "+cfg.String()+"\nrequests: "+reqSummary(res.reqs), cid, cfg)
			}
			c.End(cid)
			il, ro := summarize(c, st, cfg, res)
			ils, ros = append(ils, il), append(ros, ro)
			if cfg.stop() > cfg.Start {
				c.Nontrivial("scan", c.Leg, cfg.String())
			} else {
				c.Count("scans_with_empty_range", 1)
			}
			if long {
				c.Count("updater_mode:"+cfg.Updater, 1)
				if cfg.Long {
					c.Count("long_scans", 1)
					if cfg.Updater == "drained" {
						c.Count("long_scans_drained", 1)
						if len(res.updates) >= 2 {
							c.Count("long_scans_drained_with_2+_progress_ticks", 1)
						}
					}
					c.Max("long_scan_ms", int(res.elapsed/time.Millisecond))
				} else {
					c.Count("medium_scans", 1)
				}
				if res.elapsed >= 1200*time.Millisecond && cfg.Updater != "drained" {
					c.Count("scans_over_1.2s_with_undrained_updater", 1)
				}
			} else {
				c.Max("short_scan_ms", int(res.elapsed/time.Millisecond))
				if res.elapsed > 20*time.Second {
					c.Count("short_scans_over_20s", 1)
					var at []int64
					for _, q := range res.reqs[:min(len(res.reqs), 40)] {
						at = append(at, q.atMs)
					}
					ft, lt := int64(-1), int64(-1)
					if len(res.events) > 0 {
						ft, lt = res.events[0].t/1e6, res.events[len(res.events)-1].t/1e6
					}
					c.Note("slow scan %s: %d ms, %d requests (arrival ms %v), %d events (first at %d ms, last at %d ms); %s", cid, res.elapsed.Milliseconds(), len(res.reqs), at, len(res.events), ft, lt, cfg.String())
				}
			}
			if c.WantSample() && rep == 0 && len(res.events) > 0 {
				c.Sample(map[string]any{"config": cfg, "returned": res.ret, "events": len(res.events), "goroutines": res.nGor,
					"requests": len(res.reqs), "first_requests": reqSummary(res.reqs[:min(len(res.reqs), 12)]), "ms": res.elapsed.Milliseconds()})
			}
		}
		if len(ils) == 2 {
			c.Count("configurations_run_twice", 1)
			if ils[0] != ils[1] {
				c.Count("repeated_configurations_with_different_callback_interleaving", 1)
			}
			if ros[0] != ros[1] {
				c.Count("repeated_configurations_with_different_request_order", 1)
			}
		}
	}
	c.Count("distinct_callback_interleavings", len(st.interleavings))
	c.Count("distinct_request_arrival_orders", len(st.reqOrders))
	c.Count("distinct_hand_over_orders", len(st.deliveryOrder))
}

func reqSummary(reqs []reqEvent) string {
	var sb strings.Builder
	for i, q := range reqs {
		if i >= 60 {
			fmt.Fprintf(&sb, " …(%d more)", len(reqs)-i)
			break
		}
		fmt.Fprintf(&sb, " [%d-%d %s", q.start, q.end, behaviourNames[q.beh])
		if q.beh == bPrefix {
			fmt.Fprintf(&sb, ":%d", q.returned)
		}
		sb.WriteByte(']')
	}
	return sb.String()
}

// selfCheckTemplates makes sure the model's classification of the entry kinds is what ct/x509 does
// (a wrong model would show up as false alarms or as a blind oracle).
func selfCheckTemplates(c *core.Ctx) bool {
	tree, err := buildTree(12345, 400, "dirty")
	if err != nil {
		c.Violation("harness:C17:tree", err.Error(), "", nil)
		return false
	}
	seen := map[entryKind]bool{}
	for i, e := range tree.entries {
		var cert *ctx509.Certificate
		var perr error
		if e.kind.isPrecertType() {
			cert, perr = ctx509.ParseTBSCertificate(e.raw)
		} else {
			cert, perr = ctx509.ParseCertificate(e.raw)
		}
		_, nonFatal := perr.(ctx509.NonFatalErrors)
		ok := true
		switch e.kind {
		case kX509, kPrecert:
			ok = perr == nil && serialTag(cert) == int64(i)
		case kX509NonFatal, kPrecertNonFatal:
			ok = nonFatal && serialTag(cert) == int64(i)
		default:
			// "valid ASN.1" in the scanner's sense: decodes as scanner.ASN1Certificate
			var outer scanner.ASN1Certificate
			_, aerr := zasn1.Unmarshal(e.raw, &outer)
			ok = perr != nil && !nonFatal && cert == nil && (aerr == nil) == e.kind.shaped()
		}
		if !ok {
			c.Violation("harness:C17:template-self-check", fmt.Sprintf("entry kind %s: ct/x509 gives cert=%v err=%v", kindNames[e.kind], cert != nil, perr), "", nil)
			return false
		}
		seen[e.kind] = true
	}
	if len(seen) != int(nKinds) {
		c.Violation("harness:C17:template-self-check", "not all entry kinds generated", "", nil)
		return false
	}
	return true
}

// scannerGoroutines keeps the goroutines of a dump that have a ct/scanner or ct/client frame (plus a count of the rest).
func scannerGoroutines(dump string) string {
	var sb strings.Builder
	other := 0
	for _, g := range strings.Split(dump, "\n\n") {
		if strings.Contains(g, "zcrypto/ct/scanner") || strings.Contains(g, "zcrypto/ct/client") {
			sb.WriteString(g)
			sb.WriteString("\n\n")
		} else {
			other++
		}
	}
	fmt.Fprintf(&sb, "(%d other goroutines omitted)", other)
	return sb.String()
}
