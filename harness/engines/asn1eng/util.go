package asn1eng

import (
	"encoding/hex"
	"fmt"
	"sync"

	zasn1 "github.com/zmap/zcrypto/encoding/asn1"

	"verifharness/internal/core"
)

// strictMode forces zcrypto's encoding/asn1 into strict parsing for the run and
// returns the function that restores the previous setting. C18, C19 and C21 are
// all statements about strict mode.
func strictMode(c *core.Ctx) (restore func()) {
	prev := zasn1.AllowPermissiveParsing
	if prev {
		c.Note("asn1.AllowPermissiveParsing was true at engine start; forced to false for the run and restored afterwards")
	}
	zasn1.AllowPermissiveParsing = false
	return func() { zasn1.AllowPermissiveParsing = prev }
}

// limiter keeps the cost of a violation that fires millions of times bounded:
// the detail string is built only for the first few hits of a key, the rest is counted.
type limiter struct {
	mu   sync.Mutex
	seen map[string]int
}

func (l *limiter) first(key string) bool {
	l.mu.Lock()
	defer l.mu.Unlock()
	if l.seen == nil {
		l.seen = map[string]int{}
	}
	l.seen[key]++
	return l.seen[key] <= 3
}

func (l *limiter) flush(c *core.Ctx) {
	for k, n := range l.seen {
		if n > 3 {
			c.Count("viol_hits_total:"+k, n)
		}
	}
}

func hx(b []byte) string { return hex.EncodeToString(b) }

// ---------------------------------------------------------------------------
// Independent, lenient BER header reader. Used (a) to supply matching content
// for enumerated headers and (b) to name the DER rule an accepted encoding
// breaks, so that witness keys say what fails rather than which input.

type berHeader struct {
	class, tag  int64
	constructed bool
	hdrLen      int   // tag octets + length octets
	length      int64 // -1 = indefinite
	issues      []string
}

func readBERHeader(b []byte) (h berHeader, ok bool) {
	if len(b) < 2 {
		return h, false
	}
	h.class = int64(b[0] >> 6)
	h.constructed = b[0]&0x20 != 0
	h.tag = int64(b[0] & 0x1f)
	i := 1
	if h.tag == 0x1f {
		h.tag = 0
		n := 0
		for {
			if i >= len(b) || n > 9 {
				return h, false
			}
			o := b[i]
			if n == 0 && o == 0x80 {
				h.issues = append(h.issues, "tag-leading-0x80")
			}
			h.tag = h.tag<<7 | int64(o&0x7f)
			i++
			n++
			if o&0x80 == 0 {
				break
			}
		}
		if h.tag < 0x1f {
			h.issues = append(h.issues, "non-minimal-tag")
		}
	}
	if i >= len(b) {
		return h, false
	}
	l := b[i]
	i++
	switch {
	case l < 0x80:
		h.length = int64(l)
	case l == 0x80:
		h.length = -1
		h.issues = append(h.issues, "indefinite-length")
	default:
		n := int(l & 0x7f) // up to 127 length octets
		if i+n > len(b) {
			return h, false
		}
		if b[i] == 0 {
			h.issues = append(h.issues, "length-leading-zero")
		}
		for j := 0; j < n; j++ {
			if h.length >= 1<<54 {
				h.length = 1 << 62 // saturate: larger than any input
				continue
			}
			h.length = h.length<<8 | int64(b[i+j])
		}
		i += n
		if h.length < 0x80 {
			h.issues = append(h.issues, "non-minimal-length")
		}
	}
	h.hdrLen = i
	return h, true
}

const (
	kindHeader = iota
	kindInteger
	kindBoolean
	kindOID
	kindBitString
	kindGeneralizedTime
)

// diagnose names the first DER rule the accepted encoding enc breaks, given the
// kind it was decoded as. "value-not-reproduced" means that the encoding looks
// canonical to this reader, i.e. the decoder changed the value.
func diagnose(kind int, enc []byte) string {
	h, ok := readBERHeader(enc)
	if !ok {
		return "unparsable-header"
	}
	if len(h.issues) > 0 {
		return h.issues[0]
	}
	if h.length < 0 || int64(h.hdrLen)+h.length > int64(len(enc)) {
		return "content-shorter-than-length"
	}
	body := enc[h.hdrLen : int64(h.hdrLen)+h.length]
	switch kind {
	case kindInteger:
		if len(body) == 0 {
			return "empty-integer"
		}
		if len(body) > 1 && (body[0] == 0 && body[1]&0x80 == 0 || body[0] == 0xff && body[1]&0x80 != 0) {
			return "non-minimal-integer"
		}
	case kindBoolean:
		if len(body) != 1 {
			return "boolean-length"
		}
		if body[0] != 0 && body[0] != 0xff {
			return "boolean-value-not-00-or-ff"
		}
	case kindOID:
		if len(body) == 0 {
			return "empty-oid"
		}
		start := true
		for _, o := range body {
			if start && o == 0x80 {
				return "oid-subidentifier-leading-0x80"
			}
			start = o&0x80 == 0
		}
		if !start {
			return "oid-truncated-subidentifier"
		}
	case kindBitString:
		if len(body) == 0 {
			return "empty-bitstring"
		}
		if body[0] > 7 || len(body) == 1 && body[0] != 0 {
			return "bitstring-padding-count"
		}
		if len(body) > 1 && body[len(body)-1]&(1<<body[0]-1) != 0 {
			return "bitstring-nonzero-padding-bits"
		}
	case kindGeneralizedTime:
		return "time-string-not-reproduced"
	}
	if int64(h.hdrLen)+h.length != int64(len(enc)) {
		return "consumed-length-differs-from-element"
	}
	return "value-not-reproduced"
}

func describeCase(space, target string, in []byte) string {
	return fmt.Sprintf("%s|%s|%s", space, target, hx(in))
}
