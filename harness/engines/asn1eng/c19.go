package asn1eng

// C19 — strict DER decoding is canonical in both ASN.1 codecs.
//
// Every input is decoded with one typed decoder of zcrypto's encoding/asn1 or
// cryptobyte; when (and only when) it is accepted, the decoded value is
// re-encoded with the same library and compared with the bytes the decoder
// consumed. Rejecting is always fine. The short encodings are enumerated
// completely; longer ones are sampled. Go's encoding/asn1 and
// x/crypto/cryptobyte see the same inputs; accept/reject disagreements are
// counted in evidence and decide nothing.

import (
	"bytes"
	gasn1 "encoding/asn1"
	"encoding/hex"
	"encoding/json"
	"fmt"
	"math/big"
	"math/rand/v2"
	"strings"
	"time"

	zcb "github.com/zmap/zcrypto/cryptobyte"
	zcbasn1 "github.com/zmap/zcrypto/cryptobyte/asn1"
	zasn1 "github.com/zmap/zcrypto/encoding/asn1"
	xcb "golang.org/x/crypto/cryptobyte"
	xcbasn1 "golang.org/x/crypto/cryptobyte/asn1"

	"verifharness/internal/core"
)

func init() {
	core.RegisterMeta("C19", core.Meta{
		Rule: "inputs = DER-looking encodings of INTEGER/ENUMERATED, BOOLEAN, OBJECT IDENTIFIER, BIT STRING, GeneralizedTime and bare tag/length headers, each followed by unrelated bytes; " +
			"exhaustive: every content of 0..3 bytes (INTEGER, OID, BIT STRING), 0..2 bytes (BOOLEAN), every 3-byte header prefix, every first octet x every 0x82 length from a boundary set, high-tag-number headers from boundary sets, long-form lengths of 1..127 octets (18 boundary values zero-padded to every width, tags 0x04/0x30/0xa3, through RawValue, []byte, []RawValue and the tag-taking cryptobyte readers), a near-valid GeneralizedTime grammar; " +
			"sampled: longer contents and headers. Each input is given to every matching strict decoder of zcrypto encoding/asn1 (int,int32,int64,*big.Int,Enumerated,bool,ObjectIdentifier,BitString,RawValue) and cryptobyte (ReadASN1Integer into 7 types, ReadASN1Int64WithTag, ReadASN1Enum, ReadASN1Boolean, ReadASN1ObjectIdentifier, ReadASN1BitString[AsBytes], ReadASN1GeneralizedTime, ReadAnyASN1[Element]). " +
			"non-trivial = (decoder, input) pair that was ACCEPTED, so that the re-encode comparison actually ran; pairs from enumerated spaces are distinct by construction, sampled ones are counted by hash (1 in 8 is hashed; thorough 1 in 64)",
		MinNontrivial:         90000000,
		MinNontrivialThorough: 90000000,
		Shards:                16,
		GoMaxProcs:            2,
		Env:                   []string{"GOGC=400"},
		Assumptions: []string{
			"asn1.AllowPermissiveParsing is false (set by the engine, restored afterwards)",
			"the re-encoder paired with a reader is the Builder.AddASN1* / asn1.Marshal call of the same library for the same type; BIT STRINGs with a partial last byte read by cryptobyte are re-encoded with Builder.MarshalASN1 because AddASN1BitString documents whole bytes only",
			"verdict = byte comparison of the re-encoding with the consumed bytes; in addition an accepted encoding is inspected by an independent lenient header/content reader for the forms the statement lists as rejected (non-minimal integer/length/tag/OID sub-identifier, non-zero padding bits, indefinite length) — needed for padding bits, which BitString carries through a re-encode unchanged; the same reader names the rule in witness keys",
			"Go encoding/asn1 and golang.org/x/crypto v0.54.0 cryptobyte are observed for accept/reject only (counters xcheck_*), never for the verdict",
		},
	}, runC19)
}

type tgt struct {
	name string
	kind int
	tag  byte
	dec  func(in []byte) (consumed int, ok bool)
	enc  func() ([]byte, error)
	xdec func(in []byte) bool

	acc, rej, zOnly, upOnly int64
}

type c19 struct {
	c         *core.Ctx
	lim       limiter
	curSp     string
	curTg     string
	curIn     []byte
	xcheck    bool
	xEvery    uint64 // upstream is consulted on one case in xEvery (it decides nothing)
	hashEvery int    // sampled spaces: one accepted case in hashEvery is hashed into the distinct count
	seq       uint64
}

func (k *c19) one(space string, t *tgt, in []byte, x bool) bool {
	k.curSp, k.curTg, k.curIn = space, t.name, in
	n, ok := t.dec(in)
	k.seq++
	if x && t.xdec != nil && (k.xEvery <= 1 || k.seq%k.xEvery == 0) {
		up := t.xdec(in)
		if ok && !up {
			t.zOnly++
		} else if !ok && up {
			t.upOnly++
		}
	}
	if !ok {
		t.rej++
		return false
	}
	t.acc++
	out, err := t.enc()
	if err != nil {
		k.report(space, t, in, n, nil, "reencode-error", err)
		return true
	}
	if n < 0 || n > len(in) || !bytes.Equal(out, in[:n]) {
		cons := in
		if n >= 0 && n <= len(in) {
			cons = in[:n]
		}
		k.report(space, t, in, n, out, diagnose(t.kind, cons), nil)
		return true
	}
	// Second sentence of the statement: the listed non-canonical forms are rejected. The re-encode
	// comparison alone cannot see non-zero padding bits, because BitString keeps the raw last octet and
	// Marshal copies it back; so the accepted encoding is also looked at directly for the listed forms.
	if rule := statedRuleBroken(t.kind, in[:n]); rule != "" {
		k.report(space, t, in, n, out, rule, nil)
	}
	return true
}

// statedRuleBroken returns the name of a form the statement lists as rejected
// (non-minimal integers, lengths, tags and OID sub-identifiers, non-zero padding
// bits, indefinite lengths) if enc has it, else "".
func statedRuleBroken(kind int, enc []byte) string {
	switch r := diagnose(kind, enc); r {
	case "tag-leading-0x80", "non-minimal-tag", "indefinite-length", "length-leading-zero", "non-minimal-length",
		"non-minimal-integer", "oid-subidentifier-leading-0x80", "bitstring-nonzero-padding-bits":
		return r
	}
	return ""
}

func (k *c19) report(space string, t *tgt, in []byte, n int, out []byte, rule string, err error) {
	key := "noncanonical-accepted:" + t.name + ":" + rule
	if !k.lim.first(key) {
		return
	}
	shown := in
	if len(shown) > 96 {
		shown = shown[:96]
	}
	detail := fmt.Sprintf("space %s, decoder %s accepted input %s (consumed %d bytes)\nre-encoded by the same library: %s err=%v\nDER rule broken by the accepted encoding: %s",
		space, t.name, hx(shown), n, hx(out), err, rule)
	k.c.Violation(key, detail, describeCase(space, t.name, shown),
		map[string]any{"space": space, "decoder": t.name, "input_hex": hex.EncodeToString(in)})
}

func (k *c19) flushTargets(space string, ts []*tgt) {
	for _, t := range ts {
		k.c.Count("accepted:"+space+":"+t.name, int(t.acc))
		k.c.Count("rejected:"+space+":"+t.name, int(t.rej))
		if t.zOnly > 0 {
			k.c.Count("xcheck_zcrypto_accepts_upstream_rejects:"+space+":"+t.name, int(t.zOnly))
		}
		if t.upOnly > 0 {
			k.c.Count("xcheck_upstream_accepts_zcrypto_rejects:"+space+":"+t.name, int(t.upOnly))
		}
		t.acc, t.rej, t.zOnly, t.upOnly = 0, 0, 0, 0
	}
}

// ---- decoders ------------------------------------------------------------------

func encT[T, U any](name string, kind int, tag byte) *tgt {
	p, u := new(T), new(U)
	return &tgt{name: "encoding/asn1:" + name, kind: kind, tag: tag,
		dec: func(in []byte) (int, bool) {
			var z T
			*p = z
			rest, err := zasn1.Unmarshal(in, p)
			if err != nil {
				return 0, false
			}
			return len(in) - len(rest), true
		},
		enc: func() ([]byte, error) { return zasn1.Marshal(*p) },
		xdec: func(in []byte) bool {
			var z U
			*u = z
			_, err := gasn1.Unmarshal(in, u)
			return err == nil
		},
	}
}

func encRaw() *tgt {
	var rv zasn1.RawValue
	var urv gasn1.RawValue
	return &tgt{name: "encoding/asn1:RawValue", kind: kindHeader,
		dec: func(in []byte) (int, bool) {
			rv = zasn1.RawValue{}
			rest, err := zasn1.Unmarshal(in, &rv)
			if err != nil {
				return 0, false
			}
			return len(in) - len(rest), true
		},
		enc: func() ([]byte, error) {
			// FullBytes cleared: Marshal has to rebuild class, tag and length itself
			return zasn1.Marshal(zasn1.RawValue{Class: rv.Class, Tag: rv.Tag, IsCompound: rv.IsCompound, Bytes: rv.Bytes})
		},
		xdec: func(in []byte) bool { _, err := gasn1.Unmarshal(in, &urv); return err == nil },
	}
}

func cbIntT[T int64 | int32 | int16 | int8 | int](name string) *tgt {
	var v T
	return &tgt{name: "cryptobyte:ReadASN1Integer(*" + name + ")", kind: kindInteger, tag: 0x02,
		dec: func(in []byte) (int, bool) {
			s := zcb.String(in)
			v = 0x5a
			if !s.ReadASN1Integer(&v) {
				return 0, false
			}
			return len(in) - len(s), true
		},
		enc: func() ([]byte, error) { var b zcb.Builder; b.AddASN1Int64(int64(v)); return b.Bytes() },
		xdec: func(in []byte) bool {
			s := xcb.String(in)
			var w T
			return s.ReadASN1Integer(&w)
		},
	}
}

func cbUintT[T uint64 | uint32 | uint16 | uint8](name string) *tgt {
	var v T
	return &tgt{name: "cryptobyte:ReadASN1Integer(*" + name + ")", kind: kindInteger, tag: 0x02,
		dec: func(in []byte) (int, bool) {
			s := zcb.String(in)
			v = 0x5a
			if !s.ReadASN1Integer(&v) {
				return 0, false
			}
			return len(in) - len(s), true
		},
		enc: func() ([]byte, error) { var b zcb.Builder; b.AddASN1Uint64(uint64(v)); return b.Bytes() },
		xdec: func(in []byte) bool {
			s := xcb.String(in)
			var w T
			return s.ReadASN1Integer(&w)
		},
	}
}

func cbBig() *tgt {
	var v big.Int
	return &tgt{name: "cryptobyte:ReadASN1Integer(*big.Int)", kind: kindInteger, tag: 0x02,
		dec: func(in []byte) (int, bool) {
			s := zcb.String(in)
			v.SetInt64(0x5a5a)
			if !s.ReadASN1Integer(&v) {
				return 0, false
			}
			return len(in) - len(s), true
		},
		enc: func() ([]byte, error) { var b zcb.Builder; b.AddASN1BigInt(&v); return b.Bytes() },
		xdec: func(in []byte) bool {
			s := xcb.String(in)
			var w big.Int
			return s.ReadASN1Integer(&w)
		},
	}
}

func cbWithTag(tag byte) *tgt {
	var v int64
	return &tgt{name: fmt.Sprintf("cryptobyte:ReadASN1Int64WithTag(0x%02x)", tag), kind: kindInteger, tag: tag,
		dec: func(in []byte) (int, bool) {
			s := zcb.String(in)
			v = 0x5a5a5a5a5a5a5a5a // the reader must not depend on the previous content of *out
			if !s.ReadASN1Int64WithTag(&v, zcbasn1.Tag(tag)) {
				return 0, false
			}
			return len(in) - len(s), true
		},
		enc: func() ([]byte, error) {
			var b zcb.Builder
			b.AddASN1Int64WithTag(v, zcbasn1.Tag(tag))
			return b.Bytes()
		},
		xdec: func(in []byte) bool {
			s := xcb.String(in)
			var w int64
			return s.ReadASN1Int64WithTag(&w, xcbasn1.Tag(tag))
		},
	}
}

func cbEnum() *tgt {
	var v int
	return &tgt{name: "cryptobyte:ReadASN1Enum", kind: kindInteger, tag: 0x0a,
		dec: func(in []byte) (int, bool) {
			s := zcb.String(in)
			v = 0x5a
			if !s.ReadASN1Enum(&v) {
				return 0, false
			}
			return len(in) - len(s), true
		},
		enc: func() ([]byte, error) { var b zcb.Builder; b.AddASN1Enum(int64(v)); return b.Bytes() },
		xdec: func(in []byte) bool {
			s := xcb.String(in)
			var w int
			return s.ReadASN1Enum(&w)
		},
	}
}

func cbBool() *tgt {
	var v bool
	return &tgt{name: "cryptobyte:ReadASN1Boolean", kind: kindBoolean, tag: 0x01,
		dec: func(in []byte) (int, bool) {
			s := zcb.String(in)
			if !s.ReadASN1Boolean(&v) {
				return 0, false
			}
			return len(in) - len(s), true
		},
		enc: func() ([]byte, error) { var b zcb.Builder; b.AddASN1Boolean(v); return b.Bytes() },
		xdec: func(in []byte) bool {
			s := xcb.String(in)
			var w bool
			return s.ReadASN1Boolean(&w)
		},
	}
}

func cbOID() *tgt {
	var v zasn1.ObjectIdentifier
	return &tgt{name: "cryptobyte:ReadASN1ObjectIdentifier", kind: kindOID, tag: 0x06,
		dec: func(in []byte) (int, bool) {
			s := zcb.String(in)
			v = nil
			if !s.ReadASN1ObjectIdentifier(&v) {
				return 0, false
			}
			return len(in) - len(s), true
		},
		enc: func() ([]byte, error) { var b zcb.Builder; b.AddASN1ObjectIdentifier(v); return b.Bytes() },
		xdec: func(in []byte) bool {
			s := xcb.String(in)
			var w gasn1.ObjectIdentifier
			return s.ReadASN1ObjectIdentifier(&w)
		},
	}
}

func cbBitString() *tgt {
	var v zasn1.BitString
	return &tgt{name: "cryptobyte:ReadASN1BitString", kind: kindBitString, tag: 0x03,
		dec: func(in []byte) (int, bool) {
			s := zcb.String(in)
			v = zasn1.BitString{}
			if !s.ReadASN1BitString(&v) {
				return 0, false
			}
			return len(in) - len(s), true
		},
		enc: func() ([]byte, error) {
			var b zcb.Builder
			if v.BitLength%8 == 0 && v.BitLength == 8*len(v.Bytes) {
				b.AddASN1BitString(v.Bytes)
			} else {
				b.MarshalASN1(v)
			}
			return b.Bytes()
		},
		xdec: func(in []byte) bool {
			s := xcb.String(in)
			var w gasn1.BitString
			return s.ReadASN1BitString(&w)
		},
	}
}

func cbBitStringBytes() *tgt {
	var v []byte
	return &tgt{name: "cryptobyte:ReadASN1BitStringAsBytes", kind: kindBitString, tag: 0x03,
		dec: func(in []byte) (int, bool) {
			s := zcb.String(in)
			v = nil
			if !s.ReadASN1BitStringAsBytes(&v) {
				return 0, false
			}
			return len(in) - len(s), true
		},
		enc: func() ([]byte, error) { var b zcb.Builder; b.AddASN1BitString(v); return b.Bytes() },
		xdec: func(in []byte) bool {
			s := xcb.String(in)
			var w []byte
			return s.ReadASN1BitStringAsBytes(&w)
		},
	}
}

func cbGenTime() *tgt {
	var v time.Time
	return &tgt{name: "cryptobyte:ReadASN1GeneralizedTime", kind: kindGeneralizedTime, tag: 0x18,
		dec: func(in []byte) (int, bool) {
			s := zcb.String(in)
			v = time.Time{}
			if !s.ReadASN1GeneralizedTime(&v) {
				return 0, false
			}
			return len(in) - len(s), true
		},
		enc: func() ([]byte, error) { var b zcb.Builder; b.AddASN1GeneralizedTime(v); return b.Bytes() },
		xdec: func(in []byte) bool {
			s := xcb.String(in)
			var w time.Time
			return s.ReadASN1GeneralizedTime(&w)
		},
	}
}

func cbAnyElement() *tgt {
	var content zcb.String
	var tag zcbasn1.Tag
	return &tgt{name: "cryptobyte:ReadAnyASN1Element", kind: kindHeader,
		dec: func(in []byte) (int, bool) {
			s := zcb.String(in)
			var el zcb.String
			var t1 zcbasn1.Tag
			if !s.ReadAnyASN1Element(&el, &t1) {
				return 0, false
			}
			s2 := zcb.String(in)
			if !s2.ReadAnyASN1(&content, &tag) || tag != t1 || len(s2) != len(s) {
				return -1, true // the two readers of the same header disagree: reported as a mismatch
			}
			return len(in) - len(s), true
		},
		enc: func() ([]byte, error) {
			var b zcb.Builder
			b.AddASN1(tag, func(c *zcb.Builder) { c.AddBytes(content) })
			return b.Bytes()
		},
		xdec: func(in []byte) bool {
			s := xcb.String(in)
			var el xcb.String
			var t xcbasn1.Tag
			return s.ReadAnyASN1Element(&el, &t)
		},
	}
}

// cbTagged: the cryptobyte readers that take a tag and parse a length.
func cbTagged(which string, tag byte) *tgt {
	var content []byte
	var element bool
	return &tgt{name: fmt.Sprintf("cryptobyte:%s(0x%02x)", which, tag), kind: kindHeader, tag: tag,
		dec: func(in []byte) (int, bool) {
			s := zcb.String(in)
			var out zcb.String
			ok := false
			element = false
			switch which {
			case "ReadASN1":
				ok = s.ReadASN1(&out, zcbasn1.Tag(tag))
			case "ReadASN1Bytes":
				ok = s.ReadASN1Bytes((*[]byte)(&out), zcbasn1.Tag(tag))
			case "ReadOptionalASN1":
				present := false
				ok = s.ReadOptionalASN1(&out, &present, zcbasn1.Tag(tag)) && present
			default: // ReadASN1Element
				ok = s.ReadASN1Element(&out, zcbasn1.Tag(tag))
				element = true
			}
			if !ok {
				return 0, false
			}
			content = out
			return len(in) - len(s), true
		},
		enc: func() ([]byte, error) {
			if element { // the reader hands out the element itself; what it consumed must be that element
				return content, nil
			}
			var b zcb.Builder
			b.AddASN1(zcbasn1.Tag(tag), func(c *zcb.Builder) { c.AddBytes(content) })
			return b.Bytes()
		},
		xdec: func(in []byte) bool {
			s := xcb.String(in)
			var out xcb.String
			return s.ReadASN1(&out, xcbasn1.Tag(tag))
		},
	}
}

// ---- engine --------------------------------------------------------------------

var sentinel = []byte{0xa5, 0x30, 0x00}

func runC19(c *core.Ctx) {
	defer strictMode(c)()
	k := &c19{c: c, xcheck: true, xEvery: 7, hashEvery: c.Pick(8, 64)}
	if len(c.Replay) > 0 {
		k.replay()
		return
	}
	spaces := []struct {
		name string
		f    func()
	}{
		{"integers", k.integers},
		{"booleans", k.booleans},
		{"oids", k.oids},
		{"bitstrings", k.bitstrings},
		{"headers", k.headers},
		{"longlengths", k.longLengths},
		{"gentime", k.gentime},
	}
	for _, sp := range spaces {
		if pi := core.Guard(sp.f); pi != nil {
			c.Violation(pi.Key, fmt.Sprintf("decoder panicked on space %s decoder %s input %s\n%s", k.curSp, k.curTg, hx(k.curIn), pi.Stack),
				describeCase(k.curSp, k.curTg, k.curIn), map[string]any{"space": k.curSp, "decoder": k.curTg, "input_hex": hx(k.curIn)})
		}
	}
	k.lim.flush(c)
	c.Note("GeneralizedTime is checked for cryptobyte only, as the statement says; encoding/asn1's UTCTime minute-precision form is a documented non-canonical acceptance shared with Go and is not part of this property")
}

func intTargets() []*tgt {
	return []*tgt{
		encT[int32, int32]("int32", kindInteger, 0x02),
		encT[int64, int64]("int64", kindInteger, 0x02),
		encT[*big.Int, *big.Int]("*big.Int", kindInteger, 0x02),
		encT[zasn1.Enumerated, gasn1.Enumerated]("Enumerated", kindInteger, 0x0a),
		cbIntT[int64]("int64"),
		cbUintT[uint64]("uint64"),
		cbBig(),
		cbWithTag(0x80),
		cbEnum(),
		// The targets below share their code path with one above (plus a range check): they see every
		// content of 0..2 bytes and 1 in 16 of the 3-byte contents.
		encT[int, int]("int", kindInteger, 0x02),
		cbIntT[int32]("int32"), cbIntT[int8]("int8"), cbUintT[uint8]("uint8"),
		cbIntT[int]("int"), cbUintT[uint16]("uint16"), cbWithTag(0x02), cbWithTag(0x9e), cbWithTag(0x42),
	}
}

const intSecondary = 9 // number of trailing intTargets() entries that are sub-sampled

// tlv writes tag, a DER length and content followed by the sentinel into buf.
func tlv(buf []byte, tag byte, content []byte) []byte {
	buf = append(buf[:0], tag)
	n := len(content)
	switch {
	case n < 0x80:
		buf = append(buf, byte(n))
	case n < 0x100:
		buf = append(buf, 0x81, byte(n))
	default:
		buf = append(buf, 0x82, byte(n>>8), byte(n))
	}
	buf = append(buf, content...)
	return append(buf, sentinel...)
}

// enumContents calls f for this shard's share of all byte strings of length 0..maxLen.
func (k *c19) enumContents(maxLen int, f func(content []byte)) (mine int64) {
	content := make([]byte, maxLen)
	for l := 0; l <= maxLen; l++ {
		total := int64(1) << (8 * l)
		for idx := int64(k.c.Shard); idx < total; idx += int64(k.c.NShards) {
			x := idx
			for i := l - 1; i >= 0; i-- {
				content[i] = byte(x)
				x >>= 8
			}
			f(content[:l])
			mine++
		}
	}
	return
}

func (k *c19) integers() {
	ts := intTargets()
	buf := make([]byte, 0, 64)
	space := "integer-content-0..3-bytes"
	var nt, ev, ci int64
	mine := k.enumContents(3, func(content []byte) {
		use := ts[:len(ts)-intSecondary]
		if ci%16 == 0 || len(content) < 3 {
			use = ts
		}
		ci++
		for _, t := range use {
			if k.one(space, t, tlv(buf, t.tag, content), k.xcheck) {
				nt++
			}
		}
		ev += int64(len(use))
	})
	k.c.Eval(int(ev))
	k.c.NontrivialEnumerated(nt)
	k.c.Exhaustive(space, mine)
	k.flushTargets(space, ts)

	// longer contents: boundary-biased random strings of 4..12 bytes (narrowing, 8/9-byte limits)
	space = "integer-content-4..12-bytes-sampled"
	rng := k.c.SubRng("int-long")
	n := k.c.PerShard(k.c.Pick(1000000, 20000000))
	lead := []byte{0x00, 0x00, 0xff, 0xff, 0x7f, 0x80, 0x01, 0xfe}
	second := []byte{0x00, 0x7f, 0x80, 0xff}
	content := make([]byte, 12)
	for i := 0; i < n; i++ {
		l := 4 + rng.IntN(9)
		if rng.IntN(3) > 0 {
			l = 4 + rng.IntN(6)
		}
		for j := 0; j < l; j++ {
			content[j] = byte(rng.Uint32())
		}
		if rng.IntN(4) > 0 {
			content[0] = lead[rng.IntN(len(lead))]
			if rng.IntN(2) == 0 {
				content[1] = second[rng.IntN(len(second))]
			}
		}
		if rng.IntN(8) == 0 { // all-ones / all-zero tails: the values next to type limits
			fill := byte(0xff * rng.IntN(2))
			for j := 2; j < l; j++ {
				content[j] = fill
			}
		}
		for _, t := range ts {
			if k.one(space, t, tlv(buf, t.tag, content[:l]), k.xcheck) && i%k.hashEvery == 0 {
				k.c.Nontrivial(t.name, content[:l])
			}
		}
	}
	k.c.Eval(n * len(ts))
	k.flushTargets(space, ts)
}

func (k *c19) booleans() {
	ts := []*tgt{encT[bool, bool]("bool", kindBoolean, 0x01), cbBool()}
	buf := make([]byte, 0, 64)
	space := "boolean-content-0..2-bytes"
	var nt int64
	mine := k.enumContents(2, func(content []byte) {
		for _, t := range ts {
			if k.one(space, t, tlv(buf, t.tag, content), k.xcheck) {
				nt++
			}
		}
	})
	k.c.Eval(int(mine) * len(ts))
	k.c.NontrivialEnumerated(nt)
	k.c.Exhaustive(space, mine)
	k.flushTargets(space, ts)
}

func (k *c19) oids() {
	ts := []*tgt{encT[zasn1.ObjectIdentifier, gasn1.ObjectIdentifier]("ObjectIdentifier", kindOID, 0x06), cbOID()}
	buf := make([]byte, 0, 64)
	space := "oid-body-0..3-bytes"
	var nt int64
	mine := k.enumContents(3, func(content []byte) {
		for _, t := range ts {
			if k.one(space, t, tlv(buf, t.tag, content), k.xcheck) {
				nt++
			}
		}
	})
	k.c.Eval(int(mine) * len(ts))
	k.c.NontrivialEnumerated(nt)
	k.c.Exhaustive(space, mine)
	k.flushTargets(space, ts)

	// 4-byte bodies: first byte from a 32-value set, rest exhaustive (thorough) or sampled (quick)
	first := []byte{0x00, 0x01, 0x27, 0x28, 0x29, 0x2a, 0x4f, 0x50, 0x51, 0x55, 0x7e, 0x7f, 0x80, 0x81, 0x82, 0x83,
		0x86, 0x87, 0x88, 0x8f, 0x90, 0xa0, 0xaa, 0xbf, 0xc0, 0xd5, 0xe0, 0xf0, 0xf7, 0xf8, 0xfe, 0xff}
	body := make([]byte, 4)
	if k.c.Thorough() {
		space = "oid-body-4-bytes-first-from-32-set"
		nt = 0
		total := int64(len(first)) << 24
		var m int64
		for idx := int64(k.c.Shard); idx < total; idx += int64(k.c.NShards) {
			body[0] = first[idx>>24]
			body[1], body[2], body[3] = byte(idx>>16), byte(idx>>8), byte(idx)
			for _, t := range ts {
				if k.one(space, t, tlv(buf, t.tag, body), false) {
					nt++
				}
			}
			m++
		}
		k.c.Eval(int(m) * len(ts))
		k.c.NontrivialEnumerated(nt)
		k.c.Exhaustive(space, m)
		k.flushTargets(space, ts)
	} else {
		space = "oid-body-4-bytes-sampled"
		rng := k.c.SubRng("oid4")
		n := k.c.PerShard(2000000)
		for i := 0; i < n; i++ {
			x := rng.Uint32()
			body[0] = first[rng.IntN(len(first))]
			body[1], body[2], body[3] = byte(x>>16), byte(x>>8), byte(x)
			for _, t := range ts {
				if k.one(space, t, tlv(buf, t.tag, body), k.xcheck) && i%k.hashEvery == 0 {
					k.c.Nontrivial(t.name, body)
				}
			}
		}
		k.c.Eval(n * len(ts))
		k.flushTargets(space, ts)
	}

	// random bodies up to 12 bytes, built from sub-identifier pieces so that many are accepted
	space = "oid-body-5..12-bytes-sampled"
	rng := k.c.SubRng("oid-long")
	n := k.c.PerShard(k.c.Pick(1000000, 20000000))
	long := make([]byte, 0, 16)
	for i := 0; i < n; i++ {
		long = long[:0]
		want := 5 + rng.IntN(8)
		for len(long) < want {
			switch rng.IntN(10) {
			case 0: // a non-minimal piece
				long = append(long, 0x80, byte(rng.IntN(128)))
			case 1, 2: // raw byte
				long = append(long, byte(rng.Uint32()))
			default: // a minimal sub-identifier of 1..5 octets
				m := 1 + rng.IntN(5)
				for j := 0; j < m; j++ {
					o := byte(rng.Uint32()) | 0x80
					if j == 0 && o == 0x80 {
						o = 0x81
					}
					if j == m-1 {
						o &= 0x7f
					}
					long = append(long, o)
				}
			}
		}
		if len(long) > 12 {
			long = long[:12]
		}
		for _, t := range ts {
			if k.one(space, t, tlv(buf, t.tag, long), k.xcheck) && i%k.hashEvery == 0 {
				k.c.Nontrivial(t.name, long)
			}
		}
	}
	k.c.Eval(n * len(ts))
	k.flushTargets(space, ts)
}

func (k *c19) bitstrings() {
	ts := []*tgt{encT[zasn1.BitString, gasn1.BitString]("BitString", kindBitString, 0x03), cbBitString(), cbBitStringBytes()}
	buf := make([]byte, 0, 64)
	space := "bitstring-content-0..3-bytes"
	var nt int64
	mine := k.enumContents(3, func(content []byte) {
		for _, t := range ts {
			if k.one(space, t, tlv(buf, t.tag, content), k.xcheck) {
				nt++
			}
		}
	})
	k.c.Eval(int(mine) * len(ts))
	k.c.NontrivialEnumerated(nt)
	k.c.Exhaustive(space, mine)
	k.flushTargets(space, ts)

	// every (padding octet, last content octet) pair with 3, 4, 126, 127, 128 and 255 content octets
	space = "bitstring-all-(padding,last-octet)-pairs-longer"
	rng := k.c.SubRng("bits")
	nt = 0
	var m int64
	lens := []int{3, 4, 126, 127, 128, 255, 256}
	content := make([]byte, 300)
	for li, l := range lens {
		for pair := 0; pair < 65536; pair++ {
			if (pair+li)%k.c.NShards != k.c.Shard {
				continue
			}
			content[0] = byte(pair >> 8)
			for j := 1; j < l; j++ {
				content[j] = byte(rng.Uint32())
			}
			content[l] = byte(pair)
			for _, t := range ts {
				if k.one(space, t, tlv(buf, t.tag, content[:l+1]), k.xcheck) {
					nt++
				}
			}
			m++
		}
	}
	k.c.Eval(int(m) * len(ts))
	k.c.NontrivialEnumerated(nt)
	k.c.Exhaustive(space, m)
	k.flushTargets(space, ts)
}

// headers: bare tag/length headers with content supplied to match.
func (k *c19) headers() {
	ts := []*tgt{encRaw(), cbAnyElement()}
	const pad = 70016
	big := make([]byte, 8+pad)

	// (1) every 3-byte string followed by zero octets: all one-octet tags with
	// every short and 0x81 length, one-octet high-tag continuations, etc.
	space := "header-prefix-every-3-byte-string"
	var nt int64
	var mine int64
	in := big[:3+300]
	for idx := int64(k.c.Shard); idx < 1<<24; idx += int64(k.c.NShards) {
		in[0], in[1], in[2] = byte(idx>>16), byte(idx>>8), byte(idx)
		for _, t := range ts {
			if k.one(space, t, in, k.xcheck) {
				nt++
			}
		}
		mine++
	}
	k.c.Eval(int(mine) * len(ts))
	k.c.NontrivialEnumerated(nt)
	k.c.Exhaustive(space, mine)
	k.flushTargets(space, ts)

	// (2) every first octet x 0x82 hi lo for lengths from a boundary set (all <= 1024 and the edges);
	// for tag 0x30 also one in eight of the other values (thorough: all 65536); content materialised (zeros).
	space = "header-0x82-lengths"
	nt, mine = 0, 0
	isBoundary := func(v int) bool {
		if v <= 1024 || v >= 65530 {
			return true
		}
		switch v {
		case 0x7fff, 0x8000, 0x8001, 0x10ff, 0x1000, 0x4000, 0xff00, 0xfeff, 0x0fff, 0x7ffe, 4097, 16383, 16385:
			return true
		}
		return v&0xff == 0 && v < 0x2000
	}
	fullTags := map[int]bool{0x30: true}
	var cnt int64
	for first := 0; first < 256; first++ {
		for v := 0; v < 65536; v++ {
			if !isBoundary(v) && !(fullTags[first] && (k.c.Thorough() || v%8 == 5)) {
				continue
			}
			cnt++
			if cnt%int64(k.c.NShards) != int64(k.c.Shard) {
				continue
			}
			for i := range big[:8] {
				big[i] = 0
			}
			big[0], big[1], big[2], big[3] = byte(first), 0x82, byte(v>>8), byte(v)
			in := big[:4+v+3]
			for _, t := range ts {
				if k.one(space, t, in, k.xcheck) {
					nt++
				}
			}
			mine++
		}
	}
	k.c.Eval(int(mine) * len(ts))
	k.c.NontrivialEnumerated(nt)
	k.c.Exhaustive(space, mine)
	k.flushTargets(space, ts)

	// (3) high-tag-number identifiers and the long length forms, from boundary sets
	space = "header-high-tag-and-long-length-forms"
	nt, mine = 0, 0
	b16 := []byte{0x00, 0x01, 0x1e, 0x1f, 0x20, 0x7f, 0x80, 0x81, 0x9f, 0xa0, 0xfe, 0xff, 0x82, 0x40, 0xc0, 0x7e}
	var tagParts [][]byte
	for _, lead := range []byte{0x1f, 0x3f, 0x5f, 0x7f, 0x9f, 0xbf, 0xdf, 0xff} {
		for a := 0; a < 256; a++ {
			tagParts = append(tagParts, []byte{lead, byte(a)})
		}
		for a := 0; a < 256; a++ {
			if a < 0x80 { // a terminal octet first: the second octet would be the length, covered by (1)
				continue
			}
			for b := 0; b < 256; b++ {
				tagParts = append(tagParts, []byte{lead, byte(a), byte(b)})
			}
		}
		for _, a := range b16 {
			for _, b := range b16 {
				for _, d := range b16 {
					if a >= 0x80 && b >= 0x80 {
						tagParts = append(tagParts, []byte{lead, a, b, d})
						tagParts = append(tagParts, []byte{lead, a, b, d | 0x80, 0x7f})
						tagParts = append(tagParts, []byte{lead, a, b, d | 0x80, 0x8f, 0x7f})
					}
				}
			}
		}
	}
	lenPartsShort := [][]byte{{0x00}, {0x01}, {0x7f}, {0x80}, {0x81, 0x01}, {0x81, 0x7f}, {0x81, 0x80}, {0x81, 0xff}, {0x82, 0x00, 0x80}, {0x82, 0x01, 0x00}, {0x82, 0x00, 0xff}}
	var lenPartsLong [][]byte
	for _, a := range b16 {
		for _, b := range b16 {
			for _, d := range b16 {
				lenPartsLong = append(lenPartsLong, []byte{0x83, a, b, d})
			}
			lenPartsLong = append(lenPartsLong, []byte{0x84, 0x00, 0x00, a, b}, []byte{0x84, 0x00, a, b, 0x00}, []byte{0x84, a, b, 0x00, 0x00},
				[]byte{0x85, 0x00, 0x00, 0x00, a, b}, []byte{0x85, a, 0x00, 0x00, 0x00, b}, []byte{0x88, 0, 0, 0, 0, 0, 0, a, b}, []byte{0x80 | a&0x7f, b, 0x01, 0x00})
		}
	}
	run := func(tp, lp []byte) {
		cnt++
		if cnt%int64(k.c.NShards) != int64(k.c.Shard) {
			return
		}
		hdr := append(append(big[:0], tp...), lp...)
		hl := len(hdr)
		want := 16
		if h, ok := readBERHeader(hdr); ok && h.hdrLen == hl && h.length >= 0 && h.length <= 70000 {
			want = int(h.length) + 3
		}
		for i := hl; i < 40; i++ {
			big[i] = 0
		}
		in := big[:hl+want]
		for _, t := range ts {
			if k.one(space, t, in, k.xcheck) {
				nt++
			}
		}
		mine++
	}
	for _, tp := range tagParts {
		for _, lp := range lenPartsShort {
			run(tp, lp)
		}
	}
	for first := 0; first < 256; first++ {
		for _, lp := range lenPartsLong {
			run([]byte{byte(first)}, lp)
		}
	}
	k.c.Eval(int(mine) * len(ts))
	k.c.NontrivialEnumerated(nt)
	k.c.Exhaustive(space, mine)
	k.flushTargets(space, ts)
}

// longLengths: long-form lengths with 1..127 length octets, each value zero-padded to every width
// (and in its minimal width), content supplied when the value is <= 70000. Enumerated completely.
func (k *c19) longLengths() {
	space := "header-long-form-length-1..127-octets-zero-padded-to-every-width"
	type group struct {
		tag byte
		ts  []*tgt
	}
	groups := []group{
		{0x04, []*tgt{encRaw(), encT[[]byte, []byte]("[]byte", kindHeader, 0x04), cbAnyElement(),
			cbTagged("ReadASN1", 0x04), cbTagged("ReadASN1Element", 0x04), cbTagged("ReadASN1Bytes", 0x04), cbTagged("ReadOptionalASN1", 0x04)}},
		{0x30, []*tgt{encRaw(), encT[[]zasn1.RawValue, []gasn1.RawValue]("[]RawValue", kindHeader, 0x30), cbAnyElement(),
			cbTagged("ReadASN1", 0x30), cbTagged("ReadASN1Element", 0x30)}},
		{0xa3, []*tgt{encRaw(), cbAnyElement(), cbTagged("ReadASN1", 0xa3), cbTagged("ReadOptionalASN1", 0xa3)}},
	}
	be := func(v uint64) []byte {
		var out []byte
		for ; v > 0; v >>= 8 {
			out = append([]byte{byte(v)}, out...)
		}
		if len(out) == 0 {
			out = []byte{0}
		}
		return out
	}
	var values [][]byte
	for _, v := range []uint64{0, 1, 127, 128, 255, 256, 65535, 65536, 70000, 1 << 24, 1<<31 - 1, 1 << 31, 1 << 32, 1<<63 - 1, 1 << 63, 1<<64 - 1} {
		values = append(values, be(v))
	}
	values = append(values, []byte{1, 0, 0, 0, 0, 0, 0, 0, 0}, bytes.Repeat([]byte{0xff}, 16)) // beyond 64 bits
	buf := make([]byte, 2+127+70000+16)
	var nt, mine, cnt, evals int64
	for _, g := range groups {
		for w := 1; w <= 127; w++ {
			for _, vb := range values {
				if len(vb) > w {
					continue
				}
				cnt++
				if cnt%int64(k.c.NShards) != int64(k.c.Shard) {
					continue
				}
				for i := range buf[:2+127+8] {
					buf[i] = 0
				}
				buf[0], buf[1] = g.tag, 0x80|byte(w)
				copy(buf[2+w-len(vb):], vb)
				hl := 2 + w
				n := 16 // truncated input unless the value can be materialised
				if len(vb) <= 3 {
					v := 0
					for _, x := range vb {
						v = v<<8 | int(x)
					}
					if v <= 70000 {
						n = v + 3
						if v >= 3 && v%2 == 1 {
							buf[hl+1] = 1 // keeps the zero-filled content a sequence of well-formed elements
						}
					}
				}
				in := buf[:hl+n]
				for _, t := range g.ts {
					if k.one(space, t, in, k.xcheck) {
						nt++
					}
					evals++
				}
				mine++
			}
		}
	}
	k.c.Eval(int(evals))
	k.c.NontrivialEnumerated(nt)
	k.c.Exhaustive(space, mine)
	for _, g := range groups {
		k.flushTargets(space, g.ts)
	}
}

func (k *c19) gentime() {
	ts := []*tgt{cbGenTime()}
	buf := make([]byte, 0, 128)
	space := "generalizedtime-near-valid-grammar"
	years := []string{"0000", "0001", "1949", "1950", "1999", "2000", "2024", "2049", "2050", "9999", "999", "10000", "-001", "20 4"}
	months := []string{"00", "01", "02", "09", "12", "13", "1", "1a"}
	days := []string{"00", "01", "28", "29", "30", "31", "32"}
	hours := []string{"00", "12", "23", "24"}
	mins := []string{"00", "59", "60"}
	secs := []string{"00", "59", "60", ""}
	fracs := []string{"", ".0", ".5", ",5", ".123456789"}
	zones := []string{"Z", "z", "", "+0000", "-0000", "+0100", "-0530", "+2359", "+2400", "+0060", "+01", "+01:00", "Z0", "ZZ", " Z"}
	var nt, mine, cnt int64
	for _, y := range years {
		for _, mo := range months {
			for _, d := range days {
				for _, h := range hours {
					for _, mi := range mins {
						for _, s := range secs {
							for _, f := range fracs {
								for _, z := range zones {
									cnt++
									if cnt%int64(k.c.NShards) != int64(k.c.Shard) {
										continue
									}
									str := y + mo + d + h + mi + s + f + z
									for _, t := range ts {
										if k.one(space, t, tlv(buf, t.tag, []byte(str)), k.xcheck) {
											nt++
										}
									}
									mine++
								}
							}
						}
					}
				}
			}
		}
	}
	k.c.Eval(int(mine) * len(ts))
	k.c.NontrivialEnumerated(nt)
	k.c.Exhaustive(space, mine)
	k.flushTargets(space, ts)

	// random valid times with one random character edit
	space = "generalizedtime-random-valid-and-one-edit"
	rng := k.c.SubRng("gentime")
	n := k.c.PerShard(k.c.Pick(1000000, 10000000))
	for i := 0; i < n; i++ {
		s := randomGenTime(rng)
		if rng.IntN(2) == 0 {
			b := []byte(s)
			switch rng.IntN(3) {
			case 0:
				b[rng.IntN(len(b))] = "0123456789Zz+-. :"[rng.IntN(17)]
			case 1:
				p := rng.IntN(len(b) + 1)
				b = append(b[:p], append([]byte{"0123456789Z+-."[rng.IntN(14)]}, b[p:]...)...)
			default:
				p := rng.IntN(len(b))
				b = append(b[:p], b[p+1:]...)
			}
			s = string(b)
		}
		for _, t := range ts {
			if k.one(space, t, tlv(buf, t.tag, []byte(s)), k.xcheck) && i%k.hashEvery == 0 {
				k.c.Nontrivial(t.name, s)
			}
		}
	}
	k.c.Eval(n * len(ts))
	k.flushTargets(space, ts)
}

func randomGenTime(rng *rand.Rand) string {
	var sb strings.Builder
	fmt.Fprintf(&sb, "%04d%02d%02d%02d%02d%02d", rng.IntN(10000), 1+rng.IntN(12), 1+rng.IntN(31), rng.IntN(24), rng.IntN(60), rng.IntN(60))
	switch rng.IntN(4) {
	case 0:
		fmt.Fprintf(&sb, "%c%02d%02d", "+-"[rng.IntN(2)], rng.IntN(24), rng.IntN(60))
	default:
		sb.WriteByte('Z')
	}
	return sb.String()
}

// replay runs the recorded input against the recorded decoder.
func (k *c19) replay() {
	var in struct {
		Space   string `json:"space"`
		Decoder string `json:"decoder"`
		Hex     string `json:"input_hex"`
	}
	if err := json.Unmarshal(k.c.Replay, &in); err != nil {
		k.c.Note("replay input not understood: %v", err)
		return
	}
	b, err := hex.DecodeString(in.Hex)
	if err != nil {
		k.c.Note("replay input hex: %v", err)
		return
	}
	all := append(intTargets(), encT[bool, bool]("bool", kindBoolean, 0x01), cbBool(),
		encT[zasn1.ObjectIdentifier, gasn1.ObjectIdentifier]("ObjectIdentifier", kindOID, 0x06), cbOID(),
		encT[zasn1.BitString, gasn1.BitString]("BitString", kindBitString, 0x03), cbBitString(), cbBitStringBytes(),
		encRaw(), cbAnyElement(), cbGenTime(),
		encT[[]byte, []byte]("[]byte", kindHeader, 0x04), encT[[]zasn1.RawValue, []gasn1.RawValue]("[]RawValue", kindHeader, 0x30))
	for _, tag := range []byte{0x04, 0x30, 0xa3} {
		for _, w := range []string{"ReadASN1", "ReadASN1Element", "ReadASN1Bytes", "ReadOptionalASN1"} {
			all = append(all, cbTagged(w, tag))
		}
	}
	for _, t := range all {
		if t.name == in.Decoder {
			k.c.Eval(1)
			if k.one(in.Space, t, b, true) {
				k.c.Nontrivial(t.name, b)
			}
		}
	}
}
