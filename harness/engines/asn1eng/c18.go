package asn1eng

// C18 — ASN.1 marshalling round-trips and is idempotent.
//
// Generated struct types (reflect.StructOf) with random legal tag combinations,
// random values inside the documented domain: Marshal must succeed, strict
// Unmarshal of the output must consume everything and give back an equal value
// (sets up to order, times up to the second), and marshalling the decoded value
// must reproduce the bytes. Go's encoding/asn1 marshals the same value; the
// comparison of the two encodings is logged and decides nothing.

import (
	"bytes"
	gasn1 "encoding/asn1"
	"fmt"
	"math/rand/v2"
	"reflect"
	"regexp"
	"runtime"
	"strings"
	"sync"

	zasn1 "github.com/zmap/zcrypto/encoding/asn1"

	"verifharness/internal/core"
)

func init() {
	core.RegisterMeta("C18", core.Meta{
		Rule: "struct types built with reflect.StructOf: 1..6 exported fields, nesting <= 3, field kinds int/int32/int64/*big.Int/bool/string/[]byte/ObjectIdentifier/BitString/time.Time/Enumerated/Flag/RawValue/struct/slice of these/eight named ...SET slice types, " +
			"each field with a random legal combination of optional, default:n, tag:n (0..40, both identifier forms) implicit or explicit, application/private, set, omitempty, ia5|printable|numeric|utf8, utc|generalized; " +
			"the generator keeps an optional field from being followed by a field with the same effective identifier; values random within the type's documented domain and biased to boundaries; some cases use Marshal/UnmarshalWithParams with top-level parameters; " +
			"after the single-value round trips of a type, 2..6 cases (this type and the previous one) are marshalled first, the returned slices held as returned, then each decoded and compared with its own original, held slices and decoded values re-checked; Marshal twice must agree; for one type in eight 4..6 goroutines run Marshal/yield/Unmarshal/compare concurrently; " +
			"non-trivial = (type, value) whose Marshal succeeded so that the round trip was evaluated; distinct = distinct generated type descriptions (with tags)",
		MinNontrivial:         7000,
		MinNontrivialThorough: 100000,
		Shards:                16,
		GoMaxProcs:            2,
		Assumptions: []string{
			"asn1.AllowPermissiveParsing is false (set by the engine, restored afterwards)",
			"domain restrictions taken from the package documentation or from behaviour zcrypto shares with Go's encoding/asn1 (listed in the notes of the evidence file): explicit+private, omitempty without optional, implicitly tagged strings without a string type outside the PrintableString alphabet, implicitly tagged times outside 1950..2049 without 'generalized', Enumerated beyond 32 bits, Flag=false on a mandatory field, RawValue not carrying the identifier its field parameters announce, nil *big.Int / invalid OID on mandatory fields, sub-second or sub-minute-offset times",
			"equality: times as instants to the second, SET OF as multisets, nil and empty slices identified, RawValue on Class/Tag/IsCompound/Bytes",
			"Go's encoding/asn1 is used only for the logged byte comparison (counters go_stdlib_*)",
		},
	}, runC18)
}

var reDigits = regexp.MustCompile(`-?\d+`)

type c18 struct {
	c     *core.Ctx
	lim   limiter
	carry []c18held // cases of the previous type, so that a batch mixes types
}

type c18held struct {
	cs   c18case
	id   string
	desc string
}

type c18case struct {
	t      *ftype
	v      *val
	params string // top-level parameters ("" = plain Marshal/Unmarshal)
}

type c18result struct {
	stage  string // "" = held
	detail string
	der    []byte
}

// roundTrip is the oracle of the property for one (type, value).
func roundTrip(cs c18case) (res c18result) {
	pi := core.Guard(func() {
		zv := mkValue(cs.t, cs.v, flavZ)
		want := canon(cs.t, nil, zv)
		var der []byte
		var err error
		if cs.params == "" {
			der, err = zasn1.Marshal(zv.Interface())
		} else {
			der, err = zasn1.MarshalWithParams(zv.Interface(), cs.params)
		}
		if err != nil {
			res = c18result{stage: "marshal-error", detail: err.Error()}
			return
		}
		res.der = der
		out := reflect.New(cs.t.goType(flavZ))
		var rest []byte
		if cs.params == "" {
			rest, err = zasn1.Unmarshal(der, out.Interface())
		} else {
			rest, err = zasn1.UnmarshalWithParams(der, out.Interface(), cs.params)
		}
		if err != nil {
			res.stage, res.detail = "unmarshal-error", err.Error()
			return
		}
		if len(rest) != 0 {
			res.stage, res.detail = "trailing-bytes", fmt.Sprintf("%d bytes left: %s", len(rest), hx(rest))
			return
		}
		got := canon(cs.t, nil, out.Elem())
		if got != want {
			res.stage, res.detail = "value-mismatch", "marshalled: "+abbreviate(want, 1500)+"\ndecoded:    "+abbreviate(got, 1500)
			return
		}
		var der2 []byte
		if cs.params == "" {
			der2, err = zasn1.Marshal(out.Elem().Interface())
		} else {
			der2, err = zasn1.MarshalWithParams(out.Elem().Interface(), cs.params)
		}
		if err != nil {
			res.stage, res.detail = "remarshal-error", err.Error()
			return
		}
		if !bytes.Equal(der, der2) {
			res.stage, res.detail = "remarshal-differs", "second marshal: "+hx(der2)
		}
	})
	if pi != nil {
		res.stage, res.detail = pi.Key, pi.Value+"\n"+pi.Stack
	}
	return
}

func abbreviate(s string, n int) string {
	if len(s) > n {
		return s[:n] + "…"
	}
	return s
}

// ---- shrinking (only to name what fails; the verdict is the unshrunk case) ---------

func cloneField(f *ffield) *ffield { g := *f; return &g }

func withFields(t *ftype, fields []*ffield) *ftype { return &ftype{kind: fStruct, fields: fields} }

// fieldsInDomain re-checks the generator's struct-level rules on a shrunk field list.
func fieldsInDomain(fields []*ffield) bool {
	for j, p := range fields {
		if j > 0 && ambiguous(fields[:j], p) {
			return false
		}
		if p.optional && p.tag >= 0 && p.explicit {
			ok := false
			for _, later := range fields[j+1:] {
				if neverEmpty(later) {
					ok = true
				}
			}
			if !ok {
				return false
			}
		}
	}
	return true
}

func shrink(cs c18case, stage string) c18case {
	same := func(c c18case) bool { return fieldsInDomain(c.t.fields) && roundTrip(c).stage == stage }
	cur := cs
	for changed := true; changed; {
		changed = false
		// drop fields of the top-level struct
		for i := 0; i < len(cur.t.fields) && len(cur.t.fields) > 1; i++ {
			nf := append(append([]*ffield{}, cur.t.fields[:i]...), cur.t.fields[i+1:]...)
			nv := &val{fields: append(append([]*val{}, cur.v.fields[:i]...), cur.v.fields[i+1:]...)}
			cand := c18case{t: withFields(cur.t, nf), v: nv, params: cur.params}
			if same(cand) {
				cur, changed = cand, true
				i--
			}
		}
		if cur.params != "" {
			cand := cur
			cand.params = ""
			if same(cand) {
				cur, changed = cand, true
			}
		}
		// hoist a lone nested struct
		if len(cur.t.fields) == 1 {
			f, fv := cur.t.fields[0], cur.v.fields[0]
			if f.typ.kind == fStruct && f.typ.fixed == nil && !fv.zero && len(f.typ.fields) > 0 {
				cand := c18case{t: withFields(f.typ, f.typ.fields), v: &val{fields: fv.fields}, params: ""}
				if same(cand) {
					cur, changed = cand, true
				}
			}
		}
		// hoist one element of a lone slice of structs
		if len(cur.t.fields) == 1 {
			f, fv := cur.t.fields[0], cur.v.fields[0]
			if f.typ.kind == fSlice && f.typ.elem.kind == fStruct && f.typ.elem.fixed == nil && len(f.typ.elem.fields) > 0 {
				for _, ev := range fv.elems {
					if ev.zero {
						continue
					}
					cand := c18case{t: withFields(f.typ.elem, f.typ.elem.fields), v: &val{fields: ev.fields}, params: ""}
					if same(cand) {
						cur, changed = cand, true
						break
					}
				}
			}
		}
		// drop parameters that cannot take the value out of the domain
		for i, f := range cur.t.fields {
			try := func(mut func(g *ffield)) {
				g := cloneField(f)
				mut(g)
				nf := append([]*ffield{}, cur.t.fields...)
				nf[i] = g
				cand := c18case{t: withFields(cur.t, nf), v: cur.v, params: cur.params}
				if same(cand) {
					cur, changed, f = cand, true, g
				}
			}
			fv := cur.v.fields[i]
			if f.hasDefault {
				try(func(g *ffield) { g.hasDefault = false })
			}
			if f.omitempty {
				try(func(g *ffield) { g.omitempty = false })
			}
			if f.optional && !f.hasDefault && !f.omitempty && !fv.isNil && !fv.zero && !(f.typ.kind == fFlag && !fv.b) {
				try(func(g *ffield) { g.optional = false })
			}
			if f.tag >= 0 && f.class != clsCtx && f.typ.kind != fRaw {
				try(func(g *ffield) { g.class = clsCtx })
			}
			if f.tag >= 31 && f.typ.kind != fRaw {
				try(func(g *ffield) { g.tag = 1 })
			}
		}
	}
	return cur
}

// ---- engine ---------------------------------------------------------------------------

var topParams = []string{"", "", "", "", "", "", "set", "tag:5", "explicit,tag:2", "application,tag:7", "private,tag:31", "explicit,application,tag:40"}

func c18rng(seed int64, idx int) *rand.Rand {
	return rand.New(rand.NewPCG(uint64(seed)^0xc18c18c18, uint64(idx)*0x9e3779b97f4a7c15+0x18))
}

func runC18(c *core.Ctx) {
	defer strictMode(c)()
	k := &c18{c: c}
	ntypes := c.Pick(16000, 320000)
	nvals := c.Pick(8, 20)
	for _, ns := range namedSets { // shared element types: fill their reflect caches before any goroutine runs
		ns.elem.goType(flavZ)
		ns.elem.goType(flavG)
	}
	for idx := c.Shard; idx < ntypes; idx += c.NShards {
		only := -1
		if c.OnlyCase != "" {
			var ti, vi int
			if n, _ := fmt.Sscanf(c.OnlyCase, "type-%d/value-%d", &ti, &vi); n == 2 {
				if ti != idx {
					continue
				}
				only = vi
			} else if n, _ := fmt.Sscanf(c.OnlyCase, "type-%d/batch", &ti); n == 1 {
				// a batch mixes this type's values with two of the previous type of the shard
				if idx != ti && idx != ti-c.NShards {
					continue
				}
			} else {
				continue
			}
		}
		k.oneType(idx, nvals, only)
	}
	k.lim.flush(c)
	c.Note("outside the domain because zcrypto and Go's encoding/asn1 behave the same way (not generated): 'explicit' with 'private' (Unmarshal expects a context-specific class); 'omitempty' without 'optional'; " +
		"RawValue fields always carry the identifier their tag parameters announce and are never wrapped with 'explicit' (Marshal emits a RawValue verbatim); an untagged optional RawValue; a ...SET named slice with an additional 'set' parameter; " +
		"implicitly tagged time.Time outside 1950..2049 without 'generalized'; implicitly tagged string without a string type outside the PrintableString alphabet; Enumerated beyond int32; Flag(false) on a mandatory field; int8/int16 fields; " +
		"an optional explicitly tagged field that is not followed by a mandatory never-empty field (when it is absent and the next element is empty and last, both libraries fail with 'explicit tag has no child'); " +
		"an empty non-nil slice under omitempty (written as absent, read back as nil, which can turn an enclosing optional struct into its zero value and change the second encoding)")
}

func (k *c18) oneType(idx, nvals, only int) {
	c := k.c
	rng := c18rng(c.Seed, idx)
	tg := &tgen{rng: rng}
	t := tg.structType(0, 1+rng.IntN(6))
	desc := t.String()
	if pi := core.Guard(func() { t.goType(flavZ); t.goType(flavG) }); pi != nil {
		c.Violation("harness:reflect.StructOf-refused-generated-type", pi.Value+"\n"+desc, fmt.Sprintf("type-%d", idx), map[string]any{"type": desc})
		return
	}
	countKinds(c, t, 0)
	vg := &vgen{rng: rng}
	var held []c18held
	for vi := 0; vi < nvals; vi++ {
		v := &val{}
		for _, f := range t.fields {
			v.fields = append(v.fields, vg.value(f.typ, f))
		}
		params := pick(rng, topParams)
		if only >= 0 && vi != only {
			continue
		}
		cs := c18case{t: t, v: v, params: params}
		id := fmt.Sprintf("type-%d/value-%d", idx, vi)
		c.Eval(1)
		res := roundTrip(cs)
		if res.stage != "marshal-error" {
			c.Nontrivial(desc)
			c.Count("round_trips_evaluated", 1)
			c.Max("der_bytes", len(res.der))
		}
		if res.stage == "" {
			held = append(held, c18held{cs, id, desc})
		}
		if res.stage != "" {
			k.report(cs, res, id, desc)
		} else if c.WantSample() && len(desc) < 500 && vi == 0 {
			c.Sample(map[string]any{"type": desc, "params": params, "der": core.Hex(res.der)})
		}
		if res.der != nil {
			k.differential(cs, res, desc)
		}
	}
	if only >= 0 || len(held) == 0 {
		return
	}
	// batch of 2..6 cases: some of this type plus up to two of the previous type
	n := 2 + rng.IntN(5)
	batch := append([]c18held{}, k.carry...)
	for _, h := range held {
		if len(batch) < n {
			batch = append(batch, h)
		}
	}
	bid := fmt.Sprintf("type-%d/batch", idx)
	if len(batch) >= 2 {
		k.batchLeg(batch, bid)
	}
	if (idx/c.NShards)%8 == 0 {
		k.concurrentLeg(batch, 4+rng.IntN(3), bid)
	}
	k.carry = held
	if len(k.carry) > 2 {
		k.carry = k.carry[len(k.carry)-2:]
	}
}

func marshalZ(cs c18case, v reflect.Value) ([]byte, error) {
	if cs.params == "" {
		return zasn1.Marshal(v.Interface())
	}
	return zasn1.MarshalWithParams(v.Interface(), cs.params)
}

func unmarshalZ(cs c18case, der []byte) (reflect.Value, []byte, error) {
	out := reflect.New(cs.t.goType(flavZ))
	var rest []byte
	var err error
	if cs.params == "" {
		rest, err = zasn1.Unmarshal(der, out.Interface())
	} else {
		rest, err = zasn1.UnmarshalWithParams(der, out.Interface(), cs.params)
	}
	return out.Elem(), rest, err
}

func (k *c18) batchFail(key, detail string, h c18held, bid string, der []byte) {
	k.c.Count("divergences", 1)
	if !k.lim.first(key) {
		return
	}
	k.c.Violation(key, detail+"\nmember "+h.id+" of "+bid+"\ntype: "+abbreviate(h.desc, 2500)+"\nparams: "+h.cs.params+"\nDER: "+abbreviate(hx(der), 3000), bid,
		map[string]any{"case": bid, "member": h.id, "type": abbreviate(h.desc, 4000), "params": h.cs.params, "der_hex": hx(der)})
}

// batchLeg: the oracle is the same round trip, on each value's own encoding, but all values are
// marshalled before any is decoded and the slices Marshal returned are kept as returned. An
// encoder or decoder that hands out storage a later call reuses diverges here only.
func (k *c18) batchLeg(batch []c18held, bid string) {
	c := k.c
	n := len(batch)
	vals := make([]reflect.Value, n)
	want := make([]string, n)
	der := make([][]byte, n)
	snap := make([][]byte, n)
	dec := make([]reflect.Value, n)
	got := make([]string, n)
	bad := make([]bool, n)
	pi := core.Guard(func() {
		for i, h := range batch {
			vals[i] = mkValue(h.cs.t, h.cs.v, flavZ)
			want[i] = canon(h.cs.t, nil, vals[i])
			d, err := marshalZ(h.cs, vals[i])
			if err != nil {
				bad[i] = true
				k.batchFail("batch:marshal-error-on-a-value-that-marshalled-alone", err.Error(), h, bid, nil)
				continue
			}
			der[i], snap[i] = d, append([]byte{}, d...)
		}
		for i, h := range batch {
			if bad[i] {
				continue
			}
			if !bytes.Equal(der[i], snap[i]) {
				bad[i] = true
				k.batchFail("batch:marshal-output-changed-by-later-marshal-calls", "the slice returned by Marshal held "+abbreviate(hx(snap[i]), 600)+" when returned and holds "+abbreviate(hx(der[i]), 600)+" after other values were marshalled", h, bid, snap[i])
				continue
			}
			v, rest, err := unmarshalZ(h.cs, der[i])
			switch {
			case err != nil:
				bad[i] = true
				k.batchFail("batch:unmarshal-error-when-decoding-is-deferred", err.Error(), h, bid, snap[i])
			case len(rest) != 0:
				bad[i] = true
				k.batchFail("batch:trailing-bytes-when-decoding-is-deferred", hx(rest), h, bid, snap[i])
			default:
				dec[i] = v
				got[i] = canon(h.cs.t, nil, v)
				if got[i] != want[i] {
					bad[i] = true
					k.batchFail("batch:value-mismatch-when-decoding-is-deferred", "marshalled: "+abbreviate(want[i], 1200)+"\ndecoded:    "+abbreviate(got[i], 1200), h, bid, snap[i])
				}
			}
		}
		for i, h := range batch {
			if bad[i] {
				continue
			}
			if !bytes.Equal(der[i], snap[i]) {
				k.batchFail("batch:marshal-output-changed-by-unmarshal-calls", "now "+abbreviate(hx(der[i]), 600), h, bid, snap[i])
			}
			if now := canon(h.cs.t, nil, dec[i]); now != got[i] {
				k.batchFail("batch:decoded-value-changed-by-later-unmarshal-calls", "when decoded: "+abbreviate(got[i], 1200)+"\nnow:          "+abbreviate(now, 1200), h, bid, snap[i])
			}
		}
		// Marshal(v) twice: equal, and the first result is not disturbed by the second call
		h := batch[n-1]
		if !bad[n-1] {
			d1, err1 := marshalZ(h.cs, vals[n-1])
			s1 := append([]byte{}, d1...)
			d2, err2 := marshalZ(h.cs, vals[n-1])
			switch {
			case err1 != nil || err2 != nil:
				k.batchFail("batch:marshal-error-on-a-value-that-marshalled-alone", fmt.Sprint(err1, err2), h, bid, nil)
			case !bytes.Equal(d1, s1):
				k.batchFail("batch:first-marshal-output-changed-by-second-marshal", "first result now "+abbreviate(hx(d1), 600), h, bid, s1)
			case !bytes.Equal(d2, s1):
				k.batchFail("batch:second-marshal-of-the-same-value-differs", "second "+abbreviate(hx(d2), 600), h, bid, s1)
			}
		}
	})
	if pi != nil {
		k.batchFail("batch:"+pi.Key, pi.Value+"\n"+pi.Stack, batch[0], bid, nil)
	}
	c.Count("batches", 1)
	c.Count("batch_members", n)
}

// concurrentLeg: g goroutines, each with its own value: Marshal, yield, Unmarshal, compare.
func (k *c18) concurrentLeg(batch []c18held, g int, bid string) {
	type outcome struct {
		key, detail string
		h           c18held
		der         []byte
	}
	res := make([][]outcome, g)
	var wg sync.WaitGroup
	start := make(chan struct{})
	for gi := 0; gi < g; gi++ {
		wg.Add(1)
		go func(gi int) {
			defer wg.Done()
			h := batch[gi%len(batch)]
			<-start
			for rep := 0; rep < 3; rep++ {
				var o *outcome
				pi := core.Guard(func() {
					v := mkValue(h.cs.t, h.cs.v, flavZ)
					want := canon(h.cs.t, nil, v)
					d, err := marshalZ(h.cs, v)
					if err != nil {
						o = &outcome{"concurrent:marshal-error", err.Error(), h, nil}
						return
					}
					s := append([]byte{}, d...)
					runtime.Gosched()
					if !bytes.Equal(d, s) {
						o = &outcome{"concurrent:marshal-output-changed-by-marshal-calls-of-other-goroutines", "now " + abbreviate(hx(d), 600), h, s}
						return
					}
					dv, rest, err := unmarshalZ(h.cs, d)
					runtime.Gosched()
					switch {
					case err != nil:
						o = &outcome{"concurrent:unmarshal-error", err.Error(), h, s}
					case len(rest) != 0:
						o = &outcome{"concurrent:trailing-bytes", hx(rest), h, s}
					default:
						if got := canon(h.cs.t, nil, dv); got != want {
							o = &outcome{"concurrent:value-mismatch", "marshalled: " + abbreviate(want, 1200) + "\ndecoded:    " + abbreviate(got, 1200), h, s}
						}
					}
				})
				if pi != nil {
					o = &outcome{"concurrent:" + pi.Key, pi.Value + "\n" + pi.Stack, h, nil}
				}
				if o != nil {
					res[gi] = append(res[gi], *o)
				}
			}
		}(gi)
	}
	close(start)
	wg.Wait()
	for _, rs := range res {
		for _, o := range rs {
			k.batchFail(o.key, o.detail, o.h, bid, o.der)
		}
	}
	k.c.Count("concurrent_rounds", 1)
	k.c.Count("concurrent_goroutine_round_trips", 3*g)
}

func countKinds(c *core.Ctx, t *ftype, depth int) {
	c.Max("type_depth", depth)
	for _, f := range t.fields {
		name := fkindNames[f.typ.kind]
		c.Count("field:"+name, 1)
		if f.optional {
			c.Count("param:optional", 1)
		}
		if f.hasDefault {
			c.Count("param:default", 1)
		}
		if f.tag >= 0 {
			if f.explicit {
				c.Count("param:explicit", 1)
			} else {
				c.Count("param:implicit", 1)
			}
			if f.tag >= 31 {
				c.Count("param:tag>=31", 1)
			}
			switch f.class {
			case clsApp:
				c.Count("param:application", 1)
			case clsPriv:
				c.Count("param:private", 1)
			}
		}
		if f.set {
			c.Count("param:set", 1)
		}
		if f.omitempty {
			c.Count("param:omitempty", 1)
		}
		if f.strType != "" {
			c.Count("param:"+f.strType, 1)
		}
		if f.timeType != "" {
			c.Count("param:"+f.timeType, 1)
		}
		ft := f.typ
		for ft.kind == fSlice {
			ft = ft.elem
			c.Count("slice-elem:"+fkindNames[ft.kind], 1)
		}
		if ft.kind == fStruct && ft.fixed == nil {
			countKinds(c, ft, depth+1)
		}
	}
}

func (k *c18) report(cs c18case, res c18result, id, desc string) {
	c := k.c
	stage := res.stage
	small := cs
	if !strings.HasPrefix(stage, "panic:") {
		small = shrink(cs, stage)
	}
	shape := small.t.shape(2)
	if small.params != "" {
		shape += " with top-level params"
	}
	key := "roundtrip:" + stage + ":" + shape
	if len(key) > 190 {
		key = key[:190]
	}
	if !k.lim.first(key) {
		c.Count("divergences", 1)
		return
	}
	sres := roundTrip(small)
	// would Go's encoding/asn1 round-trip the shrunk case? (information for the reader, not part of the verdict)
	goSays := "ok"
	if pi := core.Guard(func() {
		gv := mkValue(small.t, small.v, flavG)
		der, err := gasn1.MarshalWithParams(gv.Interface(), small.params)
		if err != nil {
			goSays = "marshal-error: " + err.Error()
			return
		}
		out := reflect.New(small.t.goType(flavG))
		rest, err := gasn1.UnmarshalWithParams(der, out.Interface(), small.params)
		switch {
		case err != nil:
			goSays = "unmarshal-error: " + err.Error()
		case len(rest) > 0:
			goSays = "trailing-bytes"
		case canon(small.t, nil, out.Elem()) != canon(small.t, nil, gv):
			goSays = "value-mismatch"
		}
	}); pi != nil {
		goSays = "panic " + pi.Value
	}
	zv := mkValue(small.t, small.v, flavZ)
	detail := fmt.Sprintf("%s: %s\nminimised type: %s\nminimised value: %s\nminimised params: %q  DER: %s\nminimised case detail: %s\nGo encoding/asn1 on the minimised case: %s\noriginal type: %s\noriginal params: %q  DER: %s",
		stage, reDigits.ReplaceAllString(abbreviate(res.detail, 300), "N"), small.t.String(), abbreviate(canon(small.t, nil, zv), 1200), small.params, hx(sres.der),
		abbreviate(sres.detail, 1500), goSays, abbreviate(desc, 2500), cs.params, abbreviate(hx(res.der), 3000))
	c.Violation(key, detail, id, map[string]any{"case": id, "type": abbreviate(desc, 4000), "params": cs.params,
		"value": abbreviate(canon(cs.t, nil, mkValue(cs.t, cs.v, flavZ)), 4000), "der_hex": hx(res.der),
		"minimised_type": small.t.String(), "minimised_der_hex": hx(sres.der)})
}

// differential: Go's encoding/asn1 marshals the same value; logged only.
func (k *c18) differential(cs c18case, res c18result, desc string) {
	c := k.c
	var gder []byte
	var gerr error
	if pi := core.Guard(func() {
		gv := mkValue(cs.t, cs.v, flavG)
		gder, gerr = gasn1.MarshalWithParams(gv.Interface(), cs.params)
	}); pi != nil {
		c.Count("go_stdlib_marshal_panic", 1)
		return
	}
	switch {
	case gerr != nil:
		c.Count("go_stdlib_marshal_error", 1)
	case bytes.Equal(gder, res.der):
		c.Count("go_stdlib_bytes_equal", 1)
	default:
		c.Count("go_stdlib_bytes_differ", 1)
		if c.WantSample() {
			c.Sample(map[string]any{"go_stdlib_bytes_differ": abbreviate(desc, 800), "zcrypto": core.Hex(res.der), "go": core.Hex(gder)})
		}
	}
}
