// Package asn1eng holds property monitors (see /verif/DESIGN.md section 4).
package asn1eng
