package asn1eng

// Type and value generator for C18: Go struct types built with reflect.StructOf
// inside the documented domain of encoding/asn1, in two flavours (zcrypto's asn1
// package types and Go's own, for the logged differential).

import (
	gasn1 "encoding/asn1"
	"fmt"
	"math/big"
	"math/rand/v2"
	"reflect"
	"sort"
	"strings"
	"time"
	"unicode/utf8"

	zasn1 "github.com/zmap/zcrypto/encoding/asn1"
)

type fkind int

const (
	fInt fkind = iota
	fInt32
	fInt64
	fBigInt
	fBool
	fString
	fBytes
	fOID
	fBitString
	fTime
	fEnum
	fFlag
	fRaw
	fStruct
	fSlice
	fNamedSet
)

var fkindNames = [...]string{"int", "int32", "int64", "*big.Int", "bool", "string", "[]byte", "ObjectIdentifier", "BitString", "time.Time",
	"Enumerated", "Flag", "RawValue", "struct", "slice", "namedSET"}

// The fixed menu of slice types whose name ends in SET (reflect cannot name types).
// Their element types are plain Go types, so both flavours share them.
type (
	IntSET    []int
	Int64SET  []int64
	StringSET []string
	OctetsSET [][]byte
	BoolSET   []bool
	BigSET    []*big.Int
	TimeSET   []time.Time
	PairSET   []c18Pair
)

type c18Pair struct {
	A int
	B string `asn1:"utf8"`
}

type namedSet struct {
	name string
	typ  reflect.Type
	elem *ftype
}

var pairType = &ftype{kind: fStruct, fields: []*ffield{
	{name: "A", typ: &ftype{kind: fInt}, tag: -1},
	{name: "B", typ: &ftype{kind: fString}, tag: -1, strType: "utf8"},
}, fixed: reflect.TypeOf(c18Pair{})}

var namedSets = []namedSet{
	{"IntSET", reflect.TypeOf(IntSET(nil)), &ftype{kind: fInt}},
	{"Int64SET", reflect.TypeOf(Int64SET(nil)), &ftype{kind: fInt64}},
	{"StringSET", reflect.TypeOf(StringSET(nil)), &ftype{kind: fString}},
	{"OctetsSET", reflect.TypeOf(OctetsSET(nil)), &ftype{kind: fBytes}},
	{"BoolSET", reflect.TypeOf(BoolSET(nil)), &ftype{kind: fBool}},
	{"BigSET", reflect.TypeOf(BigSET(nil)), &ftype{kind: fBigInt}},
	{"TimeSET", reflect.TypeOf(TimeSET(nil)), &ftype{kind: fTime}},
	{"PairSET", reflect.TypeOf(PairSET(nil)), pairType},
}

type ftype struct {
	kind   fkind
	fields []*ffield // fStruct
	elem   *ftype    // fSlice
	named  int       // fNamedSet: index into namedSets
	fixed  reflect.Type
	rt     [2]reflect.Type // cache per flavour
}

const (
	clsCtx = iota
	clsApp
	clsPriv
)

type ffield struct {
	name       string
	typ        *ftype
	optional   bool
	hasDefault bool
	def        int64
	tag        int // -1: none
	explicit   bool
	class      int
	set        bool
	omitempty  bool
	strType    string
	timeType   string
	// fRaw: the header every value of this field carries (fixed per field so that
	// the optional-field ambiguity rule can be decided on the type)
	rawClass, rawTag int
	rawCompound      bool
}

func (f *ffield) tagString() string {
	var p []string
	if f.optional {
		p = append(p, "optional")
	}
	if f.hasDefault {
		p = append(p, fmt.Sprintf("default:%d", f.def))
	}
	if f.tag >= 0 {
		switch f.class {
		case clsApp:
			p = append(p, "application")
		case clsPriv:
			p = append(p, "private")
		}
		if f.explicit {
			p = append(p, "explicit")
		}
		p = append(p, fmt.Sprintf("tag:%d", f.tag))
	}
	if f.set {
		p = append(p, "set")
	}
	if f.omitempty {
		p = append(p, "omitempty")
	}
	if f.strType != "" {
		p = append(p, f.strType)
	}
	if f.timeType != "" {
		p = append(p, f.timeType)
	}
	return strings.Join(p, ",")
}

// shape describes the field without numbers: it is what a witness key is made of.
func (f *ffield) shape(depth int) string {
	var p []string
	if f.optional {
		p = append(p, "optional")
	}
	if f.hasDefault {
		p = append(p, "default")
	}
	if f.tag >= 0 {
		switch f.class {
		case clsApp:
			p = append(p, "application")
		case clsPriv:
			p = append(p, "private")
		}
		if f.explicit {
			p = append(p, "explicit")
		}
		if f.tag >= 31 {
			p = append(p, "tag>=31")
		} else {
			p = append(p, "tag<31")
		}
	}
	if f.set {
		p = append(p, "set")
	}
	if f.omitempty {
		p = append(p, "omitempty")
	}
	if f.strType != "" {
		p = append(p, f.strType)
	}
	if f.timeType != "" {
		p = append(p, f.timeType)
	}
	s := f.typ.shape(depth)
	if len(p) > 0 {
		s += "[" + strings.Join(p, ",") + "]"
	}
	return s
}

func (t *ftype) shape(depth int) string {
	switch t.kind {
	case fStruct:
		if depth <= 0 {
			return "struct{…}"
		}
		var parts []string
		for _, f := range t.fields {
			parts = append(parts, f.shape(depth-1))
		}
		return "struct{" + strings.Join(parts, ";") + "}"
	case fSlice:
		return "[]" + t.elem.shape(depth)
	case fNamedSet:
		return namedSets[t.named].name
	}
	return fkindNames[t.kind]
}

// String is the Go-like description of the type including the asn1 tags.
func (t *ftype) String() string {
	switch t.kind {
	case fStruct:
		if t.fixed != nil {
			return t.fixed.Name()
		}
		var parts []string
		for _, f := range t.fields {
			s := f.name + " " + f.typ.String()
			if ts := f.tagString(); ts != "" {
				s += " `asn1:\"" + ts + "\"`"
			}
			if f.typ.kind == fRaw {
				s += fmt.Sprintf(" /*carries class %d tag %d compound %v*/", f.rawClass, f.rawTag, f.rawCompound)
			}
			parts = append(parts, s)
		}
		return "struct{" + strings.Join(parts, "; ") + "}"
	case fSlice:
		return "[]" + t.elem.String()
	case fNamedSet:
		return namedSets[t.named].name
	}
	return fkindNames[t.kind]
}

const (
	flavZ = 0
	flavG = 1
)

func (t *ftype) goType(fl int) reflect.Type {
	if t.rt[fl] != nil {
		return t.rt[fl]
	}
	var r reflect.Type
	switch t.kind {
	case fInt:
		r = reflect.TypeOf(int(0))
	case fInt32:
		r = reflect.TypeOf(int32(0))
	case fInt64:
		r = reflect.TypeOf(int64(0))
	case fBigInt:
		r = reflect.TypeOf((*big.Int)(nil))
	case fBool:
		r = reflect.TypeOf(false)
	case fString:
		r = reflect.TypeOf("")
	case fBytes:
		r = reflect.TypeOf([]byte(nil))
	case fTime:
		r = reflect.TypeOf(time.Time{})
	case fOID:
		r = pickT(fl, reflect.TypeOf(zasn1.ObjectIdentifier(nil)), reflect.TypeOf(gasn1.ObjectIdentifier(nil)))
	case fBitString:
		r = pickT(fl, reflect.TypeOf(zasn1.BitString{}), reflect.TypeOf(gasn1.BitString{}))
	case fEnum:
		r = pickT(fl, reflect.TypeOf(zasn1.Enumerated(0)), reflect.TypeOf(gasn1.Enumerated(0)))
	case fFlag:
		r = pickT(fl, reflect.TypeOf(zasn1.Flag(false)), reflect.TypeOf(gasn1.Flag(false)))
	case fRaw:
		r = pickT(fl, reflect.TypeOf(zasn1.RawValue{}), reflect.TypeOf(gasn1.RawValue{}))
	case fNamedSet:
		r = namedSets[t.named].typ
	case fSlice:
		r = reflect.SliceOf(t.elem.goType(fl))
	case fStruct:
		if t.fixed != nil {
			r = t.fixed
			break
		}
		sf := make([]reflect.StructField, len(t.fields))
		for i, f := range t.fields {
			sf[i] = reflect.StructField{Name: f.name, Type: f.typ.goType(fl)}
			if ts := f.tagString(); ts != "" {
				sf[i].Tag = reflect.StructTag(`asn1:"` + ts + `"`)
			}
		}
		r = reflect.StructOf(sf)
	}
	t.rt[fl] = r
	return r
}

func pickT(fl int, z, g reflect.Type) reflect.Type {
	if fl == flavZ {
		return z
	}
	return g
}

// ---- ambiguity rule ---------------------------------------------------------------

type hdr struct{ class, tag int }

const anyHeader = -2

func (f *ffield) wireClass() int {
	switch f.class {
	case clsApp:
		return 1
	case clsPriv:
		return 3
	}
	return 2
}

func universalTags(t *ftype, f *ffield, accept bool) []hdr {
	u := func(tags ...int) []hdr {
		var out []hdr
		for _, x := range tags {
			out = append(out, hdr{0, x})
		}
		return out
	}
	switch t.kind {
	case fInt, fInt32, fInt64, fBigInt:
		return u(2)
	case fEnum:
		return u(10)
	case fBool, fFlag:
		return u(1)
	case fBytes:
		return u(4)
	case fOID:
		return u(6)
	case fBitString:
		return u(3)
	case fString:
		if accept {
			return u(19, 22, 27, 20, 12, 18, 30)
		}
		switch f.strType {
		case "ia5":
			return u(22)
		case "printable":
			return u(19)
		case "numeric":
			return u(18)
		case "utf8":
			return u(12)
		}
		return u(19, 12)
	case fTime:
		return u(23, 24)
	case fStruct, fSlice:
		if f.set {
			return u(17)
		}
		return u(16)
	case fNamedSet:
		return u(17)
	case fRaw:
		if accept {
			return []hdr{{anyHeader, anyHeader}}
		}
		return []hdr{{f.rawClass, f.rawTag}}
	}
	return nil
}

// emits: identifiers (class, tag number) the field can put on the wire;
// accepts: identifiers the decoder would take for this field.
func (f *ffield) emits() []hdr {
	if f.tag >= 0 {
		return []hdr{{f.wireClass(), f.tag}}
	}
	return universalTags(f.typ, f, false)
}

func (f *ffield) accepts() []hdr {
	if f.tag >= 0 {
		return []hdr{{f.wireClass(), f.tag}}
	}
	return universalTags(f.typ, f, true)
}

func overlaps(e, a []hdr) bool {
	for _, x := range e {
		for _, y := range a {
			if y.class == anyHeader || x == y {
				return true
			}
		}
	}
	return false
}

// ambiguous reports whether candidate, placed after prev, could be taken for an
// omitted optional field before it ("an optional field is never followed by a
// field with the same effective tag", up to and including the next mandatory field).
func ambiguous(prev []*ffield, cand *ffield) bool {
	for i := len(prev) - 1; i >= 0; i-- {
		if !prev[i].optional {
			return false
		}
		if overlaps(cand.emits(), prev[i].accepts()) {
			return true
		}
	}
	return false
}

// ---- type generator ---------------------------------------------------------------

type tgen struct {
	rng *rand.Rand
}

var tagMenu = []int{0, 0, 1, 1, 2, 3, 4, 5, 7, 15, 29, 30, 31, 32, 33, 39, 40}

func (g *tgen) leafKind() fkind {
	return pick(g.rng, []fkind{fInt, fInt, fInt32, fInt64, fBigInt, fBool, fString, fString, fBytes, fOID, fBitString, fTime, fTime, fEnum, fFlag, fRaw})
}

func (g *tgen) typ(depth int, elem bool) *ftype {
	r := g.rng.IntN(100)
	switch {
	case depth < 3 && r < 14:
		return g.structType(depth+1, g.rng.IntN(5))
	case depth < 3 && r < 30:
		return &ftype{kind: fSlice, elem: g.typ(depth+1, true)}
	case r < 36:
		return &ftype{kind: fNamedSet, named: g.rng.IntN(len(namedSets))}
	}
	for {
		k := g.leafKind()
		if elem && k == fFlag {
			continue
		}
		return &ftype{kind: k}
	}
}

func (g *tgen) structType(depth, nfields int) *ftype {
	t := &ftype{kind: fStruct}
	for i := 0; i < nfields; i++ {
		var f *ffield
		for try := 0; ; try++ {
			f = g.field(depth, fmt.Sprintf("F%d", i), try >= 4)
			if !ambiguous(t.fields, f) {
				break
			}
			if try >= 4 {
				// give it a context tag no earlier field of this struct uses
				used := map[int]bool{}
				for _, p := range t.fields {
					if p.tag >= 0 {
						used[p.tag] = true
					}
				}
				n := 41
				for used[n] {
					n++
				}
				f.tag, f.class, f.explicit = n, clsCtx, f.typ.kind != fRaw
				if f.typ.kind == fRaw {
					f.rawClass, f.rawTag = 2, n
				}
				g.normalise(f)
				if !ambiguous(t.fields, f) {
					break
				}
			}
		}
		t.fields = append(t.fields, f)
	}
	// Shared with Go's encoding/asn1: when an optional explicitly tagged field is absent and the next
	// element is empty and the last one of the enclosing SEQUENCE, Unmarshal fails with "explicit tag has
	// no child" before it compares the tag. Such a field is therefore only generated when a mandatory,
	// never-empty field follows it; otherwise it becomes implicit or mandatory.
	for i := len(t.fields) - 1; i >= 0; i-- {
		f := t.fields[i]
		if !(f.optional && f.tag >= 0 && f.explicit) {
			continue
		}
		ok := false
		for _, later := range t.fields[i+1:] {
			if neverEmpty(later) {
				ok = true
				break
			}
		}
		if ok {
			continue
		}
		if g.rng.IntN(2) == 0 {
			f.explicit = false
		} else {
			f.optional, f.hasDefault, f.omitempty = false, false, false
		}
	}
	return t
}

// neverEmpty: the field is always present and its element always has content.
func neverEmpty(f *ffield) bool {
	if f.optional {
		return false
	}
	if f.tag >= 0 && f.explicit {
		return true
	}
	switch f.typ.kind {
	case fInt, fInt32, fInt64, fBigInt, fBool, fOID, fBitString, fTime, fEnum:
		return true
	}
	return false
}

func (g *tgen) field(depth int, name string, plain bool) *ffield {
	f := &ffield{name: name, typ: g.typ(depth, false), tag: -1}
	rng := g.rng
	k := f.typ.kind
	if rng.IntN(100) < 30 {
		f.optional = true
	}
	if !plain && rng.IntN(100) < 45 {
		f.tag = pick(rng, tagMenu)
		switch r := rng.IntN(100); {
		case r < 15:
			f.class = clsApp
		case r < 30:
			f.class = clsPriv
		}
		f.explicit = rng.IntN(100) < 40
	}
	switch k {
	case fInt, fInt32, fInt64, fEnum:
		if f.optional && rng.IntN(100) < 40 {
			f.hasDefault = true
			f.def = pick(rng, []int64{0, 1, 2, -1, 5, 127, 128, -128, -129, 255, 65535, 1<<31 - 1, -1 << 31})
		}
	case fString:
		if rng.IntN(2) == 0 {
			f.strType = pick(rng, []string{"ia5", "printable", "numeric", "utf8"})
		}
	case fTime:
		if rng.IntN(2) == 0 {
			f.timeType = pick(rng, []string{"utc", "generalized"})
		}
	case fStruct, fSlice:
		f.set = rng.IntN(100) < 20
	}
	if (k == fSlice || k == fNamedSet || k == fBytes) && f.optional && rng.IntN(100) < 35 {
		f.omitempty = true
	}
	if k == fRaw {
		f.rawClass = rng.IntN(4)
		f.rawTag = pick(rng, []int{0, 1, 2, 4, 5, 6, 12, 16, 17, 19, 30, 31, 32, 127, 128, 16383, 16384, 1<<31 - 1})
		f.rawCompound = rng.IntN(2) == 0
	}
	g.normalise(f)
	return f
}

// normalise removes the combinations that the package documents as unsupported or
// that Go's encoding/asn1 treats the same way (see the notes of the C18 engine).
func (g *tgen) normalise(f *ffield) {
	k := f.typ.kind
	if f.tag >= 0 && f.explicit && f.class == clsPriv {
		// Unmarshal expects a context-specific class for "explicit" unless "application" is given
		f.class = clsCtx
	}
	if k == fRaw {
		// Marshal emits a RawValue as it is and ignores tag parameters; Unmarshal checks them:
		// the value must carry the identifier itself, and explicit wrapping is not generated.
		f.explicit = false
		if f.tag >= 0 {
			f.rawClass, f.rawTag = f.wireClass(), f.tag
		} else if f.optional {
			// an untagged optional RawValue accepts any element: it needs a tag to be unambiguous
			f.tag, f.class = pick(g.rng, tagMenu), clsCtx
			f.rawClass, f.rawTag = 2, f.tag
		}
	}
	if f.hasDefault {
		switch k {
		case fInt32, fEnum:
			if f.def > 1<<31-1 || f.def < -1<<31 {
				f.def = 7
			}
		}
	}
	if f.omitempty && !f.optional {
		f.omitempty = false
	}
}

// ---- values -------------------------------------------------------------------------

type val struct {
	i      int64
	big    *big.Int
	b      bool
	s      string
	bytes  []byte
	isNil  bool // nil slice / nil OID / nil *big.Int
	oid    []int
	bitLen int
	t      time.Time
	raw    struct {
		class, tag int
		compound   bool
		full       bool
	}
	fields []*val
	elems  []*val
	zero   bool // struct: the zero value
}

type vgen struct {
	rng *rand.Rand
}

func (g *vgen) int64v() int64 {
	rng := g.rng
	switch rng.IntN(4) {
	case 0:
		return int64(rng.IntN(300)) - 150
	case 1:
		k := uint(rng.IntN(64))
		v := int64(1)<<k + int64(rng.IntN(3)) - 1
		if rng.IntN(2) == 0 {
			v = -v
		}
		return v
	case 2:
		return pick(rng, []int64{0, -1, 127, 128, -128, -129, 255, 256, 32767, 32768, -32768, -32769, 1<<31 - 1, 1 << 31, -1 << 31, -1<<31 - 1, 1<<63 - 1, -1 << 63})
	}
	return int64(rng.Uint64())
}

func (g *vgen) length() int {
	switch g.rng.IntN(10) {
	case 0:
		return 0
	case 1:
		return pick(g.rng, []int{1, 126, 127, 128, 129, 255, 256, 257})
	}
	return g.rng.IntN(12)
}

const printableAlphabet = "abcdefghijklmnopqrstuvwxyzABCDEFGHIJKLMNOPQRSTUVWXYZ0123456789 '()+,-./:=?"

func (g *vgen) str(f *ffield) string {
	n := g.length()
	rng := g.rng
	var sb strings.Builder
	alphabet := ""
	st := ""
	implicit := false
	if f != nil {
		st = f.strType
		implicit = f.tag >= 0 && !f.explicit
	}
	switch st {
	case "numeric":
		alphabet = "0123456789 "
	case "printable":
		alphabet = printableAlphabet + "*"
	case "ia5":
		for i := 0; i < n; i++ {
			sb.WriteByte(byte(rng.IntN(128)))
		}
		return sb.String()
	case "utf8":
	default:
		if implicit {
			// implicitly tagged string without a string type: Unmarshal assumes PrintableString (documented)
			alphabet = printableAlphabet
		}
	}
	if alphabet != "" {
		for i := 0; i < n; i++ {
			sb.WriteByte(alphabet[rng.IntN(len(alphabet))])
		}
		return sb.String()
	}
	// any valid UTF-8; half of the time printable-only so that the PrintableString choice is exercised
	if rng.IntN(2) == 0 {
		for i := 0; i < n; i++ {
			sb.WriteByte(printableAlphabet[rng.IntN(len(printableAlphabet))])
		}
		return sb.String()
	}
	for sb.Len() < n {
		r := pick(rng, []rune{'a', 'Z', '0', '*', '&', '@', '_', 0, 0x7f, 0x80, 0xe9, 0x7ff, 0x800, 0x20ac, 0xfffd, 0x10000, 0x10ffff, rune(rng.IntN(0xd800))})
		if !utf8.ValidRune(r) {
			r = 'x'
		}
		sb.WriteRune(r)
	}
	return sb.String()
}

func (g *vgen) bigv() *big.Int {
	rng := g.rng
	switch rng.IntN(4) {
	case 0:
		return big.NewInt(g.int64v())
	case 1:
		k := uint(8*rng.IntN(40) + rng.IntN(2)*7)
		v := new(big.Int).Lsh(big.NewInt(1), k)
		v.Add(v, big.NewInt(int64(rng.IntN(3))-1))
		if rng.IntN(2) == 0 {
			v.Neg(v)
		}
		return v
	}
	n := 1 + rng.IntN(40)
	if rng.IntN(6) == 0 {
		n = pick(rng, []int{126, 127, 128, 129, 255, 256, 257})
	}
	b := make([]byte, n)
	for i := range b {
		b[i] = byte(rng.Uint32())
	}
	v := new(big.Int).SetBytes(b)
	if rng.IntN(2) == 0 {
		v.Neg(v)
	}
	return v
}

func (g *vgen) oid() []int {
	rng := g.rng
	n := 2 + rng.IntN(8)
	oid := make([]int, n)
	oid[0] = rng.IntN(3)
	if oid[0] < 2 {
		oid[1] = rng.IntN(40)
	} else {
		oid[1] = pick(rng, []int{0, 39, 40, 47, 48, 100, 999, 1<<31 - 1 - 80})
	}
	for i := 2; i < n; i++ {
		switch rng.IntN(8) {
		case 0:
			oid[i] = pick(rng, []int{0, 127, 128, 16383, 16384, 2097151, 2097152, 1<<28 - 1, 1 << 28, 1<<31 - 1})
		case 1:
			oid[i] = rng.IntN(1 << 31)
		default:
			oid[i] = rng.IntN(20000)
		}
	}
	return oid
}

// timev: whole seconds; the year range depends on how the field is tagged.
func (g *vgen) timev(f *ffield) time.Time {
	rng := g.rng
	lo, hi := 0, 9999
	if f != nil {
		implicit := f.tag >= 0 && !f.explicit
		switch {
		case implicit && f.timeType != "generalized":
			// with an implicit tag the decoder cannot see which time type was written and
			// assumes UTCTime (same in Go): only UTCTime-representable values are in the domain
			lo, hi = 1950, 2049
		case f.timeType == "utc" && rng.IntN(10) > 0:
			lo, hi = 1950, 2049
		}
	}
	var year int
	switch rng.IntN(3) {
	case 0:
		year = pick(rng, []int{0, 1, 99, 100, 999, 1000, 1949, 1950, 1951, 1968, 1969, 1970, 1999, 2000, 2038, 2049, 2050, 2051, 9999})
		if year < lo || year > hi {
			year = pick(rng, []int{1950, 1969, 1999, 2000, 2049})
		}
	default:
		year = lo + rng.IntN(hi-lo+1)
	}
	loc := time.UTC
	if rng.IntN(8) == 0 {
		// A zone with offset 0 other than time.UTC is never used: it is written as "Z" and read back as UTC,
		// and for the instant 0001-01-01T00:00:00Z that turns a value that is not the Go zero value into the
		// zero value, which 'optional' elides on the second Marshal (documented elision, same in Go).
		if off := (rng.IntN(28*60) - 14*60) * 60; off != 0 {
			loc = time.FixedZone("", off)
		}
	}
	var t time.Time
	switch rng.IntN(6) {
	case 0:
		t = time.Date(year, 12, 31, 23, 59, 59, 0, loc)
	case 1:
		t = time.Date(year, 1, 1, 0, 0, 0, 0, loc)
	default:
		t = time.Date(year, time.Month(1+rng.IntN(12)), 1+rng.IntN(28), rng.IntN(24), rng.IntN(60), rng.IntN(60), 0, loc)
	}
	if y := t.Year(); y < lo || y > hi {
		t = time.Date(lo, 6, 15, 12, 0, 0, 0, time.UTC)
	}
	if _, off := t.Zone(); off == 0 && t.Equal(time.Time{}) {
		t = time.Time{} // the zero instant exists only as the Go zero value
	}
	return t
}

// rawBytes: primitive content is arbitrary; constructed content is a sequence of well-formed TLVs.
func (g *vgen) rawBytes(compound bool) []byte {
	rng := g.rng
	if !compound {
		b := make([]byte, g.length())
		for i := range b {
			b[i] = byte(rng.Uint32())
		}
		return b
	}
	var out []byte
	for i := rng.IntN(3); i > 0; i-- {
		c := make([]byte, rng.IntN(6))
		for j := range c {
			c[j] = byte(rng.Uint32())
		}
		out = append(out, refTLV(pick(rng, []byte{0x02, 0x04, 0x05, 0x0c, 0x80, 0x81}), c)...)
	}
	return out
}

func (g *vgen) value(t *ftype, f *ffield) *val {
	rng := g.rng
	v := &val{}
	optional := f != nil && f.optional
	switch t.kind {
	case fInt, fInt64:
		v.i = g.int64v()
		if f != nil && f.hasDefault && rng.IntN(3) == 0 {
			v.i = f.def
		}
	case fInt32, fEnum:
		v.i = g.int64v()
		if v.i > 1<<31-1 || v.i < -1<<31 {
			// Enumerated is decoded through parseInt32 (as in Go): its domain is 32 bits
			v.i = int64(int32(v.i))
		}
		if f != nil && f.hasDefault && rng.IntN(3) == 0 {
			v.i = f.def
		}
	case fBigInt:
		if optional && rng.IntN(5) == 0 {
			v.isNil = true
		} else {
			v.big = g.bigv()
		}
	case fBool:
		v.b = rng.IntN(2) == 0
	case fFlag:
		// "A Flag accepts any data and is set to true if present": false exists only as "absent"
		v.b = !optional || rng.IntN(2) == 0
	case fString:
		v.s = g.str(f)
	case fBytes:
		if rng.IntN(8) == 0 {
			v.isNil = true
		} else {
			v.bytes = make([]byte, g.length())
			for i := range v.bytes {
				v.bytes[i] = byte(rng.Uint32())
			}
			if len(v.bytes) == 0 && f != nil && f.omitempty {
				// an empty non-nil slice under omitempty is written as "absent" and comes back nil, which can
				// flip an enclosing optional struct to its zero value (same in Go): the nil form is used
				v.isNil = true
			}
		}
	case fOID:
		if optional && rng.IntN(5) == 0 {
			v.isNil = true
		} else {
			v.oid = g.oid()
		}
	case fBitString:
		n := g.length()
		v.bytes = make([]byte, n)
		for i := range v.bytes {
			v.bytes[i] = byte(rng.Uint32())
		}
		pad := 0
		if n > 0 {
			pad = rng.IntN(8)
			v.bytes[n-1] &^= 1<<uint(pad) - 1
		}
		v.bitLen = 8*n - pad
	case fTime:
		v.t = g.timev(f)
		if optional && rng.IntN(6) == 0 {
			v.t, v.zero = time.Time{}, true // the zero time: "absent"
		}
	case fRaw:
		if f != nil {
			v.raw.class, v.raw.tag, v.raw.compound = f.rawClass, f.rawTag, f.rawCompound
			if optional && rng.IntN(5) == 0 {
				v.zero = true
			}
		} else { // slice element: any identifier
			v.raw.class = rng.IntN(4)
			v.raw.tag = pick(rng, []int{0, 1, 2, 4, 16, 17, 30, 31, 32, 127, 128, 16384, 1<<31 - 1})
			v.raw.compound = rng.IntN(2) == 0
		}
		v.bytes = g.rawBytes(v.raw.compound)
		v.raw.full = rng.IntN(4) == 0
	case fStruct:
		if optional && rng.IntN(5) == 0 {
			v.zero = true
			break
		}
		for _, sf := range t.fields {
			v.fields = append(v.fields, g.value(sf.typ, sf))
		}
	case fSlice, fNamedSet:
		elem := t.elem
		if t.kind == fNamedSet {
			elem = namedSets[t.named].elem
		}
		switch r := rng.IntN(16); {
		case r == 0:
			v.isNil = true
		case r == 1:
			if f != nil && f.omitempty {
				v.isNil = true // see fBytes
			}
		case r < 6:
			v.elems = []*val{g.value(elem, nil)}
		default:
			for n := 2 + rng.IntN(4); n > 0; n-- {
				v.elems = append(v.elems, g.value(elem, nil))
			}
			if rng.IntN(4) == 0 { // duplicates matter for SET OF ordering
				v.elems = append(v.elems, v.elems[0])
			}
		}
	}
	return v
}

// mkValue materialises v as a Go value of t in the given flavour.
func mkValue(t *ftype, v *val, fl int) reflect.Value {
	rt := t.goType(fl)
	out := reflect.New(rt).Elem()
	switch t.kind {
	case fInt, fInt32, fInt64, fEnum:
		out.SetInt(v.i)
	case fBigInt:
		if !v.isNil {
			out.Set(reflect.ValueOf(new(big.Int).Set(v.big)))
		}
	case fBool, fFlag:
		out.SetBool(v.b)
	case fString:
		out.SetString(v.s)
	case fBytes:
		if !v.isNil {
			out.SetBytes(append([]byte{}, v.bytes...))
		}
	case fOID:
		if !v.isNil {
			s := reflect.MakeSlice(rt, len(v.oid), len(v.oid))
			for i, a := range v.oid {
				s.Index(i).SetInt(int64(a))
			}
			out.Set(s)
		}
	case fBitString:
		out.FieldByName("Bytes").SetBytes(append([]byte{}, v.bytes...))
		out.FieldByName("BitLength").SetInt(int64(v.bitLen))
	case fTime:
		out.Set(reflect.ValueOf(v.t))
	case fRaw:
		if v.zero {
			break
		}
		out.FieldByName("Class").SetInt(int64(v.raw.class))
		out.FieldByName("Tag").SetInt(int64(v.raw.tag))
		out.FieldByName("IsCompound").SetBool(v.raw.compound)
		out.FieldByName("Bytes").SetBytes(append([]byte{}, v.bytes...))
		if v.raw.full {
			out.FieldByName("FullBytes").SetBytes(refRawTLV(v.raw.class, v.raw.tag, v.raw.compound, v.bytes))
		}
	case fStruct:
		if v.zero {
			break
		}
		for i, sf := range t.fields {
			out.Field(i).Set(mkValue(sf.typ, v.fields[i], fl))
		}
	case fSlice, fNamedSet:
		if v.isNil {
			break
		}
		elem := t.elem
		if t.kind == fNamedSet {
			elem = namedSets[t.named].elem
		}
		s := reflect.MakeSlice(rt, len(v.elems), len(v.elems))
		for i, e := range v.elems {
			s.Index(i).Set(mkValue(elem, e, fl))
		}
		out.Set(s)
	}
	return out
}

// refRawTLV encodes identifier and length independently of the library (for FullBytes).
func refRawTLV(class, tag int, compound bool, content []byte) []byte {
	b := byte(class) << 6
	if compound {
		b |= 0x20
	}
	var out []byte
	if tag < 31 {
		out = append(out, b|byte(tag))
	} else {
		out = append(out, b|0x1f)
		out = append(out, refBase128(int64(tag))...)
	}
	out = append(out, derLen(len(content))...)
	return append(out, content...)
}

// ---- canonical form for comparison ---------------------------------------------------

// canon renders a value so that two values are equal under the property's
// equality iff their renderings are equal: times to the second as instants, SET OF
// as multisets, nil and empty slices identified, RawValue on Class/Tag/IsCompound/Bytes.
func canon(t *ftype, f *ffield, v reflect.Value) string {
	switch t.kind {
	case fInt, fInt32, fInt64, fEnum:
		return fmt.Sprint(v.Int())
	case fBigInt:
		if v.IsNil() {
			return "nil"
		}
		return v.Interface().(*big.Int).String()
	case fBool, fFlag:
		return fmt.Sprint(v.Bool())
	case fString:
		return fmt.Sprintf("%q", v.String())
	case fBytes:
		return "h'" + hx(v.Bytes()) + "'"
	case fOID:
		parts := make([]string, v.Len())
		for i := range parts {
			parts[i] = fmt.Sprint(v.Index(i).Int())
		}
		return "oid(" + strings.Join(parts, ".") + ")"
	case fBitString:
		return fmt.Sprintf("bits(%d,%s)", v.FieldByName("BitLength").Int(), hx(v.FieldByName("Bytes").Bytes()))
	case fTime:
		tm := v.Interface().(time.Time)
		return fmt.Sprintf("time(%d)", tm.Unix())
	case fRaw:
		return fmt.Sprintf("raw(%d,%d,%v,%s)", v.FieldByName("Class").Int(), v.FieldByName("Tag").Int(), v.FieldByName("IsCompound").Bool(), hx(v.FieldByName("Bytes").Bytes()))
	case fStruct:
		parts := make([]string, len(t.fields))
		for i, sf := range t.fields {
			parts[i] = canon(sf.typ, sf, v.Field(i))
		}
		return "{" + strings.Join(parts, " ") + "}"
	case fSlice, fNamedSet:
		elem := t.elem
		isSet := t.kind == fNamedSet || f != nil && f.set
		if t.kind == fNamedSet {
			elem = namedSets[t.named].elem
		}
		parts := make([]string, v.Len())
		for i := range parts {
			parts[i] = canon(elem, nil, v.Index(i))
		}
		if isSet {
			sort.Strings(parts)
			return "set[" + strings.Join(parts, " ") + "]"
		}
		return "[" + strings.Join(parts, " ") + "]"
	}
	return "?"
}
