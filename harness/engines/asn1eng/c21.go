package asn1eng

// C21 — cryptobyte builders and readers are exact inverses.
//
// A random write program (tree of Builder calls) is executed on zcrypto's
// cryptobyte.Builder; the mirrored read program then runs on cryptobyte.String.
// Oracle, from the statement: every read succeeds, returns the written value and
// leaves exactly the bytes that were written after the element; an optional
// reader consumes an element only when its tag is present, otherwise it leaves
// the input untouched and returns the default. The optional readers are probed
// (on copies of the String) at element positions with the present tag and with
// an absent tag, with further elements following.

import (
	"bytes"
	"fmt"
	"math/big"
	"math/rand/v2"
	"strings"
	"time"

	zcb "github.com/zmap/zcrypto/cryptobyte"
	zcbasn1 "github.com/zmap/zcrypto/cryptobyte/asn1"
	zasn1 "github.com/zmap/zcrypto/encoding/asn1"

	"verifharness/internal/core"
)

func init() {
	core.RegisterMeta("C21", core.Meta{
		Rule: "random write programs (1..12 top-level operations, up to 5 builder levels) over AddUint8/16/24/32, AddBytes, AddUint{8,16,24,32}LengthPrefixed, AddASN1Int64/Uint64/BigInt/Enum/Int64WithTag/Boolean/ObjectIdentifier/OctetString/BitString/GeneralizedTime/NULL, AddASN1(tag){..}, MarshalASN1, Unwrite, " +
			"on zero-value, NewBuilder(prefix) and NewFixedBuilder builders; payload and content lengths biased to 0/127/128/255/256/65535/65536 (rarely 2^24); mirrored read program with the matching String readers (reader variant chosen at random among the matching ones); " +
			"at element positions every optional reader is additionally run on a copy with the present tag (when the element has the reader's shape) and with an absent tag, with the following elements still in the String; " +
			"every 2..6 consecutive programs form a batch: all are built first (Bytes() results held as returned), then read back, then the byte slices readers handed out are re-checked; non-trivial = program whose build succeeded and whose mirrored read program was executed to the end or to the first divergence; distinct by hash of the program text",
		MinNontrivial:         12000,
		MinNontrivialThorough: 1000000,
		Shards:                16,
		GoMaxProcs:            2,
		Env:                   []string{"GOGC=400"},
		Assumptions: []string{
			"asn1.AllowPermissiveParsing is false (MarshalASN1 goes through encoding/asn1)",
			"element boundaries come from the Builder itself (length of the bytes written so far, observed before and after each call), not from a second encoder; an independent reference encoder is compared with the Builder output and disagreements are counted (ref_encoder_disagrees), not asserted",
			"OID arcs >= 2^28 are outside the reader's domain (readBase128Int reads at most 4 octets): such programs are counted (oid_arc_ge_2^28_refused_by_reader), not asserted",
			"GeneralizedTime values are whole seconds with whole-minute zone offsets, years 0..9999",
			"a Builder error is expected exactly when the program overflows a length prefix, uses a high-tag-number identifier, an invalid OID or a year outside 0..9999",
		},
	}, runC21)
}

const (
	kU8 = iota
	kU16
	kU24
	kU32
	kBytes
	kLP8
	kLP16
	kLP24
	kLP32
	kInt64
	kUint64
	kBigInt
	kEnum
	kInt64Tag
	kBool
	kOID
	kOctet
	kBitString
	kGenTime
	kNull
	kASN1
	kMarshal
	kJunk        // AddBytes(k) immediately rolled back with Unwrite(k): contributes nothing
	kOverUnwrite // Unwrite(one more than this builder holds): must be refused (panic), contributes nothing
	nKinds
)

var kindNames = [...]string{"U8", "U16", "U24", "U32", "BYTES", "LP8", "LP16", "LP24", "LP32", "INT64", "UINT64", "BIGINT", "ENUM", "INT64TAG",
	"BOOL", "OID", "OCTETS", "BITSTRING", "GENTIME", "NULL", "ASN1", "MARSHAL", "JUNK+UNWRITE", "OVER-UNWRITE"}

type op struct {
	kind  int
	u     uint32
	i64   int64
	u64   uint64
	big   *big.Int
	n     int // payload length (BYTES, OCTETS, BITSTRING, JUNK)
	salt  int
	extra int // BYTES: this many more bytes are written and then unwritten
	bv    bool
	oid   zasn1.ObjectIdentifier
	t     time.Time
	tag   byte
	kids  []*op
	mval  any
	mdesc string

	start, end, kidsLen int // observed at build time, relative to the content of the enclosing builder
}

func payload(n, salt int) []byte {
	b := make([]byte, n)
	for i := range b {
		b[i] = byte(i*7+salt) ^ byte(i>>8)
	}
	return b
}

func (o *op) String() string {
	switch o.kind {
	case kU8, kU16, kU24, kU32:
		return fmt.Sprintf("%s(%#x)", kindNames[o.kind], o.u)
	case kBytes:
		if o.extra > 0 {
			return fmt.Sprintf("BYTES(n=%d,salt=%d,+%d unwritten)", o.n, o.salt, o.extra)
		}
		return fmt.Sprintf("BYTES(n=%d,salt=%d)", o.n, o.salt)
	case kLP8, kLP16, kLP24, kLP32:
		return kindNames[o.kind] + "{" + progString(o.kids) + "}"
	case kInt64, kEnum:
		return fmt.Sprintf("%s(%d)", kindNames[o.kind], o.i64)
	case kUint64:
		return fmt.Sprintf("UINT64(%d)", o.u64)
	case kBigInt:
		return "BIGINT(" + o.big.String() + ")"
	case kInt64Tag:
		return fmt.Sprintf("INT64TAG(%d,tag=%#02x)", o.i64, o.tag)
	case kBool:
		return fmt.Sprintf("BOOL(%v)", o.bv)
	case kOID:
		return "OID(" + o.oid.String() + ")"
	case kOctet, kBitString, kJunk:
		return fmt.Sprintf("%s(n=%d,salt=%d)", kindNames[o.kind], o.n, o.salt)
	case kGenTime:
		return "GENTIME(" + o.t.Format("2006-01-02T15:04:05Z07:00") + fmt.Sprintf(",year=%d)", o.t.Year())
	case kNull:
		return "NULL"
	case kASN1:
		return fmt.Sprintf("ASN1(%#02x){%s}", o.tag, progString(o.kids))
	case kMarshal:
		return "MARSHAL(" + o.mdesc + ")"
	case kOverUnwrite:
		return "OVER-UNWRITE"
	}
	return "?"
}

func progString(ops []*op) string {
	parts := make([]string, len(ops))
	for i, o := range ops {
		parts[i] = o.String()
	}
	return strings.Join(parts, " ")
}

// ---- generator -------------------------------------------------------------------

type pgen struct {
	rng      *rand.Rand
	bigLeft  int
	hugeLeft int
	opsLeft  int
	badLeft  int // constructs that must make the Builder fail
}

func pick[T any](rng *rand.Rand, xs []T) T { return xs[rng.IntN(len(xs))] }

func (g *pgen) size(small bool) int {
	if g.hugeLeft > 0 && !small && g.rng.IntN(6) == 0 {
		g.hugeLeft--
		return pick(g.rng, []int{1<<24 - 6, 1<<24 - 5, 1<<24 - 4, 1<<24 - 1, 1 << 24, 1<<24 + 1})
	}
	r := g.rng.IntN(1000)
	switch {
	case small || r < 500:
		return g.rng.IntN(20)
	case r < 900:
		return pick(g.rng, []int{0, 1, 2, 100, 120, 121, 122, 123, 124, 125, 126, 127, 128, 129, 130, 200, 247, 248, 249, 250, 251, 252, 253, 254, 255, 256, 257, 258, 300})
	case r < 975:
		return 1000 + g.rng.IntN(3000)
	case r < 999:
		if g.bigLeft > 0 {
			g.bigLeft--
			return pick(g.rng, []int{65520, 65527, 65528, 65529, 65530, 65531, 65532, 65533, 65534, 65535, 65536, 65537, 70000})
		}
	}
	return 131
}

func (g *pgen) int64v() int64 {
	switch g.rng.IntN(4) {
	case 0:
		return int64(g.rng.IntN(300)) - 150
	case 1:
		k := uint(g.rng.IntN(64))
		v := int64(1) << k
		v += int64(g.rng.IntN(3)) - 1
		if g.rng.IntN(2) == 0 {
			v = -v
		}
		return v
	case 2:
		return pick(g.rng, []int64{0, -1, 127, 128, -128, -129, 255, 256, 32767, 32768, -32768, -32769, 1<<31 - 1, 1 << 31, -1 << 31, -1<<31 - 1, 1<<63 - 1, -1 << 63})
	}
	return int64(g.rng.Uint64())
}

func (g *pgen) bigv() *big.Int {
	switch g.rng.IntN(4) {
	case 0:
		return big.NewInt(g.int64v())
	case 1:
		k := uint(8*g.rng.IntN(40) + g.rng.IntN(2)*7)
		v := new(big.Int).Lsh(big.NewInt(1), k)
		v.Add(v, big.NewInt(int64(g.rng.IntN(3))-1))
		if g.rng.IntN(2) == 0 {
			v.Neg(v)
		}
		return v
	}
	n := 1 + g.rng.IntN(40)
	if g.rng.IntN(6) == 0 {
		n = pick(g.rng, []int{126, 127, 128, 129, 255, 256, 257})
	}
	b := make([]byte, n)
	for i := range b {
		b[i] = byte(g.rng.Uint32())
	}
	v := new(big.Int).SetBytes(b)
	if g.rng.IntN(2) == 0 {
		v.Neg(v)
	}
	return v
}

func (g *pgen) lowTag() byte {
	for {
		var t byte
		switch g.rng.IntN(4) {
		case 0:
			t = pick(g.rng, []byte{0x30, 0x31, 0x04, 0x02, 0x0c, 0x13, 0x03, 0x06})
		case 1:
			t = 0xa0 | byte(g.rng.IntN(31))
		case 2:
			t = 0x80 | byte(g.rng.IntN(31))
		default:
			t = byte(g.rng.Uint32())
		}
		if t&0x1f != 0x1f {
			return t
		}
	}
}

func (g *pgen) oidv() (zasn1.ObjectIdentifier, bool) {
	n := 2 + g.rng.IntN(8)
	oid := make(zasn1.ObjectIdentifier, n)
	oid[0] = g.rng.IntN(3)
	if oid[0] < 2 {
		oid[1] = g.rng.IntN(40)
	} else {
		oid[1] = pick(g.rng, []int{0, 39, 40, 47, 48, 100, 999, 1<<28 - 81})
	}
	large := false
	for i := 2; i < n; i++ {
		switch g.rng.IntN(8) {
		case 0:
			oid[i] = pick(g.rng, []int{0, 127, 128, 16383, 16384, 2097151, 2097152, 1<<28 - 1})
		case 1:
			oid[i] = g.rng.IntN(1 << 28)
		default:
			oid[i] = g.rng.IntN(20000)
		}
	}
	if n > 2 && g.rng.IntN(60) == 0 { // beyond the reader's four-octet sub-identifiers: counted only
		oid[2+g.rng.IntN(n-2)] = 1<<28 + g.rng.IntN(1<<20)
		large = true
	}
	return oid, large
}

func (g *pgen) timev() time.Time {
	year := g.rng.IntN(10000)
	if g.rng.IntN(3) == 0 {
		year = pick(g.rng, []int{0, 1, 99, 100, 999, 1000, 1949, 1950, 1969, 1970, 1999, 2000, 2038, 2049, 2050, 9999})
	}
	loc := time.UTC
	if g.rng.IntN(4) == 0 {
		off := (g.rng.IntN(28*60) - 14*60) * 60
		loc = time.FixedZone("", off)
	}
	mon := 1 + g.rng.IntN(12)
	day := 1 + g.rng.IntN(28)
	t := time.Date(year, time.Month(mon), day, g.rng.IntN(24), g.rng.IntN(60), g.rng.IntN(60), 0, loc)
	if t.Year() < 0 || t.Year() > 9999 {
		t = time.Date(2000, 1, 1, 0, 0, 0, 0, time.UTC)
	}
	return t
}

type mStruct struct {
	A int
	B string
	C []byte `asn1:"optional"`
}

func (g *pgen) marshalv() (any, string) {
	switch g.rng.IntN(6) {
	case 0:
		v := int(g.int64v())
		return v, fmt.Sprintf("int %d", v)
	case 1:
		s := pick(g.rng, []string{"", "abc", "hello world", "üñí", strings.Repeat("x", 127), strings.Repeat("y", 128)})
		return s, fmt.Sprintf("string %q", s)
	case 2:
		b := payload(g.size(true), g.rng.IntN(256))
		return b, fmt.Sprintf("[]byte len %d", len(b))
	case 3:
		v := mStruct{A: int(g.int64v()), B: pick(g.rng, []string{"", "a", "test"}), C: payload(g.rng.IntN(4), 1)}
		return v, fmt.Sprintf("struct{%d,%q,%x}", v.A, v.B, v.C)
	case 4:
		return zasn1.ObjectIdentifier{1, 2, 840, 113549, 1, 1, 11}, "oid 1.2.840.113549.1.1.11"
	}
	v := g.rng.IntN(2) == 0
	return v, fmt.Sprintf("bool %v", v)
}

// ops generates the operations of one builder level. small keeps the content
// under the limit of a one-byte length prefix most of the time.
func (g *pgen) ops(depth, maxOps int, small bool) []*op {
	n := 1 + g.rng.IntN(maxOps)
	if depth > 0 && g.rng.IntN(6) == 0 {
		n = 0
	}
	var out []*op
	for i := 0; i < n && g.opsLeft > 0; i++ {
		g.opsLeft--
		out = append(out, g.one(depth, small))
	}
	return out
}

func (g *pgen) one(depth int, small bool) *op {
	r := g.rng.IntN(100)
	nestOK := depth < 4
	switch {
	case r < 4:
		return &op{kind: kU8, u: g.rng.Uint32() & 0xff}
	case r < 7:
		return &op{kind: kU16, u: g.rng.Uint32() & 0xffff}
	case r < 10:
		return &op{kind: kU24, u: g.rng.Uint32() & 0xffffff}
	case r < 13:
		return &op{kind: kU32, u: g.rng.Uint32()}
	case r < 20:
		o := &op{kind: kBytes, n: g.size(small), salt: g.rng.IntN(256)}
		if g.rng.IntN(5) == 0 {
			o.extra = 1 + g.rng.IntN(8)
		}
		return o
	case r < 32 && nestOK:
		kind := pick(g.rng, []int{kLP8, kLP8, kLP16, kLP16, kLP24, kLP32})
		return &op{kind: kind, kids: g.ops(depth+1, 4, small || kind == kLP8)}
	case r < 38:
		return &op{kind: kInt64, i64: g.int64v()}
	case r < 42:
		v := uint64(g.int64v())
		if g.rng.IntN(2) == 0 {
			v &= 1<<63 - 1
		}
		return &op{kind: kUint64, u64: v}
	case r < 47:
		return &op{kind: kBigInt, big: g.bigv()}
	case r < 50:
		return &op{kind: kEnum, i64: g.int64v()}
	case r < 54:
		return &op{kind: kInt64Tag, i64: g.int64v(), tag: g.lowTag() &^ 0x20}
	case r < 61:
		return &op{kind: kBool, bv: g.rng.IntN(2) == 0}
	case r < 65:
		o := &op{kind: kOID}
		var large bool
		o.oid, large = g.oidv()
		if large {
			o.u = 1
		}
		return o
	case r < 71:
		return &op{kind: kOctet, n: g.size(small), salt: g.rng.IntN(256)}
	case r < 75:
		return &op{kind: kBitString, n: g.size(small), salt: g.rng.IntN(256)}
	case r < 78:
		return &op{kind: kGenTime, t: g.timev()}
	case r < 81:
		return &op{kind: kNull}
	case r < 92 && nestOK:
		o := &op{kind: kASN1, tag: g.lowTag()}
		switch g.rng.IntN(5) {
		case 0: // the shape ReadOptionalASN1Integer expects: tag { INTEGER }
			o.tag = 0xa0 | byte(g.rng.IntN(31))
			g.opsLeft--
			switch g.rng.IntN(3) {
			case 0:
				o.kids = []*op{{kind: kInt64, i64: g.int64v()}}
			case 1:
				o.kids = []*op{{kind: kUint64, u64: uint64(g.int64v()) & (1<<63 - 1)}}
			default:
				o.kids = []*op{{kind: kBigInt, big: g.bigv()}}
			}
		case 1: // the shape ReadOptionalASN1OctetString expects: tag { OCTET STRING }
			o.tag = 0xa0 | byte(g.rng.IntN(31))
			g.opsLeft--
			o.kids = []*op{{kind: kOctet, n: g.size(small), salt: g.rng.IntN(256)}}
		default:
			o.kids = g.ops(depth+1, 5, small)
		}
		return o
	case r < 95:
		o := &op{kind: kMarshal}
		o.mval, o.mdesc = g.marshalv()
		return o
	case r < 97:
		return &op{kind: kJunk, n: 1 + g.rng.IntN(32), salt: g.rng.IntN(256)}
	case r < 98:
		return &op{kind: kOverUnwrite}
	default:
		if g.badLeft > 0 && g.rng.IntN(8) == 0 {
			g.badLeft--
			switch g.rng.IntN(4) {
			case 0:
				return &op{kind: kASN1, tag: 0x1f | byte(g.rng.IntN(8))<<5, kids: []*op{{kind: kU8, u: 1}}}
			case 1:
				return &op{kind: kOID, oid: pick(g.rng, []zasn1.ObjectIdentifier{{1}, {3, 1}, {1, 40}, {0, 40, 1}, {1, 2, -1}, {}})}
			case 2:
				return &op{kind: kGenTime, t: time.Date(pick(g.rng, []int{-1, 10000, 12345}), 1, 1, 0, 0, 0, 0, time.UTC)}
			default:
				return &op{kind: kLP8, kids: []*op{{kind: kBytes, n: 256 + g.rng.IntN(3), salt: 1}}}
			}
		}
		return &op{kind: kBool, bv: true}
	}
}

// ---- reference encoder (sizes, expected Builder errors, differential) -------------

func derLen(n int) []byte {
	switch {
	case n < 0x80:
		return []byte{byte(n)}
	case n <= 0xff:
		return []byte{0x81, byte(n)}
	case n <= 0xffff:
		return []byte{0x82, byte(n >> 8), byte(n)}
	case n <= 0xffffff:
		return []byte{0x83, byte(n >> 16), byte(n >> 8), byte(n)}
	}
	return []byte{0x84, byte(n >> 24), byte(n >> 16), byte(n >> 8), byte(n)}
}

func refTLV(tag byte, content []byte) []byte {
	out := append([]byte{tag}, derLen(len(content))...)
	return append(out, content...)
}

func refInt(v *big.Int) []byte {
	if v.Sign() == 0 {
		return []byte{0}
	}
	if v.Sign() > 0 {
		b := v.Bytes()
		if b[0]&0x80 != 0 {
			b = append([]byte{0}, b...)
		}
		return b
	}
	// two's complement of a negative number: smallest n with -2^(8n-1) <= v
	n := 1
	for {
		lim := new(big.Int).Lsh(big.NewInt(1), uint(8*n-1))
		lim.Neg(lim)
		if v.Cmp(lim) >= 0 {
			break
		}
		n++
	}
	mod := new(big.Int).Lsh(big.NewInt(1), uint(8*n))
	b := new(big.Int).Add(mod, v).Bytes()
	for len(b) < n {
		b = append([]byte{0xff}, b...)
	}
	return b
}

func refBase128(v int64) []byte {
	var out []byte
	out = append(out, byte(v&0x7f))
	for v >>= 7; v > 0; v >>= 7 {
		out = append([]byte{byte(v&0x7f) | 0x80}, out...)
	}
	return out
}

// refEncode returns the expected bytes and, if the program contains a construct
// the Builder must refuse, its name.
func refEncode(ops []*op) (out []byte, bad string) {
	for _, o := range ops {
		switch o.kind {
		case kU8:
			out = append(out, byte(o.u))
		case kU16:
			out = append(out, byte(o.u>>8), byte(o.u))
		case kU24:
			out = append(out, byte(o.u>>16), byte(o.u>>8), byte(o.u))
		case kU32:
			out = append(out, byte(o.u>>24), byte(o.u>>16), byte(o.u>>8), byte(o.u))
		case kBytes:
			out = append(out, payload(o.n, o.salt)...)
		case kLP8, kLP16, kLP24, kLP32:
			w := o.kind - kLP8 + 1
			c, b := refEncode(o.kids)
			if b != "" && bad == "" {
				bad = b
			}
			if w < 4 && len(c) >= 1<<(8*w) && bad == "" {
				bad = "length-prefix-overflow"
			}
			for i := w - 1; i >= 0; i-- {
				out = append(out, byte(len(c)>>(8*i)))
			}
			out = append(out, c...)
		case kInt64:
			out = append(out, refTLV(0x02, refInt(big.NewInt(o.i64)))...)
		case kEnum:
			out = append(out, refTLV(0x0a, refInt(big.NewInt(o.i64)))...)
		case kInt64Tag:
			out = append(out, refTLV(o.tag, refInt(big.NewInt(o.i64)))...)
		case kUint64:
			out = append(out, refTLV(0x02, refInt(new(big.Int).SetUint64(o.u64)))...)
		case kBigInt:
			out = append(out, refTLV(0x02, refInt(o.big))...)
		case kBool:
			v := byte(0)
			if o.bv {
				v = 0xff
			}
			out = append(out, 0x01, 0x01, v)
		case kOID:
			oid := o.oid
			ok := len(oid) >= 2 && oid[0] >= 0 && oid[0] <= 2 && oid[1] >= 0 && (oid[0] == 2 || oid[1] < 40)
			for _, v := range oid {
				if v < 0 {
					ok = false
				}
			}
			if !ok {
				if bad == "" {
					bad = "invalid-oid"
				}
				continue
			}
			c := refBase128(int64(oid[0])*40 + int64(oid[1]))
			for _, v := range oid[2:] {
				c = append(c, refBase128(int64(v))...)
			}
			out = append(out, refTLV(0x06, c)...)
		case kOctet:
			out = append(out, refTLV(0x04, payload(o.n, o.salt))...)
		case kBitString:
			out = append(out, refTLV(0x03, append([]byte{0}, payload(o.n, o.salt)...))...)
		case kGenTime:
			if o.t.Year() < 0 || o.t.Year() > 9999 {
				if bad == "" {
					bad = "generalizedtime-year-out-of-range"
				}
				continue
			}
			s := fmt.Sprintf("%04d%02d%02d%02d%02d%02d", o.t.Year(), int(o.t.Month()), o.t.Day(), o.t.Hour(), o.t.Minute(), o.t.Second())
			_, off := o.t.Zone()
			if off == 0 {
				s += "Z"
			} else {
				sign := "+"
				if off < 0 {
					sign, off = "-", -off
				}
				s += fmt.Sprintf("%s%02d%02d", sign, off/3600, off/60%60)
			}
			out = append(out, refTLV(0x18, []byte(s))...)
		case kNull:
			out = append(out, 0x05, 0x00)
		case kASN1:
			c, b := refEncode(o.kids)
			if b != "" && bad == "" {
				bad = b
			}
			if o.tag&0x1f == 0x1f && bad == "" {
				bad = "high-tag-number"
			}
			out = append(out, refTLV(o.tag, c)...)
		case kMarshal:
			m, err := zasn1.Marshal(o.mval)
			if err != nil && bad == "" {
				bad = "marshal-error"
			}
			out = append(out, m...)
		}
	}
	return
}

// ---- builder side ------------------------------------------------------------------

type buildState struct {
	failed        string // Bytes() of a builder under construction returned an error
	overUnwriteOK int
	overUnwriteNo int
}

func contentLen(b *zcb.Builder, pfx int, st *buildState) int {
	bs, err := b.Bytes()
	if err != nil {
		if st.failed == "" {
			st.failed = err.Error()
		}
		return -1
	}
	return len(bs) - pfx
}

// build executes ops on b. pfx is the number of length-prefix bytes that Bytes()
// of this (child) builder reports before its content.
func build(b *zcb.Builder, ops []*op, pfx int, top bool, st *buildState) {
	for _, o := range ops {
		o.start = contentLen(b, pfx, st)
		switch o.kind {
		case kU8:
			b.AddUint8(uint8(o.u))
		case kU16:
			b.AddUint16(uint16(o.u))
		case kU24:
			b.AddUint24(o.u)
		case kU32:
			b.AddUint32(o.u)
		case kBytes:
			if o.extra > 0 {
				b.AddBytes(append(payload(o.n, o.salt), payload(o.extra, o.salt+1)...))
				b.Unwrite(o.extra)
			} else {
				b.AddBytes(payload(o.n, o.salt))
			}
		case kLP8, kLP16, kLP24, kLP32:
			w := o.kind - kLP8 + 1
			f := func(c *zcb.Builder) {
				build(c, o.kids, w, false, st)
				o.kidsLen = contentLen(c, w, st)
			}
			switch w {
			case 1:
				b.AddUint8LengthPrefixed(f)
			case 2:
				b.AddUint16LengthPrefixed(f)
			case 3:
				b.AddUint24LengthPrefixed(f)
			default:
				b.AddUint32LengthPrefixed(f)
			}
		case kInt64:
			b.AddASN1Int64(o.i64)
		case kUint64:
			b.AddASN1Uint64(o.u64)
		case kBigInt:
			b.AddASN1BigInt(o.big)
		case kEnum:
			b.AddASN1Enum(o.i64)
		case kInt64Tag:
			b.AddASN1Int64WithTag(o.i64, zcbasn1.Tag(o.tag))
		case kBool:
			b.AddASN1Boolean(o.bv)
		case kOID:
			b.AddASN1ObjectIdentifier(o.oid)
		case kOctet:
			b.AddASN1OctetString(payload(o.n, o.salt))
		case kBitString:
			b.AddASN1BitString(payload(o.n, o.salt))
		case kGenTime:
			b.AddASN1GeneralizedTime(o.t)
		case kNull:
			b.AddASN1NULL()
		case kASN1:
			b.AddASN1(zcbasn1.Tag(o.tag), func(c *zcb.Builder) {
				build(c, o.kids, 1, false, st)
				o.kidsLen = contentLen(c, 1, st)
			})
		case kMarshal:
			b.MarshalASN1(o.mval)
		case kJunk:
			b.AddBytes(payload(o.n, o.salt))
			b.Unwrite(o.n)
		case kOverUnwrite:
			if o.start >= 0 {
				refused := false
				func() {
					defer func() {
						if recover() != nil {
							refused = true
						}
					}()
					n := o.start + 1
					if top {
						// a top-level builder owns the buffer it was given: the bytes it can roll back include the prefix
						n += pfx
					}
					b.Unwrite(n)
				}()
				if refused {
					st.overUnwriteOK++
				} else {
					st.overUnwriteNo++
				}
			}
		}
		o.end = contentLen(b, pfx, st)
	}
}

// ---- reader side -------------------------------------------------------------------

type c21 struct {
	c   *core.Ctx
	lim limiter
}

type progRun struct {
	k       *c21
	id      string
	text    string
	out     []byte
	rng     *rand.Rand
	stopped bool
	outside bool // stopped at a construct outside the reader's domain (large OID arc)
	probesP int
	probesA int

	// carried from the build phase to the (later) read phase
	ops     []*op
	held    []byte // the Builder's Bytes() result exactly as returned (not copied)
	snap    []byte // copy taken right after Bytes() returned
	prefix  int
	bad     string
	plain   string
	heldVal []heldValue
}

// heldValue is a slice a reader handed out; it must stay intact while other Strings are read.
type heldValue struct {
	reader string
	got    []byte
	n      int
	salt   int
}

func (p *progRun) hold(reader string, got []byte, o *op) {
	if len(p.heldVal) < 6 && len(got) > 0 && len(got) <= 70000 {
		p.heldVal = append(p.heldVal, heldValue{reader, got, o.n, o.salt})
	}
}

func (p *progRun) fail(key, format string, a ...any) {
	p.k.c.Count("divergences", 1)
	if !p.k.lim.first(key) {
		return
	}
	outHex := hx(p.out)
	if len(outHex) > 4000 {
		outHex = outHex[:4000] + fmt.Sprintf("…(%d bytes)", len(p.out))
	}
	txt := p.text
	if len(txt) > 3000 {
		txt = txt[:3000] + "…"
	}
	p.k.c.Violation(key, fmt.Sprintf(format, a...)+"\nprogram: "+txt+"\nbuilder output: "+outHex, p.id,
		map[string]any{"program": txt, "output_hex": outHex, "case": p.id})
}

func sameRemainder(s zcb.String, want []byte) bool { return bytes.Equal([]byte(s), want) }

// absentTag returns a low-tag-number identifier different from the next byte of s.
func (p *progRun) absentTag(s zcb.String) zcbasn1.Tag {
	for {
		t := byte(p.rng.Uint32())
		if p.rng.IntN(2) == 0 {
			t = 0xa0 | byte(p.rng.IntN(31))
		}
		if t&0x1f == 0x1f || t == 0x01 {
			continue
		}
		if len(s) > 0 && s[0] == t {
			continue
		}
		return zcbasn1.Tag(t)
	}
}

// probeAbsent runs every optional reader with a tag that is not at the head of s.
func (p *progRun) probeAbsent(s zcb.String) {
	p.probesA++
	tag := p.absentTag(s)
	orig := []byte(s)
	check := func(reader string, ok bool, cp zcb.String, present bool, defaultOK bool) {
		switch {
		case !ok:
			p.fail("optional-absent:"+reader+":returned-false", "%s with absent tag %#02x returned false on %s", reader, byte(tag), hx(head(orig)))
		case !sameRemainder(cp, orig):
			p.fail("optional-absent:"+reader+":input-changed", "%s with absent tag %#02x changed the String: before %s after %s", reader, byte(tag), hx(head(orig)), hx(head(cp)))
		case present:
			p.fail("optional-absent:"+reader+":reported-present", "%s with absent tag %#02x reported present on %s", reader, byte(tag), hx(head(orig)))
		case !defaultOK:
			p.fail("optional-absent:"+reader+":default-not-returned", "%s with absent tag %#02x did not return the default on %s", reader, byte(tag), hx(head(orig)))
		}
	}
	{
		cp := s
		var out zcb.String
		present := true
		ok := cp.ReadOptionalASN1(&out, &present, tag)
		check("ReadOptionalASN1", ok, cp, present, true)
	}
	{
		cp := s
		ok := cp.SkipOptionalASN1(tag)
		check("SkipOptionalASN1", ok, cp, false, true)
	}
	{
		cp := s
		v, def := int64(77), int64(-4242)
		ok := cp.ReadOptionalASN1Integer(&v, tag, def)
		check("ReadOptionalASN1Integer(*int64)", ok, cp, false, v == def)
	}
	{
		cp := s
		var v big.Int
		v.SetInt64(5)
		def := new(big.Int).Lsh(big.NewInt(3), 70)
		ok := cp.ReadOptionalASN1Integer(&v, tag, def)
		check("ReadOptionalASN1Integer(*big.Int)", ok, cp, false, v.Cmp(def) == 0)
	}
	{
		cp := s
		out := []byte{1}
		present := true
		ok := cp.ReadOptionalASN1OctetString(&out, &present, tag)
		check("ReadOptionalASN1OctetString", ok, cp, present, out == nil)
	}
	if len(s) == 0 || s[0] != 0x01 {
		for _, def := range []bool{false, true} {
			cp := s
			v := !def
			ok := cp.ReadOptionalASN1Boolean(&v, def)
			check("ReadOptionalASN1Boolean", ok, cp, false, v == def)
		}
	}
}

func head(b []byte) []byte {
	if len(b) > 24 {
		return b[:24]
	}
	return b
}

// probePresent runs the optional readers whose shape the element o has, with its own tag.
func (p *progRun) probePresent(s zcb.String, o *op, elemTag byte, rest []byte) {
	p.probesP++
	tag := zcbasn1.Tag(elemTag)
	{
		cp, ref := s, s
		var out, want zcb.String
		present := false
		ok := cp.ReadOptionalASN1(&out, &present, tag)
		rok := ref.ReadASN1(&want, tag)
		switch {
		case !ok:
			p.fail("optional-present:ReadOptionalASN1:returned-false", "ReadOptionalASN1(%#02x) failed on present element %s", elemTag, o)
		case !present:
			p.fail("optional-present:ReadOptionalASN1:reported-absent", "ReadOptionalASN1(%#02x) reported absent for present element %s", elemTag, o)
		case !sameRemainder(cp, rest):
			p.fail("optional-present:ReadOptionalASN1:remainder", "ReadOptionalASN1(%#02x) on %s left %s, written suffix is %s", elemTag, o, hx(head(cp)), hx(head(rest)))
		case rok && !bytes.Equal(out, want):
			p.fail("optional-present:ReadOptionalASN1:content", "ReadOptionalASN1(%#02x) on %s returned content %s, ReadASN1 returns %s", elemTag, o, hx(head(out)), hx(head(want)))
		}
	}
	{
		cp := s
		ok := cp.SkipOptionalASN1(tag)
		switch {
		case !ok:
			p.fail("optional-present:SkipOptionalASN1:returned-false", "SkipOptionalASN1(%#02x) failed on present element %s", elemTag, o)
		case !sameRemainder(cp, rest):
			p.fail("optional-present:SkipOptionalASN1:remainder", "SkipOptionalASN1(%#02x) on %s left %s, written suffix is %s", elemTag, o, hx(head(cp)), hx(head(rest)))
		}
	}
	if o.kind == kBool {
		cp := s
		v := !o.bv
		ok := cp.ReadOptionalASN1Boolean(&v, !o.bv)
		switch {
		case !ok:
			p.fail("optional-present:ReadOptionalASN1Boolean:returned-false", "ReadOptionalASN1Boolean failed on present element %s followed by %s", o, hx(head(rest)))
		case v != o.bv:
			p.fail("optional-present:ReadOptionalASN1Boolean:value", "ReadOptionalASN1Boolean returned %v for present element %s followed by %s", v, o, hx(head(rest)))
		case !sameRemainder(cp, rest):
			p.fail("optional-present:ReadOptionalASN1Boolean:remainder", "ReadOptionalASN1Boolean on %s left %s, written suffix is %s", o, hx(head(cp)), hx(head(rest)))
		}
	}
	if o.kind == kASN1 && len(o.kids) == 1 {
		kid := o.kids[0]
		switch kid.kind {
		case kInt64, kUint64, kBigInt:
			want := new(big.Int)
			switch kid.kind {
			case kInt64:
				want.SetInt64(kid.i64)
			case kUint64:
				want.SetUint64(kid.u64)
			default:
				want.Set(kid.big)
			}
			{
				cp := s
				var v big.Int
				ok := cp.ReadOptionalASN1Integer(&v, tag, big.NewInt(-99))
				p.checkOptInt("ReadOptionalASN1Integer(*big.Int)", ok, v.Cmp(want) == 0, cp, rest, o)
			}
			if want.IsInt64() {
				cp := s
				v := want.Int64() + 1
				ok := cp.ReadOptionalASN1Integer(&v, tag, want.Int64()+2)
				p.checkOptInt("ReadOptionalASN1Integer(*int64)", ok, v == want.Int64(), cp, rest, o)
			}
			if want.IsUint64() {
				cp := s
				v := want.Uint64() + 1
				ok := cp.ReadOptionalASN1Integer(&v, tag, want.Uint64()+2)
				p.checkOptInt("ReadOptionalASN1Integer(*uint64)", ok, v == want.Uint64(), cp, rest, o)
			}
		case kOctet:
			cp := s
			var out []byte
			present := false
			ok := cp.ReadOptionalASN1OctetString(&out, &present, tag)
			switch {
			case !ok:
				p.fail("optional-present:ReadOptionalASN1OctetString:returned-false", "failed on present element %s", o)
			case !present:
				p.fail("optional-present:ReadOptionalASN1OctetString:reported-absent", "reported absent for %s", o)
			case !bytes.Equal(out, payload(kid.n, kid.salt)):
				p.fail("optional-present:ReadOptionalASN1OctetString:value", "returned %s for %s", hx(head(out)), o)
			case !sameRemainder(cp, rest):
				p.fail("optional-present:ReadOptionalASN1OctetString:remainder", "on %s left %s, written suffix is %s", o, hx(head(cp)), hx(head(rest)))
			}
		}
	}
}

func (p *progRun) checkOptInt(reader string, ok, valueOK bool, cp zcb.String, rest []byte, o *op) {
	switch {
	case !ok:
		p.fail("optional-present:"+reader+":returned-false", "%s failed on present element %s", reader, o)
	case !valueOK:
		p.fail("optional-present:"+reader+":value", "%s returned another value for %s", reader, o)
	case !sameRemainder(cp, rest):
		p.fail("optional-present:"+reader+":remainder", "%s on %s left %s, written suffix is %s", reader, o, hx(head(cp)), hx(head(rest)))
	}
}

// elementTag returns the identifier octet of the ASN.1 element op writes, if it writes one.
func elementTag(o *op) (byte, bool) {
	switch o.kind {
	case kInt64, kUint64, kBigInt:
		return 0x02, true
	case kEnum:
		return 0x0a, true
	case kInt64Tag, kASN1:
		return o.tag, true
	case kBool:
		return 0x01, true
	case kOID:
		return 0x06, true
	case kOctet:
		return 0x04, true
	case kBitString:
		return 0x03, true
	case kGenTime:
		return 0x18, true
	case kNull:
		return 0x05, true
	}
	return 0, false
}

// read mirrors ops on s; content is what the enclosing builder wrote at this level.
func (p *progRun) read(s *zcb.String, ops []*op, content []byte) {
	c := p.k.c
	for _, o := range ops {
		if p.stopped {
			return
		}
		if o.kind == kJunk || o.kind == kOverUnwrite {
			continue
		}
		if o.start < 0 || o.end < o.start || o.end > len(content) {
			p.fail("harness:element-offsets-outside-content", "element %s offsets %d..%d content %d", o, o.start, o.end, len(content))
			p.stopped = true
			return
		}
		if !sameRemainder(*s, content[o.start:]) {
			p.fail("harness:reader-not-at-element-start", "before %s", o)
			p.stopped = true
			return
		}
		rest := content[o.end:]
		etag, isASN1 := elementTag(o)
		if isASN1 || p.rng.IntN(3) == 0 {
			p.probeAbsent(*s)
		}
		if isASN1 && etag&0x1f != 0x1f && !(o.kind == kOID && o.u == 1) {
			p.probePresent(*s, o, etag, rest)
		}
		reader, ok, valueOK := p.readOne(s, o, content)
		c.Count("read:"+reader, 1)
		if o.kind == kOID && o.u == 1 && !ok {
			c.Count("oid_arc_ge_2^28_refused_by_reader", 1)
			p.stopped, p.outside = true, true
			return
		}
		switch {
		case !ok:
			p.fail("read-failed:"+reader, "%s returned false for written element %s", reader, o)
			p.stopped = true
		case !valueOK:
			p.fail("value-mismatch:"+reader, "%s returned another value than written by %s", reader, o)
			p.stopped = true
		case !sameRemainder(*s, rest):
			p.fail("remainder-mismatch:"+reader, "%s after %s left %s, written suffix is %s", reader, o, hx(head(*s)), hx(head(rest)))
			p.stopped = true
		}
	}
	if !p.stopped && len(ops) > 0 {
		// at the end of a level every optional reader must see "absent" and leave the empty rest alone
		last := ops[len(ops)-1]
		if last.end >= 0 && last.end <= len(content) && sameRemainder(*s, content[last.end:]) && p.rng.IntN(2) == 0 {
			p.probeAbsent(*s)
		}
	}
}

func (p *progRun) readOne(s *zcb.String, o *op, content []byte) (reader string, ok, valueOK bool) {
	rng := p.rng
	switch o.kind {
	case kU8:
		var v uint8
		ok = s.ReadUint8(&v)
		return "ReadUint8", ok, uint32(v) == o.u
	case kU16:
		var v uint16
		ok = s.ReadUint16(&v)
		return "ReadUint16", ok, uint32(v) == o.u
	case kU24:
		var v uint32
		ok = s.ReadUint24(&v)
		return "ReadUint24", ok, v == o.u
	case kU32:
		var v uint32
		ok = s.ReadUint32(&v)
		return "ReadUint32", ok, v == o.u
	case kBytes:
		want := payload(o.n, o.salt)
		switch rng.IntN(3) {
		case 0:
			var v []byte
			ok = s.ReadBytes(&v, o.n)
			p.hold("ReadBytes", v, o)
			return "ReadBytes", ok, bytes.Equal(v, want)
		case 1:
			v := make([]byte, o.n)
			ok = s.CopyBytes(v)
			return "CopyBytes", ok, bytes.Equal(v, want)
		}
		return "Skip", s.Skip(o.n), true
	case kLP8, kLP16, kLP24, kLP32:
		var ch zcb.String
		switch o.kind {
		case kLP8:
			reader, ok = "ReadUint8LengthPrefixed", s.ReadUint8LengthPrefixed(&ch)
		case kLP16:
			reader, ok = "ReadUint16LengthPrefixed", s.ReadUint16LengthPrefixed(&ch)
		case kLP24:
			reader, ok = "ReadUint24LengthPrefixed", s.ReadUint24LengthPrefixed(&ch)
		default:
			reader = "ReadUint32+ReadBytes"
			var n uint32
			ok = s.ReadUint32(&n) && s.ReadBytes((*[]byte)(&ch), int(n))
		}
		if !ok {
			return reader, false, false
		}
		return reader, true, p.readKids(ch, o, content)
	case kInt64, kUint64, kBigInt:
		want := new(big.Int)
		switch o.kind {
		case kInt64:
			want.SetInt64(o.i64)
		case kUint64:
			want.SetUint64(o.u64)
		default:
			want.Set(o.big)
		}
		// any reader whose type can hold the value is a matching reader
		var cands []int
		cands = append(cands, 0)
		if want.IsInt64() {
			cands = append(cands, 1)
			if v := want.Int64(); v >= -1<<31 && v < 1<<31 {
				cands = append(cands, 3)
			}
		}
		if want.IsUint64() {
			cands = append(cands, 2)
		}
		switch pick(rng, cands) {
		case 0:
			var v big.Int
			v.SetInt64(-7)
			ok = s.ReadASN1Integer(&v)
			return "ReadASN1Integer(*big.Int)", ok, v.Cmp(want) == 0
		case 1:
			v := int64(-7)
			ok = s.ReadASN1Integer(&v)
			return "ReadASN1Integer(*int64)", ok, v == want.Int64()
		case 2:
			v := uint64(7)
			ok = s.ReadASN1Integer(&v)
			return "ReadASN1Integer(*uint64)", ok, v == want.Uint64()
		default:
			v := int32(-7)
			ok = s.ReadASN1Integer(&v)
			return "ReadASN1Integer(*int32)", ok, int64(v) == want.Int64()
		}
	case kEnum:
		v := -7
		ok = s.ReadASN1Enum(&v)
		return "ReadASN1Enum", ok, int64(v) == o.i64
	case kInt64Tag:
		v := int64(0x5a5a5a5a5a5a5a5a)
		ok = s.ReadASN1Int64WithTag(&v, zcbasn1.Tag(o.tag))
		return "ReadASN1Int64WithTag", ok, v == o.i64
	case kBool:
		v := !o.bv
		ok = s.ReadASN1Boolean(&v)
		return "ReadASN1Boolean", ok, v == o.bv
	case kOID:
		var v zasn1.ObjectIdentifier
		ok = s.ReadASN1ObjectIdentifier(&v)
		return "ReadASN1ObjectIdentifier", ok, v.Equal(o.oid)
	case kOctet:
		want := payload(o.n, o.salt)
		switch rng.IntN(4) {
		case 0:
			var v []byte
			ok = s.ReadASN1Bytes(&v, zcbasn1.OCTET_STRING)
			p.hold("ReadASN1Bytes", v, o)
			return "ReadASN1Bytes", ok, bytes.Equal(v, want)
		case 1:
			var v zcb.String
			ok = s.ReadASN1(&v, zcbasn1.OCTET_STRING)
			p.hold("ReadASN1", v, o)
			return "ReadASN1", ok, bytes.Equal(v, want)
		case 2:
			var v zcb.String
			ok = s.ReadASN1Element(&v, zcbasn1.OCTET_STRING)
			return "ReadASN1Element", ok, bytes.Equal(v, content[o.start:o.end])
		}
		var v zcb.String
		var t zcbasn1.Tag
		ok = s.ReadAnyASN1(&v, &t)
		return "ReadAnyASN1", ok, bytes.Equal(v, want) && t == zcbasn1.OCTET_STRING
	case kBitString:
		want := payload(o.n, o.salt)
		if rng.IntN(2) == 0 {
			var v zasn1.BitString
			ok = s.ReadASN1BitString(&v)
			return "ReadASN1BitString", ok, v.BitLength == 8*o.n && bytes.Equal(v.Bytes, want)
		}
		var v []byte
		ok = s.ReadASN1BitStringAsBytes(&v)
		p.hold("ReadASN1BitStringAsBytes", v, o)
		return "ReadASN1BitStringAsBytes", ok, bytes.Equal(v, want)
	case kGenTime:
		var v time.Time
		ok = s.ReadASN1GeneralizedTime(&v)
		_, o1 := v.Zone()
		_, o2 := o.t.Zone()
		return "ReadASN1GeneralizedTime", ok, v.Equal(o.t) && o1 == o2
	case kNull:
		if rng.IntN(2) == 0 {
			var v zcb.String
			ok = s.ReadASN1(&v, zcbasn1.NULL)
			return "ReadASN1(NULL)", ok, len(v) == 0
		}
		return "SkipASN1(NULL)", s.SkipASN1(zcbasn1.NULL), true
	case kASN1:
		tag := zcbasn1.Tag(o.tag)
		if !s.PeekASN1Tag(tag) {
			return "PeekASN1Tag", false, false
		}
		var ch zcb.String
		switch rng.IntN(3) {
		case 0:
			reader, ok = "ReadASN1", s.ReadASN1(&ch, tag)
		case 1:
			var t zcbasn1.Tag
			reader, ok = "ReadAnyASN1", s.ReadAnyASN1(&ch, &t)
			ok = ok && t == tag
		default:
			// element form first, then unwrap it with a second reader
			var el zcb.String
			reader, ok = "ReadASN1Element", s.ReadASN1Element(&el, tag)
			if ok && !bytes.Equal(el, content[o.start:o.end]) {
				return reader, true, false
			}
			ok = ok && el.ReadASN1(&ch, tag) && el.Empty()
		}
		if !ok {
			return reader, false, false
		}
		return reader, true, p.readKids(ch, o, content)
	case kMarshal:
		want, _ := zasn1.Marshal(o.mval)
		var el zcb.String
		var t zcbasn1.Tag
		ok = s.ReadAnyASN1Element(&el, &t)
		return "ReadAnyASN1Element", ok, bytes.Equal(el, want)
	}
	return "?", false, false
}

// readKids checks that the child String is exactly the content the child builder
// wrote and mirrors the nested program on it.
func (p *progRun) readKids(ch zcb.String, o *op, content []byte) bool {
	if o.kidsLen < 0 || o.kidsLen > o.end-o.start {
		p.fail("harness:child-length-unknown", "%s", o)
		p.stopped = true
		return true
	}
	want := content[o.end-o.kidsLen : o.end]
	if !bytes.Equal(ch, want) {
		return false
	}
	p.read(&ch, o.kids, want)
	if !p.stopped && !ch.Empty() {
		p.fail("child-not-empty-after-reading-all-written-elements", "in %s: %d bytes left", o, len(ch))
		p.stopped = true
	}
	return true
}

// ---- engine ------------------------------------------------------------------------

func progRng(seed int64, idx int) *rand.Rand {
	return rand.New(rand.NewPCG(uint64(seed)^0xc21c21c21, uint64(idx)*0x9e3779b97f4a7c15+0x21))
}

func runC21(c *core.Ctx) {
	defer strictMode(c)()
	k := &c21{c: c}
	total := c.Pick(30000, 3000000)
	// Programs are executed in batches of 2..6: every program of a batch is BUILT first and its Bytes()
	// result is held as returned; only then are the mirrored read programs run, each on its own held
	// output. A Builder that hands out storage a later Builder overwrites, or a reader whose results do
	// not survive later reads, diverges here although each program alone would round-trip.
	for idx := c.Shard; idx < total; {
		size := 2 + int(uint32(idx)*2654435761>>9)%5
		var batch []*progRun
		hit := c.OnlyCase == ""
		first := idx
		for j := 0; j < size && idx < total; j, idx = j+1, idx+c.NShards {
			if fmt.Sprintf("prog-%d", idx) == c.OnlyCase {
				hit = true
			}
		}
		if !hit {
			continue
		}
		for i := first; i < idx; i += c.NShards {
			if p := k.prepare(i, fmt.Sprintf("prog-%d", i)); p != nil {
				batch = append(batch, p)
			}
		}
		for _, p := range batch {
			k.finish(p)
		}
		// values handed out by readers of earlier programs must have survived the later reads
		for _, p := range batch {
			for _, h := range p.heldVal {
				if !bytes.Equal(h.got, payload(h.n, h.salt)) {
					p.fail("value-returned-by-reader-changed-after-later-reads:"+h.reader, "%s returned the written %d bytes, but after reading other Strings the slice holds %s", h.reader, h.n, hx(head(h.got)))
				}
			}
		}
		c.Count("batches", 1)
		c.Max("batch_size", len(batch))
	}
	k.lim.flush(c)
}

// prepare generates and builds one program; it returns nil when there is nothing to read back.
func (k *c21) prepare(idx int, id string) *progRun {
	c := k.c
	rng := progRng(c.Seed, idx)
	g := &pgen{rng: rng, bigLeft: 1, opsLeft: 40}
	if rng.IntN(16) == 0 {
		g.bigLeft = 2
	}
	if rng.IntN(1500) == 0 {
		g.hugeLeft = 1
	}
	if rng.IntN(25) == 0 {
		g.badLeft = 1
	}
	ops := g.ops(0, 12, false)
	text := progString(ops)
	c.Eval(1)

	ref, bad := refEncode(ops)

	// builder variant
	variant := rng.IntN(4)
	prefix := payload(rng.IntN(6), rng.IntN(256))
	var b *zcb.Builder
	switch variant {
	case 0:
		b = &zcb.Builder{}
	case 1:
		b = zcb.NewBuilder(nil)
	case 2:
		b = zcb.NewBuilder(append([]byte(nil), prefix...))
	default:
		b = zcb.NewFixedBuilder(make([]byte, 0, len(ref)+48))
		prefix = nil
	}
	if variant < 2 {
		prefix = nil
	}
	st := &buildState{}
	var out []byte
	var err error
	pi := core.Guard(func() {
		build(b, ops, len(prefix), true, st)
		out, err = b.Bytes()
	})
	p := &progRun{k: k, id: id, text: fmt.Sprintf("[builder variant %d] %s", variant, text), rng: rng, ops: ops, bad: bad, plain: text}
	if pi != nil {
		p.fail("builder-"+pi.Key, "builder panicked: %s\n%s", pi.Value, pi.Stack)
		return nil
	}
	c.Count("over_unwrite_refused", st.overUnwriteOK)
	if st.overUnwriteNo > 0 {
		p.fail("unwrite-beyond-own-content-not-refused", "Unwrite(n) with n larger than what this builder has written did not panic")
	}
	if err != nil {
		if bad != "" {
			c.Count("builder_error_expected:"+bad, 1)
			return nil
		}
		p.fail("builder-error-on-valid-program", "Bytes() returned %v", err)
		return nil
	}
	if bad != "" {
		// the Builder accepted something it documents as an error; the read-back decides
		c.Count("builder_accepted_expected_error:"+bad, 1)
	}
	if st.failed != "" && bad == "" {
		p.fail("builder-error-on-valid-program", "a child builder reported %s", st.failed)
		return nil
	}
	if len(out) < len(prefix) || !bytes.Equal(out[:len(prefix)], prefix) {
		p.fail("newbuilder-prefix-buffer-not-preserved", "prefix %s", hx(prefix))
		return nil
	}
	p.held, p.snap, p.prefix = out, append([]byte{}, out...), len(prefix)
	p.out = p.snap[p.prefix:]
	if bad == "" && !bytes.Equal(p.out, ref) {
		c.Count("ref_encoder_disagrees", 1)
		if c.WantSample() {
			c.Sample(map[string]any{"ref_encoder_disagrees": text, "builder": core.Hex(p.out), "reference": core.Hex(ref)})
		}
	}
	return p
}

// finish runs the mirrored read program on the output the Builder returned (held since prepare).
func (k *c21) finish(p *progRun) {
	c := k.c
	ops, bad, text := p.ops, p.bad, p.plain
	if !bytes.Equal(p.held, p.snap) {
		p.fail("builder-output-changed-after-later-builder-calls", "the slice returned by Bytes() no longer holds what it held when it was returned: now %s", hx(head(p.held)))
		return
	}
	content := p.snap[p.prefix:]
	// the readers run on the slice the Builder returned; expectations come from the snapshot
	s := zcb.String(p.held[p.prefix:])
	if len(s) == 0 {
		s = zcb.String([]byte{}) // a nil String refuses zero-length reads (same in x/crypto)
	}
	if pi := core.Guard(func() { p.read(&s, ops, content) }); pi != nil {
		p.fail("reader-"+pi.Key, "reader panicked: %s\n%s", pi.Value, pi.Stack)
		return
	}
	if !p.stopped && !s.Empty() {
		p.fail("input-not-empty-after-reading-all-written-elements", "%d bytes left", len(s))
	}
	if !bytes.Equal(p.held, p.snap) {
		p.fail("builder-output-changed-while-reading", "reading modified the bytes it was reading")
	}
	if bad != "" && !p.stopped {
		c.Count("builder_accepted_expected_error_but_read_back_ok:"+bad, 1)
	}
	if p.outside {
		c.Count("programs_stopped_outside_domain", 1)
	}
	c.Nontrivial(text)
	c.Count("programs_read_back", 1)
	c.Count("optional_probes_present_tag", p.probesP)
	c.Count("optional_probes_absent_tag", p.probesA)
	c.Max("output_bytes", len(content))
	var walk func(ops []*op, d int)
	walk = func(ops []*op, d int) {
		c.Max("nesting", d)
		for _, o := range ops {
			c.Count("op:"+kindNames[o.kind], 1)
			switch l := o.end - o.start; {
			case l >= 1<<24:
				c.Count("elements_ge_2^24_bytes", 1)
			case l >= 1<<16:
				c.Count("elements_ge_65536_bytes", 1)
			case l >= 256:
				c.Count("elements_ge_256_bytes", 1)
			case l >= 128:
				c.Count("elements_ge_128_bytes", 1)
			}
			walk(o.kids, d+1)
		}
	}
	walk(ops, 0)
	if c.WantSample() && len(text) < 400 {
		c.Sample(map[string]any{"program": text, "bytes": core.Hex(content)})
	}
}
