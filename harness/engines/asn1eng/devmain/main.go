// Development-only child runner for the asn1eng monitors (independent of the other engines' build state).
package main

import (
	"flag"
	"fmt"
	"os"
	"runtime/pprof"

	_ "verifharness/engines/asn1eng"
	"verifharness/internal/core"
)

func main() {
	prop := flag.String("prop", "", "")
	tier := flag.String("tier", "quick", "")
	seed := flag.Int64("seed", 1, "")
	shard := flag.Int("shard", 0, "")
	nshards := flag.Int("nshards", 16, "")
	out := flag.String("out", "/tmp/asn1dev.jsonl", "")
	replay := flag.String("replayinput", "", "")
	prof := flag.String("cpuprofile", "", "")
	flag.Parse()
	if *prof != "" {
		f, _ := os.Create(*prof)
		pprof.StartCPUProfile(f)
		defer pprof.StopCPUProfile()
	}
	e, ok := core.Lookup(*prop)
	if !ok {
		fmt.Fprintln(os.Stderr, "no engine")
		os.Exit(3)
	}
	c, err := core.NewCtx(*prop, *tier, *seed, *shard, *nshards, *out)
	if err != nil {
		panic(err)
	}
	c.Leg = "main"
	if *replay != "" {
		b, _ := os.ReadFile(*replay)
		c.Replay = b
	}
	e(c)
	c.Finish()
}
