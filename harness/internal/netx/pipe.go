// Package netx is the in-memory transport of the TLS monitors: a buffered duplex
// pipe implementing net.Conn (net.Pipe is unbuffered and deadlocks TLS 1.3, where
// both sides write at once), with a tap (every write recorded with a global
// sequence number), a read segmenter and a write-side record filter for fault
// injection. After Close every transport call returns immediately, so a call
// that is still blocked afterwards is blocked inside the code under test.
package netx

import (
	"errors"
	"io"
	"net"
	"os"
	"runtime"
	"sync"
	"sync/atomic"
	"time"
)

// Dir identifies a direction of the pipe.
type Dir int

const (
	AtoB Dir = iota // written by endpoint A (conventionally the client)
	BtoA
)

func (d Dir) String() string {
	if d == AtoB {
		return "A>B"
	}
	return "B>A"
}

// TapRec is one Write as seen on the wire (after the filter).
type TapRec struct {
	Dir  Dir
	Seq  int64
	Data []byte
}

// Tap records the traffic of a pipe.
type Tap struct {
	mu   sync.Mutex
	seq  int64
	recs []TapRec
}

func (t *Tap) add(d Dir, b []byte) {
	t.mu.Lock()
	t.seq++
	t.recs = append(t.recs, TapRec{d, t.seq, append([]byte(nil), b...)})
	t.mu.Unlock()
}

// Records returns a copy of the recorded writes in wire order.
func (t *Tap) Records() []TapRec {
	t.mu.Lock()
	defer t.mu.Unlock()
	return append([]TapRec(nil), t.recs...)
}

// Bytes returns the concatenated byte stream of one direction.
func (t *Tap) Bytes(d Dir) []byte {
	t.mu.Lock()
	defer t.mu.Unlock()
	var out []byte
	for _, r := range t.recs {
		if r.Dir == d {
			out = append(out, r.Data...)
		}
	}
	return out
}

// Filter transforms the bytes written in one direction before they reach the
// reader (and the tap). It is called with each Write's data, under the stream's
// write lock, and returns the chunks to deliver. Flush is called at Close.
type Filter interface {
	Write(p []byte) [][]byte
	Flush() [][]byte
}

// Segmenter bounds how many of the available bytes one Read call delivers
// (avail >= 1, want = len of the caller's buffer); it must return 1..min(avail,want).
type Segmenter func(avail, want int) int

// Options configure one direction.
type Options struct {
	Filter    Filter
	Segment   Segmenter
	Capacity  int  // max buffered bytes before Write blocks (0 = unbounded)
	YieldProb int  // 0..100: probability (percent) of runtime.Gosched() at each Read/Write boundary
	DelayHook func() // optional: called at each Read/Write boundary outside locks (sleep/yield injection)
}

type stream struct {
	mu       sync.Mutex
	cond     *sync.Cond
	buf      []byte
	wclosed  bool // writer side closed: reader sees EOF after draining
	rclosed  bool // reader side closed: writer gets ErrClosedPipe
	opt      Options
	tap      *Tap
	dir      Dir
	rdl, wdl deadline
	nread    int64
	nwritten int64
	holdTail int // > 0: keep that many bytes back until the writer closes, then hand the last bytes over together with io.EOF
	rng      uint64
}

type deadline struct {
	t     time.Time
	timer *time.Timer
}

func (s *stream) yield() {
	if s.opt.DelayHook != nil {
		s.opt.DelayHook()
	}
	if s.opt.YieldProb > 0 {
		x := atomic.AddUint64(&s.rng, 0x9e3779b97f4a7c15)
		x ^= x >> 29
		if int(x%100) < s.opt.YieldProb {
			runtime.Gosched()
		}
	}
}

func (s *stream) setDeadline(d *deadline, t time.Time) {
	s.mu.Lock()
	defer s.mu.Unlock()
	if d.timer != nil {
		d.timer.Stop()
		d.timer = nil
	}
	d.t = t
	if !t.IsZero() {
		dur := time.Until(t)
		if dur <= 0 {
			s.cond.Broadcast()
			return
		}
		d.timer = time.AfterFunc(dur, func() {
			s.mu.Lock()
			s.cond.Broadcast()
			s.mu.Unlock()
		})
	}
}

func expired(d *deadline) bool { return !d.t.IsZero() && !time.Now().Before(d.t) }

func (s *stream) read(p []byte) (int, error) {
	s.yield()
	s.mu.Lock()
	defer s.mu.Unlock()
	for {
		if s.rclosed {
			return 0, io.ErrClosedPipe
		}
		if expired(&s.rdl) {
			return 0, os.ErrDeadlineExceeded
		}
		if len(p) == 0 {
			return 0, nil
		}
		if avail := len(s.buf); avail > 0 && (s.holdTail == 0 || s.wclosed || avail > s.holdTail) {
			n := avail
			if s.holdTail > 0 && !s.wclosed {
				n = avail - s.holdTail
			}
			if n > len(p) {
				n = len(p)
			}
			if s.opt.Segment != nil {
				k := s.opt.Segment(len(s.buf), len(p))
				if k >= 1 && k < n {
					n = k
				}
			}
			copy(p, s.buf[:n])
			s.buf = s.buf[n:]
			s.nread += int64(n)
			s.cond.Broadcast()
			if s.holdTail > 0 && s.wclosed && len(s.buf) == 0 {
				// io.Reader allows n > 0 together with io.EOF; SetEOFWithData asks for exactly that
				return n, io.EOF
			}
			return n, nil
		}
		if s.wclosed && len(s.buf) == 0 {
			return 0, io.EOF
		}
		s.cond.Wait()
	}
}

func (s *stream) write(p []byte) (int, error) {
	s.yield()
	s.mu.Lock()
	defer s.mu.Unlock()
	if s.wclosed || s.rclosed {
		return 0, io.ErrClosedPipe
	}
	if expired(&s.wdl) {
		return 0, os.ErrDeadlineExceeded
	}
	chunks := [][]byte{p}
	if s.opt.Filter != nil {
		chunks = s.opt.Filter.Write(p)
	}
	for _, ch := range chunks {
		if len(ch) == 0 {
			continue
		}
		for s.opt.Capacity > 0 && len(s.buf) >= s.opt.Capacity {
			if s.wclosed || s.rclosed {
				return 0, io.ErrClosedPipe
			}
			if expired(&s.wdl) {
				return 0, os.ErrDeadlineExceeded
			}
			s.cond.Wait()
		}
		if s.wclosed || s.rclosed {
			return 0, io.ErrClosedPipe
		}
		s.tap.add(s.dir, ch)
		s.buf = append(s.buf, ch...)
		s.nwritten += int64(len(ch))
		s.cond.Broadcast()
	}
	if cl, ok := s.opt.Filter.(interface{ CloseAfter() bool }); ok && cl.CloseAfter() {
		s.wclosed = true
		s.cond.Broadcast()
	}
	return len(p), nil
}

func (s *stream) closeWrite() {
	s.mu.Lock()
	if !s.wclosed {
		if s.opt.Filter != nil && !s.rclosed {
			for _, ch := range s.opt.Filter.Flush() {
				if len(ch) > 0 {
					s.tap.add(s.dir, ch)
					s.buf = append(s.buf, ch...)
				}
			}
		}
		s.wclosed = true
	}
	s.cond.Broadcast()
	s.mu.Unlock()
}

func (s *stream) closeRead() {
	s.mu.Lock()
	s.rclosed = true
	s.cond.Broadcast()
	s.mu.Unlock()
}

// Conn is one endpoint of a pipe.
type Conn struct {
	name   string
	in     *stream // peer → me
	out    *stream // me → peer
	closed int32
}

type addr string

func (a addr) Network() string { return "netx" }
func (a addr) String() string  { return string(a) }

func (c *Conn) Read(p []byte) (int, error)  { return c.in.read(p) }
func (c *Conn) Write(p []byte) (int, error) { return c.out.write(p) }

// Close closes both directions of this endpoint: pending and future calls on it
// fail with io.ErrClosedPipe, the peer reads EOF after draining and its writes fail.
func (c *Conn) Close() error {
	if !atomic.CompareAndSwapInt32(&c.closed, 0, 1) {
		return nil
	}
	c.out.closeWrite()
	c.in.closeRead()
	return nil
}

// CloseRead closes only the reading side of this endpoint: pending and future reads on it fail and the
// peer's writes fail with io.ErrClosedPipe at once, while this endpoint can still write and the peer still
// reads what was written (additive; used to make a victim's answer writes fail while its input is still open).
func (c *Conn) CloseRead() error { c.in.closeRead(); return nil }

// SetEOFWithData changes how the end of the incoming stream is delivered to this endpoint (additive, default off):
// with hold > 0 the last hold bytes are kept back until the peer has closed its write side, and the final Read
// returns them together with io.EOF (n > 0, io.EOF), as the io.Reader contract allows. Reads never deliver less
// than they would otherwise except for that tail; call it when no reply depends on the held bytes (data phase).
func (c *Conn) SetEOFWithData(hold int) {
	c.in.mu.Lock()
	c.in.holdTail = hold
	c.in.cond.Broadcast()
	c.in.mu.Unlock()
}

// CloseWrite half-closes: the peer reads EOF after draining.
func (c *Conn) CloseWrite() error { c.out.closeWrite(); return nil }

func (c *Conn) LocalAddr() net.Addr  { return addr(c.name) }
func (c *Conn) RemoteAddr() net.Addr { return addr(c.name + "-peer") }
func (c *Conn) SetDeadline(t time.Time) error {
	c.in.setDeadline(&c.in.rdl, t)
	c.out.setDeadline(&c.out.wdl, t)
	return nil
}
func (c *Conn) SetReadDeadline(t time.Time) error  { c.in.setDeadline(&c.in.rdl, t); return nil }
func (c *Conn) SetWriteDeadline(t time.Time) error { c.out.setDeadline(&c.out.wdl, t); return nil }

// BytesWritten / BytesRead report the traffic of this endpoint's outgoing / incoming stream.
func (c *Conn) BytesWritten() int64 { c.out.mu.Lock(); defer c.out.mu.Unlock(); return c.out.nwritten }
func (c *Conn) BytesRead() int64    { c.in.mu.Lock(); defer c.in.mu.Unlock(); return c.in.nread }

// PendingIn reports the bytes buffered towards this endpoint and not yet read.
func (c *Conn) PendingIn() int { c.in.mu.Lock(); defer c.in.mu.Unlock(); return len(c.in.buf) }

// Pipe creates a connected pair. ab configures the A→B direction, ba the B→A direction.
func Pipe(ab, ba Options) (a, b *Conn, tap *Tap) {
	tap = &Tap{}
	s1 := &stream{opt: ab, tap: tap, dir: AtoB}
	s1.cond = sync.NewCond(&s1.mu)
	s2 := &stream{opt: ba, tap: tap, dir: BtoA}
	s2.cond = sync.NewCond(&s2.mu)
	a = &Conn{name: "A", in: s2, out: s1}
	b = &Conn{name: "B", in: s1, out: s2}
	return
}

var _ net.Conn = (*Conn)(nil)

// ErrInjected is returned by FailingConn once its budget is used up.
var ErrInjected = errors.New("netx: injected transport error")
