package netx

// TLS-record aware filter: reassembles the written byte stream into TLS records
// (5-byte header, 16-bit length) and lets a plan edit, drop, duplicate, swap or
// replace them. Plans are data, so a faulty run can be replayed.

// RecordAction says what to do with one record.
type RecordAction struct {
	Index int    // record index in this direction (0-based, counted before faults); -1 = never
	Kind  string // flip | truncate | drop | dup | swapnext | insert | replace_rest | set | close
	Off   int    // byte offset inside the record (header included) for flip/truncate/insert/set
	Mask  byte   // xor mask for flip (0 → 0x01)
	Data  []byte // bytes for insert / set / replace_rest
}

// RecordFilter applies a list of actions; records not mentioned pass unchanged.
type RecordFilter struct {
	Actions []RecordAction
	// OnRecord, if set, sees every original record (index, bytes) before actions.
	OnRecord func(idx int, rec []byte)
	// Applied counts actions that were actually reached.
	Applied int

	pend    []byte
	idx     int
	held    []byte // record held back by swapnext
	dead    bool   // replace_rest / close happened: drop everything else
	closeIt bool   // a truncate/close action fired: the stream closes its write side after delivering
}

// CloseAfter reports (once) that the write side must be closed after the chunks just returned.
func (f *RecordFilter) CloseAfter() bool { c := f.closeIt; f.closeIt = false; return c }

func (f *RecordFilter) actionsFor(i int) []RecordAction {
	var out []RecordAction
	for _, a := range f.Actions {
		if a.Index == i {
			out = append(out, a)
		}
	}
	return out
}

func (f *RecordFilter) Write(p []byte) [][]byte {
	if f.dead {
		return nil
	}
	f.pend = append(f.pend, p...)
	var out [][]byte
	for {
		if len(f.pend) < 5 {
			break
		}
		n := 5 + int(f.pend[3])<<8 + int(f.pend[4])
		if len(f.pend) < n {
			break
		}
		rec := append([]byte(nil), f.pend[:n]...)
		f.pend = f.pend[n:]
		out = append(out, f.apply(rec)...)
		if f.dead {
			f.pend = nil
			break
		}
	}
	return out
}

func (f *RecordFilter) apply(rec []byte) [][]byte {
	i := f.idx
	f.idx++
	if f.OnRecord != nil {
		f.OnRecord(i, rec)
	}
	out := [][]byte{rec}
	swap := false
	for _, a := range f.actionsFor(i) {
		f.Applied++
		switch a.Kind {
		case "flip":
			m := a.Mask
			if m == 0 {
				m = 1
			}
			if len(rec) > 0 {
				off := a.Off
				if off < 0 {
					off = len(rec) + off
				}
				if off < 0 {
					off = 0
				}
				rec[off%len(rec)] ^= m
			}
		case "set":
			off := a.Off
			for j, b := range a.Data {
				if off+j < len(rec) {
					rec[off+j] = b
				}
			}
		case "truncate":
			off := a.Off
			if off > len(rec) {
				off = len(rec)
			}
			out = [][]byte{rec[:off]}
			f.dead = true
			f.closeIt = true
		case "drop":
			out = nil
		case "dup":
			out = [][]byte{rec, append([]byte(nil), rec...)}
		case "swapnext":
			swap = true
		case "insert":
			off := a.Off
			if off > len(rec) {
				off = len(rec)
			}
			nr := append(append(append([]byte(nil), rec[:off]...), a.Data...), rec[off:]...)
			out = [][]byte{nr}
		case "replace_rest":
			out = [][]byte{a.Data}
			f.dead = true
		case "close":
			out = nil
			f.dead = true
			f.closeIt = true
		}
	}
	if f.held != nil {
		h := f.held
		f.held = nil
		out = append(out, h)
	}
	if swap && !f.dead {
		f.held = rec
		return nil
	}
	return out
}

func (f *RecordFilter) Flush() [][]byte {
	var out [][]byte
	if f.dead {
		return nil
	}
	if f.held != nil {
		out = append(out, f.held)
		f.held = nil
	}
	if len(f.pend) > 0 {
		out = append(out, f.pend)
		f.pend = nil
	}
	return out
}

// SplitRecords splits a byte stream into TLS records (best effort; a trailing partial record is returned as rest).
func SplitRecords(b []byte) (recs [][]byte, rest []byte) {
	for len(b) >= 5 {
		n := 5 + int(b[3])<<8 + int(b[4])
		if len(b) < n {
			break
		}
		recs = append(recs, b[:n])
		b = b[n:]
	}
	return recs, b
}
