// Package keys loads the committed, fixed key pool (pool.json, generated once by cmd/genkeys).
// Checks never generate keys: key generation is slow and non-deterministic.
// The pool holds raw numbers so that an engine can build stdlib keys, zcrypto/rsa keys or zcrypto/dsa keys from them.
package keys

import (
	"crypto/dsa"
	"crypto/ecdsa"
	"crypto/ed25519"
	"crypto/elliptic"
	"crypto/rsa"
	_ "embed"
	"encoding/hex"
	"encoding/json"
	"math/big"
	"sync"

	zrsa "github.com/zmap/zcrypto/rsa"
)

//go:embed pool.json
var poolJSON []byte

// RSAKey is one RSA key of the pool (two-prime or multi-prime).
type RSAKey struct {
	Bits   int
	N, D   *big.Int
	E      int
	Primes []*big.Int
}

// ECKey is one ECDSA key of the pool.
type ECKey struct {
	Curve string // P224 P256 P384 P521
	Priv  *ecdsa.PrivateKey
}

// DSAKey is one DSA key of the pool (stdlib crypto/dsa types; zcrypto/dsa has the same field layout).
type DSAKey struct {
	L, N int
	Priv *dsa.PrivateKey
}

type Pool struct {
	RSA []RSAKey
	EC  []ECKey
	Ed  []ed25519.PrivateKey
	DSA []DSAKey
}

var (
	once sync.Once
	pool *Pool
)

func bi(s string) *big.Int { v, _ := new(big.Int).SetString(s, 16); return v }

// Get returns the pool (parsed once).
func Get() *Pool {
	once.Do(func() {
		var raw struct {
			RSA []struct {
				Bits   int
				N, D   string
				E      int
				Primes []string
			}
			EC  []struct{ Curve, D string }
			Ed  []struct{ Seed string }
			DSA []struct {
				L, N          int
				P, Q, G, Y, X string
			}
		}
		if err := json.Unmarshal(poolJSON, &raw); err != nil {
			panic(err)
		}
		p := &Pool{}
		for _, r := range raw.RSA {
			k := RSAKey{Bits: r.Bits, N: bi(r.N), D: bi(r.D), E: r.E}
			for _, q := range r.Primes {
				k.Primes = append(k.Primes, bi(q))
			}
			p.RSA = append(p.RSA, k)
		}
		for _, e := range raw.EC {
			var c elliptic.Curve
			switch e.Curve {
			case "P224":
				c = elliptic.P224()
			case "P256":
				c = elliptic.P256()
			case "P384":
				c = elliptic.P384()
			case "P521":
				c = elliptic.P521()
			}
			d := bi(e.D)
			x, y := c.ScalarBaseMult(d.Bytes())
			p.EC = append(p.EC, ECKey{e.Curve, &ecdsa.PrivateKey{PublicKey: ecdsa.PublicKey{Curve: c, X: x, Y: y}, D: d}})
		}
		for _, e := range raw.Ed {
			seed, _ := hex.DecodeString(e.Seed)
			p.Ed = append(p.Ed, ed25519.NewKeyFromSeed(seed))
		}
		for _, d := range raw.DSA {
			p.DSA = append(p.DSA, DSAKey{d.L, d.N, &dsa.PrivateKey{
				PublicKey: dsa.PublicKey{Parameters: dsa.Parameters{P: bi(d.P), Q: bi(d.Q), G: bi(d.G)}, Y: bi(d.Y)}, X: bi(d.X)}})
		}
		pool = p
	})
	return pool
}

// Std returns the key as a stdlib *rsa.PrivateKey with precomputed values.
// Keys below 1024 bits can be built, but Go >= 1.24 refuses to *use* them unless GODEBUG=rsa1024min=0.
func (k RSAKey) Std() *rsa.PrivateKey {
	pk := &rsa.PrivateKey{PublicKey: rsa.PublicKey{N: new(big.Int).Set(k.N), E: k.E}, D: new(big.Int).Set(k.D)}
	for _, q := range k.Primes {
		pk.Primes = append(pk.Primes, new(big.Int).Set(q))
	}
	pk.Precompute()
	return pk
}

// RSAByBits returns the pool keys with the given modulus size and number of primes (0 = any).
func (p *Pool) RSAByBits(bits, nprimes int) []RSAKey {
	var out []RSAKey
	for _, k := range p.RSA {
		if k.Bits == bits && (nprimes == 0 || len(k.Primes) == nprimes) {
			out = append(out, k)
		}
	}
	return out
}

// ECByCurve returns the pool keys on a curve.
func (p *Pool) ECByCurve(name string) []*ecdsa.PrivateKey {
	var out []*ecdsa.PrivateKey
	for _, k := range p.EC {
		if k.Curve == name {
			out = append(out, k.Priv)
		}
	}
	return out
}

// Z returns the key as a zcrypto/rsa private key (big.Int exponent) with precomputed values.
func (k RSAKey) Z() *zrsa.PrivateKey {
	pk := &zrsa.PrivateKey{PublicKey: zrsa.PublicKey{N: new(big.Int).Set(k.N), E: big.NewInt(int64(k.E))}, D: new(big.Int).Set(k.D)}
	for _, q := range k.Primes {
		pk.Primes = append(pk.Primes, new(big.Int).Set(q))
	}
	pk.Precompute()
	return pk
}
