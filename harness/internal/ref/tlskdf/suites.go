package tlskdf

import "strings"

// SuiteParams are the SecurityParameters of a TLS ≤ 1.2 cipher suite that the
// key derivation depends on (RFC 5246 §6.1, Appendix C; RFC 5288 §3, RFC 5289,
// RFC 7905 §2 for the AEAD suites).
type SuiteParams struct {
	Name     string
	PRFHash  HashID // TLS 1.2 PRF hash: SHA-384 for the *_SHA384 suites, otherwise SHA-256
	KeyLen   int    // enc_key_length
	MACLen   int    // mac_key_length (0 for AEAD)
	FixedIV  int    // fixed_iv_length of AEAD suites (4 for GCM, 12 for ChaCha20-Poly1305); -1 = not an AEAD suite
	BlockLen int    // CBC block size (IV taken from the key block in TLS 1.0), 0 for stream/AEAD
}

// ianaNames: TLS Cipher Suite registry values for the suites relevant to zcrypto's table.
var ianaNames = map[uint16]string{
	0x0004: "TLS_RSA_WITH_RC4_128_MD5",
	0x0005: "TLS_RSA_WITH_RC4_128_SHA",
	0x000A: "TLS_RSA_WITH_3DES_EDE_CBC_SHA",
	0x002F: "TLS_RSA_WITH_AES_128_CBC_SHA",
	0x0035: "TLS_RSA_WITH_AES_256_CBC_SHA",
	0x003C: "TLS_RSA_WITH_AES_128_CBC_SHA256",
	0x003D: "TLS_RSA_WITH_AES_256_CBC_SHA256",
	0x009C: "TLS_RSA_WITH_AES_128_GCM_SHA256",
	0x009D: "TLS_RSA_WITH_AES_256_GCM_SHA384",

	0x0013: "TLS_DHE_DSS_WITH_3DES_EDE_CBC_SHA",
	0x0016: "TLS_DHE_RSA_WITH_3DES_EDE_CBC_SHA",
	0x0032: "TLS_DHE_DSS_WITH_AES_128_CBC_SHA",
	0x0033: "TLS_DHE_RSA_WITH_AES_128_CBC_SHA",
	0x0038: "TLS_DHE_DSS_WITH_AES_256_CBC_SHA",
	0x0039: "TLS_DHE_RSA_WITH_AES_256_CBC_SHA",
	0x0040: "TLS_DHE_DSS_WITH_AES_128_CBC_SHA256",
	0x0066: "TLS_DHE_DSS_WITH_RC4_128_SHA",
	0x0067: "TLS_DHE_RSA_WITH_AES_128_CBC_SHA256",
	0x006A: "TLS_DHE_DSS_WITH_AES_256_CBC_SHA256",
	0x006B: "TLS_DHE_RSA_WITH_AES_256_CBC_SHA256",
	0x009E: "TLS_DHE_RSA_WITH_AES_128_GCM_SHA256",
	0x009F: "TLS_DHE_RSA_WITH_AES_256_GCM_SHA384",
	0x00A2: "TLS_DHE_DSS_WITH_AES_128_GCM_SHA256",
	0x00A3: "TLS_DHE_DSS_WITH_AES_256_GCM_SHA384",

	0xC007: "TLS_ECDHE_ECDSA_WITH_RC4_128_SHA",
	0xC008: "TLS_ECDHE_ECDSA_WITH_3DES_EDE_CBC_SHA",
	0xC009: "TLS_ECDHE_ECDSA_WITH_AES_128_CBC_SHA",
	0xC00A: "TLS_ECDHE_ECDSA_WITH_AES_256_CBC_SHA",
	0xC011: "TLS_ECDHE_RSA_WITH_RC4_128_SHA",
	0xC012: "TLS_ECDHE_RSA_WITH_3DES_EDE_CBC_SHA",
	0xC013: "TLS_ECDHE_RSA_WITH_AES_128_CBC_SHA",
	0xC014: "TLS_ECDHE_RSA_WITH_AES_256_CBC_SHA",
	0xC023: "TLS_ECDHE_ECDSA_WITH_AES_128_CBC_SHA256",
	0xC024: "TLS_ECDHE_ECDSA_WITH_AES_256_CBC_SHA384",
	0xC027: "TLS_ECDHE_RSA_WITH_AES_128_CBC_SHA256",
	0xC028: "TLS_ECDHE_RSA_WITH_AES_256_CBC_SHA384",
	0xC02B: "TLS_ECDHE_ECDSA_WITH_AES_128_GCM_SHA256",
	0xC02C: "TLS_ECDHE_ECDSA_WITH_AES_256_GCM_SHA384",
	0xC02F: "TLS_ECDHE_RSA_WITH_AES_128_GCM_SHA256",
	0xC030: "TLS_ECDHE_RSA_WITH_AES_256_GCM_SHA384",

	0xCCA8: "TLS_ECDHE_RSA_WITH_CHACHA20_POLY1305_SHA256",
	0xCCA9: "TLS_ECDHE_ECDSA_WITH_CHACHA20_POLY1305_SHA256",
	0xCCAA: "TLS_DHE_RSA_WITH_CHACHA20_POLY1305_SHA256",
}

// Suite returns the parameters of a registered suite, derived from its IANA
// name: cipher → key/IV lengths, trailing hash → MAC length and TLS 1.2 PRF hash.
func Suite(id uint16) (SuiteParams, bool) {
	name, ok := ianaNames[id]
	if !ok {
		return SuiteParams{}, false
	}
	p := SuiteParams{Name: name, PRFHash: SHA256, FixedIV: -1}
	i := strings.Index(name, "_WITH_")
	rest := name[i+len("_WITH_"):] // e.g. AES_128_GCM_SHA256
	macName := rest[strings.LastIndexByte(rest, '_')+1:]
	cipher := rest[:strings.LastIndexByte(rest, '_')]
	aead := false
	switch cipher {
	case "RC4_128":
		p.KeyLen = 16
	case "3DES_EDE_CBC":
		p.KeyLen, p.BlockLen = 24, 8
	case "AES_128_CBC":
		p.KeyLen, p.BlockLen = 16, 16
	case "AES_256_CBC":
		p.KeyLen, p.BlockLen = 32, 16
	case "AES_128_GCM":
		p.KeyLen, p.FixedIV, aead = 16, 4, true
	case "AES_256_GCM":
		p.KeyLen, p.FixedIV, aead = 32, 4, true
	case "CHACHA20_POLY1305":
		p.KeyLen, p.FixedIV, aead = 32, 12, true
	default:
		return SuiteParams{}, false
	}
	if !aead {
		switch macName {
		case "MD5":
			p.MACLen = 16
		case "SHA":
			p.MACLen = 20
		case "SHA256":
			p.MACLen = 32
		case "SHA384":
			p.MACLen = 48
		}
	}
	// RFC 5246 §5: SHA-256 PRF for all suites defined before or in it; RFC 5288 §3
	// and RFC 5289 §3: the SHA384 suites use SHA-384 for the PRF.
	if macName == "SHA384" {
		p.PRFHash = SHA384
	}
	return p, true
}

// Suite13 returns hash and key length of a TLS 1.3 suite (RFC 8446 Appendix B.4).
func Suite13(id uint16) (h HashID, keyLen int, ok bool) {
	switch id {
	case 0x1301: // TLS_AES_128_GCM_SHA256
		return SHA256, 16, true
	case 0x1302: // TLS_AES_256_GCM_SHA384
		return SHA384, 32, true
	case 0x1303: // TLS_CHACHA20_POLY1305_SHA256
		return SHA256, 32, true
	}
	return 0, 0, false
}
