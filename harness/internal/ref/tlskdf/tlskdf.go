// Package tlskdf is an independent reference for the TLS key derivation
// functions, written from the RFC text on top of crypto/hmac and the hash
// packages only. It shares no code with zcrypto/tls (nor with x/crypto/hkdf,
// which zcrypto uses): HKDF is written out from RFC 5869.
//
//	RFC 2246 §5      P_hash, the MD5/SHA-1 PRF of TLS 1.0/1.1
//	RFC 5246 §5      the single-hash PRF of TLS 1.2
//	RFC 5246 §8.1    master secret,  §6.3 key block,  §7.4.9 Finished
//	RFC 7627 §4      extended master secret (session hash)
//	RFC 5705 §4      keying material exporter
//	RFC 5869         HKDF-Extract / HKDF-Expand
//	RFC 8446 §7.1    HKDF-Expand-Label, Derive-Secret; §7.2 traffic secret update;
//	                 §7.3 traffic keys; §4.4.4 Finished; §7.5 exporter
package tlskdf

import (
	"crypto/hmac"
	"crypto/md5"
	"crypto/sha1"
	"crypto/sha256"
	"crypto/sha512"
	"errors"
	"hash"
)

// Protocol versions as they appear on the wire.
const (
	VersionTLS10 = 0x0301
	VersionTLS11 = 0x0302
	VersionTLS12 = 0x0303
)

// HashID names the hash function of a PRF / HKDF instance.
type HashID int

const (
	MD5 HashID = iota + 1
	SHA1
	SHA256
	SHA384
)

// New returns the constructor of the hash.
func (h HashID) New() func() hash.Hash {
	switch h {
	case MD5:
		return md5.New
	case SHA1:
		return sha1.New
	case SHA256:
		return sha256.New
	case SHA384:
		return sha512.New384
	}
	panic("tlskdf: unknown hash")
}

// Size is the output length of the hash in bytes.
func (h HashID) Size() int { return h.New()().Size() }

func (h HashID) String() string {
	return [...]string{"?", "MD5", "SHA1", "SHA256", "SHA384"}[h]
}

func hmacSum(h func() hash.Hash, key []byte, parts ...[]byte) []byte {
	m := hmac.New(h, key)
	for _, p := range parts {
		m.Write(p)
	}
	return m.Sum(nil)
}

func cat(parts ...[]byte) []byte {
	var out []byte
	for _, p := range parts {
		out = append(out, p...)
	}
	return out
}

// PHash is the data expansion function of RFC 2246 §5 / RFC 5246 §5:
//
//	P_hash(secret, seed) = HMAC_hash(secret, A(1) + seed) + HMAC_hash(secret, A(2) + seed) + ...
//	A(0) = seed,  A(i) = HMAC_hash(secret, A(i-1))
//
// truncated to n bytes.
func PHash(h HashID, secret, seed []byte, n int) []byte {
	out := make([]byte, 0, n+64)
	a := seed // A(0)
	for len(out) < n {
		a = hmacSum(h.New(), secret, a)                         // A(i)
		out = append(out, hmacSum(h.New(), secret, a, seed)...) // HMAC(secret, A(i) + seed)
	}
	return out[:n]
}

// PRF10 is the TLS 1.0/1.1 PRF (RFC 2246 §5):
//
//	PRF(secret, label, seed) = P_MD5(S1, label + seed) XOR P_SHA-1(S2, label + seed)
//
// with L_S1 = L_S2 = ceil(L_S / 2); S1 is the first L_S1 bytes of the secret
// and S2 the last L_S2 bytes (they share a byte when the length is odd).
func PRF10(secret, label, seed []byte, n int) []byte {
	half := (len(secret) + 1) / 2
	s1 := secret[:half]
	s2 := secret[len(secret)-half:]
	ls := cat(label, seed)
	a := PHash(MD5, s1, ls, n)
	b := PHash(SHA1, s2, ls, n)
	for i := range a {
		a[i] ^= b[i]
	}
	return a
}

// PRF12 is the TLS 1.2 PRF (RFC 5246 §5): P_<hash>(secret, label + seed).
func PRF12(h HashID, secret, label, seed []byte, n int) []byte {
	return PHash(h, secret, cat(label, seed), n)
}

// Params selects the PRF: the protocol version and, for TLS 1.2, the PRF hash
// of the cipher suite (SHA-256 unless the suite says otherwise, RFC 5246 §5).
type Params struct {
	Version uint16
	Hash    HashID // used for TLS 1.2 only
}

// PRF evaluates the PRF of the protocol version.
func (p Params) PRF(secret, label, seed []byte, n int) []byte {
	switch p.Version {
	case VersionTLS10, VersionTLS11:
		return PRF10(secret, label, seed, n)
	case VersionTLS12:
		return PRF12(p.Hash, secret, label, seed, n)
	}
	panic("tlskdf: no PRF for this version")
}

// MasterSecret is RFC 5246 §8.1 (and RFC 2246 §8.1):
//
//	master_secret = PRF(pre_master_secret, "master secret", ClientHello.random + ServerHello.random)[0..47]
func (p Params) MasterSecret(preMaster, clientRandom, serverRandom []byte) []byte {
	return p.PRF(preMaster, []byte("master secret"), cat(clientRandom, serverRandom), 48)
}

// SessionHash is the hash of the concatenated handshake messages as used by
// Finished (RFC 5246 §7.4.9) and by RFC 7627 §3: MD5 + SHA-1 up to TLS 1.1,
// the PRF hash for TLS 1.2.
func (p Params) SessionHash(handshakeMessages []byte) []byte {
	if p.Version == VersionTLS12 {
		h := p.Hash.New()()
		h.Write(handshakeMessages)
		return h.Sum(nil)
	}
	m := md5.Sum(handshakeMessages)
	s := sha1.Sum(handshakeMessages)
	return cat(m[:], s[:])
}

// ExtendedMasterSecret is RFC 7627 §4:
//
//	master_secret = PRF(pre_master_secret, "extended master secret", session_hash)[0..47]
func (p Params) ExtendedMasterSecret(preMaster, sessionHash []byte) []byte {
	return p.PRF(preMaster, []byte("extended master secret"), sessionHash, 48)
}

// KeyBlock is the partition of RFC 5246 §6.3.
type KeyBlock struct {
	ClientMAC, ServerMAC, ClientKey, ServerKey, ClientIV, ServerIV []byte
}

// KeyBlock is RFC 5246 §6.3 (RFC 2246 §6.3):
//
//	key_block = PRF(master_secret, "key expansion", server_random + client_random)
//
// partitioned in the order client_write_MAC_key, server_write_MAC_key,
// client_write_key, server_write_key, client_write_IV, server_write_IV.
func (p Params) KeyBlock(master, clientRandom, serverRandom []byte, macLen, keyLen, ivLen int) KeyBlock {
	kb := p.PRF(master, []byte("key expansion"), cat(serverRandom, clientRandom), 2*macLen+2*keyLen+2*ivLen)
	take := func(n int) []byte { v := kb[:n:n]; kb = kb[n:]; return v }
	var k KeyBlock
	k.ClientMAC = take(macLen)
	k.ServerMAC = take(macLen)
	k.ClientKey = take(keyLen)
	k.ServerKey = take(keyLen)
	k.ClientIV = take(ivLen)
	k.ServerIV = take(ivLen)
	return k
}

// Finished is RFC 5246 §7.4.9 / RFC 2246 §7.4.9:
//
//	verify_data = PRF(master_secret, finished_label, Hash(handshake_messages))[0..11]
//
// with finished_label "client finished" or "server finished".
func (p Params) Finished(master []byte, client bool, handshakeMessages []byte) []byte {
	label := "server finished"
	if client {
		label = "client finished"
	}
	return p.PRF(master, []byte(label), p.SessionHash(handshakeMessages), 12)
}

// ErrReservedLabel: RFC 5705 §4 forbids exporter labels that collide with the
// labels TLS itself uses.
var ErrReservedLabel = errors.New("tlskdf: reserved exporter label")

// ReservedLabel reports whether the label is one of the labels used by the
// TLS 1.0–1.2 key derivation itself (RFC 5705 §4, last paragraph).
func ReservedLabel(label string) bool {
	switch label {
	case "client finished", "server finished", "master secret", "key expansion":
		return true
	}
	return false
}

// Exporter is RFC 5705 §4:
//
//	PRF(master_secret, label, client_random + server_random [+ uint16(len(context)) + context])[length]
//
// The context is included (with its length) exactly when hasContext is set;
// an empty context is different from no context.
func (p Params) Exporter(master, clientRandom, serverRandom []byte, label string, context []byte, hasContext bool, n int) ([]byte, error) {
	if ReservedLabel(label) {
		return nil, ErrReservedLabel
	}
	seed := cat(clientRandom, serverRandom)
	if hasContext {
		if len(context) > 0xffff {
			return nil, errors.New("tlskdf: exporter context too long")
		}
		seed = append(seed, byte(len(context)>>8), byte(len(context)))
		seed = append(seed, context...)
	}
	return p.PRF(master, []byte(label), seed, n), nil
}

// ---------------------------------------------------------------------------
// HKDF (RFC 5869) and the TLS 1.3 schedule (RFC 8446 §7)

// HKDFExtract is RFC 5869 §2.2: PRK = HMAC-Hash(salt, IKM); an absent salt is
// HashLen zero bytes.
func HKDFExtract(h HashID, salt, ikm []byte) []byte {
	if len(salt) == 0 {
		salt = make([]byte, h.Size())
	}
	return hmacSum(h.New(), salt, ikm)
}

// HKDFExpand is RFC 5869 §2.3:
//
//	T(0) = "",  T(i) = HMAC-Hash(PRK, T(i-1) | info | i),  OKM = first L bytes of T(1) | T(2) | ...
func HKDFExpand(h HashID, prk, info []byte, n int) []byte {
	if n > 255*h.Size() {
		panic("tlskdf: HKDF-Expand length too large")
	}
	var out, t []byte
	for i := 1; len(out) < n; i++ {
		t = hmacSum(h.New(), prk, t, info, []byte{byte(i)})
		out = append(out, t...)
	}
	return out[:n]
}

// HkdfLabel builds the structure of RFC 8446 §7.1:
//
//	struct { uint16 length; opaque label<7..255> = "tls13 " + Label; opaque context<0..255>; } HkdfLabel;
func HkdfLabel(label string, context []byte, n int) []byte {
	full := "tls13 " + label
	if len(full) > 255 || len(context) > 255 || n > 0xffff {
		panic("tlskdf: HkdfLabel field out of range")
	}
	out := []byte{byte(n >> 8), byte(n), byte(len(full))}
	out = append(out, full...)
	out = append(out, byte(len(context)))
	out = append(out, context...)
	return out
}

// ExpandLabel is HKDF-Expand-Label(Secret, Label, Context, Length) of RFC 8446 §7.1.
func ExpandLabel(h HashID, secret []byte, label string, context []byte, n int) []byte {
	return HKDFExpand(h, secret, HkdfLabel(label, context, n), n)
}

// TranscriptHash is Transcript-Hash(messages) for the suite hash.
func TranscriptHash(h HashID, messages []byte) []byte {
	x := h.New()()
	x.Write(messages)
	return x.Sum(nil)
}

// DeriveSecret is RFC 8446 §7.1:
//
//	Derive-Secret(Secret, Label, Messages) = HKDF-Expand-Label(Secret, Label, Transcript-Hash(Messages), Hash.length)
func DeriveSecret(h HashID, secret []byte, label string, messages []byte) []byte {
	return ExpandLabel(h, secret, label, TranscriptHash(h, messages), h.Size())
}

// Extract13 is the HKDF-Extract step of the RFC 8446 §7.1 schedule: the salt is
// the current secret (coming from the top), the IKM the new input (PSK, (EC)DHE
// or nothing); an input that is "not available" is Hash.length zero bytes.
func Extract13(h HashID, newSecret, currentSecret []byte, newSecretAbsent bool) []byte {
	if newSecretAbsent {
		newSecret = make([]byte, h.Size())
	}
	return HKDFExtract(h, currentSecret, newSecret)
}

// NextTrafficSecret is RFC 8446 §7.2:
//
//	application_traffic_secret_N+1 = HKDF-Expand-Label(application_traffic_secret_N, "traffic upd", "", Hash.length)
func NextTrafficSecret(h HashID, secret []byte) []byte {
	return ExpandLabel(h, secret, "traffic upd", nil, h.Size())
}

// TrafficKeys is RFC 8446 §7.3:
//
//	[sender]_write_key = HKDF-Expand-Label(Secret, "key", "", key_length)
//	[sender]_write_iv  = HKDF-Expand-Label(Secret, "iv", "", iv_length)      iv_length = 12 (§5.3)
func TrafficKeys(h HashID, secret []byte, keyLen int) (key, iv []byte) {
	return ExpandLabel(h, secret, "key", nil, keyLen), ExpandLabel(h, secret, "iv", nil, 12)
}

// Finished13 is RFC 8446 §4.4.4 (also the PSK binder of §4.2.11.2):
//
//	finished_key = HKDF-Expand-Label(BaseKey, "finished", "", Hash.length)
//	verify_data  = HMAC(finished_key, Transcript-Hash(messages))
func Finished13(h HashID, baseKey, transcriptHash []byte) []byte {
	fk := ExpandLabel(h, baseKey, "finished", nil, h.Size())
	return hmacSum(h.New(), fk, transcriptHash)
}

// ExporterMasterSecret is Derive-Secret(Master Secret, "exp master", ClientHello...server Finished).
func ExporterMasterSecret(h HashID, masterSecret, messages []byte) []byte {
	return DeriveSecret(h, masterSecret, "exp master", messages)
}

// Exporter13 is RFC 8446 §7.5:
//
//	TLS-Exporter(label, context_value, key_length) =
//	    HKDF-Expand-Label(Derive-Secret(Secret, label, ""), "exporter", Hash(context_value), key_length)
//
// where Secret is the exporter_master_secret; an absent context is the empty one.
func Exporter13(h HashID, exporterMasterSecret []byte, label string, context []byte, n int) []byte {
	s := DeriveSecret(h, exporterMasterSecret, label, nil)
	return ExpandLabel(h, s, "exporter", TranscriptHash(h, context), n)
}
