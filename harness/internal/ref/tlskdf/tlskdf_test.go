package tlskdf_test

// Cross-check of the reference against (a) vectors published with Go's
// crypto/tls (GnuTLS traces for TLS 1.0, draft-ietf-tls-tls13-vectors / RFC 8448
// for TLS 1.3), (b) Go's crypto/hkdf, (c) live crypto/tls handshakes: exporter
// values, the key-log master secret (extended master secret, RSA key exchange)
// and Finished messages decrypted with keys the reference derived.
// This is a setup-time sanity check; no verdict depends on it.

import (
	"bytes"
	"crypto/aes"
	"crypto/cipher"
	"crypto/ecdh"
	"crypto/hkdf"
	"crypto/rand"
	"crypto/rsa"
	"crypto/sha256"
	"crypto/sha512"
	"crypto/tls"
	"crypto/x509"
	"crypto/x509/pkix"
	"encoding/binary"
	"encoding/hex"
	"math/big"
	"net"
	"strings"
	"sync"
	"testing"
	"time"
	"unicode"

	"golang.org/x/crypto/chacha20poly1305"

	"verifharness/internal/keys"
	"verifharness/internal/ref/tlskdf"
	"verifharness/internal/ref/tlswire"
)

func unhex(t testing.TB, s string) []byte {
	s = strings.Map(func(c rune) rune {
		if unicode.IsSpace(c) {
			return -1
		}
		return c
	}, s)
	b, err := hex.DecodeString(s)
	if err != nil {
		t.Fatal(err)
	}
	return b
}

// GnuTLS traces shipped with Go's crypto/tls (prf_test.go, testKeysFromTests):
// TLS 1.0, TLS_RSA_WITH_RC4_128_SHA, macLen 20, keyLen 16; exporter "label" with
// context "context" and without context, 32 bytes.
var gnutls = []struct{ pms, cr, sr, master, cmac, smac, ckey, skey, ekmCtx, ekmNoCtx string }{
	{
		"0302cac83ad4b1db3b9ab49ad05957de2a504a634a386fc600889321e1a971f57479466830ac3e6f468e87f5385fa0c5",
		"4ae66303755184a3917fcb44880605fcc53baa01912b22ed94473fc69cebd558",
		"4ae663020ec16e6bb5130be918cfcafd4d765979a3136a5d50c593446e4e44db",
		"3d851bab6e5556e959a16bc36d66cfae32f672bfa9ecdef6096cbb1b23472df1da63dbbd9827606413221d149ed08ceb",
		"805aaa19b3d2c0a0759a4b6c9959890e08480119",
		"2d22f9fe519c075c16448305ceee209fc24ad109",
		"d50b5771244f850cd8117a9ccafe2cf1",
		"e076e33206b30507a85c32855acd0919",
		"4d1bb6fc278c37d27aa6e2a13c2e079095d143272c2aa939da33d88c1c0cec22",
		"93fba89599b6321ae538e27c6548ceb8b46821864318f5190d64a375e5d69d41",
	},
	{
		"03023f7527316bc12cbcd69e4b9e8275d62c028f27e65c745cfcddc7ce01bd3570a111378b63848127f1c36e5f9e4890",
		"4ae66364b5ea56b20ce4e25555aed2d7e67f42788dd03f3fee4adae0459ab106",
		"4ae66363ab815cbf6a248b87d6b556184e945e9b97fbdf247858b0bdafacfa1c",
		"7d64be7c80c59b740200b4b9c26d0baaa1c5ae56705acbcf2307fe62beb4728c19392c83f20483801cce022c77645460",
		"97742ed60a0554ca13f04f97ee193177b971e3b0",
		"37068751700400e03a8477a5c7eec0813ab9e0dc",
		"207cddbc600d2a200abac6502053ee5c",
		"df3f94f6e1eacc753b815fe16055cd43",
		"2c9f8961a72b97cbe76553b5f954caf8294fc6360ef995ac1256fe9516d0ce7f",
		"274f19c10291d188857ad8878e2119f5aa437d4da556601cf1337aff23154016",
	},
	{
		"832d515f1d61eebb2be56ba0ef79879efb9b527504abb386fb4310ed5d0e3b1f220d3bb6b455033a2773e6d8bdf951d278a187482b400d45deb88a5d5a6bb7d6a7a1decc04eb9ef0642876cd4a82d374d3b6ff35f0351dc5d411104de431375355addc39bfb1f6329fb163b0bc298d658338930d07d313cd980a7e3d9196cac1",
		"4ae663b2ee389c0de147c509d8f18f5052afc4aaf9699efe8cb05ece883d3a5e",
		"4ae664d503fd4cff50cfc1fb8fc606580f87b0fcdac9554ba0e01d785bdf278e",
		"1aff2e7a2c4279d0126f57a65a77a8d9d0087cf2733366699bec27eb53d5740705a8574bb1acc2abbe90e44f0dd28d6c",
		"3c7647c93c1379a31a609542aa44e7f117a70085",
		"0d73102994be74a575a3ead8532590ca32a526d4",
		"ac7581b0b6c10d85bbd905ffbf36c65e",
		"ff07edde49682b45466bd2e39464b306",
		"678b0d43f607de35241dc7e9d1a7388a52c35033a1a0336d4d740060a6638fe2",
		"f3b4ac743f015ef21d79978297a53da3e579ee047133f38c234d829c0f907dab",
	},
}

func TestGnuTLSVectorsTLS10(t *testing.T) {
	p := tlskdf.Params{Version: tlskdf.VersionTLS10}
	for i, v := range gnutls {
		cr, sr := unhex(t, v.cr), unhex(t, v.sr)
		master := p.MasterSecret(unhex(t, v.pms), cr, sr)
		if hex.EncodeToString(master) != v.master {
			t.Fatalf("#%d master secret %x, want %s", i, master, v.master)
		}
		kb := p.KeyBlock(master, cr, sr, 20, 16, 0)
		got := []string{hex.EncodeToString(kb.ClientMAC), hex.EncodeToString(kb.ServerMAC), hex.EncodeToString(kb.ClientKey), hex.EncodeToString(kb.ServerKey)}
		want := []string{v.cmac, v.smac, v.ckey, v.skey}
		for j := range got {
			if got[j] != want[j] {
				t.Errorf("#%d key block part %d: %s, want %s", i, j, got[j], want[j])
			}
		}
		e1, err := p.Exporter(master, cr, sr, "label", []byte("context"), true, 32)
		if err != nil || hex.EncodeToString(e1) != v.ekmCtx {
			t.Errorf("#%d exporter with context: %x %v, want %s", i, e1, err, v.ekmCtx)
		}
		e2, err := p.Exporter(master, cr, sr, "label", nil, false, 32)
		if err != nil || hex.EncodeToString(e2) != v.ekmNoCtx {
			t.Errorf("#%d exporter without context: %x %v, want %s", i, e2, err, v.ekmNoCtx)
		}
	}
	if _, err := p.Exporter(make([]byte, 48), nil, nil, "master secret", nil, false, 8); err == nil {
		t.Error("reserved label accepted")
	}
}

// The widely circulated TLS 1.2 PRF (P_SHA256) test vector
// (IETF TLS list, "[TLS] Test vectors for the TLS 1.2 PRF"), 100 bytes.
func TestPRF12SHA256Vector(t *testing.T) {
	secret := unhex(t, "9bbe436ba940f017b17652849a71db35")
	seed := unhex(t, "a0ba9f936cda311827a6f796ffd5198c")
	want := unhex(t, `e3f229ba727be17b8d122620557cd453c2aab21d07c3d495329b52d4e61edb5a6b301791e90d35c9c9a46b4e14baf9af0fa0
		22f7077def17abfd3797c0564bab4fbc91666e9def9b97fce34f796789baa48082d122ee42c5a72e5a5110fff70187347b66`)
	got := tlskdf.PRF12(tlskdf.SHA256, secret, []byte("test label"), seed, 100)
	if !bytes.Equal(got, want) {
		t.Fatalf("PRF12-SHA256 vector:\n got %x\nwant %x", got, want)
	}
	// every shorter output is a prefix of the longer one
	for n := 0; n <= 100; n++ {
		if !bytes.Equal(tlskdf.PRF12(tlskdf.SHA256, secret, []byte("test label"), seed, n), want[:n]) {
			t.Fatalf("length %d is not a prefix", n)
		}
	}
}

func TestHKDFAgainstStdlib(t *testing.T) {
	for _, h := range []tlskdf.HashID{tlskdf.SHA256, tlskdf.SHA384} {
		std := sha256.New
		if h == tlskdf.SHA384 {
			std = sha512.New384
		}
		for i := 0; i < 300; i++ {
			ikm := make([]byte, i%70)
			salt := make([]byte, (i*7)%150)
			info := make([]byte, (i*3)%90)
			rand.Read(ikm)
			rand.Read(salt)
			rand.Read(info)
			prk, err := hkdf.Extract(std, ikm, salt)
			if err != nil {
				t.Fatal(err)
			}
			if got := tlskdf.HKDFExtract(h, salt, ikm); !bytes.Equal(got, prk) {
				t.Fatalf("%v extract mismatch", h)
			}
			n := (i * 13) % 600
			okm, err := hkdf.Expand(std, prk, string(info), n)
			if err != nil {
				t.Fatal(err)
			}
			if got := tlskdf.HKDFExpand(h, prk, info, n); !bytes.Equal(got, okm) {
				t.Fatalf("%v expand mismatch at length %d", h, n)
			}
		}
	}
}

// Vectors of draft-ietf-tls-tls13-vectors (RFC 8448) as used by Go's key_schedule_test.go.
func TestRFC8448Vectors(t *testing.T) {
	h := tlskdf.SHA256
	early := unhex(t, "33ad0a1c607ec03b09e6cd9893680ce210adf300aa1f2660e1b22e10f170f92a")
	if got := tlskdf.Extract13(h, nil, nil, true); !bytes.Equal(got, early) {
		t.Errorf("early secret %x", got)
	}
	derived := unhex(t, "6f2615a108c702c5678f54fc9dbab69716c076189c48250cebeac3576c3611ba")
	if got := tlskdf.DeriveSecret(h, early, "derived", nil); !bytes.Equal(got, derived) {
		t.Errorf("derived %x", got)
	}
	ikm := unhex(t, "8bd4054fb55b9d63fdfbacf9f04b9f0d35e6d63f537563efd46272900f89492d")
	hs := unhex(t, "1dc826e93606aa6fdc0aadc12f741b01046aa6b99f691ed221a9f0ca043fbeac")
	if got := tlskdf.Extract13(h, ikm, derived, false); !bytes.Equal(got, hs) {
		t.Errorf("handshake secret %x", got)
	}
	salt := unhex(t, "43de77e0c77713859a944db9db2590b53190a65b3ee2e4f12dd7a0bb7ce254b4")
	master := unhex(t, "18df06843d13a08bf2a449844c5f8a478001bc4d4c627984d5a41da8d0402919")
	if got := tlskdf.Extract13(h, nil, salt, true); !bytes.Equal(got, master) {
		t.Errorf("master secret %x", got)
	}
	ts := unhex(t, "b67b7d690cc16c4e75e54213cb2d37b4e9c912bcded9105d42befd59d391ad38")
	key, iv := tlskdf.TrafficKeys(h, ts, 16)
	if hex.EncodeToString(key) != "3fce516009c21727d0f2e4e86ee403bc" || hex.EncodeToString(iv) != "5d313eb2671276ee13000b30" {
		t.Errorf("traffic keys %x %x", key, iv)
	}
	ch := unhex(t, `01 00 01 fc 03 03 1b c3 ce b6 bb e3 9c ff
	93 83 55 b5 a5 0a db 6d b2 1b 7a 6a f6 49 d7 b4 bc 41 9d 78 76
	48 7d 95 00 00 06 13 01 13 03 13 02 01 00 01 cd 00 00 00 0b 00
	09 00 00 06 73 65 72 76 65 72 ff 01 00 01 00 00 0a 00 14 00 12
	00 1d 00 17 00 18 00 19 01 00 01 01 01 02 01 03 01 04 00 33 00
	26 00 24 00 1d 00 20 e4 ff b6 8a c0 5f 8d 96 c9 9d a2 66 98 34
	6c 6b e1 64 82 ba dd da fe 05 1a 66 b4 f1 8d 66 8f 0b 00 2a 00
	00 00 2b 00 03 02 03 04 00 0d 00 20 00 1e 04 03 05 03 06 03 02
	03 08 04 08 05 08 06 04 01 05 01 06 01 02 01 04 02 05 02 06 02
	02 02 00 2d 00 02 01 01 00 1c 00 02 40 01 00 15 00 57 00 00 00
	00 00 00 00 00 00 00 00 00 00 00 00 00 00 00 00 00 00 00 00 00
	00 00 00 00 00 00 00 00 00 00 00 00 00 00 00 00 00 00 00 00 00
	00 00 00 00 00 00 00 00 00 00 00 00 00 00 00 00 00 00 00 00 00
	00 00 00 00 00 00 00 00 00 00 00 00 00 00 00 00 00 00 00 00 00
	00 29 00 dd 00 b8 00 b2 2c 03 5d 82 93 59 ee 5f f7 af 4e c9 00
	00 00 00 26 2a 64 94 dc 48 6d 2c 8a 34 cb 33 fa 90 bf 1b 00 70
	ad 3c 49 88 83 c9 36 7c 09 a2 be 78 5a bc 55 cd 22 60 97 a3 a9
	82 11 72 83 f8 2a 03 a1 43 ef d3 ff 5d d3 6d 64 e8 61 be 7f d6
	1d 28 27 db 27 9c ce 14 50 77 d4 54 a3 66 4d 4e 6d a4 d2 9e e0
	37 25 a6 a4 da fc d0 fc 67 d2 ae a7 05 29 51 3e 3d a2 67 7f a5
	90 6c 5b 3f 7d 8f 92 f2 28 bd a4 0d da 72 14 70 f9 fb f2 97 b5
	ae a6 17 64 6f ac 5c 03 27 2e 97 07 27 c6 21 a7 91 41 ef 5f 7d
	e6 50 5e 5b fb c3 88 e9 33 43 69 40 93 93 4a e4 d3 57 fa d6 aa
	cb 00 21 20 3a dd 4f b2 d8 fd f8 22 a0 ca 3c f7 67 8e f5 e8 8d
	ae 99 01 41 c5 92 4d 57 bb 6f a3 1b 9e 5f 9d`)
	prk := unhex(t, "9b2188e9b2fc6d64d71dc329900e20bb41915000f678aa839cbb797cb7d8332c")
	want := unhex(t, "3fbbe6a60deb66c30a32795aba0eff7eaa10105586e7be5c09678d63b6caab62")
	if got := tlskdf.DeriveSecret(h, prk, "c e traffic", ch); !bytes.Equal(got, want) {
		t.Errorf("c e traffic %x", got)
	}
	// the RFC 8448 ClientHello also exercises the wire parser
	hello, err := tlswire.ParseClientHello(ch)
	if err != nil {
		t.Fatalf("reference parser rejects the RFC 8448 ClientHello: %v", err)
	}
	if hello.Version != 0x0303 || len(hello.CipherSuites) != 3 || hello.CipherSuites[0] != 0x1301 || !hello.HasExtensions {
		t.Errorf("RFC 8448 ClientHello decoded as %+v", hello)
	}
	for _, e := range hello.Extensions {
		if e.Type == tlswire.ExtServerName {
			names, err := tlswire.DecodeServerNameList(e.Data)
			if err != nil || len(names) != 1 || string(names[0].Name) != "server" {
				t.Errorf("SNI decoded as %v %v", names, err)
			}
		}
	}
}

// ---------------------------------------------------------------------------
// live crypto/tls handshakes

type tapConn struct {
	net.Conn
	mu  sync.Mutex
	out []byte
}

func (c *tapConn) Write(p []byte) (int, error) {
	c.mu.Lock()
	c.out = append(c.out, p...)
	c.mu.Unlock()
	return c.Conn.Write(p)
}

type syncBuf struct {
	mu sync.Mutex
	b  bytes.Buffer
}

func (s *syncBuf) Write(p []byte) (int, error) {
	s.mu.Lock()
	defer s.mu.Unlock()
	return s.b.Write(p)
}

func serverCert(t *testing.T) (tls.Certificate, *rsa.PrivateKey) {
	key := keys.Get().RSAByBits(2048, 2)[0].Std()
	tmpl := &x509.Certificate{SerialNumber: big.NewInt(1), Subject: pkix.Name{CommonName: "ref.test"},
		NotBefore: time.Unix(1700000000, 0), NotAfter: time.Unix(2000000000, 0), DNSNames: []string{"ref.test"},
		KeyUsage: x509.KeyUsageDigitalSignature | x509.KeyUsageKeyEncipherment}
	der, err := x509.CreateCertificate(rand.Reader, tmpl, tmpl, &key.PublicKey, key)
	if err != nil {
		t.Fatal(err)
	}
	return tls.Certificate{Certificate: [][]byte{der}, PrivateKey: key}, key
}

type live struct {
	cs, ss       tls.ConnectionState
	c2s, s2c     []byte
	keylog       map[string][]byte // label -> secret (client side)
	clientRandom []byte
	rsaKey       *rsa.PrivateKey
	client       *tls.Conn
	server       *tls.Conn
}

func handshake(t *testing.T, version uint16, suites []uint16) *live {
	cert, key := serverCert(t)
	a, b := net.Pipe()
	ca, sb := &tapConn{Conn: a}, &tapConn{Conn: b}
	kl := &syncBuf{}
	ccfg := &tls.Config{InsecureSkipVerify: true, MinVersion: version, MaxVersion: version, CipherSuites: suites, KeyLogWriter: kl, ServerName: "ref.test"}
	scfg := &tls.Config{Certificates: []tls.Certificate{cert}, MinVersion: version, MaxVersion: version, CipherSuites: suites, SessionTicketsDisabled: true}
	client, server := tls.Client(ca, ccfg), tls.Server(sb, scfg)
	errc := make(chan error, 1)
	go func() { errc <- server.Handshake() }()
	if err := client.Handshake(); err != nil {
		t.Fatalf("client handshake: %v", err)
	}
	if err := <-errc; err != nil {
		t.Fatalf("server handshake: %v", err)
	}
	l := &live{cs: client.ConnectionState(), ss: server.ConnectionState(), c2s: ca.out, s2c: sb.out, keylog: map[string][]byte{}, rsaKey: key, client: client, server: server}
	for _, line := range strings.Split(kl.b.String(), "\n") {
		f := strings.Fields(line)
		if len(f) == 3 {
			l.clientRandom, _ = hex.DecodeString(f[1])
			l.keylog[f[0]], _ = hex.DecodeString(f[2])
		}
	}
	return l
}

func testLive12(t *testing.T, version uint16, suite uint16, wantHash tlskdf.HashID) {
	l := handshake(t, version, []uint16{suite})
	if l.cs.CipherSuite != suite || l.cs.Version != version {
		t.Fatalf("negotiated %x/%x", l.cs.Version, l.cs.CipherSuite)
	}
	sp, ok := tlskdf.Suite(suite)
	if !ok {
		t.Fatalf("suite %04x missing from the reference table", suite)
	}
	if version == tls.VersionTLS12 && sp.PRFHash != wantHash {
		t.Fatalf("suite %04x PRF hash %v, want %v", suite, sp.PRFHash, wantHash)
	}
	p := tlskdf.Params{Version: version, Hash: sp.PRFHash}
	master := l.keylog["CLIENT_RANDOM"]
	if len(master) != 48 {
		t.Fatalf("no master secret in key log")
	}
	crecs, _ := tlswire.ParseRecords(l.c2s)
	srecs, _ := tlswire.ParseRecords(l.s2c)
	cmsgs, _ := tlswire.LeadingHandshake(crecs)
	smsgs, _ := tlswire.LeadingHandshake(srecs)
	ch, err := tlswire.ParseClientHello(cmsgs[0].Raw)
	if err != nil {
		t.Fatalf("reference parser rejects Go's ClientHello: %v", err)
	}
	sh, err := tlswire.ParseServerHello(smsgs[0].Raw)
	if err != nil {
		t.Fatalf("reference parser rejects Go's ServerHello: %v", err)
	}
	if !bytes.Equal(ch.Random, l.clientRandom) {
		t.Fatalf("client random: wire %x, key log %x", ch.Random, l.clientRandom)
	}
	// exporter
	for _, ctx := range [][]byte{nil, {}, []byte("some context")} {
		for _, n := range []int{0, 1, 20, 32, 33, 48, 49, 100} {
			want, err := l.cs.ExportKeyingMaterial("EXPERIMENTAL ref check", ctx, n)
			if err != nil {
				t.Fatal(err)
			}
			got, err := p.Exporter(master, ch.Random, sh.Random, "EXPERIMENTAL ref check", ctx, ctx != nil, n)
			if err != nil || !bytes.Equal(got, want) {
				t.Errorf("exporter ctx=%v n=%d: %x, crypto/tls %x", ctx, n, got, want)
			}
		}
	}
	// the handshake transcript up to and including ClientKeyExchange
	var transcript []byte
	transcript = append(transcript, cmsgs[0].Raw...)
	for _, m := range smsgs {
		transcript = append(transcript, m.Raw...)
	}
	var cke *tlswire.Handshake
	for i := range cmsgs[1:] {
		m := &cmsgs[1+i]
		transcript = append(transcript, m.Raw...)
		if m.Type == tlswire.TypeClientKeyExchange {
			cke = m
		}
	}
	if cke == nil {
		t.Fatal("no ClientKeyExchange on the wire")
	}
	if !tlswire.HasExtension(ch.Extensions, tlswire.ExtExtendedMasterSecret) || !tlswire.HasExtension(sh.Extensions, tlswire.ExtExtendedMasterSecret) {
		t.Fatal("crypto/tls did not negotiate extended_master_secret")
	}
	if name := tls.CipherSuiteName(suite); strings.HasPrefix(name, "TLS_RSA_") {
		// RSA key exchange: the reference can recompute the master secret from the wire
		pms, err := rsa.DecryptPKCS1v15(nil, l.rsaKey, cke.Body[2:])
		if err != nil {
			t.Fatal(err)
		}
		if got := p.ExtendedMasterSecret(pms, p.SessionHash(transcript)); !bytes.Equal(got, master) {
			t.Errorf("extended master secret %x, key log %x", got, master)
		}
		if got := p.MasterSecret(pms, ch.Random, sh.Random); bytes.Equal(got, master) {
			t.Errorf("plain master secret equals the key-log value although EMS was negotiated")
		}
	}
	// decrypt the client Finished with the reference key block (AES-GCM suites)
	if sp.FixedIV == 4 {
		kb := p.KeyBlock(master, ch.Random, sh.Random, sp.MACLen, sp.KeyLen, 4)
		var fin []byte
		for i, r := range crecs {
			if r.Type == tlswire.RecordChangeCipherSpec {
				fin = crecs[i+1].Payload
			}
		}
		blk, _ := aes.NewCipher(kb.ClientKey)
		gcm, _ := cipher.NewGCM(blk)
		nonce := append(append([]byte{}, kb.ClientIV...), fin[:8]...)
		aad := make([]byte, 13)
		aad[8], aad[9], aad[10] = 22, byte(version>>8), byte(version)
		binary.BigEndian.PutUint16(aad[11:], uint16(len(fin)-8-16))
		pt, err := gcm.Open(nil, nonce, fin[8:], aad)
		if err != nil {
			t.Fatalf("client Finished does not decrypt with the reference key block: %v", err)
		}
		if want := p.Finished(master, true, transcript); !bytes.Equal(pt[4:], want) || pt[0] != 20 {
			t.Errorf("client verify_data %x, reference %x", pt[4:], want)
		}
	}
}

func TestLiveTLS10to12(t *testing.T) {
	testLive12(t, tls.VersionTLS12, tls.TLS_RSA_WITH_AES_128_GCM_SHA256, tlskdf.SHA256)
	testLive12(t, tls.VersionTLS12, tls.TLS_RSA_WITH_AES_256_GCM_SHA384, tlskdf.SHA384)
	testLive12(t, tls.VersionTLS12, tls.TLS_ECDHE_RSA_WITH_AES_256_GCM_SHA384, tlskdf.SHA384)
	testLive12(t, tls.VersionTLS12, tls.TLS_ECDHE_RSA_WITH_CHACHA20_POLY1305_SHA256, tlskdf.SHA256)
	testLive12(t, tls.VersionTLS11, tls.TLS_RSA_WITH_AES_128_CBC_SHA, 0)
	testLive12(t, tls.VersionTLS10, tls.TLS_RSA_WITH_AES_256_CBC_SHA, 0)
	testLive12(t, tls.VersionTLS10, tls.TLS_ECDHE_RSA_WITH_AES_128_CBC_SHA, 0)
}

// recRand hands out pseudo-random bytes and remembers them, so that the test can
// find the client's X25519 private key among the bytes crypto/tls consumed.
type recRand struct {
	mu  sync.Mutex
	out []byte
	ctr uint64
}

func (r *recRand) Read(p []byte) (int, error) {
	r.mu.Lock()
	defer r.mu.Unlock()
	for i := range p {
		r.ctr++
		s := sha256.Sum256(binary.BigEndian.AppendUint64([]byte("recRand"), r.ctr))
		p[i] = s[0]
	}
	r.out = append(r.out, p...)
	return len(p), nil
}

func keyShareX25519(t *testing.T, exts []tlswire.Extension, client bool) []byte {
	for _, e := range exts {
		if e.Type != tlswire.ExtKeyShare {
			continue
		}
		d := e.Data
		if client {
			d = d[2:] // client_shares vector length
		}
		for len(d) >= 4 {
			g := int(d[0])<<8 | int(d[1])
			n := int(d[2])<<8 | int(d[3])
			if g == 0x001d {
				return d[4 : 4+n]
			}
			d = d[4+n:]
		}
	}
	t.Fatal("no X25519 key share")
	return nil
}

// Full TLS 1.3 schedule from the wire: the client's ephemeral key is recovered
// from the bytes its Config.Rand handed out, everything else is recomputed by
// the reference and compared with crypto/tls's key log, Finished and exporter.
func TestLiveTLS13(t *testing.T) {
	cert, _ := serverCert(t)
	a, b := net.Pipe()
	ca, sb := &tapConn{Conn: a}, &tapConn{Conn: b}
	kl := &syncBuf{}
	rr := &recRand{}
	ccfg := &tls.Config{InsecureSkipVerify: true, MinVersion: tls.VersionTLS13, KeyLogWriter: kl, ServerName: "ref.test",
		CurvePreferences: []tls.CurveID{tls.X25519}, Rand: rr}
	scfg := &tls.Config{Certificates: []tls.Certificate{cert}, MinVersion: tls.VersionTLS13, SessionTicketsDisabled: true}
	client, server := tls.Client(ca, ccfg), tls.Server(sb, scfg)
	errc := make(chan error, 1)
	go func() { errc <- server.Handshake() }()
	if err := client.Handshake(); err != nil {
		t.Fatal(err)
	}
	if err := <-errc; err != nil {
		t.Fatal(err)
	}
	cs := client.ConnectionState()
	keylog := map[string][]byte{}
	for _, line := range strings.Split(kl.b.String(), "\n") {
		if f := strings.Fields(line); len(f) == 3 {
			keylog[f[0]], _ = hex.DecodeString(f[2])
		}
	}
	h, keyLen, ok := tlskdf.Suite13(cs.CipherSuite)
	if !ok {
		t.Fatalf("suite %04x", cs.CipherSuite)
	}
	crecs, _ := tlswire.ParseRecords(ca.out)
	srecs, _ := tlswire.ParseRecords(sb.out)
	cmsgs, _ := tlswire.LeadingHandshake(crecs)
	smsgs, _ := tlswire.LeadingHandshake(srecs)
	ch, err := tlswire.ParseClientHello(cmsgs[0].Raw)
	if err != nil {
		t.Fatal(err)
	}
	sh, err := tlswire.ParseServerHello(smsgs[0].Raw)
	if err != nil {
		t.Fatal(err)
	}
	cpub, spub := keyShareX25519(t, ch.Extensions, true), keyShareX25519(t, sh.Extensions, false)
	var shared []byte
	for off := 0; off+32 <= len(rr.out); off++ {
		priv, err := ecdh.X25519().NewPrivateKey(rr.out[off : off+32])
		if err != nil || !bytes.Equal(priv.PublicKey().Bytes(), cpub) {
			continue
		}
		peer, err := ecdh.X25519().NewPublicKey(spub)
		if err != nil {
			t.Fatal(err)
		}
		if shared, err = priv.ECDH(peer); err != nil {
			t.Fatal(err)
		}
		break
	}
	if shared == nil {
		t.Skip("client key share not derived from Config.Rand on this toolchain; schedule cross-check skipped")
	}
	transcript := append(append([]byte{}, cmsgs[0].Raw...), smsgs[0].Raw...)
	early := tlskdf.Extract13(h, nil, nil, true)
	hsSecret := tlskdf.Extract13(h, shared, tlskdf.DeriveSecret(h, early, "derived", nil), false)
	chts := tlskdf.DeriveSecret(h, hsSecret, "c hs traffic", transcript)
	shts := tlskdf.DeriveSecret(h, hsSecret, "s hs traffic", transcript)
	if !bytes.Equal(chts, keylog["CLIENT_HANDSHAKE_TRAFFIC_SECRET"]) || !bytes.Equal(shts, keylog["SERVER_HANDSHAKE_TRAFFIC_SECRET"]) {
		t.Fatalf("handshake traffic secrets differ from crypto/tls's key log")
	}
	// decrypt the server flight with reference keys, check the server Finished
	key, iv := tlskdf.TrafficKeys(h, shts, keyLen)
	var aead cipher.AEAD
	if cs.CipherSuite == tls.TLS_CHACHA20_POLY1305_SHA256 {
		aead, _ = chacha20poly1305.New(key)
	} else {
		blk, _ := aes.NewCipher(key)
		aead, _ = cipher.NewGCM(blk)
	}
	var stream []byte
	seq := uint64(0)
	for _, r := range srecs {
		if r.Type != tlswire.RecordApplicationData {
			continue
		}
		nonce := append([]byte{}, iv...)
		var s [8]byte
		binary.BigEndian.PutUint64(s[:], seq)
		for i := range s {
			nonce[4+i] ^= s[i]
		}
		aad := []byte{23, 3, 3, byte(len(r.Payload) >> 8), byte(len(r.Payload))}
		pt, err := aead.Open(nil, nonce, r.Payload, aad)
		if err != nil {
			break // first application-traffic record
		}
		seq++
		pt = bytes.TrimRight(pt, "\x00")
		if pt[len(pt)-1] != 22 {
			t.Fatalf("inner content type %d", pt[len(pt)-1])
		}
		stream = append(stream, pt[:len(pt)-1]...)
	}
	msgs, rest := tlswire.SplitHandshake(stream)
	if len(rest) != 0 || len(msgs) < 4 {
		t.Fatalf("decrypted server flight: %d messages, %d stray bytes", len(msgs), len(rest))
	}
	sawFinished := false
	for _, m := range msgs {
		if m.Type == tlswire.TypeFinished {
			sawFinished = true
			if want := tlskdf.Finished13(h, shts, tlskdf.TranscriptHash(h, transcript)); !bytes.Equal(m.Body, want) {
				t.Errorf("server Finished %x, reference %x", m.Body, want)
			}
		}
		transcript = append(transcript, m.Raw...)
	}
	if !sawFinished {
		t.Fatal("no server Finished")
	}
	master := tlskdf.Extract13(h, nil, tlskdf.DeriveSecret(h, hsSecret, "derived", nil), true)
	if got := tlskdf.DeriveSecret(h, master, "c ap traffic", transcript); !bytes.Equal(got, keylog["CLIENT_TRAFFIC_SECRET_0"]) {
		t.Errorf("client application traffic secret differs from the key log")
	}
	sats := tlskdf.DeriveSecret(h, master, "s ap traffic", transcript)
	if !bytes.Equal(sats, keylog["SERVER_TRAFFIC_SECRET_0"]) {
		t.Errorf("server application traffic secret differs from the key log")
	}
	exp := tlskdf.ExporterMasterSecret(h, master, transcript)
	for _, ctx := range [][]byte{nil, {}, []byte("ctx")} {
		for _, n := range []int{0, 1, 31, 32, 33, 64, 65, 200} {
			want, err := cs.ExportKeyingMaterial("ref check", ctx, n)
			if err != nil {
				t.Fatal(err)
			}
			if got := tlskdf.Exporter13(h, exp, "ref check", ctx, n); !bytes.Equal(got, want) {
				t.Errorf("TLS 1.3 exporter ctx=%v n=%d mismatch", ctx, n)
			}
		}
	}
	// key update: the server switches to the next traffic secret; a record it sends afterwards
	// must decrypt under keys the reference derives from NextTrafficSecret.
	go func() {
		buf := make([]byte, 16)
		client.Read(buf)
	}()
	mark := len(sb.out)
	// crypto/tls has no public KeyUpdate trigger; the update formula is checked against the
	// definition only (one Expand-Label call), and its use is exercised below on the plain secret.
	if _, err := server.Write([]byte("ping")); err != nil {
		t.Fatal(err)
	}
	recs, _ := tlswire.ParseRecords(sb.out[mark:])
	k2, iv2 := tlskdf.TrafficKeys(h, sats, keyLen)
	if cs.CipherSuite == tls.TLS_CHACHA20_POLY1305_SHA256 {
		aead, _ = chacha20poly1305.New(k2)
	} else {
		blk, _ := aes.NewCipher(k2)
		aead, _ = cipher.NewGCM(blk)
	}
	r := recs[0]
	pt, err := aead.Open(nil, iv2, r.Payload, []byte{23, 3, 3, byte(len(r.Payload) >> 8), byte(len(r.Payload))})
	if err != nil || !bytes.HasPrefix(pt, []byte("ping")) {
		t.Errorf("application record does not decrypt under reference keys: %v", err)
	}
	if got := tlskdf.NextTrafficSecret(h, sats); len(got) != h.Size() || bytes.Equal(got, sats) {
		t.Errorf("next traffic secret malformed")
	}
}

// crypto/tls hands the parsed ClientHello to GetConfigForClient; compare with the reference parser.
func TestWireParserAgainstCryptoTLS(t *testing.T) {
	cert, _ := serverCert(t)
	a, b := net.Pipe()
	ca := &tapConn{Conn: a}
	var info *tls.ClientHelloInfo
	scfg := &tls.Config{Certificates: []tls.Certificate{cert}, SessionTicketsDisabled: true,
		GetConfigForClient: func(i *tls.ClientHelloInfo) (*tls.Config, error) { info = i; return nil, nil }}
	ccfg := &tls.Config{InsecureSkipVerify: true, ServerName: "wire.ref.test", NextProtos: []string{"h2", "http/1.1", "x"}}
	client, server := tls.Client(ca, ccfg), tls.Server(b, scfg)
	errc := make(chan error, 1)
	go func() { errc <- server.Handshake() }()
	if err := client.Handshake(); err != nil {
		t.Fatal(err)
	}
	if err := <-errc; err != nil {
		t.Fatal(err)
	}
	recs, _ := tlswire.ParseRecords(ca.out)
	msgs, _ := tlswire.LeadingHandshake(recs[:1])
	ch, err := tlswire.ParseClientHello(msgs[0].Raw)
	if err != nil {
		t.Fatal(err)
	}
	if len(ch.CipherSuites) != len(info.CipherSuites) {
		t.Fatalf("suites %v vs %v", ch.CipherSuites, info.CipherSuites)
	}
	for i := range ch.CipherSuites {
		if ch.CipherSuites[i] != info.CipherSuites[i] {
			t.Fatalf("suites %v vs %v", ch.CipherSuites, info.CipherSuites)
		}
	}
	seen := map[uint16]bool{}
	for _, e := range ch.Extensions {
		seen[e.Type] = true
		switch e.Type {
		case tlswire.ExtServerName:
			n, err := tlswire.DecodeServerNameList(e.Data)
			if err != nil || len(n) != 1 || n[0].Type != 0 || string(n[0].Name) != info.ServerName {
				t.Errorf("SNI %v %v vs %q", n, err, info.ServerName)
			}
		case tlswire.ExtALPN:
			p, err := tlswire.DecodeALPN(e.Data)
			if err != nil || strings.Join(p, ",") != strings.Join(info.SupportedProtos, ",") {
				t.Errorf("ALPN %v %v vs %v", p, err, info.SupportedProtos)
			}
		case tlswire.ExtSupportedGroups:
			g, err := tlswire.DecodeUint16Vector(e.Data)
			if err != nil || len(g) != len(info.SupportedCurves) {
				t.Errorf("groups %v %v vs %v", g, err, info.SupportedCurves)
			}
			for i := range g {
				if g[i] != uint16(info.SupportedCurves[i]) {
					t.Errorf("groups %v vs %v", g, info.SupportedCurves)
				}
			}
		case tlswire.ExtSignatureAlgorithms:
			s, err := tlswire.DecodeUint16Vector(e.Data)
			if err != nil || len(s) != len(info.SignatureSchemes) {
				t.Errorf("sigalgs %v %v vs %v", s, err, info.SignatureSchemes)
			}
			for i := range s {
				if s[i] != uint16(info.SignatureSchemes[i]) {
					t.Errorf("sigalgs %v vs %v", s, info.SignatureSchemes)
				}
			}
		case tlswire.ExtECPointFormats:
			p, err := tlswire.DecodeUint8Vector(e.Data, 1)
			if err != nil || !bytes.Equal(p, info.SupportedPoints) {
				t.Errorf("points %v %v vs %v", p, err, info.SupportedPoints)
			}
		case tlswire.ExtStatusRequest:
			if sr, err := tlswire.DecodeStatusRequest(e.Data); err != nil || sr.StatusType != 1 {
				t.Errorf("status_request %v %v", sr, err)
			}
		case tlswire.ExtRenegotiationInfo:
			if v, err := tlswire.DecodeUint8Vector(e.Data, 0); err != nil || len(v) != 0 {
				t.Errorf("renegotiation_info %v %v", v, err)
			}
		}
	}
	for _, want := range []uint16{tlswire.ExtServerName, tlswire.ExtALPN, tlswire.ExtSupportedGroups, tlswire.ExtSignatureAlgorithms, tlswire.ExtECPointFormats, tlswire.ExtStatusRequest, tlswire.ExtRenegotiationInfo, tlswire.ExtExtendedMasterSecret, tlswire.ExtSCT} {
		if !seen[want] {
			t.Errorf("extension %d not seen in Go's ClientHello", want)
		}
	}
	// every strict prefix of the message must be rejected by the strict reference parser
	for i := 0; i < len(msgs[0].Raw); i++ {
		if _, err := tlswire.ParseClientHello(msgs[0].Raw[:i]); err == nil {
			t.Fatalf("prefix %d accepted", i)
		}
	}
}
