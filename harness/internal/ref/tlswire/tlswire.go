// Package tlswire is an independent, strict reader for the parts of the TLS wire
// format the monitors look at: the record layer (RFC 5246 §6.2.1), handshake
// message framing (§7.4), ClientHello / ServerHello (§7.4.1.2, §7.4.1.3,
// RFC 8446 §4.1.2/4.1.3) and the extension bodies of RFC 6066 (server_name,
// status_request), RFC 7301 (ALPN), RFC 5746 (renegotiation_info), RFC 4492 /
// RFC 8422 (supported groups, point formats), RFC 5077 (session ticket),
// RFC 5246 §7.4.1.4.1 (signature_algorithms), RFC 6962 §3.3.1 and RFC 7627.
// It is written from the RFC text with plain slices and shares no code with
// zcrypto or cryptobyte.
package tlswire

import (
	"errors"
	"fmt"
)

// Content types and handshake types used by the monitors.
const (
	RecordChangeCipherSpec = 20
	RecordAlert            = 21
	RecordHandshake        = 22
	RecordApplicationData  = 23

	TypeClientHello       = 1
	TypeServerHello       = 2
	TypeCertificate       = 11
	TypeServerKeyExchange = 12
	TypeServerHelloDone   = 14
	TypeClientKeyExchange = 16
	TypeFinished          = 20
)

// Extension numbers (IANA TLS ExtensionType registry).
const (
	ExtServerName           = 0
	ExtStatusRequest        = 5
	ExtSupportedGroups      = 10
	ExtECPointFormats       = 11
	ExtSignatureAlgorithms  = 13
	ExtALPN                 = 16
	ExtSCT                  = 18
	ExtExtendedMasterSecret = 23
	ExtSessionTicket        = 35
	ExtSupportedVersions    = 43
	ExtKeyShare             = 51
	ExtRenegotiationInfo    = 0xff01
)

// reader is a cursor over a byte slice; every read reports success.
type reader struct{ b []byte }

func (r *reader) empty() bool { return len(r.b) == 0 }

func (r *reader) bytes(n int) ([]byte, bool) {
	if n < 0 || len(r.b) < n {
		return nil, false
	}
	v := r.b[:n:n]
	r.b = r.b[n:]
	return v, true
}

func (r *reader) u8() (int, bool) {
	v, ok := r.bytes(1)
	if !ok {
		return 0, false
	}
	return int(v[0]), true
}

func (r *reader) u16() (int, bool) {
	v, ok := r.bytes(2)
	if !ok {
		return 0, false
	}
	return int(v[0])<<8 | int(v[1]), true
}

func (r *reader) u24() (int, bool) {
	v, ok := r.bytes(3)
	if !ok {
		return 0, false
	}
	return int(v[0])<<16 | int(v[1])<<8 | int(v[2]), true
}

// vec reads a vector with an n-byte length prefix.
func (r *reader) vec(prefix int) ([]byte, bool) {
	var l int
	var ok bool
	switch prefix {
	case 1:
		l, ok = r.u8()
	case 2:
		l, ok = r.u16()
	case 3:
		l, ok = r.u24()
	}
	if !ok {
		return nil, false
	}
	return r.bytes(l)
}

// Record is one TLSPlaintext / TLSCiphertext record.
type Record struct {
	Type    uint8
	Version uint16
	Payload []byte
}

// ParseRecords splits a byte stream into complete records; rest holds the
// bytes of a trailing incomplete record.
func ParseRecords(b []byte) (recs []Record, rest []byte) {
	for len(b) >= 5 {
		n := int(b[3])<<8 | int(b[4])
		if len(b) < 5+n {
			break
		}
		recs = append(recs, Record{Type: b[0], Version: uint16(b[1])<<8 | uint16(b[2]), Payload: b[5 : 5+n : 5+n]})
		b = b[5+n:]
	}
	return recs, b
}

// Handshake is one handshake message; Raw includes the 4-byte header.
type Handshake struct {
	Type uint8
	Body []byte
	Raw  []byte
}

// SplitHandshake splits a handshake-layer byte stream (the concatenated
// payloads of handshake records) into complete messages.
func SplitHandshake(stream []byte) (msgs []Handshake, rest []byte) {
	for len(stream) >= 4 {
		n := int(stream[1])<<16 | int(stream[2])<<8 | int(stream[3])
		if len(stream) < 4+n {
			break
		}
		msgs = append(msgs, Handshake{Type: stream[0], Body: stream[4 : 4+n : 4+n], Raw: stream[: 4+n : 4+n]})
		stream = stream[4+n:]
	}
	return msgs, stream
}

// LeadingHandshake concatenates the payloads of the leading run of handshake
// records (stopping at the first record of another type) and splits it.
func LeadingHandshake(recs []Record) (msgs []Handshake, rest []byte) {
	var stream []byte
	for _, r := range recs {
		if r.Type != RecordHandshake {
			break
		}
		stream = append(stream, r.Payload...)
	}
	return SplitHandshake(stream)
}

// Extension is one entry of an extension block.
type Extension struct {
	Type uint16
	Data []byte
	Raw  []byte // type, length and data as on the wire
}

// ParseExtensions reads the content of an extensions vector (without its
// 2-byte length) strictly.
func ParseExtensions(b []byte) ([]Extension, error) {
	var out []Extension
	r := reader{b}
	for !r.empty() {
		start := r.b
		t, ok := r.u16()
		if !ok {
			return nil, errors.New("extension: truncated type")
		}
		d, ok := r.vec(2)
		if !ok {
			return nil, fmt.Errorf("extension %d: truncated data", t)
		}
		out = append(out, Extension{Type: uint16(t), Data: d, Raw: start[: 4+len(d) : 4+len(d)]})
	}
	return out, nil
}

// ClientHello is the decoded message (RFC 5246 §7.4.1.2).
type ClientHello struct {
	Version       uint16
	Random        []byte
	SessionID     []byte
	CipherSuites  []uint16
	Compression   []byte
	HasExtensions bool
	ExtensionsRaw []byte // content of the extensions vector
	Extensions    []Extension
	// TailOffset is the offset, in the message including its 4-byte header, at
	// which the optional extensions block starts (= end of compression_methods).
	TailOffset int
}

// ParseClientHello parses a complete handshake message (with header) strictly:
// type 1, header length equal to the body length, every vector within bounds
// and of legal size, nothing left over.
func ParseClientHello(msg []byte) (*ClientHello, error) {
	if len(msg) < 4 {
		return nil, errors.New("client hello: short header")
	}
	if msg[0] != TypeClientHello {
		return nil, fmt.Errorf("client hello: handshake type %d", msg[0])
	}
	if n := int(msg[1])<<16 | int(msg[2])<<8 | int(msg[3]); n != len(msg)-4 {
		return nil, fmt.Errorf("client hello: header length %d, body has %d bytes", n, len(msg)-4)
	}
	r := reader{msg[4:]}
	ch := &ClientHello{}
	v, ok := r.u16()
	if !ok {
		return nil, errors.New("client hello: truncated version")
	}
	ch.Version = uint16(v)
	if ch.Random, ok = r.bytes(32); !ok {
		return nil, errors.New("client hello: truncated random")
	}
	if ch.SessionID, ok = r.vec(1); !ok || len(ch.SessionID) > 32 {
		return nil, errors.New("client hello: bad session_id")
	}
	cs, ok := r.vec(2)
	if !ok || len(cs)%2 != 0 || len(cs) < 2 {
		return nil, errors.New("client hello: bad cipher_suites vector")
	}
	for i := 0; i < len(cs); i += 2 {
		ch.CipherSuites = append(ch.CipherSuites, uint16(cs[i])<<8|uint16(cs[i+1]))
	}
	if ch.Compression, ok = r.vec(1); !ok || len(ch.Compression) < 1 {
		return nil, errors.New("client hello: bad compression_methods vector")
	}
	ch.TailOffset = len(msg) - len(r.b)
	if r.empty() {
		return ch, nil
	}
	ch.HasExtensions = true
	if ch.ExtensionsRaw, ok = r.vec(2); !ok || !r.empty() {
		return nil, errors.New("client hello: extensions vector does not end the message")
	}
	var err error
	if ch.Extensions, err = ParseExtensions(ch.ExtensionsRaw); err != nil {
		return nil, fmt.Errorf("client hello: %w", err)
	}
	return ch, nil
}

// ServerHello is the decoded message (RFC 5246 §7.4.1.3).
type ServerHello struct {
	Version       uint16
	Random        []byte
	SessionID     []byte
	CipherSuite   uint16
	Compression   uint8
	HasExtensions bool
	Extensions    []Extension
	TailOffset    int
}

// ParseServerHello parses a complete handshake message (with header) strictly.
func ParseServerHello(msg []byte) (*ServerHello, error) {
	if len(msg) < 4 || msg[0] != TypeServerHello {
		return nil, errors.New("server hello: bad header")
	}
	if n := int(msg[1])<<16 | int(msg[2])<<8 | int(msg[3]); n != len(msg)-4 {
		return nil, errors.New("server hello: header length mismatch")
	}
	r := reader{msg[4:]}
	sh := &ServerHello{}
	v, ok := r.u16()
	if !ok {
		return nil, errors.New("server hello: truncated version")
	}
	sh.Version = uint16(v)
	if sh.Random, ok = r.bytes(32); !ok {
		return nil, errors.New("server hello: truncated random")
	}
	if sh.SessionID, ok = r.vec(1); !ok || len(sh.SessionID) > 32 {
		return nil, errors.New("server hello: bad session_id")
	}
	c, ok := r.u16()
	if !ok {
		return nil, errors.New("server hello: truncated cipher_suite")
	}
	sh.CipherSuite = uint16(c)
	cm, ok := r.u8()
	if !ok {
		return nil, errors.New("server hello: truncated compression_method")
	}
	sh.Compression = uint8(cm)
	sh.TailOffset = len(msg) - len(r.b)
	if r.empty() {
		return sh, nil
	}
	sh.HasExtensions = true
	raw, ok := r.vec(2)
	if !ok || !r.empty() {
		return nil, errors.New("server hello: extensions vector does not end the message")
	}
	var err error
	if sh.Extensions, err = ParseExtensions(raw); err != nil {
		return nil, fmt.Errorf("server hello: %w", err)
	}
	return sh, nil
}

// HasExtension reports whether an extension of the type is present.
func HasExtension(exts []Extension, t uint16) bool {
	for _, e := range exts {
		if e.Type == t {
			return true
		}
	}
	return false
}

// ---------------------------------------------------------------------------
// extension bodies

// ServerName is one entry of a ServerNameList (RFC 6066 §3).
type ServerName struct {
	Type uint8
	Name []byte
}

// DecodeServerNameList: struct { ServerName server_name_list<1..2^16-1> }, each
// ServerName = name_type(1) + HostName<1..2^16-1>.
func DecodeServerNameList(data []byte) ([]ServerName, error) {
	r := reader{data}
	list, ok := r.vec(2)
	if !ok || !r.empty() || len(list) < 1 {
		return nil, errors.New("server_name: bad server_name_list vector")
	}
	lr := reader{list}
	var out []ServerName
	for !lr.empty() {
		t, ok := lr.u8()
		if !ok {
			return nil, errors.New("server_name: truncated name_type")
		}
		n, ok := lr.vec(2)
		if !ok || len(n) < 1 {
			return nil, errors.New("server_name: bad HostName vector")
		}
		out = append(out, ServerName{uint8(t), n})
	}
	return out, nil
}

// DecodeALPN: ProtocolName protocol_name_list<2..2^16-1>, ProtocolName = opaque<1..2^8-1> (RFC 7301 §3.1).
func DecodeALPN(data []byte) ([]string, error) {
	r := reader{data}
	list, ok := r.vec(2)
	if !ok || !r.empty() || len(list) < 2 {
		return nil, errors.New("alpn: bad protocol_name_list vector")
	}
	lr := reader{list}
	var out []string
	for !lr.empty() {
		p, ok := lr.vec(1)
		if !ok || len(p) < 1 {
			return nil, errors.New("alpn: bad ProtocolName")
		}
		out = append(out, string(p))
	}
	return out, nil
}

// DecodeUint16Vector reads a vector<2..2^16-1> of 16-bit values with a 2-byte
// length: supported_groups (RFC 8422 §5.1.1), signature_algorithms (RFC 5246 §7.4.1.4.1).
func DecodeUint16Vector(data []byte) ([]uint16, error) {
	r := reader{data}
	list, ok := r.vec(2)
	if !ok || !r.empty() || len(list) < 2 || len(list)%2 != 0 {
		return nil, errors.New("bad vector of 16-bit values")
	}
	out := make([]uint16, 0, len(list)/2)
	for i := 0; i < len(list); i += 2 {
		out = append(out, uint16(list[i])<<8|uint16(list[i+1]))
	}
	return out, nil
}

// DecodeUint8Vector reads a vector<1..2^8-1> of bytes with a 1-byte length:
// ec_point_formats (RFC 8422 §5.1.2) and renegotiated_connection (RFC 5746 §3.2,
// where the minimum is 0: pass minLen 0).
func DecodeUint8Vector(data []byte, minLen int) ([]byte, error) {
	r := reader{data}
	v, ok := r.vec(1)
	if !ok || !r.empty() || len(v) < minLen {
		return nil, errors.New("bad vector of bytes")
	}
	return v, nil
}

// StatusRequest is CertificateStatusRequest of RFC 6066 §8.
type StatusRequest struct {
	StatusType        uint8
	ResponderIDList   []byte
	RequestExtensions []byte
}

// DecodeStatusRequest: status_type(1); for ocsp(1): responder_id_list<0..2^16-1>, request_extensions<0..2^16-1>.
func DecodeStatusRequest(data []byte) (*StatusRequest, error) {
	r := reader{data}
	t, ok := r.u8()
	if !ok {
		return nil, errors.New("status_request: truncated")
	}
	sr := &StatusRequest{StatusType: uint8(t)}
	if t != 1 {
		return nil, fmt.Errorf("status_request: unknown status_type %d", t)
	}
	if sr.ResponderIDList, ok = r.vec(2); !ok {
		return nil, errors.New("status_request: bad responder_id_list")
	}
	if sr.RequestExtensions, ok = r.vec(2); !ok || !r.empty() {
		return nil, errors.New("status_request: bad request_extensions")
	}
	return sr, nil
}
