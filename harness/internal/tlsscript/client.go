package tlsscript

import (
	"crypto"
	"crypto/ecdh"
	"crypto/hmac"
	"crypto/rsa"
	"crypto/x509"
	"errors"
	"fmt"
	"io"
	"net"
	"time"
)

// ClientScript describes one scripted TLS 1.0-1.2 client connection. The zero value of every
// behaviour flag is the conforming behaviour.
type ClientScript struct {
	Version     uint16   // 0x0301, 0x0302 or 0x0303: offered as client_version and required from the server
	Suite       uint16   // the single cipher suite offered; see CanSeal (RSA / ECDHE key exchange, AES-GCM / AES-CBC)
	Curve       uint16   // supported group for ECDHE: 23 (default), 24, 25 or 29
	SNI         string   // server_name ("" = no extension)
	ALPN        []string // application protocols offered
	SessionID   []byte
	OfferTicket bool // send an empty session_ticket extension (a NewSessionTicket is then read if the server agrees)

	// Client credential, used when the server sends CertificateRequest (or with SendCertificateUnrequested).
	Chain [][]byte
	Key   crypto.Signer

	// Behaviour flags. Whatever is sent, the Finished message is computed over the handshake messages
	// actually sent and received, so only the server's handling of the deviation is tested.
	OmitCertificate            bool          // CertificateRequest is answered with ClientKeyExchange directly: no Certificate, no CertificateVerify
	EmptyCertificate           bool          // conforming "no certificate": Certificate with an empty list, no CertificateVerify
	OmitCertificateVerify      bool          // Certificate (with the chain) but no CertificateVerify
	BadCertificateVerify       bool          // CertificateVerify with one signature bit flipped
	VerifyKey                  crypto.Signer // if set, CertificateVerify is signed with this key instead of Key
	CertificateAfterCKX        bool          // wrong order: ClientKeyExchange, Certificate, CertificateVerify
	DuplicateCertificate       bool          // the Certificate message is sent twice
	SendCertificateUnrequested bool          // Certificate (+ CertificateVerify) although no CertificateRequest was received

	AppData   []byte        // sent as application data after the handshake (nil = none)
	ReadReply int           // number of application-data bytes to wait for afterwards
	Seed      uint64        // determines client random, pre-master secret, ephemeral key, IVs
	Timeout   time.Duration // watchdog on the connection (default 20 s)
}

// ClientResult reports what happened on the connection.
type ClientResult struct {
	ClientRandom           []byte
	ServerHello            *ServerHelloMsg
	ServerCertificates     [][]byte
	ServerKeyExchangeValid bool // ECDHE: the ServerKeyExchange signature verified with the leaf key
	CertificateRequested   bool
	CertReqSigAlgs         []uint16 // supported_signature_algorithms of the CertificateRequest (TLS 1.2)
	Sent                   []byte   // handshake message types sent after the ClientHello, in order (20 = Finished)
	CertVerifyScheme       uint16   // TLS 1.2 scheme used in CertificateVerify (0 = none / legacy)
	FinishedSent           bool
	NewSessionTicket       *NewTicketMsg
	ServerFinishedVerified bool    // the server's Finished matched the reference over the same transcript
	HandshakeComplete      bool    // both Finished messages exchanged and the server's verified
	Alerts                 []Alert // alerts received, in order
	PeerClosed             bool    // the peer closed the transport (EOF / closed pipe) before the script ended
	AppDataReceived        []byte
	MasterSecret           []byte
	Stage                  string // where the script stopped: hello, server-flight, client-flight, server-finished, app-data, done
}

// RunClient drives one handshake (and an optional application-data exchange) over conn. The error is
// non-nil only when the script could not be carried out for a local reason (unsupported script, a server
// message that cannot be parsed, an unexpected message); alerts and a closed transport are reported in
// the result with a nil error.
func RunClient(conn net.Conn, s *ClientScript) (*ClientResult, error) {
	res := &ClientResult{Stage: "hello"}
	suite := suiteByID(s.Suite)
	if !CanSeal(suite) {
		return res, fmt.Errorf("tlsscript: suite %04x not implemented by the scripted endpoints", s.Suite)
	}
	if s.Version < 0x0301 || s.Version > 0x0303 || (suite.TLS12 && s.Version < 0x0303) {
		return res, fmt.Errorf("tlsscript: version %04x not usable with suite %04x", s.Version, s.Suite)
	}
	curve := s.Curve
	if curve == 0 {
		curve = 23
	}
	to := s.Timeout
	if to == 0 {
		to = 20 * time.Second
	}
	conn.SetDeadline(time.Now().Add(to))
	entropy := NewDetRand(s.Seed ^ 0xc11e47)
	sc := &sconn{c: conn, recVers: 0x0301}

	// peerEnded classifies a read error: alerts and a closed transport are outcomes, not script errors.
	peerEnded := func(err error) (bool, error) {
		var a Alert
		switch {
		case errors.As(err, &a):
			res.Alerts = append(res.Alerts, a)
			return true, nil
		case errors.Is(err, io.EOF), errors.Is(err, io.ErrUnexpectedEOF), errors.Is(err, io.ErrClosedPipe), errors.Is(err, net.ErrClosed):
			res.PeerClosed = true
			return true, nil
		}
		return false, err
	}

	// --- ClientHello
	cr := readN(entropy, 32)
	res.ClientRandom = cr
	var exts []Extension
	add := func(t int, d []byte) { exts = append(exts, Extension{Typ: uint16(t), Data: d}) }
	if s.SNI != "" {
		var w, l wr
		l.u8(0)
		l.vec16([]byte(s.SNI))
		w.vec16(l.b)
		add(extServerName, w.b)
	}
	if suite.Kx == "ecdhe" {
		add(extSupportedGroups, u16list16([]uint16{curve}))
		add(extECPointFormats, []byte{1, 0})
	}
	if s.Version >= 0x0303 {
		add(extSignatureAlgs, u16list16([]uint16{0x0401, 0x0403, 0x0804, 0x0501, 0x0503, 0x0805, 0x0601, 0x0603, 0x0806, 0x0807, 0x0201, 0x0203}))
	}
	add(extRenegotiationInfo, []byte{0})
	if len(s.ALPN) > 0 {
		var w, l wr
		for _, p := range s.ALPN {
			l.vec8([]byte(p))
		}
		w.vec16(l.b)
		add(extALPN, w.b)
	}
	if s.OfferTicket {
		add(extSessionTicket, nil)
	}
	chMsg := buildClientHello(s.Version, cr, s.SessionID, []uint16{s.Suite}, exts)
	if err := sc.writeFlight([][]byte{chMsg}, 0, false); err != nil {
		return res, err
	}

	// --- server flight
	res.Stage = "server-flight"
	var skx *ServerKeyExMsg
	var leaf *x509.Certificate
	for done := false; !done; {
		m, err := sc.readMsg()
		if err != nil {
			if ended, e := peerEnded(err); ended {
				return res, nil
			} else {
				return res, e
			}
		}
		sc.transcript = append(sc.transcript, m.Raw)
		switch m.Typ {
		case hsServerHello:
			sh, err := parseServerHello(m.Body)
			if err != nil {
				return res, err
			}
			res.ServerHello = sh
			if sh.Vers != s.Version || sh.Suite != s.Suite {
				return res, fmt.Errorf("server chose version %04x suite %04x, script requires %04x / %04x", sh.Vers, sh.Suite, s.Version, s.Suite)
			}
			sc.recVers = sh.Vers
		case hsCertificate:
			list, err := parseCertificate12(m.Body)
			if err != nil || len(list) == 0 {
				return res, fmt.Errorf("server Certificate unusable: %v", err)
			}
			res.ServerCertificates = list
			if leaf, err = x509.ParseCertificate(list[0]); err != nil {
				return res, err
			}
		case hsCertificateStatus:
		case hsServerKeyExchange:
			if skx, err = parseSKX(m.Body, suite.Kx, s.Version >= 0x0303); err != nil {
				return res, err
			}
		case hsCertificateRequest:
			res.CertificateRequested = true
			r := &rd{b: m.Body}
			r.vec8()
			if s.Version >= 0x0303 {
				l := &rd{b: r.vec16()}
				for !l.empty() && !l.bad {
					res.CertReqSigAlgs = append(res.CertReqSigAlgs, uint16(l.u16()))
				}
			}
		case hsServerHelloDone:
			done = true
		default:
			return res, fmt.Errorf("unexpected server handshake message %d", m.Typ)
		}
	}
	if res.ServerHello == nil || leaf == nil {
		return res, errors.New("server flight without ServerHello / Certificate")
	}
	sr := res.ServerHello.Random

	// --- key exchange
	var pms, ckxBody []byte
	switch suite.Kx {
	case "rsa":
		pub, ok := leaf.PublicKey.(*rsa.PublicKey)
		if !ok {
			return res, errors.New("RSA key exchange with a non-RSA server certificate")
		}
		pms = append([]byte{byte(s.Version >> 8), byte(s.Version)}, readN(entropy, 46)...)
		enc, err := rsa.EncryptPKCS1v15(entropy, pub, pms)
		if err != nil {
			return res, err
		}
		var w wr
		w.vec16(enc)
		ckxBody = w.b
	case "ecdhe":
		if skx == nil {
			return res, errors.New("ECDHE suite without ServerKeyExchange")
		}
		signed := append(append(append([]byte(nil), cr...), sr...), skx.Params...)
		res.ServerKeyExchangeValid = verifyContent(leaf.PublicKey, s.Version, uint16(skx.HashB)<<8|uint16(skx.SigB), signed, skx.Sig)
		cv := ecdhCurveByID(skx.NamedCurve)
		if cv == nil || skx.CurveType != 3 {
			return res, fmt.Errorf("server chose unsupported curve %d", skx.NamedCurve)
		}
		var eph *ecdh.PrivateKey
		eph, err := cv.GenerateKey(entropy)
		if err != nil {
			return res, err
		}
		pub, err := cv.NewPublicKey(skx.Point)
		if err != nil {
			return res, err
		}
		if pms, err = eph.ECDH(pub); err != nil {
			return res, err
		}
		var w wr
		w.vec8(eph.PublicKey().Bytes())
		ckxBody = w.b
	}
	master := refMaster(s.Version, suite.SHA384, pms, cr, sr)
	res.MasterSecret = master

	// --- client flight, as scripted
	res.Stage = "client-flight"
	certMsg := func(chain [][]byte) []byte {
		var l, b wr
		for _, der := range chain {
			l.u24(len(der))
			l.raw(der)
		}
		b.u24(len(l.b))
		b.raw(l.b)
		return hsWrap(hsCertificate, b.b)
	}
	send := func(m []byte) error {
		res.Sent = append(res.Sent, m[0])
		return sc.writeFlight([][]byte{m}, 0, false)
	}
	wantCert := (res.CertificateRequested || s.SendCertificateUnrequested) && !s.OmitCertificate
	sendChain := wantCert && !s.EmptyCertificate && len(s.Chain) > 0 && s.Key != nil
	sendCerts := func() error {
		if !wantCert {
			return nil
		}
		chain := s.Chain
		if !sendChain {
			chain = nil
		}
		n := 1
		if s.DuplicateCertificate {
			n = 2
		}
		for i := 0; i < n; i++ {
			if err := send(certMsg(chain)); err != nil {
				return err
			}
		}
		return nil
	}
	sendVerify := func() error {
		if !sendChain || s.OmitCertificateVerify {
			return nil
		}
		key := s.Key
		if s.VerifyKey != nil {
			key = s.VerifyKey
		}
		var scheme uint16
		var b wr
		if s.Version >= 0x0303 {
			offered := res.CertReqSigAlgs
			if len(offered) == 0 { // unrequested: no list to choose from
				offered = schemesFor(key.Public(), false)
			}
			if scheme = pickScheme(key.Public(), offered, false); scheme == 0 {
				return errors.New("no signature scheme of the client key is acceptable to the server")
			}
			b.u16(int(scheme))
			res.CertVerifyScheme = scheme
		}
		sig, err := signContent(key, entropy, s.Version, scheme, concat(sc.transcript))
		if err != nil {
			return err
		}
		if s.BadCertificateVerify {
			sig[len(sig)/2] ^= 0x10
		}
		b.vec16(sig)
		return send(hsWrap(hsCertificateVerify, b.b))
	}
	ckx := hsWrap(hsClientKeyExchange, ckxBody)
	var err error
	if s.CertificateAfterCKX {
		if err = send(ckx); err == nil {
			err = sendCerts()
		}
	} else {
		if err = sendCerts(); err == nil {
			err = send(ckx)
		}
	}
	if err == nil {
		err = sendVerify()
	}
	cW, sW := NewCipherStates(s.Version, suite, master, cr, sr, entropy)
	if err == nil {
		err = sc.writeRecord(recCCS, []byte{1})
	}
	if err == nil {
		sc.out = cW
		err = send(hsWrap(hsFinished, refFinished(s.Version, suite.SHA384, master, true, sc.transcript)))
		res.FinishedSent = err == nil
	}
	if err != nil {
		// the server may already have aborted; read what it said
		if ended, _ := peerEnded(err); !ended {
			res.PeerClosed = true
		}
	}

	// --- server's NewSessionTicket, ChangeCipherSpec, Finished
	res.Stage = "server-finished"
	for {
		m, err := sc.readMsg()
		if err == errCCS {
			sc.in = sW
			continue
		}
		if err != nil {
			if ended, e := peerEnded(err); ended {
				return res, nil
			} else {
				return res, e
			}
		}
		if m.Typ == hsNewSessionTicket && sc.in == nil {
			if res.NewSessionTicket, err = parseNST(m.Body); err != nil {
				return res, err
			}
			sc.transcript = append(sc.transcript, m.Raw)
			continue
		}
		if m.Typ == hsFinished && sc.in != nil {
			res.ServerFinishedVerified = hmac.Equal(m.Body, refFinished(s.Version, suite.SHA384, master, false, sc.transcript))
			res.HandshakeComplete = res.ServerFinishedVerified && res.FinishedSent
			break
		}
		return res, fmt.Errorf("unexpected server handshake message %d after the client flight", m.Typ)
	}

	// --- application data
	res.Stage = "app-data"
	if s.AppData != nil {
		if err := sc.writeRecord(recAppData, s.AppData); err != nil {
			res.PeerClosed = true
			return res, nil
		}
	}
	for len(res.AppDataReceived) < s.ReadReply {
		typ, p, err := sc.readPlain()
		if err != nil {
			if ended, e := peerEnded(err); ended {
				return res, nil
			} else {
				return res, e
			}
		}
		switch typ {
		case recAppData:
			res.AppDataReceived = append(res.AppDataReceived, p...)
		case recAlert:
			if len(p) == 2 {
				res.Alerts = append(res.Alerts, Alert{p[0], p[1]})
			}
			return res, nil
		}
	}
	res.Stage = "done"
	return res, nil
}
