package tlsscript

// Record layer shared by the scripted server and the scripted client: record protection (sealing and
// opening, RFC 5246 6.2.3 / RFC 5288 / RFC 2246 6.2.3.2), record and handshake-message I/O with a
// transcript, and the signature helper used for ServerKeyExchange and CertificateVerify.

import (
	"crypto"
	"crypto/aes"
	"crypto/cipher"
	"crypto/ecdsa"
	"crypto/ed25519"
	"crypto/hmac"
	"crypto/rsa"
	"crypto/sha1"
	"crypto/sha256"
	"encoding/binary"
	"errors"
	"fmt"
	"io"
	"net"
	"sync"
)

// CipherState protects or opens the records of one direction.
type CipherState struct {
	vers    uint16
	s       *suiteDesc
	key     []byte
	iv      []byte // fixed IV (AEAD) or current CBC IV (TLS 1.0 chaining)
	mac     []byte
	seq     uint64
	entropy io.Reader
}

// NewCipherStates derives the key block from the master secret and returns the client-write and
// server-write states of a connection.
func NewCipherStates(vers uint16, suite *Suite, master, clientRandom, serverRandom []byte, entropy io.Reader) (clientWrite, serverWrite *CipherState) {
	kb := refKeyBlock(vers, suite, master, clientRandom, serverRandom)
	clientWrite = &CipherState{vers: vers, s: suite, key: kb.cKey, iv: kb.cIV, mac: kb.cMac, entropy: entropy}
	serverWrite = &CipherState{vers: vers, s: suite, key: kb.sKey, iv: kb.sIV, mac: kb.sMac, entropy: entropy}
	return
}

func (cs *CipherState) aad(typ byte, recVers uint16, n int) []byte {
	var b [13]byte
	binary.BigEndian.PutUint64(b[:8], cs.seq)
	b[8], b[9], b[10], b[11], b[12] = typ, byte(recVers>>8), byte(recVers), byte(n>>8), byte(n)
	return b[:]
}

// Seal protects one fragment and returns the record payload.
func (cs *CipherState) Seal(typ byte, recVers uint16, pt []byte) ([]byte, error) {
	defer func() { cs.seq++ }()
	switch cs.s.Cipher {
	case "aes-gcm":
		blk, err := aes.NewCipher(cs.key)
		if err != nil {
			return nil, err
		}
		g, err := cipher.NewGCM(blk)
		if err != nil {
			return nil, err
		}
		var explicit [8]byte
		binary.BigEndian.PutUint64(explicit[:], cs.seq)
		nonce := append(append([]byte(nil), cs.iv...), explicit[:]...)
		return g.Seal(explicit[:], nonce, pt, cs.aad(typ, recVers, len(pt))), nil
	case "aes-cbc":
		hf := sha1.New
		if cs.s.Mac == "sha256" {
			hf = sha256.New
		}
		m := hmac.New(hf, cs.mac)
		m.Write(cs.aad(typ, recVers, len(pt)))
		m.Write(pt)
		data := append(append([]byte(nil), pt...), m.Sum(nil)...)
		bs := 16
		pad := bs - (len(data)+1)%bs
		if pad == bs {
			pad = 0
		}
		for i := 0; i <= pad; i++ {
			data = append(data, byte(pad))
		}
		blk, err := aes.NewCipher(cs.key)
		if err != nil {
			return nil, err
		}
		var out []byte
		iv := cs.iv
		if cs.vers >= 0x0302 {
			iv = make([]byte, bs)
			if _, err := io.ReadFull(cs.entropy, iv); err != nil {
				return nil, err
			}
			out = append(out, iv...)
		}
		ct := make([]byte, len(data))
		cipher.NewCBCEncrypter(blk, iv).CryptBlocks(ct, data)
		if cs.vers < 0x0302 {
			cs.iv = append([]byte(nil), ct[len(ct)-bs:]...)
		}
		return append(out, ct...), nil
	}
	return nil, fmt.Errorf("tlsscript: cannot seal %s", cs.s.Cipher)
}

// Open opens the next protected record of the direction.
func (cs *CipherState) Open(rec Record) ([]byte, error) {
	pt, err := openRecord12(cs.vers, cs.s, cs.key, cs.iv, cs.mac, cs.seq, rec)
	if err != nil {
		return nil, err
	}
	cs.seq++
	if cs.s.Cipher == "aes-cbc" && cs.vers < 0x0302 {
		cs.iv = append([]byte(nil), rec.Payload[len(rec.Payload)-16:]...)
	}
	return pt, nil
}

// CanSeal reports whether the scripted endpoints implement the suite (key exchange RSA or ECDHE,
// AES-GCM or AES-CBC record protection).
func CanSeal(s *Suite) bool {
	return s != nil && (s.Kx == "rsa" || s.Kx == "ecdhe") && (s.Cipher == "aes-gcm" || s.Cipher == "aes-cbc")
}

// Alert is a received alert record.
type Alert struct {
	Level, Description byte
}

func (a Alert) Error() string {
	return fmt.Sprintf("alert level %d description %d", a.Level, a.Description)
}

var errCCS = errors.New("change_cipher_spec")

// sconn is one endpoint's view of the connection.
type sconn struct {
	c          net.Conn
	recVers    uint16
	in, out    *CipherState
	hsbuf      []byte
	transcript [][]byte
}

func (sc *sconn) readRecord() (Record, error) {
	var h [5]byte
	if _, err := io.ReadFull(sc.c, h[:]); err != nil {
		return Record{}, err
	}
	n := int(h[3])<<8 | int(h[4])
	p := make([]byte, n)
	if _, err := io.ReadFull(sc.c, p); err != nil {
		return Record{}, err
	}
	return Record{Typ: h[0], Ver: uint16(h[1])<<8 | uint16(h[2]), Header: h[:], Payload: p}, nil
}

// readPlain reads one record and returns its type and (opened) content.
func (sc *sconn) readPlain() (byte, []byte, error) {
	r, err := sc.readRecord()
	if err != nil {
		return 0, nil, err
	}
	p := r.Payload
	if sc.in != nil {
		if p, err = sc.in.Open(r); err != nil {
			return r.Typ, nil, fmt.Errorf("opening peer record: %v", err)
		}
	}
	return r.Typ, p, nil
}

// readMsg returns the next handshake message, errCCS on ChangeCipherSpec, an Alert on an alert record.
func (sc *sconn) readMsg() (HandshakeMsg, error) {
	for {
		if len(sc.hsbuf) >= 4 {
			n := int(sc.hsbuf[1])<<16 | int(sc.hsbuf[2])<<8 | int(sc.hsbuf[3])
			if len(sc.hsbuf) >= 4+n {
				m := HandshakeMsg{Typ: sc.hsbuf[0], Raw: append([]byte(nil), sc.hsbuf[:4+n]...)}
				m.Body = m.Raw[4:]
				sc.hsbuf = sc.hsbuf[4+n:]
				return m, nil
			}
		}
		typ, p, err := sc.readPlain()
		if err != nil {
			return HandshakeMsg{}, err
		}
		switch typ {
		case recHandshake:
			sc.hsbuf = append(sc.hsbuf, p...)
		case recCCS:
			if len(sc.hsbuf) != 0 {
				return HandshakeMsg{}, errors.New("ChangeCipherSpec inside a handshake message")
			}
			return HandshakeMsg{}, errCCS
		case recAlert:
			if len(p) == 2 {
				return HandshakeMsg{}, Alert{p[0], p[1]}
			}
			return HandshakeMsg{}, fmt.Errorf("malformed alert %x", p)
		default:
			return HandshakeMsg{}, fmt.Errorf("unexpected record type %d", typ)
		}
	}
}

func (sc *sconn) writeRecord(typ byte, frag []byte) error {
	p := frag
	if sc.out != nil {
		var err error
		if p, err = sc.out.Seal(typ, sc.recVers, frag); err != nil {
			return err
		}
	}
	var w wr
	w.u8(int(typ))
	w.u16(int(sc.recVers))
	w.vec16(p)
	_, err := sc.c.Write(w.b)
	return err
}

// writeFlight sends handshake messages, one record per message or as a coalesced stream, cut into
// fragments of at most frag bytes, and appends them to the transcript.
func (sc *sconn) writeFlight(msgs [][]byte, frag int, coalesce bool) error {
	if frag <= 0 || frag > 16384 {
		frag = 16384
	}
	streams := msgs
	if coalesce {
		var all []byte
		for _, m := range msgs {
			all = append(all, m...)
		}
		streams = [][]byte{all}
	}
	for _, s := range streams {
		for len(s) > 0 {
			n := len(s)
			if n > frag {
				n = frag
			}
			if err := sc.writeRecord(recHandshake, s[:n]); err != nil {
				return err
			}
			s = s[n:]
		}
	}
	sc.transcript = append(sc.transcript, msgs...)
	return nil
}

func hsWrap(typ int, body []byte) []byte {
	var m wr
	m.u8(typ)
	m.u24(len(body))
	m.raw(body)
	return m.b
}

func concat(parts [][]byte) []byte {
	var out []byte
	for _, p := range parts {
		out = append(out, p...)
	}
	return out
}

// ---- signatures over handshake content (ServerKeyExchange params, CertificateVerify) ------------

var schemeHash = map[uint16]crypto.Hash{0x0201: crypto.SHA1, 0x0401: crypto.SHA256, 0x0501: crypto.SHA384, 0x0601: crypto.SHA512,
	0x0203: crypto.SHA1, 0x0403: crypto.SHA256, 0x0503: crypto.SHA384, 0x0603: crypto.SHA512,
	0x0804: crypto.SHA256, 0x0805: crypto.SHA384, 0x0806: crypto.SHA512}

// schemesFor lists the TLS 1.2 signature schemes a key can use, most conventional first.
func schemesFor(pub crypto.PublicKey, preferPSS bool) []uint16 {
	switch pub.(type) {
	case *rsa.PublicKey:
		if preferPSS {
			return []uint16{0x0804, 0x0805, 0x0806, 0x0401, 0x0501, 0x0601, 0x0201}
		}
		return []uint16{0x0401, 0x0501, 0x0601, 0x0804, 0x0805, 0x0806, 0x0201}
	case *ecdsa.PublicKey:
		return []uint16{0x0403, 0x0503, 0x0603, 0x0203}
	case ed25519.PublicKey:
		return []uint16{0x0807}
	}
	return nil
}

// pickScheme returns the first scheme of the key that the peer offered (0 if none).
func pickScheme(pub crypto.PublicKey, offered []uint16, preferPSS bool) uint16 {
	for _, c := range schemesFor(pub, preferPSS) {
		for _, o := range offered {
			if o == c {
				return c
			}
		}
	}
	return 0
}

// signContent signs content as TLS does: before TLS 1.2 with MD5+SHA-1 (RSA) or SHA-1 (ECDSA), in
// TLS 1.2 with the given scheme.
func signContent(key crypto.Signer, entropy io.Reader, vers, scheme uint16, content []byte) ([]byte, error) {
	sum := func(h crypto.Hash) []byte { x := h.New(); x.Write(content); return x.Sum(nil) }
	if vers < 0x0303 {
		switch key.Public().(type) {
		case *rsa.PublicKey:
			return key.Sign(entropy, append(sum(crypto.MD5), sum(crypto.SHA1)...), crypto.MD5SHA1)
		case *ecdsa.PublicKey:
			return key.Sign(entropy, sum(crypto.SHA1), crypto.SHA1)
		}
		return nil, errors.New("tlsscript: key type has no pre-TLS 1.2 signature")
	}
	if scheme == 0x0807 {
		return key.Sign(entropy, content, crypto.Hash(0))
	}
	h, ok := schemeHash[scheme]
	if !ok {
		return nil, fmt.Errorf("tlsscript: unknown signature scheme %04x", scheme)
	}
	var opts crypto.SignerOpts = h
	if scheme>>8 == 8 {
		opts = &rsa.PSSOptions{SaltLength: rsa.PSSSaltLengthEqualsHash, Hash: h}
	}
	return key.Sign(entropy, sum(h), opts)
}

// verifyContent is the inverse of signContent.
func verifyContent(pub crypto.PublicKey, vers, scheme uint16, content, sig []byte) bool {
	sum := func(h crypto.Hash) []byte { x := h.New(); x.Write(content); return x.Sum(nil) }
	if vers < 0x0303 {
		switch p := pub.(type) {
		case *rsa.PublicKey:
			return rsa.VerifyPKCS1v15(p, crypto.MD5SHA1, append(sum(crypto.MD5), sum(crypto.SHA1)...), sig) == nil
		case *ecdsa.PublicKey:
			return ecdsa.VerifyASN1(p, sum(crypto.SHA1), sig)
		}
		return false
	}
	if scheme == 0x0807 {
		p, ok := pub.(ed25519.PublicKey)
		return ok && ed25519.Verify(p, content, sig)
	}
	h, ok := schemeHash[scheme]
	if !ok {
		return false
	}
	switch p := pub.(type) {
	case *rsa.PublicKey:
		if scheme>>8 == 8 {
			return rsa.VerifyPSS(p, h, sum(h), sig, &rsa.PSSOptions{SaltLength: rsa.PSSSaltLengthEqualsHash}) == nil
		}
		return byte(scheme) == 1 && rsa.VerifyPKCS1v15(p, h, sum(h), sig) == nil
	case *ecdsa.PublicKey:
		return byte(scheme) == 3 && ecdsa.VerifyASN1(p, sum(h), sig)
	}
	return false
}

// DetRand is a deterministic byte stream (xorshift) for scripts: replayable "randomness".
type DetRand struct {
	mu sync.Mutex
	s  uint64
}

// NewDetRand seeds a stream.
func NewDetRand(seed uint64) *DetRand {
	if seed == 0 {
		seed = 0x9e3779b97f4a7c15
	}
	return &DetRand{s: seed}
}

func (d *DetRand) Read(p []byte) (int, error) {
	d.mu.Lock()
	defer d.mu.Unlock()
	for i := range p {
		d.s ^= d.s << 13
		d.s ^= d.s >> 7
		d.s ^= d.s << 17
		p[i] = byte(d.s >> 24)
	}
	return len(p), nil
}

func readN(r io.Reader, n int) []byte {
	b := make([]byte, n)
	io.ReadFull(r, b)
	return b
}
