package tlsscript

// Reference key derivation, Finished computation, record opening and signature verification for the
// C28 oracle, written from RFC 2246 (5, 6.3, 7.4.9), RFC 5246 (5, 6.2.3, 6.3, 7.4.9, 7.4.3), RFC 5288,
// RFC 7905, RFC 8446 (5.2, 5.3, 7.1, 7.3) on top of Go's hash / cipher / signature primitives. Nothing
// here imports zcrypto.

import (
	"bytes"
	"crypto"
	"crypto/aes"
	"crypto/cipher"
	"crypto/des"
	"crypto/ecdsa"
	"crypto/ed25519"
	"crypto/hmac"
	"crypto/md5"
	"crypto/rc4"
	"crypto/rsa"
	"crypto/sha1"
	"crypto/sha256"
	"crypto/sha512"
	"crypto/x509"
	"encoding/binary"
	"errors"
	"fmt"
	"hash"

	"golang.org/x/crypto/chacha20poly1305"
)

// ---- suite table (IANA TLS Cipher Suites registry) -----------------------------

type suiteDesc struct {
	ID     uint16
	Name   string
	Kx     string // rsa | ecdhe | dhe | tls13
	Auth   string // rsa | ecdsa | "" (tls13)
	Cipher string // aes-gcm | chacha | aes-cbc | 3des-cbc | rc4
	KeyLen int
	MacLen int    // HMAC length for cbc / rc4 suites
	Mac    string // sha1 | sha256
	IVLen  int    // fixed IV taken from the key block
	SHA384 bool   // PRF / transcript hash is SHA-384 (TLS 1.2, TLS 1.3)
	TLS12  bool   // defined for TLS 1.2 only
	GoPeer bool   // implemented by Go's crypto/tls server
	ZTable bool   // in zcrypto's default client table (otherwise the client needs ForceSuites)
}

var suiteTable = []suiteDesc{
	{0x0005, "RSA_RC4_128_SHA", "rsa", "rsa", "rc4", 16, 20, "sha1", 0, false, false, true, true},
	{0x000a, "RSA_3DES_EDE_CBC_SHA", "rsa", "rsa", "3des-cbc", 24, 20, "sha1", 8, false, false, true, true},
	{0x002f, "RSA_AES_128_CBC_SHA", "rsa", "rsa", "aes-cbc", 16, 20, "sha1", 16, false, false, true, true},
	{0x0035, "RSA_AES_256_CBC_SHA", "rsa", "rsa", "aes-cbc", 32, 20, "sha1", 16, false, false, true, true},
	{0x003c, "RSA_AES_128_CBC_SHA256", "rsa", "rsa", "aes-cbc", 16, 32, "sha256", 16, false, true, true, true},
	{0x003d, "RSA_AES_256_CBC_SHA256", "rsa", "rsa", "aes-cbc", 32, 32, "sha256", 16, false, true, false, false},
	{0x009c, "RSA_AES_128_GCM_SHA256", "rsa", "rsa", "aes-gcm", 16, 0, "", 4, false, true, true, true},
	{0x009d, "RSA_AES_256_GCM_SHA384", "rsa", "rsa", "aes-gcm", 32, 0, "", 4, true, true, true, true},
	{0x0016, "DHE_RSA_3DES_EDE_CBC_SHA", "dhe", "rsa", "3des-cbc", 24, 20, "sha1", 8, false, false, false, false},
	{0x0033, "DHE_RSA_AES_128_CBC_SHA", "dhe", "rsa", "aes-cbc", 16, 20, "sha1", 16, false, false, false, false},
	{0x0039, "DHE_RSA_AES_256_CBC_SHA", "dhe", "rsa", "aes-cbc", 32, 20, "sha1", 16, false, false, false, false},
	{0x0067, "DHE_RSA_AES_128_CBC_SHA256", "dhe", "rsa", "aes-cbc", 16, 32, "sha256", 16, false, true, false, false},
	{0x006b, "DHE_RSA_AES_256_CBC_SHA256", "dhe", "rsa", "aes-cbc", 32, 32, "sha256", 16, false, true, false, false},
	{0x009e, "DHE_RSA_AES_128_GCM_SHA256", "dhe", "rsa", "aes-gcm", 16, 0, "", 4, false, true, false, false},
	{0x009f, "DHE_RSA_AES_256_GCM_SHA384", "dhe", "rsa", "aes-gcm", 32, 0, "", 4, true, true, false, false},
	{0xccaa, "DHE_RSA_CHACHA20_POLY1305", "dhe", "rsa", "chacha", 32, 0, "", 12, false, true, false, false},
	{0xc007, "ECDHE_ECDSA_RC4_128_SHA", "ecdhe", "ecdsa", "rc4", 16, 20, "sha1", 0, false, false, true, true},
	{0xc009, "ECDHE_ECDSA_AES_128_CBC_SHA", "ecdhe", "ecdsa", "aes-cbc", 16, 20, "sha1", 16, false, false, true, true},
	{0xc00a, "ECDHE_ECDSA_AES_256_CBC_SHA", "ecdhe", "ecdsa", "aes-cbc", 32, 20, "sha1", 16, false, false, true, true},
	{0xc023, "ECDHE_ECDSA_AES_128_CBC_SHA256", "ecdhe", "ecdsa", "aes-cbc", 16, 32, "sha256", 16, false, true, true, true},
	{0xc02b, "ECDHE_ECDSA_AES_128_GCM_SHA256", "ecdhe", "ecdsa", "aes-gcm", 16, 0, "", 4, false, true, true, true},
	{0xc02c, "ECDHE_ECDSA_AES_256_GCM_SHA384", "ecdhe", "ecdsa", "aes-gcm", 32, 0, "", 4, true, true, true, true},
	{0xcca9, "ECDHE_ECDSA_CHACHA20_POLY1305", "ecdhe", "ecdsa", "chacha", 32, 0, "", 12, false, true, true, true},
	{0xc011, "ECDHE_RSA_RC4_128_SHA", "ecdhe", "rsa", "rc4", 16, 20, "sha1", 0, false, false, true, true},
	{0xc012, "ECDHE_RSA_3DES_EDE_CBC_SHA", "ecdhe", "rsa", "3des-cbc", 24, 20, "sha1", 8, false, false, true, true},
	{0xc013, "ECDHE_RSA_AES_128_CBC_SHA", "ecdhe", "rsa", "aes-cbc", 16, 20, "sha1", 16, false, false, true, true},
	{0xc014, "ECDHE_RSA_AES_256_CBC_SHA", "ecdhe", "rsa", "aes-cbc", 32, 20, "sha1", 16, false, false, true, true},
	{0xc027, "ECDHE_RSA_AES_128_CBC_SHA256", "ecdhe", "rsa", "aes-cbc", 16, 32, "sha256", 16, false, true, true, true},
	{0xc02f, "ECDHE_RSA_AES_128_GCM_SHA256", "ecdhe", "rsa", "aes-gcm", 16, 0, "", 4, false, true, true, true},
	{0xc030, "ECDHE_RSA_AES_256_GCM_SHA384", "ecdhe", "rsa", "aes-gcm", 32, 0, "", 4, true, true, true, true},
	{0xcca8, "ECDHE_RSA_CHACHA20_POLY1305", "ecdhe", "rsa", "chacha", 32, 0, "", 12, false, true, true, true},
	{0x1301, "TLS13_AES_128_GCM_SHA256", "tls13", "", "aes-gcm", 16, 0, "", 12, false, false, true, true},
	{0x1302, "TLS13_AES_256_GCM_SHA384", "tls13", "", "aes-gcm", 32, 0, "", 12, true, false, true, true},
	{0x1303, "TLS13_CHACHA20_POLY1305_SHA256", "tls13", "", "chacha", 32, 0, "", 12, false, false, true, true},
}

func suiteByID(id uint16) *suiteDesc {
	for i := range suiteTable {
		if suiteTable[i].ID == id {
			return &suiteTable[i]
		}
	}
	return nil
}

// ---- TLS 1.0 - 1.2 PRF ---------------------------------------------------------

func pHash(h func() hash.Hash, secret, seed []byte, n int) []byte {
	var out []byte
	mac := hmac.New(h, secret)
	mac.Write(seed)
	a := mac.Sum(nil)
	for len(out) < n {
		mac.Reset()
		mac.Write(a)
		mac.Write(seed)
		out = mac.Sum(out)
		mac.Reset()
		mac.Write(a)
		a = mac.Sum(nil)
	}
	return out[:n]
}

// prf computes PRF(secret, label, seed) for the protocol version; sha384 selects the TLS 1.2 PRF hash.
func prf(vers uint16, sha384 bool, secret []byte, label string, seed []byte, n int) []byte {
	ls := append([]byte(label), seed...)
	if vers >= 0x0303 {
		if sha384 {
			return pHash(sha512.New384, secret, ls, n)
		}
		return pHash(sha256.New, secret, ls, n)
	}
	half := (len(secret) + 1) / 2
	s1, s2 := secret[:half], secret[len(secret)-half:]
	a := pHash(md5.New, s1, ls, n)
	b := pHash(sha1.New, s2, ls, n)
	for i := range a {
		a[i] ^= b[i]
	}
	return a
}

func refMaster(vers uint16, sha384 bool, pms, cr, sr []byte) []byte {
	return prf(vers, sha384, pms, "master secret", append(append([]byte(nil), cr...), sr...), 48)
}

// refEMS is the RFC 7627 extended master secret over the session hash.
func refEMS(vers uint16, sha384 bool, pms, sessionHash []byte) []byte {
	return prf(vers, sha384, pms, "extended master secret", sessionHash, 48)
}

// transcriptHash is the handshake hash of the version: MD5||SHA-1 before TLS 1.2, the PRF hash in TLS 1.2.
func transcriptHash(vers uint16, sha384 bool, msgs [][]byte) []byte {
	if vers >= 0x0303 {
		var h hash.Hash = sha256.New()
		if sha384 {
			h = sha512.New384()
		}
		for _, m := range msgs {
			h.Write(m)
		}
		return h.Sum(nil)
	}
	m5, s1 := md5.New(), sha1.New()
	for _, m := range msgs {
		m5.Write(m)
		s1.Write(m)
	}
	return s1.Sum(m5.Sum(nil))
}

func refFinished(vers uint16, sha384 bool, master []byte, client bool, msgs [][]byte) []byte {
	label := "server finished"
	if client {
		label = "client finished"
	}
	return prf(vers, sha384, master, label, transcriptHash(vers, sha384, msgs), 12)
}

type keyBlock struct {
	cMac, sMac, cKey, sKey, cIV, sIV []byte
}

func refKeyBlock(vers uint16, s *suiteDesc, master, cr, sr []byte) keyBlock {
	n := 2*s.MacLen + 2*s.KeyLen + 2*s.IVLen
	kb := prf(vers, s.SHA384, master, "key expansion", append(append([]byte(nil), sr...), cr...), n)
	var k keyBlock
	cut := func(l int) []byte { v := kb[:l]; kb = kb[l:]; return v }
	k.cMac, k.sMac = cut(s.MacLen), cut(s.MacLen)
	k.cKey, k.sKey = cut(s.KeyLen), cut(s.KeyLen)
	k.cIV, k.sIV = cut(s.IVLen), cut(s.IVLen)
	return k
}

// openRecord12 opens the protected record with sequence number seq of one direction (TLS 1.0 - 1.2)
// and returns the plaintext fragment. The MAC of block / stream suites is verified.
func openRecord12(vers uint16, s *suiteDesc, key, iv, macKey []byte, seq uint64, rec wireRec) ([]byte, error) {
	var seqb [8]byte
	binary.BigEndian.PutUint64(seqb[:], seq)
	ct := rec.Payload
	aad := func(n int) []byte {
		return append(append(append([]byte(nil), seqb[:]...), rec.Header[0], rec.Header[1], rec.Header[2]), byte(n>>8), byte(n))
	}
	switch s.Cipher {
	case "aes-gcm":
		blk, err := aes.NewCipher(key)
		if err != nil {
			return nil, err
		}
		g, err := cipher.NewGCM(blk)
		if err != nil {
			return nil, err
		}
		if len(ct) < 8+16 {
			return nil, errors.New("short AEAD record")
		}
		nonce := append(append([]byte(nil), iv...), ct[:8]...)
		return g.Open(nil, nonce, ct[8:], aad(len(ct)-8-16))
	case "chacha":
		a, err := chacha20poly1305.New(key)
		if err != nil {
			return nil, err
		}
		if len(ct) < 16 {
			return nil, errors.New("short AEAD record")
		}
		nonce := append([]byte(nil), iv...)
		for i := 0; i < 8; i++ {
			nonce[4+i] ^= seqb[i]
		}
		return a.Open(nil, nonce, ct, aad(len(ct)-16))
	case "aes-cbc", "3des-cbc":
		var blk cipher.Block
		var err error
		if s.Cipher == "aes-cbc" {
			blk, err = aes.NewCipher(key)
		} else {
			blk, err = des.NewTripleDESCipher(key)
		}
		if err != nil {
			return nil, err
		}
		bs := blk.BlockSize()
		civ := iv
		if vers >= 0x0302 { // explicit IV (RFC 4346 6.2.3.2)
			if len(ct) < bs {
				return nil, errors.New("short CBC record")
			}
			civ, ct = ct[:bs], ct[bs:]
		}
		// TLS 1.0 (RFC 2246 6.2.3.2): the IV is the key-block IV for the first record and the last
		// ciphertext block of the previous record afterwards; the caller passes the current one as iv
		if len(ct) == 0 || len(ct)%bs != 0 {
			return nil, errors.New("CBC record not a multiple of the block size")
		}
		pt := make([]byte, len(ct))
		cipher.NewCBCDecrypter(blk, civ).CryptBlocks(pt, ct)
		pad := int(pt[len(pt)-1])
		if pad+1+s.MacLen > len(pt) {
			return nil, errors.New("bad CBC padding length")
		}
		for _, b := range pt[len(pt)-1-pad:] {
			if int(b) != pad {
				return nil, errors.New("bad CBC padding bytes")
			}
		}
		pt = pt[:len(pt)-1-pad]
		return checkMAC(s, macKey, aad, pt)
	case "rc4":
		c, err := rc4.NewCipher(key)
		if err != nil {
			return nil, err
		}
		if seq != 0 {
			return nil, errors.New("RC4 stream state beyond the first record is not modelled")
		}
		pt := make([]byte, len(ct))
		c.XORKeyStream(pt, ct)
		return checkMAC(s, macKey, aad, pt)
	}
	return nil, fmt.Errorf("cipher %q not modelled", s.Cipher)
}

func checkMAC(s *suiteDesc, macKey []byte, aad func(int) []byte, ptmac []byte) ([]byte, error) {
	if len(ptmac) < s.MacLen {
		return nil, errors.New("record shorter than its MAC")
	}
	pt, mac := ptmac[:len(ptmac)-s.MacLen], ptmac[len(ptmac)-s.MacLen:]
	hf := sha1.New
	if s.Mac == "sha256" {
		hf = sha256.New
	}
	m := hmac.New(hf, macKey)
	m.Write(aad(len(pt)))
	m.Write(pt)
	if !hmac.Equal(m.Sum(nil), mac) {
		return nil, errors.New("record MAC mismatch")
	}
	return pt, nil
}

// ---- TLS 1.3 --------------------------------------------------------------------

func hkdfExpand(h func() hash.Hash, prk, info []byte, n int) []byte {
	var out, t []byte
	for i := byte(1); len(out) < n; i++ {
		m := hmac.New(h, prk)
		m.Write(t)
		m.Write(info)
		m.Write([]byte{i})
		t = m.Sum(nil)
		out = append(out, t...)
	}
	return out[:n]
}

func hkdfExpandLabel(h func() hash.Hash, secret []byte, label string, context []byte, n int) []byte {
	var w wr
	w.u16(n)
	w.vec8([]byte("tls13 " + label))
	w.vec8(context)
	return hkdfExpand(h, secret, w.b, n)
}

// open13 opens the protected records of one direction with a traffic secret and returns the inner
// handshake bytes up to and including the first Finished, plus the number of records consumed.
func open13(s *suiteDesc, secret []byte, recs []wireRec) (hsBytes []byte, used int, err error) {
	hf := sha256.New
	if s.SHA384 {
		hf = sha512.New384
	}
	key := hkdfExpandLabel(hf, secret, "key", nil, s.KeyLen)
	iv := hkdfExpandLabel(hf, secret, "iv", nil, 12)
	var a cipher.AEAD
	if s.Cipher == "chacha" {
		a, err = chacha20poly1305.New(key)
	} else {
		var blk cipher.Block
		if blk, err = aes.NewCipher(key); err == nil {
			a, err = cipher.NewGCM(blk)
		}
	}
	if err != nil {
		return nil, 0, err
	}
	for i, r := range recs {
		nonce := append([]byte(nil), iv...)
		var seqb [8]byte
		binary.BigEndian.PutUint64(seqb[:], uint64(i))
		for j := 0; j < 8; j++ {
			nonce[4+j] ^= seqb[j]
		}
		pt, e := a.Open(nil, nonce, r.Payload, r.Header)
		if e != nil {
			return hsBytes, i, fmt.Errorf("record %d: %v", i, e)
		}
		for len(pt) > 0 && pt[len(pt)-1] == 0 {
			pt = pt[:len(pt)-1]
		}
		if len(pt) == 0 {
			return hsBytes, i, errors.New("empty inner plaintext")
		}
		typ := pt[len(pt)-1]
		pt = pt[:len(pt)-1]
		used = i + 1
		if typ != recHandshake {
			return hsBytes, used, nil
		}
		hsBytes = append(hsBytes, pt...)
		// stop once a complete Finished has been seen
		b := hsBytes
		for len(b) >= 4 {
			n := int(b[1])<<16 | int(b[2])<<8 | int(b[3])
			if len(b) < 4+n {
				break
			}
			if b[0] == hsFinished {
				return hsBytes, used, nil
			}
			b = b[4+n:]
		}
	}
	return hsBytes, used, nil
}

func splitHandshake(b []byte, dir int) []hsMsg {
	var out []hsMsg
	for len(b) >= 4 {
		n := int(b[1])<<16 | int(b[2])<<8 | int(b[3])
		if len(b) < 4+n {
			break
		}
		out = append(out, hsMsg{Typ: b[0], Raw: b[:4+n], Body: b[4 : 4+n]})
		b = b[4+n:]
	}
	return out
}

// ---- ServerKeyExchange signature -------------------------------------------------

// wireSigNames gives the names of the two SignatureAndHashAlgorithm bytes (RFC 5246 7.4.1.4.1) or,
// for the RFC 8446 code points 0x08xx, the accepted renderings: the hash byte is "intrinsic" or the
// scheme's own hash; the signature byte names the RSA-PSS / EdDSA family.
func wireSigNames(hashB, sigB byte) (hashNames, sigNames []string, known bool) {
	h5246 := map[byte]string{0: "none", 1: "md5", 2: "sha1", 3: "sha224", 4: "sha256", 5: "sha384", 6: "sha512"}
	s5246 := map[byte][]string{0: {"anonymous"}, 1: {"rsa", "pkcs1v15"}, 2: {"dsa"}, 3: {"ecdsa"}}
	if hashB == 8 {
		switch sigB {
		case 4, 9:
			return []string{"intrinsic", "sha256"}, []string{"rsapss", "rsa", "rsa_pss"}, true
		case 5, 10:
			return []string{"intrinsic", "sha384"}, []string{"rsapss", "rsa", "rsa_pss"}, true
		case 6, 11:
			return []string{"intrinsic", "sha512"}, []string{"rsapss", "rsa", "rsa_pss"}, true
		case 7:
			return []string{"intrinsic", "none", "sha512"}, []string{"ed25519", "eddsa"}, true
		case 8:
			return []string{"intrinsic", "none", "shake256"}, []string{"ed448", "eddsa"}, true
		}
		return []string{"intrinsic"}, nil, false
	}
	hn, ok1 := h5246[hashB]
	sn, ok2 := s5246[sigB]
	if !ok1 || !ok2 {
		return nil, nil, false
	}
	return []string{hn}, sn, true
}

func hashByName(n string) crypto.Hash {
	switch n {
	case "md5":
		return crypto.MD5
	case "sha1":
		return crypto.SHA1
	case "sha224":
		return crypto.SHA224
	case "sha256":
		return crypto.SHA256
	case "sha384":
		return crypto.SHA384
	case "sha512":
		return crypto.SHA512
	}
	return 0
}

// skxDigestAndVerify computes what the server signed (RFC 5246 7.4.3: client_random + server_random +
// params, hashed with the algorithm named on the wire; MD5+SHA-1 / SHA-1 before TLS 1.2) and verifies
// the signature with the leaf's public key using Go's primitives. digest is nil where there is no
// pre-hash (Ed25519).
func skxDigestAndVerify(leaf *x509.Certificate, vers uint16, auth string, s *skxWire, cr, sr []byte) (digest []byte, valid bool, note string) {
	signed := append(append(append([]byte(nil), cr...), sr...), s.Params...)
	sum := func(h crypto.Hash) []byte { x := h.New(); x.Write(signed); return x.Sum(nil) }
	if vers < 0x0303 {
		switch pub := leaf.PublicKey.(type) {
		case *rsa.PublicKey:
			d := append(sum(crypto.MD5), sum(crypto.SHA1)...)
			return d, rsa.VerifyPKCS1v15(pub, crypto.MD5SHA1, d, s.Sig) == nil, "md5sha1/rsa"
		case *ecdsa.PublicKey:
			d := sum(crypto.SHA1)
			return d, ecdsa.VerifyASN1(pub, d, s.Sig), "sha1/ecdsa"
		}
		return nil, false, "unsupported legacy key"
	}
	if s.HashB == 8 {
		switch s.SigB {
		case 4, 5, 6, 9, 10, 11:
			h := map[byte]crypto.Hash{4: crypto.SHA256, 5: crypto.SHA384, 6: crypto.SHA512, 9: crypto.SHA256, 10: crypto.SHA384, 11: crypto.SHA512}[s.SigB]
			pub, ok := leaf.PublicKey.(*rsa.PublicKey)
			if !ok {
				return sum(h), false, "pss with non-RSA key"
			}
			d := sum(h)
			return d, rsa.VerifyPSS(pub, h, d, s.Sig, &rsa.PSSOptions{SaltLength: rsa.PSSSaltLengthEqualsHash}) == nil, "pss"
		case 7:
			pub, ok := leaf.PublicKey.(ed25519.PublicKey)
			if !ok {
				return nil, false, "ed25519 with other key"
			}
			return nil, ed25519.Verify(pub, signed, s.Sig), "ed25519"
		}
		return nil, false, "unknown 0x08xx scheme"
	}
	hn, _, known := wireSigNames(s.HashB, s.SigB)
	if !known {
		return nil, false, "unknown algorithm bytes"
	}
	h := hashByName(hn[0])
	if h == 0 || !h.Available() {
		return nil, false, "hash unavailable"
	}
	d := sum(h)
	switch s.SigB {
	case 1:
		pub, ok := leaf.PublicKey.(*rsa.PublicKey)
		if !ok {
			return d, false, "rsa with other key"
		}
		return d, rsa.VerifyPKCS1v15(pub, h, d, s.Sig) == nil, "pkcs1"
	case 3:
		pub, ok := leaf.PublicKey.(*ecdsa.PublicKey)
		if !ok {
			return d, false, "ecdsa with other key"
		}
		return d, ecdsa.VerifyASN1(pub, d, s.Sig), "ecdsa"
	}
	return d, false, "signature algorithm not modelled"
}

var _ = bytes.Equal
