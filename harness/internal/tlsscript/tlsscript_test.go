package tlsscript

import (
	"fmt"
	"testing"

	ztls "github.com/zmap/zcrypto/tls"

	"verifharness/internal/netx"
	"verifharness/internal/tlspair"
)

// runAgainstZ runs a scripted client against a zcrypto server over an in-memory pipe.
func runAgainstZ(t *testing.T, cs *ClientScript, sc *ztls.Config) (*ClientResult, error, error) {
	t.Helper()
	a, b, _ := netx.Pipe(netx.Options{}, netx.Options{})
	srv := ztls.Server(b, sc)
	serr := make(chan error, 1)
	go func() {
		err := srv.Handshake()
		if err == nil {
			buf := make([]byte, 4)
			if _, err = srv.Read(buf); err == nil {
				_, err = srv.Write([]byte("pong"))
			}
		}
		if err != nil {
			b.Close()
		}
		serr <- err
	}()
	res, err := RunClient(a, cs)
	a.Close()
	return res, err, <-serr
}

func TestConformingClientAgainstZcrypto(t *testing.T) {
	pki := tlspair.Get()
	type row struct {
		vers, suite uint16
		kind        string
	}
	rows := []row{{0x0303, 0xc02f, tlspair.RSA2048}, {0x0303, 0x009c, tlspair.RSA2048}, {0x0301, 0x002f, tlspair.RSA2048},
		{0x0302, 0xc013, tlspair.RSA2048}, {0x0303, 0xc02b, tlspair.P256}, {0x0301, 0xc009, tlspair.P256}}
	for _, r := range rows {
		for _, auth := range []ztls.ClientAuthType{ztls.NoClientCert, ztls.RequireAnyClientCert} {
			sc := tlspair.BaseServer(5, r.kind)
			sc.MinVersion, sc.MaxVersion = ztls.VersionTLS10, r.vers
			sc.CipherSuites = []uint16{r.suite}
			sc.ClientAuth = auth
			cl := pki.Client[tlspair.P256]
			cs := &ClientScript{Version: r.vers, Suite: r.suite, SNI: tlspair.ServerName, Chain: cl.Chain, Key: cl.Key,
				AppData: []byte("ping"), ReadReply: 4, Seed: 9}
			res, err, serr := runAgainstZ(t, cs, sc)
			name := fmt.Sprintf("%04x/%04x/%s/auth=%d", r.vers, r.suite, r.kind, auth)
			if err != nil || serr != nil || !res.HandshakeComplete || string(res.AppDataReceived) != "pong" {
				t.Errorf("%s: err=%v serr=%v result=%+v", name, err, serr, res)
				continue
			}
			if res.CertificateRequested != (auth != ztls.NoClientCert) {
				t.Errorf("%s: CertificateRequested=%v", name, res.CertificateRequested)
			}
			t.Logf("%s ok: sent=%v cvScheme=%04x skxValid=%v", name, res.Sent, res.CertVerifyScheme, res.ServerKeyExchangeValid)
		}
	}
}

func TestDeviationsAgainstZcrypto(t *testing.T) {
	pki := tlspair.Get()
	cl := pki.Client[tlspair.RSA2048]
	for _, dev := range []string{"omit-certificate", "empty-certificate", "omit-verify", "bad-verify", "cert-after-ckx", "duplicate-cert", "unrequested"} {
		sc := tlspair.BaseServer(5, tlspair.RSA2048)
		sc.MinVersion, sc.MaxVersion = ztls.VersionTLS10, ztls.VersionTLS12
		sc.CipherSuites = []uint16{0xc02f}
		sc.ClientAuth = ztls.RequireAnyClientCert
		cs := &ClientScript{Version: 0x0303, Suite: 0xc02f, SNI: tlspair.ServerName, Chain: cl.Chain, Key: cl.Key, Seed: 3}
		switch dev {
		case "omit-certificate":
			cs.OmitCertificate = true
		case "empty-certificate":
			cs.EmptyCertificate = true
		case "omit-verify":
			cs.OmitCertificateVerify = true
		case "bad-verify":
			cs.BadCertificateVerify = true
		case "cert-after-ckx":
			cs.CertificateAfterCKX = true
		case "duplicate-cert":
			cs.DuplicateCertificate = true
		case "unrequested":
			cs.SendCertificateUnrequested = true
			sc.ClientAuth = ztls.NoClientCert
		}
		res, err, serr := runAgainstZ(t, cs, sc)
		if err != nil {
			t.Errorf("%s: script error %v", dev, err)
			continue
		}
		// a server that requires a certificate must not complete any of these handshakes
		if res.HandshakeComplete || serr == nil {
			t.Errorf("%s: handshake completed (server error %v) sent=%v", dev, serr, res.Sent)
		}
		t.Logf("%s: sent=%v complete=%v alerts=%v closed=%v stage=%s server=%v", dev, res.Sent, res.HandshakeComplete, res.Alerts, res.PeerClosed, res.Stage, serr)
	}
}

func TestClientAgainstScriptedServer(t *testing.T) {
	pki := tlspair.Get()
	for _, r := range []struct {
		vers, suite, curve uint16
		kind               string
		reqCert            bool
	}{{0x0303, 0xc02f, 29, tlspair.RSA2048, true}, {0x0301, 0x002f, 0, tlspair.RSA2048, false}, {0x0303, 0xc02b, 24, tlspair.P384, true}, {0x0302, 0xc013, 23, tlspair.RSA2048, true}} {
		leaf := pki.Server[r.kind]
		srv, err := NewServer(leaf.Chain, leaf.Key, r.vers, r.suite, r.curve, 11)
		if err != nil {
			t.Fatal(err)
		}
		a, b, _ := netx.Pipe(netx.Options{}, netx.Options{})
		type out struct {
			r *ServerResult
			e error
		}
		ch := make(chan out, 1)
		go func() {
			sr, e := srv.Serve(b, ServerScript{SIDMode: "fresh", TicketExt: true, NST: &Ticket{Value: []byte("ticket"), Hint: 7}, RequestCert: r.reqCert,
				ALPN: "verif/1", Frag: 100, AppReply: []byte("pong")})
			if e != nil {
				b.Close()
			}
			ch <- out{sr, e}
		}()
		cl := pki.Client[tlspair.P256]
		res, err := RunClient(a, &ClientScript{Version: r.vers, Suite: r.suite, Curve: r.curve, SNI: "x.test", ALPN: []string{"verif/1"}, OfferTicket: true,
			Chain: cl.Chain, Key: cl.Key, AppData: []byte("ping"), ReadReply: 4, Seed: 2})
		a.Close()
		o := <-ch
		want := ""
		if r.reqCert {
			want = "valid"
		}
		if err != nil || o.e != nil || !res.HandshakeComplete || !o.r.FinishedVerified || string(res.AppDataReceived) != "pong" || string(o.r.AppData) != "ping" ||
			res.NewSessionTicket == nil || string(res.NewSessionTicket.Ticket) != "ticket" || o.r.CertificateVerify != want {
			t.Errorf("%04x/%04x: err=%v serr=%v res=%+v srv=%+v", r.vers, r.suite, err, o.e, res, o.r)
		}
	}
}
