// Package tlsscript holds scripted TLS 1.0-1.2 endpoints for the /verif monitors: peers that can do what
// no real TLS stack will (odd but legal server choices, non-conforming clients), built on an own wire parser
// (wire.go) and own reference derivations (refcrypto.go: PRF, EMS, key block, Finished, record opening;
// conn.go: record sealing, signatures). Nothing here imports zcrypto or crypto/tls.
//
// Client:  res, err := RunClient(conn, &ClientScript{Version: 0x0303, Suite: 0xc02f, SNI: "server.test",
//
//	Chain: chainDER, Key: signer, OmitCertificate: true, AppData: []byte("ping"), ReadReply: 4, Seed: 1})
//
// drives ClientHello -> [server flight] -> [Certificate] ClientKeyExchange [CertificateVerify] CCS Finished ->
// [NewSessionTicket] CCS Finished -> optional application data over any net.Conn (use one end of netx.Pipe and
// run the server under test on the other end in a goroutine). Suites: RSA or ECDHE (P-256/384/521, X25519)
// key exchange with AES-128/256-GCM or AES-CBC-SHA/SHA256 (CanSeal tells). Behaviour flags (OmitCertificate,
// EmptyCertificate, OmitCertificateVerify, BadCertificateVerify / VerifyKey, CertificateAfterCKX,
// DuplicateCertificate, SendCertificateUnrequested) change what is sent; Finished always covers the messages
// actually sent, so a server that completes the handshake has accepted the deviation itself.
// ClientResult says what happened: HandshakeComplete, ServerFinishedVerified, Alerts received, PeerClosed,
// AppDataReceived, Sent (message types in order), CertificateRequested, Stage. err != nil only for local
// reasons (unsupported script, unparsable or unexpected server message, watchdog).
//
// Server:  srv, _ := NewServer(chainDER, signer, 0x0303, 0xc02f, 23, seed); res, err := srv.Serve(conn, ServerScript{...})
// full and abbreviated handshakes with scripted ServerHello extensions, NewSessionTicket of any length/hint,
// session-id handling, CertificateStatus, SCTs, fragmentation, optional CertificateRequest (the client's
// answer is reported in ServerResult, not enforced); srv.KeyLog() gives CLIENT_RANDOM lines.
//
// Also exported: SplitTap / Interpret (tap -> records -> handshake messages), Parse* for hello, certificate,
// key-exchange and ticket messages, SuiteByID, PRF, MasterSecret, ExtendedMasterSecret, FinishedVerifyData,
// NewCipherStates / CipherState.Seal / Open, OpenRecord, DetRand.
package tlsscript
