package tlsscript

// Independent TLS wire parser for the C28 monitor: tapped byte stream -> records ->
// handshake messages -> ClientHello / ServerHello / Certificate / ServerKeyExchange /
// ClientKeyExchange / NewSessionTicket. Written from RFC 5246 (sections 6.2, 7.4), RFC 4492,
// RFC 5077, RFC 6066, RFC 7301, RFC 6962, RFC 7627 and RFC 8446 (section 4); it shares no code with
// zcrypto (no cryptobyte, no zcrypto message types).

import (
	"fmt"
	"math/big"

	"verifharness/internal/netx"
)

// ---- byte reader ------------------------------------------------------------

type rd struct {
	b   []byte
	bad bool
}

func (r *rd) take(n int) []byte {
	if r.bad || n < 0 || len(r.b) < n {
		r.bad = true
		return nil
	}
	v := r.b[:n]
	r.b = r.b[n:]
	return v
}
func (r *rd) u8() int {
	v := r.take(1)
	if v == nil {
		return 0
	}
	return int(v[0])
}
func (r *rd) u16() int {
	v := r.take(2)
	if v == nil {
		return 0
	}
	return int(v[0])<<8 | int(v[1])
}
func (r *rd) u24() int {
	v := r.take(3)
	if v == nil {
		return 0
	}
	return int(v[0])<<16 | int(v[1])<<8 | int(v[2])
}
func (r *rd) u32() uint32 {
	v := r.take(4)
	if v == nil {
		return 0
	}
	return uint32(v[0])<<24 | uint32(v[1])<<16 | uint32(v[2])<<8 | uint32(v[3])
}
func (r *rd) vec8() []byte  { return r.take(r.u8()) }
func (r *rd) vec16() []byte { return r.take(r.u16()) }
func (r *rd) vec24() []byte { return r.take(r.u24()) }
func (r *rd) empty() bool   { return len(r.b) == 0 }

// ---- records ----------------------------------------------------------------

const (
	recCCS       = 20
	recAlert     = 21
	recHandshake = 22
	recAppData   = 23
)

type wireRec struct {
	Dir     netx.Dir
	Typ     byte
	Ver     uint16
	Header  []byte // the five header bytes
	Payload []byte
}

type hsMsg struct {
	Dir  netx.Dir
	Typ  byte
	Body []byte
	Raw  []byte // header + body
	Rec  int    // index (in wire order) of the record that completed the message
}

// handshake message types (RFC 5246 7.4, RFC 8446 4)
const (
	hsClientHello        = 1
	hsServerHello        = 2
	hsNewSessionTicket   = 4
	hsEncryptedExts      = 8
	hsCertificate        = 11
	hsServerKeyExchange  = 12
	hsCertificateRequest = 13
	hsServerHelloDone    = 14
	hsCertificateVerify  = 15
	hsClientKeyExchange  = 16
	hsFinished           = 20
	hsCertificateStatus  = 22
)

// splitTap turns the tapped writes into records in wire order.
func splitTap(tap []netx.TapRec) (recs []wireRec, leftover [2]int) {
	var buf [2][]byte
	for _, t := range tap {
		d := int(t.Dir)
		buf[d] = append(buf[d], t.Data...)
		for len(buf[d]) >= 5 {
			n := int(buf[d][3])<<8 | int(buf[d][4])
			if len(buf[d]) < 5+n {
				break
			}
			r := wireRec{Dir: t.Dir, Typ: buf[d][0], Ver: uint16(buf[d][1])<<8 | uint16(buf[d][2]),
				Header: append([]byte(nil), buf[d][:5]...), Payload: append([]byte(nil), buf[d][5:5+n]...)}
			recs = append(recs, r)
			buf[d] = buf[d][5+n:]
		}
	}
	leftover[0], leftover[1] = len(buf[0]), len(buf[1])
	return
}

// wireView is the interpreted transcript.
type wireView struct {
	Recs   []wireRec
	Msgs   []hsMsg // plaintext handshake messages in wire order
	TLS13  bool
	Enc    [2][]wireRec // protected records per direction, in order
	CCS    [2]int       // number of ChangeCipherSpec records per direction
	CCSIdx [2]int       // wire-order index of the first ChangeCipherSpec record per direction (-1 = none)
	Alerts []wireRec    // unprotected alert records
	Notes  []string
}

// interpret walks the records. Before TLS 1.3 everything a direction sends after its
// ChangeCipherSpec is protected; in TLS 1.3 handshake-typed records are always plaintext hellos and
// the protected records carry the application_data type, ChangeCipherSpec being a dummy.
func interpret(recs []wireRec) *wireView {
	w := &wireView{Recs: recs, CCSIdx: [2]int{-1, -1}}
	var hb [2][]byte
	for ri, r := range recs {
		d := int(r.Dir)
		switch r.Typ {
		case recCCS:
			if w.CCS[d] == 0 {
				w.CCSIdx[d] = ri
			}
			w.CCS[d]++
		case recHandshake:
			if !w.TLS13 && w.CCS[d] > 0 {
				w.Enc[d] = append(w.Enc[d], r)
				continue
			}
			hb[d] = append(hb[d], r.Payload...)
			for len(hb[d]) >= 4 {
				n := int(hb[d][1])<<16 | int(hb[d][2])<<8 | int(hb[d][3])
				if len(hb[d]) < 4+n {
					break
				}
				m := hsMsg{Dir: r.Dir, Typ: hb[d][0], Raw: append([]byte(nil), hb[d][:4+n]...), Rec: ri}
				m.Body = m.Raw[4:]
				hb[d] = hb[d][4+n:]
				w.Msgs = append(w.Msgs, m)
				if m.Typ == hsServerHello && r.Dir == netx.BtoA {
					if sh, err := parseServerHello(m.Body); err == nil && sh.SelectedVersion == 0x0304 {
						w.TLS13 = true
					}
				}
			}
		case recAppData:
			w.Enc[d] = append(w.Enc[d], r)
		case recAlert:
			if !w.TLS13 && w.CCS[d] > 0 {
				w.Enc[d] = append(w.Enc[d], r)
			} else {
				w.Alerts = append(w.Alerts, r)
			}
		default:
			w.Notes = append(w.Notes, fmt.Sprintf("record of unknown type %d", r.Typ))
		}
	}
	for d := 0; d < 2; d++ {
		if len(hb[d]) != 0 {
			w.Notes = append(w.Notes, fmt.Sprintf("dir %d: %d trailing bytes of an incomplete handshake message", d, len(hb[d])))
		}
	}
	return w
}

func (w *wireView) find(dir netx.Dir, typ byte) []hsMsg {
	var out []hsMsg
	for _, m := range w.Msgs {
		if m.Dir == dir && m.Typ == typ {
			out = append(out, m)
		}
	}
	return out
}

// ---- hello messages ---------------------------------------------------------

type extn struct {
	Typ  uint16
	Data []byte
	Raw  []byte // type + length + data
}

// extension numbers (IANA TLS ExtensionType registry)
const (
	extServerName        = 0
	extStatusRequest     = 5
	extSupportedGroups   = 10
	extECPointFormats    = 11
	extSignatureAlgs     = 13
	extHeartbeat         = 15
	extALPN              = 16
	extSCT               = 18
	extEMS               = 23
	extSessionTicket     = 35
	extExtendedRandom    = 40 // not IANA assigned (draft-rescorla-tls-extended-random)
	extPreSharedKey      = 41
	extSupportedVersions = 43
	extCookie            = 44
	extKeyShare          = 51
	extRenegotiationInfo = 0xff01
)

type keyShareEntry struct {
	Group uint16
	Data  []byte
}

type clientHello struct {
	Vers      uint16
	Random    []byte
	SessionID []byte
	Suites    []uint16
	Comp      []byte
	HasExts   bool
	Exts      []extn

	HasSNI        bool
	ServerName    string
	StatusRequest bool
	Groups        []uint16
	HasGroups     bool
	Points        []byte
	HasPoints     bool
	SigAlgs       []uint16
	HasSigAlgs    bool
	ALPN          []string
	HasALPN       bool
	SCT           bool
	EMS           bool
	HasTicket     bool
	Ticket        []byte
	Versions      []uint16
	HasVersions   bool
	KeyShares     []keyShareEntry
	HasReneg      bool
	RenegData     []byte
	SCSV          bool
	Heartbeat     bool
	ExtRandom     []byte
	HasExtRandom  bool
	PSKIdentities [][]byte
}

func parseExts(r *rd) ([]extn, error) {
	var out []extn
	for !r.empty() {
		start := r.b
		t := r.u16()
		d := r.vec16()
		if r.bad {
			return nil, fmt.Errorf("truncated extension")
		}
		out = append(out, extn{Typ: uint16(t), Data: d, Raw: start[:4+len(d)]})
	}
	return out, nil
}

func parseClientHello(body []byte) (*clientHello, error) {
	r := &rd{b: body}
	ch := &clientHello{}
	ch.Vers = uint16(r.u16())
	ch.Random = r.take(32)
	ch.SessionID = r.vec8()
	sr := &rd{b: r.vec16()}
	ch.Comp = r.vec8()
	if r.bad {
		return nil, fmt.Errorf("truncated ClientHello")
	}
	for !sr.empty() {
		s := uint16(sr.u16())
		if sr.bad {
			return nil, fmt.Errorf("odd cipher suite vector")
		}
		if s == 0x00ff {
			ch.SCSV = true
		}
		ch.Suites = append(ch.Suites, s)
	}
	if r.empty() {
		return ch, nil
	}
	ch.HasExts = true
	er := &rd{b: r.vec16()}
	if r.bad || !r.empty() {
		return nil, fmt.Errorf("bad ClientHello extension block")
	}
	var err error
	if ch.Exts, err = parseExts(er); err != nil {
		return nil, err
	}
	for _, e := range ch.Exts {
		x := &rd{b: e.Data}
		switch e.Typ {
		case extServerName:
			ch.HasSNI = true
			l := &rd{b: x.vec16()}
			for !l.empty() && !l.bad {
				nt := l.u8()
				name := l.vec16()
				if nt == 0 && ch.ServerName == "" {
					ch.ServerName = string(name)
				}
			}
			x.bad = x.bad || l.bad
		case extStatusRequest:
			ch.StatusRequest = true
		case extSupportedGroups:
			ch.HasGroups = true
			l := &rd{b: x.vec16()}
			for !l.empty() && !l.bad {
				ch.Groups = append(ch.Groups, uint16(l.u16()))
			}
			x.bad = x.bad || l.bad
		case extECPointFormats:
			ch.HasPoints = true
			ch.Points = x.vec8()
		case extSignatureAlgs:
			ch.HasSigAlgs = true
			l := &rd{b: x.vec16()}
			for !l.empty() && !l.bad {
				ch.SigAlgs = append(ch.SigAlgs, uint16(l.u16()))
			}
			x.bad = x.bad || l.bad
		case extHeartbeat:
			ch.Heartbeat = true
		case extALPN:
			ch.HasALPN = true
			l := &rd{b: x.vec16()}
			for !l.empty() && !l.bad {
				ch.ALPN = append(ch.ALPN, string(l.vec8()))
			}
			x.bad = x.bad || l.bad
		case extSCT:
			ch.SCT = true
		case extEMS:
			ch.EMS = true
		case extSessionTicket:
			ch.HasTicket = true
			ch.Ticket = e.Data
		case extSupportedVersions:
			ch.HasVersions = true
			l := &rd{b: x.vec8()}
			for !l.empty() && !l.bad {
				ch.Versions = append(ch.Versions, uint16(l.u16()))
			}
			x.bad = x.bad || l.bad
		case extKeyShare:
			l := &rd{b: x.vec16()}
			for !l.empty() && !l.bad {
				g := uint16(l.u16())
				ch.KeyShares = append(ch.KeyShares, keyShareEntry{g, l.vec16()})
			}
			x.bad = x.bad || l.bad
		case extRenegotiationInfo:
			ch.HasReneg = true
			ch.RenegData = x.vec8()
		case extExtendedRandom:
			ch.HasExtRandom = true
			ch.ExtRandom = x.vec16()
		case extPreSharedKey:
			l := &rd{b: x.vec16()}
			for !l.empty() && !l.bad {
				id := l.vec16()
				l.u32()
				ch.PSKIdentities = append(ch.PSKIdentities, id)
			}
			x.bad = x.bad || l.bad
		}
		if x.bad {
			return nil, fmt.Errorf("malformed ClientHello extension %d", e.Typ)
		}
	}
	return ch, nil
}

type serverHello struct {
	Vers      uint16
	Random    []byte
	SessionID []byte
	Suite     uint16
	Comp      byte
	HasExts   bool
	Exts      []extn

	StatusRequest   bool
	Ticket          bool
	HasReneg        bool
	RenegData       []byte
	EMS             bool
	ALPN            string
	HasALPN         bool
	SCTs            [][]byte
	SelectedVersion uint16
	KeyShareGroup   uint16 // from key_share, both the ServerHello and the HelloRetryRequest form
	KeyShareData    []byte
	Heartbeat       bool
	ExtRandom       []byte
	IsHRR           bool
}

// hrrRandom is the special ServerHello.random of a HelloRetryRequest (RFC 8446 4.1.3: SHA-256 of "HelloRetryRequest").
var hrrRandom = []byte{0xCF, 0x21, 0xAD, 0x74, 0xE5, 0x9A, 0x61, 0x11, 0xBE, 0x1D, 0x8C, 0x02, 0x1E, 0x65, 0xB8, 0x91,
	0xC2, 0xA2, 0x11, 0x16, 0x7A, 0xBB, 0x8C, 0x5E, 0x07, 0x9E, 0x09, 0xE2, 0xC8, 0xA8, 0x33, 0x9C}

func parseServerHello(body []byte) (*serverHello, error) {
	r := &rd{b: body}
	sh := &serverHello{}
	sh.Vers = uint16(r.u16())
	sh.Random = r.take(32)
	sh.SessionID = r.vec8()
	sh.Suite = uint16(r.u16())
	sh.Comp = byte(r.u8())
	if r.bad {
		return nil, fmt.Errorf("truncated ServerHello")
	}
	sh.IsHRR = string(sh.Random) == string(hrrRandom)
	if r.empty() {
		return sh, nil
	}
	sh.HasExts = true
	er := &rd{b: r.vec16()}
	if r.bad || !r.empty() {
		return nil, fmt.Errorf("bad ServerHello extension block")
	}
	var err error
	if sh.Exts, err = parseExts(er); err != nil {
		return nil, err
	}
	for _, e := range sh.Exts {
		x := &rd{b: e.Data}
		switch e.Typ {
		case extStatusRequest:
			sh.StatusRequest = true
		case extSessionTicket:
			sh.Ticket = true
		case extRenegotiationInfo:
			sh.HasReneg = true
			sh.RenegData = x.vec8()
		case extEMS:
			sh.EMS = true
		case extHeartbeat:
			sh.Heartbeat = true
		case extALPN:
			sh.HasALPN = true
			l := &rd{b: x.vec16()}
			sh.ALPN = string(l.vec8())
			x.bad = x.bad || l.bad
		case extSCT:
			l := &rd{b: x.vec16()}
			for !l.empty() && !l.bad {
				sh.SCTs = append(sh.SCTs, l.vec16())
			}
			x.bad = x.bad || l.bad
		case extSupportedVersions:
			sh.SelectedVersion = uint16(x.u16())
		case extKeyShare:
			sh.KeyShareGroup = uint16(x.u16())
			if !x.empty() {
				sh.KeyShareData = x.vec16()
			}
		case extExtendedRandom:
			sh.ExtRandom = x.vec16()
		}
		if x.bad {
			return nil, fmt.Errorf("malformed ServerHello extension %d", e.Typ)
		}
	}
	return sh, nil
}

// ---- other messages ---------------------------------------------------------

// parseCertificate12 parses the TLS <= 1.2 Certificate body (RFC 5246 7.4.2).
func parseCertificate12(body []byte) ([][]byte, error) {
	r := &rd{b: body}
	l := &rd{b: r.vec24()}
	if r.bad || !r.empty() {
		return nil, fmt.Errorf("bad certificate_list")
	}
	var out [][]byte
	for !l.empty() {
		c := l.vec24()
		if l.bad {
			return nil, fmt.Errorf("truncated certificate entry")
		}
		out = append(out, c)
	}
	return out, nil
}

// parseCertificate13 parses the TLS 1.3 Certificate body (RFC 8446 4.4.2).
func parseCertificate13(body []byte) ([][]byte, error) {
	r := &rd{b: body}
	r.vec8() // certificate_request_context
	l := &rd{b: r.vec24()}
	if r.bad || !r.empty() {
		return nil, fmt.Errorf("bad certificate_list")
	}
	var out [][]byte
	for !l.empty() {
		c := l.vec24()
		l.vec16() // extensions
		if l.bad {
			return nil, fmt.Errorf("truncated CertificateEntry")
		}
		out = append(out, c)
	}
	return out, nil
}

type skxWire struct {
	Params []byte // the signed ServerDHParams / ServerECDHParams bytes
	// ECDHE
	CurveType  int
	NamedCurve uint16
	Point      []byte
	// DHE
	P, G, Ys *big.Int
	// signature
	HasAlg   bool
	HashB    byte
	SigB     byte
	Sig      []byte
	HasSig   bool
	SigWhole []byte // everything after the params (algorithm bytes + length + signature)
}

// parseSKX parses ServerKeyExchange for the (EC)DHE_RSA / ECDHE_ECDSA key exchanges
// (RFC 5246 7.4.3, RFC 4492 5.4). tls12 selects the presence of SignatureAndHashAlgorithm.
func parseSKX(body []byte, kx string, tls12 bool) (*skxWire, error) {
	r := &rd{b: body}
	s := &skxWire{}
	switch kx {
	case "ecdhe":
		s.CurveType = r.u8()
		s.NamedCurve = uint16(r.u16())
		s.Point = r.vec8()
	case "dhe":
		s.P = new(big.Int).SetBytes(r.vec16())
		s.G = new(big.Int).SetBytes(r.vec16())
		s.Ys = new(big.Int).SetBytes(r.vec16())
	default:
		return nil, fmt.Errorf("no ServerKeyExchange defined for key exchange %q", kx)
	}
	if r.bad {
		return nil, fmt.Errorf("truncated ServerKeyExchange params")
	}
	s.Params = body[:len(body)-len(r.b)]
	s.SigWhole = r.b
	if tls12 {
		s.HasAlg = true
		s.HashB = byte(r.u8())
		s.SigB = byte(r.u8())
	}
	s.Sig = r.vec16()
	if r.bad || !r.empty() {
		return nil, fmt.Errorf("malformed ServerKeyExchange signature")
	}
	s.HasSig = true
	return s, nil
}

type nstWire struct {
	Lifetime uint32
	Ticket   []byte
}

// parseNST parses NewSessionTicket (RFC 5077 3.3).
func parseNST(body []byte) (*nstWire, error) {
	r := &rd{b: body}
	n := &nstWire{Lifetime: r.u32()}
	n.Ticket = r.vec16()
	if r.bad || !r.empty() {
		return nil, fmt.Errorf("malformed NewSessionTicket")
	}
	return n, nil
}

// parseEncryptedExtensions returns the extensions of a TLS 1.3 EncryptedExtensions body.
func parseEncryptedExtensions(body []byte) ([]extn, error) {
	r := &rd{b: body}
	er := &rd{b: r.vec16()}
	if r.bad || !r.empty() {
		return nil, fmt.Errorf("bad EncryptedExtensions")
	}
	return parseExts(er)
}

// ---- builder (for ExternalClientHello cases) --------------------------------

type wr struct{ b []byte }

func (w *wr) u8(v int)            { w.b = append(w.b, byte(v)) }
func (w *wr) u16(v int)           { w.b = append(w.b, byte(v>>8), byte(v)) }
func (w *wr) u24(v int)           { w.b = append(w.b, byte(v>>16), byte(v>>8), byte(v)) }
func (w *wr) raw(p []byte)        { w.b = append(w.b, p...) }
func (w *wr) vec8(p []byte)       { w.u8(len(p)); w.raw(p) }
func (w *wr) vec16(p []byte)      { w.u16(len(p)); w.raw(p) }
func (w *wr) ext(t int, d []byte) { w.u16(t); w.vec16(d) }

// buildClientHello serialises a ClientHello handshake message (header included) from the decoded view.
func buildClientHello(vers uint16, random, sid []byte, suites []uint16, exts []extn) []byte {
	var b wr
	b.u16(int(vers))
	b.raw(random)
	b.vec8(sid)
	var s wr
	for _, x := range suites {
		s.u16(int(x))
	}
	b.vec16(s.b)
	b.vec8([]byte{0})
	if len(exts) > 0 {
		var e wr
		for _, x := range exts {
			e.ext(int(x.Typ), x.Data)
		}
		b.vec16(e.b)
	}
	var m wr
	m.u8(hsClientHello)
	m.u24(len(b.b))
	m.raw(b.b)
	return m.b
}

func u16list16(v []uint16) []byte {
	var w, in wr
	for _, x := range v {
		in.u16(int(x))
	}
	w.vec16(in.b)
	return w.b
}
