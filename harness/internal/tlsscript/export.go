package tlsscript

import "verifharness/internal/netx"

// Exported names of the wire parser and the reference derivations (the implementations live in
// wire.go and refcrypto.go).

type (
	Record         = wireRec     // one TLS record (type, version, header, payload)
	HandshakeMsg   = hsMsg       // one handshake message (Typ, Body, Raw = header+body)
	Transcript     = wireView    // interpreted tap: plaintext handshake messages in wire order, protected records, CCS positions
	Extension      = extn        // raw extension (Typ, Data, Raw)
	ClientHelloMsg = clientHello // decoded ClientHello
	ServerHelloMsg = serverHello // decoded ServerHello
	ServerKeyExMsg = skxWire     // decoded (EC)DHE ServerKeyExchange
	NewTicketMsg   = nstWire     // decoded NewSessionTicket
	Suite          = suiteDesc   // cipher-suite description (key exchange, authentication, cipher, PRF hash)
)

// Handshake message types.
const (
	TypeClientHello        = hsClientHello
	TypeServerHello        = hsServerHello
	TypeNewSessionTicket   = hsNewSessionTicket
	TypeCertificate        = hsCertificate
	TypeServerKeyExchange  = hsServerKeyExchange
	TypeCertificateRequest = hsCertificateRequest
	TypeServerHelloDone    = hsServerHelloDone
	TypeCertificateVerify  = hsCertificateVerify
	TypeClientKeyExchange  = hsClientKeyExchange
	TypeFinished           = hsFinished
	TypeCertificateStatus  = hsCertificateStatus
)

// SplitTap turns tapped writes into records in wire order; Interpret reassembles the handshake.
func SplitTap(tap []netx.TapRec) ([]Record, [2]int) { return splitTap(tap) }
func Interpret(recs []Record) *Transcript           { return interpret(recs) }

// Find returns the plaintext handshake messages of a type sent in one direction.
func (w *wireView) Find(dir netx.Dir, typ byte) []HandshakeMsg { return w.find(dir, typ) }

func ParseClientHello(body []byte) (*ClientHelloMsg, error) { return parseClientHello(body) }
func ParseServerHello(body []byte) (*ServerHelloMsg, error) { return parseServerHello(body) }
func ParseCertificate(body []byte) ([][]byte, error)        { return parseCertificate12(body) }
func ParseCertificateTLS13(body []byte) ([][]byte, error)   { return parseCertificate13(body) }
func ParseNewSessionTicket(body []byte) (*NewTicketMsg, error) {
	return parseNST(body)
}

// ParseServerKeyExchange parses a ServerKeyExchange for kx "ecdhe" or "dhe"; tls12 selects the presence
// of the SignatureAndHashAlgorithm bytes.
func ParseServerKeyExchange(body []byte, kx string, tls12 bool) (*ServerKeyExMsg, error) {
	return parseSKX(body, kx, tls12)
}

// SuiteByID looks a cipher suite up in the package's table (nil if unknown).
func SuiteByID(id uint16) *Suite { return suiteByID(id) }

// PRF is the TLS 1.0-1.2 pseudo-random function (sha384 selects the TLS 1.2 PRF hash).
func PRF(vers uint16, sha384 bool, secret []byte, label string, seed []byte, n int) []byte {
	return prf(vers, sha384, secret, label, seed, n)
}

// MasterSecret and ExtendedMasterSecret derive the 48-byte master secret (RFC 5246 8.1, RFC 7627 4).
func MasterSecret(vers uint16, sha384 bool, pms, clientRandom, serverRandom []byte) []byte {
	return refMaster(vers, sha384, pms, clientRandom, serverRandom)
}
func ExtendedMasterSecret(vers uint16, sha384 bool, pms, sessionHash []byte) []byte {
	return refEMS(vers, sha384, pms, sessionHash)
}

// TranscriptHash is the handshake hash of the version over raw handshake messages.
func TranscriptHash(vers uint16, sha384 bool, msgs [][]byte) []byte {
	return transcriptHash(vers, sha384, msgs)
}

// FinishedVerifyData computes verify_data over the raw handshake messages exchanged so far.
func FinishedVerifyData(vers uint16, sha384 bool, master []byte, client bool, msgs [][]byte) []byte {
	return refFinished(vers, sha384, master, client, msgs)
}

// OpenRecord opens one protected TLS 1.0-1.2 record given the direction's key material.
func OpenRecord(vers uint16, s *Suite, key, iv, macKey []byte, seq uint64, rec Record) ([]byte, error) {
	return openRecord12(vers, s, key, iv, macKey, seq, rec)
}
