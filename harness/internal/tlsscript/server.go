package tlsscript

import (
	"crypto"
	"crypto/ecdh"
	"crypto/hmac"
	"crypto/rsa"
	"crypto/x509"
	"errors"
	"fmt"
	"io"
	"net"
	"strings"
	"sync"
)

// Ticket is the content of a NewSessionTicket the server sends (any length including zero, any hint).
type Ticket struct {
	Value []byte
	Hint  uint32
}

// ServerScript says how the scripted server behaves on one connection.
type ServerScript struct {
	Flow        string // "full" (default), "resume" (accept a presented, known ticket; else full) or "decline"
	SIDMode     string // full handshakes: "echo" (only if the client presented no ticket), "fresh", "" = empty
	TicketExt   bool   // put session_ticket into the ServerHello when the client offered it; requires NST
	NST         *Ticket
	ALPN        string // protocol to select when the client offers ALPN ("" = no extension)
	Unknown     []Extension
	OCSP        []byte   // CertificateStatus content (sent with the status_request extension when the client asked)
	SCTs        [][]byte // signed_certificate_timestamp extension content
	RenegInfo   bool
	PointFmt    bool
	Frag        int    // max handshake bytes per record (0 = one record per message)
	Coalesce    bool   // a flight is one handshake byte stream cut only by Frag
	PreferPSS   bool   // ServerKeyExchange signed with RSA-PSS when the client offers it
	RequestCert bool   // send CertificateRequest; the client's answer is reported, not enforced
	AppReply    []byte // after the handshake: read one application-data record and answer with this
}

// ServerResult reports what the client did on one connection.
type ServerResult struct {
	ClientHello        *ClientHelloMsg
	Resumed            bool
	ClientMessages     []byte   // handshake message types of the client's second flight, in order
	ClientCertificates [][]byte // certificate_list of the client's Certificate message (nil if none was sent)
	CertificateVerify  string   // "", "valid", "invalid" or "without-certificate"
	FinishedVerified   bool
	MasterSecret       []byte
	AppData            []byte
}

type storedSession struct {
	master []byte
	vers   uint16
	suite  uint16
}

// Server is a scripted TLS 1.0-1.2 server for one (version, suite, curve, credential).
type Server struct {
	Chain   [][]byte
	Key     crypto.Signer
	Version uint16
	Suite   *Suite
	Curve   uint16 // ECDHE group: 23, 24, 25 or 29

	mu      sync.Mutex
	store   map[string]*storedSession
	keylog  strings.Builder
	entropy io.Reader
}

// NewServer builds a server; seed determines its randomness (server random, ephemeral keys, explicit IVs).
func NewServer(chain [][]byte, key crypto.Signer, version, suite, curve uint16, seed uint64) (*Server, error) {
	s := suiteByID(suite)
	if !CanSeal(s) {
		return nil, fmt.Errorf("tlsscript: suite %04x not implemented by the scripted endpoints", suite)
	}
	if version < 0x0301 || version > 0x0303 || (s.TLS12 && version < 0x0303) {
		return nil, fmt.Errorf("tlsscript: version %04x not usable with suite %04x", version, suite)
	}
	if curve == 0 {
		curve = 23
	}
	return &Server{Chain: chain, Key: key, Version: version, Suite: s, Curve: curve, store: map[string]*storedSession{}, entropy: NewDetRand(seed)}, nil
}

// KeyLog returns the NSS key-log lines (CLIENT_RANDOM) of the connections served so far.
func (s *Server) KeyLog() string {
	s.mu.Lock()
	defer s.mu.Unlock()
	return s.keylog.String()
}

func ecdhCurveByID(group uint16) ecdh.Curve {
	switch group {
	case 23:
		return ecdh.P256()
	case 24:
		return ecdh.P384()
	case 25:
		return ecdh.P521()
	case 29:
		return ecdh.X25519()
	}
	return nil
}

// Serve runs one connection. A non-nil error means the handshake did not complete (the result still
// reports what was seen up to that point).
func (s *Server) Serve(conn net.Conn, sp ServerScript) (res *ServerResult, err error) {
	res = &ServerResult{}
	sc := &sconn{c: conn, recVers: s.Version}
	m, err := sc.readMsg()
	if err != nil {
		return res, err
	}
	if m.Typ != hsClientHello {
		return res, fmt.Errorf("expected ClientHello, got %d", m.Typ)
	}
	sc.transcript = append(sc.transcript, m.Raw)
	ch, err := parseClientHello(m.Body)
	if err != nil {
		return res, err
	}
	res.ClientHello = ch
	offered := false
	for _, x := range ch.Suites {
		offered = offered || x == s.Suite.ID
	}
	if !offered || ch.Vers < s.Version {
		return res, fmt.Errorf("client does not offer suite %04x / version %04x", s.Suite.ID, s.Version)
	}
	sr := readN(s.entropy, 32)
	var sess *storedSession
	if sp.Flow == "resume" && len(ch.Ticket) > 0 {
		s.mu.Lock()
		sess = s.store[string(ch.Ticket)]
		s.mu.Unlock()
		if sess != nil && (sess.vers != s.Version || sess.suite != s.Suite.ID) {
			sess = nil
		}
	}
	var sid []byte
	switch {
	case sess != nil:
		sid = ch.SessionID
	case sp.SIDMode == "echo" && len(ch.Ticket) == 0:
		sid = ch.SessionID
	case sp.SIDMode == "fresh":
		sid = readN(s.entropy, 32)
	}
	ticketExt := sp.TicketExt && ch.HasTicket
	var exts wr
	if ch.HasReneg && sp.RenegInfo {
		exts.ext(extRenegotiationInfo, []byte{0})
	}
	if sp.ALPN != "" && len(ch.ALPN) > 0 {
		var l, v wr
		l.vec8([]byte(sp.ALPN))
		v.vec16(l.b)
		exts.ext(extALPN, v.b)
	}
	if ticketExt {
		exts.ext(extSessionTicket, nil)
	}
	sendOCSP := len(sp.OCSP) > 0 && ch.StatusRequest && sess == nil
	if sendOCSP {
		exts.ext(extStatusRequest, nil)
	}
	if len(sp.SCTs) > 0 && ch.SCT {
		var l, v wr
		for _, t := range sp.SCTs {
			l.vec16(t)
		}
		v.vec16(l.b)
		exts.ext(extSCT, v.b)
	}
	if sp.PointFmt && s.Suite.Kx == "ecdhe" {
		exts.ext(extECPointFormats, []byte{1, 0})
	}
	for _, u := range sp.Unknown {
		exts.ext(int(u.Typ), u.Data)
	}
	var sh wr
	sh.u16(int(s.Version))
	sh.raw(sr)
	sh.vec8(sid)
	sh.u16(int(s.Suite.ID))
	sh.u8(0)
	if len(exts.b) > 0 {
		sh.vec16(exts.b)
	}
	flight := [][]byte{hsWrap(hsServerHello, sh.b)}

	if ticketExt && sp.NST == nil {
		return res, errors.New("script error: session_ticket extension without a NewSessionTicket")
	}
	sendNST := ticketExt
	nstMsg := func() []byte {
		var b wr
		b.raw([]byte{byte(sp.NST.Hint >> 24), byte(sp.NST.Hint >> 16), byte(sp.NST.Hint >> 8), byte(sp.NST.Hint)})
		b.vec16(sp.NST.Value)
		return hsWrap(hsNewSessionTicket, b.b)
	}
	remember := func(master []byte) {
		if sendNST && len(sp.NST.Value) > 0 {
			s.mu.Lock()
			s.store[string(sp.NST.Value)] = &storedSession{master: master, vers: s.Version, suite: s.Suite.ID}
			s.mu.Unlock()
		}
	}
	logKey := func(master []byte) {
		s.mu.Lock()
		fmt.Fprintf(&s.keylog, "CLIENT_RANDOM %x %x\n", ch.Random, master)
		s.mu.Unlock()
		res.MasterSecret = master
	}
	readFinished := func(master []byte, cIn *CipherState) error {
		sc.in = cIn
		fm, err := sc.readMsg()
		if err != nil {
			return err
		}
		want := refFinished(s.Version, s.Suite.SHA384, master, true, sc.transcript)
		if fm.Typ != hsFinished || !hmac.Equal(fm.Body, want) {
			sc.writeRecord(recAlert, []byte{2, 51}) // decrypt_error
			return fmt.Errorf("client Finished %x, expected %x", fm.Body, want)
		}
		res.FinishedVerified = true
		sc.transcript = append(sc.transcript, fm.Raw)
		return nil
	}
	sendFinished := func(master []byte, sOut *CipherState) error {
		if err := sc.writeRecord(recCCS, []byte{1}); err != nil {
			return err
		}
		sc.out = sOut
		fin := hsWrap(hsFinished, refFinished(s.Version, s.Suite.SHA384, master, false, sc.transcript))
		return sc.writeFlight([][]byte{fin}, 0, false)
	}
	appData := func() error {
		if sp.AppReply == nil {
			return nil
		}
		for {
			typ, p, err := sc.readPlain()
			if err != nil {
				return err
			}
			if typ == recAlert {
				return nil
			}
			if typ == recAppData && len(p) > 0 { // TLS 1.0 peers may send an empty or 1-byte first fragment
				res.AppData = append(res.AppData, p...)
				if len(p) > 1 || s.Version > 0x0301 {
					break
				}
			}
		}
		return sc.writeRecord(recAppData, sp.AppReply)
	}

	// --- abbreviated handshake (RFC 5077 3.1)
	if sess != nil {
		res.Resumed = true
		if sendNST {
			flight = append(flight, nstMsg())
		}
		if err := sc.writeFlight(flight, sp.Frag, sp.Coalesce); err != nil {
			return res, err
		}
		logKey(sess.master)
		cIn, sOut := NewCipherStates(s.Version, s.Suite, sess.master, ch.Random, sr, s.entropy)
		if err := sendFinished(sess.master, sOut); err != nil {
			return res, err
		}
		if _, err := sc.readMsg(); err != errCCS {
			return res, fmt.Errorf("expected ChangeCipherSpec, got %v", err)
		}
		if err := readFinished(sess.master, cIn); err != nil {
			return res, err
		}
		remember(sess.master)
		return res, appData()
	}

	// --- full handshake
	var cl, certs wr
	for _, der := range s.Chain {
		certs.u24(len(der))
		certs.raw(der)
	}
	cl.u24(len(certs.b))
	cl.raw(certs.b)
	flight = append(flight, hsWrap(hsCertificate, cl.b))
	if sendOCSP {
		var st wr
		st.u8(1)
		st.u24(len(sp.OCSP))
		st.raw(sp.OCSP)
		flight = append(flight, hsWrap(hsCertificateStatus, st.b))
	}
	var eph *ecdh.PrivateKey
	if s.Suite.Kx == "ecdhe" {
		cv := ecdhCurveByID(s.Curve)
		if cv == nil {
			return res, fmt.Errorf("curve %d not supported", s.Curve)
		}
		if eph, err = cv.GenerateKey(s.entropy); err != nil {
			return res, err
		}
		var p wr
		p.u8(3)
		p.u16(int(s.Curve))
		p.vec8(eph.PublicKey().Bytes())
		signed := append(append(append([]byte(nil), ch.Random...), sr...), p.b...)
		var scheme uint16
		if s.Version >= 0x0303 {
			if scheme = pickScheme(s.Key.Public(), ch.SigAlgs, sp.PreferPSS); scheme == 0 {
				return res, errors.New("no common signature algorithm")
			}
			p.u16(int(scheme))
		}
		sig, err := signContent(s.Key, s.entropy, s.Version, scheme, signed)
		if err != nil {
			return res, err
		}
		p.vec16(sig)
		flight = append(flight, hsWrap(hsServerKeyExchange, p.b))
	}
	certReqAlgs := []uint16{0x0401, 0x0403, 0x0804, 0x0501, 0x0503, 0x0805, 0x0601, 0x0603, 0x0806, 0x0807, 0x0201, 0x0203}
	if sp.RequestCert {
		var cr wr
		cr.vec8([]byte{1, 64}) // rsa_sign, ecdsa_sign
		if s.Version >= 0x0303 {
			cr.raw(u16list16(certReqAlgs))
		}
		cr.u16(0) // no certificate_authorities
		flight = append(flight, hsWrap(hsCertificateRequest, cr.b))
	}
	flight = append(flight, hsWrap(hsServerHelloDone, nil))
	if err := sc.writeFlight(flight, sp.Frag, sp.Coalesce); err != nil {
		return res, err
	}
	var pms []byte
	var clientLeaf *x509.Certificate
	for {
		cm, err := sc.readMsg()
		if err == errCCS {
			break
		}
		if err != nil {
			return res, err
		}
		res.ClientMessages = append(res.ClientMessages, cm.Typ)
		switch cm.Typ {
		case hsCertificate:
			list, err := parseCertificate12(cm.Body)
			if err != nil {
				return res, err
			}
			if list == nil {
				list = [][]byte{}
			}
			res.ClientCertificates = list
			if len(list) > 0 {
				clientLeaf, _ = x509.ParseCertificate(list[0])
			}
		case hsClientKeyExchange:
			r := &rd{b: cm.Body}
			if s.Suite.Kx == "rsa" {
				enc := r.vec16()
				rk, ok := s.Key.(*rsa.PrivateKey)
				if r.bad || !ok {
					return res, errors.New("bad RSA ClientKeyExchange")
				}
				if pms, err = rsa.DecryptPKCS1v15(nil, rk, enc); err != nil || len(pms) != 48 {
					return res, fmt.Errorf("pre-master decryption: %v", err)
				}
			} else {
				pt := r.vec8()
				pub, err := eph.Curve().NewPublicKey(pt)
				if r.bad || err != nil {
					return res, fmt.Errorf("bad ECDHE ClientKeyExchange: %v", err)
				}
				if pms, err = eph.ECDH(pub); err != nil {
					return res, err
				}
			}
		case hsCertificateVerify:
			r := &rd{b: cm.Body}
			var scheme uint16
			if s.Version >= 0x0303 {
				scheme = uint16(r.u16())
			}
			sig := r.vec16()
			switch {
			case clientLeaf == nil:
				res.CertificateVerify = "without-certificate"
			case !r.bad && verifyContent(clientLeaf.PublicKey, s.Version, scheme, concat(sc.transcript), sig):
				res.CertificateVerify = "valid"
			default:
				res.CertificateVerify = "invalid"
			}
		default:
			return res, fmt.Errorf("unexpected client handshake message %d", cm.Typ)
		}
		sc.transcript = append(sc.transcript, cm.Raw)
	}
	if pms == nil {
		return res, errors.New("ChangeCipherSpec before ClientKeyExchange")
	}
	master := refMaster(s.Version, s.Suite.SHA384, pms, ch.Random, sr)
	logKey(master)
	cIn, sOut := NewCipherStates(s.Version, s.Suite, master, ch.Random, sr, s.entropy)
	if err := readFinished(master, cIn); err != nil {
		return res, err
	}
	if sendNST {
		if err := sc.writeFlight([][]byte{nstMsg()}, sp.Frag, false); err != nil {
			return res, err
		}
	}
	if err := sendFinished(master, sOut); err != nil {
		return res, err
	}
	remember(master)
	return res, appData()
}
