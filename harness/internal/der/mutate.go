package der

import (
	"fmt"
	"math/big"
	"math/rand/v2"
)

// KnownOIDs is the substitution table of the OID-swap mutation: algorithm,
// extension, curve, EKU, policy-qualifier, QC-statement and name-attribute OIDs.
var KnownOIDs = [][]int{
	// public key algorithms
	{1, 2, 840, 113549, 1, 1, 1}, {1, 2, 840, 10040, 4, 1}, {1, 2, 840, 10045, 2, 1}, {1, 3, 101, 112}, {1, 3, 101, 110},
	{1, 2, 840, 113549, 1, 1, 10}, {1, 3, 101, 113}, {1, 3, 101, 111},
	// signature algorithms
	{1, 2, 840, 113549, 1, 1, 2}, {1, 2, 840, 113549, 1, 1, 4}, {1, 2, 840, 113549, 1, 1, 5}, {1, 2, 840, 113549, 1, 1, 11},
	{1, 2, 840, 113549, 1, 1, 12}, {1, 2, 840, 113549, 1, 1, 13}, {1, 2, 840, 10040, 4, 3}, {2, 16, 840, 1, 101, 3, 4, 3, 2},
	{1, 2, 840, 10045, 4, 1}, {1, 2, 840, 10045, 4, 3, 2}, {1, 2, 840, 10045, 4, 3, 3}, {1, 2, 840, 10045, 4, 3, 4}, {1, 3, 14, 3, 2, 29},
	// hashes / mgf
	{1, 3, 14, 3, 2, 26}, {2, 16, 840, 1, 101, 3, 4, 2, 1}, {2, 16, 840, 1, 101, 3, 4, 2, 2}, {2, 16, 840, 1, 101, 3, 4, 2, 3}, {1, 2, 840, 113549, 1, 1, 8},
	// curves
	{1, 3, 132, 0, 33}, {1, 2, 840, 10045, 3, 1, 7}, {1, 3, 132, 0, 34}, {1, 3, 132, 0, 35}, {1, 3, 132, 0, 10},
	// extensions
	{2, 5, 29, 14}, {2, 5, 29, 15}, {2, 5, 29, 17}, {2, 5, 29, 18}, {2, 5, 29, 19}, {2, 5, 29, 30}, {2, 5, 29, 31}, {2, 5, 29, 32},
	{2, 5, 29, 35}, {2, 5, 29, 37}, {2, 5, 29, 20}, {2, 5, 29, 21}, {2, 5, 29, 24}, {2, 5, 29, 28}, {2, 5, 29, 9}, {2, 5, 29, 36}, {2, 5, 29, 54},
	{1, 3, 6, 1, 5, 5, 7, 1, 1}, {1, 3, 6, 1, 5, 5, 7, 1, 11}, {1, 3, 6, 1, 5, 5, 7, 1, 3}, {1, 3, 6, 1, 5, 5, 7, 1, 24},
	{1, 3, 6, 1, 4, 1, 11129, 2, 4, 2}, {1, 3, 6, 1, 4, 1, 11129, 2, 4, 3}, {1, 3, 6, 1, 4, 1, 11129, 2, 4, 5},
	{2, 23, 140, 1, 31}, {2, 23, 140, 3, 1}, {1, 3, 6, 1, 5, 5, 7, 48, 1, 5}, {1, 3, 6, 1, 5, 5, 7, 48, 1, 2}, {1, 3, 6, 1, 5, 5, 7, 48, 1, 1},
	// AIA methods
	{1, 3, 6, 1, 5, 5, 7, 48, 1}, {1, 3, 6, 1, 5, 5, 7, 48, 2},
	// EKU
	{2, 5, 29, 37, 0}, {1, 3, 6, 1, 5, 5, 7, 3, 1}, {1, 3, 6, 1, 5, 5, 7, 3, 2}, {1, 3, 6, 1, 5, 5, 7, 3, 3}, {1, 3, 6, 1, 5, 5, 7, 3, 4},
	{1, 3, 6, 1, 5, 5, 7, 3, 8}, {1, 3, 6, 1, 5, 5, 7, 3, 9}, {1, 3, 6, 1, 4, 1, 311, 10, 3, 3}, {2, 16, 840, 1, 113730, 4, 1},
	// policy qualifiers and policies
	{1, 3, 6, 1, 5, 5, 7, 2, 1}, {1, 3, 6, 1, 5, 5, 7, 2, 2}, {2, 5, 29, 32, 0}, {2, 23, 140, 1, 1}, {2, 23, 140, 1, 2, 1}, {2, 23, 140, 1, 2, 2},
	// QC statements
	{0, 4, 0, 1862, 1, 1}, {0, 4, 0, 1862, 1, 2}, {0, 4, 0, 1862, 1, 3}, {0, 4, 0, 1862, 1, 4}, {0, 4, 0, 1862, 1, 5}, {0, 4, 0, 1862, 1, 6},
	{0, 4, 0, 1862, 1, 6, 1}, {0, 4, 0, 1862, 1, 6, 2}, {0, 4, 0, 1862, 1, 6, 3}, {0, 4, 0, 19495, 2}, {1, 3, 6, 1, 5, 5, 7, 11, 2},
	// name attributes
	{2, 5, 4, 3}, {2, 5, 4, 5}, {2, 5, 4, 6}, {2, 5, 4, 7}, {2, 5, 4, 8}, {2, 5, 4, 9}, {2, 5, 4, 10}, {2, 5, 4, 11}, {2, 5, 4, 17}, {2, 5, 4, 97},
	{1, 2, 840, 113549, 1, 9, 1}, {0, 9, 2342, 19200300, 100, 1, 25}, {1, 3, 6, 1, 4, 1, 311, 60, 2, 1, 3},
	// PKCS#9 / CSR
	{1, 2, 840, 113549, 1, 9, 14}, {1, 2, 840, 113549, 1, 9, 7},
	// OCSP
	{1, 3, 6, 1, 5, 5, 7, 48, 1, 1}, {1, 3, 6, 1, 5, 5, 7, 48, 1, 2},
}

var timeStrings = []string{
	"2001010000Z", "200101000000Z", "20200101000000Z", "200101000000+0100", "2001010000-0530", "200230000000Z", "20200230000000Z",
	"500101000000Z", "491231235959Z", "20500101000000Z", "19491231235959Z", "20200101000000.5Z", "20200101000000.000Z", "2020010100Z",
	"200101000060Z", "200101006000Z", "200101240000Z", "201301000000Z", "200100000000Z", "99991231235959Z", "00000101000000Z",
	"200101000000", "20200101000000", "2001010000", "", "Z", "20200101000000+0000", "200101000000Z0700", "999912312359Z", "20200101000000Z\x00",
	"-00101000000Z", "2001010000 0Z", "2020010100000 Z",
}

var intEdges [][]byte

func init() {
	add := func(v *big.Int) { intEdges = append(intEdges, IntBytes(v)) }
	for _, k := range []uint{0, 1, 7, 8, 15, 16, 31, 32, 63, 64, 127, 128, 255, 256, 1024, 2048, 4096, 8192} {
		p := new(big.Int).Lsh(big.NewInt(1), k)
		add(p)
		add(new(big.Int).Sub(p, big.NewInt(1)))
		add(new(big.Int).Add(p, big.NewInt(1)))
		add(new(big.Int).Neg(p))
	}
	add(big.NewInt(0))
	add(big.NewInt(-1))
	add(big.NewInt(3))
	add(big.NewInt(65537))
	intEdges = append(intEdges,
		[]byte{}, []byte{0, 0}, []byte{0, 1}, []byte{0xff, 0xff}, []byte{0xff, 0x80}, []byte{0, 0x7f}, []byte{0x80}, []byte{0x80, 0, 0, 0, 0, 0, 0, 0},
		[]byte{0x7f, 0xff, 0xff, 0xff, 0xff, 0xff, 0xff, 0xff}, []byte{0, 0xff, 0xff, 0xff, 0xff, 0xff, 0xff, 0xff, 0xff}, []byte{0x80, 0, 0, 0},
		[]byte{0x7f, 0xff, 0xff, 0xff}, []byte{0, 0x80, 0, 0, 0})
}

var stringTags = []int{TagUTF8String, TagPrintableString, TagIA5String, TagT61String, TagBMPString, TagNumericString,
	TagVisibleString, TagGeneralString, TagUniversalString}

var badStrings = []string{"", "\x00", "a\x00b", "\xff\xfe", "\xc3\x28", "*&@_", "é", "☃", "a", "0123 456", "xn--", "*.example.com",
	"\xed\xa0\x80", "\xf4\x90\x80\x80", "A\x00", "\x00\x00", "\xd8\x00\xdc\x00", "1.2.3.4", "a@b", "http://[::1]:namedport", "\r\n", "%zz"}

// Mutator applies structure-aware mutations to a tree.
type Mutator struct {
	Rng *rand.Rand
	// Donors are subtrees spliced in by the splice mutation.
	Donors []*Node
}

type slot struct {
	n, parent *Node
	idx       int
	depth     int
}

func collect(root *Node) []slot {
	var s []slot
	root.Walk(func(n, p *Node, i, d int) {
		if n.Literal == nil {
			s = append(s, slot{n, p, i, d})
		}
	})
	return s
}

func (m *Mutator) randBytes(n int) []byte {
	b := make([]byte, n)
	for i := range b {
		b[i] = byte(m.Rng.UintN(256))
	}
	return b
}

// content makes sure a node holds raw content (dropping child structure).
func flatten(n *Node) {
	if n.HasKids() {
		n.Content = append([]byte(nil), n.Body()...)
		n.Children = nil
		n.Encap = false
		n.Prefix = nil
	}
	if n.Content == nil {
		n.Content = []byte{}
	}
}

var interestingLens = []int{0, 1, 2, 3, 4, 8, 15, 16, 17, 20, 31, 32, 33, 48, 56, 57, 64, 65, 66, 97, 127, 128, 129, 133, 255, 256, 257}

// NumOps is the number of mutation operators.
const NumOps = 22

// Mutate applies one random mutation in place and returns its description
// ("" when the chosen operator did not apply; callers just try again).
func (m *Mutator) Mutate(root *Node) string { return m.MutateOp(root, m.Rng.IntN(NumOps)) }

// MutateOp applies the given operator at a random position.
func (m *Mutator) MutateOp(root *Node, op int) string {
	r := m.Rng
	slots := collect(root)
	if len(slots) == 0 {
		return ""
	}
	pick := func(pred func(s slot) bool) (slot, bool) {
		// reservoir over matching slots
		var got slot
		k := 0
		for _, s := range slots {
			if pred(s) {
				k++
				if r.IntN(k) == 0 {
					got = s
				}
			}
		}
		return got, k > 0
	}
	prim := func(s slot) bool { return !s.n.HasKids() }
	hasKids := func(s slot) bool { return s.n.HasKids() && len(s.n.Children) > 0 }
	nonRoot := func(s slot) bool { return s.parent != nil }
	switch op {
	case 0: // replace primitive content with random bytes of a random (often interesting) length
		s, ok := pick(prim)
		if !ok {
			return ""
		}
		l := interestingLens[r.IntN(len(interestingLens))]
		if r.IntN(2) == 0 {
			l = r.IntN(len(s.n.Content) + 9)
		}
		flatten(s.n)
		s.n.Content = m.randBytes(l)
		return fmt.Sprintf("randcontent(len=%d)", l)
	case 1: // resize primitive content keeping its prefix (grow with zero/random, or truncate)
		s, ok := pick(prim)
		if !ok {
			return ""
		}
		flatten(s.n)
		old := s.n.Content
		var l int
		switch r.IntN(4) {
		case 0:
			l = len(old) - 1 - r.IntN(3)
		case 1:
			l = len(old) + 1 + r.IntN(3)
		case 2:
			l = interestingLens[r.IntN(len(interestingLens))]
		default:
			l = r.IntN(2*len(old) + 2)
		}
		if l < 0 {
			l = 0
		}
		nb := make([]byte, l)
		copy(nb, old)
		if l > len(old) && r.IntN(2) == 0 {
			copy(nb[len(old):], m.randBytes(l-len(old)))
		}
		s.n.Content = nb
		return fmt.Sprintf("resize(%d->%d)", len(old), l)
	case 2: // flip a bit / set a byte in primitive content
		s, ok := pick(func(s slot) bool { return prim(s) && len(s.n.Content) > 0 })
		if !ok {
			return ""
		}
		i := r.IntN(len(s.n.Content))
		if r.IntN(2) == 0 {
			s.n.Content[i] ^= 1 << r.UintN(8)
		} else {
			s.n.Content[i] = []byte{0, 0xff, 0x80, 0x7f, 0x30, 0x20, '*', '.'}[r.IntN(8)]
		}
		return "byteedit"
	case 3: // delete a child
		s, ok := pick(nonRoot)
		if !ok {
			return ""
		}
		p := s.parent
		p.Children = append(p.Children[:s.idx:s.idx], p.Children[s.idx+1:]...)
		return "delete"
	case 4: // duplicate a child (1..3 copies; occasionally many)
		s, ok := pick(nonRoot)
		if !ok {
			return ""
		}
		copies := 1 + r.IntN(3)
		if r.IntN(20) == 0 {
			copies = 20 + r.IntN(200)
		}
		p := s.parent
		var kids []*Node
		kids = append(kids, p.Children[:s.idx+1]...)
		for i := 0; i < copies; i++ {
			kids = append(kids, s.n.Clone())
		}
		kids = append(kids, p.Children[s.idx+1:]...)
		p.Children = kids
		return fmt.Sprintf("duplicate(x%d)", copies)
	case 5: // swap two children / reverse / rotate
		s, ok := pick(func(s slot) bool { return s.n.HasKids() && len(s.n.Children) >= 2 })
		if !ok {
			return ""
		}
		k := s.n.Children
		switch r.IntN(3) {
		case 0:
			i, j := r.IntN(len(k)), r.IntN(len(k))
			k[i], k[j] = k[j], k[i]
		case 1:
			for i, j := 0, len(k)-1; i < j; i, j = i+1, j-1 {
				k[i], k[j] = k[j], k[i]
			}
		default:
			r.Shuffle(len(k), func(i, j int) { k[i], k[j] = k[j], k[i] })
		}
		return "reorder"
	case 6: // splice a donor subtree (prefer same tag)
		if len(m.Donors) == 0 {
			return ""
		}
		d := m.Donors[r.IntN(len(m.Donors))]
		ds := collect(d)
		s, ok := pick(nonRoot)
		if !ok {
			return ""
		}
		var cand *Node
		k := 0
		for _, x := range ds {
			if x.n.Class == s.n.Class && x.n.Tag == s.n.Tag && x.n.Constructed == s.n.Constructed {
				k++
				if r.IntN(k) == 0 {
					cand = x.n
				}
			}
		}
		if cand == nil || r.IntN(8) == 0 {
			cand = ds[r.IntN(len(ds))].n
		}
		s.parent.Children[s.idx] = cand.Clone()
		return "splice"
	case 7: // retag
		s := slots[r.IntN(len(slots))]
		n := s.n
		switch r.IntN(5) {
		case 0:
			n.Class = r.IntN(4)
		case 1:
			if n.Constructed {
				flatten(n)
				n.Constructed = false
			} else if !n.Encap {
				// primitive → constructed: keep bytes as opaque content
				n.Constructed = true
			}
		case 2:
			n.Tag = r.IntN(31)
		case 3:
			n.Tag = []int{31, 32, 127, 128, 16383, 16384, 1 << 21, 1<<28 - 1, 1 << 28, 1<<31 - 1}[r.IntN(10)]
		default:
			n.Tag = []int{TagInteger, TagBitString, TagOctetString, TagNull, TagOID, TagUTF8String, TagSequence, TagSet, TagPrintableString,
				TagIA5String, TagUTCTime, TagGeneralizedTime, TagBMPString, TagBoolean, TagEnum}[r.IntN(15)]
			n.Class = ClassUniversal
		}
		return "retag"
	case 8: // swap a known OID
		s, ok := pick(func(s slot) bool { return s.n.Class == ClassUniversal && s.n.Tag == TagOID && !s.n.Constructed })
		if !ok {
			return ""
		}
		o := KnownOIDs[r.IntN(len(KnownOIDs))]
		s.n.Content = OIDBytes(o)
		return fmt.Sprintf("oid(%v)", o)
	case 9: // integer edge values
		s, ok := pick(func(s slot) bool {
			return s.n.Class == ClassUniversal && (s.n.Tag == TagInteger || s.n.Tag == TagEnum) && !s.n.Constructed
		})
		if !ok {
			return ""
		}
		s.n.Content = append([]byte(nil), intEdges[r.IntN(len(intEdges))]...)
		if r.IntN(6) == 0 { // sign/zero padding of the existing value
			pad := []byte{0, 0xff}[r.IntN(2)]
			s.n.Content = append([]byte{pad}, s.n.Content...)
		}
		return "intedge"
	case 10: // string type swap and/or invalid characters
		s, ok := pick(func(s slot) bool { return s.n.Class == ClassUniversal && isStringTag(s.n.Tag) && !s.n.Constructed })
		if !ok {
			return ""
		}
		if r.IntN(2) == 0 {
			s.n.Tag = stringTags[r.IntN(len(stringTags))]
		}
		if r.IntN(2) == 0 {
			bs := badStrings[r.IntN(len(badStrings))]
			switch r.IntN(3) {
			case 0:
				s.n.Content = []byte(bs)
			case 1:
				s.n.Content = append(append([]byte(nil), s.n.Content...), bs...)
			default:
				s.n.Content = append([]byte(bs), s.n.Content...)
			}
		}
		return "string"
	case 11: // time strings
		s, ok := pick(func(s slot) bool {
			return s.n.Class == ClassUniversal && (s.n.Tag == TagUTCTime || s.n.Tag == TagGeneralizedTime) && !s.n.Constructed
		})
		if !ok {
			return ""
		}
		s.n.Content = []byte(timeStrings[r.IntN(len(timeStrings))])
		if r.IntN(3) == 0 {
			s.n.Tag = []int{TagUTCTime, TagGeneralizedTime}[r.IntN(2)]
		}
		return "time"
	case 12: // BIT STRING padding count
		s, ok := pick(func(s slot) bool { return s.n.Class == ClassUniversal && s.n.Tag == TagBitString && !s.n.Constructed })
		if !ok {
			return ""
		}
		flatten(s.n)
		pad := byte([]int{0, 1, 7, 8, 9, 255, 128}[r.IntN(7)])
		if len(s.n.Content) == 0 {
			s.n.Content = []byte{pad}
		} else {
			s.n.Content[0] = pad
		}
		if r.IntN(4) == 0 {
			s.n.Content = s.n.Content[:1] // padding with no data
		}
		return "bitpad"
	case 13: // non-canonical length
		s := slots[r.IntN(len(slots))]
		s.n.LenOctets = 1 + r.IntN(5)
		if r.IntN(10) == 0 {
			s.n.LenOctets = 8 + r.IntN(119)
		}
		return "longlen"
	case 14: // indefinite length
		s, ok := pick(func(s slot) bool { return s.n.Constructed })
		if !ok {
			return ""
		}
		s.n.Indef = true
		return "indefinite"
	case 15: // high-tag form, padded
		s := slots[r.IntN(len(slots))]
		s.n.HighTag = true
		s.n.TagPad = r.IntN(3)
		return "hightag"
	case 16: // wrap in an extra layer
		s, ok := pick(nonRoot)
		if !ok {
			return ""
		}
		var w *Node
		switch r.IntN(4) {
		case 0:
			w = Seq(s.n)
		case 1:
			w = Set(s.n)
		case 2:
			w = Explicit(r.IntN(4), s.n)
		default:
			w = OctetsWrap(s.n)
		}
		s.parent.Children[s.idx] = w
		return "wrap"
	case 17: // unwrap: replace a constructed node by its children
		s, ok := pick(func(s slot) bool { return nonRoot(s) && hasKids(s) })
		if !ok {
			return ""
		}
		p := s.parent
		var kids []*Node
		kids = append(kids, p.Children[:s.idx]...)
		kids = append(kids, s.n.Children...)
		kids = append(kids, p.Children[s.idx+1:]...)
		p.Children = kids
		return "unwrap"
	case 18: // empty a constructed node / drop all but the first child
		s, ok := pick(hasKids)
		if !ok {
			return ""
		}
		if r.IntN(2) == 0 {
			s.n.Children = []*Node{}
		} else {
			s.n.Children = s.n.Children[:1]
		}
		return "truncate-children"
	case 19: // nest a node deeply inside SEQUENCEs (recursion depth)
		s, ok := pick(nonRoot)
		if !ok {
			return ""
		}
		depth := 2 + r.IntN(30)
		w := s.n
		for i := 0; i < depth; i++ {
			w = &Node{Class: s.n.Class, Constructed: true, Tag: s.n.Tag, Children: []*Node{w}}
			if s.n.Class == ClassUniversal && !s.n.Constructed {
				w.Tag = TagSequence
			}
		}
		s.parent.Children[s.idx] = w
		return fmt.Sprintf("nest(%d)", depth)
	case 20: // replace a whole subtree by a primitive of another universal type
		s, ok := pick(nonRoot)
		if !ok {
			return ""
		}
		var w *Node
		switch r.IntN(8) {
		case 0:
			w = Null()
		case 1:
			w = Int(int64(r.IntN(300)) - 100)
		case 2:
			w = Bool(r.IntN(2) == 0)
		case 3:
			w = Octets(m.randBytes(r.IntN(40)))
		case 4:
			w = UTF8(badStrings[r.IntN(len(badStrings))])
		case 5:
			w = Seq()
		case 6:
			w = OID(KnownOIDs[r.IntN(len(KnownOIDs))]...)
		default:
			w = Bits(m.randBytes(r.IntN(40)), r.IntN(8))
		}
		s.parent.Children[s.idx] = w
		return "replace-type"
	case 21: // copy one sibling over another (e.g. issuer := subject)
		s, ok := pick(func(s slot) bool { return s.n.HasKids() && len(s.n.Children) >= 2 })
		if !ok {
			return ""
		}
		k := s.n.Children
		i, j := r.IntN(len(k)), r.IntN(len(k))
		if i == j {
			return ""
		}
		k[i] = k[j].Clone()
		return "copy-sibling"
	}
	return ""
}

func isStringTag(t int) bool {
	for _, x := range stringTags {
		if x == t {
			return true
		}
	}
	return false
}

// MutateBytes is the plain byte-level mutator (flip / insert / delete / truncate / duplicate range).
func MutateBytes(r *rand.Rand, in []byte) []byte {
	b := append([]byte(nil), in...)
	if len(b) == 0 {
		return []byte{byte(r.UintN(256))}
	}
	switch r.IntN(7) {
	case 0:
		b[r.IntN(len(b))] ^= 1 << r.UintN(8)
	case 1:
		b[r.IntN(len(b))] = byte(r.UintN(256))
	case 2:
		i := r.IntN(len(b) + 1)
		ins := make([]byte, 1+r.IntN(4))
		for k := range ins {
			ins[k] = byte(r.UintN(256))
		}
		b = append(b[:i:i], append(ins, b[i:]...)...)
	case 3:
		i := r.IntN(len(b))
		j := i + 1 + r.IntN(min(8, len(b)-i))
		b = append(b[:i:i], b[j:]...)
	case 4:
		b = b[:r.IntN(len(b))]
	case 5:
		i := r.IntN(len(b))
		j := i + 1 + r.IntN(min(32, len(b)-i))
		seg := append([]byte(nil), b[i:j]...)
		b = append(b[:j:j], append(seg, b[j:]...)...)
	default:
		// length-byte nudges: find a plausible length octet and change it
		i := r.IntN(len(b))
		b[i] = []byte{0x80, 0x81, 0x82, 0x83, 0x84, 0x88, 0xff, 0x7f, 0}[r.IntN(9)]
	}
	return b
}
