// Package der is an independent, lenient BER/DER TLV reader and writer plus a
// structure-aware mutator (DESIGN.md §3.2). It shares no code with zcrypto's
// encoding/asn1 or cryptobyte: the monitors use it to locate sub-encodings, to
// build certificates outside the domain of zcrypto's own CreateCertificate and
// to produce length-consistent mutations of real objects.
package der

import (
	"errors"
)

// Universal tag numbers used by the helpers.
const (
	TagBoolean         = 1
	TagInteger         = 2
	TagBitString       = 3
	TagOctetString     = 4
	TagNull            = 5
	TagOID             = 6
	TagEnum            = 10
	TagUTF8String      = 12
	TagSequence        = 16
	TagSet             = 17
	TagNumericString   = 18
	TagPrintableString = 19
	TagT61String       = 20
	TagIA5String       = 22
	TagUTCTime         = 23
	TagGeneralizedTime = 24
	TagVisibleString   = 26
	TagGeneralString   = 27
	TagUniversalString = 28
	TagBMPString       = 30
)

// Classes.
const (
	ClassUniversal   = 0
	ClassApplication = 1
	ClassContext     = 2
	ClassPrivate     = 3
)

// Node is one TLV. A constructed node whose content parsed has Children; a
// primitive OCTET STRING / BIT STRING whose content is itself a TLV sequence is
// "encapsulating" (Encap): its Children are the inner nodes and Prefix holds
// the BIT STRING unused-bits octet. Everything else keeps its bytes in Content.
type Node struct {
	Class       int
	Constructed bool
	Tag         int
	Content     []byte
	Children    []*Node
	Encap       bool
	Prefix      []byte
	// Literal, when non-nil, is emitted verbatim instead of a TLV (used to
	// embed pre-encoded or deliberately broken bytes).
	Literal []byte

	// Encoding quirks applied by Encode (all zero = DER).
	LenOctets int  // > 0: long-form length with at least this many length octets (non-minimal when more than needed)
	Indef     bool // indefinite length (content followed by 00 00); constructed only
	HighTag   bool // force the high-tag-number form even for tag numbers < 31
	TagPad    int  // superfluous 0x80 octets in high-tag-number form (implies HighTag)

	// Offsets into the buffer given to Parse (top-level document nodes only,
	// not the nodes inside an encapsulating string, whose offsets are relative
	// to the string's content).
	Start, HdrLen, End int
}

// IsUniversal reports whether n is a universal-class node with the given tag number.
func (n *Node) IsUniversal(tag int) bool {
	return n != nil && n.Class == ClassUniversal && n.Tag == tag
}

// IsPrimitive reports whether n is a primitive universal-class node with the given tag number.
func (n *Node) IsPrimitive(tag int) bool {
	return n != nil && n.Class == ClassUniversal && n.Tag == tag && !n.Constructed
}

// IsContext reports whether n is a context-specific node with the given tag number.
func (n *Node) IsContext(tag int) bool { return n != nil && n.Class == ClassContext && n.Tag == tag }

// HasKids reports whether the node's content is held as child nodes.
func (n *Node) HasKids() bool { return n.Children != nil && (n.Constructed || n.Encap) }

var (
	errTrunc = errors.New("der: truncated")
	errDeep  = errors.New("der: nesting too deep")
	errLen   = errors.New("der: bad length")
)

const maxDepth = 48

type hdrInfo struct {
	class       int
	constructed bool
	tag         int
	length      int // -1 = indefinite
	hdr         int
	lenOctets   int // long form: number of length octets when not minimal DER, else 0
	highTag     bool
	tagPad      int
}

// header parses identifier and length octets at b[off:].
func header(b []byte, off int) (h hdrInfo, err error) {
	if off >= len(b) {
		return h, errTrunc
	}
	p := off
	id := b[p]
	p++
	h.class = int(id >> 6)
	h.constructed = id&0x20 != 0
	h.tag = int(id & 0x1f)
	if h.tag == 0x1f {
		h.tag = 0
		n := 0
		lead := true
		for {
			if p >= len(b) {
				return h, errTrunc
			}
			c := b[p]
			p++
			n++
			if n > 6 {
				return h, errLen
			}
			if lead && c == 0x80 {
				h.tagPad++
			} else {
				lead = false
			}
			h.tag = h.tag<<7 | int(c&0x7f)
			if c&0x80 == 0 {
				break
			}
		}
		if h.tag < 31 {
			h.highTag = true
		}
	}
	if p >= len(b) {
		return h, errTrunc
	}
	l := b[p]
	p++
	switch {
	case l < 0x80:
		h.length = int(l)
	case l == 0x80:
		h.length = -1
	default:
		k := int(l & 0x7f)
		if k > 8 || p+k > len(b) {
			return h, errTrunc
		}
		v := uint64(0)
		for i := 0; i < k; i++ {
			v = v<<8 | uint64(b[p+i])
		}
		p += k
		if v > 1<<30 {
			return h, errLen
		}
		h.length = int(v)
		min := 0
		for x := v; x > 0; x >>= 8 {
			min++
		}
		if min == 0 {
			min = 1
		}
		if v < 0x80 || k > min {
			h.lenOctets = k
		}
	}
	h.hdr = p - off
	return h, nil
}

// Parse reads one TLV from b and returns it with the remaining bytes.
// It accepts BER: non-minimal lengths, indefinite lengths, padded high tags.
func Parse(b []byte) (*Node, []byte, error) {
	n, end, err := parseAt(b, 0, 0, true)
	if err != nil {
		return nil, nil, err
	}
	return n, b[end:], nil
}

// ParseAll reads TLVs until b is exhausted.
func ParseAll(b []byte) ([]*Node, error) {
	var out []*Node
	off := 0
	for off < len(b) {
		n, end, err := parseAt(b, off, 0, true)
		if err != nil {
			return out, err
		}
		out = append(out, n)
		off = end
	}
	return out, nil
}

func parseAt(b []byte, off, depth int, encap bool) (*Node, int, error) {
	if depth > maxDepth {
		return nil, 0, errDeep
	}
	h, err := header(b, off)
	if err != nil {
		return nil, 0, err
	}
	class, constructed, tag, length, hdr := h.class, h.constructed, h.tag, h.length, h.hdr
	n := &Node{Class: class, Constructed: constructed, Tag: tag, Start: off, HdrLen: hdr,
		LenOctets: h.lenOctets, HighTag: h.highTag, TagPad: h.tagPad}
	body := off + hdr
	if length == -1 {
		if !constructed {
			return nil, 0, errLen
		}
		// children until 00 00
		p := body
		kids := []*Node{}
		for {
			if p+2 <= len(b) && b[p] == 0 && b[p+1] == 0 {
				break
			}
			k, e, err := parseAt(b, p, depth+1, encap)
			if err != nil {
				return nil, 0, err
			}
			kids = append(kids, k)
			p = e
		}
		n.Children = kids
		n.Indef = true
		n.End = p + 2
		return n, n.End, nil
	}
	if body+length > len(b) {
		return nil, 0, errTrunc
	}
	n.End = body + length
	content := b[body:n.End]
	if constructed {
		kids, ok := parseKids(content, body, depth+1, encap)
		if ok {
			n.Children = kids
		} else {
			n.Content = append([]byte(nil), content...)
		}
		return n, n.End, nil
	}
	n.Content = append([]byte(nil), content...)
	if encap && class == ClassUniversal && depth < maxDepth-4 {
		switch tag {
		case TagOctetString:
			if len(content) >= 2 && plausibleInner(content[0]) {
				if kids, ok := parseKids(content, 0, depth+1, encap); ok && len(kids) > 0 {
					n.Encap, n.Children, n.Content = true, kids, nil
				}
			}
		case TagBitString:
			if len(content) >= 3 && content[0] == 0 && plausibleInner(content[1]) {
				if kids, ok := parseKids(content[1:], 0, depth+1, encap); ok && len(kids) > 0 {
					n.Encap, n.Children, n.Content = true, kids, nil
					n.Prefix = []byte{0}
				}
			}
		}
	}
	return n, n.End, nil
}

// plausibleInner limits encapsulation detection to the identifier octets that
// actually start encapsulated values in X.509 (SEQUENCE, SET, INTEGER, OCTET
// STRING, BIT STRING, OID, strings, context tags) — keeps hashes and keys opaque
// most of the time; a false positive is harmless (it re-encodes to the same bytes).
func plausibleInner(id byte) bool {
	switch id {
	case 0x30, 0x31, 0x02, 0x03, 0x04, 0x05, 0x06, 0x0a, 0x0c, 0x13, 0x16, 0x01:
		return true
	}
	return id&0xc0 == 0x80 && id&0x1f != 0x1f
}

func parseKids(content []byte, base, depth int, encap bool) ([]*Node, bool) {
	kids := []*Node{}
	p := 0
	for p < len(content) {
		k, e, err := parseAt(content, p, depth, encap)
		if err != nil {
			return nil, false
		}
		k.shift(base)
		kids = append(kids, k)
		p = e
	}
	return kids, true
}

// shift converts content-relative offsets to document offsets.
func (n *Node) shift(base int) {
	if base == 0 {
		return
	}
	n.Start += base
	n.End += base
	if n.Constructed {
		for _, k := range n.Children {
			k.shift(base)
		}
	}
}

// ---------------------------------------------------------------------------
// encoding

func appendTag(dst []byte, class int, constructed bool, tag, pad int, high bool) []byte {
	id := byte(class&3) << 6
	if constructed {
		id |= 0x20
	}
	if tag < 31 && pad == 0 && !high {
		return append(dst, id|byte(tag))
	}
	dst = append(dst, id|0x1f)
	for i := 0; i < pad; i++ {
		dst = append(dst, 0x80)
	}
	var tmp [6]byte
	i := len(tmp)
	t := uint(tag)
	i--
	tmp[i] = byte(t & 0x7f)
	t >>= 7
	for t > 0 {
		i--
		tmp[i] = byte(t&0x7f) | 0x80
		t >>= 7
	}
	return append(dst, tmp[i:]...)
}

func appendLen(dst []byte, n, octets int) []byte {
	if n < 0x80 && octets == 0 {
		return append(dst, byte(n))
	}
	var tmp [8]byte
	i := len(tmp)
	v := uint64(n)
	for {
		i--
		tmp[i] = byte(v)
		v >>= 8
		if v == 0 {
			break
		}
	}
	min := len(tmp) - i
	k := min
	if octets > k {
		k = octets
	}
	if k > 126 {
		k = 126
	}
	dst = append(dst, 0x80|byte(k))
	for j := min; j < k; j++ {
		dst = append(dst, 0)
	}
	return append(dst, tmp[i:]...)
}

// Body returns the encoded content octets of n.
func (n *Node) Body() []byte {
	if n.HasKids() {
		var body []byte
		body = append(body, n.Prefix...)
		for _, k := range n.Children {
			body = k.AppendTo(body)
		}
		return body
	}
	return n.Content
}

// AppendTo appends the encoding of n to dst.
func (n *Node) AppendTo(dst []byte) []byte {
	if n.Literal != nil {
		return append(dst, n.Literal...)
	}
	body := n.Body()
	dst = appendTag(dst, n.Class, n.Constructed, n.Tag, n.TagPad, n.HighTag)
	if n.Indef && n.Constructed {
		dst = append(dst, 0x80)
		dst = append(dst, body...)
		return append(dst, 0, 0)
	}
	dst = appendLen(dst, len(body), n.LenOctets)
	return append(dst, body...)
}

// Encode returns the encoding of n.
func (n *Node) Encode() []byte { return n.AppendTo(nil) }

// EncodeAll concatenates the encodings of the nodes.
func EncodeAll(ns []*Node) []byte {
	var out []byte
	for _, n := range ns {
		out = n.AppendTo(out)
	}
	return out
}

// Clone deep-copies a tree.
func (n *Node) Clone() *Node {
	if n == nil {
		return nil
	}
	c := *n
	if n.Content != nil {
		c.Content = append([]byte(nil), n.Content...)
	}
	if n.Prefix != nil {
		c.Prefix = append([]byte(nil), n.Prefix...)
	}
	if n.Literal != nil {
		c.Literal = append([]byte(nil), n.Literal...)
	}
	if n.Children != nil {
		c.Children = make([]*Node, len(n.Children))
		for i, k := range n.Children {
			c.Children[i] = k.Clone()
		}
	}
	return &c
}

// Canonical reports whether the node and all its descendants were encoded
// with DER-minimal tags and lengths (no padding, no indefinite form). It says
// nothing about content rules (INTEGER minimality, SET ordering…).
func (n *Node) Canonical() bool {
	if n.LenOctets != 0 || n.Indef || n.TagPad != 0 || n.HighTag {
		return false
	}
	for _, k := range n.Children {
		if !k.Canonical() {
			return false
		}
	}
	return true
}

// NonDER describes the first non-DER form found in n or a descendant (including the nodes inside
// encapsulating OCTET/BIT STRINGs): non-minimal or indefinite length, padded or forced high-tag form,
// non-minimal INTEGER/ENUMERATED content, BOOLEAN content other than 00/ff, or a constructed encoding of a
// primitive universal type. It returns "" when none is found. Content rules beyond these (SET ordering,
// DEFAULT values, string alphabets, time formats) are not examined.
func (n *Node) NonDER() string {
	if n.Literal != nil {
		return ""
	}
	switch {
	case n.Indef:
		return "indefinite-length"
	case n.LenOctets != 0:
		return "non-minimal-length"
	case n.HighTag || n.TagPad != 0:
		return "non-minimal-tag"
	}
	if n.Class == ClassUniversal {
		switch n.Tag {
		case TagInteger, TagEnum:
			if n.Constructed {
				return "constructed-primitive"
			}
			c := n.Content
			if len(c) == 0 || len(c) > 1 && (c[0] == 0 && c[1]&0x80 == 0 || c[0] == 0xff && c[1]&0x80 != 0) {
				return "non-minimal-integer"
			}
		case TagBoolean:
			if n.Constructed {
				return "constructed-primitive"
			}
			if len(n.Content) != 1 || n.Content[0] != 0 && n.Content[0] != 0xff {
				return "non-der-boolean"
			}
		case TagBitString, TagOctetString, TagNull, TagOID, TagUTF8String, TagNumericString, TagPrintableString, TagT61String,
			TagIA5String, TagUTCTime, TagGeneralizedTime, TagVisibleString, TagGeneralString, TagUniversalString, TagBMPString:
			if n.Constructed {
				return "constructed-primitive"
			}
		}
	}
	for _, k := range n.Children {
		if d := k.NonDER(); d != "" {
			return d
		}
	}
	return ""
}

// Walk calls f for n and every descendant (parents first). depth starts at 0.
func (n *Node) Walk(f func(n, parent *Node, idx, depth int)) { n.walk(nil, 0, 0, f) }

func (n *Node) walk(parent *Node, idx, depth int, f func(n, parent *Node, idx, depth int)) {
	f(n, parent, idx, depth)
	for i, k := range n.Children {
		k.walk(n, i, depth+1, f)
	}
}

// Child returns the i-th child or nil.
func (n *Node) Child(i int) *Node {
	if n == nil || i < 0 || i >= len(n.Children) {
		return nil
	}
	return n.Children[i]
}

// Path follows child indices.
func (n *Node) Path(idx ...int) *Node {
	for _, i := range idx {
		n = n.Child(i)
		if n == nil {
			return nil
		}
	}
	return n
}
