package der

import (
	"math/big"
	"time"
)

// Prim builds a primitive node.
func Prim(class, tag int, content []byte) *Node {
	if content == nil {
		content = []byte{}
	}
	return &Node{Class: class, Tag: tag, Content: content}
}

// Cons builds a constructed node.
func Cons(class, tag int, kids ...*Node) *Node {
	if kids == nil {
		kids = []*Node{}
	}
	return &Node{Class: class, Constructed: true, Tag: tag, Children: kids}
}

// Seq builds a SEQUENCE.
func Seq(kids ...*Node) *Node { return Cons(ClassUniversal, TagSequence, kids...) }

// Set builds a SET (children are emitted in the given order).
func Set(kids ...*Node) *Node { return Cons(ClassUniversal, TagSet, kids...) }

// Explicit wraps a node in a constructed context tag.
func Explicit(tag int, kid *Node) *Node { return Cons(ClassContext, tag, kid) }

// CtxPrim builds a primitive context-specific node ([tag] IMPLICIT of a primitive type).
func CtxPrim(tag int, content []byte) *Node { return Prim(ClassContext, tag, content) }

// CtxCons builds a constructed context-specific node ([tag] IMPLICIT of a constructed type).
func CtxCons(tag int, kids ...*Node) *Node { return Cons(ClassContext, tag, kids...) }

// Lit embeds literal bytes.
func Lit(b []byte) *Node {
	if b == nil {
		b = []byte{}
	}
	return &Node{Literal: b}
}

// Null is the NULL value.
func Null() *Node { return Prim(ClassUniversal, TagNull, nil) }

// Bool builds a BOOLEAN (DER: 0xff / 0x00).
func Bool(v bool) *Node {
	if v {
		return Prim(ClassUniversal, TagBoolean, []byte{0xff})
	}
	return Prim(ClassUniversal, TagBoolean, []byte{0})
}

// IntBytes returns the minimal two's-complement content octets of v.
func IntBytes(v *big.Int) []byte {
	switch v.Sign() {
	case 0:
		return []byte{0}
	case 1:
		b := v.Bytes()
		if b[0]&0x80 != 0 {
			b = append([]byte{0}, b...)
		}
		return b
	}
	// negative: two's complement of |v|
	n := new(big.Int).Neg(v)
	n.Sub(n, big.NewInt(1))
	b := n.Bytes()
	for i := range b {
		b[i] ^= 0xff
	}
	if len(b) == 0 || b[0]&0x80 == 0 {
		b = append([]byte{0xff}, b...)
	}
	return b
}

// BigInt builds an INTEGER.
func BigInt(v *big.Int) *Node { return Prim(ClassUniversal, TagInteger, IntBytes(v)) }

// Int builds an INTEGER from an int64.
func Int(v int64) *Node { return BigInt(big.NewInt(v)) }

// Enum builds an ENUMERATED.
func Enum(v int64) *Node { return Prim(ClassUniversal, TagEnum, IntBytes(big.NewInt(v))) }

// OIDBytes encodes object identifier arcs (at least two).
func OIDBytes(arcs []int) []byte {
	if len(arcs) < 2 {
		return []byte{}
	}
	var out []byte
	out = appendBase128(out, uint64(arcs[0]*40+arcs[1]))
	for _, a := range arcs[2:] {
		out = appendBase128(out, uint64(a))
	}
	return out
}

func appendBase128(dst []byte, v uint64) []byte {
	var tmp [10]byte
	i := len(tmp)
	i--
	tmp[i] = byte(v & 0x7f)
	v >>= 7
	for v > 0 {
		i--
		tmp[i] = byte(v&0x7f) | 0x80
		v >>= 7
	}
	return append(dst, tmp[i:]...)
}

// OID builds an OBJECT IDENTIFIER.
func OID(arcs ...int) *Node { return Prim(ClassUniversal, TagOID, OIDBytes(arcs)) }

// Octets builds an OCTET STRING.
func Octets(b []byte) *Node { return Prim(ClassUniversal, TagOctetString, b) }

// OctetsWrap builds an OCTET STRING encapsulating nodes.
func OctetsWrap(kids ...*Node) *Node {
	if kids == nil {
		kids = []*Node{}
	}
	return &Node{Class: ClassUniversal, Tag: TagOctetString, Encap: true, Children: kids}
}

// Bits builds a BIT STRING with the given unused-bit count.
func Bits(b []byte, unused int) *Node {
	c := append([]byte{byte(unused)}, b...)
	return Prim(ClassUniversal, TagBitString, c)
}

// BitsWrap builds a BIT STRING (0 unused bits) encapsulating nodes.
func BitsWrap(kids ...*Node) *Node {
	if kids == nil {
		kids = []*Node{}
	}
	return &Node{Class: ClassUniversal, Tag: TagBitString, Encap: true, Prefix: []byte{0}, Children: kids}
}

// Str builds a string of the given universal string type from raw bytes (no character checks).
func Str(tag int, s string) *Node { return Prim(ClassUniversal, tag, []byte(s)) }

// UTF8 builds a UTF8String.
func UTF8(s string) *Node { return Str(TagUTF8String, s) }

// Printable builds a PrintableString.
func Printable(s string) *Node { return Str(TagPrintableString, s) }

// IA5 builds an IA5String.
func IA5(s string) *Node { return Str(TagIA5String, s) }

// BMP builds a BMPString from a Go string (BMP code points only).
func BMP(s string) *Node {
	var b []byte
	for _, r := range s {
		b = append(b, byte(r>>8), byte(r))
	}
	return Prim(ClassUniversal, TagBMPString, b)
}

// UTCTime builds a UTCTime (YYMMDDHHMMSSZ).
func UTCTime(t time.Time) *Node { return Str(TagUTCTime, t.UTC().Format("060102150405Z")) }

// GenTime builds a GeneralizedTime (YYYYMMDDHHMMSSZ).
func GenTime(t time.Time) *Node { return Str(TagGeneralizedTime, t.UTC().Format("20060102150405Z")) }

// Time builds the RFC 5280 choice: UTCTime through 2049, GeneralizedTime after.
func Time(t time.Time) *Node {
	if y := t.UTC().Year(); y >= 1950 && y < 2050 {
		return UTCTime(t)
	}
	return GenTime(t)
}

// ParseOID decodes OID content octets into arcs (lenient: stops at overflow).
func ParseOID(b []byte) []int {
	var arcs []int
	v := uint64(0)
	first := true
	for _, c := range b {
		if v > 1<<40 {
			return arcs
		}
		v = v<<7 | uint64(c&0x7f)
		if c&0x80 != 0 {
			continue
		}
		if first {
			first = false
			switch {
			case v < 40:
				arcs = append(arcs, 0, int(v))
			case v < 80:
				arcs = append(arcs, 1, int(v-40))
			default:
				arcs = append(arcs, 2, int(v-80))
			}
		} else {
			arcs = append(arcs, int(v))
		}
		v = 0
	}
	return arcs
}
