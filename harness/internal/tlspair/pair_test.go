package tlspair

import (
	gotls "crypto/tls"
	"testing"

	ztls "github.com/zmap/zcrypto/tls"
)

func TestPairs(t *testing.T) {
	for _, kind := range Kinds {
		for _, v := range []uint16{ztls.VersionTLS10, ztls.VersionTLS11, ztls.VersionTLS12, ztls.VersionTLS13} {
			cc := BaseClient(1)
			cc.MinVersion, cc.MaxVersion = v, v
			sc := BaseServer(2, kind)
			sc.MinVersion, sc.MaxVersion = v, v
			r := RunZZ(cc, sc, Options{})
			t.Logf("ZZ %s %04x: cerr=%v serr=%v suite=%04x", kind, v, r.CErr, r.SErr, r.CZ.ConnectionState().CipherSuite)
			if r.CErr == nil && r.SErr == nil {
				if err := r.PingPong([]byte("ping"), []byte("pong")); err != nil {
					t.Errorf("pingpong %v", err)
				}
			}
			r.Close()
			if v >= ztls.VersionTLS12 {
				gs := GoServer(3, kind)
				gs.MinVersion, gs.MaxVersion = v, v
				r = RunZG(cc, gs, Options{})
				t.Logf("ZG %s %04x: cerr=%v serr=%v", kind, v, r.CErr, r.SErr)
				r.Close()
				gc := GoClient(4)
				gc.MinVersion, gc.MaxVersion = v, v
				r = RunGZ(gc, sc, Options{})
				t.Logf("GZ %s %04x: cerr=%v serr=%v", kind, v, r.CErr, r.SErr)
				r.Close()
			}
		}
	}
	_ = gotls.VersionTLS12
}
