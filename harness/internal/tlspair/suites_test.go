//go:build verif

package tlspair

import (
	"testing"

	ztls "github.com/zmap/zcrypto/tls"
)

func TestSuitesHook(t *testing.T) {
	for _, s := range ztls.VerifServerSuites() {
		t.Logf("server %04x ka=%s cipher=%s tls12=%v", s.ID, s.KA, s.Cipher, s.TLS12Only)
	}
	t.Logf("client table: %d entries; tls13 %x; aeshw=%v", len(ztls.VerifClientSuites()), ztls.VerifTLS13Suites(), ztls.VerifHasAESGCMHardwareSupport())
	kas := map[string]int{}
	for _, s := range ztls.VerifClientSuites() {
		kas[s.KA]++
	}
	t.Log(kas)
}
