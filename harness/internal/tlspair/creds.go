// Package tlspair runs TLS client/server pairs over the in-memory transport:
// zcrypto<->zcrypto, zcrypto client<->Go crypto/tls server, Go client<->zcrypto server.
// Certificates come from a small fixed PKI built once per process from the key
// pool with Go's crypto/x509 (independent of zcrypto's x509.CreateCertificate).
package tlspair

import (
	"crypto"
	"crypto/ecdsa"
	"crypto/ed25519"
	"crypto/rand"
	gorsa "crypto/rsa"
	gotls "crypto/tls"
	gox509 "crypto/x509"
	"crypto/x509/pkix"
	"math/big"
	"net"
	"sync"
	"time"

	ztls "github.com/zmap/zcrypto/tls"
	zx509 "github.com/zmap/zcrypto/x509"

	"verifharness/internal/keys"
)

// Now is the fixed "current time" of every TLS monitor (Config.Time).
var Now = time.Date(2025, 6, 1, 12, 0, 0, 0, time.UTC)

// ServerName is the DNS name in every server leaf.
const ServerName = "server.test"

// Key kinds of the leaves.
const (
	RSA2048 = "rsa2048"
	P256    = "p256"
	P384    = "p384"
	P521    = "p521"
	Ed25519 = "ed25519"
)

// Kinds lists the available server/client leaf key kinds.
var Kinds = []string{RSA2048, P256, P384, P521, Ed25519}

// Leaf is one end-entity credential.
type Leaf struct {
	Kind  string
	DER   []byte
	Key   crypto.Signer
	Chain [][]byte // leaf, intermediate
}

// PKI is the fixed test hierarchy: Root -> Intermediate -> leaves; OtherRoot signs the "untrusted" leaves.
type PKI struct {
	RootDER, InterDER, OtherRootDER []byte
	RootKey, InterKey, OtherKey     *ecdsa.PrivateKey
	Server                          map[string]*Leaf // trusted, name ServerName + IP 127.0.0.1
	Client                          map[string]*Leaf // trusted, clientAuth EKU
	Untrusted                       map[string]*Leaf // server leaves under OtherRoot
	Expired                         map[string]*Leaf // server leaves valid only in the past
	NotYet                          map[string]*Leaf
	WrongName                       map[string]*Leaf
	ServerAuthOnlyClient            map[string]*Leaf // client leaf with serverAuth EKU only
}

var (
	pkiOnce sync.Once
	pki     *PKI
)

func signerFor(kind string) crypto.Signer {
	p := keys.Get()
	switch kind {
	case RSA2048:
		return p.RSAByBits(2048, 2)[0].Std()
	case P256:
		return p.ECByCurve("P256")[0]
	case P384:
		return p.ECByCurve("P384")[0]
	case P521:
		return p.ECByCurve("P521")[0]
	case Ed25519:
		return p.Ed[0]
	}
	panic("unknown kind " + kind)
}

// SecondSigner returns a different key of the same kind (for substituted-key scenarios).
func SecondSigner(kind string) crypto.Signer {
	p := keys.Get()
	switch kind {
	case RSA2048:
		return p.RSAByBits(2048, 2)[1].Std()
	case P256:
		return p.ECByCurve("P256")[1]
	case P384:
		return p.ECByCurve("P384")[1]
	case P521:
		return p.ECByCurve("P521")[1]
	case Ed25519:
		return p.Ed[1]
	}
	panic("unknown kind " + kind)
}

var serialCtr int64 = 1000

func mk(tmpl, parent *gox509.Certificate, pub crypto.PublicKey, signer crypto.Signer) []byte {
	serialCtr++
	tmpl.SerialNumber = big.NewInt(serialCtr)
	der, err := gox509.CreateCertificate(rand.Reader, tmpl, parent, pub, signer)
	if err != nil {
		panic(err)
	}
	return der
}

// Get builds (once) and returns the fixed PKI.
func Get() *PKI {
	pkiOnce.Do(func() {
		kp := keys.Get()
		P := &PKI{Server: map[string]*Leaf{}, Client: map[string]*Leaf{}, Untrusted: map[string]*Leaf{}, Expired: map[string]*Leaf{},
			NotYet: map[string]*Leaf{}, WrongName: map[string]*Leaf{}, ServerAuthOnlyClient: map[string]*Leaf{}}
		P.RootKey = kp.ECByCurve("P256")[2]
		P.InterKey = kp.ECByCurve("P256")[3]
		P.OtherKey = kp.ECByCurve("P384")[2]
		nb, na := Now.Add(-365*24*time.Hour), Now.Add(365*24*time.Hour)
		ca := func(cn string) *gox509.Certificate {
			return &gox509.Certificate{Subject: pkix.Name{CommonName: cn, Organization: []string{"verif"}}, NotBefore: nb, NotAfter: na,
				IsCA: true, BasicConstraintsValid: true, KeyUsage: gox509.KeyUsageCertSign | gox509.KeyUsageCRLSign | gox509.KeyUsageDigitalSignature}
		}
		rootT := ca("verif root")
		P.RootDER = mk(rootT, rootT, &P.RootKey.PublicKey, P.RootKey)
		root, _ := gox509.ParseCertificate(P.RootDER)
		interT := ca("verif intermediate")
		P.InterDER = mk(interT, root, &P.InterKey.PublicKey, P.RootKey)
		inter, _ := gox509.ParseCertificate(P.InterDER)
		otherT := ca("other root")
		P.OtherRootDER = mk(otherT, otherT, &P.OtherKey.PublicKey, P.OtherKey)
		other, _ := gox509.ParseCertificate(P.OtherRootDER)
		leafT := func(cn string, dns []string, eku []gox509.ExtKeyUsage, nb, na time.Time) *gox509.Certificate {
			return &gox509.Certificate{Subject: pkix.Name{CommonName: cn}, DNSNames: dns, IPAddresses: []net.IP{net.IPv4(127, 0, 0, 1)},
				NotBefore: nb, NotAfter: na, KeyUsage: gox509.KeyUsageDigitalSignature | gox509.KeyUsageKeyEncipherment, ExtKeyUsage: eku, BasicConstraintsValid: true}
		}
		sa := []gox509.ExtKeyUsage{gox509.ExtKeyUsageServerAuth}
		ca2 := []gox509.ExtKeyUsage{gox509.ExtKeyUsageClientAuth}
		for _, k := range Kinds {
			s := signerFor(k)
			add := func(m map[string]*Leaf, t *gox509.Certificate, parent *gox509.Certificate, pk *ecdsa.PrivateKey, chainTail [][]byte) {
				der := mk(t, parent, s.Public(), pk)
				m[k] = &Leaf{Kind: k, DER: der, Key: s, Chain: append([][]byte{der}, chainTail...)}
			}
			add(P.Server, leafT(ServerName, []string{ServerName, "alt.server.test"}, sa, nb, na), inter, P.InterKey, [][]byte{P.InterDER})
			add(P.Client, leafT("client.test", []string{"client.test"}, ca2, nb, na), inter, P.InterKey, [][]byte{P.InterDER})
			add(P.Untrusted, leafT(ServerName, []string{ServerName}, sa, nb, na), other, P.OtherKey, nil)
			add(P.Expired, leafT(ServerName, []string{ServerName}, sa, nb, Now.Add(-time.Hour)), inter, P.InterKey, [][]byte{P.InterDER})
			add(P.NotYet, leafT(ServerName, []string{ServerName}, sa, Now.Add(time.Hour), na), inter, P.InterKey, [][]byte{P.InterDER})
			add(P.WrongName, leafT("wrong.test", []string{"wrong.test"}, sa, nb, na), inter, P.InterKey, [][]byte{P.InterDER})
			add(P.ServerAuthOnlyClient, leafT("client.test", []string{"client.test"}, sa, nb, na), inter, P.InterKey, [][]byte{P.InterDER})
		}
		pki = P
	})
	return pki
}

// Z converts a leaf to a zcrypto tls.Certificate (RSA keys as zcrypto/rsa keys, which is what zcrypto's TLS stack expects).
func (l *Leaf) Z() ztls.Certificate {
	var k crypto.PrivateKey = l.Key
	if rk, ok := l.Key.(*gorsa.PrivateKey); ok {
		for _, pk := range keys.Get().RSA {
			if pk.N.Cmp(rk.N) == 0 {
				k = pk.Z()
			}
		}
	}
	return ztls.Certificate{Certificate: l.Chain, PrivateKey: k}
}

// Go converts a leaf to a Go tls.Certificate.
func (l *Leaf) Go() gotls.Certificate {
	return gotls.Certificate{Certificate: l.Chain, PrivateKey: l.Key}
}

// ZRoots returns a zcrypto pool holding the trusted root.
func (p *PKI) ZRoots() *zx509.CertPool {
	pool := zx509.NewCertPool()
	c, err := zx509.ParseCertificate(p.RootDER)
	if err != nil {
		panic(err)
	}
	pool.AddCert(c)
	return pool
}

// GoRoots returns a Go pool holding the trusted root.
func (p *PKI) GoRoots() *gox509.CertPool {
	pool := gox509.NewCertPool()
	c, err := gox509.ParseCertificate(p.RootDER)
	if err != nil {
		panic(err)
	}
	pool.AddCert(c)
	return pool
}

var _ = ed25519.PublicKeySize
