package tlspair

import (
	"bytes"
	gotls "crypto/tls"
	"fmt"
	"io"
	"sync"
	"time"

	ztls "github.com/zmap/zcrypto/tls"

	"verifharness/internal/core"
	"verifharness/internal/netx"
)

// DetRand is a deterministic byte stream for Config.Rand (xorshift; not cryptographic, which is the point: replayable).
type DetRand struct {
	mu sync.Mutex
	s  uint64
}

// NewDetRand seeds a stream.
func NewDetRand(seed uint64) *DetRand {
	if seed == 0 {
		seed = 0x9e3779b97f4a7c15
	}
	return &DetRand{s: seed}
}

func (d *DetRand) Read(p []byte) (int, error) {
	d.mu.Lock()
	defer d.mu.Unlock()
	for i := range p {
		d.s ^= d.s << 13
		d.s ^= d.s >> 7
		d.s ^= d.s << 17
		p[i] = byte(d.s >> 24)
	}
	return len(p), nil
}

// SyncBuffer is a goroutine-safe bytes.Buffer (KeyLogWriter).
type SyncBuffer struct {
	mu sync.Mutex
	b  bytes.Buffer
}

func (s *SyncBuffer) Write(p []byte) (int, error) { s.mu.Lock(); defer s.mu.Unlock(); return s.b.Write(p) }
func (s *SyncBuffer) String() string               { s.mu.Lock(); defer s.mu.Unlock(); return s.b.String() }

// Endpoint is what both zcrypto's and Go's tls.Conn offer.
type Endpoint interface {
	Handshake() error
	Read([]byte) (int, error)
	Write([]byte) (int, error)
	Close() error
	SetDeadline(time.Time) error
}

// Options of one pair run.
type Options struct {
	AB, BA           netx.Options  // transport options: A = client side, B = server side
	HandshakeTimeout time.Duration // watchdog only (default 30 s); firing sets TimedOut
	SkipServer       bool
	// RecoverPanics (opt-in): a panic inside Handshake / PingPong on either endpoint goroutine is recovered and
	// reported in Result.CPanic / SPanic (the error of that side is set to a "panic: ..." error) instead of
	// killing the process. Default false: panics propagate as before.
	RecoverPanics bool
}

// Result of a pair run. Exactly one of CZ/CG and one of SZ/SG is non-nil.
type Result struct {
	CZ, SZ         *ztls.Conn
	CG, SG         *gotls.Conn
	A, B           *netx.Conn
	Tap            *netx.Tap
	CErr, SErr     error
	TimedOut       bool
	ClientKeyLog   *SyncBuffer
	ServerKeyLog   *SyncBuffer
	CPanic, SPanic *core.PanicInfo // set only with Options.RecoverPanics
	recoverPanics  bool
	clientEndpoint Endpoint
	serverEndpoint Endpoint
}

// Client returns the client endpoint, Server the server endpoint.
func (r *Result) Client() Endpoint { return r.clientEndpoint }
func (r *Result) Server() Endpoint { return r.serverEndpoint }

// Close closes both TLS endpoints and the transport.
func (r *Result) Close() {
	r.A.Close()
	r.B.Close()
}

func handshakeBoth(r *Result, opt Options) {
	to := opt.HandshakeTimeout
	if to == 0 {
		to = 30 * time.Second
	}
	var wg sync.WaitGroup
	wg.Add(2)
	r.recoverPanics = opt.RecoverPanics
	hs := func(ep Endpoint) (err error, pi *core.PanicInfo) {
		if !opt.RecoverPanics {
			return ep.Handshake(), nil
		}
		pi = core.Guard(func() { err = ep.Handshake() })
		if pi != nil {
			err = fmt.Errorf("panic: %s", pi.Value)
		}
		return
	}
	go func() { defer wg.Done(); r.CErr, r.CPanic = hs(r.clientEndpoint); if r.CErr != nil { r.A.Close() } }()
	go func() { defer wg.Done(); r.SErr, r.SPanic = hs(r.serverEndpoint); if r.SErr != nil { r.B.Close() } }()
	done := make(chan struct{})
	go func() { wg.Wait(); close(done) }()
	select {
	case <-done:
	case <-time.After(to):
		r.TimedOut = true
		r.A.Close()
		r.B.Close()
		select {
		case <-done:
		case <-time.After(10 * time.Second):
			// still blocked after the transport is closed: the caller decides what that means
		}
	}
}

// RunZZ runs a zcrypto client against a zcrypto server.
func RunZZ(cc, sc *ztls.Config, opt Options) *Result {
	a, b, tap := netx.Pipe(opt.AB, opt.BA)
	r := &Result{A: a, B: b, Tap: tap}
	r.CZ = ztls.Client(a, cc)
	r.SZ = ztls.Server(b, sc)
	r.clientEndpoint, r.serverEndpoint = r.CZ, r.SZ
	handshakeBoth(r, opt)
	return r
}

// RunZG runs a zcrypto client against a Go crypto/tls server.
func RunZG(cc *ztls.Config, sc *gotls.Config, opt Options) *Result {
	a, b, tap := netx.Pipe(opt.AB, opt.BA)
	r := &Result{A: a, B: b, Tap: tap}
	r.CZ = ztls.Client(a, cc)
	r.SG = gotls.Server(b, sc)
	r.clientEndpoint, r.serverEndpoint = r.CZ, r.SG
	handshakeBoth(r, opt)
	return r
}

// RunGZ runs a Go crypto/tls client against a zcrypto server.
func RunGZ(cc *gotls.Config, sc *ztls.Config, opt Options) *Result {
	a, b, tap := netx.Pipe(opt.AB, opt.BA)
	r := &Result{A: a, B: b, Tap: tap}
	r.CG = gotls.Client(a, cc)
	r.SZ = ztls.Server(b, sc)
	r.clientEndpoint, r.serverEndpoint = r.CG, r.SZ
	handshakeBoth(r, opt)
	return r
}

// PingPong sends msg client→server and reply server→client (each side reads exactly the expected length).
// It makes a TLS 1.3 client process post-handshake messages (NewSessionTicket) as a side effect.
func (r *Result) PingPong(msg, reply []byte) error {
	errc := make(chan error, 2)
	guard := func(isServer bool, f func()) {
		if !r.recoverPanics {
			f()
			return
		}
		if pi := core.Guard(f); pi != nil {
			if isServer {
				r.SPanic = pi
			} else {
				r.CPanic = pi
			}
			errc <- fmt.Errorf("panic: %s", pi.Value)
		}
	}
	go guard(true, func() {
		buf := make([]byte, len(msg))
		if _, err := io.ReadFull(r.serverEndpoint, buf); err != nil {
			errc <- fmt.Errorf("server read: %w", err)
			return
		}
		if !bytes.Equal(buf, msg) {
			errc <- fmt.Errorf("server read %x want %x", buf, msg)
			return
		}
		_, err := r.serverEndpoint.Write(reply)
		errc <- err
	})
	go guard(false, func() {
		if _, err := r.clientEndpoint.Write(msg); err != nil {
			errc <- fmt.Errorf("client write: %w", err)
			return
		}
		buf := make([]byte, len(reply))
		if _, err := io.ReadFull(r.clientEndpoint, buf); err != nil {
			errc <- fmt.Errorf("client read: %w", err)
			return
		}
		if !bytes.Equal(buf, reply) {
			errc <- fmt.Errorf("client read %x want %x", buf, reply)
			return
		}
		errc <- nil
	})
	var first error
	for i := 0; i < 2; i++ {
		select {
		case err := <-errc:
			if err != nil && first == nil {
				first = err
				r.Close()
			}
		case <-time.After(30 * time.Second):
			r.Close()
			return fmt.Errorf("pingpong watchdog")
		}
	}
	return first
}

// BaseClient returns a zcrypto client config trusting the fixed PKI with fixed time and deterministic randomness.
func BaseClient(seed uint64) *ztls.Config {
	p := Get()
	return &ztls.Config{RootCAs: p.ZRoots(), ServerName: ServerName, Time: func() time.Time { return Now }, Rand: NewDetRand(seed)}
}

// BaseServer returns a zcrypto server config with the given leaf kinds.
func BaseServer(seed uint64, kinds ...string) *ztls.Config {
	p := Get()
	c := &ztls.Config{Time: func() time.Time { return Now }, Rand: NewDetRand(seed ^ 0xabcdef)}
	for _, k := range kinds {
		c.Certificates = append(c.Certificates, p.Server[k].Z())
	}
	return c
}

// GoClient / GoServer: the same for Go's crypto/tls.
func GoClient(seed uint64) *gotls.Config {
	p := Get()
	return &gotls.Config{RootCAs: p.GoRoots(), ServerName: ServerName, Time: func() time.Time { return Now }, Rand: NewDetRand(seed)}
}

func GoServer(seed uint64, kinds ...string) *gotls.Config {
	p := Get()
	c := &gotls.Config{Time: func() time.Time { return Now }, Rand: NewDetRand(seed ^ 0xabcdef)}
	for _, k := range kinds {
		c.Certificates = append(c.Certificates, p.Server[k].Go())
	}
	return c
}
