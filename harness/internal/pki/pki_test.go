package pki

import (
	stdx509 "crypto/x509"
	"math/rand/v2"
	"testing"
	"time"

	zx509 "github.com/zmap/zcrypto/x509"
)

// Sanity of the factory itself (not part of any verdict): generated certificates parse in
// zcrypto and in Go's crypto/x509, and the ground truth agrees with Go's signature check.
func TestFactoryAgainstStdlib(t *testing.T) {
	T := time.Date(2024, 6, 1, 12, 0, 0, 0, time.UTC)
	nstd, nbad := 0, 0
	for seed := uint64(1); seed <= 300; seed++ {
		pk := GenPKI(rand.New(rand.NewPCG(seed, 7)), T, GenParams{Clean: 0.2})
		for _, c := range pk.Certs {
			zc, err := zx509.ParseCertificate(c.DER)
			if err != nil {
				t.Fatalf("zcrypto parse %s: %v\n%x", c.Spec.Label, err, c.DER)
			}
			if zc.BasicConstraintsValid != c.Spec.HasBC || zc.IsCA != c.IsCAGroundTruth() {
				t.Fatalf("bc mismatch %s", c.Spec.Label)
			}
			sc, err := stdx509.ParseCertificate(c.DER)
			if err != nil {
				nbad++
				continue
			}
			nstd++
			// find a key that matches the issuer and compare ground truth with stdlib
			for _, p := range pk.Certs {
				psc, err := stdx509.ParseCertificate(p.DER)
				if err != nil {
					continue
				}
				got := psc.CheckSignature(sc.SignatureAlgorithm, sc.RawTBSCertificate, sc.Signature) == nil
				want := c.SignedByKey(p.Spec.Key)
				if got != want || c.VerifyStd(p.Spec.Key) != want {
					t.Fatalf("ground truth disagrees with stdlib: child %s parent %s got %v want %v (corrupt %s)", c.Spec.Label, p.Spec.Label, got, want, c.Spec.Corrupt)
				}
			}
		}
	}
	t.Logf("stdlib parsed %d, rejected %d", nstd, nbad)
}
