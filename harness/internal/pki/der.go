// Package pki builds small certificate universes with ground truth for the
// /verif monitors: every certificate records which key really signed it and
// whether (and how) the signature was corrupted afterwards, together with the
// intended CA flag, path length, EKUs, validity window and names.
//
// Certificates are written by a small DER writer of this package and signed
// with Go's crypto/ecdsa (deterministic RFC 6979 nonces, so a universe is a
// function of the seed) or crypto/ed25519. Nothing here shares code with
// zcrypto, so the ground truth is independent of the code under test.
package pki

import (
	"math/big"
	"time"
)

// TLV writes one DER element with a single-byte tag.
func TLV(tag byte, parts ...[]byte) []byte {
	n := 0
	for _, p := range parts {
		n += len(p)
	}
	out := make([]byte, 0, n+6)
	out = append(out, tag)
	switch {
	case n < 0x80:
		out = append(out, byte(n))
	case n < 0x100:
		out = append(out, 0x81, byte(n))
	case n < 0x10000:
		out = append(out, 0x82, byte(n>>8), byte(n))
	default:
		out = append(out, 0x83, byte(n>>16), byte(n>>8), byte(n))
	}
	for _, p := range parts {
		out = append(out, p...)
	}
	return out
}

// Seq is a SEQUENCE.
func Seq(parts ...[]byte) []byte { return TLV(0x30, parts...) }

// Set is a SET.
func Set(parts ...[]byte) []byte { return TLV(0x31, parts...) }

// Int is an INTEGER.
func Int(v *big.Int) []byte {
	if v.Sign() == 0 {
		return TLV(0x02, []byte{0})
	}
	if v.Sign() > 0 {
		b := v.Bytes()
		if b[0]&0x80 != 0 {
			b = append([]byte{0}, b...)
		}
		return TLV(0x02, b)
	}
	// two's complement of a negative number
	n := (v.BitLen() + 8) / 8
	mod := new(big.Int).Lsh(big.NewInt(1), uint(8*n))
	b := new(big.Int).Add(mod, v).Bytes()
	for len(b) < n {
		b = append([]byte{0xff}, b...)
	}
	for len(b) > 1 && b[0] == 0xff && b[1]&0x80 != 0 {
		b = b[1:]
	}
	return TLV(0x02, b)
}

// Int64 is an INTEGER from an int64.
func Int64(v int64) []byte { return Int(big.NewInt(v)) }

// OID encodes an object identifier.
func OID(arcs ...int) []byte {
	var b []byte
	b = appendBase128(b, arcs[0]*40+arcs[1])
	for _, a := range arcs[2:] {
		b = appendBase128(b, a)
	}
	return TLV(0x06, b)
}

func appendBase128(b []byte, v int) []byte {
	var tmp [10]byte
	i := len(tmp)
	i--
	tmp[i] = byte(v & 0x7f)
	v >>= 7
	for v > 0 {
		i--
		tmp[i] = byte(v&0x7f) | 0x80
		v >>= 7
	}
	return append(b, tmp[i:]...)
}

// BitString is a BIT STRING with no unused bits.
func BitString(b []byte) []byte { return TLV(0x03, []byte{0}, b) }

// NamedBits encodes a named-bit-list (e.g. keyUsage) minimally; bit 0 is the most significant bit of the first byte.
func NamedBits(bits []int) []byte {
	if len(bits) == 0 {
		return TLV(0x03, []byte{0})
	}
	maxb := 0
	for _, b := range bits {
		if b > maxb {
			maxb = b
		}
	}
	buf := make([]byte, maxb/8+1)
	for _, b := range bits {
		buf[b/8] |= 0x80 >> uint(b%8)
	}
	unused := 7 - maxb%8
	return TLV(0x03, []byte{byte(unused)}, buf)
}

// Octet is an OCTET STRING.
func Octet(b []byte) []byte { return TLV(0x04, b) }

// Bool is a BOOLEAN.
func Bool(v bool) []byte {
	if v {
		return TLV(0x01, []byte{0xff})
	}
	return TLV(0x01, []byte{0})
}

// Explicit wraps content in a constructed context tag.
func Explicit(n int, content ...[]byte) []byte { return TLV(0xa0|byte(n), content...) }

// Implicit is a primitive context-tagged element.
func Implicit(n int, content []byte) []byte { return TLV(0x80|byte(n), content) }

// Time encodes UTCTime for 1950..2049 and GeneralizedTime otherwise.
func Time(t time.Time) []byte {
	t = t.UTC()
	if y := t.Year(); y >= 1950 && y < 2050 {
		return TLV(0x17, []byte(t.Format("060102150405Z")))
	}
	return TLV(0x18, []byte(t.Format("20060102150405Z")))
}

// String tags.
const (
	TagUTF8      = 0x0c
	TagPrintable = 0x13
	TagT61       = 0x14
	TagIA5       = 0x16
)

// Well-known OIDs (as arcs).
var (
	OIDCommonName   = []int{2, 5, 4, 3}
	OIDOrganization = []int{2, 5, 4, 10}

	OIDExtSKID = []int{2, 5, 29, 14}
	OIDExtKU   = []int{2, 5, 29, 15}
	OIDExtSAN  = []int{2, 5, 29, 17}
	OIDExtBC   = []int{2, 5, 29, 19}
	OIDExtAKID = []int{2, 5, 29, 35}
	OIDExtEKU  = []int{2, 5, 29, 37}

	OIDEKUAny          = []int{2, 5, 29, 37, 0}
	OIDEKUServerAuth   = []int{1, 3, 6, 1, 5, 5, 7, 3, 1}
	OIDEKUClientAuth   = []int{1, 3, 6, 1, 5, 5, 7, 3, 2}
	OIDEKUCodeSigning  = []int{1, 3, 6, 1, 5, 5, 7, 3, 3}
	OIDEKUEmail        = []int{1, 3, 6, 1, 5, 5, 7, 3, 4}
	OIDEKUOCSPSigning  = []int{1, 3, 6, 1, 5, 5, 7, 3, 9}
	OIDEKUMicrosoftSGC = []int{1, 3, 6, 1, 4, 1, 311, 10, 3, 3}
	OIDEKUNetscapeSGC  = []int{2, 16, 840, 1, 113730, 4, 1}
	OIDEKUUnknownVerif = []int{1, 3, 6, 1, 4, 1, 55555, 7, 1}
	oidECPublicKey     = []int{1, 2, 840, 10045, 2, 1}
	oidP256            = []int{1, 2, 840, 10045, 3, 1, 7}
	oidP384            = []int{1, 3, 132, 0, 34}
	oidECDSAWithSHA256 = []int{1, 2, 840, 10045, 4, 3, 2}
	oidECDSAWithSHA384 = []int{1, 2, 840, 10045, 4, 3, 3}
	oidEd25519         = []int{1, 3, 101, 112}
)
