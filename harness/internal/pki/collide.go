package pki

import (
	"fmt"
	"math/big"
	"math/rand/v2"
	"time"
)

func bigInt(v int64) *big.Int { return big.NewInt(v) }

// GenCollisionUniverse builds 8..12 certificates engineered to collide in every
// index a certificate pool might keep: same subject with different keys, same
// key with different subjects, same subject key id on different subjects/keys,
// re-issues (same subject and key, different bytes), children whose AKID is
// right, absent or misleading, and children whose signature is damaged or was
// made by a key that does not belong to the named issuer.
func GenCollisionUniverse(rng *rand.Rand) *Universe {
	u := &Universe{}
	ks := append([]*Key(nil), Keys()[:NumP256]...)
	rng.Shuffle(len(ks), func(i, j int) { ks[i], ks[j] = ks[j], ks[i] })
	ks = ks[:4]
	if rng.IntN(6) == 0 { // one non-P256 key now and then
		all := Keys()
		ks[3] = all[NumP256+rng.IntN(len(all)-NumP256)]
	}
	names := []Name{{O: "verif", CN: []byte("A")}, {O: "verif", CN: []byte("B")}, {O: "verif", CN: []byte("C")}, {O: "verif", CN: []byte("D")}}
	sharedSKID := []byte{0x51, 0x51, 0x51, 0x51}
	t0 := time.Date(2024, 1, 1, 0, 0, 0, 0, time.UTC)
	ser := int64(100)
	mk := func(label string, subj, iss int, key, signer *Key, fill func(*Spec)) *Cert {
		ser++
		s := Spec{Label: label, Serial: bigInt(ser), Subject: names[subj], Issuer: names[iss], Key: key, Signer: signer,
			NotBefore: t0, NotAfter: t0.Add(1000 * 24 * time.Hour), HasBC: true, IsCA: true, PathLen: -1, SKID: key.SKID}
		if fill != nil {
			fill(&s)
		}
		return u.Add(Build(s))
	}
	pick := func(n int) int { return rng.IntN(n) }
	// structured core
	mk("A/k0", 0, 0, ks[0], ks[0], nil)
	mk("A/k1", 0, 0, ks[1], ks[1], func(s *Spec) { // same subject, different key; sometimes the same SKID too
		if pick(2) == 0 {
			s.SKID = ks[0].SKID
		}
	})
	mk("B/k0", 1, 1, ks[0], ks[0], nil)                                                       // same key (and SKID), different subject
	mk("A/k0'", 0, 0, ks[0], ks[0], func(s *Spec) { s.NotAfter = s.NotAfter.Add(time.Hour) }) // re-issue
	akidChoices := func(signer *Key) []byte {
		switch pick(5) {
		case 0:
			return nil
		case 1:
			return ks[pick(4)].SKID // possibly misleading
		case 2:
			return sharedSKID
		default:
			return signer.SKID
		}
	}
	mk("C/k2<-A/k0", 2, 0, ks[2], ks[0], func(s *Spec) { s.AKID = akidChoices(ks[0]) })
	mk("C/k2<-A/k1", 2, 0, ks[2], ks[1], func(s *Spec) { s.AKID = akidChoices(ks[1]) })
	mk("D<-C/k2", 3, 2, ks[3], ks[2], func(s *Spec) { s.HasBC = false; s.AKID = akidChoices(ks[2]) })
	mk("D<-C/k2:bad", 3, 2, ks[3], ks[2], func(s *Spec) {
		s.HasBC = false
		s.AKID = akidChoices(ks[2])
		s.Corrupt = Corruption(1 + pick(4))
	})
	// random fill
	n := 8 + pick(5)
	for i := len(u.Certs); i < n; i++ {
		subj, iss := pick(4), pick(4)
		key, signer := ks[pick(4)], ks[pick(4)]
		mk(fmt.Sprintf("x%d", i), subj, iss, key, signer, func(s *Spec) {
			switch pick(4) {
			case 0:
				s.SKID = nil
			case 1:
				s.SKID = sharedSKID
			}
			s.AKID = akidChoices(signer)
			switch pick(10) {
			case 0:
				s.HasBC = false
			case 1:
				s.IsCA = false
			case 2:
				s.Version = 1
			}
			if pick(7) == 0 {
				s.Corrupt = Corruption(1 + pick(4))
			}
			if pick(8) == 0 {
				s.KeyUsage = []int{0}
			}
		})
	}
	return u
}
