package pki

import (
	"fmt"
	"math/big"
	"math/rand/v2"
	"time"
)

// Role of a certificate inside a generated PKI.
const (
	RoleRoot = iota
	RoleIntermediate
	RoleLeaf
)

// Entity is a (name, key) pair that issues and receives certificates.
type Entity struct {
	Name Name
	Key  *Key
	Role int
}

// PKI is a generated universe: roots, intermediates, leaves with ground truth.
type PKI struct {
	Universe
	T        time.Time // the verification time the validity windows were arranged around
	Entities []*Entity
	Roots    []*Cert // self-signed certificates of root entities (and their re-issues)
	Inters   []*Cert // certificates whose subject is a CA entity and that are not self-signed roots (incl. cross-signs)
	Leaves   []*Cert
	LeafDNS  map[*Cert]string // one DNS name known to be in the leaf ("" if none)
}

// EKUChoices are the extended-key-usage sets used by the generator.
var EKUChoices = [][][]int{
	{OIDEKUServerAuth},
	{OIDEKUClientAuth},
	{OIDEKUAny},
	{OIDEKUNetscapeSGC},
	{OIDEKUMicrosoftSGC},
	{OIDEKUEmail, OIDEKUClientAuth},
	{OIDEKUServerAuth, OIDEKUClientAuth},
	{OIDEKUUnknownVerif},
	{OIDEKUCodeSigning},
	{OIDEKUServerAuth, OIDEKUUnknownVerif},
}

// GenParams tunes GenPKI.
type GenParams struct {
	MaxRoots, MaxInters, MaxLeaves int     // upper bounds (inclusive); zero values mean 3, 6, 3
	Clean                          float64 // probability that a whole PKI is generated without any defect injection
}

type gen struct {
	rng  *rand.Rand
	t    time.Time
	keys []*Key
	nkey int
	ser  int64
}

func (g *gen) p(x float64) bool { return g.rng.Float64() < x }

func (g *gen) nextKey() *Key {
	// mostly P-256 (cheap); occasionally P-384 or Ed25519
	all := Keys()
	if g.p(0.06) {
		return all[NumP256+g.rng.IntN(len(all)-NumP256)]
	}
	k := g.keys[g.nkey%len(g.keys)]
	g.nkey++
	return k
}

func (g *gen) serial() *big.Int {
	g.ser++
	return new(big.Int).SetUint64(uint64(g.rng.Uint32())<<16 | uint64(g.ser))
}

// window draws a validity window relative to the verification time.
func (g *gen) window(clean bool) (nb, na time.Time) {
	day := 24 * time.Hour
	d := func(max int) time.Duration {
		return time.Duration(1+g.rng.IntN(max))*day + time.Duration(g.rng.IntN(86400))*time.Second
	}
	r := g.rng.Float64()
	if clean {
		r = 0
	}
	switch {
	case r < 0.62: // comfortably current
		return g.t.Add(-d(900)), g.t.Add(d(900))
	case r < 0.71: // expired
		na = g.t.Add(-d(300))
		return na.Add(-d(600)), na
	case r < 0.78: // not yet valid
		nb = g.t.Add(d(300))
		return nb, nb.Add(d(600))
	case r < 0.83: // NotAfter == t to the second
		return g.t.Add(-d(300)), g.t.Truncate(time.Second)
	case r < 0.88: // NotBefore == t to the second
		return g.t.Truncate(time.Second), g.t.Add(d(300))
	case r < 0.91: // single instant
		x := g.t.Truncate(time.Second).Add(time.Duration(g.rng.IntN(3)-1) * time.Second)
		return x, x
	case r < 0.94: // inverted
		return g.t.Add(d(300)), g.t.Add(-d(300))
	default: // narrow windows around t (seconds)
		return g.t.Truncate(time.Second).Add(-time.Duration(g.rng.IntN(3)) * time.Second),
			g.t.Truncate(time.Second).Add(time.Duration(g.rng.IntN(3)) * time.Second)
	}
}

func (g *gen) eku(clean bool) [][]int {
	if clean || g.p(0.5) {
		return nil
	}
	return EKUChoices[g.rng.IntN(len(EKUChoices))]
}

// GenPKI draws a random small PKI around verification time t.
func GenPKI(rng *rand.Rand, t time.Time, prm GenParams) *PKI {
	if prm.MaxRoots == 0 {
		prm.MaxRoots = 3
	}
	if prm.MaxInters == 0 {
		prm.MaxInters = 6
	}
	if prm.MaxLeaves == 0 {
		prm.MaxLeaves = 3
	}
	g := &gen{rng: rng, t: t}
	all := Keys()[:NumP256]
	g.keys = append(g.keys, all...)
	rng.Shuffle(len(g.keys), func(i, j int) { g.keys[i], g.keys[j] = g.keys[j], g.keys[i] })
	clean := g.p(prm.Clean)
	pk := &PKI{T: t, LeafDNS: map[*Cert]string{}}

	nR := 1 + rng.IntN(prm.MaxRoots)
	nI := rng.IntN(prm.MaxInters + 1)
	nL := 1 + rng.IntN(prm.MaxLeaves)

	newEntity := func(role int, label string) *Entity {
		e := &Entity{Role: role, Name: Name{O: "verif", CN: []byte(label)}, Key: g.nextKey()}
		if !clean && len(pk.Entities) > 0 && role != RoleLeaf {
			switch r := g.rng.Float64(); {
			case r < 0.12: // same subject, different key
				e.Name = pk.Entities[g.rng.IntN(len(pk.Entities))].Name
			case r < 0.20: // same key, different subject
				e.Key = pk.Entities[g.rng.IntN(len(pk.Entities))].Key
			}
		}
		pk.Entities = append(pk.Entities, e)
		return e
	}

	skidOf := func(k *Key) []byte {
		if clean {
			return k.SKID
		}
		switch r := g.rng.Float64(); {
		case r < 0.70:
			return k.SKID
		case r < 0.90:
			return nil
		case r < 0.95: // collides with another key's id
			return Keys()[g.rng.IntN(NumP256)].SKID
		default:
			return []byte{0xde, 0xad, byte(g.rng.IntN(4))}
		}
	}
	akidFor := func(issuerKey *Key) []byte {
		if clean {
			return issuerKey.SKID
		}
		switch r := g.rng.Float64(); {
		case r < 0.50:
			return issuerKey.SKID
		case r < 0.85:
			return nil
		case r < 0.95: // misleading: some other key's id
			return Keys()[g.rng.IntN(NumP256)].SKID
		default:
			return []byte{0xde, 0xad, byte(g.rng.IntN(4))}
		}
	}
	caFields := func(s *Spec, role int) {
		s.HasBC, s.IsCA, s.PathLen = true, true, -1
		if clean {
			return
		}
		switch r := g.rng.Float64(); {
		case r < 0.06:
			s.HasBC = false
		case r < 0.12:
			s.IsCA = false
		case r < 0.15 && role == RoleIntermediate:
			s.Version = 1
		case r < 0.22 && role == RoleRoot:
			s.Version = 1
		}
		if g.p(0.30) {
			s.PathLen = g.rng.IntN(3)
		}
		s.BCCritical = g.p(0.5)
		switch r := g.rng.Float64(); {
		case r < 0.20:
			s.KeyUsage = []int{5, 6} // keyCertSign, cRLSign
		case r < 0.27:
			s.KeyUsage = []int{0} // digitalSignature only
		}
	}
	// issue builds a certificate for subject (name, key) from an issuing entity.
	issue := func(label string, subj Name, key *Key, iss *Entity, fill func(*Spec)) *Cert {
		s := Spec{Label: label, Serial: g.serial(), Subject: subj, Issuer: iss.Name, Key: key, Signer: iss.Key, PathLen: -1}
		s.NotBefore, s.NotAfter = g.window(clean)
		s.EKU = g.eku(clean)
		s.SKID = skidOf(key)
		s.AKID = akidFor(iss.Key)
		fill(&s)
		if !clean {
			switch r := g.rng.Float64(); {
			case r < 0.05: // signed by a key that does not belong to the named issuer
				s.Signer = g.keys[g.rng.IntN(len(g.keys))]
			case r < 0.08:
				s.Corrupt = CorruptSigBit
			case r < 0.10:
				s.Corrupt = CorruptTBS
			case r < 0.115:
				s.Corrupt = CorruptZero
			case r < 0.135:
				s.Corrupt = CorruptTrailing
			}
		}
		return pk.Add(Build(s))
	}

	var cas []*Entity
	for i := 0; i < nR; i++ {
		e := newEntity(RoleRoot, fmt.Sprintf("R%d", i))
		cas = append(cas, e)
		n := 1
		if !clean && g.p(0.15) {
			n = 2 // re-issued root: same subject and key, different validity/serial
		}
		for j := 0; j < n; j++ {
			c := issue(fmt.Sprintf("R%d.%d", i, j), e.Name, e.Key, e, func(s *Spec) { caFields(s, RoleRoot) })
			pk.Roots = append(pk.Roots, c)
		}
	}
	for i := 0; i < nI; i++ {
		e := newEntity(RoleIntermediate, fmt.Sprintf("I%d", i))
		n := 1
		if !clean && g.p(0.30) {
			n = 2
		}
		for j := 0; j < n; j++ {
			iss := cas[g.rng.IntN(len(cas))]
			c := issue(fmt.Sprintf("I%d.%d", i, j), e.Name, e.Key, iss, func(s *Spec) { caFields(s, RoleIntermediate) })
			pk.Inters = append(pk.Inters, c)
		}
		cas = append(cas, e)
	}
	// cross-signs (may point "upwards" and so create loops, or cross-sign roots)
	if !clean {
		for k := 0; k < 3; k++ {
			if len(cas) >= 2 && g.p(0.35) {
				a := cas[g.rng.IntN(len(cas))]
				b := cas[g.rng.IntN(len(cas))]
				if a != b {
					c := issue(fmt.Sprintf("X%d", k), a.Name, a.Key, b, func(s *Spec) { caFields(s, RoleIntermediate) })
					pk.Inters = append(pk.Inters, c)
					if g.p(0.4) { // and back: A <-> B
						c2 := issue(fmt.Sprintf("X%d'", k), b.Name, b.Key, a, func(s *Spec) { caFields(s, RoleIntermediate) })
						pk.Inters = append(pk.Inters, c2)
					}
				}
			}
		}
		// self-issued key roll-over: same name, new key, certified by the old key
		if g.p(0.15) {
			old := cas[g.rng.IntN(len(cas))]
			e := &Entity{Role: RoleIntermediate, Name: old.Name, Key: g.nextKey()}
			pk.Entities = append(pk.Entities, e)
			c := issue("ROLL", e.Name, e.Key, old, func(s *Spec) { caFields(s, RoleIntermediate) })
			pk.Inters = append(pk.Inters, c)
			cas = append(cas, e)
		}
	}
	for i := 0; i < nL; i++ {
		e := newEntity(RoleLeaf, fmt.Sprintf("L%d", i))
		iss := cas[g.rng.IntN(len(cas))]
		// bias towards deeper issuers so that longer chains are common
		if len(cas) > nR && g.p(0.6) {
			iss = cas[nR+g.rng.IntN(len(cas)-nR)]
		}
		if !clean && g.p(0.06) {
			iss = e // self-signed leaf
		}
		dns := fmt.Sprintf("l%d.verif.test", i)
		c := issue(fmt.Sprintf("L%d", i), e.Name, e.Key, iss, func(s *Spec) {
			switch r := g.rng.Float64(); {
			case clean || r < 0.55:
				s.SAN = &SAN{DNS: [][]byte{[]byte(dns)}}
			case r < 0.70:
				s.SAN = &SAN{DNS: [][]byte{[]byte("*.verif.test")}}
			case r < 0.80: // no SAN: CN carries the name
				s.Subject.CN = []byte(dns)
			case r < 0.88: // SAN without DNS names, CN looks like the name but must be ignored
				s.SAN = &SAN{IPs: [][]byte{{10, 0, 0, byte(i)}}}
				s.Subject.CN = []byte(dns)
				dns = ""
			default:
				dns = ""
			}
			if !clean && g.p(0.12) { // leaves that claim to be CAs, or carry BC without CA
				s.HasBC, s.IsCA = true, g.p(0.5)
			}
		})
		pk.Leaves = append(pk.Leaves, c)
		pk.LeafDNS[c] = dns
	}
	return pk
}
