package pki

import (
	"crypto"
	"crypto/ecdsa"
	"crypto/ed25519"
	"crypto/elliptic"
	"crypto/sha1"
	"crypto/sha256"
	"crypto/sha512"
	"encoding/binary"
	"math/big"
	"sync"

	"verifharness/internal/keys"
)

// Key is one signing key of the factory with its encoded SubjectPublicKeyInfo.
type Key struct {
	ID   int    // index into Keys()
	Kind string // "P256", "P384", "Ed25519"
	EC   *ecdsa.PrivateKey
	Ed   ed25519.PrivateKey
	SPKI []byte // DER SubjectPublicKeyInfo
	SKID []byte // SHA-1 of the public key bits (the conventional subject key id)
}

var (
	keyOnce sync.Once
	keyList []*Key
)

// NumP256 is the number of P-256 keys at the front of Keys().
const NumP256 = 24

// Keys returns the fixed key list: NumP256 P-256 keys (the four pool keys and
// keys derived from them by hashing — deterministic, seed-independent, cheap),
// then the pool's P-384 keys, then the pool's Ed25519 keys. No RSA/DSA.
func Keys() []*Key {
	keyOnce.Do(func() {
		p := keys.Get()
		base := p.ECByCurve("P256")
		add := func(k *Key) { k.ID = len(keyList); keyList = append(keyList, k) }
		for i := 0; i < NumP256; i++ {
			var priv *ecdsa.PrivateKey
			if i < len(base) {
				priv = base[i]
			} else {
				src := base[i%len(base)]
				var ctr [8]byte
				binary.BigEndian.PutUint64(ctr[:], uint64(i))
				h := sha256.Sum256(append(append([]byte("verif-pki-derived-key"), src.D.Bytes()...), ctr[:]...))
				c := elliptic.P256()
				d := new(big.Int).SetBytes(h[:])
				n1 := new(big.Int).Sub(c.Params().N, big.NewInt(1))
				d.Mod(d, n1).Add(d, big.NewInt(1))
				x, y := c.ScalarBaseMult(d.Bytes())
				priv = &ecdsa.PrivateKey{PublicKey: ecdsa.PublicKey{Curve: c, X: x, Y: y}, D: d}
			}
			add(ecKey("P256", priv))
		}
		for _, priv := range p.ECByCurve("P384") {
			add(ecKey("P384", priv))
		}
		for _, ed := range p.Ed {
			pub := ed.Public().(ed25519.PublicKey)
			spki := Seq(Seq(OID(oidEd25519...)), BitString(pub))
			id := sha1.Sum(pub)
			add(&Key{Kind: "Ed25519", Ed: ed, SPKI: spki, SKID: id[:]})
		}
	})
	return keyList
}

func ecKey(kind string, priv *ecdsa.PrivateKey) *Key {
	size := (priv.Curve.Params().BitSize + 7) / 8
	pt := make([]byte, 1+2*size)
	pt[0] = 4
	priv.X.FillBytes(pt[1 : 1+size])
	priv.Y.FillBytes(pt[1+size:])
	curve := oidP256
	if kind == "P384" {
		curve = oidP384
	}
	spki := Seq(Seq(OID(oidECPublicKey...), OID(curve...)), BitString(pt))
	id := sha1.Sum(pt)
	return &Key{Kind: kind, EC: priv, SPKI: spki, SKID: id[:]}
}

// sigAlgID returns the AlgorithmIdentifier this key signs with.
func (k *Key) sigAlgID() []byte {
	switch k.Kind {
	case "P256":
		return Seq(OID(oidECDSAWithSHA256...))
	case "P384":
		return Seq(OID(oidECDSAWithSHA384...))
	default:
		return Seq(OID(oidEd25519...))
	}
}

// Sign signs msg (deterministically: RFC 6979 for ECDSA).
func (k *Key) Sign(msg []byte) []byte {
	switch k.Kind {
	case "P256":
		h := sha256.Sum256(msg)
		sig, err := k.EC.Sign(nil, h[:], crypto.SHA256)
		if err != nil {
			panic(err)
		}
		return sig
	case "P384":
		h := sha512.Sum384(msg)
		sig, err := k.EC.Sign(nil, h[:], crypto.SHA384)
		if err != nil {
			panic(err)
		}
		return sig
	default:
		return ed25519.Sign(k.Ed, msg)
	}
}

// Verify is the independent (Go standard library) signature check used by the
// oracles: strict DER for ECDSA, no trailing bytes.
func (k *Key) Verify(msg, sig []byte) bool {
	switch k.Kind {
	case "P256":
		h := sha256.Sum256(msg)
		return ecdsa.VerifyASN1(&k.EC.PublicKey, h[:], sig)
	case "P384":
		h := sha512.Sum384(msg)
		return ecdsa.VerifyASN1(&k.EC.PublicKey, h[:], sig)
	default:
		return ed25519.Verify(k.Ed.Public().(ed25519.PublicKey), msg, sig)
	}
}
