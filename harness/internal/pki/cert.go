package pki

import (
	"bytes"
	"crypto/sha256"
	"encoding/hex"
	"fmt"
	"math/big"
	"time"
	"unicode/utf8"
)

// Name is a distinguished name of at most two RDNs: O (PrintableString) and CN.
type Name struct {
	O     string // "" = absent
	CN    []byte // nil = absent
	CNTag byte   // 0 = automatic: UTF8String when valid UTF-8, else T61String
}

// DER encodes the name.
func (n Name) DER() []byte {
	var rdns [][]byte
	if n.O != "" {
		rdns = append(rdns, Set(Seq(OID(OIDOrganization...), TLV(TagPrintable, []byte(n.O)))))
	}
	if n.CN != nil {
		tag := n.CNTag
		if tag == 0 {
			tag = TagUTF8
			if !utf8.Valid(n.CN) {
				tag = TagT61
			}
		}
		rdns = append(rdns, Set(Seq(OID(OIDCommonName...), TLV(tag, n.CN))))
	}
	return Seq(rdns...)
}

func (n Name) String() string { return fmt.Sprintf("O=%s,CN=%q", n.O, n.CN) }

// SAN describes a subjectAltName extension (present even when all lists are empty).
type SAN struct {
	DNS      [][]byte
	IPs      [][]byte // raw address octets (4 or 16 to be parsable)
	Emails   []string
	URIs     []string
	Critical bool
}

// Corruption says how the signature of a certificate was damaged after signing.
type Corruption int

const (
	CorruptNone     Corruption = iota
	CorruptSigBit              // one bit inside the signature value flipped
	CorruptTBS                 // the signature was made over a TBSCertificate with a different serial number
	CorruptTrailing            // bytes appended after the (otherwise genuine) signature
	CorruptZero                // signature replaced by one that encodes r = s = 1 (ECDSA) / zero bytes (Ed25519)
)

func (c Corruption) String() string {
	return [...]string{"none", "sig-bit", "tbs", "trailing", "zero"}[c]
}

// Spec is the intent of one certificate; after Build it is the ground truth.
type Spec struct {
	Label     string
	Version   int // 1 or 3 (0 = 3); a version-1 certificate carries no extensions
	Serial    *big.Int
	Subject   Name
	Issuer    Name
	Key       *Key // subject public key
	Signer    *Key // the key that really signs
	NotBefore time.Time
	NotAfter  time.Time

	HasBC      bool
	IsCA       bool
	PathLen    int // -1 = no pathLenConstraint
	BCCritical bool
	KeyUsage   []int   // named bits; nil = extension absent
	EKU        [][]int // nil = extension absent
	SKID       []byte  // nil = absent
	AKID       []byte  // nil = absent
	SAN        *SAN    // nil = extension absent
	Corrupt    Corruption
}

// Cert is a built certificate plus its ground truth.
type Cert struct {
	Spec       Spec
	DER        []byte
	TBS        []byte
	Sig        []byte
	SubjectDER []byte
	IssuerDER  []byte
	FP         [32]byte // SHA-256 of DER
}

// IsCAGroundTruth reports whether the certificate asserts basicConstraints cA.
func (c *Cert) IsCAGroundTruth() bool { return c.Spec.HasBC && c.Spec.IsCA }

// PathLimit returns the pathLenConstraint, ok=false when there is none.
func (c *Cert) PathLimit() (int, bool) {
	if c.Spec.HasBC && c.Spec.PathLen >= 0 {
		return c.Spec.PathLen, true
	}
	return 0, false
}

// SelfIssued reports issuer name == subject name (bytes).
func (c *Cert) SelfIssued() bool { return bytes.Equal(c.SubjectDER, c.IssuerDER) }

// SignedByKey is the ground truth: k made the signature and nothing was damaged afterwards.
func (c *Cert) SignedByKey(k *Key) bool {
	return c.Spec.Corrupt == CorruptNone && c.Spec.Signer.ID == k.ID
}

// VerifyStd re-verifies the signature with the Go standard library.
func (c *Cert) VerifyStd(k *Key) bool {
	if k.Kind != c.Spec.Signer.Kind { // algorithm identifier names the signer's algorithm
		return false
	}
	return k.Verify(c.TBS, c.Sig)
}

// FPHex is the hex SHA-256 fingerprint.
func (c *Cert) FPHex() string { return hex.EncodeToString(c.FP[:]) }

func ext(oid []int, critical bool, value []byte) []byte {
	if critical {
		return Seq(OID(oid...), Bool(true), Octet(value))
	}
	return Seq(OID(oid...), Octet(value))
}

func (s *Spec) tbs(serial *big.Int) []byte {
	var parts [][]byte
	v3 := s.Version != 1
	if v3 {
		parts = append(parts, Explicit(0, Int64(2)))
	}
	parts = append(parts, Int(serial), s.Signer.sigAlgID(), s.Issuer.DER(),
		Seq(Time(s.NotBefore), Time(s.NotAfter)), s.Subject.DER(), s.Key.SPKI)
	if v3 {
		var exts [][]byte
		if s.HasBC {
			var bc [][]byte
			if s.IsCA {
				bc = append(bc, Bool(true))
			}
			if s.PathLen >= 0 {
				bc = append(bc, Int64(int64(s.PathLen)))
			}
			exts = append(exts, ext(OIDExtBC, s.BCCritical, Seq(bc...)))
		}
		if s.KeyUsage != nil {
			exts = append(exts, ext(OIDExtKU, false, NamedBits(s.KeyUsage)))
		}
		if s.EKU != nil {
			var l [][]byte
			for _, o := range s.EKU {
				l = append(l, OID(o...))
			}
			exts = append(exts, ext(OIDExtEKU, false, Seq(l...)))
		}
		if s.SKID != nil {
			exts = append(exts, ext(OIDExtSKID, false, Octet(s.SKID)))
		}
		if s.AKID != nil {
			exts = append(exts, ext(OIDExtAKID, false, Seq(Implicit(0, s.AKID))))
		}
		if s.SAN != nil {
			var l [][]byte
			for _, e := range s.SAN.Emails {
				l = append(l, Implicit(1, []byte(e)))
			}
			for _, d := range s.SAN.DNS {
				l = append(l, Implicit(2, d))
			}
			for _, u := range s.SAN.URIs {
				l = append(l, Implicit(6, []byte(u)))
			}
			for _, ip := range s.SAN.IPs {
				l = append(l, Implicit(7, ip))
			}
			exts = append(exts, ext(OIDExtSAN, s.SAN.Critical, Seq(l...)))
		}
		if len(exts) > 0 {
			parts = append(parts, Explicit(3, Seq(exts...)))
		}
	}
	return Seq(parts...)
}

// Build writes and signs the certificate described by s.
func Build(s Spec) *Cert {
	if s.Version == 0 {
		s.Version = 3
	}
	if s.Version == 1 { // ground truth: a v1 certificate has no extensions
		s.HasBC, s.IsCA, s.PathLen, s.KeyUsage, s.EKU, s.SKID, s.AKID, s.SAN = false, false, -1, nil, nil, nil, nil, nil
	}
	if !s.HasBC {
		s.IsCA, s.PathLen = false, -1
	}
	if s.Serial == nil {
		s.Serial = big.NewInt(1)
	}
	tbs := s.tbs(s.Serial)
	var sig []byte
	switch s.Corrupt {
	case CorruptTBS:
		other := s.tbs(new(big.Int).Add(s.Serial, big.NewInt(1)))
		sig = s.Signer.Sign(other)
	default:
		sig = s.Signer.Sign(tbs)
	}
	switch s.Corrupt {
	case CorruptSigBit:
		sig = append([]byte(nil), sig...)
		// flip a bit in the last content byte (inside s for ECDSA, inside S for Ed25519): the DER stays well-formed
		sig[len(sig)-1] ^= 0x04
	case CorruptTrailing:
		sig = append(append([]byte(nil), sig...), 0x01, 0x02, 0x03)
	case CorruptZero:
		if s.Signer.Kind == "Ed25519" {
			sig = make([]byte, 64)
		} else {
			sig = Seq(Int64(1), Int64(1))
		}
	}
	der := Seq(tbs, s.Signer.sigAlgID(), BitString(sig))
	c := &Cert{Spec: s, DER: der, TBS: tbs, Sig: sig, SubjectDER: s.Subject.DER(), IssuerDER: s.Issuer.DER()}
	c.FP = sha256.Sum256(der)
	return c
}

// Universe is a set of built certificates indexed by fingerprint.
type Universe struct {
	Certs []*Cert
	byFP  map[[32]byte]*Cert
}

// Add appends a certificate (byte-identical duplicates keep the first ground truth).
func (u *Universe) Add(c *Cert) *Cert {
	if u.byFP == nil {
		u.byFP = map[[32]byte]*Cert{}
	}
	if old, ok := u.byFP[c.FP]; ok {
		return old
	}
	u.byFP[c.FP] = c
	u.Certs = append(u.Certs, c)
	return c
}

// ByRaw finds the ground truth of a certificate by its DER bytes.
func (u *Universe) ByRaw(der []byte) *Cert {
	return u.byFP[sha256.Sum256(der)]
}

// Describe renders a short human-readable listing (for violation details).
func (u *Universe) Describe() string {
	var b bytes.Buffer
	for i, c := range u.Certs {
		s := c.Spec
		fmt.Fprintf(&b, "#%d %s v%d subj{%s} iss{%s} key=%d signer=%d corrupt=%s bc=%v ca=%v pathlen=%d ku=%v eku=%v nb=%s na=%s skid=%x akid=%x\n",
			i, s.Label, s.Version, s.Subject, s.Issuer, s.Key.ID, s.Signer.ID, s.Corrupt, s.HasBC, s.IsCA, s.PathLen, s.KeyUsage, s.EKU,
			s.NotBefore.UTC().Format(time.RFC3339), s.NotAfter.UTC().Format(time.RFC3339), s.SKID, s.AKID)
	}
	return b.String()
}
