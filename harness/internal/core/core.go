// Package core is the shared runtime of the /verif monitors: the child-side
// context that engines report into (cases, violations, counters, distinct
// signatures, samples) and the totality guard (panic / hang / allocation).
//
// A property engine is a function Run(*Ctx). The supervisor (cmd/vcheck) runs
// it in child processes, one per shard, so that a fatal runtime error (race
// detector abort, concurrent map write, stack overflow) ends one shard only and
// leaves the offending case on disk: Begin() is flushed before the case runs.
package core

import (
	"bufio"
	"encoding/hex"
	"encoding/json"
	"fmt"
	"hash/fnv"
	"math/rand/v2"
	"os"
	"regexp"
	"runtime"
	"runtime/debug"
	"sort"
	"strings"
	"sync"
	"time"
)

// Engine is the entry point of one property's monitor.
type Engine func(c *Ctx)

var registry = map[string]Engine{}

// Register makes an engine available under a property id ("C07").
func Register(prop string, e Engine) {
	if _, dup := registry[prop]; dup {
		panic("duplicate engine for " + prop)
	}
	registry[prop] = e
}

// Lookup returns the engine of a property.
func Lookup(prop string) (Engine, bool) { e, ok := registry[prop]; return e, ok }

// Props lists the registered property ids.
func Props() []string {
	var out []string
	for k := range registry {
		out = append(out, k)
	}
	sort.Strings(out)
	return out
}

// Record is one line of the child → supervisor protocol.
type Record struct {
	T        string           `json:"t"` // begin | end | viol | done | note
	Case     string           `json:"case,omitempty"`
	Input    any              `json:"input,omitempty"`
	Key      string           `json:"key,omitempty"`
	Detail   string           `json:"detail,omitempty"`
	Evals    int64            `json:"evals,omitempty"`
	Counters map[string]int64 `json:"counters,omitempty"`
	Sigs     []uint64         `json:"sigs,omitempty"`
	SigExtra int64            `json:"sig_extra,omitempty"`
	Samples  []any            `json:"samples,omitempty"`
	Exh      map[string]int64 `json:"exhaustive,omitempty"`
	Notes    []string         `json:"notes,omitempty"`
}

// Ctx is what an engine sees.
type Ctx struct {
	Prop     string
	Tier     string // quick | thorough
	Seed     int64
	Shard    int
	NShards  int
	OnlyCase string // replay: run only the case with this id (engines may ignore)
	Replay   json.RawMessage
	Race     bool   // binary built with -race
	Leg      string // "main" or "race"
	Rng      *rand.Rand

	mu       sync.Mutex
	w        *bufio.Writer
	f        *os.File
	evals    int64
	counters map[string]int64
	sigs     map[uint64]struct{}
	sigExtra int64
	samples  []any
	exh      map[string]int64
	notes    []string
	nviol    int
	violKeys map[string]int
}

// MaxSigs bounds the number of distinct signatures shipped to the supervisor.
const MaxSigs = 400000

// NewCtx builds a context writing protocol lines to path.
func NewCtx(prop, tier string, seed int64, shard, nshards int, path string) (*Ctx, error) {
	f, err := os.Create(path)
	if err != nil {
		return nil, err
	}
	c := &Ctx{Prop: prop, Tier: tier, Seed: seed, Shard: shard, NShards: nshards,
		f: f, w: bufio.NewWriterSize(f, 1<<16),
		counters: map[string]int64{}, sigs: map[uint64]struct{}{}, exh: map[string]int64{},
		violKeys: map[string]int{}}
	c.Rng = c.SubRng("main")
	return c, nil
}

// Thorough reports whether the thorough tier was requested.
func (c *Ctx) Thorough() bool { return c.Tier == "thorough" }

// Pick returns q for the quick tier and t for the thorough tier.
func (c *Ctx) Pick(q, t int) int {
	if c.Thorough() {
		return t
	}
	return q
}

// PerShard splits a total case count over the shards (this shard's share).
func (c *Ctx) PerShard(total int) int {
	n := total / c.NShards
	if c.Shard < total%c.NShards {
		n++
	}
	return n
}

// SubRng derives an independent deterministic stream from (seed, property, shard, label).
func (c *Ctx) SubRng(label string) *rand.Rand {
	h := fnv.New64a()
	fmt.Fprintf(h, "%s|%d|%s", c.Prop, c.Shard, label)
	return rand.New(rand.NewPCG(uint64(c.Seed), h.Sum64()))
}

// GlobalRng derives a stream that is the same in every shard (for universes shared by shards).
func (c *Ctx) GlobalRng(label string) *rand.Rand {
	h := fnv.New64a()
	fmt.Fprintf(h, "%s|global|%s", c.Prop, label)
	return rand.New(rand.NewPCG(uint64(c.Seed), h.Sum64()))
}

func (c *Ctx) emit(r Record, flush bool) {
	b, err := json.Marshal(r)
	if err != nil {
		b, _ = json.Marshal(Record{T: r.T, Case: r.Case, Key: r.Key, Detail: r.Detail + " (input not serialisable: " + err.Error() + ")"})
	}
	c.w.Write(b)
	c.w.WriteByte('\n')
	if flush {
		c.w.Flush()
	}
}

// Begin logs a case before it runs (flushed, so a fatal error leaves it on disk).
// Use it for cases that can take the process down; cheap cases may skip it.
func (c *Ctx) Begin(id string, input any) {
	c.mu.Lock()
	defer c.mu.Unlock()
	c.emit(Record{T: "begin", Case: id, Input: input}, true)
}

// End marks the case started by Begin as finished.
func (c *Ctx) End(id string) {
	c.mu.Lock()
	defer c.mu.Unlock()
	c.emit(Record{T: "end", Case: id}, false)
}

// Eval counts executed cases.
func (c *Ctx) Eval(n int) {
	c.mu.Lock()
	c.evals += int64(n)
	c.mu.Unlock()
}

// Count adds to a named counter that ends up in the evidence file.
func (c *Ctx) Count(name string, n int) {
	c.mu.Lock()
	c.counters[name] += int64(n)
	c.mu.Unlock()
}

// Max keeps the maximum of a named counter.
func (c *Ctx) Max(name string, v int) {
	c.mu.Lock()
	if int64(v) > c.counters["max_"+name] {
		c.counters["max_"+name] = int64(v)
	}
	c.mu.Unlock()
}

// Nontrivial records the signature of a case that satisfied the property's
// non-triviality rule; distinct signatures are counted across shards.
func (c *Ctx) Nontrivial(sig ...any) {
	h := fnv.New64a()
	for _, s := range sig {
		switch v := s.(type) {
		case []byte:
			h.Write(v)
		case string:
			h.Write([]byte(v))
		default:
			fmt.Fprintf(h, "%v", v)
		}
		h.Write([]byte{0})
	}
	k := h.Sum64()
	c.mu.Lock()
	if _, ok := c.sigs[k]; !ok {
		if len(c.sigs) < MaxSigs {
			c.sigs[k] = struct{}{}
		} else {
			// beyond the cap distinctness is no longer measured; counted
			// separately and reported as such, never added to the distinct count
			c.counters["nontrivial_beyond_sig_cap"]++
		}
	}
	c.mu.Unlock()
}

// NontrivialEnumerated adds n cases that are distinct by construction
// (an enumeration visits each element once) and non-trivial.
func (c *Ctx) NontrivialEnumerated(n int64) {
	c.mu.Lock()
	c.sigExtra += n
	c.mu.Unlock()
}

// Exhaustive records that a finite sub-space of the given size was visited completely.
func (c *Ctx) Exhaustive(space string, size int64) {
	c.mu.Lock()
	c.exh[space] += size
	c.mu.Unlock()
}

// Sample keeps an actual case for the evidence file (first few per shard).
func (c *Ctx) Sample(v any) {
	c.mu.Lock()
	if len(c.samples) < 4 {
		c.samples = append(c.samples, v)
	}
	c.mu.Unlock()
}

// WantSample reports whether another sample would be kept.
func (c *Ctx) WantSample() bool {
	c.mu.Lock()
	defer c.mu.Unlock()
	return len(c.samples) < 4
}

// Note attaches a free-text remark to the evidence.
func (c *Ctx) Note(format string, a ...any) {
	c.mu.Lock()
	if len(c.notes) < 20 {
		c.notes = append(c.notes, fmt.Sprintf(format, a...))
	}
	c.mu.Unlock()
}

// Violation reports a refutation. key identifies *what fails* (stable across
// seeds, no case ids, no line numbers); detail is free text; input is the
// concrete witness that goes to the replay file.
func (c *Ctx) Violation(key, detail, caseID string, input any) {
	c.mu.Lock()
	defer c.mu.Unlock()
	c.nviol++
	c.violKeys[key]++
	if c.violKeys[key] > 3 { // keep three witnesses per key and shard
		return
	}
	if len(detail) > 6000 {
		detail = detail[:6000] + "…"
	}
	c.emit(Record{T: "viol", Key: key, Detail: detail, Case: caseID, Input: input}, true)
}

// Finish writes the summary line.
func (c *Ctx) Finish() {
	c.mu.Lock()
	defer c.mu.Unlock()
	sigs := make([]uint64, 0, len(c.sigs))
	for k := range c.sigs {
		sigs = append(sigs, k)
	}
	for k, n := range c.violKeys {
		c.counters["viol:"+k] = int64(n)
	}
	c.emit(Record{T: "done", Evals: c.evals, Counters: c.counters, Sigs: sigs, SigExtra: c.sigExtra,
		Samples: c.samples, Exh: c.exh, Notes: c.notes}, true)
	c.f.Close()
}

// ---------------------------------------------------------------------------
// Totality guard

// PanicInfo describes a recovered panic.
type PanicInfo struct {
	Value string
	Key   string // value class @ first zcrypto frame (no line numbers)
	Stack string
}

var (
	reNum   = regexp.MustCompile(`\b(0x[0-9a-fA-F]+|\d+)\b`)
	reFrame = regexp.MustCompile(`(?m)^(github\.com/zmap/zcrypto\S*)\(`)
)

// Classify turns a panic value and stack into a stable witness key.
func Classify(v any, stack string) string {
	val := fmt.Sprint(v)
	if i := strings.IndexByte(val, '\n'); i >= 0 {
		val = val[:i]
	}
	val = reNum.ReplaceAllString(val, "N")
	if len(val) > 100 {
		val = val[:100]
	}
	frame := "?"
	// first zcrypto frame below the panic machinery
	for _, m := range reFrame.FindAllStringSubmatch(stack, -1) {
		f := m[1]
		f = strings.TrimPrefix(f, "github.com/zmap/zcrypto/")
		frame = f
		break
	}
	return "panic:" + val + "@" + frame
}

// Guard runs f and recovers a panic.
func Guard(f func()) (pi *PanicInfo) {
	defer func() {
		if r := recover(); r != nil {
			st := string(debug.Stack())
			pi = &PanicInfo{Value: fmt.Sprint(r), Stack: st, Key: Classify(r, st)}
		}
	}()
	f()
	return nil
}

// GuardResult is the observation of one guarded call.
type GuardResult struct {
	Panic    *PanicInfo
	Hang     bool
	HangDump string
	Alloc    uint64 // bytes allocated during the call (whole process; run one worker per child)
}

// AllocLimit is the "far beyond the input size" rule: 64 MiB + 4096 × len(input).
func AllocLimit(inputLen int) uint64 { return 64<<20 + 4096*uint64(inputLen) }

// GuardFull runs f on a worker goroutine with a generous wall-clock budget and
// measures allocation. A hang cannot be cancelled: the caller must end the
// child after reporting it.
func GuardFull(budget time.Duration, measureAlloc bool, f func()) GuardResult {
	var res GuardResult
	var before runtime.MemStats
	if measureAlloc {
		runtime.ReadMemStats(&before)
	}
	done := make(chan *PanicInfo, 1)
	go func() { done <- Guard(f) }()
	t := time.NewTimer(budget)
	select {
	case pi := <-done:
		t.Stop()
		res.Panic = pi
	case <-t.C:
		buf := make([]byte, 1<<20)
		n := runtime.Stack(buf, true)
		res.Hang = true
		res.HangDump = string(buf[:n])
	}
	if measureAlloc {
		var after runtime.MemStats
		runtime.ReadMemStats(&after)
		res.Alloc = after.TotalAlloc - before.TotalAlloc
	}
	return res
}

// Hex abbreviates bytes for samples.
func Hex(b []byte) string {
	if len(b) <= 48 {
		return hex.EncodeToString(b)
	}
	return fmt.Sprintf("%s…(%d bytes)", hex.EncodeToString(b[:48]), len(b))
}

// FullHex is for replay inputs.
func FullHex(b []byte) string { return hex.EncodeToString(b) }
