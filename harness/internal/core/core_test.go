package core

import "testing"

func TestClassify(t *testing.T) {
	st := "goroutine 1 [running]:\nruntime/debug.Stack()\n\t/x/stack.go:26 +0x5e\npanic({0x1, 0x2})\n\t/x/panic.go:1\ngithub.com/zmap/zcrypto/x509.(*CertPool).Contains(0xc000, {0x1, 0x2})\n\t/repo/x509/cert_pool.go:80 +0x1\n"
	k := Classify("runtime error: index out of range [3] with length 2", st)
	want := "panic:runtime error: index out of range [N] with length N@x509.(*CertPool).Contains"
	if k != want {
		t.Fatalf("got %q want %q", k, want)
	}
}
