package core

// Meta is the static description of a property's monitor; it feeds the evidence file.
type Meta struct {
	// Rule says how cases are generated and what makes one non-trivial / distinct.
	Rule string
	// MinNontrivial is the floor below which a run is inconclusive (observed nothing).
	// It is set at <= 50% of the minimum measured over calibration seeds.
	MinNontrivial int64
	// MinNontrivialThorough is the floor for the thorough tier (0 = same as quick).
	MinNontrivialThorough int64
	// Shards is the number of child processes of the plain leg (0 = 16).
	Shards int
	// RaceShards > 0 adds a leg executed by the -race binary (ctx.Leg == "race").
	RaceShards int
	// GoMaxProcs, if > 0, is exported as GOMAXPROCS to plain-leg children.
	GoMaxProcs int
	// Env is extra environment for the children (e.g. GODEBUG).
	Env []string
	// Assumptions lists what the oracle trusts.
	Assumptions []string
	// RacePkgs: a race report is attributed to the property if a stack contains one of these substrings.
	RacePkgs []string
	// ChildTimeoutQuick / Thorough are watchdogs in seconds (0 = defaults).
	ChildTimeoutQuick    int
	ChildTimeoutThorough int
}

var metas = map[string]Meta{}

// RegisterMeta registers an engine together with its description.
func RegisterMeta(prop string, m Meta, e Engine) {
	Register(prop, e)
	metas[prop] = m
}

// MetaOf returns the description of a property's monitor.
func MetaOf(prop string) Meta { return metas[prop] }
